import TTLemmas.ManifoldL
import Mathlib.Algebra.BigOperators.Fin
import Mathlib.Tactic.IntervalCases

/-!
# C16 — `_delta2cores` / `riemannian_projection` (`torchtt/manifold.py`)

Model: `TTModel/Manifold.lean` (`delta2cores`, `projSd`, `projSds`, `project`).  Everything is over an
arbitrary commutative ring `α`, for every order `d ≥ 2`, all mode sizes and all rank profiles.

Vocabulary (defined in `TTLemmas/ManifoldL.lean`, namespace `TT.Manifold`):

* `SameRanks ls rs ds ρ` — the three core lists have the same length and share one rank profile
  `ρ = ρ_k, ρ_{k+1}, …, ρ_d = 1`: `ls[k].r0 = rs[k].r0 = ds[k].r0 = ρ_k` and
  `ls[k].r1 = rs[k].r1 = ds[k].r1 = ρ_{k+1}`.  `SameRanks ls rs ds 1` is the hypothesis "`L`, `R`, `δ`
  have the TT ranks `(1, r_1, …, r_{d-1}, 1)` of the base point".
* `tangentTerm ls rs ds k = ls.take k ++ (ds.drop k).take 1 ++ rs.drop (k+1)`, i.e. for `k < d` the
  train `L_0 ⋯ L_{k-1} · δ_k · R_{k+1} ⋯ R_{d-1}` (`tangentTerm_eq`).
* `addC`, `smulC` (entrywise sum / scaling of cores), `addP`, `smulP` (same for interface matrices).
* `LeftOrth l` : `Σ_{a,i,j} l[a,i,j,b]·l[a,i,j,b'] = δ_{bb'}`; `LeftOrthInit ls` : all cores but the
  last are `LeftOrth`.

Results:

1. `full_delta2cores` (+ `full_delta2cores_fin`): the rank-`2r` train built by `_delta2cores`
   represents exactly `Σ_{k<d} L_0 ⋯ L_{k-1} δ_k R_{k+1} ⋯ R_{d-1}`.
2. `WF_delta2cores`, `length_delta2cores`, `ranks_delta2cores`, `ranks_twice`, `ranks_ends`,
   `ranks_le`: the result is a well-formed train whose interior ranks are exactly twice those of
   the base point.  `WF_project`, `ranks_project_le`: the same for `riemannian_projection`.
3. multilinearity of the kernels of `riemannian_projection`: `projSd_add_z`, `projSd_smul_z`,
   `projSd_add_L`, `projSd_smul_L`, `projSd_add_R`, `projSd_smul_R`, `pleftStep_*`, `prightStep_*`,
   and linearity of `_delta2cores` in the variations: `full_delta2cores_add`, `full_delta2cores_smul`.
   Full statement: `project_add`, `project_smul` — `riemannian_projection(x, ·)` is a linear map of
   the represented tensor `z` (TT sum `add`, scaling `scaleFirst`), for `z` of arbitrary ranks.
4. `proj_fixed`: if `ls` is left-orthonormal (all cores but the last), then projecting the tensor
   represented by `ls` onto the tangent space at itself returns it: `full (project ls rs ls) = full ls`.
   (No hypothesis on the values of `rs` is needed, only its rank profile.)
5. `example`s: non-vacuity on concrete order-3 `Int` cores with ranks `(1,2,2,1)`.
-/
namespace TT.C16
open TT TT.Kern TT.Manifold Finset
variable {α : Type} [CommRing α]

/-! ### (1) value of `_delta2cores` -/

omit [CommRing α] in
/-- the `k`-th tangent term is `L_0 ⋯ L_{k-1} · δ_k · R_{k+1} ⋯ R_{d-1}` -/
theorem tangentTerm_eq (ls rs ds : List (Core α)) (k : Nat) (hk : k < ds.length) :
    tangentTerm ls rs ds k = ls.take k ++ [ds[k]] ++ rs.drop (k + 1) := by
  have e : (ds.drop k).take 1 = [ds[k]] := by
    rw [List.drop_eq_getElem_cons hk]; rfl
  unfold tangentTerm
  rw [e]

/-- **`_delta2cores` represents the sum of the `d` tangent terms.** -/
theorem full_delta2cores (ls rs ds : List (Core α)) (ij : List (Nat × Nat))
    (hs : SameRanks ls rs ds 1) (h2 : 2 ≤ ls.length) (hil : ij.length = ls.length) :
    full (delta2cores ls rs ds) ij =
      sumTo ls.length (fun k => full (tangentTerm ls rs ds k) ij) := by
  obtain ⟨hr, hd⟩ := mf_SameRanks_length ls rs ds 1 hs
  rw [mf_full_delta2cores ls rs ds ij hs h2 hil, mf_tsum_eq_sum ls rs ds ij hr hd hil 0]
  rfl

/-- the same statement with the explicit trains `ls.take k ++ [ds[k]] ++ rs.drop (k+1)` -/
theorem full_delta2cores_fin (ls rs ds : List (Core α)) (ij : List (Nat × Nat))
    (hs : SameRanks ls rs ds 1) (h2 : 2 ≤ ls.length) (hil : ij.length = ls.length) :
    full (delta2cores ls rs ds) ij =
      ∑ k : Fin ds.length, full (ls.take k ++ [ds[k]] ++ rs.drop (k + 1)) ij := by
  obtain ⟨_, hd⟩ := mf_SameRanks_length ls rs ds 1 hs
  rw [full_delta2cores ls rs ds ij hs h2 hil, sumTo_eq_sum, ← hd,
    ← Fin.sum_univ_eq_sum_range (fun k => full (tangentTerm ls rs ds k) ij)]
  exact Finset.sum_congr rfl (fun k _ => by rw [tangentTerm_eq ls rs ds k k.isLt]; rfl)

/-! ### (2) well-formedness and ranks -/

theorem WF_delta2cores (ls rs ds : List (Core α)) (hs : SameRanks ls rs ds 1) (h2 : 2 ≤ ls.length) :
    WF (delta2cores ls rs ds) 1 := (mf_delta2cores_spec ls rs ds hs h2).1

theorem length_delta2cores (ls rs ds : List (Core α)) (hs : SameRanks ls rs ds 1)
    (h2 : 2 ≤ ls.length) : (delta2cores ls rs ds).length = ls.length :=
  (mf_delta2cores_spec ls rs ds hs h2).2.1

/-- the rank vector of the result: `1`, then every right rank of the base point doubled except
    the last one (`mf_dblInit` doubles all entries of a list but the last) -/
theorem ranks_delta2cores (ls rs ds : List (Core α)) (hs : SameRanks ls rs ds 1) (h2 : 2 ≤ ls.length) :
    ranks (delta2cores ls rs ds) = 1 :: mf_dblInit (ls.map (·.r1)) :=
  (mf_delta2cores_spec ls rs ds hs h2).2.2

omit [CommRing α] in
theorem ranks_getD_succ (ls : List (Core α)) (hne : ls ≠ []) (k : Nat) :
    (ranks ls).getD (k + 1) 0 = (ls.map (·.r1)).getD k 0 := by
  match ls, hne with
  | l :: ls, _ => simp [ranks]

/-- every interior rank of the result is exactly twice the rank of the base point -/
theorem ranks_twice (ls rs ds : List (Core α)) (hs : SameRanks ls rs ds 1) (h2 : 2 ≤ ls.length)
    (k : Nat) (h0 : 0 < k) (hk : k < ls.length) :
    (ranks (delta2cores ls rs ds)).getD k 0 = 2 * (ranks ls).getD k 0 := by
  obtain ⟨k', rfl⟩ : ∃ k', k = k' + 1 := ⟨k - 1, by omega⟩
  have hne : ls ≠ [] := by intro h; simp [h] at h2
  rw [ranks_delta2cores ls rs ds hs h2, ranks_getD_succ ls hne]
  simp only [List.getD_cons_succ]
  exact mf_dblInit_getD_lt _ k' (by simpa using hk)

/-- the boundary ranks of the result are those of the base point (both `1`) -/
theorem ranks_ends (ls rs ds : List (Core α)) (hs : SameRanks ls rs ds 1) (h2 : 2 ≤ ls.length) :
    (ranks (delta2cores ls rs ds)).getD 0 0 = 1 ∧
    (ranks (delta2cores ls rs ds)).getD ls.length 0 = (ranks ls).getD ls.length 0 := by
  have hne : ls ≠ [] := by intro h; simp [h] at h2
  obtain ⟨n, hn⟩ : ∃ n, ls.length = n + 1 := ⟨ls.length - 1, by omega⟩
  rw [ranks_delta2cores ls rs ds hs h2, hn, ranks_getD_succ ls hne]
  refine ⟨by simp, ?_⟩
  simp only [List.getD_cons_succ]
  exact mf_dblInit_getD_last _ n (by simp [hn])

/-- clause "the ranks of the result are at most twice those of `x`", at every position -/
theorem ranks_le (ls rs ds : List (Core α)) (hs : SameRanks ls rs ds 1) (h2 : 2 ≤ ls.length)
    (k : Nat) : (ranks (delta2cores ls rs ds)).getD k 0 ≤ 2 * (ranks ls).getD k 0 := by
  have hne : ls ≠ [] := by intro h; simp [h] at h2
  rw [ranks_delta2cores ls rs ds hs h2]
  cases k with
  | zero =>
    match ls, hne, hs with
    | l :: ls, _, hs =>
      match rs, ds, hs with
      | r :: rs, d :: ds, hs => simp [ranks, hs.1]
  | succ k =>
    rw [ranks_getD_succ ls hne]
    simp only [List.getD_cons_succ]
    exact mf_dblInit_getD_le _ k

/-- the variations computed by `riemannian_projection` have the rank profile of the base point
    (`z` may have any ranks) -/
theorem SameRanks_projSds (ls rs zs : List (Core α)) (hs : SameRanks ls rs ls 1) (hz : WF zs 1)
    (hlen : zs.length = ls.length) (hne : ls ≠ []) :
    SameRanks ls rs (projSds ls rs zs) 1 := mf_SameRanks_projSds ls rs zs hs hz hlen hne

/-- `riemannian_projection(x, z)` is a well-formed train for every `z` of the same order -/
theorem WF_project (ls rs zs : List (Core α)) (hs : SameRanks ls rs ls 1) (hz : WF zs 1)
    (hlen : zs.length = ls.length) (h2 : 2 ≤ ls.length) :
    WF (project ls rs zs) 1 :=
  WF_delta2cores ls rs _ (SameRanks_projSds ls rs zs hs hz hlen (by intro h; simp [h] at h2)) h2

/-- … whose ranks are at most twice those of `x`, whatever the ranks of `z` -/
theorem ranks_project_le (ls rs zs : List (Core α)) (hs : SameRanks ls rs ls 1) (hz : WF zs 1)
    (hlen : zs.length = ls.length) (h2 : 2 ≤ ls.length) (k : Nat) :
    (ranks (project ls rs zs)).getD k 0 ≤ 2 * (ranks ls).getD k 0 :=
  ranks_le ls rs _ (SameRanks_projSds ls rs zs hs hz hlen (by intro h; simp [h] at h2)) h2 k

/-! ### (3) multilinearity of the kernels -/

/-- `Pleft` update is additive / homogeneous in the core of `z` and in the incoming matrix -/
theorem pleftStep_add_z (P : Phi2 α) (l z w : Core α) (h0 : w.r0 = z.r0) (R S : Nat) :
    pleftStep P l (addC z w) R S = pleftStep P l z R S + pleftStep P l w R S :=
  mf_pleftStep_add_z P l z w h0 R S
theorem pleftStep_smul_z (c : α) (P : Phi2 α) (l z : Core α) (R S : Nat) :
    pleftStep P l (smulC c z) R S = c * pleftStep P l z R S := mf_pleftStep_smul_z c P l z R S
theorem pleftStep_add_P (P Q : Phi2 α) (l z : Core α) (R S : Nat) :
    pleftStep (addP P Q) l z R S = pleftStep P l z R S + pleftStep Q l z R S :=
  mf_pleftStep_add_P P Q l z R S
theorem pleftStep_smul_P (c : α) (P : Phi2 α) (l z : Core α) (R S : Nat) :
    pleftStep (smulP c P) l z R S = c * pleftStep P l z R S := mf_pleftStep_smul_P c P l z R S

theorem prightStep_add_z (P : Phi2 α) (rc z w : Core α) (h1 : w.r1 = z.r1) (r s : Nat) :
    prightStep P rc (addC z w) r s = prightStep P rc z r s + prightStep P rc w r s :=
  mf_prightStep_add_z P rc z w h1 r s
theorem prightStep_smul_z (c : α) (P : Phi2 α) (rc z : Core α) (r s : Nat) :
    prightStep P rc (smulC c z) r s = c * prightStep P rc z r s := mf_prightStep_smul_z c P rc z r s
theorem prightStep_add_P (P Q : Phi2 α) (rc z : Core α) (r s : Nat) :
    prightStep (addP P Q) rc z r s = prightStep P rc z r s + prightStep Q rc z r s :=
  mf_prightStep_add_P P Q rc z r s
theorem prightStep_smul_P (c : α) (P : Phi2 α) (rc z : Core α) (r s : Nat) :
    prightStep (smulP c P) rc z r s = c * prightStep P rc z r s := mf_prightStep_smul_P c P rc z r s

/-- the gauge-projected variation is additive in the core `z_k` (`L`, `R` fixed); `Rm = none` is the
    last core, `Rm = some R` every other core -/
theorem projSd_add_z (L : Phi2 α) (Rm : Option (Phi2 α)) (rR : Nat) (l z w : Core α)
    (h0 : w.r0 = z.r0) (h1 : w.r1 = z.r1) (r i j R : Nat) :
    (projSd L Rm rR l (addC z w)).get r i j R =
      (projSd L Rm rR l z).get r i j R + (projSd L Rm rR l w).get r i j R :=
  mf_projSd_add_z L Rm rR l z w h0 h1 r i j R

theorem projSd_smul_z (c : α) (L : Phi2 α) (Rm : Option (Phi2 α)) (rR : Nat) (l z : Core α)
    (r i j R : Nat) :
    (projSd L Rm rR l (smulC c z)).get r i j R = c * (projSd L Rm rR l z).get r i j R :=
  mf_projSd_smul_z c L Rm rR l z r i j R

/-- … additive / homogeneous in the left interface matrix `L` (`z_k`, `R` fixed) -/
theorem projSd_add_L (L M : Phi2 α) (Rm : Option (Phi2 α)) (rR : Nat) (l z : Core α)
    (r i j R : Nat) :
    (projSd (addP L M) Rm rR l z).get r i j R =
      (projSd L Rm rR l z).get r i j R + (projSd M Rm rR l z).get r i j R :=
  mf_projSd_add_L L M Rm rR l z r i j R

theorem projSd_smul_L (c : α) (L : Phi2 α) (Rm : Option (Phi2 α)) (rR : Nat) (l z : Core α)
    (r i j R : Nat) :
    (projSd (smulP c L) Rm rR l z).get r i j R = c * (projSd L Rm rR l z).get r i j R :=
  mf_projSd_smul_L c L Rm rR l z r i j R

/-- … and in the right interface matrix `R` (`L`, `z_k` fixed) -/
theorem projSd_add_R (L Rp Rq : Phi2 α) (rR : Nat) (l z : Core α) (r i j R : Nat) :
    (projSd L (some (addP Rp Rq)) rR l z).get r i j R =
      (projSd L (some Rp) rR l z).get r i j R + (projSd L (some Rq) rR l z).get r i j R :=
  mf_projSd_add_R L Rp Rq rR l z r i j R

theorem projSd_smul_R (c : α) (L Rp : Phi2 α) (rR : Nat) (l z : Core α) (r i j R : Nat) :
    (projSd L (some (smulP c Rp)) rR l z).get r i j R =
      c * (projSd L (some Rp) rR l z).get r i j R :=
  mf_projSd_smul_R c L Rp rR l z r i j R

/-- `_delta2cores` is additive in the list of variations -/
theorem full_delta2cores_add (ls rs ds es : List (Core α)) (ij : List (Nat × Nat))
    (hd : SameRanks ls rs ds 1) (he : SameRanks ls rs es 1) (h2 : 2 ≤ ls.length)
    (hil : ij.length = ls.length) :
    full (delta2cores ls rs (List.zipWith addC ds es)) ij =
      full (delta2cores ls rs ds) ij + full (delta2cores ls rs es) ij := by
  obtain ⟨_, hdl⟩ := mf_SameRanks_length ls rs ds 1 hd
  obtain ⟨_, hel⟩ := mf_SameRanks_length ls rs es 1 he
  rw [mf_full_delta2cores _ _ _ _ (mf_SameRanks_zipWith_addC ls rs ds es 1 hd he) h2 hil,
    mf_full_delta2cores _ _ _ _ hd h2 hil, mf_full_delta2cores _ _ _ _ he h2 hil]
  exact mf_tsum_add ls rs ds es ij (by omega) (mf_SameRanks_zip_r1 ls rs ds es 1 hd he) 0

/-- `_delta2cores` is homogeneous in the list of variations -/
theorem full_delta2cores_smul (c : α) (ls rs ds : List (Core α)) (ij : List (Nat × Nat))
    (hd : SameRanks ls rs ds 1) (h2 : 2 ≤ ls.length) (hil : ij.length = ls.length) :
    full (delta2cores ls rs (ds.map (smulC c))) ij = c * full (delta2cores ls rs ds) ij := by
  rw [mf_full_delta2cores _ _ _ _ (mf_SameRanks_map_smulC c ls rs ds 1 hd) h2 hil,
    mf_full_delta2cores _ _ _ _ hd h2 hil]
  exact mf_tsum_smul c ls rs ds ij 0


/-- **`riemannian_projection` is additive in `z`**: for any two trains `zs`, `ws` of the order of `x`
    (arbitrary ranks and mode sizes), projecting the TT sum `add zs ws` (block cores of `TT.__add__`)
    gives, as a tensor, the sum of the projections. -/
theorem project_add (ls rs zs ws : List (Core α)) (ij : List (Nat × Nat))
    (hs : SameRanks ls rs ls 1) (hz : WF zs 1) (hw : WF ws 1)
    (hlz : zs.length = ls.length) (hlw : ws.length = ls.length) (h2 : 2 ≤ ls.length)
    (hil : ij.length = ls.length) :
    full (project ls rs (add zs ws)) ij = full (project ls rs zs) ij + full (project ls rs ws) ij :=
  mf_project_add ls rs zs ws ij hs hz hw hlz hlw h2 hil

/-- **`riemannian_projection` is homogeneous in `z`** (`c·z` = first core scaled, `scaleFirst`). -/
theorem project_smul (c : α) (ls rs zs : List (Core α)) (ij : List (Nat × Nat))
    (hs : SameRanks ls rs ls 1) (hz : WF zs 1) (hlz : zs.length = ls.length) (h2 : 2 ≤ ls.length)
    (hil : ij.length = ls.length) :
    full (project ls rs (scaleFirst c zs)) ij = c * full (project ls rs zs) ij :=
  mf_project_smul c ls rs zs ij hs hz hlz h2 hil

/-! ### (4) the projection fixes the base point -/

/-- If `x = L_0 ⋯ L_{d-2} · C` is given in left-orthogonal gauge (`ls`, all cores but the last
    left-orthonormal) then `riemannian_projection(x, x) = x` as tensors.  `rs` only needs to have the
    rank profile of `ls`. -/
theorem proj_fixed (ls rs : List (Core α)) (ij : List (Nat × Nat))
    (hs : SameRanks ls rs ls 1) (ho : LeftOrthInit ls) (h2 : 2 ≤ ls.length)
    (hil : ij.length = ls.length) :
    full (project ls rs ls) ij = full ls ij := by
  have hne : ls ≠ [] := by intro h; simp [h] at h2
  obtain ⟨hr, _⟩ := mf_SameRanks_length ls rs ls 1 hs
  have hw := (mf_SameRanks_WF ls rs ls 1 hs).1
  unfold project
  rw [mf_full_delta2cores ls rs _ ij (SameRanks_projSds ls rs ls hs hw rfl hne) h2 hil]
  unfold projSds full
  apply mf_tsum_projSdsGo_self ls rs ij hne 1 _ _ hs ho
    (by rw [mf_prightList_length rs ls (by omega), hr]) hil
  · intro r s hr hs
    have : r = s := by omega
    simp [this]
  · omega

/-! ### (5) concrete instances -/

section Examples

def L0 : Core Int := ⟨1, 2, 1, 2, fun _ i _ b => if i = b then 1 else 0⟩
def L1 : Core Int := ⟨2, 2, 1, 2, fun a i _ b => if i = 0 ∧ a = b then 1 else 0⟩
def L2 : Core Int := ⟨2, 2, 1, 1, fun a i _ _ => 3 * a + i + 1⟩
def R0 : Core Int := ⟨1, 2, 1, 2, fun _ i _ b => 2 * i + b + 1⟩
def R1 : Core Int := ⟨2, 2, 1, 2, fun a i _ b => a + 2 * i - b⟩
def R2 : Core Int := ⟨2, 2, 1, 1, fun a i _ _ => 2 * a - i + 1⟩
def D0 : Core Int := ⟨1, 2, 1, 2, fun _ i _ b => 5 * i - b + 2⟩
def D1 : Core Int := ⟨2, 2, 1, 2, fun a i _ b => a * i + 3 * b - 1⟩
def D2 : Core Int := ⟨2, 2, 1, 1, fun a i _ _ => 7 * a + 2 * i - 3⟩

/-- the hypotheses of `full_delta2cores` are satisfiable: order 3, ranks `(1,2,2,1)` -/
example : SameRanks [L0, L1, L2] [R0, R1, R2] [D0, D1, D2] 1 ∧ 2 ≤ [L0, L1, L2].length := by
  simp [SameRanks, L0, L1, L2, R0, R1, R2, D0, D1, D2]

/-- numeric check of one entry against the three tangent terms -/
example :
    full (delta2cores [L0, L1, L2] [R0, R1, R2] [D0, D1, D2]) [(1, 0), (0, 0), (1, 0)] =
      full [D0, R1, R2] [(1, 0), (0, 0), (1, 0)] + full [L0, D1, R2] [(1, 0), (0, 0), (1, 0)] +
        full [L0, L1, D2] [(1, 0), (0, 0), (1, 0)] := by decide

example :
    full (delta2cores [L0, L1, L2] [R0, R1, R2] [D0, D1, D2]) [(0, 0), (1, 0), (0, 0)] =
      full [D0, R1, R2] [(0, 0), (1, 0), (0, 0)] + full [L0, D1, R2] [(0, 0), (1, 0), (0, 0)] +
        full [L0, L1, D2] [(0, 0), (1, 0), (0, 0)] := by decide

/-- the interior ranks are doubled -/
example : ranks (delta2cores [L0, L1, L2] [R0, R1, R2] [D0, D1, D2]) = [1, 4, 4, 1] := by decide

/-- the hypotheses of `proj_fixed` are satisfiable -/
example : SameRanks [L0, L1, L2] [R0, R1, R2] [L0, L1, L2] 1 ∧ LeftOrthInit [L0, L1, L2] := by
  refine ⟨by simp [SameRanks, L0, L1, L2, R0, R1, R2], ⟨?_, ?_, trivial⟩⟩
  · intro b b' hb hb'
    change b < 2 at hb; change b' < 2 at hb'
    interval_cases b <;> interval_cases b' <;> decide
  · intro b b' hb hb'
    change b < 2 at hb; change b' < 2 at hb'
    interval_cases b <;> interval_cases b' <;> decide

/-- … and the projection indeed reproduces an entry of `x` -/
example : full (project [L0, L1, L2] [R0, R1, R2] [L0, L1, L2]) [(1, 0), (0, 0), (1, 0)] =
    full [L0, L1, L2] [(1, 0), (0, 0), (1, 0)] := by decide

def Z0 : Core Int := ⟨1, 2, 1, 3, fun _ i _ b => i + 2 * b - 1⟩
def Z1 : Core Int := ⟨3, 2, 1, 1, fun a i _ b => a - i + b⟩
def Z2 : Core Int := ⟨1, 2, 1, 1, fun _ i _ _ => 2 * i + 1⟩
def W0 : Core Int := ⟨1, 2, 1, 1, fun _ i _ _ => 3 - i⟩
def W1 : Core Int := ⟨1, 2, 1, 2, fun _ i _ b => i * b + 1⟩
def W2 : Core Int := ⟨2, 2, 1, 1, fun a i _ _ => a + i⟩

/-- the hypotheses of `project_add` are satisfiable with `z`, `w` of ranks `(1,3,1,1)`, `(1,1,2,1)`
    different from those of `x` -/
example : SameRanks [L0, L1, L2] [R0, R1, R2] [L0, L1, L2] 1 ∧ WF [Z0, Z1, Z2] 1 ∧ WF [W0, W1, W2] 1 := by
  simp [SameRanks, WF, L0, L1, L2, R0, R1, R2, Z0, Z1, Z2, W0, W1, W2]

example : full (project [L0, L1, L2] [R0, R1, R2] (add [Z0, Z1, Z2] [W0, W1, W2])) [(1, 0), (0, 0), (1, 0)] =
    full (project [L0, L1, L2] [R0, R1, R2] [Z0, Z1, Z2]) [(1, 0), (0, 0), (1, 0)] +
      full (project [L0, L1, L2] [R0, R1, R2] [W0, W1, W2]) [(1, 0), (0, 0), (1, 0)] := by decide

end Examples

end TT.C16
