import TTLemmas.KernelsL

/-!
# C11 — the local problems of the AMEn matrix product are the exact Galerkin projections

Model: `TTModel/Kernels.lean` (`torchtt/_amen.py`: `_compute_phi_fwd_AB` `'rab,amkA,bknB,rmnR->RAB'`,
`_compute_phi_bck_AB`, `_local_AB` `'rab,amkA,bknB,RAB->rmnR'`, and the folds `foldFwdAB`,
`foldBckAB` accumulated by the sweeps).  The first index of every `Phi` belongs to the iterate `X`,
the second to `A`, the third to `B`.

`abxSweep As Bs Xs` (defined in `TTLemmas/KernelsL.lean`) is the code's own left-to-right recursion
`foldFwdAB As Bs Xs ones 0 0 0`; `abxSweep_eq_dense` identifies it with the trilinear form
`⟨X, A B⟩ = Σ_{is,js} X[is,js] · Σ_{ks} A[is,ks] · B[ks,js]`.

The index boxes are the ones the einsums use: rows `modesM As`, contracted `modesN As`, columns
`modesN Bs`.  The shape facts (`A.n = B.m`, `X.m = A.m`, `X.n = B.n`) are the preconditions under
which the code does not raise and are not needed for the identities.  Everything holds for every
order, mode-size pattern, rank profile and all core values over an arbitrary commutative ring.
-/
namespace TT.C11
open TT TT.Kern
variable {α : Type} [CommRing α]

/-! ### (6) the interfaces -/

theorem foldFwdAB_eq (As Bs Xs : List (Core α)) (rA rB rX LA LB LX : Nat) (P : Phi3 α)
    (R A' B' : Nat)
    (hA : sw_Chained As rA LA) (hB : sw_Chained Bs rB LB) (hX : sw_Chained Xs rX LX)
    (hlB : Bs.length = As.length) (hlX : Xs.length = As.length)
    (hR : R < LX) (hA' : A' < LA) (hB' : B' < LB) :
    foldFwdAB As Bs Xs P R A' B' =
    sumTo rX (fun r => sumTo rA (fun a => sumTo rB (fun b => P r a b *
      sumIdx (modesM As) (fun is => sumIdx (modesN As) (fun ks => sumIdx (modesN Bs) (fun js =>
        chain As (is.zip ks) a A' * chain Bs (ks.zip js) b B' * chain Xs (is.zip js) r R)))))) :=
  kl_foldFwdAB_inv As Bs Xs rA rB rX LA LB LX P R A' B' hA hB hX hlB hlX hR hA' hB'

theorem foldBckAB_eq (As Bs Xs : List (Core α)) (rA rB rX LA LB LX : Nat) (P : Phi3 α)
    (r a b : Nat)
    (hA : sw_Chained As rA LA) (hB : sw_Chained Bs rB LB) (hX : sw_Chained Xs rX LX)
    (hlB : Bs.length = As.length) (hlX : Xs.length = As.length)
    (hr : r < rX) (ha : a < rA) (hb : b < rB) :
    foldBckAB As Bs Xs P r a b =
    sumTo LX (fun R => sumTo LA (fun A' => sumTo LB (fun B' => P R A' B' *
      sumIdx (modesM As) (fun is => sumIdx (modesN As) (fun ks => sumIdx (modesN Bs) (fun js =>
        chain As (is.zip ks) a A' * chain Bs (ks.zip js) b B' * chain Xs (is.zip js) r R)))))) :=
  kl_foldBckAB_inv As Bs Xs rA rB rX LA LB LX P r a b hA hB hX hlB hlX hr ha hb

/-- the sweeps' case from the left: left ranks 1, `Phis[0] = ones` -/
theorem foldFwdAB_ones (As Bs Xs : List (Core α)) (LA LB LX : Nat) (R A' B' : Nat)
    (hA : sw_Chained As 1 LA) (hB : sw_Chained Bs 1 LB) (hX : sw_Chained Xs 1 LX)
    (hlB : Bs.length = As.length) (hlX : Xs.length = As.length)
    (hR : R < LX) (hA' : A' < LA) (hB' : B' < LB) :
    foldFwdAB As Bs Xs ones3 R A' B' =
    sumIdx (modesM As) (fun is => sumIdx (modesN As) (fun ks => sumIdx (modesN Bs) (fun js =>
      chain As (is.zip ks) 0 A' * chain Bs (ks.zip js) 0 B' * chain Xs (is.zip js) 0 R))) := by
  rw [foldFwdAB_eq As Bs Xs 1 1 1 LA LB LX ones3 R A' B' hA hB hX hlB hlX hR hA' hB']
  simp [sumTo_one, ones3]

/-- the sweeps' case from the right: the lists end the trains, `Phis[d] = ones` -/
theorem foldBckAB_ones (As Bs Xs : List (Core α)) (rA rB rX : Nat) (r a b : Nat)
    (hA : WF As rA) (hB : WF Bs rB) (hX : WF Xs rX)
    (hlB : Bs.length = As.length) (hlX : Xs.length = As.length)
    (hr : r < rX) (ha : a < rA) (hb : b < rB) :
    foldBckAB As Bs Xs ones3 r a b =
    sumIdx (modesM As) (fun is => sumIdx (modesN As) (fun ks => sumIdx (modesN Bs) (fun js =>
      chain As (is.zip ks) a 0 * chain Bs (ks.zip js) b 0 * chain Xs (is.zip js) r 0))) := by
  rw [foldBckAB_eq As Bs Xs rA rB rX 1 1 1 ones3 r a b (sw_Chained_of_WF As rA hA)
    (sw_Chained_of_WF Bs rB hB) (sw_Chained_of_WF Xs rX hX) hlB hlX hr ha hb]
  simp [sumTo_one, ones3]

example : foldFwdAB [kl_A0, kl_A1] [kl_B0, kl_B1] [kl_X0, kl_X1] ones3 2 1 1 =
    sumIdx (modesM [kl_A0, kl_A1]) (fun is => sumIdx (modesN [kl_A0, kl_A1]) (fun ks =>
      sumIdx (modesN [kl_B0, kl_B1]) (fun js =>
        chain [kl_A0, kl_A1] (is.zip ks) 0 1 * chain [kl_B0, kl_B1] (ks.zip js) 0 1 *
          chain [kl_X0, kl_X1] (is.zip js) 0 2))) :=
  foldFwdAB_ones _ _ _ 3 2 3 2 1 1 (by simp [sw_Chained, kl_A0, kl_A1])
    (by simp [sw_Chained, kl_B0, kl_B1]) (by simp [sw_Chained, kl_X0, kl_X1]) rfl rfl
    (by omega) (by omega) (by omega)

example : foldBckAB [kl_A1, kl_A2] [kl_B1, kl_B2] [kl_X1, kl_X2] ones3 1 1 1 =
    sumIdx (modesM [kl_A1, kl_A2]) (fun is => sumIdx (modesN [kl_A1, kl_A2]) (fun ks =>
      sumIdx (modesN [kl_B1, kl_B2]) (fun js =>
        chain [kl_A1, kl_A2] (is.zip ks) 1 0 * chain [kl_B1, kl_B2] (ks.zip js) 1 0 *
          chain [kl_X1, kl_X2] (is.zip js) 1 0))) :=
  foldBckAB_ones _ _ _ 2 2 2 1 1 1 (by simp [WF, kl_A1, kl_A2]) (by simp [WF, kl_B1, kl_B2])
    (by simp [WF, kl_X1, kl_X2]) rfl rfl (by omega) (by omega) (by omega)

/-! ### (7) Galerkin exactness of `_local_AB` -/

/-- strongest form: arbitrary left parts and incoming `P0`; right parts well formed from the right
    ranks of the cores at position `k` -/
theorem localAB_galerkin_gen (P0 : Phi3 α) (Al Ar Bl Br Xl Xr : List (Core α)) (A B V : Core α)
    (hwA : WF Ar A.r1) (hwB : WF Br B.r1) (hwX : WF Xr V.r1)
    (hlB : Bl.length = Al.length) (hlX : Xl.length = Al.length)
    (hrB : Br.length = Ar.length) (hrX : Xr.length = Ar.length) :
    foldFwdAB (Al ++ [A] ++ Ar) (Bl ++ [B] ++ Br) (Xl ++ [V] ++ Xr) P0 0 0 0 =
    sumTo V.r0 (fun r => sumTo A.m (fun m => sumTo B.n (fun n => sumTo V.r1 (fun R =>
      V.get r m n R *
        localAB (foldFwdAB Al Bl Xl P0) (foldBckAB Ar Br Xr ones3) A B r m n R)))) := by
  simp only [List.append_assoc, List.singleton_append]
  rw [kl_foldFwdAB_append Al Bl Xl _ _ _ P0 hlB hlX]
  exact kl_galerkin_AB _ A B V Ar Br Xr hwA hwB hwX hrB hrX

/-- **Galerkin exactness.**  The trilinear sweep `⟨X, A B⟩` over the whole trains, with the `k`-th
    core of `X` replaced by an arbitrary core `V`, equals `_local_AB(Phis[k], Phis[k+1], A_k, B_k)`
    tested against `V`: the local right-hand side of the product sweep is the exact projection. -/
theorem localAB_galerkin (Al Ar Bl Br Xl Xr : List (Core α)) (A B V : Core α)
    (hwA : WF (Al ++ [A] ++ Ar) 1) (hwB : WF (Bl ++ [B] ++ Br) 1) (hwX : WF (Xl ++ [V] ++ Xr) 1)
    (hlB : Bl.length = Al.length) (hlX : Xl.length = Al.length)
    (hrB : Br.length = Ar.length) (hrX : Xr.length = Ar.length) :
    abxSweep (Al ++ [A] ++ Ar) (Bl ++ [B] ++ Br) (Xl ++ [V] ++ Xr) =
    sumTo V.r0 (fun r => sumTo A.m (fun m => sumTo B.n (fun n => sumTo V.r1 (fun R =>
      V.get r m n R *
        localAB (foldFwdAB Al Bl Xl ones3) (foldBckAB Ar Br Xr ones3) A B r m n R)))) :=
  localAB_galerkin_gen ones3 Al Ar Bl Br Xl Xr A B V
    (kl_WF_split Al A Ar 1 (by simpa using hwA)).2
    (kl_WF_split Bl B Br 1 (by simpa using hwB)).2
    (kl_WF_split Xl V Xr 1 (by simpa using hwX)).2 hlB hlX hrB hrX

/-! ### (8) the trilinear sweep is the dense form -/

theorem abxSweep_eq_dense (As Bs Xs : List (Core α)) (hA : WF As 1) (hB : WF Bs 1) (hX : WF Xs 1)
    (hlB : Bs.length = As.length) (hlX : Xs.length = As.length) :
    abxSweep As Bs Xs =
    sumIdx (modesM As) (fun is => sumIdx (modesN Bs) (fun js =>
      full Xs (is.zip js) *
        sumIdx (modesN As) (fun ks => full As (is.zip ks) * full Bs (ks.zip js)))) :=
  kl_abx_dense As Bs Xs hA hB hX hlB hlX

/-- (7) and (8) combined: the dense `Σ_{is,js} X'[is,js] · (A B)[is,js]`, `X'` the iterate with its
    `k`-th core replaced by `V`, is `_local_AB` tested against `V` -/
theorem localAB_galerkin_dense (Al Ar Bl Br Xl Xr : List (Core α)) (A B V : Core α)
    (hwA : WF (Al ++ [A] ++ Ar) 1) (hwB : WF (Bl ++ [B] ++ Br) 1) (hwX : WF (Xl ++ [V] ++ Xr) 1)
    (hlB : Bl.length = Al.length) (hlX : Xl.length = Al.length)
    (hrB : Br.length = Ar.length) (hrX : Xr.length = Ar.length) :
    sumIdx (modesM (Al ++ [A] ++ Ar)) (fun is => sumIdx (modesN (Bl ++ [B] ++ Br)) (fun js =>
      full (Xl ++ [V] ++ Xr) (is.zip js) *
        sumIdx (modesN (Al ++ [A] ++ Ar)) (fun ks =>
          full (Al ++ [A] ++ Ar) (is.zip ks) * full (Bl ++ [B] ++ Br) (ks.zip js)))) =
    sumTo V.r0 (fun r => sumTo A.m (fun m => sumTo B.n (fun n => sumTo V.r1 (fun R =>
      V.get r m n R *
        localAB (foldFwdAB Al Bl Xl ones3) (foldBckAB Ar Br Xr ones3) A B r m n R)))) := by
  rw [← localAB_galerkin Al Ar Bl Br Xl Xr A B V hwA hwB hwX hlB hlX hrB hrX]
  exact (abxSweep_eq_dense _ _ _ hwA hwB hwX (by simp [hlB, hrB]) (by simp [hlX, hrX])).symm

/-- order-3 instance, split at the middle core -/
example : abxSweep ([kl_A0] ++ [kl_A1] ++ [kl_A2]) ([kl_B0] ++ [kl_B1] ++ [kl_B2])
      ([kl_X0] ++ [kl_X1] ++ [kl_X2]) =
    sumTo kl_X1.r0 (fun r => sumTo kl_A1.m (fun m => sumTo kl_B1.n (fun n => sumTo kl_X1.r1 (fun R =>
      kl_X1.get r m n R *
        localAB (foldFwdAB [kl_A0] [kl_B0] [kl_X0] ones3) (foldBckAB [kl_A2] [kl_B2] [kl_X2] ones3)
          kl_A1 kl_B1 r m n R)))) :=
  localAB_galerkin _ _ _ _ _ _ _ _ _ (by simp [WF, kl_A0, kl_A1, kl_A2])
    (by simp [WF, kl_B0, kl_B1, kl_B2]) (by simp [WF, kl_X0, kl_X1, kl_X2]) rfl rfl rfl rfl

example : abxSweep [kl_A0, kl_A1, kl_A2] [kl_B0, kl_B1, kl_B2] [kl_X0, kl_X1, kl_X2] =
    sumIdx (modesM [kl_A0, kl_A1, kl_A2]) (fun is => sumIdx (modesN [kl_B0, kl_B1, kl_B2]) (fun js =>
      full [kl_X0, kl_X1, kl_X2] (is.zip js) *
        sumIdx (modesN [kl_A0, kl_A1, kl_A2]) (fun ks =>
          full [kl_A0, kl_A1, kl_A2] (is.zip ks) * full [kl_B0, kl_B1, kl_B2] (ks.zip js)))) :=
  abxSweep_eq_dense _ _ _ (by simp [WF, kl_A0, kl_A1, kl_A2]) (by simp [WF, kl_B0, kl_B1, kl_B2])
    (by simp [WF, kl_X0, kl_X1, kl_X2]) rfl rfl

/-- the example trains have compatible shapes: `A.n = B.m`, `X.m = A.m`, `X.n = B.n` core by core -/
example : modesN [kl_A0, kl_A1, kl_A2] = modesM [kl_B0, kl_B1, kl_B2] ∧
    modesM [kl_X0, kl_X1, kl_X2] = modesM [kl_A0, kl_A1, kl_A2] ∧
    modesN [kl_X0, kl_X1, kl_X2] = modesN [kl_B0, kl_B1, kl_B2] := by
  simp [modesM, modesN, kl_A0, kl_A1, kl_A2, kl_B0, kl_B1, kl_B2, kl_X0, kl_X1, kl_X2]

/-- and the trilinear form is a non-trivial number on them -/
example : abxSweep [kl_A0, kl_A1, kl_A2] [kl_B0, kl_B1, kl_B2] [kl_X0, kl_X1, kl_X2] ≠ 0 := by
  decide +kernel

end TT.C11
