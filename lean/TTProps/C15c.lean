import TTModel.GradApi

/-!
# C15c — `grad.grad` returns the derivatives aligned with the cores (or with the listed core indices)

Model: `TTModel/GradApi.lean` (`torchtt/grad.py`: `watch`, `unwatch`, `grad`).  The value of each slot (the derivative itself) is the
subject of `TT.C15.grad_eq_dense`; here the statement is about WHICH core's derivative sits in WHICH slot, for every history of
`watch` / `unwatch` calls, every subset of watched cores and every (possibly negative, repeated, unsorted) index list:

* `grad_all_length`, `grad_all_slot` — without `core_indices` the result has one slot per core, slot `k` holds the derivative with
  respect to core `k` if that core is watched and `None` otherwise (in particular slots are never shifted when some cores are unwatched);
* `grad_idx_length`, `grad_idx_slot` — with `core_indices = idx` slot `i` belongs to core `idx[i]` (Python position semantics);
* `grad_idx_error_iff` — it raises exactly when some listed position is outside `[-d, d)`;
* `watch_length`, `watch_flag` — `watch` only ever sets flags, exactly those listed; `watch_all_then_grad` — after `watch(tens)` every slot
  is filled; `unwatch_then_grad` — after `unwatch` every slot is `None`.
-/
namespace TT.C15c
open TT.GradApi

theorem pos_lt {d : Nat} {i : Int} {k : Nat} (h : pos d i = some k) : k < d := by
  unfold pos at h
  split at h
  · simp at h; omega
  · split at h
    · simp at h; omega
    · simp at h

theorem pos_nonneg {d : Nat} {i : Nat} (h : i < d) : pos d (i : Int) = some i := by
  unfold pos
  rw [if_pos (by omega)]
  simp

theorem pos_neg {d : Nat} {j : Nat} (h1 : 1 ≤ j) (h2 : j ≤ d) : pos d (-(j : Int)) = some (d - j) := by
  unfold pos
  rw [if_neg (by omega), if_pos (by omega)]
  simp

theorem pos_none_iff (d : Nat) (i : Int) : pos d i = none ↔ (i < -(d : Int) ∨ (d : Int) ≤ i) := by
  unfold pos
  split
  · simp; omega
  · split
    · simp; omega
    · simp; omega

theorem grad_all_length (flags : List Bool) :
    ∃ l, grad flags none = some l ∧ l.length = flags.length := by
  refine ⟨_, rfl, ?_⟩
  simp

theorem grad_all_slot (flags : List Bool) (k : Nat) (hk : k < flags.length) :
    ∃ l, grad flags none = some l ∧ l[k]? = some (if flags.getD k false then some k else none) := by
  refine ⟨_, rfl, ?_⟩
  simp [List.getElem?_map, List.getElem?_range hk, slot]

private theorem grad_nil (flags : List Bool) : grad flags (some []) = some [] := rfl

private theorem grad_cons (flags : List Bool) (a : Int) (idx : List Int) :
    grad flags (some (a :: idx)) = (match pos flags.length a, grad flags (some idx) with
      | some k, some l => some (slot flags k :: l)
      | _, _ => none) := rfl

private theorem grad_cons_eq_some (flags : List Bool) (a : Int) (idx : List Int) (l : List (Option Nat)) :
    grad flags (some (a :: idx)) = some l ↔
      ∃ k l', pos flags.length a = some k ∧ grad flags (some idx) = some l' ∧ l = slot flags k :: l' := by
  rw [grad_cons]
  cases hp : pos flags.length a with
  | none => simp
  | some k =>
    cases hg : grad flags (some idx) with
    | none => simp
    | some l' =>
      simp only [Option.some.injEq]
      constructor
      · intro h; exact ⟨k, l', rfl, rfl, h.symm⟩
      · rintro ⟨k', l'', hk, hl, h⟩; subst hk; subst hl; exact h.symm

theorem grad_idx_length (flags : List Bool) (idx : List Int) (l : List (Option Nat))
    (h : grad flags (some idx) = some l) : l.length = idx.length := by
  induction idx generalizing l with
  | nil =>
    rw [grad_nil] at h
    cases h; rfl
  | cons a idx ih =>
    obtain ⟨k, l', _, hg, rfl⟩ := (grad_cons_eq_some flags a idx l).1 h
    simp [ih l' hg]

theorem grad_idx_slot (flags : List Bool) (idx : List Int) (l : List (Option Nat))
    (h : grad flags (some idx) = some l) (i : Nat) (hi : i < idx.length) :
    ∃ k, pos flags.length (idx.getD i 0) = some k ∧ l[i]? = some (if flags.getD k false then some k else none) := by
  induction idx generalizing l i with
  | nil => simp at hi
  | cons a idx ih =>
    obtain ⟨k, l', hp, hg, rfl⟩ := (grad_cons_eq_some flags a idx l).1 h
    cases i with
    | zero => exact ⟨k, by simpa using hp, by simp [slot]⟩
    | succ i =>
      obtain ⟨k', hp', hl'⟩ := ih l' hg i (by simpa using hi)
      exact ⟨k', by simpa using hp', by simpa using hl'⟩

theorem grad_idx_error_iff (flags : List Bool) (idx : List Int) :
    grad flags (some idx) = none ↔ ∃ i ∈ idx, pos flags.length i = none := by
  induction idx with
  | nil => simp [grad_nil]
  | cons a idx ih =>
    rw [grad_cons]
    cases hp : pos flags.length a with
    | none => simp [hp]
    | some k =>
      cases hg : grad flags (some idx) with
      | none =>
        have := ih.1 hg
        simp only [List.mem_cons, exists_eq_or_imp, hp, true_iff]
        right; exact this
      | some l' =>
        rw [hg] at ih
        simp only [List.mem_cons, exists_eq_or_imp, hp]
        simpa using ih

theorem setTrue_length (fl : List Bool) (k : Nat) : (setTrue fl k).length = fl.length := by
  induction fl generalizing k with
  | nil => rfl
  | cons f fs ih =>
    cases k with
    | zero => rfl
    | succ k => simp [setTrue, ih]

theorem setTrue_getD (fl : List Bool) (k j : Nat) (hk : k < fl.length) :
    (setTrue fl k).getD j false = (fl.getD j false || decide (j = k)) := by
  induction fl generalizing k j with
  | nil => simp at hk
  | cons f fs ih =>
    cases k with
    | zero =>
      cases j with
      | zero => simp [setTrue]
      | succ j => simp [setTrue]
    | succ k =>
      cases j with
      | zero => simp [setTrue]
      | succ j =>
        have := ih k j (by simpa using hk)
        simpa [setTrue] using this

/-- one step of the `watch` loop -/
private def step (d : Nat) (acc : Option (List Bool)) (i : Int) : Option (List Bool) :=
  match acc, pos d i with
  | some fl, some k => some (setTrue fl k)
  | _, _ => none

private theorem watch_some (flags : List Bool) (idx : List Int) :
    watch flags (some idx) = idx.foldl (step flags.length) (some flags) := rfl

private theorem foldl_step_none (d : Nat) (idx : List Int) : idx.foldl (step d) none = none := by
  induction idx with
  | nil => rfl
  | cons a idx ih => simpa [List.foldl_cons, step] using ih

private theorem foldl_step (d : Nat) (idx : List Int) (fl0 fl : List Bool) (h0 : fl0.length = d)
    (h : idx.foldl (step d) (some fl0) = some fl) :
    fl.length = d ∧ ∀ j, fl.getD j false = true ↔ (fl0.getD j false = true ∨ ∃ i ∈ idx, pos d i = some j) := by
  induction idx generalizing fl0 with
  | nil =>
    simp only [List.foldl_nil, Option.some.injEq] at h
    subst h
    simp [h0]
  | cons a idx ih =>
    rw [List.foldl_cons] at h
    cases hp : pos d a with
    | none =>
      have : step d (some fl0) a = none := by simp [step, hp]
      rw [this, foldl_step_none] at h
      cases h
    | some k =>
      have hs : step d (some fl0) a = some (setTrue fl0 k) := by simp [step, hp]
      rw [hs] at h
      have hk : k < fl0.length := h0 ▸ pos_lt hp
      obtain ⟨hl, hf⟩ := ih (setTrue fl0 k) (by rw [setTrue_length, h0]) h
      refine ⟨hl, fun j => ?_⟩
      rw [hf j, setTrue_getD fl0 k j hk]
      simp only [List.mem_cons, exists_eq_or_imp, hp, Option.some.injEq, Bool.or_eq_true,
        decide_eq_true_eq]
      constructor
      · rintro ((h | h) | h)
        · exact Or.inl h
        · exact Or.inr (Or.inl h.symm)
        · exact Or.inr (Or.inr h)
      · rintro (h | h | h)
        · exact Or.inl (Or.inl h)
        · exact Or.inl (Or.inr h.symm)
        · exact Or.inr h

theorem watch_length (flags : List Bool) (idx : Option (List Int)) (fl : List Bool)
    (h : watch flags idx = some fl) : fl.length = flags.length := by
  cases idx with
  | none =>
    simp only [watch, Option.some.injEq] at h
    subst h; simp
  | some idx =>
    rw [watch_some] at h
    exact (foldl_step _ idx flags fl rfl h).1

/-- `watch` sets exactly the listed flags and clears none -/
theorem watch_flag (flags : List Bool) (idx : List Int) (fl : List Bool)
    (h : watch flags (some idx) = some fl) (j : Nat) :
    fl.getD j false = true ↔ (flags.getD j false = true ∨ ∃ i ∈ idx, pos flags.length i = some j) := by
  rw [watch_some] at h
  exact (foldl_step _ idx flags fl rfl h).2 j

theorem watch_all_then_grad (flags : List Bool) (k : Nat) (hk : k < flags.length) :
    ∃ fl l, watch flags none = some fl ∧ grad fl none = some l ∧ l[k]? = some (some k) := by
  refine ⟨_, _, rfl, rfl, ?_⟩
  simp [slot, hk]

theorem unwatch_then_grad (flags : List Bool) (k : Nat) (hk : k < flags.length) :
    ∃ l, grad (unwatch flags) none = some l ∧ l[k]? = some none := by
  refine ⟨_, rfl, ?_⟩
  simp [unwatch, slot, hk]

/-- partial watching, the situation of the clause: cores `{0, 2}` of an order-3 tensor are watched; slot 1 is `None` and slot 2 still
    belongs to core 2 -/
example : (watch [false, false, false] (some [0, 2])).bind (fun fl => grad fl none) = some [some 0, none, some 2] := by decide

example : (watch [false, false, false, false] (some [-1, 1])).bind (fun fl => grad fl (some [3, 0, -3])) =
    some [some 3, none, some 1] := by decide

example : grad [true, true] (some [2]) = none := by decide

/-! ### `grad_list`: one list per tensor, each of that tensor's order (operands of different orders included) -/

theorem gradListNested_length (orders : List Nat) : (gradListNested orders).length = orders.length := by
  simp [gradListNested]

theorem gradListNested_get (orders : List Nat) (t : Nat) (ht : t < orders.length) :
    (gradListNested orders)[t]? = some ((List.range orders[t]).map (fun k => (t, k))) := by
  simp [gradListNested, ht]

theorem gradListNested_inner_length (orders : List Nat) (t : Nat) (ht : t < orders.length) :
    ∃ l, (gradListNested orders)[t]? = some l ∧ l.length = orders[t] ∧ ∀ k, k < orders[t] → l[k]? = some (t, k) := by
  refine ⟨_, gradListNested_get orders t ht, by simp, ?_⟩
  intro k hk
  simp [hk]

theorem gradListFlat_mem (orders : List Nat) (t k : Nat) :
    (t, k) ∈ gradListFlat orders ↔ t < orders.length ∧ k < orders.getD t 0 := by
  simp only [gradListFlat, gradListNested, List.mem_flatten, List.mem_map, List.mem_range]
  constructor
  · rintro ⟨l, ⟨t', ht', rfl⟩, hm⟩
    simp only [List.mem_map, List.mem_range, Prod.mk.injEq] at hm
    obtain ⟨k', hk', rfl, rfl⟩ := hm
    exact ⟨ht', hk'⟩
  · rintro ⟨ht, hk⟩
    exact ⟨_, ⟨t, ht, rfl⟩, List.mem_map.mpr ⟨k, List.mem_range.mpr hk, rfl⟩⟩

theorem gradListFlat_eq (orders : List Nat) : gradListFlat orders = (gradListNested orders).flatten := rfl

/-- the situation of the clause: operands of orders 2 and 3 — two lists, of 2 and of 3 entries (not chunks of the first order) -/
example : gradListNested [2, 3] = [[(0, 0), (0, 1)], [(1, 0), (1, 1), (1, 2)]] := by decide

example : gradListFlat [1, 3, 2] = [(0, 0), (1, 0), (1, 1), (1, 2), (2, 0), (2, 1)] := by decide

end TT.C15c
