import TTModel.DType
import Mathlib.Data.List.Perm.Basic

/-!
# C03d — result dtypes: "the operands' dtype is preserved", and for operands of different dtypes nothing is lost

Model: `TTModel/DType.lean`.  `promote` is what `+`, `-`, `*` (C03) and `cat` (C09) are tied to on all 16 ordered dtype pairs on every run.
* `promote_self` — operands of one dtype give that dtype (the clause "with the operands' dtype preserved");
* `promote_comm`, `promote_assoc` — the result dtype does not depend on the operand order or grouping (`x + y` vs `y + x`,
  `cat((a, b, c))` in any order: `promoteAll_perm`);
* `le_promote_left/right`, `promote_least` — the result can hold both operands, and is the smallest such dtype: no imaginary part and no
  precision is dropped (the failure of `cat` before the fix: the dtype of the FIRST operand was used);
* `promote_complex_iff`, `promote_wide_iff` — complex iff some operand is, 64-bit iff some operand is.
-/
namespace TT.C03d
open TT.DType

theorem promote_self (a : DT) : promote a a = a := by cases a <;> rfl

theorem promote_comm (a b : DT) : promote a b = promote b a := by cases a <;> cases b <;> rfl

theorem promote_assoc (a b c : DT) : promote (promote a b) c = promote a (promote b c) := by
  cases a <;> cases b <;> cases c <;> rfl

theorem le_refl (a : DT) : le a a = true := by cases a <;> rfl

theorem le_trans {a b c : DT} (h1 : le a b = true) (h2 : le b c = true) : le a c = true := by
  cases a <;> cases b <;> cases c <;> simp_all [le, DT.isComplex, DT.isWide]

theorem le_antisymm {a b : DT} (h1 : le a b = true) (h2 : le b a = true) : a = b := by
  cases a <;> cases b <;> simp_all [le, DT.isComplex, DT.isWide]

theorem le_promote_left (a b : DT) : le a (promote a b) = true := by cases a <;> cases b <;> rfl

theorem le_promote_right (a b : DT) : le b (promote a b) = true := by cases a <;> cases b <;> rfl

theorem promote_least {a b c : DT} (ha : le a c = true) (hb : le b c = true) : le (promote a b) c = true := by
  cases a <;> cases b <;> cases c <;> simp_all [le, promote, mk, DT.isComplex, DT.isWide]

theorem promote_eq_right_iff (a b : DT) : promote a b = b ↔ le a b = true := by
  cases a <;> cases b <;> simp [le, promote, mk, DT.isComplex, DT.isWide]

theorem promote_complex_iff (a b : DT) : (promote a b).isComplex = (a.isComplex || b.isComplex) := by
  cases a <;> cases b <;> rfl

theorem promote_wide_iff (a b : DT) : (promote a b).isWide = (a.isWide || b.isWide) := by
  cases a <;> cases b <;> rfl

theorem promoteAll_le (a : DT) (l : List DT) : le a (promoteAll a l) = true ∧ ∀ b ∈ l, le b (promoteAll a l) = true := by
  induction l generalizing a with
  | nil => exact ⟨le_refl a, by simp⟩
  | cons b l ih =>
    obtain ⟨h1, h2⟩ := ih (promote a b)
    refine ⟨le_trans (le_promote_left a b) h1, ?_⟩
    intro c hc
    rcases List.mem_cons.mp hc with rfl | hc
    · exact le_trans (le_promote_right a c) h1
    · exact h2 c hc

theorem promoteAll_swap (a b c : DT) (l : List DT) : promoteAll a (b :: c :: l) = promoteAll a (c :: b :: l) := by
  simp only [promoteAll]
  rw [promote_assoc, promote_comm b c, ← promote_assoc]

/-- the dtype of a concatenation does not depend on the order of the operands after the first … -/
theorem promoteAll_perm (a : DT) {l l' : List DT} (h : l.Perm l') : promoteAll a l = promoteAll a l' := by
  induction h generalizing a with
  | nil => rfl
  | cons x _ ih => simp only [promoteAll]; exact ih _
  | swap x y l => exact promoteAll_swap a y x l
  | trans _ _ ih1 ih2 => exact (ih1 a).trans (ih2 a)

/-- … nor on which operand comes first -/
theorem promoteAll_head_swap (a b : DT) (l : List DT) : promoteAll a (b :: l) = promoteAll b (a :: l) := by
  simp only [promoteAll]; rw [promote_comm]

/-- all operands of one dtype: that dtype -/
theorem promoteAll_same (a : DT) (l : List DT) (h : ∀ b ∈ l, b = a) : promoteAll a l = a := by
  induction l with
  | nil => rfl
  | cons b l ih =>
    have hb : b = a := h b (by simp)
    subst hb
    simp only [promoteAll, promote_self]
    exact ih (fun c hc => h c (by simp [hc]))

/-- the failing situation before the fix: a real tensor first, a complex one second — the result must be complex -/
example : promote .f64 .c128 = .c128 ∧ promote .f32 .c128 = .c128 ∧ promote .c64 .f64 = .c128 := by decide

end TT.C03d
