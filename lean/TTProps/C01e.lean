import TTProps.C01
import TTProps.C01c
import TTLemmas.Matmul
import Mathlib.Algebra.Order.Ring.Defs
import Mathlib.Algebra.BigOperators.Group.List.Basic
import Mathlib.Tactic.Linarith

/-!
# C01e — the error identity of the truncating TT-SVD sweep `to_tt`

Model: `TTModel/Decomp.lean` (`toTTGo`, `toTT`), the SVD being an ORACLE parameter.  C01c proves exactness when
the oracle reconstructs its input; here the oracle may TRUNCATE.  Its contract (`TruncSVD`) is the pair of
algebraic facts that hold for every truncated SVD `C = U S Vᵀ`, `left = U[:, :r]`, `right = S_r V_rᵀ`:
(a) the kept columns of `left` are orthonormal, (b) the residual `E = C − left·right` is orthogonal to them.
No order on `α`, no statement about singular values is needed for the identity.

* `te_pythagoras` — one step: `‖C − left·X‖² = ‖E‖² + ‖right − X‖²` for every `X`;
* `toTTGo_errSq` / `te_go_errSq` — the loop invariant, for an arbitrary `rcur × cols` remainder;
* `toTT_errSq` — MAIN: `‖A − TT‖²_F = Σ` (energies discarded by the `d − 1` SVD calls), an equality;
* `toTT_errSq_calls` — the same with the contract required only on the calls the sweep makes;
* `toTT_errSq_le`, `toTT_errSq_le_allowance`, `toTT_errSq_ge`, `toTT_errSq_rankChop` — bounds over an ordered ring
  (the last one links to `rankChop_tail` of C01);
* `te_rowOracle_trunc` — a genuinely truncating oracle satisfying the contract at every size, `decide`-checked
  numeric instances with non-zero error, and an oracle violating (a) for which the identity fails.
All helper names carry the `te_` prefix.
-/
namespace TT.C01
open TT TT.Decomp

/-! ### definitions (executable, generic over the arithmetic) -/
section Defs
variable {α : Type} [Zero α] [One α] [Add α] [Mul α] [Sub α]

/-- residual `E = C − left·right` of one oracle call -/
def te_resid (C : Mat α) (f : Fact α) : Mat α :=
  fun i j => C i j - sumTo f.r (fun k => f.left i k * f.right k j)

/-- squared Frobenius norm of a `rows × cols` matrix -/
def matSq (rows cols : Nat) (M : Mat α) : α :=
  sumTo rows (fun i => sumTo cols (fun j => M i j * M i j))

/-- contract of ONE truncated-SVD call on the `rows × cols` matrix `C` -/
def te_StepOK (rows cols : Nat) (C : Mat α) (f : Fact α) : Prop :=
  (∀ k k', k < f.r → k' < f.r →
      sumTo rows (fun i => f.left i k * f.left i k') = if k = k' then 1 else 0) ∧
  (∀ k j, k < f.r → j < cols → sumTo rows (fun i => f.left i k * te_resid C f i j) = 0)

/-- contract of a truncating orthonormal SVD oracle -/
def TruncSVD (svd : Oracle α) : Prop :=
  ∀ (rows cols : Nat) (C : Mat α), te_StepOK rows cols C (svd rows cols C)

/-- the contract restricted to the calls made by `toTTGo svd ns rcur cols C` -/
def te_CallsOK (svd : Oracle α) : List Nat → Nat → Nat → Mat α → Prop
  | [], _, _, _ => True
  | [_], _, _, _ => True
  | n :: n' :: ns, rcur, cols, C =>
    let cols' := cols / n
    let Cr : Mat α := fun p j => C (p / n) ((p % n) * cols' + j)
    let f := svd (rcur * n) cols' Cr
    te_StepOK (rcur * n) cols' Cr f ∧ te_CallsOK svd (n' :: ns) f.r cols' f.right

/-- residual energies `‖E‖²` of the SVD calls of `toTTGo svd ns rcur cols C`, in call order -/
def tailEnergies (svd : Oracle α) : List Nat → Nat → Nat → Mat α → List α
  | [], _, _, _ => []
  | [_], _, _, _ => []
  | n :: n' :: ns, rcur, cols, C =>
    let cols' := cols / n
    let Cr : Mat α := fun p j => C (p / n) ((p % n) * cols' + j)
    let f := svd (rcur * n) cols' Cr
    matSq (rcur * n) cols' (te_resid Cr f) :: tailEnergies svd (n' :: ns) f.r cols' f.right

/-- squared Frobenius error of the train `cs` against the dense array `A` (flat row-major) -/
def errSq (N : List Nat) (A : Nat → α) (cs : List (Core α)) : α :=
  sumIdx N (fun is => (A (flatIdx N is) - full cs (tIdx is)) * (A (flatIdx N is) - full cs (tIdx is)))

/-- a concrete truncating oracle with orthonormal left factor: keep the first `min rows cap` rows,
`C ≈ I[:, :r] · C[:r, :]` (exact when `cap ≥ rows`) -/
def te_rowOracle (cap : Nat) : Oracle α := fun rows _ C =>
  { r := min rows cap, left := fun i k => if i = k then 1 else 0, right := fun k j => C k j }

end Defs

variable {α : Type} [CommRing α]

/-! ### one step: Pythagoras -/

/-- column form -/
theorem te_col (rows r : Nat) (L : Mat α) (e y : Nat → α)
    (horth : ∀ k k', k < r → k' < r →
      sumTo rows (fun i => L i k * L i k') = if k = k' then 1 else 0)
    (hres : ∀ k, k < r → sumTo rows (fun i => L i k * e i) = 0) :
    sumTo rows (fun i => (e i + sumTo r (fun k => L i k * y k)) * (e i + sumTo r (fun k => L i k * y k)))
      = sumTo rows (fun i => e i * e i) + sumTo r (fun k => y k * y k) := by
  have hcross : sumTo rows (fun i => e i * sumTo r (fun k => L i k * y k)) = 0 := by
    have : sumTo rows (fun i => e i * sumTo r (fun k => L i k * y k))
        = sumTo r (fun k => y k * sumTo rows (fun i => L i k * e i)) := by
      simp only [sumTo_eq_sum, Finset.mul_sum]
      rw [Finset.sum_comm]
      apply Finset.sum_congr rfl; intro k _
      apply Finset.sum_congr rfl; intro i _
      ring
    rw [this]
    apply sumTo_eq_zero; intro k hk; rw [hres k hk, mul_zero]
  have hsq : sumTo rows (fun i => sumTo r (fun k => L i k * y k) * sumTo r (fun k => L i k * y k))
      = sumTo r (fun k => y k * y k) := by
    have : sumTo rows (fun i => sumTo r (fun k => L i k * y k) * sumTo r (fun k => L i k * y k))
        = sumTo r (fun k => sumTo r (fun k' => y k * y k' * sumTo rows (fun i => L i k * L i k'))) := by
      simp only [sumTo_eq_sum]
      simp only [Finset.sum_mul_sum]
      simp only [Finset.mul_sum]
      rw [Finset.sum_comm]
      apply Finset.sum_congr rfl; intro k _
      rw [Finset.sum_comm]
      apply Finset.sum_congr rfl; intro k' _
      apply Finset.sum_congr rfl; intro i _
      ring
    rw [this]
    apply sumTo_congr; intro k hk
    rw [sumTo_single k hk]
    · rw [horth k k hk hk]; simp
    · intro k' hk' hne
      rw [horth k k' hk hk']
      simp [Ne.symm hne]
  have expand : ∀ i, (e i + sumTo r (fun k => L i k * y k)) * (e i + sumTo r (fun k => L i k * y k))
      = e i * e i + (2 * (e i * sumTo r (fun k => L i k * y k))
        + sumTo r (fun k => L i k * y k) * sumTo r (fun k => L i k * y k)) := by
    intro i; ring
  simp only [expand]
  rw [sumTo_add_fn, sumTo_add_fn, sumTo_mul_left, hcross, hsq]
  ring

theorem te_sumTo_sub (n : Nat) (f g : Nat → α) :
    sumTo n (fun k => f k - g k) = sumTo n f - sumTo n g := by
  simp [sumTo_eq_sum, Finset.sum_sub_distrib]

/-- column form with the residual of an oracle call: for every column `j < cols` and every vector `x` -/
theorem te_col_resid (rows cols : Nat) (C : Mat α) (f : Fact α) (h : te_StepOK rows cols C f)
    (j : Nat) (hj : j < cols) (x : Nat → α) :
    sumTo rows (fun i => (C i j - sumTo f.r (fun k => f.left i k * x k)) *
        (C i j - sumTo f.r (fun k => f.left i k * x k)))
      = sumTo rows (fun i => te_resid C f i j * te_resid C f i j)
        + sumTo f.r (fun k => (f.right k j - x k) * (f.right k j - x k)) := by
  rw [← te_col rows f.r f.left (fun i => te_resid C f i j) (fun k => f.right k j - x k) h.1
    (fun k hk => h.2 k j hk hj)]
  apply sumTo_congr; intro i _
  have e : C i j - sumTo f.r (fun k => f.left i k * x k)
      = te_resid C f i j + sumTo f.r (fun k => f.left i k * (f.right k j - x k)) := by
    unfold te_resid
    simp only [mul_sub]
    rw [te_sumTo_sub]
    ring
  rw [e]

theorem te_matSq_comm (rows cols : Nat) (M : Mat α) :
    matSq rows cols M = sumTo cols (fun j => sumTo rows (fun i => M i j * M i j)) :=
  sumTo_comm rows cols (fun i j => M i j * M i j)

/-- **Pythagoras for one truncated-SVD step**: for every `f.r × cols` matrix `X`,
`‖C − left·X‖² = ‖E‖² + ‖right − X‖²` with `E = C − left·right`. -/
theorem te_pythagoras (rows cols : Nat) (C : Mat α) (f : Fact α) (h : te_StepOK rows cols C f)
    (X : Mat α) :
    matSq rows cols (fun i j => C i j - sumTo f.r (fun k => f.left i k * X k j))
      = matSq rows cols (te_resid C f) + matSq f.r cols (fun k j => f.right k j - X k j) := by
  rw [te_matSq_comm, te_matSq_comm, te_matSq_comm, ← sumTo_add_fn]
  apply sumTo_congr; intro j hj
  exact te_col_resid rows cols C f h j hj (fun k => X k j)

/-! ### row-major flattening of the iterated sum -/

theorem te_sumIdx_flat (ns : List Nat) (g : Nat → α) :
    sumIdx ns (fun is => g (flatIdx ns is)) = sumTo (prodNat ns) g := by
  induction ns generalizing g with
  | nil => simp [sumIdx, flatIdx, dc_prodNat_nil, sumTo]
  | cons n ns ih =>
    rw [sumIdx_cons, dc_prodNat_cons, sumTo_mul]
    apply sumTo_congr; intro k _
    exact ih (fun j => g (k * prodNat ns + j))

/-- one sweep step in multi-index form: `x is k` is any family of vectors (later: the tail train) -/
theorem te_step (rows cols : Nat) (ns : List Nat) (hc : cols = prodNat ns) (M : Mat α) (f : Fact α)
    (h : te_StepOK rows cols M f) (x : List Nat → Nat → α) :
    sumTo rows (fun p => sumIdx ns (fun is =>
        (M p (flatIdx ns is) - sumTo f.r (fun k => f.left p k * x is k)) *
        (M p (flatIdx ns is) - sumTo f.r (fun k => f.left p k * x is k))))
      = matSq rows cols (te_resid M f)
        + sumTo f.r (fun k => sumIdx ns (fun is =>
            (f.right k (flatIdx ns is) - x is k) * (f.right k (flatIdx ns is) - x is k))) := by
  rw [sumTo_sumIdx_comm, sumTo_sumIdx_comm, te_matSq_comm, hc,
    ← te_sumIdx_flat ns (fun j => sumTo rows (fun i => te_resid M f i j * te_resid M f i j)),
    ← sumIdx_add_fn]
  apply sumIdx_congr; intro is his
  exact te_col_resid rows cols M f h (flatIdx ns is) (by rw [hc]; exact dc_flatIdx_lt his) (x is)

/-! ### the loop invariant -/

theorem te_go_errSq (svd : Oracle α) :
    ∀ (ns : List Nat), ns ≠ [] → (∀ n ∈ ns, 0 < n) →
    ∀ (rcur cols : Nat) (C : Mat α), cols = prodNat ns → te_CallsOK svd ns rcur cols C →
      sumTo rcur (fun a => sumIdx ns (fun is =>
        (C a (flatIdx ns is) - chain (toTTGo svd ns rcur cols C) (tIdx is) a 0) *
        (C a (flatIdx ns is) - chain (toTTGo svd ns rcur cols C) (tIdx is) a 0)))
      = (tailEnergies svd ns rcur cols C).sum := by
  intro ns
  induction ns with
  | nil => intro h; exact absurd rfl h
  | cons n ns' ih =>
    intro _ hpos rcur cols C hcols hok
    cases ns' with
    | nil =>
      simp only [tailEnergies, List.sum_nil]
      apply sumTo_eq_zero; intro a _
      simp [sumIdx, toTTGo, tIdx, chain, flatIdx, sumTo, dc_prodNat_nil]
      exact sumTo_zero' n
    | cons n' ns'' =>
      have hn : 0 < n := hpos n (by simp)
      have hpos' : ∀ m ∈ n' :: ns'', 0 < m := fun m hm => hpos m (List.mem_cons_of_mem _ hm)
      have hc' : cols / n = prodNat (n' :: ns'') := by rw [hcols, dc_prodNat_div _ _ hn]
      obtain ⟨hstep, hrest⟩ := hok
      have ih' := ih (by simp) hpos' _ _ _ hc' hrest
      simp only [tailEnergies, List.sum_cons]
      rw [← ih']
      rw [← te_step (rcur * n) (cols / n) (n' :: ns'') hc' _ _ hstep
        (fun is k => chain (toTTGo svd (n' :: ns'')
          (svd (rcur * n) (cols / n) fun p j => C (p / n) (p % n * (cols / n) + j)).r (cols / n)
          (svd (rcur * n) (cols / n) fun p j => C (p / n) (p % n * (cols / n) + j)).right) (tIdx is) k 0)]
      rw [sumTo_mul]
      apply sumTo_congr; intro a ha
      rw [sumIdx_cons]
      apply sumTo_congr; intro i hi
      apply sumIdx_congr; intro is his
      simp only [merge_div hi, merge_mod hi, dc_flatIdx_cons, hc', dc_tIdx_cons, toTTGo, chain]

/-! ### MAIN: the error identity of `to_tt` -/

theorem te_callsOK_of_trunc (svd : Oracle α) (h : TruncSVD svd) :
    ∀ (ns : List Nat) (rcur cols : Nat) (C : Mat α), te_CallsOK svd ns rcur cols C := by
  intro ns
  induction ns with
  | nil => intro _ _ _; trivial
  | cons n ns' ih =>
    intro rcur cols C
    cases ns' with
    | nil => trivial
    | cons n' ns'' => exact ⟨h _ _ _, ih _ _ _⟩

/-- one residual energy per SVD call: `d − 1` of them -/
theorem tailEnergies_length (svd : Oracle α) :
    ∀ (ns : List Nat) (rcur cols : Nat) (C : Mat α),
      (tailEnergies svd ns rcur cols C).length = ns.length - 1 := by
  intro ns
  induction ns with
  | nil => intro _ _ _; rfl
  | cons n ns' ih =>
    intro rcur cols C
    cases ns' with
    | nil => rfl
    | cons n' ns'' =>
      simp only [tailEnergies, List.length_cons]
      rw [ih]; simp

/-- the loop invariant for a truncating orthonormal oracle: the squared error of the cores produced from
the `rcur × cols` remainder `C`, summed over all left boundary indices `a < rcur`, is the sum of the
residual energies of the remaining SVD calls -/
theorem toTTGo_errSq (svd : Oracle α) (h : TruncSVD svd) (ns : List Nat) (hne : ns ≠ [])
    (hpos : ∀ n ∈ ns, 0 < n) (rcur cols : Nat) (C : Mat α) (hcols : cols = prodNat ns) :
    sumTo rcur (fun a => sumIdx ns (fun is =>
        (C a (flatIdx ns is) - chain (toTTGo svd ns rcur cols C) (tIdx is) a 0) *
        (C a (flatIdx ns is) - chain (toTTGo svd ns rcur cols C) (tIdx is) a 0)))
      = (tailEnergies svd ns rcur cols C).sum :=
  te_go_errSq svd ns hne hpos rcur cols C hcols (te_callsOK_of_trunc svd h ns rcur cols C)

/-- **error identity, contract required only on the calls the sweep actually makes** -/
theorem toTT_errSq_calls (svd : Oracle α) (N : List Nat) (A : Nat → α) (hne : N ≠ [])
    (hpos : ∀ n ∈ N, 0 < n) (h : te_CallsOK svd N 1 (prodNat N) (fun _ j => A j)) :
    errSq N A (toTT svd N A) = (tailEnergies svd N 1 (prodNat N) (fun _ j => A j)).sum := by
  have := te_go_errSq svd N hne hpos 1 (prodNat N) (fun _ j => A j) rfl h
  rw [sumTo_one] at this
  exact this

/-- **MAIN — the squared Frobenius error of TT-SVD is EXACTLY the sum of the energies discarded by its
`d − 1` truncated SVDs** -/
theorem toTT_errSq (svd : Oracle α) (h : TruncSVD svd) (N : List Nat) (A : Nat → α) (hne : N ≠ [])
    (hpos : ∀ n ∈ N, 0 < n) :
    errSq N A (toTT svd N A) = (tailEnergies svd N 1 (prodNat N) (fun _ j => A j)).sum :=
  toTT_errSq_calls svd N A hne hpos (te_callsOK_of_trunc svd h N 1 (prodNat N) _)

/-- no truncation error at any step ⇒ exact (squared error `0`) -/
theorem toTT_errSq_zero (svd : Oracle α) (h : TruncSVD svd) (N : List Nat) (A : Nat → α) (hne : N ≠ [])
    (hpos : ∀ n ∈ N, 0 < n)
    (h0 : ∀ e ∈ tailEnergies svd N 1 (prodNat N) (fun _ j => A j), e = 0) :
    errSq N A (toTT svd N A) = 0 := by
  rw [toTT_errSq svd h N A hne hpos]
  exact List.sum_eq_zero h0

/-! ### COROLLARY: error bounds over an ordered ring -/
section Ordered
variable {β : Type} [CommRing β] [LinearOrder β] [IsStrictOrderedRing β]

theorem te_sum_le (l : List β) (b : β) (h : ∀ x ∈ l, x ≤ b) : l.sum ≤ (l.length : β) * b := by
  induction l with
  | nil => simp
  | cons x xs ih =>
    have hx := h x (List.mem_cons_self)
    have ih' := ih (fun y hy => h y (List.mem_cons_of_mem _ hy))
    simp only [List.sum_cons, List.length_cons, Nat.cast_add, Nat.cast_one]
    linarith

theorem te_single_le_sum (l : List β) (h : ∀ x ∈ l, 0 ≤ x) : 0 ≤ l.sum ∧ ∀ e ∈ l, e ≤ l.sum := by
  induction l with
  | nil => simp
  | cons x xs ih =>
    have hx := h x (List.mem_cons_self)
    obtain ⟨h0, hle⟩ := ih (fun y hy => h y (List.mem_cons_of_mem _ hy))
    simp only [List.sum_cons, List.mem_cons]
    refine ⟨by linarith, ?_⟩
    rintro e (rfl | he)
    · linarith
    · have := hle e he; linarith

theorem te_sumTo_nonneg (n : Nat) (f : Nat → β) (h : ∀ k, k < n → 0 ≤ f k) : 0 ≤ sumTo n f := by
  induction n with
  | zero => simp [sumTo]
  | succ n ih =>
    simp only [sumTo]
    have := ih (fun k hk => h k (by omega))
    have := h n (by omega)
    linarith

theorem matSq_nonneg (rows cols : Nat) (M : Mat β) : 0 ≤ matSq rows cols M :=
  te_sumTo_nonneg _ _ (fun _ _ => te_sumTo_nonneg _ _ (fun _ _ => mul_self_nonneg _))

/-- every discarded energy is non-negative -/
theorem tailEnergies_nonneg (svd : Oracle β) :
    ∀ (ns : List Nat) (rcur cols : Nat) (C : Mat β), ∀ e ∈ tailEnergies svd ns rcur cols C, 0 ≤ e := by
  intro ns
  induction ns with
  | nil => intro _ _ _ e he; simp [tailEnergies] at he
  | cons n ns' ih =>
    intro rcur cols C e he
    cases ns' with
    | nil => simp [tailEnergies] at he
    | cons n' ns'' =>
      simp only [tailEnergies, List.mem_cons] at he
      rcases he with rfl | he
      · exact matSq_nonneg _ _ _
      · exact ih _ _ _ e he

/-- every per-step discarded energy `≤ b` ⇒ `‖A − TT‖² ≤ (d − 1)·b` -/
theorem toTT_errSq_le (svd : Oracle β) (h : TruncSVD svd) (N : List Nat) (A : Nat → β) (hne : N ≠ [])
    (hpos : ∀ n ∈ N, 0 < n) (b : β)
    (hb : ∀ e ∈ tailEnergies svd N 1 (prodNat N) (fun _ j => A j), e ≤ b) :
    errSq N A (toTT svd N A) ≤ ((N.length - 1 : Nat) : β) * b := by
  rw [toTT_errSq svd h N A hne hpos, ← tailEnergies_length svd N 1 (prodNat N) (fun _ j => A j)]
  exact te_sum_le _ b hb

/-- division-free allowance form (`b = eps²·‖A‖²/(d−1)` in `to_tt`): `(d − 1)·b ≤ B ⇒ ‖A − TT‖² ≤ B` -/
theorem toTT_errSq_le_allowance (svd : Oracle β) (h : TruncSVD svd) (N : List Nat) (A : Nat → β)
    (hne : N ≠ []) (hpos : ∀ n ∈ N, 0 < n) (b B : β)
    (hb : ∀ e ∈ tailEnergies svd N 1 (prodNat N) (fun _ j => A j), e ≤ b)
    (hB : ((N.length : β) - 1) * b ≤ B) :
    errSq N A (toTT svd N A) ≤ B := by
  refine le_trans (toTT_errSq_le svd h N A hne hpos b hb) ?_
  have hlen : 1 ≤ N.length := List.length_pos_iff.mpr hne
  rw [Nat.cast_sub hlen, Nat.cast_one]
  exact hB

/-- the error is at least every single discarded energy (lower bound: the identity is two-sided) -/
theorem toTT_errSq_ge (svd : Oracle β) (h : TruncSVD svd) (N : List Nat) (A : Nat → β) (hne : N ≠ [])
    (hpos : ∀ n ∈ N, 0 < n) :
    ∀ e ∈ tailEnergies svd N 1 (prodNat N) (fun _ j => A j), e ≤ errSq N A (toTT svd N A) := by
  rw [toTT_errSq svd h N A hne hpos]
  intro e he
  exact (te_single_le_sum _ (tailEnergies_nonneg svd N 1 _ _)).2 e he

/-- link to the rank rule of C01: if at every step the discarded energy is the tail energy `tailE s R` of
some list `s` (the singular values) at the rank `R = rank_chop(s, eps)` chosen by the Python rule, then
`‖A − TT‖² ≤ (d − 1)·eps²` -/
theorem toTT_errSq_rankChop [DecidableEq β] [DecidableRel (fun (a b : β) => a < b)]
    [DecidableRel (fun (a b : β) => a ≤ b)]
    (svd : Oracle β) (h : TruncSVD svd) (N : List Nat) (A : Nat → β) (hne : N ≠ [])
    (hpos : ∀ n ∈ N, 0 < n) (eps : β)
    (hs : ∀ e ∈ tailEnergies svd N 1 (prodNat N) (fun _ j => A j),
      ∃ s : List β, e = TT.Trunc.tailE s (TT.Trunc.rankChop s eps)) :
    errSq N A (toTT svd N A) ≤ ((N.length - 1 : Nat) : β) * (eps * eps) := by
  apply toTT_errSq_le svd h N A hne hpos
  intro e he
  obtain ⟨s, rfl⟩ := hs e he
  exact rankChop_tail s eps

end Ordered

/-! ### non-vacuity: the contract is satisfiable, also by a genuinely truncating oracle -/

/-- `te_rowOracle cap` satisfies the truncated-SVD contract at every size, for every `cap` -/
theorem te_rowOracle_trunc (cap : Nat) : TruncSVD (te_rowOracle (α := α) cap) := by
  intro rows cols C
  refine ⟨?_, ?_⟩
  · intro k k' hk hk'
    simp only [te_rowOracle] at hk hk' ⊢
    have hkr : k < rows := by omega
    rw [sumTo_single k hkr]
    · simp
    · intro i _ hne; simp [hne]
  · intro k j hk hj
    simp only [te_rowOracle] at hk ⊢
    have hkr : k < rows := by omega
    rw [sumTo_single k hkr]
    · simp only [te_resid, if_true, one_mul]
      rw [sumTo_single k hk]
      · simp
      · intro k' _ hne
        simp [Ne.symm hne]
    · intro i _ hne; simp [hne]

/-- `[[3,0],[0,1]]` as an order-2 tensor on `N = [2,2]` -/
def te_exA2 : Nat → Int := fun j => if j = 0 then 3 else if j = 3 then 1 else 0

/-- one-step example: keep the first column, `left = e₁`, `right = [3,0]`, `E = [[0,0],[0,1]]` -/
example : tailEnergies (te_rowOracle 1) [2, 2] 1 4 (fun _ j => te_exA2 j) = [1] := by decide
example : errSq [2, 2] te_exA2 (toTT (te_rowOracle 1) [2, 2] te_exA2) = 1 := by decide
example : te_StepOK 2 2 (fun i j => te_exA2 (i * 2 + j))
    (te_rowOracle 1 2 2 (fun i j => te_exA2 (i * 2 + j))) := te_rowOracle_trunc 1 2 2 _

/-- the MAIN identity checked numerically on the order-3 integer tensor of C01c, every rank cut to 1:
both sides are `19018 = 18870 + 148 ≠ 0` -/
example : errSq [2, 3, 2] dc_exA (toTT (te_rowOracle 1) [2, 3, 2] dc_exA)
    = (tailEnergies (te_rowOracle 1) [2, 3, 2] 1 12 (fun _ j => dc_exA j)).sum := by decide
example : errSq [2, 3, 2] dc_exA (toTT (te_rowOracle 1) [2, 3, 2] dc_exA) ≠ 0 := by decide
example : (tailEnergies (te_rowOracle 1) [2, 3, 2] 1 12 (fun _ j => dc_exA j)).length = 2 := by decide

/-- the general theorem instantiated (non-vacuity of its hypotheses) -/
example : errSq [2, 3, 2] dc_exA (toTT (te_rowOracle 1) [2, 3, 2] dc_exA)
    = (tailEnergies (te_rowOracle 1) [2, 3, 2] 1 (prodNat [2, 3, 2]) (fun _ j => dc_exA j)).sum :=
  toTT_errSq (te_rowOracle 1) (te_rowOracle_trunc 1) [2, 3, 2] dc_exA (by decide) (by decide)

/-! ### the hypotheses are needed: a non-orthonormal oracle breaks the identity -/

/-- like `te_rowOracle 1` but with the kept column scaled by `2` (not a unit vector) -/
def te_badOracle : Oracle Int := fun _ _ C =>
  { r := 1, left := fun i k => if i = k then 2 else 0, right := fun k j => C k j }

/-- all-ones tensor on `[2,2,2]`: the error is `24`, the sum of the "discarded energies" is `12` -/
example : errSq [2, 2, 2] (fun _ => (1 : Int)) (toTT te_badOracle [2, 2, 2] (fun _ => 1)) = 24 := by decide
example : (tailEnergies te_badOracle [2, 2, 2] 1 8 (fun _ _ => (1 : Int))).sum = 12 := by decide

theorem te_badOracle_not_trunc : ¬ TruncSVD te_badOracle := by
  intro h
  have := toTT_errSq te_badOracle h [2, 2, 2] (fun _ => (1 : Int)) (by decide) (by decide)
  revert this
  decide

#print axioms te_pythagoras
#print axioms te_go_errSq
#print axioms toTTGo_errSq
#print axioms toTT_errSq_calls
#print axioms toTT_errSq
#print axioms toTT_errSq_zero
#print axioms toTT_errSq_le
#print axioms toTT_errSq_le_allowance
#print axioms toTT_errSq_ge
#print axioms toTT_errSq_rankChop
#print axioms tailEnergies_length
#print axioms tailEnergies_nonneg
#print axioms te_rowOracle_trunc
#print axioms te_badOracle_not_trunc

end TT.C01
