import TTProps.C01e
import TTProps.C01d
import TTModel.DecompR

/-!
# C01f — `to_tt(A, N, eps, rmax)` / `mat_to_tt(…, rmax)`: the per-bond rank cap

Model: `TTModel/DecompR.lean` (`capFact`, `toTTGoR`, `toTTR`, `toTTMR`); the SVD is an ORACLE parameter, `caps = rmax[1:-1]`
is aligned with the `d − 1` SVD calls.  The cap depends on the call POSITION, so the capped sweep is in general not the cap-free
sweep of a fixed oracle; everything is proved directly on `toTTGoR`.

1. `toTTR_eq_toTT_capped` — an integer `rmax` (uniform cap `c`) IS the cap-free sweep with the oracle cut to `c`.
2. RANK BOUND, any oracle, any mode sizes (singletons included): `toTTR_WF`, `toTTR_modes`,
   `toTTR_bondRanks_eq` (bond ranks `= zipWith min (oracle ranks) caps`), `toTTR_bondRanks_le` (`Forall₂ (· ≤ ·) … caps`),
   `toTTR_bondRanks_le_oracle`, `toTTR_rank_le` (`getElem` form), `toTTR_rank_le_singleton`; the same for `toTTMR`.
3. NO-OP CAPS: `toTTR_eq_toTT` (caps ≥ the ranks of the cap-free sweep ⇒ same train), `toTTR_eq_toTT_of_bound`,
   `toTTR_exact`, `toTTR_exact_upto`, `toTTMR_eq_toTTM`, `toTTMR_exact`.
4. ERROR IDENTITY WITH CAPS: `tr_capFact_StepOK` (the cut keeps the truncated-SVD step contract), `tr_capOracle_trunc`,
   `tr_capped_energy` (capped residual energy = oracle's residual energy + energy of the dropped rows of `right`),
   `tr_goR_errSq`, `toTTR_errSq_calls`, `toTTR_errSq` (MAIN), `toTTR_errSq_split` (`eps` part + `rmax` part),
   `toTTR_errSq_le`, `toTTR_errSq_ge` over an ordered ring.
5. `decide`-checked instances (singleton mode with a cap dropping after it, binding caps losing the tensor, non-binding caps).
All helper names carry the `tr_` prefix.
-/

namespace TT.C01
open TT TT.Decomp TT.C02

set_option linter.unusedSectionVars false

variable {α : Type} [CommRing α]

/-! ### the capped factorisation -/

theorem tr_capFact_r (cap : Nat) (f : Fact α) : (capFact cap f).r = min f.r cap := rfl
theorem tr_capFact_left (cap : Nat) (f : Fact α) : (capFact cap f).left = f.left := rfl
theorem tr_capFact_right (cap : Nat) (f : Fact α) : (capFact cap f).right = f.right := rfl

theorem capFact_r_le_cap (cap : Nat) (f : Fact α) : (capFact cap f).r ≤ cap := Nat.min_le_right _ _
theorem capFact_r_le_oracle (cap : Nat) (f : Fact α) : (capFact cap f).r ≤ f.r := Nat.min_le_left _ _

/-- a cap that does not bind leaves the factorisation untouched -/
theorem capFact_of_le (cap : Nat) (f : Fact α) (h : f.r ≤ cap) : capFact cap f = f := by
  cases f with
  | mk r l rt => simp only [capFact, Nat.min_eq_left h]

/-- the oracle `svd` followed by the cut to `c` columns / rows -/
def tr_capOracle (svd : Oracle α) (c : Nat) : Oracle α := fun rows cols C => capFact c (svd rows cols C)

/-- the raw ranks `f.r` returned by the oracle at the SVD calls of the capped sweep, in call order -/
def tr_oracleRanksR (svd : Oracle α) : List Nat → List Nat → Nat → Nat → Mat α → List Nat
  | [], _, _, _, _ => []
  | [_], _, _, _, _ => []
  | n :: n' :: ns, caps, rcur, cols, C =>
    let cols' := cols / n
    let Cr : Mat α := fun p j => C (p / n) ((p % n) * cols' + j)
    let f := svd (rcur * n) cols' Cr
    f.r :: tr_oracleRanksR svd (n' :: ns) caps.tail (capFact (caps.headD 0) f).r cols' f.right

/-- the bond ranks of a train: the right ranks of all cores but the last -/
def bondRanks (cs : List (Core α)) : List Nat := cs.dropLast.map (·.r1)

/-! ### (1) uniform cap = the cap-free sweep driven by the capped oracle -/

theorem tr_toTTGoR_replicate (svd : Oracle α) (c : Nat) :
    ∀ (ns : List Nat) (k : Nat), ns.length - 1 ≤ k → ∀ (rcur cols : Nat) (C : Mat α),
      toTTGoR svd ns (List.replicate k c) rcur cols C = toTTGo (tr_capOracle svd c) ns rcur cols C := by
  intro ns
  induction ns with
  | nil => intro _ _ _ _ _; rfl
  | cons n ns' ih =>
    intro k hk rcur cols C
    cases ns' with
    | nil => rfl
    | cons n' ns'' =>
      cases k with
      | zero => simp at hk
      | succ k =>
        simp only [toTTGoR, toTTGo, List.replicate_succ, List.headD_cons, List.tail_cons, tr_capOracle]
        rw [ih k (by simp at hk ⊢; omega)]

/-- **(1)** an integer `rmax` (the same cap `c` on every bond) is the cap-free sweep with the oracle cut to `c` -/
theorem toTTR_eq_toTT_capped (svd : Oracle α) (c k : Nat) (N : List Nat) (A : Nat → α) (hk : N.length - 1 ≤ k) :
    toTTR svd (List.replicate k c) N A = toTT (tr_capOracle svd c) N A :=
  tr_toTTGoR_replicate svd c N k hk 1 _ _

/-! ### (2) shape and RANK BOUND of the capped sweep (any oracle) -/

theorem tr_toTTGoR_WF (svd : Oracle α) :
    ∀ (ns : List Nat), ns ≠ [] → ∀ (caps : List Nat) (rcur cols : Nat) (C : Mat α),
      WF (toTTGoR svd ns caps rcur cols C) rcur := by
  intro ns
  induction ns with
  | nil => intro h; exact absurd rfl h
  | cons n ns' ih =>
    intro _ caps rcur cols C
    cases ns' with
    | nil => simp [toTTGoR, WF]
    | cons n' ns'' =>
      simp only [toTTGoR, WF, true_and]
      exact ih (by simp) _ _ _ _

theorem tr_toTTGoR_modes (svd : Oracle α) :
    ∀ (ns caps : List Nat) (rcur cols : Nat) (C : Mat α), modesM (toTTGoR svd ns caps rcur cols C) = ns := by
  intro ns
  induction ns with
  | nil => intro _ _ _ _; simp [toTTGoR, modesM]
  | cons n ns' ih =>
    intro caps rcur cols C
    cases ns' with
    | nil => simp [toTTGoR, modesM]
    | cons n' ns'' =>
      simp only [modesM] at ih ⊢
      simp only [toTTGoR, List.map_cons, ih]

theorem tr_toTTGoR_isTensor (svd : Oracle α) :
    ∀ (ns caps : List Nat) (rcur cols : Nat) (C : Mat α), IsTensor (toTTGoR svd ns caps rcur cols C) := by
  intro ns
  induction ns with
  | nil => intro _ _ _ _; simp [toTTGoR, IsTensor]
  | cons n ns' ih =>
    intro caps rcur cols C
    cases ns' with
    | nil => simp [toTTGoR, IsTensor]
    | cons n' ns'' =>
      simp only [toTTGoR, IsTensor, true_and]
      exact ih _ _ _ _

theorem tr_toTTGoR_length (svd : Oracle α) (ns caps : List Nat) (rcur cols : Nat) (C : Mat α) :
    (toTTGoR svd ns caps rcur cols C).length = ns.length := by
  have := congrArg List.length (tr_toTTGoR_modes svd ns caps rcur cols C)
  simpa [modesM] using this

theorem tr_toTTGoR_ne_nil (svd : Oracle α) (n : Nat) (ns caps : List Nat) (rcur cols : Nat) (C : Mat α) :
    toTTGoR svd (n :: ns) caps rcur cols C ≠ [] := by
  intro h
  have := tr_toTTGoR_length svd (n :: ns) caps rcur cols C
  rw [h] at this
  simp at this

/-- the bond ranks of the capped sweep are EXACTLY `min (oracle rank) cap`, bond by bond -/
theorem tr_toTTGoR_bondRanks (svd : Oracle α) :
    ∀ (ns caps : List Nat), caps.length = ns.length - 1 → ∀ (rcur cols : Nat) (C : Mat α),
      bondRanks (toTTGoR svd ns caps rcur cols C)
        = List.zipWith min (tr_oracleRanksR svd ns caps rcur cols C) caps := by
  intro ns
  induction ns with
  | nil => intro caps _ _ _ _; simp [toTTGoR, bondRanks, tr_oracleRanksR]
  | cons n ns' ih =>
    intro caps hlen rcur cols C
    cases ns' with
    | nil => simp [toTTGoR, bondRanks, tr_oracleRanksR]
    | cons n' ns'' =>
      cases caps with
      | nil => simp at hlen
      | cons cap caps' =>
        have hl' : caps'.length = (n' :: ns'').length - 1 := by simpa using hlen
        simp only [bondRanks] at ih ⊢
        simp only [toTTGoR, tr_oracleRanksR, List.headD_cons, List.tail_cons, List.zipWith_cons_cons]
        rw [List.dropLast_cons_of_ne_nil (tr_toTTGoR_ne_nil svd _ _ _ _ _ _), List.map_cons, ih caps' hl']
        rfl

theorem tr_forall2_zipWith_min_right (xs caps : List Nat) (h : xs.length = caps.length) :
    List.Forall₂ (· ≤ ·) (List.zipWith min xs caps) caps := by
  induction xs generalizing caps with
  | nil =>
    cases caps with
    | nil => exact List.Forall₂.nil
    | cons c cs => simp at h
  | cons x xs ih =>
    cases caps with
    | nil => simp at h
    | cons c cs =>
      exact List.Forall₂.cons (Nat.min_le_right _ _) (ih cs (by simpa using h))

theorem tr_forall2_zipWith_min_left (xs caps : List Nat) (h : xs.length = caps.length) :
    List.Forall₂ (· ≤ ·) (List.zipWith min xs caps) xs := by
  induction xs generalizing caps with
  | nil =>
    cases caps with
    | nil => exact List.Forall₂.nil
    | cons c cs => simp at h
  | cons x xs ih =>
    cases caps with
    | nil => simp at h
    | cons c cs =>
      exact List.Forall₂.cons (Nat.min_le_left _ _) (ih cs (by simpa using h))

theorem tr_oracleRanksR_length (svd : Oracle α) :
    ∀ (ns caps : List Nat) (rcur cols : Nat) (C : Mat α),
      (tr_oracleRanksR svd ns caps rcur cols C).length = ns.length - 1 := by
  intro ns
  induction ns with
  | nil => intro _ _ _ _; rfl
  | cons n ns' ih =>
    intro caps rcur cols C
    cases ns' with
    | nil => rfl
    | cons n' ns'' =>
      simp only [tr_oracleRanksR, List.length_cons]
      rw [ih]; simp

/-- `Forall₂ (· ≤ ·)` in `getElem` form -/
theorem tr_forall2_get {xs ys : List Nat} (h : List.Forall₂ (· ≤ ·) xs ys) :
    ∀ k (h1 : k < xs.length) (h2 : k < ys.length), xs[k] ≤ ys[k] := by
  induction h with
  | nil => intro k h1; simp at h1
  | cons hxy _ ih =>
    intro k h1 h2
    cases k with
    | zero => simpa using hxy
    | succ k => simpa using ih k (by simpa using h1) (by simpa using h2)

/-! #### `to_tt(A, N, eps, rmax)` -/

/-- ranks chain, first left rank `1`, last right rank `1` (any oracle, any caps) -/
theorem toTTR_WF (svd : Oracle α) (caps N : List Nat) (A : Nat → α) : WF (toTTR svd caps N A) 1 := by
  cases N with
  | nil => simp [toTTR, toTTGoR, WF]
  | cons n ns => exact tr_toTTGoR_WF svd (n :: ns) (by simp) caps 1 _ _

/-- the mode sizes of the result are `N` (any oracle, any caps) -/
theorem toTTR_modes (svd : Oracle α) (caps N : List Nat) (A : Nat → α) : modesM (toTTR svd caps N A) = N :=
  tr_toTTGoR_modes svd N caps 1 _ _

theorem toTTR_isTensor (svd : Oracle α) (caps N : List Nat) (A : Nat → α) : IsTensor (toTTR svd caps N A) :=
  tr_toTTGoR_isTensor svd N caps 1 _ _

theorem toTTR_length (svd : Oracle α) (caps N : List Nat) (A : Nat → α) : (toTTR svd caps N A).length = N.length :=
  tr_toTTGoR_length svd N caps 1 _ _

/-- the bond ranks are exactly `min (rank returned by the oracle at that call) (cap of that bond)` -/
theorem toTTR_bondRanks_eq (svd : Oracle α) (caps N : List Nat) (A : Nat → α) (hlen : caps.length = N.length - 1) :
    bondRanks (toTTR svd caps N A)
      = List.zipWith min (tr_oracleRanksR svd N caps 1 (prodNat N) (fun _ j => A j)) caps :=
  tr_toTTGoR_bondRanks svd N caps hlen 1 _ _

/-- **(2) RANK BOUND**: every bond rank is `≤` its cap, whatever the oracle does -/
theorem toTTR_bondRanks_le (svd : Oracle α) (caps N : List Nat) (A : Nat → α) (hlen : caps.length = N.length - 1) :
    List.Forall₂ (· ≤ ·) (bondRanks (toTTR svd caps N A)) caps := by
  rw [toTTR_bondRanks_eq svd caps N A hlen]
  exact tr_forall2_zipWith_min_right _ _ (by rw [tr_oracleRanksR_length, hlen])

/-- … and `≤` the rank the oracle returned at that call -/
theorem toTTR_bondRanks_le_oracle (svd : Oracle α) (caps N : List Nat) (A : Nat → α)
    (hlen : caps.length = N.length - 1) :
    List.Forall₂ (· ≤ ·) (bondRanks (toTTR svd caps N A))
      (tr_oracleRanksR svd N caps 1 (prodNat N) (fun _ j => A j)) := by
  rw [toTTR_bondRanks_eq svd caps N A hlen]
  exact tr_forall2_zipWith_min_left _ _ (by rw [tr_oracleRanksR_length, hlen])

theorem tr_bondRanks_getElem (cs : List (Core α)) (k : Nat) (h : k < (bondRanks cs).length)
    (h' : k < cs.length) : (bondRanks cs)[k] = cs[k].r1 := by
  simp [bondRanks]

/-- `getElem` form: the right rank of core `k` is `≤ caps[k]` for every bond `k` -/
theorem toTTR_rank_le (svd : Oracle α) (caps N : List Nat) (A : Nat → α) (hlen : caps.length = N.length - 1)
    (k : Nat) (hk : k < caps.length) (hk' : k < (toTTR svd caps N A).length) :
    (toTTR svd caps N A)[k].r1 ≤ caps[k] := by
  have hb : k < (bondRanks (toTTR svd caps N A)).length := by
    rw [(toTTR_bondRanks_le svd caps N A hlen).length_eq]; exact hk
  rw [← tr_bondRanks_getElem _ k hb hk']
  exact tr_forall2_get (toTTR_bondRanks_le svd caps N A hlen) k hb hk

/-! #### `mat_to_tt(A, M, N, eps, rmax)` -/

theorem tr_toTTMR_eq (svd : Oracle α) (caps M N : List Nat) (A : Nat → α) :
    toTTMR svd caps M N A
      = splitAll (M.zip N) (toTTR svd caps (List.zipWith (· * ·) M N) (dm_interleave M N A)) := rfl

theorem tr_zip_length_eq (svd : Oracle α) (caps M N : List Nat) (A : Nat → α) :
    (M.zip N).length = (toTTR svd caps (List.zipWith (· * ·) M N) (dm_interleave M N A)).length := by
  rw [toTTR_length]; simp

theorem tr_map_r1_splitAll (mns : List (Nat × Nat)) (ts : List (Core α)) (hlen : mns.length = ts.length) :
    (splitAll mns ts).map (·.r1) = ts.map (·.r1) := by
  induction ts generalizing mns with
  | nil =>
    cases mns with
    | nil => rfl
    | cons mn mns => simp at hlen
  | cons c ts ih =>
    cases mns with
    | nil => simp at hlen
    | cons mn mns =>
      simp only [splitAll, List.map_cons, ih mns (by simpa using hlen)]
      rfl

theorem tr_bondRanks_splitAll (mns : List (Nat × Nat)) (ts : List (Core α)) (hlen : mns.length = ts.length) :
    bondRanks (splitAll mns ts) = bondRanks ts := by
  simp only [bondRanks, List.map_dropLast, tr_map_r1_splitAll mns ts hlen]

theorem toTTMR_WF (svd : Oracle α) (caps M N : List Nat) (A : Nat → α) : WF (toTTMR svd caps M N A) 1 := by
  rw [tr_toTTMR_eq, WF_splitAll _ _ _ (tr_zip_length_eq svd caps M N A)]
  exact toTTR_WF svd _ _ _

theorem toTTMR_modes (svd : Oracle α) (caps M N : List Nat) (A : Nat → α) :
    modesMN' (toTTMR svd caps M N A) = M.zip N := by
  rw [tr_toTTMR_eq]
  exact modesMN'_splitAll _ _ (tr_zip_length_eq svd caps M N A)

theorem toTTMR_length (svd : Oracle α) (caps M N : List Nat) (A : Nat → α) :
    (toTTMR svd caps M N A).length = (M.zip N).length := by
  have := congrArg List.length (toTTMR_modes svd caps M N A)
  simpa [modesMN'] using this

theorem toTTMR_bondRanks (svd : Oracle α) (caps M N : List Nat) (A : Nat → α) :
    bondRanks (toTTMR svd caps M N A)
      = bondRanks (toTTR svd caps (List.zipWith (· * ·) M N) (dm_interleave M N A)) := by
  rw [tr_toTTMR_eq]
  exact tr_bondRanks_splitAll _ _ (tr_zip_length_eq svd caps M N A)

/-- **(2) RANK BOUND for `mat_to_tt`**: every bond rank is `≤` its cap, whatever the oracle does -/
theorem toTTMR_bondRanks_le (svd : Oracle α) (caps M N : List Nat) (A : Nat → α)
    (hlen : caps.length = (M.zip N).length - 1) :
    List.Forall₂ (· ≤ ·) (bondRanks (toTTMR svd caps M N A)) caps := by
  rw [toTTMR_bondRanks]
  exact toTTR_bondRanks_le svd caps _ _ (by rw [hlen]; simp)

theorem toTTMR_rank_le (svd : Oracle α) (caps M N : List Nat) (A : Nat → α)
    (hlen : caps.length = (M.zip N).length - 1)
    (k : Nat) (hk : k < caps.length) (hk' : k < (toTTMR svd caps M N A).length) :
    (toTTMR svd caps M N A)[k].r1 ≤ caps[k] := by
  have hb : k < (bondRanks (toTTMR svd caps M N A)).length := by
    rw [(toTTMR_bondRanks_le svd caps M N A hlen).length_eq]; exact hk
  rw [← tr_bondRanks_getElem _ k hb hk']
  exact tr_forall2_get (toTTMR_bondRanks_le svd caps M N A hlen) k hb hk

/-! #### singleton modes do not exempt a bond from its cap -/

/-- COROLLARY: the bond to the right of core `k` obeys `caps[k]` also when the mode `N[k]` (or any other mode) has
size `1`: the statement `toTTR_rank_le` has no hypothesis on the mode sizes at all; spelled out for a singleton -/
theorem toTTR_rank_le_singleton (svd : Oracle α) (caps N : List Nat) (A : Nat → α)
    (hlen : caps.length = N.length - 1) (k : Nat) (hk : k < caps.length) (hkN : k < N.length) (_h1 : N[k] = 1)
    (hk' : k < (toTTR svd caps N A).length) :
    (toTTR svd caps N A)[k].m = 1 ∧ (toTTR svd caps N A)[k].r1 ≤ caps[k] := by
  refine ⟨?_, toTTR_rank_le svd caps N A hlen k hk hk'⟩
  have hm := toTTR_modes svd caps N A
  have : (modesM (toTTR svd caps N A))[k]'(by simpa [modesM] using hk') = N[k] := by simp only [hm]
  simpa [modesM, _h1] using this

/-! ### (3) NO-OP CAPS -/

theorem tr_toTTGo_ne_nil (svd : Oracle α) (n : Nat) (ns : List Nat) (rcur cols : Nat) (C : Mat α) :
    toTTGo svd (n :: ns) rcur cols C ≠ [] := by
  intro h
  have := congrArg List.length (dc_toTTGo_modes svd (n :: ns) rcur cols C)
  rw [h] at this
  simp [modesM] at this

/-- caps dominating the ranks the cap-free sweep chooses are no-ops (loop level) -/
theorem tr_toTTGoR_eq_toTTGo (svd : Oracle α) :
    ∀ (ns caps : List Nat) (rcur cols : Nat) (C : Mat α),
      List.Forall₂ (· ≤ ·) (bondRanks (toTTGo svd ns rcur cols C)) caps →
      toTTGoR svd ns caps rcur cols C = toTTGo svd ns rcur cols C := by
  intro ns
  induction ns with
  | nil => intro _ _ _ _ _; rfl
  | cons n ns' ih =>
    intro caps rcur cols C h
    cases ns' with
    | nil => rfl
    | cons n' ns'' =>
      simp only [bondRanks, toTTGo] at h
      rw [List.dropLast_cons_of_ne_nil (tr_toTTGo_ne_nil svd _ _ _ _ _), List.map_cons] at h
      cases h with
      | @cons _ cap _ caps' hle hrest =>
        simp only [toTTGoR, toTTGo, List.headD_cons, List.tail_cons]
        rw [capFact_of_le cap _ hle, ih caps' _ _ _ hrest]

/-- **(3)** if every cap is at least the rank the cap-free sweep chooses at that bond, the caps are no-ops:
the capped sweep IS the cap-free sweep (so every theorem of C01c / C01e about `toTT` transfers) -/
theorem toTTR_eq_toTT (svd : Oracle α) (caps N : List Nat) (A : Nat → α)
    (hcaps : List.Forall₂ (· ≤ ·) (bondRanks (toTT svd N A)) caps) :
    toTTR svd caps N A = toTT svd N A :=
  tr_toTTGoR_eq_toTTGo svd N caps 1 _ _ hcaps

/-- a uniform sufficient condition: the oracle never returns more than `B` and every cap is `≥ B` -/
theorem tr_slack_of_bound (svd : Oracle α) (B : Nat) (hB : ∀ rows cols C, (svd rows cols C).r ≤ B) :
    ∀ (ns caps : List Nat), caps.length = ns.length - 1 → (∀ c ∈ caps, B ≤ c) →
    ∀ (rcur cols : Nat) (C : Mat α),
      List.Forall₂ (· ≤ ·) (bondRanks (toTTGo svd ns rcur cols C)) caps := by
  intro ns
  induction ns with
  | nil =>
    intro caps hlen _ _ _ _
    have : caps = [] := List.length_eq_zero_iff.mp (by simpa using hlen)
    subst this; exact List.Forall₂.nil
  | cons n ns' ih =>
    intro caps hlen hc rcur cols C
    cases ns' with
    | nil =>
      have : caps = [] := List.length_eq_zero_iff.mp (by simpa using hlen)
      subst this; exact List.Forall₂.nil
    | cons n' ns'' =>
      cases caps with
      | nil => simp at hlen
      | cons cap caps' =>
        simp only [bondRanks, toTTGo]
        rw [List.dropLast_cons_of_ne_nil (tr_toTTGo_ne_nil svd _ _ _ _ _), List.map_cons]
        exact List.Forall₂.cons (Nat.le_trans (hB _ _ _) (hc cap (by simp)))
          (ih caps' (by simpa using hlen) (fun c hc' => hc c (List.mem_cons_of_mem _ hc')) _ _ _)

theorem toTTR_eq_toTT_of_bound (svd : Oracle α) (B : Nat) (hB : ∀ rows cols C, (svd rows cols C).r ≤ B)
    (caps N : List Nat) (A : Nat → α) (hlen : caps.length = N.length - 1) (hc : ∀ c ∈ caps, B ≤ c) :
    toTTR svd caps N A = toTT svd N A :=
  toTTR_eq_toTT svd caps N A (tr_slack_of_bound svd B hB N caps hlen hc 1 _ _)

/-- **`toTTR_exact`**: exact oracle + non-binding caps ⇒ the train reproduces `A` -/
theorem toTTR_exact (svd : Oracle α) (hsvd : Exact svd) (caps N : List Nat) (A : Nat → α) (is : List Nat)
    (hne : N ≠ []) (hr : List.Forall₂ (· < ·) is N)
    (hcaps : List.Forall₂ (· ≤ ·) (bondRanks (toTT svd N A)) caps) :
    full (toTTR svd caps N A) (tIdx is) = A (flatIdx N is) := by
  rw [toTTR_eq_toTT svd caps N A hcaps]
  exact toTT_exact svd hsvd N A is hne hr

theorem toTTR_exact_upto (svd : Oracle α) (B : Nat) (hsvd : dc_ExactUpTo svd B) (caps N : List Nat) (A : Nat → α)
    (is : List Nat) (hne : N ≠ []) (hr : List.Forall₂ (· < ·) is N) (hB : prodNat N ≤ B)
    (hcaps : List.Forall₂ (· ≤ ·) (bondRanks (toTT svd N A)) caps) :
    full (toTTR svd caps N A) (tIdx is) = A (flatIdx N is) := by
  rw [toTTR_eq_toTT svd caps N A hcaps]
  exact toTT_exact_upto svd B hsvd N A is hne hr hB

/-- the same for `mat_to_tt` -/
theorem toTTMR_eq_toTTM (svd : Oracle α) (caps M N : List Nat) (A : Nat → α)
    (hcaps : List.Forall₂ (· ≤ ·) (bondRanks (Decomp.toTTM svd M N A)) caps) :
    toTTMR svd caps M N A = Decomp.toTTM svd M N A := by
  rw [dm_toTTM_eq, tr_bondRanks_splitAll _ _ (dm_zip_length_eq svd M N A)] at hcaps
  rw [tr_toTTMR_eq, dm_toTTM_eq, toTTR_eq_toTT svd caps _ _ hcaps]

theorem toTTMR_exact (svd : Oracle α) (hsvd : Exact svd) (caps M N : List Nat) (A : Nat → α) (is js : List Nat)
    (hne : M ≠ []) (hlen : M.length = N.length)
    (hi : List.Forall₂ (· < ·) is M) (hj : List.Forall₂ (· < ·) js N)
    (hcaps : List.Forall₂ (· ≤ ·) (bondRanks (Decomp.toTTM svd M N A)) caps) :
    full (toTTMR svd caps M N A) (is.zip js) = A (flatIdx (M ++ N) (is ++ js)) := by
  rw [toTTMR_eq_toTTM svd caps M N A hcaps]
  exact toTTM_exact svd hsvd M N A is js hne hlen hi hj

/-! ### (4) the error identity with caps -/

section DefsR
variable {β : Type} [Zero β] [One β] [Add β] [Mul β] [Sub β]

/-- residual energies `‖C − left[:, :r']·right[:r', :]‖²` of the capped SVD calls of `toTTGoR`, in call order -/
def tailEnergiesR (svd : Oracle β) : List Nat → List Nat → Nat → Nat → Mat β → List β
  | [], _, _, _, _ => []
  | [_], _, _, _, _ => []
  | n :: n' :: ns, caps, rcur, cols, C =>
    let cols' := cols / n
    let Cr : Mat β := fun p j => C (p / n) ((p % n) * cols' + j)
    let f := capFact (caps.headD 0) (svd (rcur * n) cols' Cr)
    matSq (rcur * n) cols' (te_resid Cr f) :: tailEnergiesR svd (n' :: ns) caps.tail f.r cols' f.right

/-- the truncated-SVD contract of the (un-capped) oracle outputs, on the calls made by `toTTGoR` -/
def tr_CallsOKR (svd : Oracle β) : List Nat → List Nat → Nat → Nat → Mat β → Prop
  | [], _, _, _, _ => True
  | [_], _, _, _, _ => True
  | n :: n' :: ns, caps, rcur, cols, C =>
    let cols' := cols / n
    let Cr : Mat β := fun p j => C (p / n) ((p % n) * cols' + j)
    let f := svd (rcur * n) cols' Cr
    te_StepOK (rcur * n) cols' Cr f ∧
      tr_CallsOKR svd (n' :: ns) caps.tail (capFact (caps.headD 0) f).r cols' f.right

end DefsR

/-- residual of the capped factorisation = residual of the oracle's + the dropped rank-one terms -/
theorem tr_resid_cap (C : Mat α) (f : Fact α) (cap : Nat) (i j : Nat) :
    te_resid C (capFact cap f) i j
      = te_resid C f i j
        + sumTo (f.r - min f.r cap) (fun t => f.left i (min f.r cap + t) * f.right (min f.r cap + t) j) := by
  have e := sumTo_add (min f.r cap) (f.r - min f.r cap) (fun k => f.left i k * f.right k j)
  rw [Nat.add_sub_cancel' (Nat.min_le_left _ _)] at e
  simp only [te_resid, capFact]
  rw [e]; ring

/-- **cutting an orthonormal factorisation keeps the truncated-SVD step contract** -/
theorem tr_capFact_StepOK (rows cols : Nat) (C : Mat α) (f : Fact α) (cap : Nat)
    (h : te_StepOK rows cols C f) : te_StepOK rows cols C (capFact cap f) := by
  obtain ⟨ha, hb⟩ := h
  have hle : min f.r cap ≤ f.r := Nat.min_le_left _ _
  refine ⟨?_, ?_⟩
  · intro k k' hk hk'
    exact ha k k' (Nat.lt_of_lt_of_le hk hle) (Nat.lt_of_lt_of_le hk' hle)
  · intro k j hk hj
    have hk : k < min f.r cap := hk
    have hkr : k < f.r := Nat.lt_of_lt_of_le hk hle
    simp only [tr_resid_cap, tr_capFact_left, mul_add]
    rw [sumTo_add_fn, hb k j hkr hj, zero_add]
    have : sumTo rows (fun i => f.left i k *
          sumTo (f.r - min f.r cap) (fun t => f.left i (min f.r cap + t) * f.right (min f.r cap + t) j))
        = sumTo (f.r - min f.r cap) (fun t =>
            sumTo rows (fun i => f.left i k * f.left i (min f.r cap + t)) * f.right (min f.r cap + t) j) := by
      simp only [sumTo_eq_sum, Finset.mul_sum, Finset.sum_mul]
      rw [Finset.sum_comm]
      apply Finset.sum_congr rfl; intro t _
      apply Finset.sum_congr rfl; intro i _
      ring
    rw [this]
    apply sumTo_eq_zero; intro t ht
    rw [ha k (min f.r cap + t) hkr (by omega)]
    have : k ≠ min f.r cap + t := by omega
    simp [this]

/-- an integer `rmax` on top of a truncating orthonormal oracle is again such an oracle -/
theorem tr_capOracle_trunc (svd : Oracle α) (h : TruncSVD svd) (c : Nat) : TruncSVD (tr_capOracle svd c) :=
  fun rows cols C => tr_capFact_StepOK rows cols C _ c (h rows cols C)

/-- the energy discarded by a capped call = the oracle's own discarded energy + the energy of the rows of
`right` dropped by the cap -/
theorem tr_capped_energy (rows cols : Nat) (C : Mat α) (f : Fact α) (cap : Nat)
    (h : te_StepOK rows cols C f) :
    matSq rows cols (te_resid C (capFact cap f))
      = matSq rows cols (te_resid C f)
        + matSq (f.r - min f.r cap) cols (fun t j => f.right (min f.r cap + t) j) := by
  have hle : min f.r cap ≤ f.r := Nat.min_le_left _ _
  have hp := te_pythagoras rows cols C f h (fun k j => if k < min f.r cap then f.right k j else 0)
  have e1 : matSq rows cols (fun i j => C i j - sumTo f.r (fun k => f.left i k *
        (if k < min f.r cap then f.right k j else 0)))
      = matSq rows cols (te_resid C (capFact cap f)) := by
    unfold matSq
    apply sumTo_congr; intro i _
    apply sumTo_congr; intro j _
    have e := sumTo_add (min f.r cap) (f.r - min f.r cap)
      (fun k => f.left i k * (if k < min f.r cap then f.right k j else 0))
    rw [Nat.add_sub_cancel' hle] at e
    have e2 : sumTo (min f.r cap) (fun k => f.left i k * (if k < min f.r cap then f.right k j else 0))
        = sumTo (min f.r cap) (fun k => f.left i k * f.right k j) :=
      sumTo_congr (fun k hk => by simp [hk])
    have e3 : sumTo (f.r - min f.r cap) (fun t => f.left i (min f.r cap + t) *
        (if min f.r cap + t < min f.r cap then f.right (min f.r cap + t) j else 0)) = 0 :=
      sumTo_eq_zero (fun t _ => by
        have hn : ¬ (min f.r cap + t < min f.r cap) := by omega
        rw [if_neg hn, mul_zero])
    have e4 : C i j - sumTo f.r (fun k => f.left i k * (if k < min f.r cap then f.right k j else 0))
        = te_resid C (capFact cap f) i j := by
      rw [e, e2, e3, add_zero]; rfl
    exact congrArg (fun x => x * x) e4
  have e5 : matSq f.r cols (fun k j => f.right k j - (if k < min f.r cap then f.right k j else 0))
      = matSq (f.r - min f.r cap) cols (fun t j => f.right (min f.r cap + t) j) := by
    unfold matSq
    have e := sumTo_add (min f.r cap) (f.r - min f.r cap)
      (fun k => sumTo cols (fun j => (f.right k j - (if k < min f.r cap then f.right k j else 0)) *
        (f.right k j - (if k < min f.r cap then f.right k j else 0))))
    rw [Nat.add_sub_cancel' hle] at e
    rw [e]
    have z : sumTo (min f.r cap) (fun k => sumTo cols (fun j =>
        (f.right k j - (if k < min f.r cap then f.right k j else 0)) *
        (f.right k j - (if k < min f.r cap then f.right k j else 0)))) = 0 :=
      sumTo_eq_zero (fun k hk => sumTo_eq_zero (fun j _ => by rw [if_pos hk, sub_self, mul_zero]))
    rw [z, zero_add]
    apply sumTo_congr; intro t _
    apply sumTo_congr; intro j _
    have hn : ¬ (min f.r cap + t < min f.r cap) := by omega
    rw [if_neg hn, sub_zero]
  rw [← e1, hp, e5]

/-- the loop invariant of the capped sweep -/
theorem tr_goR_errSq (svd : Oracle α) :
    ∀ (ns : List Nat), ns ≠ [] → (∀ n ∈ ns, 0 < n) →
    ∀ (caps : List Nat) (rcur cols : Nat) (C : Mat α), cols = prodNat ns →
      tr_CallsOKR svd ns caps rcur cols C →
      sumTo rcur (fun a => sumIdx ns (fun is =>
        (C a (flatIdx ns is) - chain (toTTGoR svd ns caps rcur cols C) (tIdx is) a 0) *
        (C a (flatIdx ns is) - chain (toTTGoR svd ns caps rcur cols C) (tIdx is) a 0)))
      = (tailEnergiesR svd ns caps rcur cols C).sum := by
  intro ns
  induction ns with
  | nil => intro h; exact absurd rfl h
  | cons n ns' ih =>
    intro _ hpos caps rcur cols C hcols hok
    cases ns' with
    | nil =>
      simp only [tailEnergiesR, List.sum_nil]
      apply sumTo_eq_zero; intro a _
      simp [sumIdx, toTTGoR, tIdx, chain, flatIdx, sumTo, dc_prodNat_nil]
      exact sumTo_zero' n
    | cons n' ns'' =>
      have hn : 0 < n := hpos n (by simp)
      have hpos' : ∀ m ∈ n' :: ns'', 0 < m := fun m hm => hpos m (List.mem_cons_of_mem _ hm)
      have hc' : cols / n = prodNat (n' :: ns'') := by rw [hcols, dc_prodNat_div _ _ hn]
      obtain ⟨hstep, hrest⟩ := hok
      have hstep' := tr_capFact_StepOK _ _ _ _ (caps.headD 0) hstep
      have ih' := ih (by simp) hpos' _ _ _ _ hc' hrest
      simp only [tailEnergiesR, List.sum_cons, tr_capFact_right]
      rw [← ih']
      have hs := te_step (rcur * n) (cols / n) (n' :: ns'') hc' _ _ hstep'
        (fun is k => chain (toTTGoR svd (n' :: ns'') caps.tail
          (capFact (caps.headD 0)
            (svd (rcur * n) (cols / n) fun p j => C (p / n) (p % n * (cols / n) + j))).r (cols / n)
          (svd (rcur * n) (cols / n) fun p j => C (p / n) (p % n * (cols / n) + j)).right) (tIdx is) k 0)
      simp only [tr_capFact_right] at hs
      rw [← hs]
      rw [sumTo_mul]
      apply sumTo_congr; intro a ha
      rw [sumIdx_cons]
      apply sumTo_congr; intro i hi
      apply sumIdx_congr; intro is his
      simp only [merge_div hi, merge_mod hi, dc_flatIdx_cons, hc', dc_tIdx_cons, toTTGoR, chain,
        tr_capFact_left, tr_capFact_right]

theorem tr_callsOKR_of_trunc (svd : Oracle α) (h : TruncSVD svd) :
    ∀ (ns caps : List Nat) (rcur cols : Nat) (C : Mat α), tr_CallsOKR svd ns caps rcur cols C := by
  intro ns
  induction ns with
  | nil => intro _ _ _ _; trivial
  | cons n ns' ih =>
    intro caps rcur cols C
    cases ns' with
    | nil => trivial
    | cons n' ns'' => exact ⟨h _ _ _, ih _ _ _ _⟩

theorem tailEnergiesR_length (svd : Oracle α) :
    ∀ (ns caps : List Nat) (rcur cols : Nat) (C : Mat α),
      (tailEnergiesR svd ns caps rcur cols C).length = ns.length - 1 := by
  intro ns
  induction ns with
  | nil => intro _ _ _ _; rfl
  | cons n ns' ih =>
    intro caps rcur cols C
    cases ns' with
    | nil => rfl
    | cons n' ns'' =>
      simp only [tailEnergiesR, List.length_cons]
      rw [ih]; simp

/-- **error identity with caps, contract required only on the calls the capped sweep makes** -/
theorem toTTR_errSq_calls (svd : Oracle α) (caps N : List Nat) (A : Nat → α) (hne : N ≠ [])
    (hpos : ∀ n ∈ N, 0 < n) (h : tr_CallsOKR svd N caps 1 (prodNat N) (fun _ j => A j)) :
    errSq N A (toTTR svd caps N A) = (tailEnergiesR svd N caps 1 (prodNat N) (fun _ j => A j)).sum := by
  have := tr_goR_errSq svd N hne hpos caps 1 (prodNat N) (fun _ j => A j) rfl h
  rw [sumTo_one] at this
  exact this

/-- **(4) MAIN — with a truncating orthonormal oracle and ANY caps, the squared Frobenius error of
`to_tt(A, N, eps, rmax)` is EXACTLY the sum of the energies discarded by its `d − 1` capped SVDs** -/
theorem toTTR_errSq (svd : Oracle α) (h : TruncSVD svd) (caps N : List Nat) (A : Nat → α) (hne : N ≠ [])
    (hpos : ∀ n ∈ N, 0 < n) :
    errSq N A (toTTR svd caps N A) = (tailEnergiesR svd N caps 1 (prodNat N) (fun _ j => A j)).sum :=
  toTTR_errSq_calls svd caps N A hne hpos (tr_callsOKR_of_trunc svd h N caps 1 (prodNat N) _)

/-! #### the two sources of error: the oracle's own truncation (`eps`) and the cap (`rmax`) -/

section DefsR2
variable {β : Type} [Zero β] [One β] [Add β] [Mul β] [Sub β]

/-- energies discarded by the oracle itself at the calls of the capped sweep -/
def tr_oracleEnergiesR (svd : Oracle β) : List Nat → List Nat → Nat → Nat → Mat β → List β
  | [], _, _, _, _ => []
  | [_], _, _, _, _ => []
  | n :: n' :: ns, caps, rcur, cols, C =>
    let cols' := cols / n
    let Cr : Mat β := fun p j => C (p / n) ((p % n) * cols' + j)
    let f := svd (rcur * n) cols' Cr
    matSq (rcur * n) cols' (te_resid Cr f)
      :: tr_oracleEnergiesR svd (n' :: ns) caps.tail (capFact (caps.headD 0) f).r cols' f.right

/-- energies of the rows `cap ≤ k < f.r` of `right` dropped by the caps -/
def tr_droppedEnergiesR (svd : Oracle β) : List Nat → List Nat → Nat → Nat → Mat β → List β
  | [], _, _, _, _ => []
  | [_], _, _, _, _ => []
  | n :: n' :: ns, caps, rcur, cols, C =>
    let cols' := cols / n
    let Cr : Mat β := fun p j => C (p / n) ((p % n) * cols' + j)
    let f := svd (rcur * n) cols' Cr
    matSq (f.r - min f.r (caps.headD 0)) cols' (fun t j => f.right (min f.r (caps.headD 0) + t) j)
      :: tr_droppedEnergiesR svd (n' :: ns) caps.tail (capFact (caps.headD 0) f).r cols' f.right

end DefsR2

theorem tr_tailEnergiesR_split (svd : Oracle α) :
    ∀ (ns caps : List Nat) (rcur cols : Nat) (C : Mat α), tr_CallsOKR svd ns caps rcur cols C →
      (tailEnergiesR svd ns caps rcur cols C).sum
        = (tr_oracleEnergiesR svd ns caps rcur cols C).sum + (tr_droppedEnergiesR svd ns caps rcur cols C).sum := by
  intro ns
  induction ns with
  | nil => intro _ _ _ _ _; simp [tailEnergiesR, tr_oracleEnergiesR, tr_droppedEnergiesR]
  | cons n ns' ih =>
    intro caps rcur cols C hok
    cases ns' with
    | nil => simp [tailEnergiesR, tr_oracleEnergiesR, tr_droppedEnergiesR]
    | cons n' ns'' =>
      obtain ⟨hstep, hrest⟩ := hok
      simp only [tailEnergiesR, tr_oracleEnergiesR, tr_droppedEnergiesR, List.sum_cons, tr_capFact_right]
      rw [ih _ _ _ _ hrest, tr_capped_energy _ _ _ _ (caps.headD 0) hstep]
      ring

/-- **(4′)** `‖A − TT‖²_F = Σ (energies discarded by the oracle, "eps") + Σ (energies dropped by the caps, "rmax")` -/
theorem toTTR_errSq_split (svd : Oracle α) (h : TruncSVD svd) (caps N : List Nat) (A : Nat → α) (hne : N ≠ [])
    (hpos : ∀ n ∈ N, 0 < n) :
    errSq N A (toTTR svd caps N A)
      = (tr_oracleEnergiesR svd N caps 1 (prodNat N) (fun _ j => A j)).sum
        + (tr_droppedEnergiesR svd N caps 1 (prodNat N) (fun _ j => A j)).sum := by
  rw [toTTR_errSq svd h caps N A hne hpos]
  exact tr_tailEnergiesR_split svd N caps 1 _ _ (tr_callsOKR_of_trunc svd h N caps 1 _ _)

/-! #### bounds over an ordered ring -/
section OrderedR
variable {β : Type} [CommRing β] [LinearOrder β] [IsStrictOrderedRing β]

theorem tailEnergiesR_nonneg (svd : Oracle β) :
    ∀ (ns caps : List Nat) (rcur cols : Nat) (C : Mat β), ∀ e ∈ tailEnergiesR svd ns caps rcur cols C, 0 ≤ e := by
  intro ns
  induction ns with
  | nil => intro _ _ _ _ e he; simp [tailEnergiesR] at he
  | cons n ns' ih =>
    intro caps rcur cols C e he
    cases ns' with
    | nil => simp [tailEnergiesR] at he
    | cons n' ns'' =>
      simp only [tailEnergiesR, List.mem_cons] at he
      rcases he with rfl | he
      · exact matSq_nonneg _ _ _
      · exact ih _ _ _ _ e he

/-- every per-call discarded energy `≤ b` ⇒ `‖A − TT‖² ≤ (d − 1)·b` -/
theorem toTTR_errSq_le (svd : Oracle β) (h : TruncSVD svd) (caps N : List Nat) (A : Nat → β) (hne : N ≠ [])
    (hpos : ∀ n ∈ N, 0 < n) (b : β)
    (hb : ∀ e ∈ tailEnergiesR svd N caps 1 (prodNat N) (fun _ j => A j), e ≤ b) :
    errSq N A (toTTR svd caps N A) ≤ ((N.length - 1 : Nat) : β) * b := by
  rw [toTTR_errSq svd h caps N A hne hpos, ← tailEnergiesR_length svd N caps 1 (prodNat N) (fun _ j => A j)]
  exact te_sum_le _ b hb

/-- the error is at least every single discarded energy: a binding cap cannot be compensated downstream -/
theorem toTTR_errSq_ge (svd : Oracle β) (h : TruncSVD svd) (caps N : List Nat) (A : Nat → β) (hne : N ≠ [])
    (hpos : ∀ n ∈ N, 0 < n) :
    ∀ e ∈ tailEnergiesR svd N caps 1 (prodNat N) (fun _ j => A j), e ≤ errSq N A (toTTR svd caps N A) := by
  rw [toTTR_errSq svd h caps N A hne hpos]
  intro e he
  exact (te_single_le_sum _ (tailEnergiesR_nonneg svd N caps 1 _ _)).2 e he

end OrderedR

/-! ### (5) non-vacuity: `decide`-checked instances -/

/-- the integer array of the examples, through its flat index -/
def tr_exA : Nat → Int := fun j => (j : Int) * j - 3 * j + 1

/-- singleton mode at position 1, the cap drops from 2 to 1 after it: the oracle (`idOracle 1000`, never truncating)
returns the ranks `[3, 2]`, the caps `[2, 1]` bind at BOTH bonds — the singleton mode does not exempt bond 2 -/
example : bondRanks (toTTR (idOracle 1000) [2, 1] [3, 1, 3] tr_exA) = [2, 1] := by decide
example : tr_oracleRanksR (idOracle 1000) [3, 1, 3] [2, 1] 1 9 (fun _ j => tr_exA j) = [3, 2] := by decide
example : bondRanks (toTT (idOracle 1000) [3, 1, 3] tr_exA) = [3, 3] := by decide
example : ranks (toTTR (idOracle 1000) [2, 1] [3, 1, 3] tr_exA) = [1, 2, 1, 1] := by decide

/-- order 4, `N = [3,1,3,2]`, caps `[2,1,2]`: oracle ranks `[3,2,2]`, bond ranks `[2,1,2] = min` -/
example : bondRanks (toTTR (idOracle 1000) [2, 1, 2] [3, 1, 3, 2] tr_exA) = [2, 1, 2] := by decide
example : tr_oracleRanksR (idOracle 1000) [3, 1, 3, 2] [2, 1, 2] 1 18 (fun _ j => tr_exA j) = [3, 2, 2] := by decide
example : bondRanks (toTT (idOracle 1000) [3, 1, 3, 2] tr_exA) = [3, 3, 2] := by decide

/-- the general theorems instantiated -/
example : List.Forall₂ (· ≤ ·) (bondRanks (toTTR (idOracle 1000) [2, 1, 2] [3, 1, 3, 2] tr_exA)) [2, 1, 2] :=
  toTTR_bondRanks_le _ _ _ _ rfl
example : (toTTR (idOracle 1000) [2, 1, 2] [3, 1, 3, 2] tr_exA)[1].m = 1
    ∧ (toTTR (idOracle 1000) [2, 1, 2] [3, 1, 3, 2] tr_exA)[1].r1 ≤ 1 :=
  toTTR_rank_le_singleton (idOracle 1000) [2, 1, 2] [3, 1, 3, 2] tr_exA rfl 1 (by decide) (by decide) rfl
    (by decide)
example : WF (toTTR (idOracle 1000) [2, 1, 2] [3, 1, 3, 2] tr_exA) 1 := toTTR_WF _ _ _ _
example : modesM (toTTR (idOracle 1000) [2, 1, 2] [3, 1, 3, 2] tr_exA) = [3, 1, 3, 2] := toTTR_modes _ _ _ _

/-- the cap binds ⇒ the tensor is NOT reproduced (entry `(1,0,0)`: `0` instead of `1`) although the oracle is exact -/
example : full (toTTR (idOracle 1000) [2, 1] [3, 1, 3] tr_exA) (tIdx [1, 0, 0])
    ≠ tr_exA (flatIdx [3, 1, 3] [1, 0, 0]) := by decide
example : full (toTT (idOracle 1000) [3, 1, 3] tr_exA) (tIdx [1, 0, 0])
    = tr_exA (flatIdx [3, 1, 3] [1, 0, 0]) := by decide

/-- non-binding caps: the capped sweep IS the cap-free sweep, and reproduces the tensor -/
theorem tr_ex_slack : List.Forall₂ (· ≤ ·) (bondRanks (toTT (idOracle 1000) [3, 1, 3] tr_exA)) [3, 5] := by
  have h : bondRanks (toTT (idOracle 1000) [3, 1, 3] tr_exA) = [3, 3] := by decide
  rw [h]
  exact List.Forall₂.cons (by decide) (List.Forall₂.cons (by decide) List.Forall₂.nil)

example : toTTR (idOracle 1000) [3, 5] [3, 1, 3] tr_exA = toTT (idOracle 1000) [3, 1, 3] tr_exA :=
  toTTR_eq_toTT _ _ _ _ tr_ex_slack
example : toTTR (idOracle 1000) [1000, 1000] [3, 1, 3] tr_exA = toTT (idOracle 1000) [3, 1, 3] tr_exA :=
  toTTR_eq_toTT_of_bound (idOracle 1000) 1000
    (fun rows cols C => by unfold idOracle; split <;> exact Nat.min_le_right _ _) _ _ _ rfl (by decide)
example : full (toTTR (idOracle 1000) [3, 5] [3, 1, 3] tr_exA) (tIdx [2, 0, 1])
    = tr_exA (flatIdx [3, 1, 3] [2, 0, 1]) :=
  toTTR_exact_upto (idOracle 1000) 1000 (dc_idOracle_upto 1000) [3, 5] [3, 1, 3] tr_exA [2, 0, 1] (by decide)
    (inRange_of_get _ _ rfl (by decide)) (by decide) tr_ex_slack
example : ∀ i0 < 3, ∀ i2 < 3, full (toTTR (idOracle 1000) [3, 5] [3, 1, 3] tr_exA) (tIdx [i0, 0, i2])
    = tr_exA (flatIdx [3, 1, 3] [i0, 0, i2]) := by decide
/-- the bound caps `[3, 5]` are tight in the first position: `[2, 5]` already loses the tensor -/
example : ¬ List.Forall₂ (· ≤ ·) (bondRanks (toTT (idOracle 1000) [3, 1, 3] tr_exA)) [2, 5] := by
  have h : bondRanks (toTT (idOracle 1000) [3, 1, 3] tr_exA) = [3, 3] := by decide
  rw [h]; intro h'
  cases h' with
  | cons h1 _ => exact absurd h1 (by decide)

/-- uniform cap = capped oracle (1) -/
example : toTTR (idOracle 1000) [2, 2] [3, 1, 3] tr_exA = toTT (tr_capOracle (idOracle 1000) 2) [3, 1, 3] tr_exA :=
  toTTR_eq_toTT_capped (idOracle 1000) 2 2 [3, 1, 3] tr_exA (by decide)

/-- `mat_to_tt` with a cap: `M = [2,3]`, `N = [3,2]`, the free rank is `6`, the cap `2` binds -/
example : bondRanks (toTTMR (idOracle 1000) [2] [2, 3] [3, 2] tr_exA) = [2] := by decide
example : bondRanks (Decomp.toTTM (idOracle 1000) [2, 3] [3, 2] tr_exA) = [6] := by decide
example : List.Forall₂ (· ≤ ·) (bondRanks (toTTMR (idOracle 1000) [2] [2, 3] [3, 2] tr_exA)) [2] :=
  toTTMR_bondRanks_le _ _ _ _ _ rfl
example : modesMN' (toTTMR (idOracle 1000) [2] [2, 3] [3, 2] tr_exA) = [(2, 3), (3, 2)] := toTTMR_modes _ _ _ _ _
example : WF (toTTMR (idOracle 1000) [2] [2, 3] [3, 2] tr_exA) 1 := toTTMR_WF _ _ _ _ _

/-- `toTTR_exact` / `toTTMR_exact` instantiated with the everywhere-exact oracle `dc_idFull` -/
example : full (toTTR dc_idFull [3, 3] [3, 1, 3] tr_exA) (tIdx [2, 0, 1]) = tr_exA (flatIdx [3, 1, 3] [2, 0, 1]) :=
  toTTR_exact dc_idFull idFull_exact [3, 3] [3, 1, 3] tr_exA [2, 0, 1] (by decide)
    (inRange_of_get _ _ rfl (by decide)) (by
      have h : bondRanks (toTT dc_idFull [3, 1, 3] tr_exA) = [3, 3] := by decide
      rw [h]
      exact List.Forall₂.cons (by decide) (List.Forall₂.cons (by decide) List.Forall₂.nil))
example : full (toTTMR dc_idFull [6] [2, 3] [3, 2] tr_exA) ([1, 2].zip [2, 1])
    = tr_exA (flatIdx ([2, 3] ++ [3, 2]) ([1, 2] ++ [2, 1])) :=
  toTTMR_exact dc_idFull idFull_exact [6] [2, 3] [3, 2] tr_exA [1, 2] [2, 1] (by decide) rfl
    (inRange_of_get _ _ rfl (by decide)) (inRange_of_get _ _ rfl (by decide)) (by
      have h : bondRanks (Decomp.toTTM dc_idFull [2, 3] [3, 2] tr_exA) = [6] := by decide
      rw [h]
      exact List.Forall₂.cons (by decide) List.Forall₂.nil)
/-- … and with the binding cap `2` the operator entry is lost -/
example : full (toTTMR (idOracle 1000) [2] [2, 3] [3, 2] tr_exA) [(1, 2), (2, 1)] ≠ tr_exA 35 := by decide

/-- (4) checked numerically with the orthonormal oracle `te_rowOracle 1000` (never truncating by itself) and
binding caps: `3030 = 2883 + 147`, all of it caused by the caps -/
example : errSq [3, 1, 3] tr_exA (toTTR (te_rowOracle 1000) [2, 1] [3, 1, 3] tr_exA) = 3030 := by decide
example : tailEnergiesR (te_rowOracle 1000) [3, 1, 3] [2, 1] 1 9 (fun _ j => tr_exA j) = [2883, 147] := by decide
example : tr_oracleEnergiesR (te_rowOracle 1000) [3, 1, 3] [2, 1] 1 9 (fun _ j => tr_exA j) = [0, 0] := by decide
example : tr_droppedEnergiesR (te_rowOracle 1000) [3, 1, 3] [2, 1] 1 9 (fun _ j => tr_exA j) = [2883, 147] := by
  decide
example : errSq [3, 1, 3] tr_exA (toTTR (te_rowOracle 1000) [2, 1] [3, 1, 3] tr_exA)
    = (tailEnergiesR (te_rowOracle 1000) [3, 1, 3] [2, 1] 1 (prodNat [3, 1, 3]) (fun _ j => tr_exA j)).sum :=
  toTTR_errSq (te_rowOracle 1000) (te_rowOracle_trunc 1000) [2, 1] [3, 1, 3] tr_exA (by decide) (by decide)
example : te_StepOK 3 3 (fun i j => tr_exA (i * 3 + j))
    (capFact 2 (te_rowOracle 1000 3 3 (fun i j => tr_exA (i * 3 + j)))) :=
  tr_capFact_StepOK _ _ _ _ 2 (te_rowOracle_trunc 1000 3 3 _)

/-- the orthonormality hypothesis is needed: with the non-orthonormal `te_badOracle` the identity fails -/
example : errSq [2, 2, 2] (fun _ => (1 : Int)) (toTTR te_badOracle [1, 1] [2, 2, 2] (fun _ => 1))
    ≠ (tailEnergiesR te_badOracle [2, 2, 2] [1, 1] 1 8 (fun _ _ => (1 : Int))).sum := by decide

#print axioms toTTR_eq_toTT_capped
#print axioms toTTR_WF
#print axioms toTTR_modes
#print axioms toTTR_bondRanks_eq
#print axioms toTTR_bondRanks_le
#print axioms toTTR_bondRanks_le_oracle
#print axioms toTTR_rank_le
#print axioms toTTR_rank_le_singleton
#print axioms toTTMR_WF
#print axioms toTTMR_modes
#print axioms toTTMR_bondRanks_le
#print axioms toTTMR_rank_le
#print axioms toTTR_eq_toTT
#print axioms toTTR_eq_toTT_of_bound
#print axioms toTTR_exact
#print axioms toTTR_exact_upto
#print axioms toTTMR_eq_toTTM
#print axioms toTTMR_exact
#print axioms tr_capFact_StepOK
#print axioms tr_capOracle_trunc
#print axioms tr_capped_energy
#print axioms tr_goR_errSq
#print axioms toTTR_errSq_calls
#print axioms toTTR_errSq
#print axioms toTTR_errSq_split
#print axioms toTTR_errSq_le
#print axioms toTTR_errSq_ge

end TT.C01
