import TTLemmas.Matmul

/-!
# C04 — TT-matrix products equal dense linear-operator algebra

`full` is the TT semantics (M-val): `full A (is.zip js)` is the entry `A[(i_1,…,i_d),(j_1,…,j_d)]`
of the operator represented by the train `A`; a TT-tensor is the `n = 1` case and its entries are
`full x (tIdx is)`.  `sumIdx [n_1,…,n_d] f` is the sum of `f [k_1,…,k_d]` over the whole index box
`k_p < n_p`.  All statements hold for every order `d`, every mode-size pattern, every rank profile
and every core value over an arbitrary commutative ring.

`matmul`, `vecmat`, `transpose`, `denseMatvec` are the core-by-core models of `TT.__matmul__`
(TT-matrix @ TT-matrix, TT-matrix @ TT-tensor, TT-tensor @ TT-matrix, TT-matrix @ dense array) and
`TT.t()`.

Remark on hypotheses.  The shape checks of the code (`InnerMatch`: `x.n = y.m` core by core;
`IsTensor`/`RowMatch` for `x @ A`) are carried as hypotheses because they are the precondition under
which the code does not raise; the equalities themselves do not depend on them (the model's `get` is
a total function and the contraction range is read off the left operand `modesN xs`, resp. the
operator `modesM As`) — see `full_matmul_gen`, `full_vecmat_gen` in `TTLemmas/Matmul.lean`.
Under `InnerMatch` the contraction range is equally `modesM ys` (`full_matmul_modesM`).
-/
namespace TT.C04
open TT
variable {α : Type} [CommRing α]

/-! ### concrete trains used for the non-vacuity examples (order 2, ranks > 1, distinct modes) -/

/-- operator `(2·4) × (3·5)`, ranks `1,2,1` -/
def exA : List (Core Int) :=
  [⟨1, 2, 3, 2, fun _ i j b => (i + 2 * j + b : Int)⟩, ⟨2, 4, 5, 1, fun a i j _ => (a * i + j - 1 : Int)⟩]
/-- operator `(3·5) × (6·7)`, ranks `1,3,1` -/
def exB : List (Core Int) :=
  [⟨1, 3, 6, 3, fun _ i j b => (i * j - b : Int)⟩, ⟨3, 5, 7, 1, fun a i j _ => (a + i - 2 * j : Int)⟩]
/-- TT-tensor of shape `3·5` (cores with `n = 1`), ranks `1,2,1` -/
def exX : List (Core Int) :=
  [⟨1, 3, 1, 2, fun _ i _ b => (i - b : Int)⟩, ⟨2, 5, 1, 1, fun a i _ _ => (2 * a + i : Int)⟩]
/-- order-3 operator `(2·3·2) × (3·2·4)`, ranks `1,2,3,1` -/
def exC : List (Core Int) :=
  [⟨1, 2, 3, 2, fun _ i j b => (i + j + b : Int)⟩, ⟨2, 3, 2, 3, fun a i j b => (a * i + j - b : Int)⟩,
   ⟨3, 2, 4, 1, fun a i j _ => (a - i * j : Int)⟩]

/-! ### (a) TT-matrix @ TT-matrix, TT-matrix @ TT-tensor -/

/-- `(A @ B).full()[i, j] = Σ_k A.full()[i, k] · B.full()[k, j]`, the sum running over all inner
    multi-indices `k` (`k_p < A.N[p]`).  With `y.n = 1` for every core of `ys` (and `js` all zero)
    this is the TT-matrix @ TT-tensor branch. -/
theorem full_matmul (xs ys : List (Core α)) (is js : List Nat)
    (hwx : WF xs 1) (hwy : WF ys 1) (hlen : xs.length = ys.length) (_hin : InnerMatch xs ys)
    (hil : is.length = xs.length) (hjl : js.length = xs.length) :
    full (matmul xs ys) (is.zip js) =
      sumIdx (modesN xs) (fun ks => full xs (is.zip ks) * full ys (ks.zip js)) :=
  full_matmul_gen xs ys is js hwx hwy hlen hil hjl

example : WF exA 1 ∧ WF exB 1 ∧ exA.length = exB.length ∧ InnerMatch exA exB := by
  simp [exA, exB, WF, InnerMatch]

example : full (matmul exA exB) ([1, 3].zip [5, 6]) =
    sumIdx (modesN exA) (fun ks => full exA ([1, 3].zip ks) * full exB (ks.zip [5, 6])) :=
  full_matmul exA exB [1, 3] [5, 6] (by simp [exA, WF]) (by simp [exB, WF]) rfl
    (by simp [exA, exB, InnerMatch]) rfl rfl

/-- the same, the contraction range read off the right operand (`B.M`) -/
theorem full_matmul_modesM (xs ys : List (Core α)) (is js : List Nat)
    (hwx : WF xs 1) (hwy : WF ys 1) (hlen : xs.length = ys.length) (hin : InnerMatch xs ys)
    (hil : is.length = xs.length) (hjl : js.length = xs.length) :
    full (matmul xs ys) (is.zip js) =
      sumIdx (modesM ys) (fun ks => full xs (is.zip ks) * full ys (ks.zip js)) := by
  rw [← modesN_eq_modesM_of_InnerMatch xs ys hin]
  exact full_matmul_gen xs ys is js hwx hwy hlen hil hjl

/-- TT-matrix @ TT-tensor, stated with tensor-style indices: `(A @ x)[i] = Σ_k A[i,k] · x[k]` -/
theorem full_matvec (As xs : List (Core α)) (is : List Nat)
    (hwA : WF As 1) (hwx : WF xs 1) (hlen : As.length = xs.length) (_hin : InnerMatch As xs)
    (_ht : IsTensor xs) (hil : is.length = As.length) :
    full (matmul As xs) (tIdx is) =
      sumIdx (modesN As) (fun ks => full As (is.zip ks) * full xs (tIdx ks)) := by
  have hz : ∀ (l : List Nat), tIdx l = l.zip (List.replicate l.length 0) := by
    intro l
    induction l with
    | nil => rfl
    | cons a l ih => simp [tIdx_cons, ih, List.replicate_succ]
  rw [hz is, hil,
    full_matmul_gen As xs is (List.replicate As.length 0) hwA hwx hlen hil (by simp)]
  apply sumIdx_congr_len; intro ks hks
  have : ks.length = As.length := by simpa [modesN] using hks
  rw [hz ks, this]

example : WF exA 1 ∧ WF exX 1 ∧ exA.length = exX.length ∧ InnerMatch exA exX ∧ IsTensor exX := by
  simp [exA, exX, WF, InnerMatch, IsTensor]

example : full (matmul exA exX) (tIdx [1, 3]) =
    sumIdx (modesN exA) (fun ks => full exA ([1, 3].zip ks) * full exX (tIdx ks)) :=
  full_matvec exA exX [1, 3] (by simp [exA, WF]) (by simp [exX, WF]) rfl
    (by simp [exA, exX, InnerMatch]) (by simp [exX, IsTensor]) rfl

/-! ### (b) TT-tensor @ TT-matrix -/

/-- `(x @ A).full()[j] = Σ_k x.full()[k] · A.full()[k, j]`, the sum running over all row
    multi-indices `k` (`k_p < A.M[p]`) -/
theorem full_vecmat (xs As : List (Core α)) (js : List Nat)
    (hwx : WF xs 1) (hwA : WF As 1) (hlen : xs.length = As.length)
    (_ht : IsTensor xs) (_hrm : RowMatch xs As) (hjl : js.length = xs.length) :
    full (vecmat xs As) (tIdx js) =
      sumIdx (modesM As) (fun ks => full xs (tIdx ks) * full As (ks.zip js)) :=
  full_vecmat_gen xs As js hwx hwA hlen hjl

example : WF exX 1 ∧ WF exB 1 ∧ exX.length = exB.length ∧ IsTensor exX ∧ RowMatch exX exB := by
  simp [exX, exB, WF, IsTensor, RowMatch]

example : full (vecmat exX exB) (tIdx [4, 6]) =
    sumIdx (modesM exB) (fun ks => full exX (tIdx ks) * full exB (ks.zip [4, 6])) :=
  full_vecmat exX exB [4, 6] (by simp [exX, WF]) (by simp [exB, WF]) rfl
    (by simp [exX, IsTensor]) (by simp [exX, exB, RowMatch]) rfl

/-! ### (c) transpose -/

/-- `A.t().full()[i, j] = A.full()[j, i]` (no hypothesis needed) -/
theorem full_transpose (xs : List (Core α)) (ij : List (Nat × Nat)) :
    full (transpose xs) ij = full xs (ij.map Prod.swap) :=
  chain_transpose xs ij 0 0

example : full (transpose exC) [(2, 1), (1, 2), (3, 0)] = full exC [(1, 2), (2, 1), (0, 3)] :=
  full_transpose exC _

/-! ### (d) TT-matrix @ dense array -/

/-- `dense_matvec`: `(A @ x)[m] = Σ_n A.full()[m, n] · x[n]` for a dense `x` (any function of the
    column multi-index) -/
theorem denseMatvec_eq (cs : List (Core α)) (x : List Nat → α) (ms : List Nat)
    (hw : WF cs 1) (hml : ms.length = cs.length) :
    denseMatvec cs x ms = sumIdx (modesN cs) (fun ns => full cs (ms.zip ns) * x ns) :=
  denseMatvec_eq_gen cs x ms hw hml

example : WF exC 1 ∧ ([1, 2, 0] : List Nat).length = exC.length := by simp [exC, WF]

example (x : List Nat → Int) : denseMatvec exC x [1, 2, 0] =
    sumIdx (modesN exC) (fun ns => full exC ([1, 2, 0].zip ns) * x ns) :=
  denseMatvec_eq exC x [1, 2, 0] (by simp [exC, WF]) rfl

/-! ### (e) rank structure -/

/-- ranks multiply under `@`; result modes are (`A.M`, `B.N`) -/
theorem ranks_mmCore (x y : Core α) :
    (mmCore x y).r0 = x.r0 * y.r0 ∧ (mmCore x y).r1 = x.r1 * y.r1 ∧
    (mmCore x y).m = x.m ∧ (mmCore x y).n = y.n := ⟨rfl, rfl, rfl, rfl⟩

/-- ranks multiply under `x @ A`; the result is a TT-tensor with modes `A.N` -/
theorem ranks_vmCore (x A : Core α) :
    (vmCore x A).r0 = x.r0 * A.r0 ∧ (vmCore x A).r1 = x.r1 * A.r1 ∧
    (vmCore x A).m = A.n ∧ (vmCore x A).n = 1 := ⟨rfl, rfl, rfl, rfl⟩

omit [CommRing α] in
/-- transposition keeps the ranks and swaps the modes -/
theorem ranks_t (c : Core α) :
    c.t.r0 = c.r0 ∧ c.t.r1 = c.r1 ∧ c.t.m = c.n ∧ c.t.n = c.m := ⟨rfl, rfl, rfl, rfl⟩

/-- the product trains are well formed (the rank chain is consistent) and have the same order -/
theorem wf_matmul (xs ys : List (Core α)) (hwx : WF xs 1) (hwy : WF ys 1)
    (hlen : xs.length = ys.length) :
    WF (matmul xs ys) 1 ∧ (matmul xs ys).length = xs.length :=
  ⟨by simpa using WF_matmul xs ys 1 1 hwx hwy hlen, length_matmul xs ys hlen⟩

theorem wf_vecmat (xs As : List (Core α)) (hwx : WF xs 1) (hwA : WF As 1)
    (hlen : xs.length = As.length) :
    WF (vecmat xs As) 1 ∧ (vecmat xs As).length = xs.length ∧ IsTensor (vecmat xs As) :=
  ⟨by simpa using WF_vecmat xs As 1 1 hwx hwA hlen, length_vecmat xs As hlen, isTensor_vecmat xs As⟩

omit [CommRing α] in
theorem wf_transpose (xs : List (Core α)) (hw : WF xs 1) : WF (transpose xs) 1 :=
  WF_transpose xs 1 hw

example : WF (matmul exA exB) 1 ∧ ranks (matmul exA exB) = [1, 6, 1] ∧
    modesM (matmul exA exB) = [2, 4] ∧ modesN (matmul exA exB) = [6, 7] := by
  simp [exA, exB, matmul, mmCore, WF, ranks, modesM, modesN]

/-- numeric sanity check of (a) on the concrete trains: one entry of the product, computed from the
    product cores, against the dense double sum -/
example : full (matmul exA exB) [(1, 5), (3, 6)] =
    sumIdx [3, 5] (fun ks => full exA ([1, 3].zip ks) * full exB (ks.zip [5, 6])) := by decide

end TT.C04
