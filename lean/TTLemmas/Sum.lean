import TTModel.Basic
import Mathlib.Algebra.BigOperators.Group.Finset.Basic
import Mathlib.Algebra.BigOperators.Ring.Finset
import Mathlib.Algebra.BigOperators.Group.Finset.Sigma
import Mathlib.Algebra.Ring.Basic
import Mathlib.Tactic.Ring

/-! Bridge between the core-only `sumTo` and `Finset.sum`, and the basic sum manipulations -/
namespace TT
open Finset

variable {α : Type} [CommRing α]

theorem sumTo_eq_sum (n : Nat) (f : Nat → α) : sumTo n f = ∑ k ∈ range n, f k := by
  induction n with
  | zero => simp [sumTo]
  | succ n ih => simp [sumTo, ih, Finset.sum_range_succ]

theorem sumTo_add (n m : Nat) (f : Nat → α) :
    sumTo (n + m) f = sumTo n f + sumTo m (fun k => f (n + k)) := by
  simp [sumTo_eq_sum, Finset.sum_range_add]

theorem sumTo_congr {n : Nat} {f g : Nat → α} (h : ∀ k, k < n → f k = g k) :
    sumTo n f = sumTo n g := by
  simp only [sumTo_eq_sum]
  exact Finset.sum_congr rfl (fun k hk => h k (Finset.mem_range.mp hk))

theorem sumTo_zero' (n : Nat) : sumTo n (fun _ => (0 : α)) = 0 := by
  simp [sumTo_eq_sum]

theorem sumTo_eq_zero {n : Nat} {f : Nat → α} (h : ∀ k, k < n → f k = 0) : sumTo n f = 0 := by
  rw [sumTo_congr h, sumTo_zero']

theorem sumTo_one (f : Nat → α) : sumTo 1 f = f 0 := by simp [sumTo]

theorem sumTo_add_fn (n : Nat) (f g : Nat → α) :
    sumTo n (fun k => f k + g k) = sumTo n f + sumTo n g := by
  simp [sumTo_eq_sum, Finset.sum_add_distrib]

theorem sumTo_mul_left (n : Nat) (c : α) (f : Nat → α) :
    sumTo n (fun k => c * f k) = c * sumTo n f := by
  simp [sumTo_eq_sum, Finset.mul_sum]

theorem sumTo_mul_right (n : Nat) (c : α) (f : Nat → α) :
    sumTo n (fun k => f k * c) = sumTo n f * c := by
  simp [sumTo_eq_sum, Finset.sum_mul]

theorem sumTo_neg (n : Nat) (f : Nat → α) : sumTo n (fun k => - f k) = - sumTo n f := by
  simp [sumTo_eq_sum]

theorem sumTo_comm (n m : Nat) (f : Nat → Nat → α) :
    sumTo n (fun i => sumTo m (fun j => f i j)) = sumTo m (fun j => sumTo n (fun i => f i j)) := by
  simp only [sumTo_eq_sum]
  exact Finset.sum_comm

theorem sumTo_mul (n m : Nat) (f : Nat → α) :
    sumTo (n * m) f = sumTo n (fun i => sumTo m (fun j => f (i * m + j))) := by
  induction n with
  | zero => simp [sumTo]
  | succ n ih =>
    rw [Nat.succ_mul, sumTo_add, ih]
    simp [sumTo]

theorem sumTo_mul_sumTo (n m : Nat) (f g : Nat → α) :
    sumTo n f * sumTo m g = sumTo n (fun i => sumTo m (fun j => f i * g j)) := by
  simp only [sumTo_eq_sum, Finset.sum_mul_sum]

/-- a sum with a single non-zero term -/
theorem sumTo_single {n : Nat} (k0 : Nat) (hk0 : k0 < n) (f : Nat → α)
    (h : ∀ k, k < n → k ≠ k0 → f k = 0) : sumTo n f = f k0 := by
  rw [sumTo_eq_sum]
  apply Finset.sum_eq_single k0
  · intro b hb hne; exact h b (Finset.mem_range.mp hb) hne
  · intro hnot; exact absurd (Finset.mem_range.mpr hk0) hnot

/-- row-major merged index arithmetic used by every `einsum + reshape` core -/
theorem merge_div {a ry m : Nat} (hm : m < ry) : (a * ry + m) / ry = a := by
  have hpos : 0 < ry := by omega
  rw [Nat.mul_comm, Nat.mul_add_div hpos, Nat.div_eq_of_lt hm]; simp

theorem merge_mod {a ry m : Nat} (hm : m < ry) : (a * ry + m) % ry = m := by
  rw [Nat.mul_comm, Nat.mul_add_mod, Nat.mod_eq_of_lt hm]

end TT
