import TTModel.Basic
import TTModel.Sweep
import TTLemmas.Sum
import Mathlib.Data.List.Perm.Basic
import Mathlib.Data.List.Sort
import Mathlib.Tactic.Ring
import Mathlib.Tactic.Linarith

/-!
Helpers for C10: the mode-size bookkeeping of `reshape` (`reshapeGo`), the bubble sort of `permute`
(`bubblePass`, `bubble`) and the value-level merge of two neighbouring cores (`mergeCore`).
-/
namespace TT.Sweep

/-! ### `prod` -/

theorem foldl_mul (l : List Nat) (a : Nat) : l.foldl (· * ·) a = a * prod l := by
  unfold prod
  induction l generalizing a with
  | nil => simp
  | cons b l ih =>
    simp only [List.foldl_cons]
    rw [ih (a * b), ih (1 * b)]
    ring

@[simp] theorem prod_nil : prod [] = 1 := rfl

theorem prod_cons (a : Nat) (l : List Nat) : prod (a :: l) = a * prod l := by
  show (a :: l).foldl (· * ·) 1 = a * prod l
  simp only [List.foldl_cons]
  rw [foldl_mul]; simp

theorem prod_pos {l : List Nat} (h : ∀ s ∈ l, 1 ≤ s) : 1 ≤ prod l := by
  induction l with
  | nil => simp
  | cons a l ih =>
    rw [prod_cons]
    have ha : 1 ≤ a := h a (by simp)
    have hl : 1 ≤ prod l := ih (fun s hs => h s (by simp [hs]))
    exact Nat.mul_pos ha hl

theorem map_one_of_prod_eq_one {l : List Nat} (h : ∀ s ∈ l, 1 ≤ s) (hp : prod l = 1) :
    l.map (fun _ => 1) = l := by
  induction l with
  | nil => simp
  | cons a l ih =>
    rw [prod_cons] at hp
    have ha : 1 ≤ a := h a (by simp)
    have hl : 1 ≤ prod l := prod_pos (fun s hs => h s (by simp [hs]))
    have h1 : a = 1 := Nat.eq_one_of_mul_eq_one_right hp
    have h2 : prod l = 1 := Nat.eq_one_of_mul_eq_one_left hp
    simp [h1, ih (fun s hs => h s (by simp [hs])) h2]

/-! ### `reshapeGo` -/

/-- the loop invariant of `reshape`: if the element count of the working core times the cores not
loaded yet equals the element count still to be produced, the loop terminates within its fuel and
produces exactly the requested modes -/
theorem reshapeGo_spec : ∀ (fuel cur : Nat) (rest dst acc : List Nat) (sp : Nat),
    rest.length + dst.length < fuel → 1 ≤ cur → (∀ s ∈ rest, 1 ≤ s) → (∀ t ∈ dst, 1 ≤ t) →
    cur * prod rest = prod dst →
    ∃ sp', reshapeGo fuel cur rest dst acc sp = some (acc.reverse ++ dst, sp') := by
  intro fuel
  induction fuel with
  | zero => intro cur rest dst acc sp hf; omega
  | succ fuel ih =>
    intro cur rest dst acc sp hf hc hr hd hp
    cases dst with
    | nil => exact ⟨sp, by simp [reshapeGo]⟩
    | cons t dst' =>
      have ht : 1 ≤ t := hd t (by simp)
      have hd' : ∀ s ∈ dst', 1 ≤ s := fun s hs => hd s (by simp [hs])
      have hpr : 1 ≤ prod rest := prod_pos hr
      have hpd : 1 ≤ prod dst' := prod_pos hd'
      rw [prod_cons] at hp
      by_cases hdiv : cur % t = 0
      · -- `t` divides the working mode
        obtain ⟨q, hq⟩ := Nat.dvd_of_mod_eq_zero hdiv
        have hq1 : 1 ≤ q := by
          rcases Nat.eq_zero_or_pos q with h | h
          · subst h; omega
          · exact h
        have hqt : cur / t = q := by
          rw [hq]; exact Nat.mul_div_cancel_left q (by omega)
        have hp' : q * prod rest = prod dst' := by
          have : t * (q * prod rest) = t * prod dst' := by rw [← hp, hq]; ring
          exact Nat.eq_of_mul_eq_mul_left (by omega) this
        by_cases hgt : cur / t > 1
        · -- split
          cases dst' with
          | nil =>
            exfalso
            simp at hp'
            omega
          | cons t2 dst2 =>
            have hf' : rest.length + (t2 :: dst2).length < fuel := by
              simp only [List.length_cons] at hf ⊢; omega
            obtain ⟨sp', hsp'⟩ := ih q rest (t2 :: dst2) (t :: acc) (sp + 1) hf' hq1 hr hd' hp'
            refine ⟨sp', ?_⟩
            have ht0 : t ≠ 0 := by omega
            simp only [reshapeGo, ne_eq, ht0, not_false_eq_true, hdiv, and_self, if_true, hgt]
            rw [hqt, hsp']
            simp
        · -- consume
          have hq' : q = 1 := by omega
          subst hq'
          have hct : cur = t := by omega
          subst hct
          have ht0 : cur ≠ 0 := by omega
          cases rest with
          | nil =>
            refine ⟨sp, ?_⟩
            simp at hp'
            simp only [reshapeGo, ne_eq, ht0, not_false_eq_true, hdiv, and_self, if_true, hgt]
            rw [map_one_of_prod_eq_one hd' hp'.symm]
            simp
          | cons c rest' =>
            cases dst' with
            | nil =>
              refine ⟨sp, ?_⟩
              simp only [reshapeGo, ne_eq, ht0, not_false_eq_true, hdiv, and_self, if_true, hgt]
              simp
            | cons t2 dst2 =>
              have hf' : rest'.length + (t2 :: dst2).length < fuel := by
                simp only [List.length_cons] at hf ⊢; omega
              rw [prod_cons, Nat.one_mul] at hp'
              obtain ⟨sp', hsp'⟩ := ih c rest' (t2 :: dst2) (cur :: acc) sp hf'
                (hr c (by simp)) (fun s hs => hr s (by simp [hs])) hd' hp'
              refine ⟨sp', ?_⟩
              simp only [reshapeGo, ne_eq, ht0, not_false_eq_true, hdiv, and_self, if_true, hgt]
              rw [hsp']
              simp
      · -- merge
        cases rest with
        | nil =>
          exfalso
          simp at hp
          apply hdiv
          rw [hp]; exact Nat.mul_mod_right t _
        | cons c rest' =>
          have hf' : rest'.length + (t :: dst').length < fuel := by
            simp only [List.length_cons] at hf ⊢; omega
          have hc1 : 1 ≤ c := hr c (by simp)
          have hp2 : cur * c * prod rest' = prod (t :: dst') := by
            rw [prod_cons, ← hp, prod_cons]; ring
          obtain ⟨sp', hsp'⟩ := ih (cur * c) rest' (t :: dst') acc sp hf'
            (Nat.mul_pos hc hc1) (fun s hs => hr s (by simp [hs])) hd hp2
          refine ⟨sp', ?_⟩
          simp only [reshapeGo, hdiv, and_false, if_false]
          exact hsp'

/-- the number of SVD splits grows by at most the number of target modes still to be produced -/
theorem reshapeGo_splits : ∀ (fuel cur : Nat) (rest dst acc : List Nat) (sp : Nat)
    (out : List Nat) (sp' : Nat),
    reshapeGo fuel cur rest dst acc sp = some (out, sp') → sp' ≤ sp + dst.length := by
  intro fuel
  induction fuel with
  | zero => intro cur rest dst acc sp out sp' h; simp [reshapeGo] at h
  | succ fuel ih =>
    intro cur rest dst acc sp out sp' h
    cases dst with
    | nil => simp [reshapeGo] at h; omega
    | cons t dst' =>
      simp only [reshapeGo] at h
      split at h
      · split at h
        · cases dst' with
          | nil => simp at h; simp; omega
          | cons t2 dst2 =>
            simp only at h
            have := ih _ _ _ _ _ _ _ h
            simp only [List.length_cons] at this ⊢; omega
        · cases rest with
          | nil => simp at h; omega
          | cons c rest' =>
            cases dst' with
            | nil => simp at h; omega
            | cons t2 dst2 =>
              simp only at h
              have := ih _ _ _ _ _ _ _ h
              simp only [List.length_cons] at this ⊢; omega
      · cases rest with
        | nil => simp at h
        | cons c rest' =>
          simp only at h
          exact ih _ _ _ _ _ _ _ h

/-! ### `indexOf` -/

theorem indexOf_cons (a : Nat) (l : List Nat) (x : Nat) :
    indexOf (a :: l) x = if a = x then 0 else indexOf l x + 1 := by
  unfold indexOf
  rw [List.findIdx?_cons]
  by_cases h : a = x
  · simp [h]
  · simp only [beq_iff_eq, h, if_false]
    cases List.findIdx? (fun y => y == x) l <;> simp

theorem getElem?_indexOf {l : List Nat} {x : Nat} (h : x ∈ l) : l[indexOf l x]? = some x := by
  induction l with
  | nil => simp at h
  | cons a l ih =>
    rw [indexOf_cons]
    by_cases hax : a = x
    · simp [hax]
    · have hx : x ∈ l := by
        rcases List.mem_cons.mp h with h | h
        · exact absurd h.symm hax
        · exact h
      simp [hax, ih hx]

theorem indexOf_inj {l : List Nat} {x y : Nat} (hx : x ∈ l) (hy : y ∈ l)
    (h : indexOf l x = indexOf l y) : x = y := by
  have h1 := getElem?_indexOf hx
  have h2 := getElem?_indexOf hy
  rw [h] at h1
  rw [h1] at h2
  exact Option.some.inj h2

/-- a duplicate-free `dims` is sorted by its own positions -/
theorem pairwise_indexOf_self {l : List Nat} (h : l.Nodup) :
    l.Pairwise (fun a b => indexOf l a ≤ indexOf l b) := by
  induction l with
  | nil => simp
  | cons a l ih =>
    rw [List.nodup_cons] at h
    rw [List.pairwise_cons]
    refine ⟨fun b _ => by simp [indexOf_cons], ?_⟩
    refine List.Pairwise.imp_of_mem ?_ (ih h.2)
    intro x y hx hy hxy
    have hxa : a ≠ x := fun e => h.1 (e ▸ hx)
    have hya : a ≠ y := fun e => h.1 (e ▸ hy)
    simp [indexOf_cons, hxa, hya, hxy]

/-! ### one bubble pass -/

section pass
variable (dims : List Nat)

/-- `l` is ordered by target position -/
def SortedBy (l : List Nat) : Prop := l.Pairwise (fun a b => indexOf dims a ≤ indexOf dims b)

/-- number of inversions (pairs out of target order) -/
def inv : List Nat → Nat
  | [] => 0
  | a :: l => l.countP (fun b => decide (indexOf dims b < indexOf dims a)) + inv l

@[simp] theorem bubblePass_nil (i : Nat) : bubblePass dims [] i = ([], []) := by
  simp [bubblePass]

@[simp] theorem bubblePass_single (a i : Nat) : bubblePass dims [a] i = ([a], []) := by
  simp [bubblePass]

theorem bubblePass_swap {a b : Nat} (rest : List Nat) (i : Nat)
    (h : indexOf dims a > indexOf dims b) :
    bubblePass dims (a :: b :: rest) i =
      (b :: (bubblePass dims (a :: rest) (i + 1)).1, i :: (bubblePass dims (a :: rest) (i + 1)).2) := by
  rw [bubblePass]; simp [h]

theorem bubblePass_keep {a b : Nat} (rest : List Nat) (i : Nat)
    (h : ¬ indexOf dims a > indexOf dims b) :
    bubblePass dims (a :: b :: rest) i =
      (a :: (bubblePass dims (b :: rest) (i + 1)).1, (bubblePass dims (b :: rest) (i + 1)).2) := by
  rw [bubblePass]; simp [h]

/-- induction principle following the recursion of `bubblePass` -/
theorem pass_ind {P : List Nat → Nat → Prop} (h0 : ∀ i, P [] i) (h1 : ∀ a i, P [a] i)
    (h2 : ∀ a b rest i, indexOf dims a > indexOf dims b → P (a :: rest) (i + 1) → P (a :: b :: rest) i)
    (h3 : ∀ a b rest i, ¬ indexOf dims a > indexOf dims b → P (b :: rest) (i + 1) →
      P (a :: b :: rest) i) : ∀ l i, P l i := by
  have key : ∀ n, ∀ l : List Nat, ∀ i, l.length = n → P l i := by
    intro n
    induction n with
    | zero =>
      intro l i hl
      have : l = [] := List.length_eq_zero_iff.mp hl
      subst this; exact h0 i
    | succ n ih =>
      intro l i hl
      match l, hl with
      | [a], _ => exact h1 a i
      | a :: b :: rest, hl =>
        have hlen : (a :: rest).length = n := by simp only [List.length_cons] at hl ⊢; omega
        have hlen' : (b :: rest).length = n := by simp only [List.length_cons] at hl ⊢; omega
        by_cases h : indexOf dims a > indexOf dims b
        · exact h2 a b rest i h (ih _ _ hlen)
        · exact h3 a b rest i h (ih _ _ hlen')
  exact fun l i => key l.length l i rfl

theorem pass_perm : ∀ l i, (bubblePass dims l i).1.Perm l := by
  intro l i
  induction l, i using pass_ind dims with
  | h0 i => simp
  | h1 a i => simp
  | h2 a b rest i h ih =>
    rw [bubblePass_swap dims rest i h]
    exact ((List.Perm.cons b ih).trans (List.Perm.swap a b rest))
  | h3 a b rest i h ih =>
    rw [bubblePass_keep dims rest i h]
    exact List.Perm.cons a ih

theorem pass_length (l : List Nat) (i : Nat) : (bubblePass dims l i).1.length = l.length :=
  (pass_perm dims l i).length_eq

/-- every swap removes exactly one inversion -/
theorem pass_inv : ∀ l i,
    inv dims l = inv dims (bubblePass dims l i).1 + (bubblePass dims l i).2.length := by
  intro l i
  induction l, i using pass_ind dims with
  | h0 i => simp [inv]
  | h1 a i => simp [inv]
  | h2 a b rest i h ih =>
    rw [bubblePass_swap dims rest i h]
    have hc := (pass_perm dims (a :: rest) (i + 1)).countP_eq
      (fun c => decide (indexOf dims c < indexOf dims b))
    have hab : ¬ indexOf dims a < indexOf dims b := by omega
    simp only [inv, List.countP_cons, List.length_cons] at ih hc ⊢
    simp only [hab, h.lt, decide_true, decide_false, if_true] at ih hc ⊢
    simp at hc
    omega
  | h3 a b rest i h ih =>
    rw [bubblePass_keep dims rest i h]
    have hc := (pass_perm dims (b :: rest) (i + 1)).countP_eq
      (fun c => decide (indexOf dims c < indexOf dims a))
    simp only [inv] at ih ⊢
    rw [hc]
    omega

theorem inv_le (l : List Nat) : 2 * inv dims l + l.length ≤ l.length * l.length := by
  induction l with
  | nil => simp [inv]
  | cons a l ih =>
    have hc := List.countP_le_length (p := fun b => decide (indexOf dims b < indexOf dims a)) (l := l)
    simp only [inv, List.length_cons]
    have : (l.length + 1) * (l.length + 1) = l.length * l.length + 2 * l.length + 1 := by ring
    omega

/-- swap positions of a pass over `l` that starts at position `i` -/
theorem pass_swap_pos : ∀ l i, ∀ j ∈ (bubblePass dims l i).2, i ≤ j ∧ j + 1 < i + l.length := by
  intro l i
  induction l, i using pass_ind dims with
  | h0 i => simp
  | h1 a i => simp
  | h2 a b rest i h ih =>
    intro j hj
    rw [bubblePass_swap dims rest i h] at hj
    simp only [List.mem_cons, List.length_cons] at hj ih ⊢
    rcases hj with rfl | hj
    · omega
    · have := ih j hj; omega
  | h3 a b rest i h ih =>
    intro j hj
    rw [bubblePass_keep dims rest i h] at hj
    simp only [List.length_cons] at hj ih ⊢
    have := ih j hj; omega

/-- a pass without swap leaves the order unchanged, and the order was already sorted -/
theorem pass_noswap : ∀ l i, (bubblePass dims l i).2 = [] →
    (bubblePass dims l i).1 = l ∧ SortedBy dims l := by
  intro l i
  induction l, i using pass_ind dims with
  | h0 i => intro _; simp [SortedBy]
  | h1 a i => intro _; simp [SortedBy]
  | h2 a b rest i h ih =>
    intro hs
    rw [bubblePass_swap dims rest i h] at hs
    simp at hs
  | h3 a b rest i h ih =>
    intro hs
    rw [bubblePass_keep dims rest i h] at hs ⊢
    obtain ⟨h1, h2⟩ := ih hs
    refine ⟨by simp [h1], ?_⟩
    unfold SortedBy at h2 ⊢
    rw [List.pairwise_cons]
    refine ⟨?_, h2⟩
    intro x hx
    rcases List.mem_cons.mp hx with rfl | hx
    · omega
    · have := (List.pairwise_cons.mp h2).1 x hx
      omega

/-- a pass moves a maximal key to the end -/
theorem pass_last : ∀ l i, l ≠ [] →
    ∃ init m, (bubblePass dims l i).1 = init ++ [m] ∧ ∀ x ∈ l, indexOf dims x ≤ indexOf dims m := by
  intro l i
  induction l, i using pass_ind dims with
  | h0 i => intro h; exact absurd rfl h
  | h1 a i => intro _; exact ⟨[], a, by simp, by simp⟩
  | h2 a b rest i h ih =>
    intro _
    obtain ⟨init, m, h1, h2⟩ := ih (by simp)
    refine ⟨b :: init, m, by rw [bubblePass_swap dims rest i h]; simp [h1], ?_⟩
    intro x hx
    have ha := h2 a (by simp)
    simp only [List.mem_cons] at hx
    rcases hx with rfl | rfl | hx
    · exact ha
    · omega
    · exact h2 x (by simp [hx])
  | h3 a b rest i h ih =>
    intro _
    obtain ⟨init, m, h1, h2⟩ := ih (by simp)
    refine ⟨a :: init, m, by rw [bubblePass_keep dims rest i h]; simp [h1], ?_⟩
    intro x hx
    have hb := h2 b (by simp)
    simp only [List.mem_cons] at hx
    rcases hx with rfl | rfl | hx
    · omega
    · exact hb
    · exact h2 x (by simp [hx])

/-- a pass does not touch a trailing element that dominates everything before it -/
theorem pass_append_single (m : Nat) : ∀ l i, (∀ x ∈ l, indexOf dims x ≤ indexOf dims m) →
    bubblePass dims (l ++ [m]) i = ((bubblePass dims l i).1 ++ [m], (bubblePass dims l i).2) := by
  intro l i
  induction l, i using pass_ind dims with
  | h0 i => intro _; simp
  | h1 a i =>
    intro h
    have : ¬ indexOf dims a > indexOf dims m := by have := h a (by simp); omega
    simp [bubblePass_keep dims [] i this]
  | h2 a b rest i h ih =>
    intro hd
    have hd' : ∀ x ∈ a :: rest, indexOf dims x ≤ indexOf dims m := by
      intro x hx
      simp only [List.mem_cons] at hx
      rcases hx with rfl | hx
      · exact hd _ (by simp)
      · exact hd x (by simp [hx])
    have e := ih hd'
    simp only [List.cons_append] at e ⊢
    rw [bubblePass_swap dims _ i h, bubblePass_swap dims _ i h, e]
    rfl
  | h3 a b rest i h ih =>
    intro hd
    have hd' : ∀ x ∈ b :: rest, indexOf dims x ≤ indexOf dims m := by
      intro x hx
      exact hd x (by simp only [List.mem_cons] at hx ⊢; tauto)
    have e := ih hd'
    simp only [List.cons_append] at e ⊢
    rw [bubblePass_keep dims _ i h, bubblePass_keep dims _ i h, e]
    rfl

/-- a pass does not touch a sorted tail that dominates everything before it -/
theorem pass_append : ∀ (s l : List Nat) (i : Nat), SortedBy dims s →
    (∀ x ∈ l, ∀ y ∈ s, indexOf dims x ≤ indexOf dims y) →
    bubblePass dims (l ++ s) i = ((bubblePass dims l i).1 ++ s, (bubblePass dims l i).2) := by
  intro s
  induction s with
  | nil => intro l i _ _; simp
  | cons m s ih =>
    intro l i hs hd
    have hs' := List.pairwise_cons.mp hs
    have e : l ++ m :: s = (l ++ [m]) ++ s := by simp
    rw [e, ih (l ++ [m]) i hs'.2, pass_append_single dims m l i (fun x hx => hd x hx m (by simp))]
    · simp
    · intro x hx y hy
      rcases List.mem_append.mp hx with hx | hx
      · exact hd x hx y (by simp [hy])
      · simp only [List.mem_singleton] at hx
        subst hx
        exact hs'.1 y hy

/-! ### the `while inversions` loop -/

theorem bubble_zero (l sw : List Nat) : bubble dims 0 l sw = (l, sw) := by simp [bubble]

theorem bubble_succ (fuel : Nat) (l sw : List Nat) :
    bubble dims (fuel + 1) l sw =
      if (bubblePass dims l 0).2 = [] then ((bubblePass dims l 0).1, sw)
      else bubble dims fuel (bubblePass dims l 0).1 (sw ++ (bubblePass dims l 0).2) := by
  rw [bubble]

theorem bubble_perm : ∀ (fuel : Nat) (l sw : List Nat), (bubble dims fuel l sw).1.Perm l := by
  intro fuel
  induction fuel with
  | zero => intro l sw; simp [bubble_zero]
  | succ fuel ih =>
    intro l sw
    rw [bubble_succ]
    split
    · exact pass_perm dims l 0
    · exact (ih _ _).trans (pass_perm dims l 0)

/-- total number of swaps = number of inversions removed -/
theorem bubble_inv : ∀ (fuel : Nat) (l sw : List Nat),
    (bubble dims fuel l sw).2.length + inv dims (bubble dims fuel l sw).1 = sw.length + inv dims l := by
  intro fuel
  induction fuel with
  | zero => intro l sw; simp [bubble_zero]
  | succ fuel ih =>
    intro l sw
    have hp := pass_inv dims l 0
    rw [bubble_succ]
    split
    · rename_i h
      rw [h] at hp
      simp at hp ⊢
      omega
    · rw [ih]
      simp only [List.length_append]
      omega

theorem bubble_swap_pos : ∀ (fuel : Nat) (l sw : List Nat),
    ∀ j ∈ (bubble dims fuel l sw).2, j ∈ sw ∨ j + 1 < l.length := by
  intro fuel
  induction fuel with
  | zero => intro l sw j hj; left; simpa [bubble_zero] using hj
  | succ fuel ih =>
    intro l sw j hj
    rw [bubble_succ] at hj
    split at hj
    · left; exact hj
    · rcases ih _ _ j hj with h | h
      · rcases List.mem_append.mp h with h | h
        · left; exact h
        · right; have := pass_swap_pos dims l 0 j h; omega
      · right; rw [pass_length] at h; exact h

/-- `fuel` passes sort every order with at most `fuel + 1` entries in front of a sorted, dominating tail:
after each pass one more entry is in its final position -/
theorem bubble_sorted : ∀ (fuel : Nat) (l s sw : List Nat), l.length ≤ fuel + 1 → SortedBy dims s →
    (∀ x ∈ l, ∀ y ∈ s, indexOf dims x ≤ indexOf dims y) →
    SortedBy dims (bubble dims fuel (l ++ s) sw).1 := by
  intro fuel
  induction fuel with
  | zero =>
    intro l s sw hl hs hd
    rw [bubble_zero]
    show List.Pairwise _ (l ++ s)
    rw [List.pairwise_append]
    refine ⟨?_, hs, hd⟩
    match l, hl with
    | [], _ => simp
    | [a], _ => simp
  | succ fuel ih =>
    intro l s sw hl hs hd
    rw [bubble_succ, pass_append dims s l 0 hs hd]
    simp only
    split
    · rename_i h
      obtain ⟨h1, h2⟩ := pass_noswap dims l 0 h
      rw [h1]
      show List.Pairwise _ (l ++ s)
      rw [List.pairwise_append]
      exact ⟨h2, hs, hd⟩
    · rename_i h
      have hne : l ≠ [] := by
        intro e; subst e; simp at h
      obtain ⟨init, m, h1, h2⟩ := pass_last dims l 0 hne
      have hperm := pass_perm dims l 0
      rw [h1] at hperm ⊢
      have hm : m ∈ l := hperm.subset (by simp)
      have hinit : ∀ x ∈ init, x ∈ l := fun x hx => hperm.subset (by simp [hx])
      have hlen : init.length + 1 = l.length := by
        have := hperm.length_eq; simpa using this
      have e : init ++ [m] ++ s = init ++ (m :: s) := by simp
      rw [e]
      apply ih
      · omega
      · show List.Pairwise _ (m :: s)
        rw [List.pairwise_cons]
        exact ⟨fun y hy => hd m hm y hy, hs⟩
      · intro x hx y hy
        rcases List.mem_cons.mp hy with rfl | hy
        · exact h2 x (hinit x hx)
        · exact hd x (hinit x hx) y hy

end pass

/-- a sorted arrangement of a permutation of `dims` is `dims` itself -/
theorem eq_of_sortedBy {dims l : List Nat} (hn : dims.Nodup) (hp : l.Perm dims)
    (hs : SortedBy dims l) : l = dims := by
  refine List.Perm.eq_of_pairwise ?_ hs (pairwise_indexOf_self hn) hp
  intro a b ha hb h1 h2
  exact indexOf_inj (hp.subset ha) hb (Nat.le_antisymm h1 h2)

end TT.Sweep

/-! ### value level: merging two neighbouring tensor cores (kind E) -/
namespace TT
variable {α : Type} [CommRing α]

/-- `reshape(einsum('ijk,klm->ijlm', x, y), [r, m1*m2, r'])`, row-major: the merge step of `reshape` -/
def mergeCore (x y : Core α) : Core α :=
  { r0 := x.r0, m := x.m * y.m, n := 1, r1 := y.r1,
    get := fun a I _ b => sumTo x.r1 (fun k => x.get a (I / y.m) 0 k * y.get k (I % y.m) 0 b) }

/-- merging two neighbouring cores preserves every transfer-matrix product.  No rank hypothesis is
needed: `chain` sums the bond between `x` and `y` over `x.r1` on both sides. -/
theorem chain_mergeCore (x y : Core α) (rest : List (Core α)) (ijs : List (Nat × Nat))
    (i j a b : Nat) (hj : j < y.m) :
    chain (mergeCore x y :: rest) ((i * y.m + j, 0) :: ijs) a b =
      chain (x :: y :: rest) ((i, 0) :: (j, 0) :: ijs) a b := by
  simp only [chain, mergeCore, merge_div hj, merge_mod hj]
  -- LHS: Σ_l (Σ_k x y) * c l ; RHS: Σ_k x * (Σ_l y * c l)
  have h1 : ∀ l, sumTo x.r1 (fun k => x.get a i 0 k * y.get k j 0 l) * chain rest ijs l b =
      sumTo x.r1 (fun k => x.get a i 0 k * y.get k j 0 l * chain rest ijs l b) := by
    intro l; rw [sumTo_mul_right]
  have h2 : ∀ k, x.get a i 0 k * sumTo y.r1 (fun l => y.get k j 0 l * chain rest ijs l b) =
      sumTo y.r1 (fun l => x.get a i 0 k * y.get k j 0 l * chain rest ijs l b) := by
    intro k; rw [← sumTo_mul_left]; apply sumTo_congr; intro l _; ring
  simp only [h1, h2]
  rw [sumTo_comm]

/-- the same at an arbitrary position of the train -/
theorem chain_mergeCore_at (x y : Core α) (rest : List (Core α)) (ijs : List (Nat × Nat))
    (i j : Nat) (hj : j < y.m) :
    ∀ (pre : List (Core α)) (ipre : List (Nat × Nat)) (a b : Nat), pre.length = ipre.length →
    chain (pre ++ mergeCore x y :: rest) (ipre ++ (i * y.m + j, 0) :: ijs) a b =
      chain (pre ++ x :: y :: rest) (ipre ++ (i, 0) :: (j, 0) :: ijs) a b := by
  intro pre
  induction pre with
  | nil =>
    intro ipre a b hl
    have : ipre = [] := List.length_eq_zero_iff.mp hl.symm
    subst this
    exact chain_mergeCore x y rest ijs i j a b hj
  | cons c pre ih =>
    intro ipre a b hl
    match ipre, hl with
    | ij :: ipre, hl =>
      simp only [List.cons_append, chain]
      apply sumTo_congr
      intro k _
      rw [ih ipre k b (by simpa using hl)]

/-- merging two neighbouring cores preserves the flattened tensor -/
theorem full_merge (x y : Core α) (rest : List (Core α)) (is : List Nat) (i j : Nat) (hj : j < y.m) :
    full (mergeCore x y :: rest) (tIdx ((i * y.m + j) :: is)) =
      full (x :: y :: rest) (tIdx (i :: j :: is)) := by
  simp only [full, tIdx, List.map_cons]
  exact chain_mergeCore x y rest _ i j 0 0 hj

/-- merge at position `pre.length` of a tensor train -/
theorem full_merge_at (x y : Core α) (pre rest : List (Core α)) (ip is : List Nat) (i j : Nat)
    (hj : j < y.m) (hl : pre.length = ip.length) :
    full (pre ++ mergeCore x y :: rest) (tIdx (ip ++ (i * y.m + j) :: is)) =
      full (pre ++ x :: y :: rest) (tIdx (ip ++ i :: j :: is)) := by
  simp only [full, tIdx, List.map_append, List.map_cons]
  exact chain_mergeCore_at x y rest _ i j hj pre _ 0 0 (by simpa using hl)

/-- the merged core keeps the outer ranks, so well-formedness of the train is preserved -/
theorem WF_mergeCore (x y : Core α) (rest : List (Core α)) (r : Nat)
    (h : WF (x :: y :: rest) r) : WF (mergeCore x y :: rest) r := by
  simp only [WF, mergeCore] at h ⊢
  exact ⟨h.1, h.2.2⟩

end TT
