import TTModel.Guard
/-!
# Helper lemmas for C18: the one-sided right-aligned test `alignedOk` versus torch's symmetric
right-aligned broadcasting rule `Broadcastable`.
-/
namespace TT.Guard

theorem alignedOk_length : ∀ (xs ys : List Nat), alignedOk xs ys = true → xs.length = ys.length
  | [], [], _ => rfl
  | [], _ :: _, h => by simp [alignedOk] at h
  | _ :: _, [], h => by simp [alignedOk] at h
  | x :: xs, y :: ys, h => by
    simp only [alignedOk, Bool.and_eq_true] at h
    simp [alignedOk_length xs ys h.2]

theorem alignedOk_append : ∀ (xs ys xs' ys' : List Nat), xs.length = ys.length →
    alignedOk (xs ++ xs') (ys ++ ys') = (alignedOk xs ys && alignedOk xs' ys')
  | [], [], _, _, _ => by simp [alignedOk]
  | [], _ :: _, _, _, h => by simp at h
  | _ :: _, [], _, _, h => by simp at h
  | x :: xs, y :: ys, xs', ys', h => by
    have h' : xs.length = ys.length := by simpa using h
    simp only [List.cons_append, alignedOk, alignedOk_append xs ys xs' ys' h', Bool.and_assoc]

theorem alignedOk_reverse : ∀ (xs ys : List Nat), xs.length = ys.length →
    alignedOk xs.reverse ys.reverse = alignedOk xs ys
  | [], [], _ => rfl
  | [], _ :: _, h => by simp at h
  | _ :: _, [], h => by simp at h
  | x :: xs, y :: ys, h => by
    have h' : xs.length = ys.length := by simpa using h
    rw [List.reverse_cons, List.reverse_cons,
      alignedOk_append _ _ _ _ (by simpa using h'), alignedOk_reverse xs ys h']
    simp [alignedOk, Bool.and_comm]

/-- pointwise: the one-sided test implies the symmetric one -/
theorem alignedOk_bcastRev : ∀ (xs ys : List Nat), alignedOk xs ys = true → bcastRev xs ys = true
  | [], [], _ => rfl
  | [], _ :: _, h => by simp [alignedOk] at h
  | _ :: _, [], h => by simp [alignedOk] at h
  | x :: xs, y :: ys, h => by
    simp only [alignedOk, Bool.and_eq_true, Bool.or_eq_true, beq_iff_eq] at h
    simp only [bcastRev, Bool.and_eq_true, Bool.or_eq_true, beq_iff_eq]
    refine ⟨?_, alignedOk_bcastRev xs ys h.2⟩
    rcases h.1 with h1 | h1
    · exact Or.inl (Or.inl h1.symm)
    · exact Or.inr h1

/-- extra leading modes of the longer operand (trailing after reversal) never matter -/
theorem bcastRev_append_left : ∀ (xs ys p : List Nat), xs.length = ys.length →
    bcastRev xs ys = true → bcastRev (xs ++ p) ys = true
  | [], [], p, _, _ => by cases p <;> rfl
  | [], _ :: _, _, h, _ => by simp at h
  | _ :: _, [], _, h, _ => by simp at h
  | x :: xs, y :: ys, p, h, hb => by
    have h' : xs.length = ys.length := by simpa using h
    simp only [bcastRev, Bool.and_eq_true] at hb
    simp only [List.cons_append, bcastRev, Bool.and_eq_true]
    exact ⟨hb.1, bcastRev_append_left xs ys p h' hb.2⟩

theorem bcastRev_self : ∀ (xs : List Nat), bcastRev xs xs = true
  | [] => rfl
  | x :: xs => by simp [bcastRev, bcastRev_self xs]

theorem Broadcastable_self (xs : List Nat) : Broadcastable xs xs = true :=
  bcastRev_self _

/-- core lemma: the right-aligned one-sided test implies torch's symmetric right-aligned rule -/
theorem alignedOk_drop_Broadcastable (xN yN : List Nat)
    (h : alignedOk (xN.drop (xN.length - yN.length)) yN = true) (_hlen : yN.length ≤ xN.length) :
    Broadcastable xN yN = true := by
  have hl := alignedOk_length _ _ h
  have hsplit : xN = xN.take (xN.length - yN.length) ++ xN.drop (xN.length - yN.length) :=
    (List.take_append_drop _ _).symm
  unfold Broadcastable
  rw [hsplit, List.reverse_append]
  apply bcastRev_append_left
  · simpa using hl
  · apply alignedOk_bcastRev
    rw [alignedOk_reverse _ _ hl]
    exact h

theorem Broadcastable_of_eq {xN yN : List Nat} (h : xN = yN) : Broadcastable xN yN = true := by
  subst h; exact Broadcastable_self _

end TT.Guard
