import TTModel.Guard2
import Mathlib.Data.List.Nodup
import Mathlib.Data.List.Perm.Subperm
import Mathlib.Data.List.Range
/-!
# Helper lemmas for C18 (second batch): `eraseDups` vs `Nodup`, `foldl min/max` bounds,
pigeonhole on lists, and `take`/`drop` equalities vs index-wise equality.
-/
namespace TT.Guard

/-! ## `eraseDups` -/

theorem g2_eraseDups_length_le (n : Nat) : ∀ (l : List Nat), l.length ≤ n → l.eraseDups.length ≤ l.length := by
  induction n with
  | zero =>
    intro l hl
    have : l = [] := List.length_eq_zero_iff.mp (by omega)
    subst this; simp
  | succ n ih =>
    intro l hl
    cases l with
    | nil => simp
    | cons a as =>
      rw [List.eraseDups_cons]
      have h1 : (as.filter fun b => !b == a).length ≤ as.length := List.length_filter_le _ _
      have h2 := ih (as.filter fun b => !b == a) (by simp at hl; omega)
      simp only [List.length_cons]
      omega

theorem g2_eraseDups_length_iff_aux (n : Nat) : ∀ (l : List Nat), l.length ≤ n →
    (l.eraseDups.length = l.length ↔ l.Nodup) := by
  induction n with
  | zero =>
    intro l hl
    have : l = [] := List.length_eq_zero_iff.mp (by omega)
    subst this; simp
  | succ n ih =>
    intro l hl
    cases l with
    | nil => simp
    | cons a as =>
      rw [List.eraseDups_cons, List.nodup_cons]
      have hflen : (as.filter fun b => !b == a).length ≤ as.length := List.length_filter_le _ _
      have hle := g2_eraseDups_length_le _ (as.filter fun b => !b == a) (Nat.le_refl _)
      have hn : as.length ≤ n := by simp at hl; omega
      simp only [List.length_cons]
      constructor
      · intro h
        have hf : (as.filter fun b => !b == a).length = as.length := by omega
        have hfe : as.filter (fun b => !b == a) = as := List.length_filter_eq_length_iff.mp hf |> fun h' => List.filter_eq_self.mpr h'
        have hna : a ∉ as := by
          intro hmem
          have := (List.filter_eq_self.mp hfe) a hmem
          simp at this
        refine ⟨hna, ?_⟩
        rw [hfe] at h
        exact (ih as hn).mp (by omega)
      · rintro ⟨hna, hnd⟩
        have hfe : as.filter (fun b => !b == a) = as := by
          apply List.filter_eq_self.mpr
          intro b hb
          have : b ≠ a := fun h => hna (h ▸ hb)
          simp [this]
        rw [hfe, (ih as hn).mpr hnd]

theorem g2_eraseDups_length_iff (l : List Nat) : l.eraseDups.length = l.length ↔ l.Nodup :=
  g2_eraseDups_length_iff_aux l.length l (Nat.le_refl _)

/-! ## `foldl min` / `foldl max` -/

theorem g2_foldl_min_le_init : ∀ (l : List Nat) (m : Nat), l.foldl min m ≤ m
  | [], _ => Nat.le_refl _
  | x :: xs, m => by
    simp only [List.foldl_cons]
    exact Nat.le_trans (g2_foldl_min_le_init xs (min m x)) (Nat.min_le_left _ _)

theorem g2_foldl_min_le_mem : ∀ (l : List Nat) (m : Nat) (x : Nat), x ∈ l → l.foldl min m ≤ x
  | [], _, _, h => by simp at h
  | y :: ys, m, x, h => by
    simp only [List.foldl_cons]
    rcases List.mem_cons.mp h with h | h
    · subst h
      exact Nat.le_trans (g2_foldl_min_le_init ys (min m x)) (Nat.min_le_right _ _)
    · exact g2_foldl_min_le_mem ys (min m y) x h

theorem g2_le_foldl_max_init : ∀ (l : List Nat) (m : Nat), m ≤ l.foldl max m
  | [], _ => Nat.le_refl _
  | x :: xs, m => by
    simp only [List.foldl_cons]
    exact Nat.le_trans (Nat.le_max_left _ _) (g2_le_foldl_max_init xs (max m x))

theorem g2_le_foldl_max_mem : ∀ (l : List Nat) (m : Nat) (x : Nat), x ∈ l → x ≤ l.foldl max m
  | [], _, _, h => by simp at h
  | y :: ys, m, x, h => by
    simp only [List.foldl_cons]
    rcases List.mem_cons.mp h with h | h
    · subst h
      exact Nat.le_trans (Nat.le_max_right _ _) (g2_le_foldl_max_init ys (max m x))
    · exact g2_le_foldl_max_mem ys (max m y) x h

/-- the running maximum is bounded by any common bound of the start value and the entries -/
theorem g2_foldl_max_le : ∀ (l : List Nat) (m B : Nat), m ≤ B → (∀ x ∈ l, x ≤ B) → l.foldl max m ≤ B
  | [], _, _, hm, _ => hm
  | y :: ys, m, B, hm, h => by
    simp only [List.foldl_cons]
    apply g2_foldl_max_le ys (max m y) B
    · exact Nat.max_le.mpr ⟨hm, h y (List.mem_cons_self ..)⟩
    · intro x hx; exact h x (List.mem_cons_of_mem _ hx)

/-! ## pigeonhole -/

/-- a duplicate-free list of length `d` with entries `< d` contains every `i < d` -/
theorem g2_perm_range_of_nodup (d : Nat) (l : List Nat) (hlen : l.length = d) (hnd : l.Nodup)
    (hlt : ∀ x ∈ l, x < d) : l.Perm (List.range d) := by
  have hsub : l ⊆ List.range d := fun x hx => List.mem_range.mpr (hlt x hx)
  have hsp : l.Subperm (List.range d) := List.subperm_of_subset hnd hsub
  exact hsp.perm_of_length_le (by simp [hlen])

/-- a list of length `d` containing every `i < d` is a rearrangement of `0..d-1` -/
theorem g2_perm_range_of_contains (d : Nat) (l : List Nat) (hlen : l.length = d)
    (hall : ∀ i, i < d → i ∈ l) : (List.range d).Perm l := by
  have hsub : List.range d ⊆ l := fun x hx => hall x (List.mem_range.mp hx)
  have hsp : (List.range d).Subperm l := List.subperm_of_subset List.nodup_range hsub
  exact hsp.perm_of_length_le (by simp [hlen])

/-! ## `take`/`drop` vs index-wise equality -/

theorem g2_take_drop_iff (a b : List Nat) (dim : Nat) (hlen : b.length = a.length) :
    (b.take dim = a.take dim ∧ b.drop (dim+1) = a.drop (dim+1)) ↔
      ∀ k, k < a.length → k ≠ dim → a.getD k 0 = b.getD k 0 := by
  constructor
  · rintro ⟨ht, hd⟩ k hk hne
    simp only [List.getD_eq_getElem?_getD]
    rcases Nat.lt_or_gt_of_ne hne with hlt | hgt
    · have h1 : (b.take dim)[k]? = (a.take dim)[k]? := by rw [ht]
      simp only [List.getElem?_take, hlt, if_true] at h1
      rw [h1]
    · have h1 : (b.drop (dim+1))[k - (dim+1)]? = (a.drop (dim+1))[k - (dim+1)]? := by rw [hd]
      simp only [List.getElem?_drop] at h1
      have : dim + 1 + (k - (dim + 1)) = k := by omega
      rw [this] at h1
      rw [h1]
  · intro h
    have key : ∀ k, k ≠ dim → b[k]? = a[k]? := by
      intro k hne
      by_cases hk : k < a.length
      · have := h k hk hne
        simp only [List.getD_eq_getElem?_getD] at this
        have hkb : k < b.length := by omega
        rw [List.getElem?_eq_getElem hk, List.getElem?_eq_getElem hkb] at this ⊢
        simp only [Option.getD_some] at this
        rw [this]
      · rw [List.getElem?_eq_none (by omega), List.getElem?_eq_none (by omega)]
    constructor
    · apply List.ext_getElem?
      intro k
      simp only [List.getElem?_take]
      split
      · exact key k (by omega)
      · rfl
    · apply List.ext_getElem?
      intro k
      simp only [List.getElem?_drop]
      exact key _ (by omega)

end TT.Guard
