import TTModel.Algebra
import TTLemmas.Sum

/-! First-core scaling / negation, constant rank-1 trains, well-formedness of results. -/
namespace TT
open Finset
variable {α : Type} [CommRing α]

theorem full_scaleFirst (s : α) (xs : List (Core α)) (ij : List (Nat × Nat)) (hne : xs ≠ []) :
    full (scaleFirst s xs) ij = full xs ij * s := by
  match xs, ij, hne with
  | c :: cs, [], _ => simp [full, scaleFirst, chain]
  | c :: cs, i :: is, _ =>
    simp only [full, scaleFirst, chain, Core.scale]
    rw [← sumTo_mul_right]
    apply sumTo_congr; intro k _; ring

theorem full_negFirst (xs : List (Core α)) (ij : List (Nat × Nat)) (hne : xs ≠ []) :
    full (negFirst xs) ij = - full xs ij := by
  match xs, ij, hne with
  | c :: cs, [], _ => simp [full, negFirst, chain]
  | c :: cs, i :: is, _ =>
    simp only [full, negFirst, chain, Core.neg]
    rw [← sumTo_neg]
    apply sumTo_congr; intro k _; ring

theorem full_mapFirst_div {β : Type} [Field β] (s : β) (xs : List (Core β)) (ij : List (Nat × Nat))
    (hne : xs ≠ []) : full (sdiv xs s) ij = full xs ij / s := by
  match xs, ij, hne with
  | c :: cs, [], _ => simp [full, sdiv, chain]
  | c :: cs, i :: is, _ =>
    simp only [full, sdiv, chain, Core.mapVal, div_eq_mul_inv]
    rw [← sumTo_mul_right]
    apply sumTo_congr; intro k _; ring

theorem WF_negFirst (xs : List (Core α)) (r : Nat) (h : WF xs r) : WF (negFirst xs) r := by
  cases xs with
  | nil => exact h
  | cons c cs => exact h

theorem WF_scaleFirst (s : α) (xs : List (Core α)) (r : Nat) (h : WF xs r) : WF (scaleFirst s xs) r := by
  cases xs with
  | nil => exact h
  | cons c cs => exact h

theorem length_negFirst (xs : List (Core α)) : (negFirst xs).length = xs.length := by
  cases xs <;> rfl

/-- a train of rank-1 constant cores -/
theorem chain_const_ones (cs : List (Core α)) (ij : List (Nat × Nat)) (h : ij.length = cs.length) :
    chain (cs.map (fun c => constCore (1:α) c.m c.n)) ij 0 0 = 1 := by
  induction cs generalizing ij with
  | nil => simp [chain]
  | cons c cs ih =>
    match ij, h with
    | i :: is, h =>
      have h' : is.length = cs.length := by simpa using h
      simp only [List.map_cons, chain]
      have e : (constCore (1:α) c.m c.n).r1 = 1 := rfl
      rw [e, sumTo_one, ih is h']
      simp [constCore]

theorem WF_const_ones (cs : List (Core α)) : WF (cs.map (fun c => constCore (1:α) c.m c.n)) 1 := by
  induction cs with
  | nil => rfl
  | cons c cs ih => exact ⟨rfl, ih⟩

theorem full_scalarTT (s : α) (xs : List (Core α)) (ij : List (Nat × Nat))
    (h : ij.length = xs.length) (hne : xs ≠ []) : full (scalarTT s xs) ij = s := by
  match xs, ij, h, hne with
  | c :: cs, i :: is, h, _ =>
    have h' : is.length = cs.length := by simpa using h
    simp only [full, scalarTT, chain]
    have e : (constCore s c.m c.n).r1 = 1 := rfl
    rw [e, sumTo_one, chain_const_ones cs is h']
    simp [constCore]

theorem WF_scalarTT (s : α) (xs : List (Core α)) (hne : xs ≠ []) : WF (scalarTT s xs) 1 := by
  match xs, hne with
  | c :: cs, _ => exact ⟨rfl, WF_const_ones cs⟩

theorem length_scalarTT (s : α) (xs : List (Core α)) : (scalarTT s xs).length = xs.length := by
  cases xs with
  | nil => rfl
  | cons c cs => simp [scalarTT]

theorem full_zerosLike (xs : List (Core α)) (ij : List (Nat × Nat)) (h : ij.length = xs.length)
    (hne : xs ≠ []) : full (zerosLike xs) ij = 0 := by
  match xs, ij, h, hne with
  | c :: cs, i :: is, h, _ =>
    simp [full, zerosLike, chain, constCore, sumTo]

end TT
