import TTModel.Trunc
import Mathlib.Algebra.Order.Ring.Defs
import Mathlib.Algebra.BigOperators.Group.List.Basic
import Mathlib.Tactic.Linarith
import Mathlib.Tactic.Ring

/-!
# Helper lemmas for M-trunc (`TTModel/Trunc.lean`)

* `tailE` facts: non-negativity, antitonicity, `tailE s s.length = 0`;
* specification of the fuel-based arg-max `firstTrue` / `argmaxBool`;
* specification of the counting-down loop `cppLoop`.

The order-theoretic statements are over a strictly ordered commutative ring.  The decidability
instances the model asks for (`DecidableEq`, `DecidableRel (<)`, `DecidableRel (≤)`) are kept as
*arbitrary* instance arguments, so every lemma applies both to the instances derived from
`LinearOrder α` and to the native instances of `Int` used by the `decide` examples.
-/
namespace TT.Trunc

/-! ### `firstTrue` / `argmaxBool` (pure `Nat`/`Bool`) -/

/-- result is always in `[start, start + fuel]` when a hit occurs, `0` otherwise – lower bound part -/
theorem firstTrue_spec (p : Nat → Bool) (n a : Nat) :
    (∃ k, firstTrue p n a = k ∧ a ≤ k ∧ k < a + n ∧ p k = true ∧ ∀ j, a ≤ j → j < k → p j = false) ∨
    (firstTrue p n a = 0 ∧ ∀ j, a ≤ j → j < a + n → p j = false) := by
  induction n generalizing a with
  | zero =>
    right
    refine ⟨rfl, ?_⟩
    intro j h1 h2; omega
  | succ n ih =>
    unfold firstTrue
    by_cases hp : p a = true
    · left
      refine ⟨a, by simp [hp], le_refl _, by omega, hp, ?_⟩
      intro j h1 h2; omega
    · have hpf : p a = false := by simpa using hp
      rcases ih (a + 1) with ⟨k, hk, h1, h2, h3, h4⟩ | ⟨h0, hall⟩
      · left
        refine ⟨k, by simp [hpf, hk], by omega, by omega, h3, ?_⟩
        intro j hj1 hj2
        by_cases hja : j = a
        · subst hja; exact hpf
        · exact h4 j (by omega) hj2
      · right
        refine ⟨by simp [hpf, h0], ?_⟩
        intro j hj1 hj2
        by_cases hja : j = a
        · subst hja; exact hpf
        · exact hall j (by omega) (by omega)

/-- `np.argmax` of a boolean array that contains a `True`: the first `True`. -/
theorem argmaxBool_spec_some (p : Nat → Bool) (n m : Nat) (hm : m < n) (hpm : p m = true) :
    argmaxBool p n < n ∧ p (argmaxBool p n) = true ∧ ∀ j, j < argmaxBool p n → p j = false := by
  rcases firstTrue_spec p n 0 with ⟨k, hk, _, h2, h3, h4⟩ | ⟨_, hall⟩
  · have hkn : k < n := by omega
    have e : argmaxBool p n = k := by unfold argmaxBool; simp [hk, hkn]
    rw [e]
    exact ⟨hkn, h3, fun j hj => h4 j (Nat.zero_le _) hj⟩
  · have := hall m (Nat.zero_le _) (by omega)
    rw [hpm] at this; cases this

/-- `np.argmax` of an all-`False` array is `0`. -/
theorem argmaxBool_spec_none (p : Nat → Bool) (n : Nat) (h : ∀ j, j < n → p j = false) :
    argmaxBool p n = 0 := by
  unfold argmaxBool
  rcases firstTrue_spec p n 0 with ⟨k, hk, _, h2, h3, _⟩ | ⟨h0, _⟩
  · have := h k (by omega)
    rw [h3] at this; cases this
  · simp [h0]

theorem argmaxBool_le_first (p : Nat → Bool) (n m : Nat) (hm : m < n) (hpm : p m = true) :
    argmaxBool p n ≤ m := by
  obtain ⟨_, _, h3⟩ := argmaxBool_spec_some p n m hm hpm
  by_contra hlt
  have := h3 m (by omega)
  rw [hpm] at this; cases this

theorem clamp1_pos (R : Nat) : 1 ≤ clamp1 R := by
  unfold clamp1; split <;> omega

theorem clamp1_eq (R : Nat) : clamp1 R = max R 1 := by
  unfold clamp1; split <;> omega

/-! ### `tailE` over a strictly ordered commutative ring -/

section ordered
variable {α : Type} [CommRing α] [LinearOrder α] [IsStrictOrderedRing α]

theorem sqSum_nonneg (l : List α) : 0 ≤ sqSum l := by
  induction l with
  | nil => exact le_refl _
  | cons x xs ih =>
    simp only [sqSum]
    have := mul_self_nonneg x
    linarith

theorem tailE_nonneg (s : List α) (k : Nat) : 0 ≤ tailE s k := sqSum_nonneg _

omit [LinearOrder α] [IsStrictOrderedRing α] in
theorem tailE_len (s : List α) : tailE s s.length = 0 := by simp [tailE, sqSum]

omit [LinearOrder α] [IsStrictOrderedRing α] in
theorem tailE_ge_len (s : List α) {k : Nat} (h : s.length ≤ k) : tailE s k = 0 := by
  simp [tailE, List.drop_eq_nil_of_le h, sqSum]

theorem tailE_succ_le (s : List α) (k : Nat) : tailE s (k + 1) ≤ tailE s k := by
  unfold tailE
  by_cases h : k < s.length
  · rw [List.drop_eq_getElem_cons h]
    simp only [sqSum]
    have := mul_self_nonneg s[k]
    linarith
  · have h1 : s.drop k = [] := List.drop_eq_nil_of_le (by omega)
    have h2 : s.drop (k + 1) = [] := List.drop_eq_nil_of_le (by omega)
    simp [h1, h2]

theorem tailE_anti (s : List α) {j k : Nat} (h : j ≤ k) : tailE s k ≤ tailE s j := by
  induction h with
  | refl => exact le_refl _
  | step _ ih => exact le_trans (tailE_succ_le s _) ih

/-- if the total energy vanishes, every tail vanishes -/
theorem tailE_eq_zero_of_zero (s : List α) (h0 : tailE s 0 = 0) (k : Nat) : tailE s k = 0 :=
  le_antisymm (h0 ▸ tailE_anti s (Nat.zero_le k)) (tailE_nonneg s k)

/-! ### `cppLoop` -/

variable [DecidableRel (fun (a b : α) => a ≤ b)]

omit [IsStrictOrderedRing α] in
theorem cppLoop_le (s : List α) (e2 : α) (r : Nat) : cppLoop s e2 r ≤ r := by
  induction r with
  | zero => simp [cppLoop]
  | succ r ih =>
    unfold cppLoop
    split
    · exact le_refl _
    · omega

omit [IsStrictOrderedRing α] in
/-- the loop stops at an index whose tail reaches the threshold (when it stops above `0`) -/
theorem cppLoop_hit (s : List α) (e2 : α) (r : Nat) (hpos : 0 < cppLoop s e2 r) :
    e2 ≤ tailE s (cppLoop s e2 r) := by
  induction r with
  | zero => simp [cppLoop] at hpos
  | succ r ih =>
    unfold cppLoop at hpos ⊢
    split
    · assumption
    · rename_i h
      simp only [h, if_false] at hpos
      exact ih hpos

omit [IsStrictOrderedRing α] in
/-- every index strictly above the stopping point (and `≤ start`) was rejected -/
theorem cppLoop_above (s : List α) (e2 : α) (r j : Nat) (h1 : cppLoop s e2 r < j) (h2 : j ≤ r) :
    tailE s j < e2 := by
  induction r with
  | zero => omega
  | succ r ih =>
    unfold cppLoop at h1
    by_cases h : e2 ≤ tailE s (r + 1)
    · simp only [h, if_true] at h1; omega
    · simp only [h, if_false] at h1
      by_cases hj : j = r + 1
      · subst hj; exact not_le.mp h
      · exact ih h1 (by omega)

end ordered

end TT.Trunc
