import TTModel.Reduce
import TTLemmas.Sum

/-!
Lemmas behind the TT-matrix products (`matmul`, `vecmat`, `transpose`) and the
TT-matrix × dense array sweep (`dmvSweep`):

* linearity / congruence / Fubini lemmas for the iterated bounded sum `sumIdx`,
* the Kronecker-index chain lemmas `chain_matmul`, `chain_vecmat`,
* `chain_transpose`,
* the generalized invariant `dmvSweep_eq` of the left-to-right dense sweep.
-/
namespace TT
open Finset

/-! ### predicates on pairs of trains -/
section Pred
variable {α : Type}

/-- inner modes agree core by core: `x.n = y.m` (the `A @ B` shape check) -/
def InnerMatch : List (Core α) → List (Core α) → Prop
  | [], [] => True
  | x :: xs, y :: ys => x.n = y.m ∧ InnerMatch xs ys
  | _, _ => False

/-- row modes agree core by core: `x.m = A.m` (the `x @ A` shape check, `x` a TT-tensor) -/
def RowMatch : List (Core α) → List (Core α) → Prop
  | [], [] => True
  | x :: xs, y :: ys => x.m = y.m ∧ RowMatch xs ys
  | _, _ => False

theorem modesN_cons (x : Core α) (xs : List (Core α)) : modesN (x :: xs) = x.n :: modesN xs := rfl
theorem modesM_cons (x : Core α) (xs : List (Core α)) : modesM (x :: xs) = x.m :: modesM xs := rfl
theorem tIdx_cons (i : Nat) (is : List Nat) : tIdx (i :: is) = (i, 0) :: tIdx is := rfl

theorem modesN_eq_modesM_of_InnerMatch (xs ys : List (Core α)) (h : InnerMatch xs ys) :
    modesN xs = modesM ys := by
  induction xs generalizing ys with
  | nil =>
    cases ys with
    | nil => rfl
    | cons _ _ => simp [InnerMatch] at h
  | cons x xs ih =>
    cases ys with
    | nil => simp [InnerMatch] at h
    | cons y ys =>
      obtain ⟨h1, h2⟩ := h
      rw [modesN_cons, modesM_cons, h1, ih ys h2]

theorem modesM_eq_of_RowMatch (xs ys : List (Core α)) (h : RowMatch xs ys) :
    modesM xs = modesM ys := by
  induction xs generalizing ys with
  | nil =>
    cases ys with
    | nil => rfl
    | cons _ _ => simp [RowMatch] at h
  | cons x xs ih =>
    cases ys with
    | nil => simp [RowMatch] at h
    | cons y ys =>
      obtain ⟨h1, h2⟩ := h
      rw [modesM_cons, modesM_cons, h1, ih ys h2]

end Pred

variable {α : Type} [CommRing α]

/-! ### `sumIdx` -/

theorem sumIdx_nil (f : List Nat → α) : sumIdx [] f = f [] := rfl

theorem sumIdx_cons (n : Nat) (ns : List Nat) (f : List Nat → α) :
    sumIdx (n :: ns) f = sumTo n (fun k => sumIdx ns (fun ks => f (k :: ks))) := rfl

/-- congruence on the index box: only multi-indices `ks` with `ks[p] < ns[p]` matter -/
theorem sumIdx_congr {ns : List Nat} {f g : List Nat → α}
    (h : ∀ ks, List.Forall₂ (· < ·) ks ns → f ks = g ks) : sumIdx ns f = sumIdx ns g := by
  induction ns generalizing f g with
  | nil => exact h [] List.Forall₂.nil
  | cons n ns ih =>
    rw [sumIdx_cons, sumIdx_cons]
    apply sumTo_congr; intro k hk
    apply ih; intro ks hks
    exact h (k :: ks) (List.Forall₂.cons hk hks)

theorem forall₂_length {R : Nat → Nat → Prop} {ks ns : List Nat} (h : List.Forall₂ R ks ns) :
    ks.length = ns.length := by
  induction h with
  | nil => rfl
  | cons _ _ ih => simp [ih]

theorem sumIdx_congr_len {ns : List Nat} {f g : List Nat → α}
    (h : ∀ ks, ks.length = ns.length → f ks = g ks) : sumIdx ns f = sumIdx ns g :=
  sumIdx_congr (fun ks hks => h ks (forall₂_length hks))

theorem sumIdx_zero (ns : List Nat) : sumIdx ns (fun _ => (0 : α)) = 0 := by
  induction ns with
  | nil => rfl
  | cons n ns ih => rw [sumIdx_cons, ih, sumTo_zero']

theorem sumIdx_add_fn (ns : List Nat) (f g : List Nat → α) :
    sumIdx ns (fun ks => f ks + g ks) = sumIdx ns f + sumIdx ns g := by
  induction ns generalizing f g with
  | nil => rfl
  | cons n ns ih =>
    simp only [sumIdx_cons]
    rw [← sumTo_add_fn]
    apply sumTo_congr; intro k _
    rw [ih]

theorem sumIdx_mul_left (ns : List Nat) (c : α) (f : List Nat → α) :
    sumIdx ns (fun ks => c * f ks) = c * sumIdx ns f := by
  induction ns generalizing f with
  | nil => rfl
  | cons n ns ih =>
    simp only [sumIdx_cons]
    rw [← sumTo_mul_left]
    apply sumTo_congr; intro k _
    rw [ih]

theorem sumIdx_mul_right (ns : List Nat) (c : α) (f : List Nat → α) :
    sumIdx ns (fun ks => f ks * c) = sumIdx ns f * c := by
  induction ns generalizing f with
  | nil => rfl
  | cons n ns ih =>
    simp only [sumIdx_cons]
    rw [← sumTo_mul_right]
    apply sumTo_congr; intro k _
    rw [ih]

/-- Fubini: a bounded sum commutes with a multi-index sum -/
theorem sumTo_sumIdx_comm (n : Nat) (ns : List Nat) (f : Nat → List Nat → α) :
    sumTo n (fun k => sumIdx ns (fun ks => f k ks)) =
      sumIdx ns (fun ks => sumTo n (fun k => f k ks)) := by
  induction ns generalizing f with
  | nil => rfl
  | cons m ns ih =>
    simp only [sumIdx_cons]
    rw [sumTo_comm]
    apply sumTo_congr; intro p _
    rw [ih]

/-- Fubini for two multi-index sums -/
theorem sumIdx_comm (ms ns : List Nat) (f : List Nat → List Nat → α) :
    sumIdx ms (fun is => sumIdx ns (fun ks => f is ks)) =
      sumIdx ns (fun ks => sumIdx ms (fun is => f is ks)) := by
  induction ms generalizing f with
  | nil => rfl
  | cons m ms ih =>
    simp only [sumIdx_cons]
    rw [← sumTo_sumIdx_comm]
    apply sumTo_congr; intro p _
    rw [ih]

/-! ### TT-matrix @ TT-matrix -/

theorem length_matmul (xs ys : List (Core α)) (hlen : xs.length = ys.length) :
    (matmul xs ys).length = xs.length := by
  induction xs generalizing ys with
  | nil => cases ys <;> simp [matmul]
  | cons x xs ih =>
    cases ys with
    | nil => simp at hlen
    | cons y ys => simp [matmul, ih ys (by simpa using hlen)]

/-- ranks multiply: the product train is well formed with left rank `rx * ry` -/
theorem WF_matmul (xs ys : List (Core α)) (rx ry : Nat) (hwx : WF xs rx) (hwy : WF ys ry)
    (hlen : xs.length = ys.length) : WF (matmul xs ys) (rx * ry) := by
  induction xs generalizing ys rx ry with
  | nil =>
    cases ys with
    | nil =>
      have : rx = 1 := hwx
      have : ry = 1 := hwy
      subst_vars; simp [matmul, WF]
    | cons _ _ => simp at hlen
  | cons x xs ih =>
    cases ys with
    | nil => simp at hlen
    | cons y ys =>
      obtain ⟨hx0, hwx'⟩ := hwx
      obtain ⟨hy0, hwy'⟩ := hwy
      subst hx0 hy0
      exact ⟨rfl, ih ys x.r1 y.r1 hwx' hwy' (by simpa using hlen)⟩

/-- Kronecker-index lemma for `matmul`: merged rank index `a*ry+m`, contraction over the inner
    modes `x.n` of every core.  (The mode sizes `y.m` do not occur: `get` is total.) -/
theorem chain_matmul (xs ys : List (Core α)) (is js : List Nat) :
    ∀ (rx ry : Nat), WF xs rx → WF ys ry → xs.length = ys.length →
    is.length = xs.length → js.length = xs.length →
    ∀ a m, a < rx → m < ry →
      chain (matmul xs ys) (is.zip js) (a * ry + m) 0 =
        sumIdx (modesN xs) (fun ks => chain xs (is.zip ks) a 0 * chain ys (ks.zip js) m 0) := by
  induction xs generalizing ys is js with
  | nil =>
    intro rx ry hwx hwy hlen hil hjl a m ha hm
    cases ys with
    | nil =>
      have : rx = 1 := hwx
      have : ry = 1 := hwy
      subst_vars
      have : a = 0 := by omega
      have : m = 0 := by omega
      subst_vars
      simp [matmul, chain, modesN, sumIdx]
    | cons _ _ => simp at hlen
  | cons x xs ih =>
    intro rx ry hwx hwy hlen hil hjl a m ha hm
    match ys, is, js, hlen, hil, hjl with
    | y :: ys, i :: is, j :: js, hlen, hil, hjl =>
      obtain ⟨hx0, hwx'⟩ := hwx
      obtain ⟨hy0, hwy'⟩ := hwy
      have IH := ih ys is js x.r1 y.r1 hwx' hwy' (by simpa using hlen) (by simpa using hil)
        (by simpa using hjl)
      subst hy0
      -- the common normal form  Σ_p Σ_k Σ_l Σ_ks  T p k l ks
      have hL : ∀ k, k < x.r1 → ∀ l, l < y.r1 →
          (mmCore x y).get (a * y.r0 + m) i j (k * y.r1 + l) *
              chain (matmul xs ys) (is.zip js) (k * y.r1 + l) 0 =
            sumTo x.n (fun p => sumIdx (modesN xs) (fun ks =>
              x.get a i p k * y.get m p j l *
                (chain xs (is.zip ks) k 0 * chain ys (ks.zip js) l 0))) := by
        intro k hk l hl
        rw [IH k l hk hl]
        simp only [mmCore, merge_div hm, merge_mod hm, merge_div hl, merge_mod hl]
        rw [← sumTo_mul_right]
        apply sumTo_congr; intro p _
        rw [sumIdx_mul_left]
      have hR : ∀ p ks,
          chain (x :: xs) ((i, p) :: is.zip ks) a 0 * chain (y :: ys) ((p, j) :: ks.zip js) m 0 =
            sumTo x.r1 (fun k => sumTo y.r1 (fun l =>
              x.get a i p k * y.get m p j l *
                (chain xs (is.zip ks) k 0 * chain ys (ks.zip js) l 0))) := by
        intro p ks
        simp only [chain]
        rw [sumTo_mul_sumTo]
        apply sumTo_congr; intro k _
        apply sumTo_congr; intro l _
        ring
      simp only [matmul, List.zip_cons_cons, chain]
      rw [modesN_cons, sumIdx_cons]
      show sumTo (x.r1 * y.r1) _ = _
      rw [sumTo_mul]
      rw [sumTo_congr (fun k hk => sumTo_congr (fun l hl => hL k hk l hl))]
      simp only [List.zip_cons_cons, hR]
      -- right: Σ_p Σ_ks Σ_k Σ_l T  →  Σ_p Σ_k Σ_l Σ_ks T
      have hF : ∀ p, sumIdx (modesN xs) (fun ks => sumTo x.r1 (fun k => sumTo y.r1 (fun l =>
              x.get a i p k * y.get m p j l *
                (chain xs (is.zip ks) k 0 * chain ys (ks.zip js) l 0)))) =
          sumTo x.r1 (fun k => sumTo y.r1 (fun l => sumIdx (modesN xs) (fun ks =>
              x.get a i p k * y.get m p j l *
                (chain xs (is.zip ks) k 0 * chain ys (ks.zip js) l 0)))) := by
        intro p
        rw [← sumTo_sumIdx_comm]
        apply sumTo_congr; intro k _
        rw [← sumTo_sumIdx_comm]
      rw [sumTo_congr (fun p _ => hF p)]
      -- left: Σ_k Σ_l Σ_p  →  Σ_p Σ_k Σ_l
      rw [sumTo_congr (fun k _ => sumTo_comm y.r1 x.n _)]
      rw [sumTo_comm x.r1 x.n]

theorem full_matmul_gen (xs ys : List (Core α)) (is js : List Nat)
    (hwx : WF xs 1) (hwy : WF ys 1) (hlen : xs.length = ys.length)
    (hil : is.length = xs.length) (hjl : js.length = xs.length) :
    full (matmul xs ys) (is.zip js) =
      sumIdx (modesN xs) (fun ks => full xs (is.zip ks) * full ys (ks.zip js)) := by
  have := chain_matmul xs ys is js 1 1 hwx hwy hlen hil hjl 0 0 (by omega) (by omega)
  simpa [full] using this

/-! ### TT-tensor @ TT-matrix -/

theorem length_vecmat (xs ys : List (Core α)) (hlen : xs.length = ys.length) :
    (vecmat xs ys).length = xs.length := by
  induction xs generalizing ys with
  | nil => cases ys <;> simp [vecmat]
  | cons x xs ih =>
    cases ys with
    | nil => simp at hlen
    | cons y ys => simp [vecmat, ih ys (by simpa using hlen)]

theorem WF_vecmat (xs ys : List (Core α)) (rx ry : Nat) (hwx : WF xs rx) (hwy : WF ys ry)
    (hlen : xs.length = ys.length) : WF (vecmat xs ys) (rx * ry) := by
  induction xs generalizing ys rx ry with
  | nil =>
    cases ys with
    | nil =>
      have : rx = 1 := hwx
      have : ry = 1 := hwy
      subst_vars; simp [vecmat, WF]
    | cons _ _ => simp at hlen
  | cons x xs ih =>
    cases ys with
    | nil => simp at hlen
    | cons y ys =>
      obtain ⟨hx0, hwx'⟩ := hwx
      obtain ⟨hy0, hwy'⟩ := hwy
      subst hx0 hy0
      exact ⟨rfl, ih ys x.r1 y.r1 hwx' hwy' (by simpa using hlen)⟩

theorem isTensor_vecmat (xs ys : List (Core α)) : IsTensor (vecmat xs ys) := by
  induction xs generalizing ys with
  | nil => cases ys <;> simp [vecmat, IsTensor]
  | cons x xs ih =>
    cases ys with
    | nil => simp [vecmat, IsTensor]
    | cons y ys => exact ⟨rfl, ih ys⟩

/-- Kronecker-index lemma for `vecmat`: merged rank index `i*rx+m` with `i` the *operator's*
    rank index, contraction over the row modes `A.m` of every core. -/
theorem chain_vecmat (xs As : List (Core α)) (js : List Nat) :
    ∀ (rx rA : Nat), WF xs rx → WF As rA → xs.length = As.length → js.length = xs.length →
    ∀ i m, i < rA → m < rx →
      chain (vecmat xs As) (tIdx js) (i * rx + m) 0 =
        sumIdx (modesM As) (fun ks => chain xs (tIdx ks) m 0 * chain As (ks.zip js) i 0) := by
  induction xs generalizing As js with
  | nil =>
    intro rx rA hwx hwA hlen hjl i m hi hm
    cases As with
    | nil =>
      have : rx = 1 := hwx
      have : rA = 1 := hwA
      subst_vars
      have : i = 0 := by omega
      have : m = 0 := by omega
      subst_vars
      simp [vecmat, chain, modesM, sumIdx, tIdx]
    | cons _ _ => simp at hlen
  | cons x xs ih =>
    intro rx rA hwx hwA hlen hjl i m hi hm
    match As, js, hlen, hjl with
    | A :: As, j :: js, hlen, hjl =>
      obtain ⟨hx0, hwx'⟩ := hwx
      obtain ⟨hA0, hwA'⟩ := hwA
      have IH := ih As js x.r1 A.r1 hwx' hwA' (by simpa using hlen) (by simpa using hjl)
      subst hx0
      have hL : ∀ k, k < A.r1 → ∀ l, l < x.r1 →
          (vmCore x A).get (i * x.r0 + m) j 0 (k * x.r1 + l) *
              chain (vecmat xs As) (tIdx js) (k * x.r1 + l) 0 =
            sumTo A.m (fun p => sumIdx (modesM As) (fun ks =>
              x.get m p 0 l * A.get i p j k *
                (chain xs (tIdx ks) l 0 * chain As (ks.zip js) k 0))) := by
        intro k hk l hl
        rw [IH k l hk hl]
        simp only [vmCore, merge_div hm, merge_mod hm, merge_div hl, merge_mod hl]
        rw [← sumTo_mul_right]
        apply sumTo_congr; intro p _
        rw [sumIdx_mul_left]
      have hR : ∀ p ks,
          chain (x :: xs) ((p, 0) :: tIdx ks) m 0 * chain (A :: As) ((p, j) :: ks.zip js) i 0 =
            sumTo A.r1 (fun k => sumTo x.r1 (fun l =>
              x.get m p 0 l * A.get i p j k *
                (chain xs (tIdx ks) l 0 * chain As (ks.zip js) k 0))) := by
        intro p ks
        simp only [chain]
        rw [mul_comm, sumTo_mul_sumTo]
        apply sumTo_congr; intro k _
        apply sumTo_congr; intro l _
        ring
      simp only [vecmat, tIdx_cons, chain]
      rw [modesM_cons, sumIdx_cons]
      show sumTo (x.r1 * A.r1) _ = _
      rw [Nat.mul_comm x.r1 A.r1, sumTo_mul]
      rw [sumTo_congr (fun k hk => sumTo_congr (fun l hl => hL k hk l hl))]
      simp only [List.zip_cons_cons, tIdx_cons, hR]
      have hF : ∀ p, sumIdx (modesM As) (fun ks => sumTo A.r1 (fun k => sumTo x.r1 (fun l =>
              x.get m p 0 l * A.get i p j k *
                (chain xs (tIdx ks) l 0 * chain As (ks.zip js) k 0)))) =
          sumTo A.r1 (fun k => sumTo x.r1 (fun l => sumIdx (modesM As) (fun ks =>
              x.get m p 0 l * A.get i p j k *
                (chain xs (tIdx ks) l 0 * chain As (ks.zip js) k 0)))) := by
        intro p
        rw [← sumTo_sumIdx_comm]
        apply sumTo_congr; intro k _
        rw [← sumTo_sumIdx_comm]
      rw [sumTo_congr (fun p _ => hF p)]
      rw [sumTo_congr (fun k _ => sumTo_comm x.r1 A.m _)]
      rw [sumTo_comm A.r1 A.m]

theorem full_vecmat_gen (xs As : List (Core α)) (js : List Nat)
    (hwx : WF xs 1) (hwA : WF As 1) (hlen : xs.length = As.length) (hjl : js.length = xs.length) :
    full (vecmat xs As) (tIdx js) =
      sumIdx (modesM As) (fun ks => full xs (tIdx ks) * full As (ks.zip js)) := by
  have := chain_vecmat xs As js 1 1 hwx hwA hlen hjl 0 0 (by omega) (by omega)
  simpa [full] using this

/-! ### transpose -/

theorem chain_transpose (xs : List (Core α)) (ij : List (Nat × Nat)) (a b : Nat) :
    chain (transpose xs) ij a b = chain xs (ij.map Prod.swap) a b := by
  induction xs generalizing ij a with
  | nil => simp [transpose, chain]
  | cons x xs ih =>
    cases ij with
    | nil => simp [transpose, chain]
    | cons p ij =>
      have ih' : ∀ k, chain (List.map Core.t xs) ij k b = chain xs (ij.map Prod.swap) k b := by
        intro k; exact ih ij k
      simp only [transpose, List.map_cons, chain]
      show sumTo x.r1 _ = _
      apply sumTo_congr; intro k _
      rw [ih' k]
      simp [Core.t]

omit [CommRing α] in
theorem WF_transpose (xs : List (Core α)) (r : Nat) (h : WF xs r) : WF (transpose xs) r := by
  induction xs generalizing r with
  | nil => exact h
  | cons x xs ih =>
    obtain ⟨h0, h1⟩ := h
    exact ⟨h0, ih x.r1 h1⟩

/-! ### TT-matrix × dense array -/

/-- invariant of the dense sweep for an arbitrary incoming state `st`, arbitrary already-produced
    (reversed) row indices `pre` and arbitrary untouched trailing column indices `ns0` -/
theorem dmvSweep_eq (cs : List (Core α)) :
    ∀ (r : Nat) (st : List Nat → List Nat → Nat → α) (ms ns0 pre : List Nat),
      WF cs r → ms.length = cs.length →
      dmvSweep cs st ns0 (ms.reverse ++ pre) 0 =
        sumIdx (modesN cs) (fun ns =>
          sumTo r (fun a => st (ns ++ ns0) pre a * chain cs (ms.zip ns) a 0)) := by
  induction cs with
  | nil =>
    intro r st ms ns0 pre hw hml
    have : r = 1 := hw
    subst this
    have : ms = [] := by simpa using hml
    subst this
    simp [dmvSweep, modesN, sumIdx, sumTo, chain]
  | cons c cs ih =>
    intro r st ms ns0 pre hw hml
    match ms, hml with
    | i :: ms, hml =>
      obtain ⟨h0, hw'⟩ := hw
      subst h0
      have hml' : ms.length = cs.length := by simpa using hml
      have hrev : (i :: ms).reverse ++ pre = ms.reverse ++ (i :: pre) := by simp
      rw [hrev, dmvSweep, ih c.r1 _ ms ns0 (i :: pre) hw' hml', modesN_cons, sumIdx_cons,
        sumTo_sumIdx_comm]
      apply sumIdx_congr_len; intro ns _
      simp only [List.zip_cons_cons, chain, List.cons_append]
      simp only [sumTo_eq_sum, Finset.sum_mul, Finset.mul_sum]
      rw [Finset.sum_comm]
      apply Finset.sum_congr rfl; intro k _
      rw [Finset.sum_comm]
      apply Finset.sum_congr rfl; intro a _
      apply Finset.sum_congr rfl; intro b _
      ring

theorem denseMatvec_eq_gen (cs : List (Core α)) (x : List Nat → α) (ms : List Nat)
    (hw : WF cs 1) (hml : ms.length = cs.length) :
    denseMatvec cs x ms = sumIdx (modesN cs) (fun ns => full cs (ms.zip ns) * x ns) := by
  unfold denseMatvec
  have h := fun st => dmvSweep_eq cs 1 st ms [] [] hw hml
  simp only [List.append_nil] at h
  rw [h]
  apply sumIdx_congr_len; intro ns _
  simp [sumTo, full, mul_comm]

end TT
