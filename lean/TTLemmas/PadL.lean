import TTLemmas.ExtrasL

/-!
Helper lemmas for C09b (repaired tensor padding `padTensor`, `TTModel/Extras.lean`):
well-formedness / length of `padT … 0`, the all-ones trains `cs.map (fun c => constCore 1 c.m 1)`,
well-formedness / length of `smul`, `sub`.
-/
namespace TT
variable {α : Type} [CommRing α]

/-! ### the tensor all-ones train `ones(N)` -/

theorem map_ones1_eq (cs : List (Core α)) :
    cs.map (fun c => constCore (1:α) c.m 1) =
      (cs.map (fun c => ({ c with n := 1 } : Core α))).map (fun c => constCore (1:α) c.m c.n) := by
  simp [List.map_map, Function.comp_def]

theorem WF_ones1 (cs : List (Core α)) : WF (cs.map (fun c => constCore (1:α) c.m 1)) 1 := by
  rw [map_ones1_eq]; exact WF_const_ones _

theorem full_ones1 (cs : List (Core α)) (ij : List (Nat × Nat)) (h : ij.length = cs.length) :
    full (cs.map (fun c => constCore (1:α) c.m 1)) ij = 1 := by
  rw [map_ones1_eq]
  exact chain_const_ones _ ij (by simpa using h)

theorem padInside_ones1 (cs : List (Core α)) (ps : List (Nat × Nat)) (is : List Nat) :
    padInside (cs.map (fun c => constCore (1:α) c.m 1)) ps is ↔ padInside cs ps is := by
  induction cs generalizing ps is with
  | nil => simp [padInside]
  | cons c cs ih =>
    cases ps with
    | nil => simp [padInside]
    | cons p ps =>
      cases is with
      | nil => simp [padInside]
      | cons i is =>
        have h1 : padInside (c :: cs) (p :: ps) (i :: is) ↔
            ((p.1 ≤ i ∧ i < p.1 + c.m) ∧ padInside cs ps is) := by simp [padInside]
        have h2 : padInside ((c :: cs).map (fun c => constCore (1:α) c.m 1)) (p :: ps) (i :: is) ↔
            ((p.1 ≤ i ∧ i < p.1 + c.m) ∧ padInside (cs.map (fun c => constCore (1:α) c.m 1)) ps is) := by
          simp [padInside, constCore]
        rw [h1, h2, ih]

theorem length_padShift (ps : List (Nat × Nat)) (is : List Nat) :
    (padShift ps is).length = min ps.length is.length := by
  simp [padShift]

/-! ### zero padding keeps ranks and order -/

omit [CommRing α] in
theorem WF_padZip [Zero α] (v : α) (cs : List (Core α)) (ps : List (Nat × Nat)) (h : cs.length = ps.length) :
    ∀ r, WF cs r → WF (List.zipWith (fun c p => padCoreT c p.1 p.2 v) cs ps) r := by
  induction cs generalizing ps with
  | nil => intro r hw; simpa using hw
  | cons c cs ih =>
    match ps, h with
    | p :: ps, h =>
      intro r hw
      have h' : cs.length = ps.length := by simpa using h
      exact ⟨hw.1, ih ps h' c.r1 hw.2⟩

omit [CommRing α] in
theorem WF_append_padZip [Zero α] (v : α) (cs0 cs1 : List (Core α)) (ps : List (Nat × Nat))
    (h : cs1.length = ps.length) :
    ∀ r, WF (cs0 ++ cs1) r → WF (cs0 ++ List.zipWith (fun c p => padCoreT c p.1 p.2 v) cs1 ps) r := by
  induction cs0 with
  | nil => intro r hw; exact WF_padZip v cs1 ps h r hw
  | cons c cs0 ih => intro r hw; exact ⟨hw.1, ih c.r1 hw.2⟩

theorem WF_padT_zero [DecidableEq α] (cs0 cs1 : List (Core α)) (ps : List (Nat × Nat))
    (h : cs1.length = ps.length) (r : Nat) (hw : WF (cs0 ++ cs1) r) : WF (padT (cs0 ++ cs1) ps 0) r := by
  rw [padT_zero_eq cs0 cs1 ps h]
  exact WF_append_padZip 0 cs0 cs1 ps h r hw

theorem length_padT_zero [DecidableEq α] (cs0 cs1 : List (Core α)) (ps : List (Nat × Nat))
    (h : cs1.length = ps.length) : (padT (cs0 ++ cs1) ps 0).length = (cs0 ++ cs1).length := by
  rw [padT_zero_eq cs0 cs1 ps h]
  simp [h]

/-- padding changes only the mode size `m` -/
theorem padT_zero_ranks [DecidableEq α] (cs0 cs1 : List (Core α)) (ps : List (Nat × Nat))
    (h : cs1.length = ps.length) : ranks (padT (cs0 ++ cs1) ps 0) = ranks (cs0 ++ cs1) := by
  rw [padT_zero_eq cs0 cs1 ps h]
  have key : ∀ (cs : List (Core α)) (ps : List (Nat × Nat)), cs.length = ps.length →
      (List.zipWith (fun c p => padCoreT c p.1 p.2 (0:α)) cs ps).map (·.r1) = cs.map (·.r1) := by
    intro cs
    induction cs with
    | nil => intro ps _; simp
    | cons c cs ih =>
      intro ps hh
      match ps, hh with
      | p :: ps, hh =>
        simp only [List.zipWith_cons_cons, List.map_cons, ih ps (by simpa using hh)]
        rfl
  cases cs0 with
  | nil =>
    match cs1, ps, h with
    | [], [], _ => rfl
    | c :: cs1, p :: ps, h =>
      have := key cs1 ps (by simpa using h)
      simp only [List.nil_append, List.zipWith_cons_cons, ranks, List.map_cons, this]
      rfl
  | cons c cs0 =>
    have := key cs1 ps h
    simp only [List.cons_append, ranks, List.map_cons, List.map_append, this]

/-! ### `smul`, `sub`: ranks and order -/

theorem WF_smul [DecidableEq α] (xs : List (Core α)) (s : α) (hw : WF xs 1) : WF (smul xs s) 1 := by
  unfold smul
  split
  · unfold zerosLike
    clear hw
    induction xs with
    | nil => rfl
    | cons c cs ih => exact ⟨rfl, ih⟩
  · exact WF_scaleFirst s xs 1 hw

theorem length_smul [DecidableEq α] (xs : List (Core α)) (s : α) : (smul xs s).length = xs.length := by
  unfold smul
  split
  · simp [zerosLike]
  · cases xs <;> rfl

theorem WF_sub' (xs ys : List (Core α)) (hwx : WF xs 1) (hwy : WF ys 1)
    (hlen : xs.length = ys.length) (hne : xs ≠ []) : WF (sub xs ys) 1 := by
  have := WF_addFrom xs (negFirst ys) (by rw [length_negFirst]; exact hlen) hne true 1 1 hwx
    (WF_negFirst ys 1 hwy)
  simpa [sub, add, off] using this

theorem length_sub (xs ys : List (Core α)) (hlen : xs.length = ys.length) :
    (sub xs ys).length = xs.length :=
  length_addFrom xs (negFirst ys) (by rw [length_negFirst]; exact hlen) true

end TT
