import TTModel.Reduce
import TTModel.Kernels
import TTLemmas.Sum
import TTLemmas.Sweep
import TTLemmas.Matmul

/-!
Helpers for C11 / C12: the local kernels of the AMEn solver (`solvers.py`) and of the AMEn
matrix product (`_amen.py`).  All names local to this file are prefixed `kl_` (except `abxSweep`,
the trilinear sweep the statement of C11 is about).

* block commutation of bounded sums (`kl_comm_*`),
* the dense partial contractions `kl_B` (`⟨x, A y⟩`), `kl_D` (`⟨b, x⟩`), `kl_T` (`⟨X, A B⟩`) of
  three / two / three sub-trains between arbitrary left and right rank indices, with their
  one-core recursions,
* the generalized-state invariants of the forward / backward folds,
* the "testing the local operator" identities behind the Galerkin statements.
-/
namespace TT
open TT.Kern
variable {α : Type} [CommRing α]

/-! ### moving blocks of bounded sums -/

theorem kl_comm6 (n p q r s t u : Nat) (f : Nat → Nat → Nat → Nat → Nat → Nat → Nat → α) :
    sumTo n (fun k => sumTo p (fun a => sumTo q (fun b => sumTo r (fun c => sumTo s (fun d =>
      sumTo t (fun e => sumTo u (fun g => f k a b c d e g))))))) =
    sumTo p (fun a => sumTo q (fun b => sumTo r (fun c => sumTo s (fun d => sumTo t (fun e =>
      sumTo u (fun g => sumTo n (fun k => f k a b c d e g))))))) := by
  rw [sumTo_comm]
  apply sumTo_congr; intro a _
  rw [sw_comm5]

/-- a block of 2 sums past 1 sum -/
theorem kl_comm_2_1 (a b d : Nat) (F : Nat → Nat → Nat → α) :
    sumTo a (fun i => sumTo b (fun j => sumTo d (fun p => F i j p))) =
    sumTo d (fun p => sumTo a (fun i => sumTo b (fun j => F i j p))) := by
  rw [sumTo_congr (fun i _ => sumTo_comm b d (fun j p => F i j p))]
  rw [sumTo_comm a d (fun i p => sumTo b (fun j => F i j p))]

/-- a block of 2 sums past a block of 3 sums -/
theorem kl_comm_2_3 (a b d e g : Nat) (F : Nat → Nat → Nat → Nat → Nat → α) :
    sumTo a (fun i => sumTo b (fun j => sumTo d (fun p => sumTo e (fun q => sumTo g (fun t =>
      F i j p q t))))) =
    sumTo d (fun p => sumTo e (fun q => sumTo g (fun t => sumTo a (fun i => sumTo b (fun j =>
      F i j p q t))))) := by
  rw [sumTo_congr (fun i _ => sw_comm3 b d e g (fun j p q t => F i j p q t))]
  rw [sw_comm3 a d e g (fun i p q t => sumTo b (fun j => F i j p q t))]

/-- a block of 3 sums past a block of 2 sums -/
theorem kl_comm_3_2 (a b c d e : Nat) (F : Nat → Nat → Nat → Nat → Nat → α) :
    sumTo a (fun i => sumTo b (fun j => sumTo c (fun k => sumTo d (fun p => sumTo e (fun q =>
      F i j k p q))))) =
    sumTo d (fun p => sumTo e (fun q => sumTo a (fun i => sumTo b (fun j => sumTo c (fun k =>
      F i j k p q))))) := by
  rw [sumTo_congr (fun i _ => sumTo_congr (fun j _ => sw_comm2 c d e (fun k p q => F i j k p q)))]
  rw [sumTo_congr (fun i _ => sw_comm2 b d e (fun j p q => sumTo c (fun k => F i j k p q)))]
  rw [sw_comm2 a d e (fun i p q => sumTo b (fun j => sumTo c (fun k => F i j k p q)))]

/-- a block of 3 sums past a block of 3 sums -/
theorem kl_comm_3_3 (a b c d e g : Nat) (F : Nat → Nat → Nat → Nat → Nat → Nat → α) :
    sumTo a (fun i => sumTo b (fun j => sumTo c (fun k => sumTo d (fun p => sumTo e (fun q =>
      sumTo g (fun t => F i j k p q t)))))) =
    sumTo d (fun p => sumTo e (fun q => sumTo g (fun t => sumTo a (fun i => sumTo b (fun j =>
      sumTo c (fun k => F i j k p q t)))))) := by
  rw [sumTo_congr (fun i _ => sumTo_congr (fun j _ =>
    sw_comm3 c d e g (fun k p q t => F i j k p q t)))]
  rw [sumTo_congr (fun i _ => sw_comm3 b d e g (fun j p q t => sumTo c (fun k => F i j k p q t)))]
  rw [sw_comm3 a d e g (fun i p q t => sumTo b (fun j => sumTo c (fun k => F i j k p q t)))]

/-- a block of 3 sums past a block of 5 sums -/
theorem kl_comm_3_5 (a b c d e g h m : Nat)
    (F : Nat → Nat → Nat → Nat → Nat → Nat → Nat → Nat → α) :
    sumTo a (fun i => sumTo b (fun j => sumTo c (fun k => sumTo d (fun p => sumTo e (fun q =>
      sumTo g (fun t => sumTo h (fun u => sumTo m (fun v => F i j k p q t u v)))))))) =
    sumTo d (fun p => sumTo e (fun q => sumTo g (fun t => sumTo h (fun u => sumTo m (fun v =>
      sumTo a (fun i => sumTo b (fun j => sumTo c (fun k => F i j k p q t u v)))))))) := by
  rw [sumTo_congr (fun i _ => sumTo_congr (fun j _ =>
    sw_comm5 c d e g h m (fun k p q t u v => F i j k p q t u v)))]
  rw [sumTo_congr (fun i _ =>
    sw_comm5 b d e g h m (fun j p q t u v => sumTo c (fun k => F i j k p q t u v)))]
  rw [sw_comm5 a d e g h m (fun i p q t u v => sumTo b (fun j => sumTo c (fun k =>
    F i j k p q t u v)))]

/-- a block of 3 sums past a block of 6 sums -/
theorem kl_comm_3_6 (a b c d e g h m n : Nat)
    (F : Nat → Nat → Nat → Nat → Nat → Nat → Nat → Nat → Nat → α) :
    sumTo a (fun i => sumTo b (fun j => sumTo c (fun k => sumTo d (fun p => sumTo e (fun q =>
      sumTo g (fun t => sumTo h (fun u => sumTo m (fun v => sumTo n (fun w =>
        F i j k p q t u v w))))))))) =
    sumTo d (fun p => sumTo e (fun q => sumTo g (fun t => sumTo h (fun u => sumTo m (fun v =>
      sumTo n (fun w => sumTo a (fun i => sumTo b (fun j => sumTo c (fun k =>
        F i j k p q t u v w))))))))) := by
  rw [sumTo_congr (fun i _ => sumTo_congr (fun j _ =>
    kl_comm6 c d e g h m n (fun k p q t u v w => F i j k p q t u v w)))]
  rw [sumTo_congr (fun i _ =>
    kl_comm6 b d e g h m n (fun j p q t u v w => sumTo c (fun k => F i j k p q t u v w)))]
  rw [kl_comm6 a d e g h m n (fun i p q t u v w => sumTo b (fun j => sumTo c (fun k =>
    F i j k p q t u v w)))]

/-! ### adjacent transpositions of nested bounded sums (depth 0 is `sumTo_comm`) -/

theorem kl_sw1 (a b c : Nat) (f : Nat → Nat → Nat → α) :
    sumTo a (fun i => sumTo b (fun j => sumTo c (fun k => f i j k))) =
    sumTo a (fun i => sumTo c (fun k => sumTo b (fun j => f i j k))) :=
  sumTo_congr fun _ _ => sumTo_comm _ _ _

theorem kl_sw2 (a b c d : Nat) (f : Nat → Nat → Nat → Nat → α) :
    sumTo a (fun i => sumTo b (fun j => sumTo c (fun k => sumTo d (fun l => f i j k l)))) =
    sumTo a (fun i => sumTo b (fun j => sumTo d (fun l => sumTo c (fun k => f i j k l)))) :=
  sumTo_congr fun _ _ => kl_sw1 _ _ _ _

theorem kl_sw3 (a b c d e : Nat) (f : Nat → Nat → Nat → Nat → Nat → α) :
    sumTo a (fun i => sumTo b (fun j => sumTo c (fun k => sumTo d (fun l => sumTo e (fun m =>
      f i j k l m))))) =
    sumTo a (fun i => sumTo b (fun j => sumTo c (fun k => sumTo e (fun m => sumTo d (fun l =>
      f i j k l m))))) :=
  sumTo_congr fun _ _ => kl_sw2 _ _ _ _ _

theorem kl_sw4 (a b c d e g : Nat) (f : Nat → Nat → Nat → Nat → Nat → Nat → α) :
    sumTo a (fun i => sumTo b (fun j => sumTo c (fun k => sumTo d (fun l => sumTo e (fun m =>
      sumTo g (fun n => f i j k l m n)))))) =
    sumTo a (fun i => sumTo b (fun j => sumTo c (fun k => sumTo d (fun l => sumTo g (fun n =>
      sumTo e (fun m => f i j k l m n)))))) :=
  sumTo_congr fun _ _ => kl_sw3 _ _ _ _ _ _

theorem kl_sw5 (a b c d e g h : Nat) (f : Nat → Nat → Nat → Nat → Nat → Nat → Nat → α) :
    sumTo a (fun i => sumTo b (fun j => sumTo c (fun k => sumTo d (fun l => sumTo e (fun m =>
      sumTo g (fun n => sumTo h (fun o => f i j k l m n o))))))) =
    sumTo a (fun i => sumTo b (fun j => sumTo c (fun k => sumTo d (fun l => sumTo e (fun m =>
      sumTo h (fun o => sumTo g (fun n => f i j k l m n o))))))) :=
  sumTo_congr fun _ _ => kl_sw4 _ _ _ _ _ _ _

theorem kl_sw6 (a b c d e g h p : Nat) (f : Nat → Nat → Nat → Nat → Nat → Nat → Nat → Nat → α) :
    sumTo a (fun i => sumTo b (fun j => sumTo c (fun k => sumTo d (fun l => sumTo e (fun m =>
      sumTo g (fun n => sumTo h (fun o => sumTo p (fun q => f i j k l m n o q)))))))) =
    sumTo a (fun i => sumTo b (fun j => sumTo c (fun k => sumTo d (fun l => sumTo e (fun m =>
      sumTo g (fun n => sumTo p (fun q => sumTo h (fun o => f i j k l m n o q)))))))) :=
  sumTo_congr fun _ _ => kl_sw5 _ _ _ _ _ _ _ _

/-! ### Kronecker deltas -/

theorem kl_delta3 (n1 n2 n3 : Nat) (P : Nat → Nat → Nat → α) (L S R : Nat)
    (hL : L < n1) (hS : S < n2) (hR : R < n3) :
    sumTo n1 (fun l => sumTo n2 (fun s => sumTo n3 (fun r =>
      P l s r * ((if l = L then 1 else 0) * (if s = S then 1 else 0) * (if r = R then 1 else 0))))) =
    P L S R := by
  rw [sumTo_single L hL, sumTo_single S hS, sumTo_single R hR]
  · simp
  · intro k _ hne; simp [hne]
  · intro k _ hne
    apply sumTo_eq_zero; intro r _; simp [hne]
  · intro k _ hne
    apply sumTo_eq_zero; intro s _
    apply sumTo_eq_zero; intro r _; simp [hne]

theorem kl_delta2 (n1 n2 : Nat) (P : Nat → Nat → α) (L R : Nat) (hL : L < n1) (hR : R < n2) :
    sumTo n1 (fun l => sumTo n2 (fun r =>
      P l r * ((if l = L then 1 else 0) * (if r = R then 1 else 0)))) = P L R := by
  rw [sumTo_single L hL, sumTo_single R hR]
  · simp
  · intro k _ hne; simp [hne]
  · intro k _ hne
    apply sumTo_eq_zero; intro r _; simp [hne]

/-! ### `⟨x, A y⟩`: dense partial contraction of three sub-trains -/

/-- dense contraction of the sub-trains `xs, As, ys` between the left rank indices `(l, s, r)`
    and the right rank indices `(L, S, R)`: `Σ_{is, js} xs(is)[l,L] · As(is,js)[s,S] · ys(js)[r,R]` -/
def kl_B (xs As ys : List (Core α)) (l s r L S R : Nat) : α :=
  sw_S2 (modesM As) (modesN As)
    (fun is js => chain xs (tIdx is) l L * chain As (is.zip js) s S * chain ys (tIdx js) r R)

theorem kl_B_nil (l s r L S R : Nat) :
    kl_B ([] : List (Core α)) [] [] l s r L S R =
    (if l = L then 1 else 0) * (if s = S then 1 else 0) * (if r = R then 1 else 0) := rfl

theorem kl_B_cons (x A y : Core α) (xs As ys : List (Core α)) (l s r L S R : Nat) :
    kl_B (x :: xs) (A :: As) (y :: ys) l s r L S R =
    sumTo A.m (fun m => sumTo A.n (fun n => sumTo x.r1 (fun L' => sumTo A.r1 (fun S' =>
      sumTo y.r1 (fun R' =>
        (x.get l m 0 L' * A.get s m n S' * y.get r n 0 R') * kl_B xs As ys L' S' R' L S R))))) := by
  unfold kl_B
  simp only [modesM, modesN, List.map_cons]
  rw [sw_S2_cons]
  refine sumTo_congr fun m _ => sumTo_congr fun n _ => ?_
  simp only [List.zip_cons_cons, sw_tIdx_cons, chain]
  rw [sw_S2_congr (g := fun is js => sumTo x.r1 (fun L' => sumTo A.r1 (fun S' => sumTo y.r1 (fun R' =>
        (x.get l m 0 L' * A.get s m n S' * y.get r n 0 R') *
          (chain xs (tIdx is) L' L * chain As (is.zip js) S' S * chain ys (tIdx js) R' R)))))]
  · rw [sw_S2_sumTo]
    refine sumTo_congr fun L' _ => ?_
    rw [sw_S2_sumTo]
    refine sumTo_congr fun S' _ => ?_
    rw [sw_S2_sumTo]
    refine sumTo_congr fun R' _ => ?_
    rw [sw_S2_mul_left]
  · intro is js
    rw [mul_assoc, sumTo_mul_sumTo A.r1 y.r1, sumTo_mul_sumTo]
    refine sumTo_congr fun L' _ => sumTo_congr fun S' _ => ?_
    rw [← sumTo_mul_left]
    refine sumTo_congr fun R' _ => ?_
    ring

/-- invariant of the forward fold for an arbitrary incoming `Phi`, arbitrary left ranks
    `(rx, rA, ry)`, arbitrary last ranks `(Lx, LA, Ly)` and any in-range right index -/
theorem kl_foldFwdA_inv (xs As ys : List (Core α)) (rx rA ry Lx LA Ly : Nat) (P : Phi3 α)
    (L S R : Nat)
    (hx : sw_Chained xs rx Lx) (hA : sw_Chained As rA LA) (hy : sw_Chained ys ry Ly)
    (hlx : xs.length = As.length) (hly : ys.length = As.length)
    (hL : L < Lx) (hS : S < LA) (hR : R < Ly) :
    foldFwdA xs As ys P L S R =
    sumTo rx (fun l => sumTo rA (fun s => sumTo ry (fun r => P l s r * kl_B xs As ys l s r L S R))) := by
  induction xs generalizing As ys rx rA ry P with
  | nil =>
    match As, ys, hlx, hly with
    | [], [], _, _ =>
      have e1 : rx = Lx := hx
      have e2 : rA = LA := hA
      have e3 : ry = Ly := hy
      subst e1 e2 e3
      simp only [foldFwdA, kl_B_nil]
      rw [kl_delta3 _ _ _ _ L S R hL hS hR]
  | cons x xs ih =>
    match As, ys, hlx, hly with
    | A :: As, y :: ys, hlx, hly =>
      obtain ⟨hx0, hx'⟩ := hx
      obtain ⟨hA0, hA'⟩ := hA
      obtain ⟨hy0, hy'⟩ := hy
      have hlx' : xs.length = As.length := by simpa using hlx
      have hly' : ys.length = As.length := by simpa using hly
      simp only [foldFwdA]
      rw [ih As ys x.r1 A.r1 y.r1 _ hx' hA' hy' hlx' hly']
      subst hx0 hA0 hy0
      simp only [kl_B_cons, phiFwdA]
      simp only [← sumTo_mul_right, ← sumTo_mul_left]
      rw [kl_comm_3_5]
      refine sumTo_congr fun l _ => sumTo_congr fun s _ => sumTo_congr fun r _ =>
        sumTo_congr fun m _ => sumTo_congr fun n _ => sumTo_congr fun L' _ =>
        sumTo_congr fun S' _ => sumTo_congr fun R' _ => ?_
      ring

/-- invariant of the backward fold for an arbitrary incoming `Phi` and any in-range left index -/
theorem kl_foldBckA_inv (xs As ys : List (Core α)) (rx rA ry Lx LA Ly : Nat) (P : Phi3 α)
    (l s r : Nat)
    (hx : sw_Chained xs rx Lx) (hA : sw_Chained As rA LA) (hy : sw_Chained ys ry Ly)
    (hlx : xs.length = As.length) (hly : ys.length = As.length)
    (hl : l < rx) (hs : s < rA) (hr : r < ry) :
    foldBckA xs As ys P l s r =
    sumTo Lx (fun L => sumTo LA (fun S => sumTo Ly (fun R => P L S R * kl_B xs As ys l s r L S R))) := by
  induction xs generalizing As ys rx rA ry l s r with
  | nil =>
    match As, ys, hlx, hly with
    | [], [], _, _ =>
      have e1 : rx = Lx := hx
      have e2 : rA = LA := hA
      have e3 : ry = Ly := hy
      subst e1 e2 e3
      simp only [foldBckA, kl_B_nil]
      have := kl_delta3 rx rA ry P l s r hl hs hr
      rw [← this]
      refine sumTo_congr fun L _ => sumTo_congr fun S _ => sumTo_congr fun R _ => ?_
      simp only [eq_comm]
  | cons x xs ih =>
    match As, ys, hlx, hly with
    | A :: As, y :: ys, hlx, hly =>
      obtain ⟨hx0, hx'⟩ := hx
      obtain ⟨hA0, hA'⟩ := hA
      obtain ⟨hy0, hy'⟩ := hy
      have hlx' : xs.length = As.length := by simpa using hlx
      have hly' : ys.length = As.length := by simpa using hly
      have IH : ∀ L', L' < x.r1 → ∀ S', S' < A.r1 → ∀ R', R' < y.r1 →
          foldBckA xs As ys P L' S' R' =
          sumTo Lx (fun L => sumTo LA (fun S => sumTo Ly (fun R =>
            P L S R * kl_B xs As ys L' S' R' L S R))) :=
        fun L' hL' S' hS' R' hR' => ih As ys x.r1 A.r1 y.r1 L' S' R' hx' hA' hy' hlx' hly' hL' hS' hR'
      simp only [foldBckA, phiBckA]
      rw [sumTo_congr (fun L' hL' => sumTo_congr (fun S' hS' => sumTo_congr (fun R' hR' => by
        rw [IH L' hL' S' hS' R' hR'])))]
      simp only [kl_B_cons]
      simp only [← sumTo_mul_right, ← sumTo_mul_left]
      rw [kl_comm_3_2]
      conv_rhs => rw [kl_comm_3_5]
      refine sumTo_congr fun m _ => sumTo_congr fun n _ => sumTo_congr fun L' _ =>
        sumTo_congr fun S' _ => sumTo_congr fun R' _ => sumTo_congr fun L _ =>
        sumTo_congr fun S _ => sumTo_congr fun R _ => ?_
      ring

/-! ### splitting the sweeps at a position -/

theorem kl_bilSweep_id (xs As ys : List (Core α)) (T : Phi3 α) :
    bilSweep id xs As ys T = foldFwdA xs As ys T := by
  induction xs generalizing As ys T with
  | nil => cases As <;> cases ys <;> rfl
  | cons x xs ih =>
    cases As with
    | nil => cases ys <;> rfl
    | cons A As =>
      cases ys with
      | nil => rfl
      | cons y ys =>
        simp only [bilSweep, foldFwdA]
        rw [ih]
        rfl

theorem kl_foldFwdA_append (xl Al yl xr Ar yr : List (Core α)) (P : Phi3 α)
    (hlx : xl.length = Al.length) (hly : yl.length = Al.length) :
    foldFwdA (xl ++ xr) (Al ++ Ar) (yl ++ yr) P = foldFwdA xr Ar yr (foldFwdA xl Al yl P) := by
  induction xl generalizing Al yl P with
  | nil =>
    match Al, yl, hlx, hly with
    | [], [], _, _ => rfl
  | cons x xl ih =>
    match Al, yl, hlx, hly with
    | A :: Al, y :: yl, hlx, hly =>
      simp only [List.cons_append, foldFwdA]
      exact ih Al yl _ (by simpa using hlx) (by simpa using hly)

omit [CommRing α] in
/-- a well-formed train split at a core: the left part chains into the core, the right part is
    well formed from the core's right rank -/
theorem kl_WF_split (xl : List (Core α)) (v : Core α) (xr : List (Core α)) (r : Nat)
    (h : WF (xl ++ v :: xr) r) : sw_Chained xl r v.r0 ∧ WF xr v.r1 := by
  induction xl generalizing r with
  | nil => exact ⟨h.1.symm, h.2⟩
  | cons x xl ih => exact ⟨⟨h.1, (ih x.r1 h.2).1⟩, (ih x.r1 h.2).2⟩

/-- testing the local operator against a core `v`: contracting the forward-updated `Phi` with the
    right `Phi` is the same as pairing `v` with `_local_product` applied to `u` -/
theorem kl_local_test (PL PR : Phi3 α) (v A u : Core α) :
    sumTo v.r1 (fun L => sumTo A.r1 (fun S => sumTo u.r1 (fun R =>
      phiFwdA PL v A u L S R * PR L S R))) =
    sumTo v.r0 (fun l => sumTo A.m (fun m => sumTo v.r1 (fun L =>
      v.get l m 0 L * localProduct PL PR A u l m L))) := by
  simp only [phiFwdA, localProduct]
  simp only [← sumTo_mul_right, ← sumTo_mul_left]
  -- [L S R l s r M N] → [l M L s r N S R]
  rw [kl_sw2, kl_sw1, sumTo_comm]
  rw [kl_sw5, kl_sw4, kl_sw3, kl_sw2, kl_sw1]
  rw [kl_sw4, kl_sw3]
  rw [kl_sw5, kl_sw4]
  rw [kl_sw6, kl_sw5]
  refine sumTo_congr fun l _ => sumTo_congr fun m _ => sumTo_congr fun L _ =>
    sumTo_congr fun s _ => sumTo_congr fun r _ => sumTo_congr fun n _ =>
    sumTo_congr fun S _ => sumTo_congr fun R _ => ?_
  ring

/-- the sweep through the cores `v, A, u` and the right parts, started from an arbitrary left
    `Phi`, is the local operator tested against `v` -/
theorem kl_galerkin_A (PL : Phi3 α) (v A u : Core α) (xr Ar yr : List (Core α))
    (hx : WF xr v.r1) (hA : WF Ar A.r1) (hy : WF yr u.r1)
    (hlx : xr.length = Ar.length) (hly : yr.length = Ar.length) :
    foldFwdA (v :: xr) (A :: Ar) (u :: yr) PL 0 0 0 =
    sumTo v.r0 (fun l => sumTo A.m (fun m => sumTo v.r1 (fun L =>
      v.get l m 0 L * localProduct PL (foldBckA xr Ar yr ones3) A u l m L))) := by
  have hcx := sw_Chained_of_WF xr v.r1 hx
  have hcA := sw_Chained_of_WF Ar A.r1 hA
  have hcy := sw_Chained_of_WF yr u.r1 hy
  rw [← kl_local_test]
  simp only [foldFwdA]
  rw [kl_foldFwdA_inv xr Ar yr v.r1 A.r1 u.r1 1 1 1 _ 0 0 0 hcx hcA hcy hlx hly
    (by omega) (by omega) (by omega)]
  refine sumTo_congr fun L hL => sumTo_congr fun S hS => sumTo_congr fun R hR => ?_
  rw [kl_foldBckA_inv xr Ar yr v.r1 A.r1 u.r1 1 1 1 _ L S R hcx hcA hcy hlx hly hL hS hR]
  simp [sumTo_one, ones3]

/-! ### `⟨b, x⟩`: the right-hand side projections -/

/-- dense contraction of the sub-trains `bs, xs` between left rank indices `(b0, r)` and right rank
    indices `(B, R)`: `Σ_{is} bs(is)[b0,B] · xs(is)[r,R]` (index box: the modes of `bs`) -/
def kl_D (bs xs : List (Core α)) (b0 r B R : Nat) : α :=
  sumIdx (modesM bs) (fun is => chain bs (tIdx is) b0 B * chain xs (tIdx is) r R)

theorem kl_D_nil (b0 r B R : Nat) :
    kl_D ([] : List (Core α)) [] b0 r B R =
    (if b0 = B then 1 else 0) * (if r = R then 1 else 0) := rfl

theorem kl_D_cons (b x : Core α) (bs xs : List (Core α)) (b0 r B R : Nat) :
    kl_D (b :: bs) (x :: xs) b0 r B R =
    sumTo b.m (fun n => sumTo b.r1 (fun B' => sumTo x.r1 (fun R' =>
      (b.get b0 n 0 B' * x.get r n 0 R') * kl_D bs xs B' R' B R))) := by
  unfold kl_D
  rw [modesM_cons, sumIdx_cons]
  refine sumTo_congr fun n _ => ?_
  simp only [tIdx_cons, chain]
  rw [sw_sumIdx_congr (g := fun is => sumTo b.r1 (fun B' => sumTo x.r1 (fun R' =>
        (b.get b0 n 0 B' * x.get r n 0 R') *
          (chain bs (tIdx is) B' B * chain xs (tIdx is) R' R))))]
  · rw [sw_sumIdx_sumTo]
    refine sumTo_congr fun B' _ => ?_
    rw [sw_sumIdx_sumTo]
    refine sumTo_congr fun R' _ => ?_
    rw [sw_sumIdx_mul_left]
  · intro is
    rw [sumTo_mul_sumTo]
    refine sumTo_congr fun B' _ => sumTo_congr fun R' _ => ?_
    ring

theorem kl_foldFwdRhs_inv (bs xs : List (Core α)) (rb rx Lb Lx : Nat) (P : Phi2 α) (B R : Nat)
    (hb : sw_Chained bs rb Lb) (hx : sw_Chained xs rx Lx) (hlen : xs.length = bs.length)
    (hB : B < Lb) (hR : R < Lx) :
    foldFwdRhs bs xs P B R =
    sumTo rb (fun b0 => sumTo rx (fun r => P b0 r * kl_D bs xs b0 r B R)) := by
  induction bs generalizing xs rb rx P with
  | nil =>
    match xs, hlen with
    | [], _ =>
      have e1 : rb = Lb := hb
      have e2 : rx = Lx := hx
      subst e1 e2
      simp only [foldFwdRhs, kl_D_nil]
      rw [kl_delta2 _ _ _ B R hB hR]
  | cons b bs ih =>
    match xs, hlen with
    | x :: xs, hlen =>
      obtain ⟨hb0, hb'⟩ := hb
      obtain ⟨hx0, hx'⟩ := hx
      have hlen' : xs.length = bs.length := by simpa using hlen
      simp only [foldFwdRhs]
      rw [ih xs b.r1 x.r1 _ hb' hx' hlen']
      subst hb0 hx0
      simp only [kl_D_cons, phiFwdRhs]
      simp only [← sumTo_mul_right, ← sumTo_mul_left]
      rw [kl_comm_2_3]
      refine sumTo_congr fun b0 _ => sumTo_congr fun r _ => sumTo_congr fun n _ =>
        sumTo_congr fun B' _ => sumTo_congr fun R' _ => ?_
      ring

theorem kl_foldBckRhs_inv (bs xs : List (Core α)) (rb rx Lb Lx : Nat) (P : Phi2 α) (b0 r : Nat)
    (hb : sw_Chained bs rb Lb) (hx : sw_Chained xs rx Lx) (hlen : xs.length = bs.length)
    (hb0 : b0 < rb) (hr : r < rx) :
    foldBckRhs bs xs P b0 r =
    sumTo Lb (fun B => sumTo Lx (fun R => P B R * kl_D bs xs b0 r B R)) := by
  induction bs generalizing xs rb rx b0 r with
  | nil =>
    match xs, hlen with
    | [], _ =>
      have e1 : rb = Lb := hb
      have e2 : rx = Lx := hx
      subst e1 e2
      simp only [foldBckRhs, kl_D_nil]
      have := kl_delta2 rb rx P b0 r hb0 hr
      rw [← this]
      refine sumTo_congr fun B _ => sumTo_congr fun R _ => ?_
      simp only [eq_comm]
  | cons b bs ih =>
    match xs, hlen with
    | x :: xs, hlen =>
      obtain ⟨hb0', hb'⟩ := hb
      obtain ⟨hx0, hx'⟩ := hx
      have hlen' : xs.length = bs.length := by simpa using hlen
      have IH : ∀ B', B' < b.r1 → ∀ R', R' < x.r1 →
          foldBckRhs bs xs P B' R' =
          sumTo Lb (fun B => sumTo Lx (fun R => P B R * kl_D bs xs B' R' B R)) :=
        fun B' hB' R' hR' => ih xs b.r1 x.r1 B' R' hb' hx' hlen' hB' hR'
      simp only [foldBckRhs, phiBckRhs]
      rw [sumTo_congr (fun B' hB' => sumTo_congr (fun R' hR' => by rw [IH B' hB' R' hR']))]
      simp only [kl_D_cons]
      simp only [← sumTo_mul_right, ← sumTo_mul_left]
      rw [kl_comm_2_1]
      conv_rhs => rw [kl_comm_2_3]
      refine sumTo_congr fun n _ => sumTo_congr fun B' _ => sumTo_congr fun R' _ =>
        sumTo_congr fun B _ => sumTo_congr fun R _ => ?_
      ring

theorem kl_foldFwdRhs_append (bl xl br xr : List (Core α)) (P : Phi2 α)
    (hlen : xl.length = bl.length) :
    foldFwdRhs (bl ++ br) (xl ++ xr) P = foldFwdRhs br xr (foldFwdRhs bl xl P) := by
  induction bl generalizing xl P with
  | nil =>
    match xl, hlen with
    | [], _ => rfl
  | cons b bl ih =>
    match xl, hlen with
    | x :: xl, hlen =>
      simp only [List.cons_append, foldFwdRhs]
      exact ih xl _ (by simpa using hlen)

/-- pairing the forward-updated right-hand-side `Phi` with the right `Phi` is pairing the core `v`
    with the local right-hand side -/
theorem kl_rhs_test (PL PR : Phi2 α) (b v : Core α) :
    sumTo b.r1 (fun B => sumTo v.r1 (fun R => phiFwdRhs PL b v B R * PR B R)) =
    sumTo v.r0 (fun r => sumTo b.m (fun m => sumTo v.r1 (fun R =>
      v.get r m 0 R * localRhs PL PR b r m R))) := by
  simp only [phiFwdRhs, localRhs]
  simp only [← sumTo_mul_right, ← sumTo_mul_left]
  -- [B R b0 r n] → [r n R b0 B]
  rw [kl_sw2, kl_sw1, sumTo_comm]
  rw [kl_sw3, kl_sw2, kl_sw1]
  rw [kl_sw2]
  rw [kl_sw3]
  refine sumTo_congr fun r _ => sumTo_congr fun m _ => sumTo_congr fun R _ =>
    sumTo_congr fun b0 _ => sumTo_congr fun B _ => ?_
  ring

theorem kl_galerkin_rhs (PL : Phi2 α) (b v : Core α) (br xr : List (Core α))
    (hb : WF br b.r1) (hx : WF xr v.r1) (hlen : xr.length = br.length) :
    foldFwdRhs (b :: br) (v :: xr) PL 0 0 =
    sumTo v.r0 (fun r => sumTo b.m (fun m => sumTo v.r1 (fun R =>
      v.get r m 0 R * localRhs PL (foldBckRhs br xr ones2) b r m R))) := by
  have hcb := sw_Chained_of_WF br b.r1 hb
  have hcx := sw_Chained_of_WF xr v.r1 hx
  rw [← kl_rhs_test]
  simp only [foldFwdRhs]
  rw [kl_foldFwdRhs_inv br xr b.r1 v.r1 1 1 _ 0 0 hcb hcx hlen (by omega) (by omega)]
  refine sumTo_congr fun B hB => sumTo_congr fun R hR => ?_
  rw [kl_foldBckRhs_inv br xr b.r1 v.r1 1 1 _ B R hcb hcx hlen hB hR]
  simp [sumTo_one, ones2]

/-- for tensor trains `bs` the Gram sweep of `dot` is the forward right-hand-side fold -/
theorem kl_gramSweep_id (bs xs : List (Core α)) (G : Phi2 α) (ht : IsTensor bs) :
    gramSweep id bs xs G = foldFwdRhs bs xs G := by
  induction bs generalizing xs G with
  | nil => cases xs <;> rfl
  | cons b bs ih =>
    cases xs with
    | nil => rfl
    | cons x xs =>
      obtain ⟨hn, ht'⟩ := ht
      simp only [gramSweep, foldFwdRhs]
      rw [ih xs _ ht']
      congr 1
      funext B R
      simp only [phiFwdRhs, hn, sumTo_one, id]

/-! ### `⟨X, A B⟩`: the AMEn matrix product -/

/-- triple multi-index sum: rows `is`, contracted `kk`, columns `js` -/
def kl_S3 (ms ks ns : List Nat) (f : List Nat → List Nat → List Nat → α) : α :=
  sumIdx ms (fun is => sumIdx ks (fun kk => sumIdx ns (fun js => f is kk js)))

theorem kl_S3_congr (ms ks ns : List Nat) {f g : List Nat → List Nat → List Nat → α}
    (h : ∀ is kk js, f is kk js = g is kk js) : kl_S3 ms ks ns f = kl_S3 ms ks ns g := by
  have : f = g := funext fun is => funext fun kk => funext (h is kk)
  rw [this]

theorem kl_S3_sumTo (ms ks ns : List Nat) (n : Nat) (f : List Nat → List Nat → List Nat → Nat → α) :
    kl_S3 ms ks ns (fun is kk js => sumTo n (fun k => f is kk js k)) =
    sumTo n (fun k => kl_S3 ms ks ns (fun is kk js => f is kk js k)) := by
  simp only [kl_S3]
  rw [← sw_sumIdx_sumTo]
  apply sw_sumIdx_congr; intro is
  exact sw_S2_sumTo ks ns n (fun kk js k => f is kk js k)

theorem kl_S3_mul_left (ms ks ns : List Nat) (c : α) (f : List Nat → List Nat → List Nat → α) :
    kl_S3 ms ks ns (fun is kk js => c * f is kk js) = c * kl_S3 ms ks ns f := by
  simp only [kl_S3]
  rw [← sw_sumIdx_mul_left]
  apply sw_sumIdx_congr; intro is
  exact sw_S2_mul_left ks ns c (fun kk js => f is kk js)

theorem kl_S3_cons (m k n : Nat) (ms ks ns : List Nat) (f : List Nat → List Nat → List Nat → α) :
    kl_S3 (m :: ms) (k :: ks) (n :: ns) f =
    sumTo m (fun i => sumTo k (fun p => sumTo n (fun j =>
      kl_S3 ms ks ns (fun is kk js => f (i :: is) (p :: kk) (j :: js))))) := by
  simp only [kl_S3, sumIdx]
  refine sumTo_congr fun i _ => ?_
  rw [sw_sumIdx_sumTo ms k (fun is p => sumIdx ks (fun kk => sumTo n (fun j =>
    sumIdx ns (fun js => f (i :: is) (p :: kk) (j :: js)))))]
  refine sumTo_congr fun p _ => ?_
  exact sw_S2_sumTo ms ks n (fun is kk j => sumIdx ns (fun js => f (i :: is) (p :: kk) (j :: js)))

/-- dense contraction `Σ_{is, kk, js} As(is,kk)[a,A'] · Bs(kk,js)[b,B'] · Xs(is,js)[r,R]` of three
    operator sub-trains between arbitrary rank indices -/
def kl_T (As Bs Xs : List (Core α)) (r a b R A' B' : Nat) : α :=
  kl_S3 (modesM As) (modesN As) (modesN Bs)
    (fun is kk js => chain As (is.zip kk) a A' * chain Bs (kk.zip js) b B' * chain Xs (is.zip js) r R)

theorem kl_T_nil (r a b R A' B' : Nat) :
    kl_T ([] : List (Core α)) [] [] r a b R A' B' =
    (if a = A' then 1 else 0) * (if b = B' then 1 else 0) * (if r = R then 1 else 0) := rfl

theorem kl_T_cons (A B X : Core α) (As Bs Xs : List (Core α)) (r a b R A' B' : Nat) :
    kl_T (A :: As) (B :: Bs) (X :: Xs) r a b R A' B' =
    sumTo A.m (fun m => sumTo A.n (fun k => sumTo B.n (fun n =>
      sumTo X.r1 (fun R1 => sumTo A.r1 (fun A1 => sumTo B.r1 (fun B1 =>
        (A.get a m k A1 * B.get b k n B1 * X.get r m n R1) *
          kl_T As Bs Xs R1 A1 B1 R A' B')))))) := by
  unfold kl_T
  simp only [modesM, modesN, List.map_cons]
  rw [kl_S3_cons]
  refine sumTo_congr fun m _ => sumTo_congr fun k _ => sumTo_congr fun n _ => ?_
  simp only [List.zip_cons_cons, chain]
  rw [kl_S3_congr (g := fun is kk js => sumTo X.r1 (fun R1 => sumTo A.r1 (fun A1 =>
        sumTo B.r1 (fun B1 =>
          (A.get a m k A1 * B.get b k n B1 * X.get r m n R1) *
            (chain As (is.zip kk) A1 A' * chain Bs (kk.zip js) B1 B' *
              chain Xs (is.zip js) R1 R)))))]
  · rw [kl_S3_sumTo]
    refine sumTo_congr fun R1 _ => ?_
    rw [kl_S3_sumTo]
    refine sumTo_congr fun A1 _ => ?_
    rw [kl_S3_sumTo]
    refine sumTo_congr fun B1 _ => ?_
    rw [kl_S3_mul_left]
  · intro is kk js
    rw [mul_comm, sumTo_mul_sumTo A.r1 B.r1, sumTo_mul_sumTo X.r1 A.r1]
    refine sumTo_congr fun R1 _ => sumTo_congr fun A1 _ => ?_
    rw [← sumTo_mul_left]
    refine sumTo_congr fun B1 _ => ?_
    ring

theorem kl_foldFwdAB_inv (As Bs Xs : List (Core α)) (rA rB rX LA LB LX : Nat) (P : Phi3 α)
    (R A' B' : Nat)
    (hA : sw_Chained As rA LA) (hB : sw_Chained Bs rB LB) (hX : sw_Chained Xs rX LX)
    (hlB : Bs.length = As.length) (hlX : Xs.length = As.length)
    (hR : R < LX) (hA' : A' < LA) (hB' : B' < LB) :
    foldFwdAB As Bs Xs P R A' B' =
    sumTo rX (fun r => sumTo rA (fun a => sumTo rB (fun b =>
      P r a b * kl_T As Bs Xs r a b R A' B'))) := by
  induction As generalizing Bs Xs rA rB rX P with
  | nil =>
    match Bs, Xs, hlB, hlX with
    | [], [], _, _ =>
      have e1 : rA = LA := hA
      have e2 : rB = LB := hB
      have e3 : rX = LX := hX
      subst e1 e2 e3
      simp only [foldFwdAB, kl_T_nil]
      rw [← kl_delta3 rX rA rB P R A' B' hR hA' hB']
      refine sumTo_congr fun r _ => sumTo_congr fun a _ => sumTo_congr fun b _ => ?_
      ring
  | cons A As ih =>
    match Bs, Xs, hlB, hlX with
    | B :: Bs, X :: Xs, hlB, hlX =>
      obtain ⟨hA0, hAc⟩ := hA
      obtain ⟨hB0, hBc⟩ := hB
      obtain ⟨hX0, hXc⟩ := hX
      have hlB' : Bs.length = As.length := by simpa using hlB
      have hlX' : Xs.length = As.length := by simpa using hlX
      simp only [foldFwdAB]
      rw [ih Bs Xs A.r1 B.r1 X.r1 _ hAc hBc hXc hlB' hlX']
      subst hA0 hB0 hX0
      simp only [kl_T_cons, phiFwdAB]
      simp only [← sumTo_mul_right, ← sumTo_mul_left]
      rw [kl_comm_3_6]
      refine sumTo_congr fun r _ => sumTo_congr fun a _ => sumTo_congr fun b _ =>
        sumTo_congr fun m _ => sumTo_congr fun k _ => sumTo_congr fun n _ =>
        sumTo_congr fun R1 _ => sumTo_congr fun A1 _ => sumTo_congr fun B1 _ => ?_
      ring

theorem kl_foldBckAB_inv (As Bs Xs : List (Core α)) (rA rB rX LA LB LX : Nat) (P : Phi3 α)
    (r a b : Nat)
    (hA : sw_Chained As rA LA) (hB : sw_Chained Bs rB LB) (hX : sw_Chained Xs rX LX)
    (hlB : Bs.length = As.length) (hlX : Xs.length = As.length)
    (hr : r < rX) (ha : a < rA) (hb : b < rB) :
    foldBckAB As Bs Xs P r a b =
    sumTo LX (fun R => sumTo LA (fun A' => sumTo LB (fun B' =>
      P R A' B' * kl_T As Bs Xs r a b R A' B'))) := by
  induction As generalizing Bs Xs rA rB rX r a b with
  | nil =>
    match Bs, Xs, hlB, hlX with
    | [], [], _, _ =>
      have e1 : rA = LA := hA
      have e2 : rB = LB := hB
      have e3 : rX = LX := hX
      subst e1 e2 e3
      simp only [foldBckAB, kl_T_nil]
      rw [← kl_delta3 rX rA rB P r a b hr ha hb]
      refine sumTo_congr fun R _ => sumTo_congr fun A' _ => sumTo_congr fun B' _ => ?_
      simp only [eq_comm (a := a), eq_comm (a := b), eq_comm (a := r)]
      ring
  | cons A As ih =>
    match Bs, Xs, hlB, hlX with
    | B :: Bs, X :: Xs, hlB, hlX =>
      obtain ⟨hA0, hAc⟩ := hA
      obtain ⟨hB0, hBc⟩ := hB
      obtain ⟨hX0, hXc⟩ := hX
      have hlB' : Bs.length = As.length := by simpa using hlB
      have hlX' : Xs.length = As.length := by simpa using hlX
      have IH : ∀ R1, R1 < X.r1 → ∀ A1, A1 < A.r1 → ∀ B1, B1 < B.r1 →
          foldBckAB As Bs Xs P R1 A1 B1 =
          sumTo LX (fun R => sumTo LA (fun A' => sumTo LB (fun B' =>
            P R A' B' * kl_T As Bs Xs R1 A1 B1 R A' B'))) :=
        fun R1 hR1 A1 hA1 B1 hB1 =>
          ih Bs Xs A.r1 B.r1 X.r1 R1 A1 B1 hAc hBc hXc hlB' hlX' hR1 hA1 hB1
      simp only [foldBckAB, phiBckAB]
      rw [sumTo_congr (fun R1 hR1 => sumTo_congr (fun A1 hA1 => sumTo_congr (fun B1 hB1 => by
        rw [IH R1 hR1 A1 hA1 B1 hB1])))]
      simp only [kl_T_cons]
      simp only [← sumTo_mul_right, ← sumTo_mul_left]
      rw [kl_comm_3_3]
      conv_rhs => rw [kl_comm_3_6]
      refine sumTo_congr fun m _ => sumTo_congr fun k _ => sumTo_congr fun n _ =>
        sumTo_congr fun R1 _ => sumTo_congr fun A1 _ => sumTo_congr fun B1 _ =>
        sumTo_congr fun R _ => sumTo_congr fun A' _ => sumTo_congr fun B' _ => ?_
      ring

theorem kl_foldFwdAB_append (Al Bl Xl Ar Br Xr : List (Core α)) (P : Phi3 α)
    (hlB : Bl.length = Al.length) (hlX : Xl.length = Al.length) :
    foldFwdAB (Al ++ Ar) (Bl ++ Br) (Xl ++ Xr) P = foldFwdAB Ar Br Xr (foldFwdAB Al Bl Xl P) := by
  induction Al generalizing Bl Xl P with
  | nil =>
    match Bl, Xl, hlB, hlX with
    | [], [], _, _ => rfl
  | cons A Al ih =>
    match Bl, Xl, hlB, hlX with
    | B :: Bl, X :: Xl, hlB, hlX =>
      simp only [List.cons_append, foldFwdAB]
      exact ih Bl Xl _ (by simpa using hlB) (by simpa using hlX)

/-- the trilinear form `⟨X, A B⟩ = Σ_{i,j} X[i,j] · (A B)[i,j]` as the code's own left-to-right
    recursion: the fold of `_compute_phi_fwd_AB` over the whole trains, started from `ones` -/
def abxSweep (As Bs Xs : List (Core α)) : α := foldFwdAB As Bs Xs ones3 0 0 0

/-- pairing the forward-updated `Phi` with the right `Phi` is pairing the core `V` with `_local_AB` -/
theorem kl_AB_test (PL PR : Phi3 α) (A B V : Core α) :
    sumTo V.r1 (fun R => sumTo A.r1 (fun A' => sumTo B.r1 (fun B' =>
      phiFwdAB PL A B V R A' B' * PR R A' B'))) =
    sumTo V.r0 (fun r => sumTo A.m (fun m => sumTo B.n (fun n => sumTo V.r1 (fun R =>
      V.get r m n R * localAB PL PR A B r m n R)))) := by
  simp only [phiFwdAB, localAB]
  simp only [← sumTo_mul_right, ← sumTo_mul_left]
  -- [R A' B' r a b m k n] → [r m n R a b k A' B']
  rw [kl_sw2, kl_sw1, sumTo_comm]
  refine sumTo_congr fun r _ => ?_
  rw [kl_sw4, kl_sw3, kl_sw2, kl_sw1, sumTo_comm]
  refine sumTo_congr fun m _ => ?_
  rw [kl_sw5, kl_sw4, kl_sw3, kl_sw2, kl_sw1, sumTo_comm]
  refine sumTo_congr fun n _ => sumTo_congr fun R _ => ?_
  rw [kl_comm_2_3]
  refine sumTo_congr fun a _ => sumTo_congr fun b _ => sumTo_congr fun k _ =>
    sumTo_congr fun A' _ => sumTo_congr fun B' _ => ?_
  ring

theorem kl_galerkin_AB (PL : Phi3 α) (A B V : Core α) (Ar Br Xr : List (Core α))
    (hA : WF Ar A.r1) (hB : WF Br B.r1) (hX : WF Xr V.r1)
    (hlB : Br.length = Ar.length) (hlX : Xr.length = Ar.length) :
    foldFwdAB (A :: Ar) (B :: Br) (V :: Xr) PL 0 0 0 =
    sumTo V.r0 (fun r => sumTo A.m (fun m => sumTo B.n (fun n => sumTo V.r1 (fun R =>
      V.get r m n R * localAB PL (foldBckAB Ar Br Xr ones3) A B r m n R)))) := by
  have hcA := sw_Chained_of_WF Ar A.r1 hA
  have hcB := sw_Chained_of_WF Br B.r1 hB
  have hcX := sw_Chained_of_WF Xr V.r1 hX
  rw [← kl_AB_test]
  simp only [foldFwdAB]
  rw [kl_foldFwdAB_inv Ar Br Xr A.r1 B.r1 V.r1 1 1 1 _ 0 0 0 hcA hcB hcX hlB hlX
    (by omega) (by omega) (by omega)]
  refine sumTo_congr fun R hR => sumTo_congr fun A' hA' => sumTo_congr fun B' hB' => ?_
  rw [kl_foldBckAB_inv Ar Br Xr A.r1 B.r1 V.r1 1 1 1 _ R A' B' hcA hcB hcX hlB hlX hR hA' hB']
  simp [sumTo_one, ones3]

/-- the full trilinear sweep is the dense `Σ_{is,js} X[is,js] · Σ_{ks} A[is,ks] · B[ks,js]` -/
theorem kl_abx_dense (As Bs Xs : List (Core α)) (hA : WF As 1) (hB : WF Bs 1) (hX : WF Xs 1)
    (hlB : Bs.length = As.length) (hlX : Xs.length = As.length) :
    abxSweep As Bs Xs =
    sumIdx (modesM As) (fun is => sumIdx (modesN Bs) (fun js =>
      full Xs (is.zip js) *
        sumIdx (modesN As) (fun ks => full As (is.zip ks) * full Bs (ks.zip js)))) := by
  unfold abxSweep
  rw [kl_foldFwdAB_inv As Bs Xs 1 1 1 1 1 1 _ 0 0 0 (sw_Chained_of_WF As 1 hA)
    (sw_Chained_of_WF Bs 1 hB) (sw_Chained_of_WF Xs 1 hX) hlB hlX (by omega) (by omega) (by omega)]
  simp only [sumTo_one, ones3, one_mul, kl_T, kl_S3, full]
  apply sw_sumIdx_congr; intro is
  rw [sumIdx_comm]
  apply sw_sumIdx_congr; intro js
  rw [← sumIdx_mul_left]
  apply sw_sumIdx_congr; intro ks
  ring

/-! ### `_LinearOp.matvec` versus `_local_product` -/

theorem kl_linop (PL PR : Phi3 α) (A u : Core α) (l m L : Nat) :
    linopMatvec PL PR A u l m L = localProduct PL PR A u l m L := by
  simp only [linopMatvec, localProduct]
  simp only [← sumTo_mul_right]
  -- [R S n s r] → [s r n S R]
  rw [kl_sw2, kl_sw1, sumTo_comm]
  rw [kl_sw3, kl_sw2, kl_sw1]
  rw [kl_sw3, kl_sw2]
  rw [kl_sw3]
  refine sumTo_congr fun s _ => sumTo_congr fun r _ => sumTo_congr fun n _ =>
    sumTo_congr fun S _ => sumTo_congr fun R _ => ?_
  ring

/-! ### concrete order-3 trains for the non-vacuity examples of C11 / C12 -/

/-- tensor train, modes 2,3,2, ranks 1,2,2,1 (the test side `x`) -/
def kl_x0 : Core Int := ⟨1, 2, 1, 2, fun _ i _ b => (i + b : Int)⟩
def kl_x1 : Core Int := ⟨2, 3, 1, 2, fun a i _ b => (a * i + b - 1 : Int)⟩
def kl_x2 : Core Int := ⟨2, 2, 1, 1, fun a i _ _ => (a + 2 * i : Int)⟩
/-- operator train, row modes 2,3,2, column modes 3,2,2, ranks 1,2,3,1 -/
def kl_A0 : Core Int := ⟨1, 2, 3, 2, fun _ i j b => (i + 2 * j + b : Int)⟩
def kl_A1 : Core Int := ⟨2, 3, 2, 3, fun a i j b => (a * i - j + b : Int)⟩
def kl_A2 : Core Int := ⟨3, 2, 2, 1, fun a i j _ => (a + i * j - 1 : Int)⟩
/-- tensor train, modes 3,2,2, ranks 1,3,2,1 (the solution side `y`) -/
def kl_y0 : Core Int := ⟨1, 3, 1, 3, fun _ i _ b => (i * b + 1 : Int)⟩
def kl_y1 : Core Int := ⟨3, 2, 1, 2, fun a i _ b => (a + i - b : Int)⟩
def kl_y2 : Core Int := ⟨2, 2, 1, 1, fun a i _ _ => (2 * a + i : Int)⟩
/-- tensor train, modes 2,3,2, ranks 1,3,2,1 (the right-hand side `b`) -/
def kl_b0 : Core Int := ⟨1, 2, 1, 3, fun _ i _ b => (i - b : Int)⟩
def kl_b1 : Core Int := ⟨3, 3, 1, 2, fun a i _ b => (a + i * b : Int)⟩
def kl_b2 : Core Int := ⟨2, 2, 1, 1, fun a i _ _ => (a - i + 1 : Int)⟩
/-- operator train, row modes 3,2,2, column modes 2,2,3, ranks 1,2,2,1 (the factor `B`) -/
def kl_B0 : Core Int := ⟨1, 3, 2, 2, fun _ i j b => (i - j + b : Int)⟩
def kl_B1 : Core Int := ⟨2, 2, 2, 2, fun a i j b => (a + i * j - b : Int)⟩
def kl_B2 : Core Int := ⟨2, 2, 3, 1, fun a i j _ => (a * j + i : Int)⟩
/-- operator train, row modes 2,3,2, column modes 2,2,3, ranks 1,2,3,1 (the product iterate `X`) -/
def kl_X0 : Core Int := ⟨1, 2, 2, 2, fun _ i j b => (i + j - b : Int)⟩
def kl_X1 : Core Int := ⟨2, 3, 2, 3, fun a i j b => (a - i + j * b : Int)⟩
def kl_X2 : Core Int := ⟨3, 2, 3, 1, fun a i j _ => (a + i - j : Int)⟩

end TT
