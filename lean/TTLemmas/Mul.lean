import TTModel.Algebra
import TTLemmas.Sum

/-! Kronecker-index lemma behind the elementwise product. -/
namespace TT
open Finset
variable {α : Type} [CommRing α]

theorem chain_mul (xs ys : List (Core α)) (ij : List (Nat × Nat)) :
    ∀ (rx ry : Nat), WF xs rx → WF ys ry → xs.length = ys.length → ij.length = xs.length →
    ∀ a m, a < rx → m < ry →
      chain (mul xs ys) ij (a * ry + m) 0 = chain xs ij a 0 * chain ys ij m 0 := by
  induction xs generalizing ys ij with
  | nil =>
    intro rx ry hwx hwy hlen hil a m ha hm
    cases ys with
    | nil =>
      have : rx = 1 := hwx
      have : ry = 1 := hwy
      subst_vars
      have : a = 0 := by omega
      have : m = 0 := by omega
      subst_vars
      simp [mul, chain]
    | cons _ _ => simp at hlen
  | cons x xs ih =>
    intro rx ry hwx hwy hlen hil a m ha hm
    match ys, ij, hlen, hil with
    | y :: ys, i :: is, hlen, hil =>
      obtain ⟨hx0, hwx'⟩ := hwx
      obtain ⟨hy0, hwy'⟩ := hwy
      have hlen' : xs.length = ys.length := by simpa using hlen
      have hil' : is.length = xs.length := by simpa using hil
      have IH := ih ys is x.r1 y.r1 hwx' hwy' hlen' hil'
      simp only [mul, chain]
      show sumTo (x.r1 * y.r1) _ = _
      rw [sumTo_mul, sumTo_mul_sumTo]
      apply sumTo_congr; intro k hk
      apply sumTo_congr; intro j hj
      rw [IH k j hk hj]
      subst hy0
      simp only [mulCore, merge_div hm, merge_mod hm, merge_div hj, merge_mod hj]
      ring

theorem full_mul_gen (xs ys : List (Core α)) (ij : List (Nat × Nat))
    (hwx : WF xs 1) (hwy : WF ys 1) (hlen : xs.length = ys.length) (hil : ij.length = xs.length) :
    full (mul xs ys) ij = full xs ij * full ys ij := by
  have := chain_mul xs ys ij 1 1 hwx hwy hlen hil 0 0 (by omega) (by omega)
  simpa [full] using this

end TT
