import TTModel.Shape

/-!
# Helper lemmas for the structural model `TTModel/Shape.lean` (C05, C19)

`chainP p a l b`: `l` is a train of core shapes, each satisfying `p`, whose left rank is `a`,
whose neighbouring ranks agree, and whose right rank is `b`.
-/
namespace TT.Shape

/-- right rank of a core shape -/
abbrev lastR (s : List Nat) : Nat := s.getLastD 0

def chainP (p : List Nat → Prop) : Nat → List (List Nat) → Nat → Prop
  | a, [], b => a = b
  | a, s :: l, b => p s ∧ s.headD 0 = a ∧ chainP p (s.getLastD 0) l b

theorem chainP_append (p : List Nat → Prop) (l1 l2 : List (List Nat)) (a b : Nat) :
    chainP p a (l1 ++ l2) b ↔ ∃ m, chainP p a l1 m ∧ chainP p m l2 b := by
  induction l1 generalizing a with
  | nil => simp [chainP]
  | cons s l ih =>
    simp only [List.cons_append, chainP, ih]
    constructor
    · rintro ⟨h1, h2, m, h3, h4⟩; exact ⟨m, ⟨h1, h2, h3⟩, h4⟩
    · rintro ⟨m, ⟨h1, h2, h3⟩, h4⟩; exact ⟨h1, h2, m, h3, h4⟩

theorem chainP_mono {p q : List Nat → Prop} {l : List (List Nat)} {a b : Nat}
    (hpq : ∀ s ∈ l, p s → q s) (h : chainP p a l b) : chainP q a l b := by
  induction l generalizing a with
  | nil => exact h
  | cons s l ih =>
    obtain ⟨h1, h2, h3⟩ := h
    exact ⟨hpq s (by simp) h1, h2, ih (fun t ht => hpq t (by simp [ht])) h3⟩

theorem chainP_all {p : List Nat → Prop} {l : List (List Nat)} {a b : Nat}
    (h : chainP p a l b) : ∀ s ∈ l, p s := by
  induction l generalizing a with
  | nil => simp
  | cons s l ih =>
    obtain ⟨h1, _, h3⟩ := h
    intro t ht
    rcases List.mem_cons.1 ht with rfl | ht
    · exact h1
    · exact ih h3 t ht

/-- the right end of a chain is the last right rank -/
theorem chainP_last {p : List Nat → Prop} {l : List (List Nat)} {a b : Nat}
    (h : chainP p a l b) : (l.map lastR).getLastD a = b := by
  induction l generalizing a with
  | nil => exact h
  | cons s l ih =>
    obtain ⟨_, _, h3⟩ := h
    rw [List.map_cons, List.getLastD_cons]; exact ih h3

/-- `chainP` in terms of the Boolean pieces used by `wfB` -/
theorem chainP_cons_iff (p : List Nat → Prop) (c : List Nat) (rest : List (List Nat)) (a b : Nat) :
    chainP p a (c :: rest) b ↔
      (∀ s ∈ c :: rest, p s) ∧ chainsB (c :: rest) = true ∧ c.headD 0 = a ∧
        (rest.map lastR).getLastD (c.getLastD 0) = b := by
  induction rest generalizing c a with
  | nil => simp [chainP, chainsB]
  | cons c2 rest ih =>
    simp only [chainP] at ih ⊢
    rw [ih]
    simp only [chainsB, List.map_cons, List.getLastD_cons, List.mem_cons, Bool.and_eq_true,
      beq_iff_eq, forall_eq_or_imp]
    constructor
    · rintro ⟨h1, h2, ⟨h3, h4⟩, h5, h6, h7⟩; exact ⟨⟨h1, h3, h4⟩, ⟨h6.symm, h5⟩, h2, h7⟩
    · rintro ⟨⟨h1, h3, h4⟩, ⟨h6, h5⟩, h2, h7⟩; exact ⟨h1, h2, ⟨h3, h4⟩, h5, h6.symm, h7⟩


/-- number of dimensions of a core of a tensor (3) / operator (4) -/
def dimOf (ttm : Bool) : Nat := if ttm then 4 else 3

abbrev lenIs (d : Nat) (s : List Nat) : Prop := s.length = d

/-- the structural part of `wfB` -/
def structP (ttm : Bool) (cs : List (List Nat)) : Prop :=
  cs ≠ [] ∧ chainP (lenIs (dimOf ttm)) 1 cs 1

theorem wfB_iff (o : Obj) :
    wfB o = true ↔
      structP o.isTTM o.cores ∧ o.R = ranksOf o.cores ∧ o.N = modesNOf o.isTTM o.cores ∧
        o.M = (if o.isTTM then modesMOf o.cores else []) ∧ o.shape = shapeOf o.isTTM o.M o.N := by
  obtain ⟨cores, N, M, R, shape, ttm⟩ := o
  cases cores with
  | nil => simp [wfB, structP]
  | cons c rest =>
    cases ttm <;>
    simp only [structP, chainP_cons_iff, wfB, ranksOf, List.map_cons, List.getLastD_cons,
      List.headD_cons, Bool.and_eq_true, beq_iff_eq, decide_eq_true_eq, dimOf, lenIs,
      List.all_eq_true, and_assoc, if_true, if_false, Bool.false_eq_true, ne_eq, reduceCtorEq,
      not_false_eq_true, true_and]


/-! ### the constructor loop -/

abbrev len34 (s : List Nat) : Prop := s.length = 3 ∨ s.length = 4
def modeN34 (s : List Nat) : Nat := if s.length = 4 then s.getD 2 0 else s.getD 1 0

theorem ctorLoop_spec (rest : List (List Nat)) (N M R N' M' R' : List Nat)
    (h : ctorLoop rest N M R = .ok (N', M', R')) :
    N' = N ++ rest.map modeN34 ∧
    M' = M ++ (rest.filter (fun s => s.length == 4)).map (fun s => s.getD 1 0) ∧
    R' = R ++ rest.map lastR ∧
    chainP len34 (R.getLastD 0) rest ((rest.map lastR).getLastD (R.getLastD 0)) := by
  induction rest generalizing N M R with
  | nil =>
    simp only [ctorLoop, Except.ok.injEq, Prod.mk.injEq] at h
    obtain ⟨rfl, rfl, rfl⟩ := h
    simp [chainP]
  | cons s rest ih =>
    unfold ctorLoop at h
    split at h
    · cases h
    · rename_i s0 tl
      split at h
      · cases h
      · rename_i hs0
        split at h
        · rename_i x0 n r heq
          obtain ⟨h1, h2, h3, h4⟩ := ih _ _ _ h
          rw [heq]
          have e : s0 = x0 := by injection heq
          subst e
          refine ⟨?_, ?_, ?_, ?_⟩
          · simp [h1, modeN34]
          · simp [h2]
          · simp [h3, lastR]
          · simp only [chainP, List.map_cons, List.getLastD_cons]
            rw [List.getLastD_concat] at h4
            refine ⟨Or.inl rfl, ?_, ?_⟩
            · simpa using hs0
            · simpa [lastR] using h4
        · rename_i x0 m n r heq
          obtain ⟨h1, h2, h3, h4⟩ := ih _ _ _ h
          rw [heq]
          have e : s0 = x0 := by injection heq
          subst e
          refine ⟨?_, ?_, ?_, ?_⟩
          · simp [h1, modeN34]
          · simp [h2]
          · simp [h3, lastR]
          · simp only [chainP, List.map_cons, List.getLastD_cons]
            rw [List.getLastD_concat] at h4
            refine ⟨Or.inr rfl, ?_, ?_⟩
            · simpa using hs0
            · simpa [lastR] using h4
        · cases h


theorem ctorLoop_of_chain3 (rest : List (List Nat)) (N M R : List Nat) (a b : Nat)
    (h : chainP (lenIs 3) a rest b) (hR : R.getLastD 0 = a) :
    ctorLoop rest N M R = .ok (N ++ rest.map (fun s => s.getD 1 0), M, R ++ rest.map lastR) := by
  induction rest generalizing N M R a with
  | nil => simp [ctorLoop]
  | cons s rest ih =>
    obtain ⟨hlen, hhead, hch⟩ := h
    match s, hlen, hhead, hch with
    | [x, n, r], _, hhead, hch =>
      simp only [List.headD_cons] at hhead
      subst hhead
      rw [ctorLoop]
      simp only [hR, ne_eq, not_true_eq_false, if_false]
      rw [ih (N ++ [n]) M (R ++ [r]) r hch (by simp)]
      simp [lastR]

theorem ctorLoop_of_chain4 (rest : List (List Nat)) (N M R : List Nat) (a b : Nat)
    (h : chainP (lenIs 4) a rest b) (hR : R.getLastD 0 = a) :
    ctorLoop rest N M R =
      .ok (N ++ rest.map (fun s => s.getD 2 0), M ++ rest.map (fun s => s.getD 1 0),
           R ++ rest.map lastR) := by
  induction rest generalizing N M R a with
  | nil => simp [ctorLoop]
  | cons s rest ih =>
    obtain ⟨hlen, hhead, hch⟩ := h
    match s, hlen, hhead, hch with
    | [x, m, n, r], _, hhead, hch =>
      simp only [List.headD_cons] at hhead
      subst hhead
      rw [ctorLoop]
      simp only [hR, ne_eq, not_true_eq_false, if_false]
      rw [ih (N ++ [n]) (M ++ [m]) (R ++ [r]) r hch (by simp)]
      simp [lastR]


/-- the final test of the constructor and the object it builds -/
theorem ctor_final (c : List Nat) (tl : List (List Nat)) (N M R : List Nat)
    (heq : ctorLoop (c :: tl) [] [] [c.headD 0] = .ok (N, M, R))
    (hcond : ¬(N.length ≠ (c :: tl).length ∨ R.length ≠ (c :: tl).length + 1 ∨ R.headD 0 ≠ 1 ∨
      R.getLastD 0 ≠ 1 ∨ (M.length ≠ 0 ∧ M.length ≠ N.length))) :
    wfB { cores := c :: tl, N := N, M := if (M.length == N.length) = true then M else [], R := R,
          shape := shapeOf (M.length == N.length) M N, isTTM := M.length == N.length } = true := by
  obtain ⟨hN, hM, hR, hch⟩ := ctorLoop_spec _ _ _ _ _ _ _ heq
  have hR' : R = ranksOf (c :: tl) := by rw [hR]; rfl
  have hh : c.headD 0 = 1 := by
    have : R.headD 0 = 1 := by omega
    rw [hR] at this; simpa using this
  have hl : ((c :: tl).map lastR).getLastD (c.headD 0) = 1 := by
    have : R.getLastD 0 = 1 := by omega
    rw [hR] at this
    rw [← this]; simp only [List.singleton_append, List.map_cons, List.getLastD_cons]
  simp only [List.getLastD_cons, List.getLastD_nil] at hch
  rw [hl, hh] at hch
  clear hl hR heq
  have hne : (c :: tl) ≠ [] := by simp
  generalize c :: tl = cs at *
  simp only [List.nil_append] at hN hM
  have hNl : N.length = cs.length := by simp [hN]
  have hcs : 0 < cs.length := List.length_pos_iff.2 hne
  rw [wfB_iff]
  by_cases hm : M.length = N.length
  · have hall : ∀ s ∈ cs, s.length = 4 := by
      rw [hM, hNl, List.length_map, List.length_filter_eq_length_iff] at hm
      simpa using hm
    have hf : cs.filter (fun s => s.length == 4) = cs := by
      rw [List.filter_eq_self]; simpa using hall
    simp only [hm, beq_self_eq_true, if_true]
    refine ⟨⟨hne, chainP_mono (fun s hs _ => hall s hs) hch⟩, hR', ?_, ?_, trivial⟩
    · rw [hN]; unfold modesNOf
      apply List.map_congr_left
      intro s hs; simp [modeN34, hall s hs]
    · rw [hM, hf]; rfl
  · have hm0 : M.length = 0 := by omega
    have hall : ∀ s ∈ cs, s.length = 3 := by
      rw [hM, List.length_map, List.length_eq_zero_iff, List.filter_eq_nil_iff] at hm0
      intro s hs
      have h1 := chainP_all hch s hs
      have h2 := hm0 s hs
      simp at h2
      rcases h1 with h1 | h1
      · exact h1
      · exact absurd h1 h2
    have hb : (M.length == N.length) = false := by simpa using hm
    simp only [hb, Bool.false_eq_true, if_false]
    refine ⟨⟨hne, chainP_mono (fun s hs _ => hall s hs) hch⟩, hR', ?_, trivial, by simp [shapeOf]⟩
    rw [hN]; unfold modesNOf
    apply List.map_congr_left
    intro s hs; simp [modeN34, hall s hs]

theorem fromCores_wf' {cs : List (List Nat)} {o : Obj} (h : fromCores cs = .ok o) :
    wfB o = true := by
  cases cs with
  | nil => simp [fromCores] at h
  | cons c tl =>
    cases c with
    | nil => simp [fromCores] at h
    | cons r0 t =>
      simp only [fromCores] at h
      split at h
      · cases h
      rename_i N M R heq
      split at h
      · cases h
      rename_i hcond
      injection h with h
      subst h
      exact ctor_final (r0 :: t) tl N M R heq hcond

theorem fromCores_cores {cs : List (List Nat)} {o : Obj} (h : fromCores cs = .ok o) :
    o.cores = cs := by
  cases cs with
  | nil => simp [fromCores] at h
  | cons c tl =>
    cases c with
    | nil => simp [fromCores] at h
    | cons r0 t =>
      simp only [fromCores] at h
      split at h
      · cases h
      split at h
      · cases h
      injection h with h
      subst h
      rfl


/-- rebuilding a well-formed object from its cores reproduces it -/
theorem fromCores_of_wf {o : Obj} (h : wfB o = true) : fromCores o.cores = .ok o := by
  rw [wfB_iff] at h
  obtain ⟨cores, N, M, R, shape, ttm⟩ := o
  obtain ⟨⟨hne, hch⟩, hR, hN, hM, hS⟩ := h
  simp only at hne hch hR hN hM hS ⊢
  cases cores with
  | nil => exact absurd rfl hne
  | cons c tl =>
    have hc := hch
    obtain ⟨hlen, hhead, _⟩ := hc
    have hl := chainP_last hch
    cases ttm with
    | false =>
      simp only [dimOf, lenIs, Bool.false_eq_true, if_false] at hlen hch hM
      match c, hlen, hhead with
      | [x, n, r], _, hhead =>
        simp only [List.headD_cons] at hhead
        subst hhead
        have hl' : ([1] ++ List.map lastR ([1, n, r] :: tl)).getLastD 0 = 1 := by
          rw [List.singleton_append, List.getLastD_cons]; exact hl
        simp only [fromCores]
        rw [ctorLoop_of_chain3 _ [] [] [1] 1 1 hch rfl]
        simp only [List.nil_append]
        rw [if_neg (by rw [hl']; simp)]
        subst hS hM hN hR
        simp [ranksOf, modesNOf, shapeOf, lastR]
    | true =>
      simp only [dimOf, lenIs, if_true] at hlen hch hM
      match c, hlen, hhead with
      | [x, m, n, r], _, hhead =>
        simp only [List.headD_cons] at hhead
        subst hhead
        have hl' : ([1] ++ List.map lastR ([1, m, n, r] :: tl)).getLastD 0 = 1 := by
          rw [List.singleton_append, List.getLastD_cons]; exact hl
        simp only [fromCores]
        rw [ctorLoop_of_chain4 _ [] [] [1] 1 1 hch rfl]
        simp only [List.nil_append]
        rw [if_neg (by rw [hl']; simp)]
        subst hS hM hN hR
        simp [ranksOf, modesNOf, modesMOf, shapeOf, lastR]


/-! ### `setAt`, `setCore` -/

theorem setAt_length {β : Type} (l : List β) (k : Nat) (v : β) : (setAt l k v).length = l.length := by
  induction l generalizing k with
  | nil => rfl
  | cons x xs ih => cases k <;> simp [setAt, ih]

theorem setAt_ne_nil {β : Type} (l : List β) (k : Nat) (v : β) (h : l ≠ []) : setAt l k v ≠ [] := by
  intro h2
  have := setAt_length l k v
  rw [h2] at this
  exact h (List.length_eq_zero_iff.1 this.symm)

theorem map_setAt {β γ : Type} (f : β → γ) (l : List β) (k : Nat) (v : β) :
    (setAt l k v).map f = setAt (l.map f) k (f v) := by
  induction l generalizing k with
  | nil => rfl
  | cons x xs ih => cases k <;> simp [setAt, ih]

theorem mem_setAt {β : Type} {l : List β} {k : Nat} {v x : β} (h : x ∈ setAt l k v) :
    x ∈ l ∨ x = v := by
  induction l generalizing k with
  | nil => simp [setAt] at h
  | cons y ys ih =>
    cases k with
    | zero =>
      simp only [setAt, List.mem_cons] at h
      rcases h with h | h
      · exact Or.inr h
      · exact Or.inl (by simp [h])
    | succ k =>
      simp only [setAt, List.mem_cons] at h
      rcases h with h | h
      · exact Or.inl (by simp [h])
      · rcases ih h with h | h
        · exact Or.inl (by simp [h])
        · exact Or.inr h

/-- replacing a core by one with the same ranks keeps the chain -/
theorem chainP_setAt {p : List Nat → Prop} (cs : List (List Nat)) (a b k : Nat) (sh : List Nat)
    (h : chainP p a cs b) (hp : p sh)
    (hh : sh.headD 0 = (a :: cs.map lastR).getD k 0)
    (hl : sh.getLastD 0 = (a :: cs.map lastR).getD (k+1) 0) (hk : k < cs.length) :
    chainP p a (setAt cs k sh) b := by
  induction cs generalizing a k with
  | nil => simp at hk
  | cons c rest ih =>
    obtain ⟨h1, h2, h3⟩ := h
    cases k with
    | zero =>
      simp only [setAt, chainP]
      simp only [List.map_cons, List.getD_cons_zero, List.getD_cons_succ] at hh hl
      refine ⟨hp, hh, ?_⟩
      rw [hl]; exact h3
    | succ k =>
      simp only [setAt, chainP]
      refine ⟨h1, h2, ih _ _ h3 ?_ ?_ ?_⟩
      · simpa only [List.map_cons, List.getD_cons_succ] using hh
      · simpa only [List.map_cons, List.getD_cons_succ] using hl
      · simpa using hk

theorem ranksOf_eq_of_chain {p : List Nat → Prop} {cs : List (List Nat)} {a b : Nat}
    (h : chainP p a cs b) (hne : cs ≠ []) : ranksOf cs = a :: cs.map lastR := by
  cases cs with
  | nil => exact absurd rfl hne
  | cons c rest => obtain ⟨_, h2, _⟩ := h; simp only [ranksOf, h2]



theorem setAt_getD_self {β : Type} (l : List β) (k : Nat) (d : β) : setAt l k (l.getD k d) = l := by
  induction l generalizing k with
  | nil => rfl
  | cons x xs ih =>
    cases k with
    | zero => simp [setAt]
    | succ k => simp only [setAt, List.getD_cons_succ, ih]

theorem setCore_wf' {o o' : Obj} {k : Nat} {sh : List Nat} (h : wfB o = true)
    (hs : setCore o k sh = .ok o') : wfB o' = true := by
  rw [wfB_iff] at h ⊢
  obtain ⟨cores, N, M, R, shape, ttm⟩ := o
  obtain ⟨⟨hne, hch⟩, hR, hN, hM, hS⟩ := h
  simp only at hne hch hR hN hM hS
  have hRc := ranksOf_eq_of_chain hch hne
  unfold setCore at hs
  simp only at hs
  split at hs
  · cases hs
  rename_i hk
  have hNl : N.length = cores.length := by rw [hN]; simp [modesNOf]
  have hk' : k < cores.length := by omega
  cases ttm with
  | true =>
    simp only [if_true] at hs
    split at hs
    · cases hs
    rename_i hc
    injection hs with hs
    subst hs
    simp only [dimOf, if_true] at hch hM ⊢
    have hlen : sh.length = 4 := by omega
    match sh, hlen, hc with
    | [a, m, n, b], _, hc =>
      simp only [List.getD_cons_zero, List.getD_cons_succ] at hc ⊢
      have h0 : a = R.getD k 0 := by omega
      have h3 : b = R.getD (k+1) 0 := by omega
      rw [hR, hRc] at h0 h3
      have hch' : chainP (lenIs 4) 1 (setAt cores k [a, m, n, b]) 1 :=
        chainP_setAt cores 1 1 k _ hch rfl h0 h3 hk'
      refine ⟨⟨setAt_ne_nil _ _ _ hne, hch'⟩, ?_, ?_, ?_, trivial⟩
      · rw [ranksOf_eq_of_chain hch' (setAt_ne_nil _ _ _ hne), hR, hRc, map_setAt]
        have : lastR [a, m, n, b] = (cores.map lastR).getD k 0 := by
          show b = _; simpa only [List.getD_cons_succ] using h3
        rw [this, setAt_getD_self]
      · rw [hN]; simp [modesNOf, map_setAt]
      · rw [hM]; simp [modesMOf, map_setAt]
  | false =>
    simp only [Bool.false_eq_true, if_false] at hs
    split at hs
    · cases hs
    rename_i hc
    injection hs with hs
    subst hs
    simp only [dimOf, Bool.false_eq_true, if_false] at hch hM ⊢
    have hlen : sh.length = 3 := by omega
    match sh, hlen, hc with
    | [a, n, b], _, hc =>
      simp only [List.getD_cons_zero, List.getD_cons_succ] at hc ⊢
      have h0 : a = R.getD k 0 := by omega
      have h3 : b = R.getD (k+1) 0 := by omega
      rw [hR, hRc] at h0 h3
      have hch' : chainP (lenIs 3) 1 (setAt cores k [a, n, b]) 1 :=
        chainP_setAt cores 1 1 k _ hch rfl h0 h3 hk'
      refine ⟨⟨setAt_ne_nil _ _ _ hne, hch'⟩, ?_, ?_, hM, by simp [shapeOf]⟩
      · rw [ranksOf_eq_of_chain hch' (setAt_ne_nil _ _ _ hne), hR, hRc, map_setAt]
        have : lastR [a, n, b] = (cores.map lastR).getD k 0 := by
          show b = _; simpa only [List.getD_cons_succ] using h3
        rw [this, setAt_getD_self]
      · rw [hN]; simp [modesNOf, map_setAt]


/-! ### `reduce_dims` -/

theorem absorbRightS_spec (d : Nat) (hd : 2 ≤ d) (last c : List Nat) (hl : last.length = d) :
    (absorbRightS last c).length = d ∧ (absorbRightS last c).headD 0 = last.headD 0 ∧
      (absorbRightS last c).getLastD 0 = c.getLastD 0 := by
  match last, hl with
  | [], hl => simp at hl; omega
  | [_], hl => simp at hl; omega
  | x :: y :: t, hl =>
    refine ⟨?_, ?_, ?_⟩
    · simp [absorbRightS] at hl ⊢; omega
    · simp [absorbRightS, List.dropLast]
    · unfold absorbRightS; rw [List.getLastD_concat]

theorem absorbLeftS_spec (d : Nat) (hd : 2 ≤ d) (c nxt : List Nat) (hl : nxt.length = d) :
    (absorbLeftS c nxt).length = d ∧ (absorbLeftS c nxt).headD 0 = c.headD 0 ∧
      (absorbLeftS c nxt).getLastD 0 = nxt.getLastD 0 := by
  match nxt, hl with
  | [], hl => simp at hl; omega
  | [_], hl => simp at hl; omega
  | x :: y :: t, hl =>
    refine ⟨?_, ?_, ?_⟩
    · simpa [absorbLeftS] using hl
    · simp [absorbLeftS]
    · simp only [absorbLeftS, List.tail_cons, List.getLastD_cons]

theorem chainP_snoc (p : List Nat → Prop) (l : List (List Nat)) (s : List Nat) (a b : Nat) :
    chainP p a (l ++ [s]) b ↔ ∃ m, chainP p a l m ∧ p s ∧ s.headD 0 = m ∧ s.getLastD 0 = b := by
  rw [chainP_append]; simp only [chainP]

theorem reduceGo_chain (ttm : Bool) (excl : Nat → Bool) (d : Nat) (hd : 2 ≤ d) (i : Nat)
    (acc rest : List (List Nat)) :
    ∀ m, chainP (lenIs d) 1 acc.reverse m → chainP (lenIs d) m rest 1 → rest ≠ [] →
      reduceShapesGo ttm excl i acc rest ≠ [] ∧
        chainP (lenIs d) 1 (reduceShapesGo ttm excl i acc rest) 1 := by
  fun_induction reduceShapesGo ttm excl i acc rest with
  | case1 x acc => intro m _ _ h; exact absurd rfl h
  | case2 i c hu last acc' =>
    intro m h1 h2 _
    rw [List.reverse_cons, chainP_snoc] at h1
    obtain ⟨m', h1, hl, hh, hlast⟩ := h1
    obtain ⟨hc, hch, hcl⟩ := h2
    obtain ⟨a1, a2, a3⟩ := absorbRightS_spec d hd last c hl
    rw [List.reverse_cons]
    refine ⟨by simp, ?_⟩
    rw [chainP_snoc]
    exact ⟨m', h1, a1, a2.trans hh, a3.trans hcl⟩
  | case3 i c hu =>
    intro m h1 h2 _
    simp only [List.reverse_nil, chainP] at h1
    subst h1
    exact ⟨by simp, h2⟩
  | case4 i acc c hu =>
    intro m h1 h2 _
    obtain ⟨hc, hch, hcl⟩ := h2
    rw [List.reverse_cons]
    refine ⟨by simp, ?_⟩
    rw [chainP_snoc]
    exact ⟨m, h1, hc, hch, hcl⟩
  | case5 i c nxt rest' hu hgt last acc' ih =>
    intro m h1 h2 _
    rw [List.reverse_cons, chainP_snoc] at h1
    obtain ⟨m', h1, hl, hh, hlast⟩ := h1
    obtain ⟨hc, hch, hrest⟩ := h2
    obtain ⟨a1, a2, a3⟩ := absorbRightS_spec d hd last c hl
    apply ih (c.getLastD 0) _ hrest (by simp)
    rw [List.reverse_cons, chainP_snoc]
    exact ⟨m', h1, a1, a2.trans hh, a3⟩
  | case6 i c nxt rest' hu hgt ih =>
    intro m h1 h2 _
    obtain ⟨hc, hch, hn, hnh, hrest⟩ := h2
    obtain ⟨a1, a2, a3⟩ := absorbLeftS_spec d hd c nxt hn
    apply ih m h1 _ (by simp)
    exact ⟨a1, a2.trans hch, by rw [a3]; exact hrest⟩
  | case7 i acc c nxt rest' hu hgt ih =>
    intro m h1 h2 _
    obtain ⟨hc, hch, hn, hnh, hrest⟩ := h2
    obtain ⟨a1, a2, a3⟩ := absorbLeftS_spec d hd c nxt hn
    apply ih m h1 _ (by simp)
    exact ⟨a1, a2.trans hch, by rw [a3]; exact hrest⟩
  | case8 i acc c nxt rest' hu ih =>
    intro m h1 h2 _
    obtain ⟨hc, hch, hrest⟩ := h2
    apply ih (c.getLastD 0) _ hrest (by simp)
    rw [List.reverse_cons, chainP_snoc]
    exact ⟨m, h1, hc, hch, rfl⟩


theorem dimOf_ge (ttm : Bool) : 2 ≤ dimOf ttm := by cases ttm <;> simp [dimOf]

theorem reduceDims_wf' {o : Obj} (excl : List Nat) (h : wfB o = true) :
    wfB (reduceDimsObj o excl) = true := by
  rw [wfB_iff] at h ⊢
  obtain ⟨cores, N, M, R, shape, ttm⟩ := o
  obtain ⟨⟨hne, hch⟩, hR, hN, hM, hS⟩ := h
  simp only at hne hch hR hN hM hS
  obtain ⟨hne', hch'⟩ := reduceGo_chain ttm (fun i => excl.contains i) (dimOf ttm) (dimOf_ge ttm) 0
    [] cores 1 rfl hch hne
  simp only [reduceDimsObj, reduceMeta]
  refine ⟨⟨hne', hch'⟩, ?_, trivial, ?_, trivial⟩
  · rw [ranksOf_eq_of_chain hch' hne']
  · cases ttm
    · simpa using hM
    · simp

theorem step_wf' (st : List Obj) (c : Call) (h : ∀ o ∈ st, wfB o = true) :
    ∀ o ∈ step st c, wfB o = true := by
  cases c with
  | construct cs =>
    simp only [step]
    split
    · rename_i o ho
      intro x hx
      rcases List.mem_append.1 hx with hx | hx
      · exact h x hx
      · simp only [List.mem_singleton] at hx; subst hx; exact fromCores_wf' ho
    · exact h
  | setCore ref k sh =>
    simp only [step]
    split
    · rename_i o ho
      have hmem : o ∈ st := List.mem_of_getElem? ho
      split
      · rename_i o' ho'
        intro x hx
        rcases mem_setAt hx with hx | hx
        · exact h x hx
        · subst hx; exact setCore_wf' (h o hmem) ho'
      · exact h
    · exact h
  | reduceDims ref excl =>
    simp only [step]
    split
    · rename_i o ho
      have hmem : o ∈ st := List.mem_of_getElem? ho
      intro x hx
      rcases mem_setAt hx with hx | hx
      · exact h x hx
      · subst hx; exact reduceDims_wf' excl (h o hmem)
    · exact h

theorem run_wf' (calls : List Call) (st : List Obj) (h : ∀ o ∈ st, wfB o = true) :
    ∀ o ∈ run st calls, wfB o = true := by
  induction calls generalizing st with
  | nil => exact h
  | cons c cs ih => exact ih (step st c) (step_wf' st c h)


/-! ### index-wise reading of a chain (the `R[k]`, `R[k+1]` view of the Python code) -/

theorem chainP_getD {p : List Nat → Prop} (cs : List (List Nat)) (a b k : Nat)
    (h : chainP p a cs b) (hk : k < cs.length) :
    p (cs.getD k []) ∧ (cs.getD k []).headD 0 = (a :: cs.map lastR).getD k 0 ∧
      (cs.getD k []).getLastD 0 = (a :: cs.map lastR).getD (k+1) 0 := by
  induction cs generalizing a k with
  | nil => simp at hk
  | cons c rest ih =>
    obtain ⟨h1, h2, h3⟩ := h
    cases k with
    | zero =>
      simp only [List.getD_cons_zero, List.map_cons, List.getD_cons_succ]
      exact ⟨h1, h2, trivial⟩
    | succ k =>
      simp only [List.getD_cons_succ, List.map_cons]
      exact ih _ _ h3 (by simpa using hk)

end TT.Shape
