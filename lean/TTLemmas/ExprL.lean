import TTModel.Expr
import TTModel.Scalar
import TTLemmas.Sum
import TTLemmas.Simple
import TTLemmas.ExtrasL
import TTLemmas.Matmul
import TTLemmas.Sweep
import Mathlib.Algebra.Ring.Basic
import Mathlib.Algebra.Ring.Rat
import Mathlib.Tactic.Ring

/-!
Helper lemmas for C15 (`TTProps/C15.lean`): expressions over the modelled TT operations.

* mode bookkeeping: every operation of the shape-preserving fragment keeps the mode sizes,
* `IsTensor` ↔ `modesN = replicate _ 1`, `InnerMatch` / `SameModes` from mode equalities,
* the collapse `sumIdx (replicate d 1) g = g (replicate d 0)` and `is.zip (replicate d 0) = tIdx is`,
* the typing predicates `TypedT` / `TypedM` / `TypedS`,
* the commutative-ring structure on the driver's dual numbers `TT.Dual β`, and on its exact
  scalars `TT.GRat` (Gaussian rationals), so that the theorems apply to `Dual GRat`, the scalar
  type of `TTModel/DriverAD.lean`.
-/
namespace TT

/-! ### mode bookkeeping (no algebra needed) -/
section Modes
variable {α : Type}

/-- the pairs `(m, n)` of mode sizes, core by core -/
def modesMN (cs : List (Core α)) : List (Nat × Nat) := cs.map (fun c => (c.m, c.n))

theorem modesM_eq_map_fst (cs : List (Core α)) : modesM cs = (modesMN cs).map Prod.fst := by
  simp [modesM, modesMN]

theorem modesN_eq_map_snd (cs : List (Core α)) : modesN cs = (modesMN cs).map Prod.snd := by
  simp [modesN, modesMN]

theorem modesM_congr {xs ys : List (Core α)} (h : modesMN xs = modesMN ys) : modesM xs = modesM ys := by
  rw [modesM_eq_map_fst, modesM_eq_map_fst, h]

theorem modesN_congr {xs ys : List (Core α)} (h : modesMN xs = modesMN ys) : modesN xs = modesN ys := by
  rw [modesN_eq_map_snd, modesN_eq_map_snd, h]

theorem length_modesM (cs : List (Core α)) : (modesM cs).length = cs.length := by simp [modesM]
theorem length_modesN (cs : List (Core α)) : (modesN cs).length = cs.length := by simp [modesN]

theorem length_of_modesM {cs : List (Core α)} {ns : List Nat} (h : modesM cs = ns) :
    cs.length = ns.length := by rw [← h, length_modesM]

theorem ne_nil_of_modesM {cs : List (Core α)} {ns : List Nat} (h : modesM cs = ns) (hne : ns ≠ []) :
    cs ≠ [] := by
  intro hc; subst hc; exact hne h.symm

theorem isTensor_iff_modesN (cs : List (Core α)) :
    IsTensor cs ↔ modesN cs = List.replicate cs.length 1 := by
  induction cs with
  | nil => simp [IsTensor, modesN]
  | cons c cs ih =>
    simp only [IsTensor, modesN_cons, List.length_cons, List.replicate_succ, List.cons.injEq, ih]

theorem innerMatch_of_modes (xs ys : List (Core α)) (h : modesN xs = modesM ys) : InnerMatch xs ys := by
  induction xs generalizing ys with
  | nil =>
    cases ys with
    | nil => trivial
    | cons y ys => simp [modesN, modesM] at h
  | cons x xs ih =>
    cases ys with
    | nil => simp [modesN, modesM] at h
    | cons y ys =>
      rw [modesN_cons, modesM_cons, List.cons.injEq] at h
      exact ⟨h.1, ih ys h.2⟩

theorem sameModes_of_modes (xs ys : List (Core α)) (hM : modesM xs = modesM ys)
    (hN : modesN xs = modesN ys) : SameModes xs ys := by
  induction xs generalizing ys with
  | nil =>
    cases ys with
    | nil => trivial
    | cons y ys => simp [modesM] at hM
  | cons x xs ih =>
    cases ys with
    | nil => simp [modesM] at hM
    | cons y ys =>
      rw [modesM_cons, modesM_cons, List.cons.injEq] at hM
      rw [modesN_cons, modesN_cons, List.cons.injEq] at hN
      exact ⟨hM.1, hN.1, ih ys hM.2 hN.2⟩

theorem zip_replicate_zero (is : List Nat) (d : Nat) (h : is.length = d) :
    is.zip (List.replicate d 0) = tIdx is := by
  induction is generalizing d with
  | nil => simp [tIdx]
  | cons i is ih =>
    cases d with
    | zero => simp at h
    | succ d =>
      rw [List.replicate_succ, List.zip_cons_cons, tIdx_cons, ih d (by simpa using h)]

theorem length_tIdx (is : List Nat) : (tIdx is).length = is.length := by simp [tIdx]

end Modes

section ModesOps
set_option linter.unusedSectionVars false
variable {α : Type} [Zero α] [One α] [Add α] [Mul α] [Neg α]

theorem modesMN_addFrom (xs ys : List (Core α)) (hlen : xs.length = ys.length) :
    ∀ first, modesMN (addFrom first xs ys) = modesMN xs := by
  induction xs generalizing ys with
  | nil => intro first; match ys, hlen with | [], _ => rfl
  | cons x xs ih =>
    intro first
    match ys, hlen with
    | y :: ys, hlen =>
      cases xs with
      | nil =>
        have hys : ys = [] := by
          cases ys with
          | nil => rfl
          | cons _ _ => simp at hlen
        subst hys; rfl
      | cons x' xs' =>
        match ys, hlen with
        | y' :: ys', hlen =>
          have hlen' : (x' :: xs').length = (y' :: ys').length := by simpa using hlen
          have e : addFrom first (x :: x' :: xs') (y :: y' :: ys') =
              addCore first false x y :: addFrom false (x' :: xs') (y' :: ys') := rfl
          rw [e]
          show (_, _) :: modesMN (addFrom false (x' :: xs') (y' :: ys')) = _
          rw [ih (y' :: ys') hlen' false]
          rfl

theorem modesMN_add (xs ys : List (Core α)) (hlen : xs.length = ys.length) :
    modesMN (add xs ys) = modesMN xs := modesMN_addFrom xs ys hlen true

theorem modesMN_negFirst (xs : List (Core α)) : modesMN (negFirst xs) = modesMN xs := by
  cases xs <;> rfl

theorem modesMN_scaleFirst (s : α) (xs : List (Core α)) : modesMN (scaleFirst s xs) = modesMN xs := by
  cases xs <;> rfl

theorem modesMN_zerosLike (xs : List (Core α)) : modesMN (zerosLike xs) = modesMN xs := by
  simp [modesMN, zerosLike, constCore]

theorem modesMN_scalarTT (s : α) (xs : List (Core α)) : modesMN (scalarTT s xs) = modesMN xs := by
  cases xs with
  | nil => rfl
  | cons c cs => simp [modesMN, scalarTT, constCore]

theorem modesMN_sub (xs ys : List (Core α)) (hlen : xs.length = ys.length) :
    modesMN (sub xs ys) = modesMN xs :=
  modesMN_add xs (negFirst ys) (by cases ys <;> simpa [negFirst] using hlen)

theorem modesMN_addScalar (xs : List (Core α)) (s : α) : modesMN (addScalar xs s) = modesMN xs :=
  modesMN_add xs (scalarTT s xs) (by cases xs <;> simp [scalarTT])

theorem modesMN_smul [DecidableEq α] (xs : List (Core α)) (s : α) : modesMN (smul xs s) = modesMN xs := by
  unfold smul
  split
  · exact modesMN_zerosLike xs
  · exact modesMN_scaleFirst s xs

theorem modesMN_mul (xs ys : List (Core α)) (hlen : xs.length = ys.length) :
    modesMN (mul xs ys) = modesMN xs := by
  induction xs generalizing ys with
  | nil => match ys, hlen with | [], _ => rfl
  | cons x xs ih =>
    match ys, hlen with
    | y :: ys, hlen =>
      have hlen' : xs.length = ys.length := by simpa using hlen
      show (_, _) :: modesMN (mul xs ys) = _
      rw [ih ys hlen']
      rfl

theorem modesM_matmul (xs ys : List (Core α)) (hlen : xs.length = ys.length) :
    modesM (matmul xs ys) = modesM xs := by
  induction xs generalizing ys with
  | nil => match ys, hlen with | [], _ => rfl
  | cons x xs ih =>
    match ys, hlen with
    | y :: ys, hlen =>
      have hlen' : xs.length = ys.length := by simpa using hlen
      show _ :: modesM (matmul xs ys) = _
      rw [ih ys hlen']
      rfl

theorem modesN_matmul (xs ys : List (Core α)) (hlen : xs.length = ys.length) :
    modesN (matmul xs ys) = modesN ys := by
  induction xs generalizing ys with
  | nil => match ys, hlen with | [], _ => rfl
  | cons x xs ih =>
    match ys, hlen with
    | y :: ys, hlen =>
      have hlen' : xs.length = ys.length := by simpa using hlen
      show _ :: modesN (matmul xs ys) = _
      rw [ih ys hlen']
      rfl

theorem WF_zerosLike (xs : List (Core α)) : WF (zerosLike xs) 1 := by
  induction xs with
  | nil => rfl
  | cons c cs ih => exact ⟨rfl, ih⟩

theorem WF_smul_expr [DecidableEq α] (xs : List (Core α)) (s : α) (h : WF xs 1) : WF (smul xs s) 1 := by
  unfold smul
  split
  · exact WF_zerosLike xs
  · cases xs with
    | nil => exact h
    | cons c cs => exact h

end ModesOps

/-! ### `sumIdx` over all-ones modes -/
section Collapse
variable {α : Type} [CommRing α]

/-- a tensor train has `modesN = [1,…,1]`: the inner sum of the C07 statements has the single
    term `js = [0,…,0]` -/
theorem sumIdx_replicate_one (d : Nat) (g : List Nat → α) :
    sumIdx (List.replicate d 1) g = g (List.replicate d 0) := by
  induction d generalizing g with
  | zero => rfl
  | succ d ih =>
    rw [List.replicate_succ, sumIdx_cons, sumTo_one, ih, List.replicate_succ]

/-- rows outer / columns inner double sum of a tensor train = single sum with `tIdx` -/
theorem sumIdx_tensor_collapse (ns : List Nat) (g : List (Nat × Nat) → α) :
    sumIdx ns (fun is => sumIdx (List.replicate ns.length 1) (fun js => g (is.zip js))) =
    sumIdx ns (fun is => g (tIdx is)) := by
  apply sumIdx_congr_len; intro is hil
  rw [sumIdx_replicate_one, zip_replicate_zero is ns.length hil]

end Collapse

/-! ### typing of expressions (fixed mode list `ns`) -/
section Typing
variable {α : Type}

/-- tensor operand `i`: present, well formed, modes `ns`, all `n = 1` -/
def TypedV (ns : List Nat) (envT : List (List (Core α))) (i : Nat) : Prop :=
  i < envT.length ∧ WF (envT.getD i []) 1 ∧ modesM (envT.getD i []) = ns ∧ IsTensor (envT.getD i [])

/-- operator operand `A`: present, well formed, square with row and column modes `ns` -/
def TypedM (ns : List Nat) (envM : List (List (Core α))) (A : Nat) : Prop :=
  A < envM.length ∧ WF (envM.getD A []) 1 ∧ modesM (envM.getD A []) = ns ∧ modesN (envM.getD A []) = ns

/-- the shape-preserving fragment `var, add, sub, mul, neg, smul, adds, mv` over operands of the
    common (non-empty) mode list `ns`; the other constructors are not typed -/
def TypedT (ns : List Nat) (envT envM : List (List (Core α))) : TE α → Prop
  | .var i => ns ≠ [] ∧ TypedV ns envT i
  | .add a b => TypedT ns envT envM a ∧ TypedT ns envT envM b
  | .sub a b => TypedT ns envT envM a ∧ TypedT ns envT envM b
  | .mul a b => TypedT ns envT envM a ∧ TypedT ns envT envM b
  | .neg a => TypedT ns envT envM a
  | .smul a _ => TypedT ns envT envM a
  | .adds a _ => TypedT ns envT envM a
  | .mv A a => TypedM ns envM A ∧ TypedT ns envT envM a
  | .kron _ _ => False
  | .cat _ _ _ => False
  | .pad _ _ _ => False
  | .mprod _ _ _ _ => False
  | .sumsel _ _ => False
  | .getitem _ _ => False

def TypedS (ns : List Nat) (envT envM : List (List (Core α))) : SE α → Prop
  | .sumall a => TypedT ns envT envM a
  | .dot a b => TypedT ns envT envM a ∧ TypedT ns envT envM b
  | .normsq a => TypedT ns envT envM a
  | .entry a idx => TypedT ns envT envM a ∧ idx.length = ns.length
  | .bil a A b => TypedT ns envT envM a ∧ TypedM ns envM A ∧ TypedT ns envT envM b
  | .add x y => TypedS ns envT envM x ∧ TypedS ns envT envM y
  | .mul x y => TypedS ns envT envM x ∧ TypedS ns envT envM y
  | .const _ => True

/-- the invariant carried through `evalT`: a well-formed tensor train with modes `ns` -/
def TShape (ns : List Nat) (cs : List (Core α)) : Prop :=
  WF cs 1 ∧ modesM cs = ns ∧ modesN cs = List.replicate ns.length 1

theorem TShape.length {ns : List Nat} {cs : List (Core α)} (h : TShape ns cs) :
    cs.length = ns.length := length_of_modesM h.2.1

theorem TShape.isTensor {ns : List Nat} {cs : List (Core α)} (h : TShape ns cs) : IsTensor cs := by
  rw [isTensor_iff_modesN, h.length]; exact h.2.2

theorem TShape.of_typedV {ns : List Nat} {envT : List (List (Core α))} {i : Nat}
    (h : TypedV ns envT i) : TShape ns (envT.getD i []) := by
  obtain ⟨_, hw, hm, ht⟩ := h
  refine ⟨hw, hm, ?_⟩
  rw [← length_of_modesM hm]
  exact (isTensor_iff_modesN _).1 ht

/-- transport of the shape invariant along an operation that keeps the mode pairs -/
theorem TShape.congr {ns : List Nat} {xs ys : List (Core α)} (h : TShape ns xs) (hw : WF ys 1)
    (hm : modesMN ys = modesMN xs) : TShape ns ys :=
  ⟨hw, (modesM_congr hm).trans h.2.1, (modesN_congr hm).trans h.2.2⟩

end Typing

/-! ### dual numbers: the commutative ring structure on `TT.Dual β`

The operations `0, 1, +, *, -` (unary and binary) are *the instances of `TTModel/Scalar.lean`*
(the ones the executable driver `TTModel/DriverAD.lean` runs); only the numeral / scalar-action
fields required by Mathlib's `CommRing` are added. -/
namespace Dual
variable {β : Type}

theorem ext' {a b : Dual β} (hv : a.v = b.v) (hd : a.d = b.d) : a = b := by
  cases a; cases b; cases hv; cases hd; rfl

section
variable [CommRing β]

@[simp] theorem zero_v : (0 : Dual β).v = 0 := rfl
@[simp] theorem zero_d : (0 : Dual β).d = 0 := rfl
@[simp] theorem one_v : (1 : Dual β).v = 1 := rfl
@[simp] theorem one_d : (1 : Dual β).d = 0 := rfl
@[simp] theorem add_v (a b : Dual β) : (a + b).v = a.v + b.v := rfl
@[simp] theorem add_d (a b : Dual β) : (a + b).d = a.d + b.d := rfl
@[simp] theorem sub_v (a b : Dual β) : (a - b).v = a.v - b.v := rfl
@[simp] theorem sub_d (a b : Dual β) : (a - b).d = a.d - b.d := rfl
@[simp] theorem neg_v (a : Dual β) : (-a).v = -a.v := rfl
@[simp] theorem neg_d (a : Dual β) : (-a).d = -a.d := rfl
@[simp] theorem mul_v (a b : Dual β) : (a * b).v = a.v * b.v := rfl
@[simp] theorem mul_d (a b : Dual β) : (a * b).d = a.v * b.d + a.d * b.v := rfl

instance instCommRing : CommRing (Dual β) where
  zero := 0
  one := 1
  add := (· + ·)
  mul := (· * ·)
  neg := Neg.neg
  sub := (· - ·)
  nsmul := fun n a => ⟨(n : β) * a.v, (n : β) * a.d⟩
  zsmul := fun n a => ⟨(n : β) * a.v, (n : β) * a.d⟩
  natCast := fun n => ⟨(n : β), 0⟩
  intCast := fun n => ⟨(n : β), 0⟩
  add_assoc := fun a b c => ext' (by simp [add_assoc]) (by simp [add_assoc])
  zero_add := fun a => ext' (by simp) (by simp)
  add_zero := fun a => ext' (by simp) (by simp)
  add_comm := fun a b => ext' (by simp [add_comm]) (by simp [add_comm])
  nsmul_zero := fun a => ext' (show ((0 : ℕ) : β) * a.v = 0 by simp) (show ((0 : ℕ) : β) * a.d = 0 by simp)
  nsmul_succ := fun n a => ext' (show ((n + 1 : ℕ) : β) * a.v = (n : β) * a.v + a.v by push_cast; ring)
    (show ((n + 1 : ℕ) : β) * a.d = (n : β) * a.d + a.d by push_cast; ring)
  neg_add_cancel := fun a => ext' (by simp) (by simp)
  sub_eq_add_neg := fun a b => ext' (by simp [sub_eq_add_neg]) (by simp [sub_eq_add_neg])
  zsmul_zero' := fun a => ext' (show ((0 : ℤ) : β) * a.v = 0 by simp) (show ((0 : ℤ) : β) * a.d = 0 by simp)
  zsmul_succ' := fun n a => ext'
    (show ((Int.ofNat n.succ : ℤ) : β) * a.v = ((Int.ofNat n : ℤ) : β) * a.v + a.v by
      simp only [Int.ofNat_eq_natCast, Nat.succ_eq_add_one]; push_cast; ring)
    (show ((Int.ofNat n.succ : ℤ) : β) * a.d = ((Int.ofNat n : ℤ) : β) * a.d + a.d by
      simp only [Int.ofNat_eq_natCast, Nat.succ_eq_add_one]; push_cast; ring)
  zsmul_neg' := fun n a => ext'
    (show ((Int.negSucc n : ℤ) : β) * a.v = -((((n.succ : ℕ) : ℤ) : β) * a.v) by
      rw [Int.cast_negSucc]; push_cast; ring)
    (show ((Int.negSucc n : ℤ) : β) * a.d = -((((n.succ : ℕ) : ℤ) : β) * a.d) by
      rw [Int.cast_negSucc]; push_cast; ring)
  mul_assoc := fun a b c => ext' (by simp [mul_assoc]) (by simp; ring)
  one_mul := fun a => ext' (by simp) (by simp)
  mul_one := fun a => ext' (by simp) (by simp)
  zero_mul := fun a => ext' (by simp) (by simp)
  mul_zero := fun a => ext' (by simp) (by simp)
  left_distrib := fun a b c => ext' (by simp [mul_add]) (by simp; ring)
  right_distrib := fun a b c => ext' (by simp [add_mul]) (by simp; ring)
  mul_comm := fun a b => ext' (by simp [mul_comm]) (by simp; ring)
  natCast_zero := ext' (show ((0 : ℕ) : β) = 0 by simp) rfl
  natCast_succ := fun n => ext' (show ((n + 1 : ℕ) : β) = (n : β) + 1 by push_cast; rfl) (show (0 : β) = 0 + 0 by simp)
  intCast_ofNat := fun n => ext' (show (((n : ℕ) : ℤ) : β) = (n : β) by simp) rfl
  intCast_negSucc := fun n => ext' (show ((Int.negSucc n : ℤ) : β) = -(((n + 1 : ℕ)) : β) by
    rw [Int.cast_negSucc]) (show (0 : β) = -0 by simp)

end
end Dual

/-! ### the driver's exact scalars `GRat = ℚ[i]` form a commutative ring (operations of
`TTModel/Scalar.lean`), hence so does `Dual GRat`, the scalar type of `TTModel/DriverAD.lean` -/
namespace GRat

theorem ext' {a b : GRat} (hr : a.re = b.re) (hi : a.im = b.im) : a = b := by
  cases a; cases b; cases hr; cases hi; rfl
@[simp] theorem zero_re : (0 : GRat).re = 0 := rfl
@[simp] theorem zero_im : (0 : GRat).im = 0 := rfl
@[simp] theorem one_re : (1 : GRat).re = 1 := rfl
@[simp] theorem one_im : (1 : GRat).im = 0 := rfl
@[simp] theorem add_re (a b : GRat) : (a + b).re = a.re + b.re := rfl
@[simp] theorem add_im (a b : GRat) : (a + b).im = a.im + b.im := rfl
@[simp] theorem sub_re (a b : GRat) : (a - b).re = a.re - b.re := rfl
@[simp] theorem sub_im (a b : GRat) : (a - b).im = a.im - b.im := rfl
@[simp] theorem neg_re (a : GRat) : (-a).re = -a.re := rfl
@[simp] theorem neg_im (a : GRat) : (-a).im = -a.im := rfl
@[simp] theorem mul_re (a b : GRat) : (a * b).re = a.re * b.re - a.im * b.im := rfl
@[simp] theorem mul_im (a b : GRat) : (a * b).im = a.re * b.im + a.im * b.re := rfl

instance instCommRing : CommRing GRat where
  zero := 0
  one := 1
  add := (· + ·)
  mul := (· * ·)
  neg := Neg.neg
  sub := (· - ·)
  nsmul := fun n a => ⟨(n : ℚ) * a.re, (n : ℚ) * a.im⟩
  zsmul := fun n a => ⟨(n : ℚ) * a.re, (n : ℚ) * a.im⟩
  natCast := fun n => ⟨(n : ℚ), 0⟩
  intCast := fun n => ⟨(n : ℚ), 0⟩
  add_assoc := fun a b c => ext' (by simp [add_assoc]) (by simp [add_assoc])
  zero_add := fun a => ext' (by simp) (by simp)
  add_zero := fun a => ext' (by simp) (by simp)
  add_comm := fun a b => ext' (by simp [add_comm]) (by simp [add_comm])
  nsmul_zero := fun a => ext' (show ((0 : ℕ) : ℚ) * a.re = 0 by simp) (show ((0 : ℕ) : ℚ) * a.im = 0 by simp)
  nsmul_succ := fun n a => ext' (show ((n + 1 : ℕ) : ℚ) * a.re = (n : ℚ) * a.re + a.re by push_cast; ring)
    (show ((n + 1 : ℕ) : ℚ) * a.im = (n : ℚ) * a.im + a.im by push_cast; ring)
  neg_add_cancel := fun a => ext' (by simp) (by simp)
  sub_eq_add_neg := fun a b => ext' (by simp [sub_eq_add_neg]) (by simp [sub_eq_add_neg])
  zsmul_zero' := fun a => ext' (show ((0 : ℤ) : ℚ) * a.re = 0 by simp) (show ((0 : ℤ) : ℚ) * a.im = 0 by simp)
  zsmul_succ' := fun n a => ext'
    (show ((Int.ofNat n.succ : ℤ) : ℚ) * a.re = ((Int.ofNat n : ℤ) : ℚ) * a.re + a.re by
      simp only [Int.ofNat_eq_natCast, Nat.succ_eq_add_one]; push_cast; ring)
    (show ((Int.ofNat n.succ : ℤ) : ℚ) * a.im = ((Int.ofNat n : ℤ) : ℚ) * a.im + a.im by
      simp only [Int.ofNat_eq_natCast, Nat.succ_eq_add_one]; push_cast; ring)
  zsmul_neg' := fun n a => ext'
    (show ((Int.negSucc n : ℤ) : ℚ) * a.re = -((((n.succ : ℕ) : ℤ) : ℚ) * a.re) by
      rw [Int.cast_negSucc]; push_cast; ring)
    (show ((Int.negSucc n : ℤ) : ℚ) * a.im = -((((n.succ : ℕ) : ℤ) : ℚ) * a.im) by
      rw [Int.cast_negSucc]; push_cast; ring)
  mul_assoc := fun a b c => ext' (by simp; ring) (by simp; ring)
  one_mul := fun a => ext' (by simp) (by simp)
  mul_one := fun a => ext' (by simp) (by simp)
  zero_mul := fun a => ext' (by simp) (by simp)
  mul_zero := fun a => ext' (by simp) (by simp)
  left_distrib := fun a b c => ext' (by simp; ring) (by simp; ring)
  right_distrib := fun a b c => ext' (by simp; ring) (by simp; ring)
  mul_comm := fun a b => ext' (by simp; ring) (by simp; ring)
  natCast_zero := ext' (show ((0 : ℕ) : ℚ) = 0 by simp) rfl
  natCast_succ := fun n => ext' (show ((n + 1 : ℕ) : ℚ) = (n : ℚ) + 1 by push_cast; rfl) (show (0 : ℚ) = 0 + 0 by simp)
  intCast_ofNat := fun n => ext' (show (((n : ℕ) : ℤ) : ℚ) = (n : ℚ) by simp) rfl
  intCast_negSucc := fun n => ext' (show ((Int.negSucc n : ℤ) : ℚ) = -(((n + 1 : ℕ)) : ℚ) by
    rw [Int.cast_negSucc]) (show (0 : ℚ) = -0 by simp)
end GRat

end TT
