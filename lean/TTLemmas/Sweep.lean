import TTModel.Reduce
import TTLemmas.Sum

/-!
Helpers for C07: the left-to-right sweeps (`vecSweep`, `gramSweep`, `bilSweep`) equal the dense
reductions.  All names local to this file are prefixed `sw_`.
-/
namespace TT
open Finset
variable {α : Type} [CommRing α]

/-! ### moving one bounded sum past a block of bounded sums -/

theorem sw_comm2 (n p q : Nat) (f : Nat → Nat → Nat → α) :
    sumTo n (fun k => sumTo p (fun a => sumTo q (fun b => f k a b))) =
    sumTo p (fun a => sumTo q (fun b => sumTo n (fun k => f k a b))) := by
  rw [sumTo_comm]
  apply sumTo_congr; intro a _
  rw [sumTo_comm]

theorem sw_comm3 (n p q r : Nat) (f : Nat → Nat → Nat → Nat → α) :
    sumTo n (fun k => sumTo p (fun a => sumTo q (fun b => sumTo r (fun c => f k a b c)))) =
    sumTo p (fun a => sumTo q (fun b => sumTo r (fun c => sumTo n (fun k => f k a b c)))) := by
  rw [sumTo_comm]
  apply sumTo_congr; intro a _
  rw [sw_comm2]

theorem sw_comm4 (n p q r s : Nat) (f : Nat → Nat → Nat → Nat → Nat → α) :
    sumTo n (fun k => sumTo p (fun a => sumTo q (fun b => sumTo r (fun c => sumTo s (fun d =>
      f k a b c d))))) =
    sumTo p (fun a => sumTo q (fun b => sumTo r (fun c => sumTo s (fun d => sumTo n (fun k =>
      f k a b c d))))) := by
  rw [sumTo_comm]
  apply sumTo_congr; intro a _
  rw [sw_comm3]

theorem sw_comm5 (n p q r s t : Nat) (f : Nat → Nat → Nat → Nat → Nat → Nat → α) :
    sumTo n (fun k => sumTo p (fun a => sumTo q (fun b => sumTo r (fun c => sumTo s (fun d =>
      sumTo t (fun e => f k a b c d e)))))) =
    sumTo p (fun a => sumTo q (fun b => sumTo r (fun c => sumTo s (fun d => sumTo t (fun e =>
      sumTo n (fun k => f k a b c d e)))))) := by
  rw [sumTo_comm]
  apply sumTo_congr; intro a _
  rw [sw_comm4]

/-! ### `sumIdx`: congruence, linearity, exchange with `sumTo` -/

theorem sw_sumIdx_congr (ns : List Nat) {f g : List Nat → α} (h : ∀ ks, f ks = g ks) :
    sumIdx ns f = sumIdx ns g := by
  have : f = g := funext h
  rw [this]

theorem sw_sumIdx_sumTo (ns : List Nat) (n : Nat) (f : List Nat → Nat → α) :
    sumIdx ns (fun ks => sumTo n (fun k => f ks k)) =
    sumTo n (fun k => sumIdx ns (fun ks => f ks k)) := by
  induction ns generalizing f with
  | nil => rfl
  | cons m ms ih =>
    simp only [sumIdx]
    rw [sumTo_comm]
    apply sumTo_congr; intro k _
    exact ih (fun ks j => f (k :: ks) j)

theorem sw_sumIdx_mul_left (ns : List Nat) (c : α) (f : List Nat → α) :
    sumIdx ns (fun ks => c * f ks) = c * sumIdx ns f := by
  induction ns generalizing f with
  | nil => rfl
  | cons m ms ih =>
    simp only [sumIdx]
    rw [← sumTo_mul_left]
    apply sumTo_congr; intro k _
    exact ih (fun ks => f (k :: ks))

/-- the "sum over all entries" shape used by C07: rows outer, columns inner -/
def sw_S2 (ms ns : List Nat) (f : List Nat → List Nat → α) : α :=
  sumIdx ms (fun is => sumIdx ns (fun js => f is js))

theorem sw_S2_nil (f : List Nat → List Nat → α) : sw_S2 [] [] f = f [] [] := rfl

/-- peel one `(i, j)` pair off both index lists -/
theorem sw_S2_cons (m n : Nat) (ms ns : List Nat) (f : List Nat → List Nat → α) :
    sw_S2 (m :: ms) (n :: ns) f =
    sumTo m (fun i => sumTo n (fun j => sw_S2 ms ns (fun is js => f (i :: is) (j :: js)))) := by
  simp only [sw_S2, sumIdx]
  apply sumTo_congr; intro i _
  exact sw_sumIdx_sumTo ms n (fun is j => sumIdx ns (fun js => f (i :: is) (j :: js)))

theorem sw_S2_congr (ms ns : List Nat) {f g : List Nat → List Nat → α} (h : ∀ is js, f is js = g is js) :
    sw_S2 ms ns f = sw_S2 ms ns g := by
  have : f = g := funext (fun is => funext (h is))
  rw [this]

theorem sw_S2_sumTo (ms ns : List Nat) (n : Nat) (f : List Nat → List Nat → Nat → α) :
    sw_S2 ms ns (fun is js => sumTo n (fun k => f is js k)) =
    sumTo n (fun k => sw_S2 ms ns (fun is js => f is js k)) := by
  simp only [sw_S2]
  rw [← sw_sumIdx_sumTo]
  apply sw_sumIdx_congr; intro is
  exact sw_sumIdx_sumTo ns n (fun js k => f is js k)

theorem sw_S2_mul_left (ms ns : List Nat) (c : α) (f : List Nat → List Nat → α) :
    sw_S2 ms ns (fun is js => c * f is js) = c * sw_S2 ms ns f := by
  simp only [sw_S2]
  rw [← sw_sumIdx_mul_left]
  apply sw_sumIdx_congr; intro is
  exact sw_sumIdx_mul_left ns c (fun js => f is js)

/-! ### conjugation through bounded sums -/

theorem sw_cj_zero (cj : α → α) (hadd : ∀ a b, cj (a + b) = cj a + cj b) : cj 0 = 0 := by
  have h := hadd 0 0
  simpa using h

theorem sw_cj_sumTo (cj : α → α) (hadd : ∀ a b, cj (a + b) = cj a + cj b) (n : Nat) (f : Nat → α) :
    cj (sumTo n f) = sumTo n (fun k => cj (f k)) := by
  induction n with
  | zero => simpa [sumTo] using sw_cj_zero cj hadd
  | succ n ih => simp only [sumTo, hadd, ih]

/-! ### the row-vector sweep -/

/-- rank chain with an arbitrary last rank `s` (`WF cs r` is `sw_Chained cs r 1`) -/
def sw_Chained : List (Core α) → Nat → Nat → Prop
  | [], r, s => r = s
  | c :: cs, r, s => c.r0 = r ∧ sw_Chained cs c.r1 s

omit [CommRing α] in
theorem sw_Chained_of_WF (cs : List (Core α)) (r : Nat) (h : WF cs r) : sw_Chained cs r 1 := by
  induction cs generalizing r with
  | nil => exact h
  | cons c cs ih => exact ⟨h.1, ih c.r1 h.2⟩

theorem sw_vecSweep_gen (cs : List (Core α)) (ij : List (Nat × Nat)) (r s : Nat) (v : Nat → α) (b : Nat)
    (hc : sw_Chained cs r s) (hil : ij.length = cs.length) (hb : b < s) :
    vecSweep cs ij v b = sumTo r (fun a => v a * chain cs ij a b) := by
  induction cs generalizing ij r v with
  | nil =>
    have hr : r = s := hc
    subst hr
    simp only [vecSweep, chain]
    rw [sumTo_single b hb]
    · simp
    · intro k _ hne; simp [hne]
  | cons c cs ih =>
    match ij, hil with
    | i :: is, hil =>
      obtain ⟨h0, hc'⟩ := hc
      have hil' : is.length = cs.length := by simpa using hil
      simp only [vecSweep, chain]
      rw [ih is c.r1 _ hc' hil']
      subst h0
      -- Σ_k (Σ_a v a * c a k) * ch k = Σ_a v a * Σ_k c a k * ch k
      simp only [← sumTo_mul_right, ← sumTo_mul_left]
      rw [sumTo_comm]
      apply sumTo_congr; intro a _
      apply sumTo_congr; intro k _
      ring

theorem sw_vecSweep_WF (cs : List (Core α)) (ij : List (Nat × Nat)) (r : Nat) (v : Nat → α)
    (hw : WF cs r) (hil : ij.length = cs.length) :
    vecSweep cs ij v 0 = sumTo r (fun a => v a * chain cs ij a 0) :=
  sw_vecSweep_gen cs ij r 1 v 0 (sw_Chained_of_WF cs r hw) hil (by omega)

/-! ### `sum()` : the mode-summed train -/

theorem sw_WF_sumMode (cs : List (Core α)) (r : Nat) (h : WF cs r) : WF (cs.map sumModeCore) r := by
  induction cs generalizing r with
  | nil => exact h
  | cons c cs ih => exact ⟨h.1, ih c.r1 h.2⟩

theorem sw_chain_sumMode (cs : List (Core α)) (a b : Nat) :
    chain (cs.map sumModeCore) (cs.map (fun _ => ((0 : Nat), (0 : Nat)))) a b =
    sw_S2 (modesM cs) (modesN cs) (fun is js => chain cs (is.zip js) a b) := by
  induction cs generalizing a with
  | nil => rfl
  | cons c cs ih =>
    simp only [List.map_cons, chain, modesM, modesN]
    rw [sw_S2_cons]
    simp only [List.zip_cons_cons, chain]
    have e : (sumModeCore c).r1 = c.r1 := rfl
    rw [e]
    have IH : ∀ k, chain (cs.map sumModeCore) (cs.map (fun _ => ((0 : Nat), (0 : Nat)))) k b =
        sw_S2 (List.map (·.m) cs) (List.map (·.n) cs) (fun is js => chain cs (is.zip js) k b) :=
      fun k => ih k
    simp only [IH, sumModeCore]
    -- RHS: pull the rank sum and the core entry out of the index sums
    have step : ∀ i j, sw_S2 (List.map (·.m) cs) (List.map (·.n) cs)
          (fun is js => sumTo c.r1 (fun k => c.get a i j k * chain cs (is.zip js) k b)) =
        sumTo c.r1 (fun k => c.get a i j k *
          sw_S2 (List.map (·.m) cs) (List.map (·.n) cs) (fun is js => chain cs (is.zip js) k b)) := by
      intro i j
      rw [sw_S2_sumTo]
      apply sumTo_congr; intro k _
      exact sw_S2_mul_left _ _ _ _
    simp only [step]
    simp only [← sumTo_mul_right]
    exact sw_comm2 _ _ _ _

/-! ### Gram sweep (`dot`, `norm`) -/

/-- dense inner product of the two tails started at rank indices `(a, b)` -/
def sw_D (cj : α → α) (xs ys : List (Core α)) (a b : Nat) : α :=
  sw_S2 (modesM xs) (modesN xs)
    (fun is js => chain xs (is.zip js) a 0 * cj (chain ys (is.zip js) b 0))

theorem sw_D_cons (cj : α → α) (hadd : ∀ a b, cj (a + b) = cj a + cj b)
    (hmul : ∀ a b, cj (a * b) = cj a * cj b) (x y : Core α) (xs ys : List (Core α)) (a b : Nat) :
    sw_D cj (x :: xs) (y :: ys) a b =
    sumTo x.m (fun i => sumTo x.n (fun j => sumTo x.r1 (fun m => sumTo y.r1 (fun n =>
      (x.get a i j m * cj (y.get b i j n)) * sw_D cj xs ys m n)))) := by
  unfold sw_D
  simp only [modesM, modesN, List.map_cons]
  rw [sw_S2_cons]
  refine sumTo_congr fun i _ => sumTo_congr fun j _ => ?_
  simp only [List.zip_cons_cons, chain]
  rw [sw_S2_congr (g := fun is js => sumTo x.r1 (fun m => sumTo y.r1 (fun n =>
        (x.get a i j m * cj (y.get b i j n)) *
          (chain xs (is.zip js) m 0 * cj (chain ys (is.zip js) n 0)))))]
  · rw [sw_S2_sumTo]
    refine sumTo_congr fun m _ => ?_
    rw [sw_S2_sumTo]
    refine sumTo_congr fun n _ => ?_
    rw [sw_S2_mul_left]
  · intro is js
    rw [sw_cj_sumTo cj hadd, sumTo_mul_sumTo]
    refine sumTo_congr fun m _ => sumTo_congr fun n _ => ?_
    rw [hmul]; ring

theorem sw_gram_inv (cj : α → α) (hadd : ∀ a b, cj (a + b) = cj a + cj b)
    (hmul : ∀ a b, cj (a * b) = cj a * cj b) (h1 : cj 1 = 1)
    (xs ys : List (Core α)) (rx ry : Nat) (G : Nat → Nat → α)
    (hwx : WF xs rx) (hwy : WF ys ry) (hlen : xs.length = ys.length) :
    gramSweep cj xs ys G 0 0 =
    sumTo rx (fun a => sumTo ry (fun b => G a b * sw_D cj xs ys a b)) := by
  induction xs generalizing ys rx ry G with
  | nil =>
    match ys, hlen with
    | [], _ =>
      have hx : rx = 1 := hwx
      have hy : ry = 1 := hwy
      subst hx hy
      simp [gramSweep, sw_D, sw_S2, sumIdx, modesM, modesN, chain, sumTo_one, h1]
  | cons x xs ih =>
    match ys, hlen with
    | y :: ys, hlen =>
      obtain ⟨hx0, hwx'⟩ := hwx
      obtain ⟨hy0, hwy'⟩ := hwy
      have hlen' : xs.length = ys.length := by simpa using hlen
      simp only [gramSweep]
      rw [ih ys x.r1 y.r1 _ hwx' hwy' hlen']
      subst hx0 hy0
      simp only [sw_D_cons cj hadd hmul]
      simp only [← sumTo_mul_right, ← sumTo_mul_left]
      rw [sumTo_congr (fun m _ => sw_comm4 _ _ _ _ _ _)]
      rw [sw_comm4]
      refine sumTo_congr fun a _ => sumTo_congr fun b _ => sumTo_congr fun i _ =>
        sumTo_congr fun j _ => sumTo_congr fun m _ => sumTo_congr fun n _ => ?_
      ring

/-! ### bilinear form sweep -/

theorem sw_tIdx_cons (i : Nat) (is : List Nat) : tIdx (i :: is) = (i, 0) :: tIdx is := rfl

/-- dense bilinear form of the three tails started at rank indices `(l, s, r)` -/
def sw_B (cj : α → α) (xs As ys : List (Core α)) (l s r : Nat) : α :=
  sw_S2 (modesM As) (modesN As)
    (fun is js => cj (chain xs (tIdx is) l 0) * chain As (is.zip js) s 0 * chain ys (tIdx js) r 0)

theorem sw_B_cons (cj : α → α) (hadd : ∀ a b, cj (a + b) = cj a + cj b)
    (hmul : ∀ a b, cj (a * b) = cj a * cj b) (x A y : Core α) (xs As ys : List (Core α))
    (l s r : Nat) :
    sw_B cj (x :: xs) (A :: As) (y :: ys) l s r =
    sumTo A.m (fun m => sumTo A.n (fun n => sumTo x.r1 (fun L => sumTo A.r1 (fun S =>
      sumTo y.r1 (fun R =>
        (cj (x.get l m 0 L) * A.get s m n S * y.get r n 0 R) * sw_B cj xs As ys L S R))))) := by
  unfold sw_B
  simp only [modesM, modesN, List.map_cons]
  rw [sw_S2_cons]
  refine sumTo_congr fun m _ => sumTo_congr fun n _ => ?_
  simp only [List.zip_cons_cons, sw_tIdx_cons, chain]
  rw [sw_S2_congr (g := fun is js => sumTo x.r1 (fun L => sumTo A.r1 (fun S => sumTo y.r1 (fun R =>
        (cj (x.get l m 0 L) * A.get s m n S * y.get r n 0 R) *
          (cj (chain xs (tIdx is) L 0) * chain As (is.zip js) S 0 * chain ys (tIdx js) R 0)))))]
  · rw [sw_S2_sumTo]
    refine sumTo_congr fun L _ => ?_
    rw [sw_S2_sumTo]
    refine sumTo_congr fun S _ => ?_
    rw [sw_S2_sumTo]
    refine sumTo_congr fun R _ => ?_
    rw [sw_S2_mul_left]
  · intro is js
    rw [sw_cj_sumTo cj hadd, mul_assoc, sumTo_mul_sumTo A.r1 y.r1, sumTo_mul_sumTo]
    refine sumTo_congr fun L _ => sumTo_congr fun S _ => ?_
    rw [← sumTo_mul_left]
    refine sumTo_congr fun R _ => ?_
    rw [hmul]; ring

theorem sw_bil_inv (cj : α → α) (hadd : ∀ a b, cj (a + b) = cj a + cj b)
    (hmul : ∀ a b, cj (a * b) = cj a * cj b) (h1 : cj 1 = 1)
    (xs As ys : List (Core α)) (rx rA ry : Nat) (T : Nat → Nat → Nat → α)
    (hwx : WF xs rx) (hwA : WF As rA) (hwy : WF ys ry)
    (hlx : xs.length = As.length) (hly : ys.length = As.length) :
    bilSweep cj xs As ys T 0 0 0 =
    sumTo rx (fun l => sumTo rA (fun s => sumTo ry (fun r => T l s r * sw_B cj xs As ys l s r))) := by
  induction xs generalizing As ys rx rA ry T with
  | nil =>
    match As, ys, hlx, hly with
    | [], [], _, _ =>
      have hx : rx = 1 := hwx
      have hA : rA = 1 := hwA
      have hy : ry = 1 := hwy
      subst hx hA hy
      simp [bilSweep, sw_B, sw_S2, sumIdx, modesM, modesN, chain, sumTo_one, h1]
  | cons x xs ih =>
    match As, ys, hlx, hly with
    | A :: As, y :: ys, hlx, hly =>
      obtain ⟨hx0, hwx'⟩ := hwx
      obtain ⟨hA0, hwA'⟩ := hwA
      obtain ⟨hy0, hwy'⟩ := hwy
      have hlx' : xs.length = As.length := by simpa using hlx
      have hly' : ys.length = As.length := by simpa using hly
      simp only [bilSweep]
      rw [ih As ys x.r1 A.r1 y.r1 _ hwx' hwA' hwy' hlx' hly']
      subst hx0 hA0 hy0
      simp only [sw_B_cons cj hadd hmul]
      simp only [← sumTo_mul_right, ← sumTo_mul_left]
      rw [sumTo_congr (fun L _ => sumTo_congr (fun S _ => sw_comm5 _ _ _ _ _ _ _))]
      rw [sumTo_congr (fun L _ => sw_comm5 _ _ _ _ _ _ _)]
      rw [sw_comm5]
      refine sumTo_congr fun l _ => sumTo_congr fun s _ => sumTo_congr fun r _ =>
        sumTo_congr fun m _ => sumTo_congr fun n _ => sumTo_congr fun L _ =>
        sumTo_congr fun S _ => sumTo_congr fun R _ => ?_
      ring

/-! ### small facts and concrete trains for the non-vacuity examples of C07 -/

omit [CommRing α] in
theorem sw_SameModes_length (xs ys : List (Core α)) (h : SameModes xs ys) : xs.length = ys.length := by
  induction xs generalizing ys with
  | nil =>
    match ys, h with
    | [], _ => rfl
  | cons x xs ih =>
    match ys, h with
    | y :: ys, h => simp [ih ys h.2.2]

omit [CommRing α] in
theorem sw_SameModes_refl (xs : List (Core α)) : SameModes xs xs := by
  induction xs with
  | nil => trivial
  | cons x xs ih => exact ⟨rfl, rfl, ih⟩

/-- order-3 tensor train, modes 2,3,4, ranks 1,2,3,1 -/
def sw_exX : List (Core Int) :=
  [⟨1, 2, 1, 2, fun _ i _ b => (i + b : Int)⟩, ⟨2, 3, 1, 3, fun a i _ b => (a * i + b : Int)⟩,
   ⟨3, 4, 1, 1, fun a i _ _ => (a + i : Int)⟩]

/-- order-3 tensor train, modes 2,3,4, ranks 1,3,2,1 -/
def sw_exY : List (Core Int) :=
  [⟨1, 2, 1, 3, fun _ i _ b => (i * b + 1 : Int)⟩, ⟨3, 3, 1, 2, fun a i _ b => (a + i - b : Int)⟩,
   ⟨2, 4, 1, 1, fun a i _ _ => (2 * a + i : Int)⟩]

/-- order-2 operator train, row modes 2,3, column modes 3,2, ranks 1,2,1 -/
def sw_exA : List (Core Int) :=
  [⟨1, 2, 3, 2, fun _ i j b => (i + 2 * j + b : Int)⟩, ⟨2, 3, 2, 1, fun a i j _ => (a * i - j : Int)⟩]

/-- order-2 tensor train with the row modes of `sw_exA`, ranks 1,2,1 -/
def sw_exU : List (Core Int) :=
  [⟨1, 2, 1, 2, fun _ i _ b => (i + b : Int)⟩, ⟨2, 3, 1, 1, fun a i _ _ => (a - i : Int)⟩]

/-- order-2 tensor train with the column modes of `sw_exA`, ranks 1,3,1 -/
def sw_exV : List (Core Int) :=
  [⟨1, 3, 1, 3, fun _ i _ b => (i * b + 1 : Int)⟩, ⟨3, 2, 1, 1, fun a i _ _ => (a + 3 * i : Int)⟩]

end TT
