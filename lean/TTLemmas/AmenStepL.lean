import TTModel.AmenStep
import TTLemmas.Sum
import TTLemmas.Sweep
import TTLemmas.DecompL
import Mathlib.Data.List.Forall2
import Mathlib.Tactic.Ring

/-!
Helpers for C12d (the core update of the AMEn routines, `TTModel/AmenStep.lean`).  All names local to this file are
prefixed `as_`.

* row-major index arithmetic of the `[r0·m·n, r1]` unfolding (`as_idx_*`),
* the reassociation of a two-site block against an arbitrary right environment `D` (`as_two_site`),
* the block identities of `updatePlain` / `updateEnrich` / `truncCore` against an arbitrary `D` (`as_*_block`),
* replacing two neighbouring cores inside a train (`as_chain_splice`, `as_WF_splice`),
* the scan of the rank rule (`as_scanDown_inv`).
-/
namespace TT.Amen
open TT TT.Decomp
variable {α : Type} [CommRing α]

/-! ### row-major index arithmetic -/

theorem as_idx_lt {r0 m n a i j : Nat} (ha : a < r0) (hi : i < m) (hj : j < n) :
    (a * m + i) * n + j < r0 * m * n := by
  have h1 : a * m + i + 1 ≤ r0 * m := by
    have := Nat.mul_le_mul_right m (show a + 1 ≤ r0 by omega)
    rw [Nat.add_mul] at this
    omega
  have h2 := Nat.mul_le_mul_right n h1
  rw [Nat.add_mul] at h2
  omega

theorem as_idx_a {m n a i j : Nat} (hi : i < m) (hj : j < n) :
    ((a * m + i) * n + j) / (m * n) = a := by
  rw [Nat.mul_comm m n, ← Nat.div_div_eq_div_mul, merge_div hj, merge_div hi]

theorem as_idx_i {m n a i j : Nat} (hi : i < m) (hj : j < n) :
    (((a * m + i) * n + j) / n) % m = i := by
  rw [merge_div hj, merge_mod hi]

theorem as_idx_j {m n a i j : Nat} (hj : j < n) :
    ((a * m + i) * n + j) % n = j := merge_mod hj

omit [CommRing α] in
/-- `unfoldL` read at a row-major merged row index is the core entry -/
theorem as_unfoldL_get (c : Core α) (a i j b : Nat) (hi : i < c.m) (hj : j < c.n) :
    unfoldL c ((a * c.m + i) * c.n + j) b = c.get a i j b := by
  simp only [unfoldL]
  rw [as_idx_a hi hj, as_idx_i hi hj, as_idx_j hj]

/-! ### two-site blocks -/

/-- `Σ_t L_t Σ_l (Σ_q W_tq N_ql) D_l = Σ_q (Σ_t L_t W_tq) Σ_l N_ql D_l` -/
theorem as_two_site (R n0 n1 : Nat) (L : Nat → α) (W N : Nat → Nat → α) (D : Nat → α) :
    sumTo R (fun t => L t * sumTo n1 (fun l => sumTo n0 (fun q => W t q * N q l) * D l)) =
    sumTo n0 (fun q => sumTo R (fun t => L t * W t q) * sumTo n1 (fun l => N q l * D l)) := by
  simp only [sumTo_eq_sum, Finset.mul_sum, Finset.sum_mul]
  conv_lhs => rw [Finset.sum_comm]
  conv_rhs => rw [Finset.sum_comm]
  refine Finset.sum_congr rfl fun l _ => ?_
  rw [Finset.sum_comm]
  refine Finset.sum_congr rfl fun q _ => ?_
  refine Finset.sum_congr rfl fun t _ => ?_
  ring

/-- matrix level: `Q · ([v | 0]·Rᵀ)ᵀ = u · vᵀ` whenever `Q·R = [u | uk]` -/
theorem as_enrich_matrix (rows r radd : Nat) (u uk W : Mat α) (g : Fact α)
    (hqr : ∀ p c, p < rows → c < r + radd →
      sumTo g.r (fun t => g.left p t * g.right t c) = hcat u r uk p c)
    (p q : Nat) (hp : p < rows) :
    sumTo g.r (fun t => g.left p t * enrichRight r W g.right t q) =
      sumTo r (fun c => u p c * W c q) := by
  simp only [enrichRight]
  rw [sumTo_congr (fun t _ => (sumTo_mul_left r (g.left p t) _).symm), sumTo_comm]
  refine sumTo_congr fun c hc => ?_
  have h := hqr p c hp (by omega)
  simp only [hcat, hc, if_true] at h
  rw [← h, ← sumTo_mul_right]
  refine sumTo_congr fun t _ => ?_
  ring

/-- the plain update against an arbitrary right environment `D` -/
theorem as_plain_block (c nxt : Core α) (f : Fact α) (i1 j1 i2 j2 a : Nat) (D : Nat → α) (hr : nxt.r0 = c.r1) :
    sumTo (updatePlain c nxt f).1.r1 (fun t => (updatePlain c nxt f).1.get a i1 j1 t *
      sumTo (updatePlain c nxt f).2.r1 (fun l => (updatePlain c nxt f).2.get t i2 j2 l * D l)) =
    sumTo (truncCore c f).r1 (fun q => (truncCore c f).get a i1 j1 q *
      sumTo nxt.r1 (fun l => nxt.get q i2 j2 l * D l)) := by
  simp only [updatePlain, foldL, absorbLeft, truncCore]
  rw [hr]
  exact as_two_site f.r c.r1 nxt.r1 _ f.right (fun q l => nxt.get q i2 j2 l) D

/-- the enriching update against an arbitrary right environment `D` -/
theorem as_enrich_block (qr : Oracle α) (hqr : Exact qr) (c nxt : Core α) (f : Fact α) (uk : Mat α) (radd : Nat)
    (i1 j1 i2 j2 a : Nat) (D : Nat → α)
    (ha : a < c.r0) (hi : i1 < c.m) (hj : j1 < c.n) (hr : nxt.r0 = c.r1) :
    sumTo (updateEnrich qr c nxt f uk radd).1.r1 (fun t => (updateEnrich qr c nxt f uk radd).1.get a i1 j1 t *
      sumTo (updateEnrich qr c nxt f uk radd).2.r1 (fun l =>
        (updateEnrich qr c nxt f uk radd).2.get t i2 j2 l * D l)) =
    sumTo (truncCore c f).r1 (fun q => (truncCore c f).get a i1 j1 q *
      sumTo nxt.r1 (fun l => nxt.get q i2 j2 l * D l)) := by
  simp only [updateEnrich, foldL, absorbLeft, truncCore]
  rw [hr]
  rw [as_two_site _ c.r1 nxt.r1 _ _ (fun q l => nxt.get q i2 j2 l) D]
  refine sumTo_congr fun q _ => ?_
  rw [as_enrich_matrix (c.r0 * c.m * c.n) f.r radd f.left uk f.right _
    (fun p cc hp hcc => hqr _ _ _ p cc hp hcc) _ q (as_idx_lt ha hi hj)]

/-- no truncation: the truncated core is the solved core -/
theorem as_truncCore_exact (c : Core α) (f : Fact α)
    (hf : ∀ p b, p < c.r0 * c.m * c.n → b < c.r1 →
      sumTo f.r (fun t => f.left p t * f.right t b) = unfoldL c p b)
    (a i j b : Nat) (ha : a < c.r0) (hi : i < c.m) (hj : j < c.n) (hb : b < c.r1) :
    (truncCore c f).get a i j b = c.get a i j b := by
  simp only [truncCore]
  rw [hf _ b (as_idx_lt ha hi hj) hb, as_unfoldL_get c a i j b hi hj]

/-- the whole block against an arbitrary right environment `D` -/
theorem as_update_block (svd qr : Oracle α) (hsvd : Exact svd) (hqr : Exact qr) (c nxt : Core α)
    (enrich : Option (Mat α × Nat)) (i1 j1 i2 j2 a : Nat) (D : Nat → α)
    (ha : a < c.r0) (hi : i1 < c.m) (hj : j1 < c.n) (hr : nxt.r0 = c.r1) :
    sumTo (update svd qr c nxt enrich).1.r1 (fun t => (update svd qr c nxt enrich).1.get a i1 j1 t *
      sumTo (update svd qr c nxt enrich).2.r1 (fun l => (update svd qr c nxt enrich).2.get t i2 j2 l * D l)) =
    sumTo c.r1 (fun q => c.get a i1 j1 q * sumTo nxt.r1 (fun l => nxt.get q i2 j2 l * D l)) := by
  have key : sumTo (truncCore c (svd (c.r0 * c.m * c.n) c.r1 (unfoldL c))).r1 (fun q =>
        (truncCore c (svd (c.r0 * c.m * c.n) c.r1 (unfoldL c))).get a i1 j1 q *
        sumTo nxt.r1 (fun l => nxt.get q i2 j2 l * D l)) =
      sumTo c.r1 (fun q => c.get a i1 j1 q * sumTo nxt.r1 (fun l => nxt.get q i2 j2 l * D l)) := by
    show sumTo c.r1 _ = _
    refine sumTo_congr fun q hq => ?_
    rw [as_truncCore_exact c _ (fun p b hp hb => hsvd _ _ _ p b hp hb) a i1 j1 q ha hi hj hq]
  rw [← key]
  cases enrich with
  | none => exact as_plain_block c nxt _ i1 j1 i2 j2 a D hr
  | some e =>
    obtain ⟨uk, radd⟩ := e
    exact as_enrich_block qr hqr c nxt _ uk radd i1 j1 i2 j2 a D ha hi hj hr

/-- a two-core chain as a block against the Kronecker delta -/
theorem as_chain_two (x y : Core α) (ij1 ij2 : Nat × Nat) (a b : Nat) :
    chain [x, y] [ij1, ij2] a b =
      sumTo x.r1 (fun t => x.get a ij1.1 ij1.2 t *
        sumTo y.r1 (fun l => y.get t ij2.1 ij2.2 l * (if l = b then 1 else 0))) := by
  simp only [chain]

/-- a chain starting with two cores as a block against the suffix chain -/
theorem as_chain_two_cons (x y : Core α) (post : List (Core α)) (ij1 ij2 : Nat × Nat) (rest : List (Nat × Nat))
    (a b : Nat) :
    chain (x :: y :: post) (ij1 :: ij2 :: rest) a b =
      sumTo x.r1 (fun t => x.get a ij1.1 ij1.2 t *
        sumTo y.r1 (fun l => y.get t ij2.1 ij2.2 l * chain post rest l b)) := by
  simp only [chain]

/-! ### replacing two neighbouring cores of a train -/

theorem as_update_ranks (svd qr : Oracle α) (c nxt : Core α) (enrich : Option (Mat α × Nat)) :
    (update svd qr c nxt enrich).1.r0 = c.r0 ∧
    (update svd qr c nxt enrich).1.r1 = (update svd qr c nxt enrich).2.r0 ∧
    (update svd qr c nxt enrich).2.r1 = nxt.r1 ∧
    (update svd qr c nxt enrich).1.m = c.m ∧ (update svd qr c nxt enrich).1.n = c.n ∧
    (update svd qr c nxt enrich).2.m = nxt.m ∧ (update svd qr c nxt enrich).2.n = nxt.n := by
  cases enrich with
  | none => simp [update, updatePlain, foldL, absorbLeft]
  | some e => obtain ⟨uk, radd⟩ := e; simp [update, updateEnrich, foldL, absorbLeft]

omit [CommRing α] in
/-- well-formedness only sees `r0` of the first, the bond between the two, and `r1` of the second core -/
theorem as_WF_splice (pre post : List (Core α)) (c nxt u1 u2 : Core α)
    (h0 : u1.r0 = c.r0) (h1 : u1.r1 = u2.r0) (h2 : u2.r1 = nxt.r1) :
    ∀ r, WF (pre ++ c :: nxt :: post) r → WF (pre ++ u1 :: u2 :: post) r := by
  induction pre with
  | nil =>
    intro r hw
    obtain ⟨hc, _, hp⟩ := hw
    exact ⟨h0.trans hc, h1.symm, h2 ▸ hp⟩
  | cons x pre ih =>
    intro r hw
    exact ⟨hw.1, ih x.r1 hw.2⟩

/-- two neighbouring cores may be replaced by any pair with the same block against every right environment -/
theorem as_chain_splice (pre post : List (Core α)) (c nxt u1 u2 : Core α) (b : Nat)
    (hblk : ∀ (i1 j1 i2 j2 a : Nat) (D : Nat → α), a < c.r0 → i1 < c.m → j1 < c.n → nxt.r0 = c.r1 →
      sumTo u1.r1 (fun t => u1.get a i1 j1 t * sumTo u2.r1 (fun l => u2.get t i2 j2 l * D l)) =
      sumTo c.r1 (fun q => c.get a i1 j1 q * sumTo nxt.r1 (fun l => nxt.get q i2 j2 l * D l))) :
    ∀ (r : Nat), WF (pre ++ c :: nxt :: post) r →
    ∀ (ij : List (Nat × Nat)),
      List.Forall₂ (fun (p : Nat × Nat) (k : Core α) => p.1 < k.m ∧ p.2 < k.n) ij (pre ++ c :: nxt :: post) →
    ∀ a, a < r → chain (pre ++ u1 :: u2 :: post) ij a b = chain (pre ++ c :: nxt :: post) ij a b := by
  induction pre with
  | nil =>
    intro r hw ij hij a ha
    obtain ⟨hc, hn, _⟩ := hw
    cases hij with
    | cons h1 t1 =>
      cases t1 with
      | cons h2 t2 =>
        simp only [List.nil_append]
        rw [as_chain_two_cons, as_chain_two_cons]
        exact hblk _ _ _ _ a _ (by omega) h1.1 h1.2 hn
  | cons x pre ih =>
    intro r hw ij hij a ha
    cases hij with
    | cons h1 t1 =>
      simp only [List.cons_append, chain]
      refine sumTo_congr fun k hk => ?_
      rw [ih x.r1 hw.2 _ t1 k hk]

/-! ### the scan of the rank rule -/

theorem as_scanDown_inv (bad : Nat → Bool) (h : Nat) :
    scanDown bad h ≤ h ∧
    (∀ ρ, scanDown bad h + 1 ≤ ρ → ρ ≤ h → bad ρ = false) ∧
    (1 ≤ h → 1 ≤ scanDown bad h) ∧
    (2 ≤ scanDown bad h → bad (scanDown bad h) = true) := by
  induction h with
  | zero =>
    refine ⟨by simp [scanDown], ?_, ?_, ?_⟩
    · intro ρ h1 h2; simp [scanDown] at h1; omega
    · intro h1; omega
    · intro h2; simp [scanDown] at h2
  | succ h ih =>
    obtain ⟨ih1, ih2, ih3, ih4⟩ := ih
    by_cases hb : bad (h + 1) = true
    · have e : scanDown bad (h + 1) = h + 1 := by simp [scanDown, hb]
      rw [e]
      refine ⟨Nat.le_refl _, ?_, ?_, ?_⟩
      · intro ρ h1 h2; omega
      · intro _; omega
      · intro _; exact hb
    · by_cases h0 : h = 0
      · subst h0
        have e : scanDown bad (0 + 1) = 1 := by simp [scanDown, hb]
        rw [e]
        refine ⟨Nat.le_refl _, ?_, ?_, ?_⟩
        · intro ρ h1 h2; omega
        · intro _; omega
        · intro h2; omega
      · have e : scanDown bad (h + 1) = scanDown bad h := by simp [scanDown, hb, h0]
        rw [e]
        refine ⟨by omega, ?_, ?_, ih4⟩
        · intro ρ h1 h2
          by_cases hρ : ρ ≤ h
          · exact ih2 ρ h1 hρ
          · have : ρ = h + 1 := by omega
            subst this
            simpa using hb
        · intro _; exact ih3 (by omega)

theorem as_scanDown_all_pass (h : Nat) (hh : 1 ≤ h) : scanDown (fun _ => false) h = 1 := by
  induction h with
  | zero => omega
  | succ h ih =>
    by_cases h0 : h = 0
    · subst h0; simp [scanDown]
    · simp [scanDown, h0]; exact ih (by omega)

end TT.Amen
