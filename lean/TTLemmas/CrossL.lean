import TTModel.Cross

/-!
# Helper lemmas for C14 (index bookkeeping of `dmrg_cross`)

Row-level view of `InRange`, its behaviour under `cons` / `++`, the splitting of the mode-size list
`ns` at a position, membership characterisations of the four model functions, and the equivalence of
`InRange` with the executable `inRangeB`.  No Mathlib needed.
-/
namespace TT.Cross

/-- one multi-index `s` has the length of `ns` and lies inside the mode sizes `ns` -/
def cr_RowOk (s ns : List Nat) : Prop :=
  s.length = ns.length ∧ ∀ k, (h : k < s.length) → s[k] < ns.getD k 0

theorem cr_getD_lt {α : Type} {l : List α} {i : Nat} (d : α) (h : i < l.length) :
    l.getD i d = l[i] := by simp [List.getD_eq_getElem?_getD, h]

theorem cr_getD_ge {α : Type} {l : List α} {i : Nat} (d : α) (h : l.length ≤ i) :
    l.getD i d = d := by simp [List.getD_eq_getElem?_getD, h]

theorem cr_inRange_iff {S : List (List Nat)} {ns : List Nat} :
    InRange S ns ↔ ∀ s ∈ S, cr_RowOk s ns := Iff.rfl

theorem cr_rowOk_nil : cr_RowOk [] [] := ⟨rfl, fun k h => absurd h (by simp)⟩

theorem cr_rowOk_nil_left {ns : List Nat} : cr_RowOk [] ns ↔ ns = [] := by
  constructor
  · rintro ⟨h, _⟩
    cases ns with
    | nil => rfl
    | cons n ns => simp at h
  · rintro rfl; exact cr_rowOk_nil

theorem cr_rowOk_cons {x n : Nat} {s ns : List Nat} :
    cr_RowOk (x :: s) (n :: ns) ↔ x < n ∧ cr_RowOk s ns := by
  constructor
  · rintro ⟨hl, h⟩
    refine ⟨?_, by simpa using hl, fun k hk => ?_⟩
    · have := h 0 (by simp)
      simpa using this
    · have := h (k + 1) (by simp; omega)
      simpa using this
  · rintro ⟨hx, hl, h⟩
    refine ⟨by simp [hl], fun k hk => ?_⟩
    cases k with
    | zero => simpa using hx
    | succ k => simpa using h k (by simpa using hk)

theorem cr_rowOk_append {s1 ns1 s2 ns2 : List Nat} (h1 : cr_RowOk s1 ns1) (h2 : cr_RowOk s2 ns2) :
    cr_RowOk (s1 ++ s2) (ns1 ++ ns2) := by
  induction s1 generalizing ns1 with
  | nil =>
    have : ns1 = [] := cr_rowOk_nil_left.mp h1
    subst this; simpa using h2
  | cons x s ih =>
    cases ns1 with
    | nil => exact absurd h1.1 (by simp)
    | cons n ns =>
      rw [cr_rowOk_cons] at h1
      simp only [List.cons_append]
      rw [cr_rowOk_cons]; exact ⟨h1.1, ih h1.2⟩

theorem cr_rowOk_single {x n : Nat} (h : x < n) : cr_RowOk [x] [n] :=
  cr_rowOk_cons.mpr ⟨h, cr_rowOk_nil⟩

/-- the row selected by an in-bounds number is a member, hence in range -/
theorem cr_rowOk_getD {S : List (List Nat)} {ns : List Nat} (h : InRange S ns) {i : Nat}
    (hi : i < S.length) : cr_RowOk (S.getD i []) ns := by
  rw [cr_getD_lt _ hi]
  exact h _ (List.getElem_mem hi)

/-! ### splitting the mode sizes -/

theorem cr_getD_eq {ns : List Nat} {k : Nat} (hk : k < ns.length) : ns.getD k 0 = ns[k] :=
  cr_getD_lt _ hk

theorem cr_take_succ {ns : List Nat} {k : Nat} (hk : k < ns.length) :
    ns.take (k + 1) = ns.take k ++ [ns.getD k 0] := by
  rw [cr_getD_eq hk]; exact (List.take_append_getElem hk).symm

theorem cr_drop_eq_cons {ns : List Nat} {k : Nat} (hk : k < ns.length) :
    ns.drop k = ns.getD k 0 :: ns.drop (k + 1) := by
  rw [cr_getD_eq hk]; exact List.drop_eq_getElem_cons hk

theorem cr_split2 {ns : List Nat} {k : Nat} (hk : k + 2 ≤ ns.length) :
    ns = ns.take k ++ [ns.getD k 0, ns.getD (k + 1) 0] ++ ns.drop (k + 2) := by
  have h1 : k < ns.length := by omega
  have h2 : k + 1 < ns.length := by omega
  have h := (List.take_append_drop k ns).symm
  rw [cr_drop_eq_cons h1, cr_drop_eq_cons h2] at h
  simpa using h

/-- a non-zero `getD … 0` witnesses that the position exists -/
theorem cr_lt_length_of_getD_pos {ns : List Nat} {k : Nat} (h : 0 < ns.getD k 0) : k < ns.length := by
  rcases Nat.lt_or_ge k ns.length with hk | hk
  · exact hk
  · rw [cr_getD_ge _ hk] at h; exact absurd h (by decide)

/-! ### membership in the model functions -/

theorem cr_mem_leftUpdate {L : List (List Nat)} {n : Nat} {piv : List Nat} {s : List Nat} :
    s ∈ leftUpdate L n piv ↔ ∃ p ∈ piv, s = L.getD (p / n) [] ++ [p % n] := by
  simp [leftUpdate, eq_comm]

theorem cr_mem_rightUpdate {R : List (List Nat)} {r : Nat} {piv : List Nat} {s : List Nat} :
    s ∈ rightUpdate R r piv ↔ ∃ p ∈ piv, s = (p / r) :: R.getD (p % r) [] := by
  simp [rightUpdate, eq_comm]

theorem cr_mem_rightInit {R : List (List Nat)} {n : Nat} {piv : List Nat} {s : List Nat} :
    s ∈ rightInit R n piv ↔ ∃ p ∈ piv, s = (p % n) :: R.getD (p / n) [] := by
  simp [rightInit, eq_comm]

theorem cr_mem_evalIndex {L R : List (List Nat)} {n1 n2 : Nat} {s : List Nat} :
    s ∈ evalIndex L n1 n2 R ↔
      ∃ l ∈ L, ∃ i, i < n1 ∧ ∃ j, j < n2 ∧ ∃ r ∈ R, s = l ++ [i, j] ++ r := by
  simp [evalIndex, eq_comm]

/-! ### lengths -/

theorem cr_length_flatMap_const {α β : Type} (l : List α) (f : α → List β) (c : Nat)
    (h : ∀ a ∈ l, (f a).length = c) : (l.flatMap f).length = l.length * c := by
  induction l with
  | nil => simp
  | cons a l ih =>
    rw [List.flatMap_cons, List.length_append, h a (by simp),
      ih (fun b hb => h b (List.mem_cons_of_mem _ hb)), List.length_cons, Nat.succ_mul, Nat.add_comm]

/-! ### the executable check -/

theorem cr_inRangeB_iff {S : List (List Nat)} {ns : List Nat} :
    inRangeB S ns = true ↔ InRange S ns := by
  simp only [inRangeB, InRange, List.all_eq_true, Bool.and_eq_true, beq_iff_eq, List.mem_range,
    decide_eq_true_eq]
  constructor
  · intro h s hs
    refine ⟨(h s hs).1, fun k hk => ?_⟩
    have := (h s hs).2 k hk
    rwa [cr_getD_lt _ hk] at this
  · intro h s hs
    refine ⟨(h s hs).1, fun k hk => ?_⟩
    rw [cr_getD_lt _ hk]
    exact (h s hs).2 k hk

instance cr_decInRange (S : List (List Nat)) (ns : List Nat) : Decidable (InRange S ns) :=
  decidable_of_iff _ cr_inRangeB_iff

end TT.Cross
