import TTModel.Heap

/-!
Helper lemmas for C06 (effect / aliasing model `TTModel/Heap.lean`).
-/
namespace TT.Heap

theorem length_setAt {β : Type} (l : List β) (k : Nat) (v : β) : (setAt l k v).length = l.length := by
  induction l generalizing k with
  | nil => rfl
  | cons x xs ih =>
    cases k with
    | zero => rfl
    | succ k => simp [setAt, ih]

/-- `setAt` only touches position `k` -/
theorem getElem?_setAt_ne {β : Type} (l : List β) (k j : Nat) (v : β) (h : k ≠ j) :
    (setAt l k v)[j]? = l[j]? := by
  induction l generalizing k j with
  | nil => rfl
  | cons x xs ih =>
    cases k with
    | zero =>
      cases j with
      | zero => exact absurd rfl h
      | succ j => rfl
    | succ k =>
      cases j with
      | zero => rfl
      | succ j =>
        simp only [setAt, List.getElem?_cons_succ]
        exact ih k j (by omega)

/-- `setAt` writes position `k` when it exists -/
theorem getElem?_setAt_eq {β : Type} (l : List β) (k : Nat) (v : β) (h : k < l.length) :
    (setAt l k v)[k]? = some v := by
  induction l generalizing k with
  | nil => simp at h
  | cons x xs ih =>
    cases k with
    | zero => rfl
    | succ k =>
      simp only [setAt, List.getElem?_cons_succ]
      exact ih k (by simpa using h)

/-- the three components of a step: objects, version counters, fresh counter -/
theorem step_alloc_objs (h : Heap) (al : List (Option Nat)) :
    (step h (.alloc al)).objs = h.objs ++ [{ listId := h.next, elems := (realise al (h.next + 1)).1 }] := by
  simp [step]

theorem step_alloc_ver (h : Heap) (al : List (Option Nat)) : (step h (.alloc al)).ver = h.ver := by
  simp [step]

theorem step_value (h : Heap) : step h .value = h := rfl

theorem step_setCore_ver (h : Heap) (r k : Nat) : (step h (.setCore r k)).ver = h.ver := by
  simp only [step]
  split <;> rfl

theorem step_reduceDims_ver (h : Heap) (r : Nat) (keep : List (Option Nat)) :
    (step h (.reduceDims r keep)).ver = h.ver := by
  simp only [step]
  split <;> rfl

theorem step_setCore_objs_ne (h : Heap) (r k ref : Nat) (hne : r ≠ ref) :
    (step h (.setCore r k)).objs[ref]? = h.objs[ref]? := by
  simp only [step]
  split
  · exact getElem?_setAt_ne _ _ _ _ hne
  · rfl

theorem step_reduceDims_objs_ne (h : Heap) (r ref : Nat) (keep : List (Option Nat)) (hne : r ≠ ref) :
    (step h (.reduceDims r keep)).objs[ref]? = h.objs[ref]? := by
  simp only [step]
  split
  · exact getElem?_setAt_ne _ _ _ _ hne
  · rfl

theorem step_setCore_length (h : Heap) (r k : Nat) : (step h (.setCore r k)).objs.length = h.objs.length := by
  simp only [step]
  split
  · exact length_setAt _ _ _
  · rfl

theorem step_reduceDims_length (h : Heap) (r : Nat) (keep : List (Option Nat)) :
    (step h (.reduceDims r keep)).objs.length = h.objs.length := by
  simp only [step]
  split
  · exact length_setAt _ _ _
  · rfl

theorem run_nil (h : Heap) : run h [] = h := rfl

theorem run_cons (h : Heap) (c : Call) (cs : List Call) : run h (c :: cs) = run (step h c) cs := rfl

theorem run_append (h : Heap) (cs ds : List Call) : run h (cs ++ ds) = run (run h cs) ds := by
  simp [run, List.foldl_append]

end TT.Heap
