import TTModel.KernelsDiv
import TTLemmas.Sum
import TTLemmas.Matmul

/-!
Helper lemmas for C13 (elementwise division = AMEn solve of `diag(y) q = x`):

* `dv_sumTo_delta` — a bounded sum against a Kronecker delta collapses to one term,
* `dv_mmCore_diagCore_get` — one core of `diag(y) @ x` equals the Hadamard core `mulCore y x`
  on in-range mode indices,
* `dv_chain_diag_matmul` — hence `matmul (diagEmbed ys) xs` and `mul ys xs` have the same `chain`
  on in-range multi-indices (no rank / shape hypothesis needed).
-/
namespace TT
open TT.Kern

variable {α : Type} [CommRing α]

/-- Kronecker-delta collapse of a bounded sum -/
theorem dv_sumTo_delta {n m : Nat} (hm : m < n) (f : Nat → α) :
    sumTo n (fun k => if m = k then f k else 0) = f m := by
  rw [sumTo_single m hm]
  · simp
  · intro k _ hne
    simp [Ne.symm hne]

/-- `diagEmbed` is `diagCore` core by core -/
theorem dv_diagEmbed_eq_map (ys : List (Core α)) : diagEmbed ys = ys.map diagCore := rfl

theorem dv_diagEmbed_cons (y : Core α) (ys : List (Core α)) :
    diagEmbed (y :: ys) = diagCore y :: diagEmbed ys := rfl

/-- one core of `diag(y) @ x` is the Hadamard core, for an in-range mode index -/
theorem dv_mmCore_diagCore_get (y x : Core α) (a i b : Nat) (hi : i < y.m) :
    (mmCore (diagCore y) x).get a i 0 b = (mulCore y x).get a i 0 b := by
  simp only [mmCore, diagCore, mulCore]
  rw [sumTo_single i hi]
  · simp
  · intro k _ hne
    simp [Ne.symm hne]

/-- outside the mode range the operator core yields `0` (the delta never fires) -/
theorem dv_mmCore_diagCore_get_outOfRange (y x : Core α) (a i b : Nat) (hi : y.m ≤ i) :
    (mmCore (diagCore y) x).get a i 0 b = 0 := by
  simp only [mmCore, diagCore]
  apply sumTo_eq_zero
  intro k hk
  have : ¬ (i = k) := by omega
  simp [this]

/-- `diag(y) @ x` and `y * x` have the same transfer-matrix chain on in-range multi-indices -/
theorem dv_chain_diag_matmul (ys xs : List (Core α)) (is : List Nat)
    (hin : List.Forall₂ (fun i (y : Core α) => i < y.m) is ys) (a b : Nat) :
    chain (matmul (diagEmbed ys) xs) (tIdx is) a b = chain (mul ys xs) (tIdx is) a b := by
  induction hin generalizing xs a with
  | nil => cases xs <;> simp [diagEmbed, matmul, mul]
  | @cons i y is ys hi _ ih =>
    cases xs with
    | nil => simp [diagEmbed, matmul, mul]
    | cons x xs =>
      show sumTo (y.r1 * x.r1) (fun k => (mmCore (diagCore y) x).get a i 0 k *
            chain (matmul (diagEmbed ys) xs) (tIdx is) k b) =
          sumTo (y.r1 * x.r1) (fun k => (mulCore y x).get a i 0 k *
            chain (mul ys xs) (tIdx is) k b)
      apply sumTo_congr; intro k _
      rw [ih xs k, dv_mmCore_diagCore_get y x a i k hi]

/-- entry form: on in-range multi-indices `diag(y) @ x` and `y * x` represent the same entry -/
theorem dv_full_diag_matmul (ys xs : List (Core α)) (is : List Nat)
    (hin : List.Forall₂ (fun i (y : Core α) => i < y.m) is ys) :
    full (matmul (diagEmbed ys) xs) (tIdx is) = full (mul ys xs) (tIdx is) :=
  dv_chain_diag_matmul ys xs is hin 0 0

theorem dv_forall₂_length {β γ : Type} {R : β → γ → Prop} {l₁ : List β} {l₂ : List γ}
    (h : List.Forall₂ R l₁ l₂) : l₁.length = l₂.length := by
  induction h with
  | nil => rfl
  | cons _ _ ih => simp [ih]

theorem dv_length_tIdx (is : List Nat) : (tIdx is).length = is.length := by
  simp [tIdx]

end TT
