import TTModel.Extras
import TTLemmas.Sum

/-!
# `reduce_dims` preserves the represented tensor

`reduceDims excl cs` removes the size-1 modes of a train (`m = 1 ∧ n = 1`, position not excluded)
by multiplying the `r0 × r1` transfer matrix of the removed core into a neighbour.
`keptMask` says which positions survive, `expandIdx` re-inserts the index `(0,0)` at the removed
positions, and `reduceDims_full` is the value theorem.  Helper names carry the prefix `rd_`.
-/
namespace TT
open Finset
variable {α : Type} [CommRing α]

/-! ### definitions -/

/-- mode sizes `(m, n)` core by core -/
def modes (cs : List (Core α)) : List (Nat × Nat) := cs.map (fun c => (c.m, c.n))

/-- the test of `reduce_dims`: `shape[1] == 1 and shape[2] == 1 and not i in exclude` -/
def removableB (excl : Nat → Bool) (i : Nat) (mn : Nat × Nat) : Bool :=
  decide (mn.1 = 1 ∧ mn.2 = 1 ∧ excl i = false)

/-- position `i` with mode sizes `mn` is not removable -/
def keepB (excl : Nat → Bool) (i : Nat) (mn : Nat × Nat) : Bool := !(removableB excl i mn)

/-- survival mask, following the loop of `reduce_dims`: `any` says whether some earlier core has
    been kept (`len(cores_new) > 0`).  A removable position is dropped, except the very last one
    when nothing has been kept before it. -/
def maskGo (excl : Nat → Bool) : Nat → Bool → List (Nat × Nat) → List Bool
  | _, _, [] => []
  | i, any, [mn] => [keepB excl i mn || !any]
  | i, any, mn :: mn' :: ms =>
    keepB excl i mn :: maskGo excl (i+1) (any || keepB excl i mn) (mn' :: ms)

/-- survival mask on a list of mode sizes -/
def keptMaskM (excl : Nat → Bool) (ms : List (Nat × Nat)) : List Bool := maskGo excl 0 false ms

/-- which positions of `cs` survive `reduceDims excl` -/
def keptMask (excl : Nat → Bool) (cs : List (Core α)) : List Bool := keptMaskM excl (modes cs)

/-- the naive mask: position `i` survives iff it is not removable (see `keptMaskM_eq`) -/
def rawMask (excl : Nat → Bool) : Nat → List (Nat × Nat) → List Bool
  | _, [] => []
  | i, mn :: ms => keepB excl i mn :: rawMask excl (i+1) ms

/-- re-insert the index `(0,0)` at the removed positions -/
def expandIdx : List Bool → List (Nat × Nat) → List (Nat × Nat)
  | [], _ => []
  | false :: ms, xs => (0, 0) :: expandIdx ms xs
  | true :: ms, x :: xs => x :: expandIdx ms xs
  | true :: _, [] => []

/-- sub-list at the kept positions -/
def keepBy {β : Type} : List Bool → List β → List β
  | true :: ms, x :: xs => x :: keepBy ms xs
  | false :: ms, _ :: xs => keepBy ms xs
  | _, _ => []

/-- number of surviving positions -/
def keptCount (mask : List Bool) : Nat := mask.count true

/-! ### one-step lemmas -/

/-- absorbing a size-1 core into its left neighbour = evaluating it at `(0,0)` -/
theorem chain_absorbRight (last c : Core α) (rest : List (Core α)) (x : Nat × Nat)
    (ijs : List (Nat × Nat)) (a b : Nat) :
    chain (absorbRight last c :: rest) (x :: ijs) a b
      = chain (last :: c :: rest) (x :: (0, 0) :: ijs) a b := by
  simp only [chain, absorbRight, sumTo_eq_sum, Finset.sum_mul, Finset.mul_sum]
  rw [Finset.sum_comm]
  apply Finset.sum_congr rfl; intro l _
  apply Finset.sum_congr rfl; intro k _
  ring

/-- absorbing a size-1 core into its right neighbour = evaluating it at `(0,0)` -/
theorem chain_absorbLeft (c nxt : Core α) (rest : List (Core α))
    (ijs : List (Nat × Nat)) (a b : Nat) :
    chain (absorbLeft c nxt :: rest) ijs a b
      = chain (c :: nxt :: rest) ((0, 0) :: ijs) a b := by
  cases ijs with
  | nil => simp [chain, sumTo_eq_sum]
  | cons x ijs =>
    simp only [chain, absorbLeft, sumTo_eq_sum, Finset.sum_mul, Finset.mul_sum]
    rw [Finset.sum_comm]
    apply Finset.sum_congr rfl; intro l _
    apply Finset.sum_congr rfl; intro k _
    ring

/-! ### the accumulator below its head is never touched -/

theorem rd_reduceGo_acc (excl : Nat → Bool) :
    ∀ (n : Nat) (rest : List (Core α)) (i : Nat) (last : Core α) (acc' : List (Core α)),
      rest.length = n →
      reduceGo excl i (last :: acc') rest = acc'.reverse ++ reduceGo excl i [last] rest := by
  intro n
  induction n with
  | zero =>
    intro rest i last acc' h
    have : rest = [] := List.length_eq_zero_iff.mp h
    subst this
    simp [reduceGo]
  | succ n ih =>
    intro rest i last acc' h
    match rest, h with
    | [c], _ =>
      simp only [reduceGo]
      split_ifs <;> simp
    | c :: nxt :: rest, h =>
      have hl : (nxt :: rest).length = n := by simpa using h
      simp only [reduceGo]
      split_ifs with h1 h2
      · exact ih _ _ _ _ hl
      · exact ih (absorbLeft c nxt :: rest) _ _ _ (by simpa using hl)
      · rw [ih _ _ c (last :: acc') hl, ih _ _ c [last] hl]; simp

/-! ### bookkeeping lemmas for the mask -/

omit [CommRing α] in
theorem rd_keepB_false {excl : Nat → Bool} {i : Nat} {c : Core α}
    (h : c.m = 1 ∧ c.n = 1 ∧ excl i = false) : keepB excl i (c.m, c.n) = false := by
  simp [keepB, removableB, h]

omit [CommRing α] in
theorem rd_keepB_true {excl : Nat → Bool} {i : Nat} {c : Core α}
    (h : ¬ (c.m = 1 ∧ c.n = 1 ∧ excl i = false)) : keepB excl i (c.m, c.n) = true := by
  simp only [keepB, removableB, Bool.not_eq_true', decide_eq_false_iff_not]
  exact h

omit [CommRing α] in
theorem modes_cons (c : Core α) (cs : List (Core α)) : modes (c :: cs) = (c.m, c.n) :: modes cs := rfl
omit [CommRing α] in
theorem modes_nil : modes ([] : List (Core α)) = [] := rfl
theorem rd_modes_absorbLeft (c nxt : Core α) (rest : List (Core α)) :
    modes (absorbLeft c nxt :: rest) = modes (nxt :: rest) := rfl

theorem maskGo_nil (excl : Nat → Bool) (i : Nat) (any : Bool) : maskGo excl i any [] = [] := rfl
theorem maskGo_single (excl : Nat → Bool) (i : Nat) (any : Bool) (mn : Nat × Nat) :
    maskGo excl i any [mn] = [keepB excl i mn || !any] := rfl
theorem maskGo_cons2 (excl : Nat → Bool) (i : Nat) (any : Bool) (mn mn' : Nat × Nat)
    (ms : List (Nat × Nat)) :
    maskGo excl i any (mn :: mn' :: ms)
      = keepB excl i mn :: maskGo excl (i+1) (any || keepB excl i mn) (mn' :: ms) := rfl

theorem keptCount_true (ms : List Bool) : keptCount (true :: ms) = keptCount ms + 1 := by
  simp [keptCount]
theorem keptCount_false (ms : List Bool) : keptCount (false :: ms) = keptCount ms := by
  simp [keptCount]
theorem keptCount_nil : keptCount [] = 0 := rfl

/-! ### the invariant of `reduceGo`: value -/

/-- invariant with a non-empty accumulator `[last]` (`last` may carry pending right-absorptions) -/
theorem rd_chain_B (excl : Nat → Bool) :
    ∀ (n : Nat) (rest : List (Core α)) (i : Nat) (last : Core α) (x : Nat × Nat)
      (ij : List (Nat × Nat)) (a b : Nat),
      rest.length = n → ij.length = keptCount (maskGo excl i true (modes rest)) →
      chain (reduceGo excl i [last] rest) (x :: ij) a b
        = chain (last :: rest) (x :: expandIdx (maskGo excl i true (modes rest)) ij) a b := by
  intro n
  induction n with
  | zero =>
    intro rest i last x ij a b h hij
    have : rest = [] := List.length_eq_zero_iff.mp h
    subst this
    simp [reduceGo, chain]
  | succ n ih =>
    intro rest i last x ij a b h hij
    match rest, h, hij with
    | [c], _, hij =>
      simp only [reduceGo]
      split_ifs with h1
      · simp only [modes_cons, modes_nil, maskGo_single, rd_keepB_false h1] at hij ⊢
        simp only [List.reverse_cons, List.reverse_nil, List.nil_append, Bool.not_true,
          Bool.or_false, expandIdx]
        rw [chain_absorbRight]
        simp [chain]
      · simp only [modes_cons, modes_nil, maskGo_single, rd_keepB_true h1] at hij ⊢
        match ij, hij with
        | [y], _ => simp [expandIdx]
    | c :: nxt :: rest, h, hij =>
      have hl : (nxt :: rest).length = n := by simpa using h
      simp only [reduceGo]
      simp only [modes_cons, maskGo_cons2] at hij ⊢
      split_ifs with h1 h2
      · rw [rd_keepB_false h1] at hij ⊢
        rw [keptCount_false] at hij
        simp only [Bool.or_false, expandIdx] at hij ⊢
        rw [ih (nxt :: rest) (i+1) (absorbRight last c) x ij a b hl hij, chain_absorbRight]
        rfl
      · rw [rd_keepB_false h1] at hij ⊢
        rw [keptCount_false] at hij
        simp only [Bool.or_false, expandIdx] at hij ⊢
        rw [ih (absorbLeft c nxt :: rest) (i+1) last x ij a b (by simpa using hl) hij]
        simp only [chain]
        apply sumTo_congr; intro k _
        rw [chain_absorbLeft]
        rfl
      · rw [rd_keepB_true h1] at hij ⊢
        rw [keptCount_true] at hij
        simp only [Bool.or_true] at hij ⊢
        match ij, hij with
        | y :: ys, hij =>
          have hys : ys.length = keptCount (maskGo excl (i+1) true ((nxt.m, nxt.n) :: modes rest)) := by
            simpa using hij
          rw [rd_reduceGo_acc excl n (nxt :: rest) (i+1) c [last] hl]
          simp only [List.reverse_cons, List.reverse_nil, List.nil_append, List.singleton_append,
            expandIdx, chain]
          apply sumTo_congr; intro k _
          rw [ih (nxt :: rest) (i+1) c y ys k b hl hys]
          rfl

/-- invariant with an empty accumulator (nothing kept so far) -/
theorem rd_chain_A (excl : Nat → Bool) :
    ∀ (n : Nat) (rest : List (Core α)) (i : Nat) (ij : List (Nat × Nat)) (a b : Nat),
      rest.length = n → ij.length = keptCount (maskGo excl i false (modes rest)) →
      chain (reduceGo excl i [] rest) ij a b
        = chain rest (expandIdx (maskGo excl i false (modes rest)) ij) a b := by
  intro n
  induction n with
  | zero =>
    intro rest i ij a b h hij
    have : rest = [] := List.length_eq_zero_iff.mp h
    subst this
    simp [reduceGo, chain]
  | succ n ih =>
    intro rest i ij a b h hij
    match rest, h, hij with
    | [c], _, hij =>
      simp only [reduceGo]
      simp only [modes_cons, modes_nil, maskGo_single, Bool.not_false, Bool.or_true] at hij ⊢
      match ij, hij with
      | [y], _ => simp [expandIdx]
    | c :: nxt :: rest, h, hij =>
      have hl : (nxt :: rest).length = n := by simpa using h
      simp only [reduceGo]
      simp only [modes_cons, maskGo_cons2] at hij ⊢
      split_ifs with h1 h2
      · rw [rd_keepB_false h1] at hij ⊢
        rw [keptCount_false] at hij
        simp only [Bool.or_false, expandIdx] at hij ⊢
        rw [ih (absorbLeft c nxt :: rest) (i+1) ij a b (by simpa using hl) hij, chain_absorbLeft]
        rfl
      · rw [rd_keepB_false h1] at hij ⊢
        rw [keptCount_false] at hij
        simp only [Bool.or_false, expandIdx] at hij ⊢
        rw [ih (absorbLeft c nxt :: rest) (i+1) ij a b (by simpa using hl) hij, chain_absorbLeft]
        rfl
      · rw [rd_keepB_true h1] at hij ⊢
        rw [keptCount_true] at hij
        simp only [Bool.or_true] at hij ⊢
        match ij, hij with
        | y :: ys, hij =>
          have hys : ys.length = keptCount (maskGo excl (i+1) true ((nxt.m, nxt.n) :: modes rest)) := by
            simpa using hij
          rw [rd_chain_B excl n (nxt :: rest) (i+1) c y ys a b hl hys]
          rfl

/-! ### the invariant of `reduceGo`: well-formedness -/

theorem rd_WF_B (excl : Nat → Bool) :
    ∀ (n : Nat) (rest : List (Core α)) (i : Nat) (last : Core α) (r : Nat),
      rest.length = n → WF (last :: rest) r → WF (reduceGo excl i [last] rest) r := by
  intro n
  induction n with
  | zero =>
    intro rest i last r h hw
    have : rest = [] := List.length_eq_zero_iff.mp h
    subst this
    simpa [reduceGo] using hw
  | succ n ih =>
    intro rest i last r h hw
    match rest, h with
    | [c], _ =>
      simp only [reduceGo]
      split_ifs with h1
      · obtain ⟨h0, h1', h2⟩ := hw
        exact ⟨h0, h2⟩
      · simpa using hw
    | c :: nxt :: rest, h =>
      have hl : (nxt :: rest).length = n := by simpa using h
      obtain ⟨h0, hc0, hn0, hw'⟩ := hw
      simp only [reduceGo]
      split_ifs with h1 h2
      · exact ih (nxt :: rest) (i+1) (absorbRight last c) r hl ⟨h0, hn0, hw'⟩
      · exact ih (absorbLeft c nxt :: rest) (i+1) last r (by simpa using hl) ⟨h0, hc0, hw'⟩
      · rw [rd_reduceGo_acc excl n (nxt :: rest) (i+1) c [last] hl]
        exact ⟨h0, ih (nxt :: rest) (i+1) c last.r1 hl ⟨hc0, hn0, hw'⟩⟩

theorem rd_WF_A (excl : Nat → Bool) :
    ∀ (n : Nat) (rest : List (Core α)) (i : Nat) (r : Nat),
      rest.length = n → WF rest r → WF (reduceGo excl i [] rest) r := by
  intro n
  induction n with
  | zero =>
    intro rest i r h hw
    have : rest = [] := List.length_eq_zero_iff.mp h
    subst this
    simpa [reduceGo] using hw
  | succ n ih =>
    intro rest i r h hw
    match rest, h with
    | [c], _ =>
      simp only [reduceGo]
      split_ifs with h1
      · exact hw
      · simpa using hw
    | c :: nxt :: rest, h =>
      have hl : (nxt :: rest).length = n := by simpa using h
      obtain ⟨hc0, hn0, hw'⟩ := hw
      simp only [reduceGo]
      split_ifs with h1 h2
      · exact ih (absorbLeft c nxt :: rest) (i+1) r (by simpa using hl) ⟨hc0, hw'⟩
      · exact ih (absorbLeft c nxt :: rest) (i+1) r (by simpa using hl) ⟨hc0, hw'⟩
      · exact rd_WF_B excl n (nxt :: rest) (i+1) c r hl ⟨hc0, hn0, hw'⟩

/-! ### the invariant of `reduceGo`: mode sizes -/

theorem rd_modes_B (excl : Nat → Bool) :
    ∀ (n : Nat) (rest : List (Core α)) (i : Nat) (last : Core α),
      rest.length = n →
      modes (reduceGo excl i [last] rest)
        = (last.m, last.n) :: keepBy (maskGo excl i true (modes rest)) (modes rest) := by
  intro n
  induction n with
  | zero =>
    intro rest i last h
    have : rest = [] := List.length_eq_zero_iff.mp h
    subst this
    simp [reduceGo, modes, maskGo, keepBy]
  | succ n ih =>
    intro rest i last h
    match rest, h with
    | [c], _ =>
      simp only [reduceGo]
      split_ifs with h1
      · simp [modes, maskGo, rd_keepB_false h1, keepBy, absorbRight]
      · simp [modes, maskGo, rd_keepB_true h1, keepBy]
    | c :: nxt :: rest, h =>
      have hl : (nxt :: rest).length = n := by simpa using h
      simp only [reduceGo]
      simp only [modes_cons, maskGo_cons2]
      split_ifs with h1 h2
      · rw [rd_keepB_false h1, ih (nxt :: rest) (i+1) (absorbRight last c) hl]
        simp [keepBy, absorbRight, modes_cons]
      · rw [rd_keepB_false h1, ih (absorbLeft c nxt :: rest) (i+1) last (by simpa using hl)]
        simp [keepBy, absorbLeft, modes_cons]
      · rw [rd_keepB_true h1, rd_reduceGo_acc excl n (nxt :: rest) (i+1) c [last] hl]
        simp only [List.reverse_cons, List.reverse_nil, List.nil_append, List.singleton_append,
          modes_cons, ih (nxt :: rest) (i+1) c hl, keepBy, Bool.or_true]

theorem rd_modes_A (excl : Nat → Bool) :
    ∀ (n : Nat) (rest : List (Core α)) (i : Nat),
      rest.length = n →
      modes (reduceGo excl i [] rest) = keepBy (maskGo excl i false (modes rest)) (modes rest) := by
  intro n
  induction n with
  | zero =>
    intro rest i h
    have : rest = [] := List.length_eq_zero_iff.mp h
    subst this
    simp [reduceGo, modes, maskGo, keepBy]
  | succ n ih =>
    intro rest i h
    match rest, h with
    | [c], _ =>
      simp only [reduceGo]
      split_ifs with h1
      · simp [modes, maskGo, keepBy]
      · simp [modes, maskGo, keepBy]
    | c :: nxt :: rest, h =>
      have hl : (nxt :: rest).length = n := by simpa using h
      simp only [reduceGo]
      simp only [modes_cons, maskGo_cons2]
      split_ifs with h1 h2
      · rw [rd_keepB_false h1, ih (absorbLeft c nxt :: rest) (i+1) (by simpa using hl)]
        simp [keepBy, absorbLeft, modes_cons]
      · rw [rd_keepB_false h1, ih (absorbLeft c nxt :: rest) (i+1) (by simpa using hl)]
        simp [keepBy, absorbLeft, modes_cons]
      · rw [rd_keepB_true h1, rd_modes_B excl n (nxt :: rest) (i+1) c hl]
        simp [keepBy, modes_cons]

/-! ### `keepBy`, mask length, characterisation of the mask -/

theorem keepBy_map {β γ : Type} (f : β → γ) (mask : List Bool) (l : List β) :
    (keepBy mask l).map f = keepBy mask (l.map f) := by
  induction mask generalizing l with
  | nil => cases l <;> simp [keepBy]
  | cons m ms ih =>
    cases l with
    | nil => cases m <;> simp [keepBy]
    | cons x xs => cases m <;> simp [keepBy, ih]

theorem length_keepBy {β : Type} (mask : List Bool) (l : List β) (h : mask.length = l.length) :
    (keepBy mask l).length = keptCount mask := by
  induction mask generalizing l with
  | nil => cases l <;> simp [keepBy, keptCount]
  | cons m ms ih =>
    cases l with
    | nil => simp at h
    | cons x xs =>
      have h' : ms.length = xs.length := by simpa using h
      cases m
      · simp [keepBy, ih xs h', keptCount_false]
      · simp [keepBy, ih xs h', keptCount_true]

theorem length_maskGo (excl : Nat → Bool) (ms : List (Nat × Nat)) :
    ∀ (i : Nat) (any : Bool), (maskGo excl i any ms).length = ms.length := by
  induction ms with
  | nil => intro i any; rfl
  | cons mn ms ih =>
    intro i any
    cases ms with
    | nil => rfl
    | cons mn' ms' => rw [maskGo_cons2, List.length_cons, ih]; rfl

theorem length_rawMask (excl : Nat → Bool) (ms : List (Nat × Nat)) :
    ∀ (i : Nat), (rawMask excl i ms).length = ms.length := by
  induction ms with
  | nil => intro i; rfl
  | cons mn ms ih => intro i; simp [rawMask, ih]

omit [CommRing α] in
theorem length_keptMask (excl : Nat → Bool) (cs : List (Core α)) :
    (keptMask excl cs).length = cs.length := by
  simp [keptMask, keptMaskM, length_maskGo, modes]

/-- the loop mask is the naive mask, except that the last position is kept when nothing else is -/
theorem rd_maskGo_eq (excl : Nat → Bool) (ms : List (Nat × Nat)) (hne : ms ≠ []) :
    ∀ (i : Nat) (any : Bool),
      maskGo excl i any ms
        = if (any || (rawMask excl i ms).any id) = true then rawMask excl i ms
          else List.replicate (ms.length - 1) false ++ [true] := by
  induction ms with
  | nil => exact absurd rfl hne
  | cons mn ms ih =>
    intro i any
    cases ms with
    | nil =>
      rw [maskGo_single]
      cases any <;> cases hk : keepB excl i mn <;> simp [rawMask, hk]
    | cons mn' ms' =>
      rw [maskGo_cons2, ih (by simp) (i+1) (any || keepB excl i mn)]
      cases any <;> cases hk : keepB excl i mn <;> simp [rawMask, hk]
      split_ifs
      · rfl
      · simp [List.replicate_succ]

/-- some position is not removable: exactly the non-removable positions survive -/
theorem keptMaskM_eq_raw (excl : Nat → Bool) (ms : List (Nat × Nat))
    (h : (rawMask excl 0 ms).any id = true) : keptMaskM excl ms = rawMask excl 0 ms := by
  have hne : ms ≠ [] := by rintro rfl; simp [rawMask] at h
  rw [keptMaskM, rd_maskGo_eq excl ms hne 0 false]
  simp [h]

/-- every position is removable: only the last core survives -/
theorem keptMaskM_all_removable (excl : Nat → Bool) (ms : List (Nat × Nat)) (hne : ms ≠ [])
    (h : (rawMask excl 0 ms).any id = false) :
    keptMaskM excl ms = List.replicate (ms.length - 1) false ++ [true] := by
  rw [keptMaskM, rd_maskGo_eq excl ms hne 0 false]
  simp [h]

/-! ### main theorems -/

/-- **`reduce_dims` preserves every transfer-matrix entry** (hence the represented tensor) -/
theorem reduceDims_chain (excl : Nat → Bool) (cs : List (Core α)) (ij : List (Nat × Nat)) (a b : Nat)
    (hij : ij.length = keptCount (keptMask excl cs)) :
    chain (reduceDims excl cs) ij a b = chain cs (expandIdx (keptMask excl cs) ij) a b :=
  rd_chain_A excl cs.length cs 0 ij a b rfl hij

/-- **`reduce_dims` preserves the represented tensor**: the entry at `ij` of the reduced train is
    the entry of the original train with `(0,0)` re-inserted at the removed positions.
    (Holds for every train; well-formedness and non-emptiness are not needed.) -/
theorem reduceDims_full (excl : Nat → Bool) (cs : List (Core α)) (ij : List (Nat × Nat))
    (hij : ij.length = keptCount (keptMask excl cs)) :
    full (reduceDims excl cs) ij = full cs (expandIdx (keptMask excl cs) ij) :=
  reduceDims_chain excl cs ij 0 0 hij

theorem WF_reduceDims (excl : Nat → Bool) (cs : List (Core α)) (r : Nat) (h : WF cs r) :
    WF (reduceDims excl cs) r := rd_WF_A excl cs.length cs 0 r rfl h

theorem modes_reduceDims (excl : Nat → Bool) (cs : List (Core α)) :
    modes (reduceDims excl cs) = keepBy (keptMask excl cs) (modes cs) :=
  rd_modes_A excl cs.length cs 0 rfl

theorem modesM_reduceDims (excl : Nat → Bool) (cs : List (Core α)) :
    modesM (reduceDims excl cs) = keepBy (keptMask excl cs) (modesM cs) := by
  have h := congrArg (List.map Prod.fst) (modes_reduceDims excl cs)
  rw [keepBy_map] at h
  simpa [modes, modesM, Function.comp_def] using h

theorem modesN_reduceDims (excl : Nat → Bool) (cs : List (Core α)) :
    modesN (reduceDims excl cs) = keepBy (keptMask excl cs) (modesN cs) := by
  have h := congrArg (List.map Prod.snd) (modes_reduceDims excl cs)
  rw [keepBy_map] at h
  simpa [modes, modesN, Function.comp_def] using h

theorem length_reduceDims (excl : Nat → Bool) (cs : List (Core α)) :
    (reduceDims excl cs).length = keptCount (keptMask excl cs) := by
  have h := congrArg List.length (modes_reduceDims excl cs)
  rw [length_keepBy _ _ (by simp [length_keptMask, modes])] at h
  simpa [modes] using h

/-- a non-empty train never reduces to the empty train -/
theorem reduceDims_ne_nil (excl : Nat → Bool) (cs : List (Core α)) (hne : cs ≠ []) :
    reduceDims excl cs ≠ [] := by
  intro h
  have hl := length_reduceDims excl cs
  rw [h] at hl
  have hm := rd_maskGo_eq excl (modes cs) (by simpa [modes] using hne) 0 false
  rw [keptMask, keptMaskM, hm] at hl
  split_ifs at hl with hc
  · simp only [Bool.false_or] at hc
    have : 0 < keptCount (rawMask excl 0 (modes cs)) := by
      simp only [keptCount, List.count_pos_iff]
      simpa using hc
    simp at hl; omega
  · simp [keptCount] at hl

end TT
