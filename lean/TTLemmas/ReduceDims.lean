import TTModel.Extras
import TTLemmas.Sum

/-!
# `reduce_dims` preserves the represented tensor

`reduceDims excl cs` removes the size-1 modes of a train (`m = 1 ∧ n = 1`, position not excluded)
by multiplying the `r0 × r1` transfer matrix of the removed core into a neighbour.
`keptMask` says which positions survive, `expandIdx` re-inserts the index `(0,0)` at the removed
positions, and `reduceDims_full` is the value theorem.  Helper names carry the prefix `rd_`.
-/
set_option linter.unusedSectionVars false

namespace TT
open Finset
variable {α : Type} [CommRing α]

/-! ### definitions -/

/-- mode sizes `(m, n)` core by core -/
def modes (cs : List (Core α)) : List (Nat × Nat) := cs.map (fun c => (c.m, c.n))

/-- the test of `reduce_dims`: `shape[1] == 1 and shape[2] == 1 and not i in exclude` -/
def removableB (excl : Nat → Bool) (i : Nat) (mn : Nat × Nat) : Bool :=
  decide (mn.1 = 1 ∧ mn.2 = 1 ∧ excl i = false)

/-- position `i` with mode sizes `mn` is not removable -/
def keepB (excl : Nat → Bool) (i : Nat) (mn : Nat × Nat) : Bool := !(removableB excl i mn)

/-- survival mask, following the loop of `reduce_dims`: `any` says whether some earlier core has
    been kept (`len(cores_new) > 0`).  A removable position is dropped, except the very last one
    when nothing has been kept before it. -/
def maskGo (excl : Nat → Bool) : Nat → Bool → List (Nat × Nat) → List Bool
  | _, _, [] => []
  | i, any, [mn] => [keepB excl i mn || !any]
  | i, any, mn :: mn' :: ms =>
    keepB excl i mn :: maskGo excl (i+1) (any || keepB excl i mn) (mn' :: ms)

/-- survival mask on a list of mode sizes -/
def keptMaskM (excl : Nat → Bool) (ms : List (Nat × Nat)) : List Bool := maskGo excl 0 false ms

/-- which positions of `cs` survive `reduceDims excl` -/
def keptMask (excl : Nat → Bool) (cs : List (Core α)) : List Bool := keptMaskM excl (modes cs)

/-- the naive mask: position `i` survives iff it is not removable (see `keptMaskM_eq`) -/
def rawMask (excl : Nat → Bool) : Nat → List (Nat × Nat) → List Bool
  | _, [] => []
  | i, mn :: ms => keepB excl i mn :: rawMask excl (i+1) ms

/-- re-insert the index `(0,0)` at the removed positions -/
def expandIdx : List Bool → List (Nat × Nat) → List (Nat × Nat)
  | [], _ => []
  | false :: ms, xs => (0, 0) :: expandIdx ms xs
  | true :: ms, x :: xs => x :: expandIdx ms xs
  | true :: _, [] => []

/-- sub-list at the kept positions -/
def keepBy {β : Type} : List Bool → List β → List β
  | true :: ms, x :: xs => x :: keepBy ms xs
  | false :: ms, _ :: xs => keepBy ms xs
  | _, _ => []

/-- number of surviving positions -/
def keptCount (mask : List Bool) : Nat := mask.count true

/-! ### one-step lemmas -/

/-- absorbing a size-1 core into its left neighbour = evaluating it at `(0,0)` -/
theorem chain_absorbRight (last c : Core α) (rest : List (Core α)) (x : Nat × Nat)
    (ijs : List (Nat × Nat)) (a b : Nat) :
    chain (absorbRight last c :: rest) (x :: ijs) a b
      = chain (last :: c :: rest) (x :: (0, 0) :: ijs) a b := by
  simp only [chain, absorbRight, sumTo_eq_sum, Finset.sum_mul, Finset.mul_sum]
  rw [Finset.sum_comm]
  apply Finset.sum_congr rfl; intro l _
  apply Finset.sum_congr rfl; intro k _
  ring

/-- absorbing a size-1 core into its right neighbour = evaluating it at `(0,0)` -/
theorem chain_absorbLeft (c nxt : Core α) (rest : List (Core α))
    (ijs : List (Nat × Nat)) (a b : Nat) :
    chain (absorbLeft c nxt :: rest) ijs a b
      = chain (c :: nxt :: rest) ((0, 0) :: ijs) a b := by
  cases ijs with
  | nil => simp [chain, sumTo_eq_sum]
  | cons x ijs =>
    simp only [chain, absorbLeft, sumTo_eq_sum, Finset.sum_mul, Finset.mul_sum]
    rw [Finset.sum_comm]
    apply Finset.sum_congr rfl; intro l _
    apply Finset.sum_congr rfl; intro k _
    ring

/-! ### the accumulator below its head is never touched -/

theorem rd_reduceGo_acc (excl : Nat → Bool) :
    ∀ (n : Nat) (rest : List (Core α)) (i : Nat) (last : Core α) (acc' : List (Core α)),
      rest.length = n →
      reduceGo excl i (last :: acc') rest = acc'.reverse ++ reduceGo excl i [last] rest := by
  intro n
  induction n with
  | zero =>
    intro rest i last acc' h
    have : rest = [] := List.length_eq_zero_iff.mp h
    subst this
    simp [reduceGo]
  | succ n ih =>
    intro rest i last acc' h
    match rest, h with
    | [c], _ =>
      simp only [reduceGo]
      split_ifs <;> simp
    | c :: nxt :: rest, h =>
      have hl : (nxt :: rest).length = n := by simpa using h
      simp only [reduceGo]
      split_ifs with h1 h2
      · exact ih _ _ _ _ hl
      · exact ih (absorbLeft c nxt :: rest) _ _ _ (by simpa using hl)
      · rw [ih _ _ c (last :: acc') hl, ih _ _ c [last] hl]; simp

/-! ### bookkeeping lemmas for the mask -/

omit [CommRing α] in
theorem rd_keepB_false {excl : Nat → Bool} {i : Nat} {c : Core α}
    (h : c.m = 1 ∧ c.n = 1 ∧ excl i = false) : keepB excl i (c.m, c.n) = false := by
  simp [keepB, removableB, h]

omit [CommRing α] in
theorem rd_keepB_true {excl : Nat → Bool} {i : Nat} {c : Core α}
    (h : ¬ (c.m = 1 ∧ c.n = 1 ∧ excl i = false)) : keepB excl i (c.m, c.n) = true := by
  simp only [keepB, removableB, Bool.not_eq_true', decide_eq_false_iff_not]
  exact h

omit [CommRing α] in
theorem modes_cons (c : Core α) (cs : List (Core α)) : modes (c :: cs) = (c.m, c.n) :: modes cs := rfl
omit [CommRing α] in
theorem modes_nil : modes ([] : List (Core α)) = [] := rfl
theorem rd_modes_absorbLeft (c nxt : Core α) (rest : List (Core α)) :
    modes (absorbLeft c nxt :: rest) = modes (nxt :: rest) := rfl

theorem maskGo_nil (excl : Nat → Bool) (i : Nat) (any : Bool) : maskGo excl i any [] = [] := rfl
theorem maskGo_single (excl : Nat → Bool) (i : Nat) (any : Bool) (mn : Nat × Nat) :
    maskGo excl i any [mn] = [keepB excl i mn || !any] := rfl
theorem maskGo_cons2 (excl : Nat → Bool) (i : Nat) (any : Bool) (mn mn' : Nat × Nat)
    (ms : List (Nat × Nat)) :
    maskGo excl i any (mn :: mn' :: ms)
      = keepB excl i mn :: maskGo excl (i+1) (any || keepB excl i mn) (mn' :: ms) := rfl

theorem keptCount_true (ms : List Bool) : keptCount (true :: ms) = keptCount ms + 1 := by
  simp [keptCount]
theorem keptCount_false (ms : List Bool) : keptCount (false :: ms) = keptCount ms := by
  simp [keptCount]
theorem keptCount_nil : keptCount [] = 0 := rfl

/-! ### the invariant of `reduceGo`: value -/

/-- invariant with a non-empty accumulator `[last]` (`last` may carry pending right-absorptions) -/
theorem rd_chain_B (excl : Nat → Bool) :
    ∀ (n : Nat) (rest : List (Core α)) (i : Nat) (last : Core α) (x : Nat × Nat)
      (ij : List (Nat × Nat)) (a b : Nat),
      rest.length = n → ij.length = keptCount (maskGo excl i true (modes rest)) →
      chain (reduceGo excl i [last] rest) (x :: ij) a b
        = chain (last :: rest) (x :: expandIdx (maskGo excl i true (modes rest)) ij) a b := by
  intro n
  induction n with
  | zero =>
    intro rest i last x ij a b h hij
    have : rest = [] := List.length_eq_zero_iff.mp h
    subst this
    simp [reduceGo, chain]
  | succ n ih =>
    intro rest i last x ij a b h hij
    match rest, h, hij with
    | [c], _, hij =>
      simp only [reduceGo]
      split_ifs with h1
      · simp only [modes_cons, modes_nil, maskGo_single, rd_keepB_false h1] at hij ⊢
        simp only [List.reverse_cons, List.reverse_nil, List.nil_append, Bool.not_true,
          Bool.or_false, expandIdx]
        rw [chain_absorbRight]
        simp [chain]
      · simp only [modes_cons, modes_nil, maskGo_single, rd_keepB_true h1] at hij ⊢
        match ij, hij with
        | [y], _ => simp [expandIdx]
    | c :: nxt :: rest, h, hij =>
      have hl : (nxt :: rest).length = n := by simpa using h
      simp only [reduceGo]
      simp only [modes_cons, maskGo_cons2] at hij ⊢
      split_ifs with h1 h2
      · rw [rd_keepB_false h1] at hij ⊢
        rw [keptCount_false] at hij
        simp only [Bool.or_false, expandIdx] at hij ⊢
        rw [ih (nxt :: rest) (i+1) (absorbRight last c) x ij a b hl hij, chain_absorbRight]
        rfl
      · rw [rd_keepB_false h1] at hij ⊢
        rw [keptCount_false] at hij
        simp only [Bool.or_false, expandIdx] at hij ⊢
        rw [ih (absorbLeft c nxt :: rest) (i+1) last x ij a b (by simpa using hl) hij]
        simp only [chain]
        apply sumTo_congr; intro k _
        rw [chain_absorbLeft]
        rfl
      · rw [rd_keepB_true h1] at hij ⊢
        rw [keptCount_true] at hij
        simp only [Bool.or_true] at hij ⊢
        match ij, hij with
        | y :: ys, hij =>
          have hys : ys.length = keptCount (maskGo excl (i+1) true ((nxt.m, nxt.n) :: modes rest)) := by
            simpa using hij
          rw [rd_reduceGo_acc excl n (nxt :: rest) (i+1) c [last] hl]
          simp only [List.reverse_cons, List.reverse_nil, List.nil_append, List.singleton_append,
            expandIdx, chain]
          apply sumTo_congr; intro k _
          rw [ih (nxt :: rest) (i+1) c y ys k b hl hys]
          rfl

/-- invariant with an empty accumulator (nothing kept so far) -/
theorem rd_chain_A (excl : Nat → Bool) :
    ∀ (n : Nat) (rest : List (Core α)) (i : Nat) (ij : List (Nat × Nat)) (a b : Nat),
      rest.length = n → ij.length = keptCount (maskGo excl i false (modes rest)) →
      chain (reduceGo excl i [] rest) ij a b
        = chain rest (expandIdx (maskGo excl i false (modes rest)) ij) a b := by
  intro n
  induction n with
  | zero =>
    intro rest i ij a b h hij
    have : rest = [] := List.length_eq_zero_iff.mp h
    subst this
    simp [reduceGo, chain]
  | succ n ih =>
    intro rest i ij a b h hij
    match rest, h, hij with
    | [c], _, hij =>
      simp only [reduceGo]
      simp only [modes_cons, modes_nil, maskGo_single, Bool.not_false, Bool.or_true] at hij ⊢
      match ij, hij with
      | [y], _ => simp [expandIdx]
    | c :: nxt :: rest, h, hij =>
      have hl : (nxt :: rest).length = n := by simpa using h
      simp only [reduceGo]
      simp only [modes_cons, maskGo_cons2] at hij ⊢
      split_ifs with h1 h2
      · rw [rd_keepB_false h1] at hij ⊢
        rw [keptCount_false] at hij
        simp only [Bool.or_false, expandIdx] at hij ⊢
        rw [ih (absorbLeft c nxt :: rest) (i+1) ij a b (by simpa using hl) hij, chain_absorbLeft]
        rfl
      · rw [rd_keepB_false h1] at hij ⊢
        rw [keptCount_false] at hij
        simp only [Bool.or_false, expandIdx] at hij ⊢
        rw [ih (absorbLeft c nxt :: rest) (i+1) ij a b (by simpa using hl) hij, chain_absorbLeft]
        rfl
      · rw [rd_keepB_true h1] at hij ⊢
        rw [keptCount_true] at hij
        simp only [Bool.or_true] at hij ⊢
        match ij, hij with
        | y :: ys, hij =>
          have hys : ys.length = keptCount (maskGo excl (i+1) true ((nxt.m, nxt.n) :: modes rest)) := by
            simpa using hij
          rw [rd_chain_B excl n (nxt :: rest) (i+1) c y ys a b hl hys]
          rfl

/-! ### the invariant of `reduceGo`: well-formedness -/

theorem rd_WF_B (excl : Nat → Bool) :
    ∀ (n : Nat) (rest : List (Core α)) (i : Nat) (last : Core α) (r : Nat),
      rest.length = n → WF (last :: rest) r → WF (reduceGo excl i [last] rest) r := by
  intro n
  induction n with
  | zero =>
    intro rest i last r h hw
    have : rest = [] := List.length_eq_zero_iff.mp h
    subst this
    simpa [reduceGo] using hw
  | succ n ih =>
    intro rest i last r h hw
    match rest, h with
    | [c], _ =>
      simp only [reduceGo]
      split_ifs with h1
      · obtain ⟨h0, h1', h2⟩ := hw
        exact ⟨h0, h2⟩
      · simpa using hw
    | c :: nxt :: rest, h =>
      have hl : (nxt :: rest).length = n := by simpa using h
      obtain ⟨h0, hc0, hn0, hw'⟩ := hw
      simp only [reduceGo]
      split_ifs with h1 h2
      · exact ih (nxt :: rest) (i+1) (absorbRight last c) r hl ⟨h0, hn0, hw'⟩
      · exact ih (absorbLeft c nxt :: rest) (i+1) last r (by simpa using hl) ⟨h0, hc0, hw'⟩
      · rw [rd_reduceGo_acc excl n (nxt :: rest) (i+1) c [last] hl]
        exact ⟨h0, ih (nxt :: rest) (i+1) c last.r1 hl ⟨hc0, hn0, hw'⟩⟩

theorem rd_WF_A (excl : Nat → Bool) :
    ∀ (n : Nat) (rest : List (Core α)) (i : Nat) (r : Nat),
      rest.length = n → WF rest r → WF (reduceGo excl i [] rest) r := by
  intro n
  induction n with
  | zero =>
    intro rest i r h hw
    have : rest = [] := List.length_eq_zero_iff.mp h
    subst this
    simpa [reduceGo] using hw
  | succ n ih =>
    intro rest i r h hw
    match rest, h with
    | [c], _ =>
      simp only [reduceGo]
      split_ifs with h1
      · exact hw
      · simpa using hw
    | c :: nxt :: rest, h =>
      have hl : (nxt :: rest).length = n := by simpa using h
      obtain ⟨hc0, hn0, hw'⟩ := hw
      simp only [reduceGo]
      split_ifs with h1 h2
      · exact ih (absorbLeft c nxt :: rest) (i+1) r (by simpa using hl) ⟨hc0, hw'⟩
      · exact ih (absorbLeft c nxt :: rest) (i+1) r (by simpa using hl) ⟨hc0, hw'⟩
      · exact rd_WF_B excl n (nxt :: rest) (i+1) c r hl ⟨hc0, hn0, hw'⟩

/-! ### the invariant of `reduceGo`: mode sizes -/

theorem rd_modes_B (excl : Nat → Bool) :
    ∀ (n : Nat) (rest : List (Core α)) (i : Nat) (last : Core α),
      rest.length = n →
      modes (reduceGo excl i [last] rest)
        = (last.m, last.n) :: keepBy (maskGo excl i true (modes rest)) (modes rest) := by
  intro n
  induction n with
  | zero =>
    intro rest i last h
    have : rest = [] := List.length_eq_zero_iff.mp h
    subst this
    simp [reduceGo, modes, maskGo, keepBy]
  | succ n ih =>
    intro rest i last h
    match rest, h with
    | [c], _ =>
      simp only [reduceGo]
      split_ifs with h1
      · simp [modes, maskGo, rd_keepB_false h1, keepBy, absorbRight]
      · simp [modes, maskGo, rd_keepB_true h1, keepBy]
    | c :: nxt :: rest, h =>
      have hl : (nxt :: rest).length = n := by simpa using h
      simp only [reduceGo]
      simp only [modes_cons, maskGo_cons2]
      split_ifs with h1 h2
      · rw [rd_keepB_false h1, ih (nxt :: rest) (i+1) (absorbRight last c) hl]
        simp [keepBy, absorbRight, modes_cons]
      · rw [rd_keepB_false h1, ih (absorbLeft c nxt :: rest) (i+1) last (by simpa using hl)]
        simp [keepBy, absorbLeft, modes_cons]
      · rw [rd_keepB_true h1, rd_reduceGo_acc excl n (nxt :: rest) (i+1) c [last] hl]
        simp only [List.reverse_cons, List.reverse_nil, List.nil_append, List.singleton_append,
          modes_cons, ih (nxt :: rest) (i+1) c hl, keepBy, Bool.or_true]

theorem rd_modes_A (excl : Nat → Bool) :
    ∀ (n : Nat) (rest : List (Core α)) (i : Nat),
      rest.length = n →
      modes (reduceGo excl i [] rest) = keepBy (maskGo excl i false (modes rest)) (modes rest) := by
  intro n
  induction n with
  | zero =>
    intro rest i h
    have : rest = [] := List.length_eq_zero_iff.mp h
    subst this
    simp [reduceGo, modes, maskGo, keepBy]
  | succ n ih =>
    intro rest i h
    match rest, h with
    | [c], _ =>
      simp only [reduceGo]
      split_ifs with h1
      · simp [modes, maskGo, keepBy]
      · simp [modes, maskGo, keepBy]
    | c :: nxt :: rest, h =>
      have hl : (nxt :: rest).length = n := by simpa using h
      simp only [reduceGo]
      simp only [modes_cons, maskGo_cons2]
      split_ifs with h1 h2
      · rw [rd_keepB_false h1, ih (absorbLeft c nxt :: rest) (i+1) (by simpa using hl)]
        simp [keepBy, absorbLeft, modes_cons]
      · rw [rd_keepB_false h1, ih (absorbLeft c nxt :: rest) (i+1) (by simpa using hl)]
        simp [keepBy, absorbLeft, modes_cons]
      · rw [rd_keepB_true h1, rd_modes_B excl n (nxt :: rest) (i+1) c hl]
        simp [keepBy, modes_cons]

/-! ### `keepBy`, mask length, characterisation of the mask -/

theorem keepBy_map {β γ : Type} (f : β → γ) (mask : List Bool) (l : List β) :
    (keepBy mask l).map f = keepBy mask (l.map f) := by
  induction mask generalizing l with
  | nil => cases l <;> simp [keepBy]
  | cons m ms ih =>
    cases l with
    | nil => cases m <;> simp [keepBy]
    | cons x xs => cases m <;> simp [keepBy, ih]

theorem length_keepBy {β : Type} (mask : List Bool) (l : List β) (h : mask.length = l.length) :
    (keepBy mask l).length = keptCount mask := by
  induction mask generalizing l with
  | nil => cases l <;> simp [keepBy, keptCount]
  | cons m ms ih =>
    cases l with
    | nil => simp at h
    | cons x xs =>
      have h' : ms.length = xs.length := by simpa using h
      cases m
      · simp [keepBy, ih xs h', keptCount_false]
      · simp [keepBy, ih xs h', keptCount_true]

theorem length_maskGo (excl : Nat → Bool) (ms : List (Nat × Nat)) :
    ∀ (i : Nat) (any : Bool), (maskGo excl i any ms).length = ms.length := by
  induction ms with
  | nil => intro i any; rfl
  | cons mn ms ih =>
    intro i any
    cases ms with
    | nil => rfl
    | cons mn' ms' => rw [maskGo_cons2, List.length_cons, ih]; rfl

theorem length_rawMask (excl : Nat → Bool) (ms : List (Nat × Nat)) :
    ∀ (i : Nat), (rawMask excl i ms).length = ms.length := by
  induction ms with
  | nil => intro i; rfl
  | cons mn ms ih => intro i; simp [rawMask, ih]

omit [CommRing α] in
theorem length_keptMask (excl : Nat → Bool) (cs : List (Core α)) :
    (keptMask excl cs).length = cs.length := by
  simp [keptMask, keptMaskM, length_maskGo, modes]

/-- the loop mask is the naive mask, except that the last position is kept when nothing else is -/
theorem rd_maskGo_eq (excl : Nat → Bool) (ms : List (Nat × Nat)) (hne : ms ≠ []) :
    ∀ (i : Nat) (any : Bool),
      maskGo excl i any ms
        = if (any || (rawMask excl i ms).any id) = true then rawMask excl i ms
          else List.replicate (ms.length - 1) false ++ [true] := by
  induction ms with
  | nil => exact absurd rfl hne
  | cons mn ms ih =>
    intro i any
    cases ms with
    | nil =>
      rw [maskGo_single]
      cases any <;> cases hk : keepB excl i mn <;> simp [rawMask, hk]
    | cons mn' ms' =>
      rw [maskGo_cons2, ih (by simp) (i+1) (any || keepB excl i mn)]
      cases any <;> cases hk : keepB excl i mn <;> simp [rawMask, hk]
      split_ifs
      · rfl
      · simp [List.replicate_succ]

/-- some position is not removable: exactly the non-removable positions survive -/
theorem keptMaskM_eq_raw (excl : Nat → Bool) (ms : List (Nat × Nat))
    (h : (rawMask excl 0 ms).any id = true) : keptMaskM excl ms = rawMask excl 0 ms := by
  have hne : ms ≠ [] := by rintro rfl; simp [rawMask] at h
  rw [keptMaskM, rd_maskGo_eq excl ms hne 0 false]
  simp [h]

/-- every position is removable: only the last core survives -/
theorem keptMaskM_all_removable (excl : Nat → Bool) (ms : List (Nat × Nat)) (hne : ms ≠ [])
    (h : (rawMask excl 0 ms).any id = false) :
    keptMaskM excl ms = List.replicate (ms.length - 1) false ++ [true] := by
  rw [keptMaskM, rd_maskGo_eq excl ms hne 0 false]
  simp [h]

/-! ### main theorems -/

/-- **`reduce_dims` preserves every transfer-matrix entry** (hence the represented tensor) -/
theorem reduceDims_chain (excl : Nat → Bool) (cs : List (Core α)) (ij : List (Nat × Nat)) (a b : Nat)
    (hij : ij.length = keptCount (keptMask excl cs)) :
    chain (reduceDims excl cs) ij a b = chain cs (expandIdx (keptMask excl cs) ij) a b :=
  rd_chain_A excl cs.length cs 0 ij a b rfl hij

/-- **`reduce_dims` preserves the represented tensor**: the entry at `ij` of the reduced train is
    the entry of the original train with `(0,0)` re-inserted at the removed positions.
    (Holds for every train; well-formedness and non-emptiness are not needed.) -/
theorem reduceDims_full (excl : Nat → Bool) (cs : List (Core α)) (ij : List (Nat × Nat))
    (hij : ij.length = keptCount (keptMask excl cs)) :
    full (reduceDims excl cs) ij = full cs (expandIdx (keptMask excl cs) ij) :=
  reduceDims_chain excl cs ij 0 0 hij

theorem WF_reduceDims (excl : Nat → Bool) (cs : List (Core α)) (r : Nat) (h : WF cs r) :
    WF (reduceDims excl cs) r := rd_WF_A excl cs.length cs 0 r rfl h

theorem modes_reduceDims (excl : Nat → Bool) (cs : List (Core α)) :
    modes (reduceDims excl cs) = keepBy (keptMask excl cs) (modes cs) :=
  rd_modes_A excl cs.length cs 0 rfl

theorem modesM_reduceDims (excl : Nat → Bool) (cs : List (Core α)) :
    modesM (reduceDims excl cs) = keepBy (keptMask excl cs) (modesM cs) := by
  have h := congrArg (List.map Prod.fst) (modes_reduceDims excl cs)
  rw [keepBy_map] at h
  simpa [modes, modesM, Function.comp_def] using h

theorem modesN_reduceDims (excl : Nat → Bool) (cs : List (Core α)) :
    modesN (reduceDims excl cs) = keepBy (keptMask excl cs) (modesN cs) := by
  have h := congrArg (List.map Prod.snd) (modes_reduceDims excl cs)
  rw [keepBy_map] at h
  simpa [modes, modesN, Function.comp_def] using h

theorem length_reduceDims (excl : Nat → Bool) (cs : List (Core α)) :
    (reduceDims excl cs).length = keptCount (keptMask excl cs) := by
  have h := congrArg List.length (modes_reduceDims excl cs)
  rw [length_keepBy _ _ (by simp [length_keptMask, modes])] at h
  simpa [modes] using h

/-- a non-empty train never reduces to the empty train -/
theorem reduceDims_ne_nil (excl : Nat → Bool) (cs : List (Core α)) (hne : cs ≠ []) :
    reduceDims excl cs ≠ [] := by
  intro h
  have hl := length_reduceDims excl cs
  rw [h] at hl
  have hm := rd_maskGo_eq excl (modes cs) (by simpa [modes] using hne) 0 false
  rw [keptMask, keptMaskM, hm] at hl
  split_ifs at hl with hc
  · simp only [Bool.false_or] at hc
    have : 0 < keptCount (rawMask excl 0 (modes cs)) := by
      simp only [keptCount, List.count_pos_iff]
      simpa using hc
    simp at hl; omega
  · simp [keptCount] at hl

/-! ## `__getitem__`: the slicing loop -/

/-- a selector whose position survives `reduce_dims(exclude)`: slices and `None` -/
def Sel.keeps : Sel → Bool
  | .int _ => false
  | _ => true

/-- the `exclude` list built by the loop: positions of slice and `None` selectors -/
def exPos : Nat → List Sel → List Nat
  | _, [] => []
  | i, .int _ :: ss => exPos (i+1) ss
  | i, _ :: ss => i :: exPos (i+1) ss

/-- accumulator-free form of `getitemGo`; `r` is the right rank of the previous new core
    (`cores_new[-1].shape[-1]`, or 1) -/
def slicedCores : List Sel → List (Core α) → Nat → Option (List (Core α))
  | [], [], _ => some []
  | [], _ :: _, _ => Option.none
  | .none :: ss, cs, r => (slicedCores ss cs r).map (fun t => eyeCore r :: t)
  | _ :: _, [], _ => Option.none
  | s :: ss, c :: cs, _ => (slicedCores ss cs c.r1).map (fun t => selRow c s :: t)

/-- index of the original train addressed by index `ij` of the sliced train (one entry per
    selector): `int k` reads `k`, `slice start step len` reads `start + step*i`, `None` positions
    carry no original index -/
def selIdx : List Sel → List (Nat × Nat) → List (Nat × Nat)
  | .none :: ss, _ :: xs => selIdx ss xs
  | .int k :: ss, x :: xs => (k, x.2) :: selIdx ss xs
  | .slice s st _ :: ss, x :: xs => (s + st * x.1, x.2) :: selIdx ss xs
  | _, _ => []

/-- the same on tensor-style indices -/
def selIdxT : List Sel → List Nat → List Nat
  | .none :: ss, _ :: xs => selIdxT ss xs
  | .int k :: ss, _ :: xs => k :: selIdxT ss xs
  | .slice s st _ :: ss, x :: xs => (s + st * x) :: selIdxT ss xs
  | _, _ => []

/-- index of the original train addressed by index `ij` of the *result* of `x[sel]`
    (one entry per slice / `None` selector) -/
def getIdx : List Sel → List (Nat × Nat) → List (Nat × Nat)
  | .int k :: ss, xs => (k, 0) :: getIdx ss xs
  | .slice s st _ :: ss, x :: xs => (s + st * x.1, x.2) :: getIdx ss xs
  | .none :: ss, _ :: xs => getIdx ss xs
  | _, _ => []

/-- row mode sizes after slicing, before `reduce_dims` -/
def selShapeFull : List Sel → List Nat
  | [] => []
  | .int _ :: ss => 1 :: selShapeFull ss
  | .slice _ _ len :: ss => len :: selShapeFull ss
  | .none :: ss => 1 :: selShapeFull ss

/-- the shape dense indexing gives: `len` per slice, 1 per `None`, nothing per integer -/
def selShape : List Sel → List Nat
  | [] => []
  | .int _ :: ss => selShape ss
  | .slice _ _ len :: ss => len :: selShape ss
  | .none :: ss => 1 :: selShape ss

/-- right rank of the head of the reversed accumulator -/
def rd_lastR1 : List (Core α) → Nat
  | last :: _ => last.r1
  | [] => 1

theorem rd_selRow_r1 (c : Core α) (s : Sel) : (selRow c s).r1 = c.r1 := by cases s <;> rfl
theorem rd_selRow_r0 (c : Core α) (s : Sel) : (selRow c s).r0 = c.r0 := by cases s <;> rfl
theorem rd_selRow_n (c : Core α) (s : Sel) : (selRow c s).n = c.n := by cases s <;> rfl

/-- `getitemGo` = accumulator ++ `slicedCores`, exclude list = `exPos` -/
theorem rd_getitemGo_eq (sel : List Sel) :
    ∀ (cs : List (Core α)) (i : Nat) (acc : List (Core α)) (ex : List Nat),
      getitemGo sel cs i acc ex
        = (slicedCores sel cs (rd_lastR1 acc)).map
            (fun t => (acc.reverse ++ t, ex.reverse ++ exPos i sel)) := by
  induction sel with
  | nil =>
    intro cs i acc ex
    cases cs <;> simp [getitemGo, slicedCores, exPos]
  | cons s ss ih =>
    intro cs i acc ex
    cases s with
    | none =>
      simp only [getitemGo, slicedCores, exPos]
      rw [ih]
      cases acc <;> simp [rd_lastR1, eyeCore, Option.map_map, Function.comp_def]
    | int k =>
      cases cs with
      | nil => simp [getitemGo, slicedCores]
      | cons c cs =>
        simp only [getitemGo, slicedCores, exPos]
        rw [ih]
        simp [rd_lastR1, rd_selRow_r1, Option.map_map, Function.comp_def]
    | slice st sp len =>
      cases cs with
      | nil => simp [getitemGo, slicedCores]
      | cons c cs =>
        simp only [getitemGo, slicedCores, exPos]
        rw [ih]
        simp [rd_lastR1, rd_selRow_r1, Option.map_map, Function.comp_def]

/-- an identity core is transparent -/
theorem chain_eyeCore (r : Nat) (t : List (Core α)) (x : Nat × Nat) (xs : List (Nat × Nat))
    (a b : Nat) (ha : a < r) :
    chain ((eyeCore r : Core α) :: t) (x :: xs) a b = chain t xs a b := by
  simp only [chain, eyeCore]
  rw [sumTo_single a ha]
  · simp
  · intro k _ hk
    have : ¬ (a = k) := fun h => hk h.symm
    simp [this]

/-- **value of the sliced train** (before `reduce_dims`), for an arbitrary left rank index -/
theorem rd_chain_sliced (sel : List Sel) :
    ∀ (cs t : List (Core α)) (r : Nat) (ij : List (Nat × Nat)) (a b : Nat),
      slicedCores sel cs r = some t → ij.length = sel.length → a < r →
      chain t ij a b = chain cs (selIdx sel ij) a b := by
  induction sel with
  | nil =>
    intro cs t r ij a b h hij ha
    cases cs with
    | nil =>
      simp only [slicedCores, Option.some.injEq] at h
      subst h
      cases ij <;> simp [chain]
    | cons c cs => simp [slicedCores] at h
  | cons s ss ih =>
    intro cs t r ij a b h hij ha
    match ij, hij with
    | x :: xs, hij =>
      have hxs : xs.length = ss.length := by simpa using hij
      cases s with
      | none =>
        simp only [slicedCores, Option.map_eq_some_iff] at h
        obtain ⟨t', ht', rfl⟩ := h
        rw [chain_eyeCore r t' x xs a b ha]
        simpa [selIdx] using ih cs t' r xs a b ht' hxs ha
      | int k =>
        cases cs with
        | nil => simp [slicedCores] at h
        | cons c cs =>
          simp only [slicedCores, Option.map_eq_some_iff] at h
          obtain ⟨t', ht', rfl⟩ := h
          simp only [selIdx, chain, selRow]
          apply sumTo_congr; intro l hl
          rw [ih cs t' c.r1 xs l b ht' hxs hl]
      | slice st sp len =>
        cases cs with
        | nil => simp [slicedCores] at h
        | cons c cs =>
          simp only [slicedCores, Option.map_eq_some_iff] at h
          obtain ⟨t', ht', rfl⟩ := h
          simp only [selIdx, chain, selRow]
          apply sumTo_congr; intro l hl
          rw [ih cs t' c.r1 xs l b ht' hxs hl]

theorem rd_WF_sliced (sel : List Sel) :
    ∀ (cs t : List (Core α)) (r : Nat),
      slicedCores sel cs r = some t → WF cs r → WF t r := by
  induction sel with
  | nil =>
    intro cs t r h hw
    cases cs with
    | nil => simp only [slicedCores, Option.some.injEq] at h; subst h; exact hw
    | cons c cs => simp [slicedCores] at h
  | cons s ss ih =>
    intro cs t r h hw
    cases s with
    | none =>
      simp only [slicedCores, Option.map_eq_some_iff] at h
      obtain ⟨t', ht', rfl⟩ := h
      exact ⟨rfl, ih cs t' r ht' hw⟩
    | int k =>
      cases cs with
      | nil => simp [slicedCores] at h
      | cons c cs =>
        simp only [slicedCores, Option.map_eq_some_iff] at h
        obtain ⟨t', ht', rfl⟩ := h
        exact ⟨hw.1, ih cs t' c.r1 ht' hw.2⟩
    | slice st sp len =>
      cases cs with
      | nil => simp [slicedCores] at h
      | cons c cs =>
        simp only [slicedCores, Option.map_eq_some_iff] at h
        obtain ⟨t', ht', rfl⟩ := h
        exact ⟨hw.1, ih cs t' c.r1 ht' hw.2⟩

theorem rd_length_sliced (sel : List Sel) :
    ∀ (cs t : List (Core α)) (r : Nat), slicedCores sel cs r = some t → t.length = sel.length := by
  induction sel with
  | nil =>
    intro cs t r h
    cases cs with
    | nil => simp only [slicedCores, Option.some.injEq] at h; subst h; rfl
    | cons c cs => simp [slicedCores] at h
  | cons s ss ih =>
    intro cs t r h
    cases s with
    | none =>
      simp only [slicedCores, Option.map_eq_some_iff] at h
      obtain ⟨t', ht', rfl⟩ := h
      simp [ih cs t' r ht']
    | int k =>
      cases cs with
      | nil => simp [slicedCores] at h
      | cons c cs =>
        simp only [slicedCores, Option.map_eq_some_iff] at h
        obtain ⟨t', ht', rfl⟩ := h
        simp [ih cs t' c.r1 ht']
    | slice st sp len =>
      cases cs with
      | nil => simp [slicedCores] at h
      | cons c cs =>
        simp only [slicedCores, Option.map_eq_some_iff] at h
        obtain ⟨t', ht', rfl⟩ := h
        simp [ih cs t' c.r1 ht']

/-- mode sizes of the sliced train of a TT-tensor -/
theorem rd_modes_sliced (sel : List Sel) :
    ∀ (cs t : List (Core α)) (r : Nat), slicedCores sel cs r = some t → IsTensor cs →
      modes t = (selShapeFull sel).map (fun m => (m, 1)) := by
  induction sel with
  | nil =>
    intro cs t r h _
    cases cs with
    | nil => simp only [slicedCores, Option.some.injEq] at h; subst h; rfl
    | cons c cs => simp [slicedCores] at h
  | cons s ss ih =>
    intro cs t r h ht
    cases s with
    | none =>
      simp only [slicedCores, Option.map_eq_some_iff] at h
      obtain ⟨t', ht', rfl⟩ := h
      simp [modes_cons, selShapeFull, eyeCore, ih cs t' r ht' ht]
    | int k =>
      cases cs with
      | nil => simp [slicedCores] at h
      | cons c cs =>
        simp only [slicedCores, Option.map_eq_some_iff] at h
        obtain ⟨t', ht', rfl⟩ := h
        simp [modes_cons, selShapeFull, selRow, ih cs t' c.r1 ht' ht.2, ht.1]
    | slice st sp len =>
      cases cs with
      | nil => simp [slicedCores] at h
      | cons c cs =>
        simp only [slicedCores, Option.map_eq_some_iff] at h
        obtain ⟨t', ht', rfl⟩ := h
        simp [modes_cons, selShapeFull, selRow, ih cs t' c.r1 ht' ht.2, ht.1]

/-! ### the survival mask of `x[sel]` for a TT-tensor -/

theorem rd_exPos_ge (sel : List Sel) : ∀ (i j : Nat), j ∈ exPos i sel → i ≤ j := by
  induction sel with
  | nil => intro i j h; simp [exPos] at h
  | cons s ss ih =>
    intro i j h
    cases s with
    | int k => have := ih (i+1) j (by simpa [exPos] using h); omega
    | slice a b c =>
      simp only [exPos, List.mem_cons] at h
      rcases h with h | h
      · omega
      · have := ih (i+1) j h; omega
    | none =>
      simp only [exPos, List.mem_cons] at h
      rcases h with h | h
      · omega
      · have := ih (i+1) j h; omega

theorem rd_exPos_isEmpty (sel : List Sel) : ∀ (i : Nat),
    (exPos i sel).isEmpty = !(sel.any Sel.keeps) := by
  induction sel with
  | nil => intro i; rfl
  | cons s ss ih =>
    intro i
    cases s <;> simp [exPos, Sel.keeps, ih]

/-- with `exclude` = the slice / `None` positions, exactly the integer positions are removable -/
theorem rd_rawMask_sel (sel : List Sel) :
    ∀ (i : Nat) (pre : List Nat), (∀ p ∈ pre, p < i) →
      rawMask (fun j => (pre ++ exPos i sel).contains j) i
          ((selShapeFull sel).map (fun m => (m, 1)))
        = sel.map Sel.keeps := by
  induction sel with
  | nil => intro i pre _; rfl
  | cons s ss ih =>
    intro i pre hpre
    cases s with
    | int k =>
      have hni : i ∉ pre ∧ i ∉ exPos (i+1) ss := by
        constructor
        · intro h; have := hpre i h; omega
        · intro h; have := rd_exPos_ge ss (i+1) i h; omega
      simp only [selShapeFull, List.map_cons, rawMask, exPos, Sel.keeps]
      rw [ih (i+1) pre (fun p hp => by have := hpre p hp; omega)]
      simp [keepB, removableB, hni]
    | slice a b c =>
      have hfun : (fun j => (pre ++ exPos i (Sel.slice a b c :: ss)).contains j)
          = (fun j => ((pre ++ [i]) ++ exPos (i+1) ss).contains j) := by
        funext j; simp [exPos]
      rw [hfun]
      simp only [selShapeFull, List.map_cons, rawMask, Sel.keeps]
      rw [ih (i+1) (pre ++ [i]) (by
        intro p hp
        simp only [List.mem_append, List.mem_singleton] at hp
        rcases hp with hp | hp
        · have := hpre p hp; omega
        · omega)]
      simp [keepB, removableB]
    | none =>
      have hfun : (fun j => (pre ++ exPos i (Sel.none :: ss)).contains j)
          = (fun j => ((pre ++ [i]) ++ exPos (i+1) ss).contains j) := by
        funext j; simp [exPos]
      rw [hfun]
      simp only [selShapeFull, List.map_cons, rawMask, Sel.keeps]
      rw [ih (i+1) (pre ++ [i]) (by
        intro p hp
        simp only [List.mem_append, List.mem_singleton] at hp
        rcases hp with hp | hp
        · have := hpre p hp; omega
        · omega)]
      simp [keepB, removableB]

/-- survival mask of `x[sel]` on a TT-tensor: the slice / `None` positions; if every selector is
    an integer, the last core survives (and is squeezed to a scalar by the caller) -/
def selMask (sel : List Sel) : List Bool :=
  if sel.any Sel.keeps then sel.map Sel.keeps else List.replicate (sel.length - 1) false ++ [true]

theorem rd_length_selShapeFull (sel : List Sel) : (selShapeFull sel).length = sel.length := by
  induction sel with
  | nil => rfl
  | cons s ss ih => cases s <;> simp [selShapeFull, ih]

theorem keptMask_sliced (sel : List Sel) (cs t : List (Core α)) (r : Nat) (hne : sel ≠ [])
    (h : slicedCores sel cs r = some t) (ht : IsTensor cs) :
    keptMask (fun j => (exPos 0 sel).contains j) t = selMask sel := by
  have hm := rd_modes_sliced sel cs t r h ht
  have hraw := rd_rawMask_sel sel 0 [] (by simp)
  simp only [List.nil_append] at hraw
  have hne' : (selShapeFull sel).map (fun m => (m, 1)) ≠ [] := by
    intro h0
    have := congrArg List.length h0
    simp [rd_length_selShapeFull] at this
    exact hne this
  rw [keptMask, keptMaskM, hm, rd_maskGo_eq _ _ hne' 0 false, hraw]
  simp [selMask, rd_length_selShapeFull]

/-! ### index bookkeeping -/

theorem rd_selIdx_expand (sel : List Sel) : ∀ (ij : List (Nat × Nat)),
    selIdx sel (expandIdx (sel.map Sel.keeps) ij) = getIdx sel ij := by
  induction sel with
  | nil => intro ij; cases ij <;> rfl
  | cons s ss ih =>
    intro ij
    cases s with
    | int k => simp [Sel.keeps, expandIdx, selIdx, getIdx, ih]
    | slice a b c =>
      cases ij with
      | nil => simp [Sel.keeps, expandIdx, selIdx, getIdx]
      | cons x xs => simp [Sel.keeps, expandIdx, selIdx, getIdx, ih]
    | none =>
      cases ij with
      | nil => simp [Sel.keeps, expandIdx, selIdx, getIdx]
      | cons x xs => simp [Sel.keeps, expandIdx, selIdx, getIdx, ih]

theorem rd_selIdx_allInt (sel : List Sel) (hne : sel ≠ []) (hall : sel.any Sel.keeps = false)
    (i : Nat) :
    selIdx sel (expandIdx (List.replicate (sel.length - 1) false ++ [true]) [(i, 0)])
      = getIdx sel [] := by
  induction sel with
  | nil => exact absurd rfl hne
  | cons s ss ih =>
    cases s with
    | int k =>
      cases ss with
      | nil => simp [expandIdx, selIdx, getIdx]
      | cons s' ss' =>
        have hall' : (s' :: ss').any Sel.keeps = false := by simpa [Sel.keeps] using hall
        have := ih (by simp) hall'
        simp only [List.length_cons, Nat.add_sub_cancel] at this ⊢
        simp only [List.replicate_succ, List.cons_append, expandIdx, selIdx, getIdx]
        rw [this]
    | slice a b c => simp [Sel.keeps] at hall
    | none => simp [Sel.keeps] at hall

theorem rd_selIdx_tIdx (sel : List Sel) : ∀ (is : List Nat),
    selIdx sel (tIdx is) = tIdx (selIdxT sel is) := by
  induction sel with
  | nil => intro is; cases is <;> rfl
  | cons s ss ih =>
    intro is
    cases is with
    | nil => cases s <;> rfl
    | cons x xs => cases s <;> simp [tIdx, selIdx, selIdxT] <;> simpa [tIdx] using ih xs

theorem rd_keepBy_selShape (sel : List Sel) :
    keepBy (sel.map Sel.keeps) (selShapeFull sel) = selShape sel := by
  induction sel with
  | nil => rfl
  | cons s ss ih => cases s <;> simp [Sel.keeps, selShapeFull, selShape, keepBy, ih]

theorem rd_selShapeFull_allInt (sel : List Sel) (hall : sel.any Sel.keeps = false) :
    selShapeFull sel = List.replicate sel.length 1 := by
  induction sel with
  | nil => rfl
  | cons s ss ih =>
    cases s with
    | int k =>
      have : ss.any Sel.keeps = false := by simpa [Sel.keeps] using hall
      simp [selShapeFull, ih this, List.replicate_succ]
    | slice a b c => simp [Sel.keeps] at hall
    | none => simp [Sel.keeps] at hall

theorem rd_keepBy_last {β : Type} (n : Nat) (v : β) :
    keepBy (List.replicate n false ++ [true]) (List.replicate (n+1) v) = [v] := by
  induction n with
  | zero => rfl
  | succ n ih => simpa [List.replicate_succ, keepBy] using ih

/-! ## `sum(index)`: partial sums -/

/-- sum of `f` over the index pairs `(i, j) ∈ [0,m) × [0,n)` of the selected positions, the
    other positions being read from `ij` (entries of `ij` at selected positions are ignored) -/
def sumOver (sel : Nat → Bool) : Nat → List (Core α) → List (Nat × Nat) →
    (List (Nat × Nat) → α) → α
  | _, [], _, f => f []
  | _, _ :: _, [], _ => 0
  | p, c :: cs, x :: xs, f =>
    if sel p then
      sumTo c.m (fun i => sumTo c.n (fun j => sumOver sel (p+1) cs xs (fun r => f ((i, j) :: r))))
    else sumOver sel (p+1) cs xs (fun r => f (x :: r))

/-- positions that are not summed -/
def unselMask {β : Type} (sel : Nat → Bool) : Nat → List β → List Bool
  | _, [] => []
  | p, _ :: cs => (!sel p) :: unselMask sel (p+1) cs

theorem sumOver_sumTo (sel : Nat → Bool) (cs : List (Core α)) :
    ∀ (p : Nat) (xs : List (Nat × Nat)) (n : Nat) (F : Nat → List (Nat × Nat) → α),
      sumOver sel p cs xs (fun r => sumTo n (fun k => F k r))
        = sumTo n (fun k => sumOver sel p cs xs (F k)) := by
  induction cs with
  | nil => intro p xs n F; rfl
  | cons c cs ih =>
    intro p xs n F
    cases xs with
    | nil => simp [sumOver, sumTo_zero']
    | cons x xs =>
      simp only [sumOver]
      split_ifs
      · simp only [ih]
        conv_rhs => rw [sumTo_comm]
        apply sumTo_congr; intro i _
        rw [sumTo_comm]
      · rw [ih]

theorem sumOver_mul_left (sel : Nat → Bool) (cs : List (Core α)) :
    ∀ (p : Nat) (xs : List (Nat × Nat)) (v : α) (f : List (Nat × Nat) → α),
      sumOver sel p cs xs (fun r => v * f r) = v * sumOver sel p cs xs f := by
  induction cs with
  | nil => intro p xs v f; rfl
  | cons c cs ih =>
    intro p xs v f
    cases xs with
    | nil => simp [sumOver]
    | cons x xs =>
      simp only [sumOver]
      split_ifs
      · simp only [ih, sumTo_mul_left]
      · rw [ih]

theorem length_mapSel (f : Core α → Core α) (sel : Nat → Bool) (cs : List (Core α)) :
    ∀ p, (mapSel f sel p cs).length = cs.length := by
  induction cs with
  | nil => intro p; rfl
  | cons c cs ih => intro p; simp [mapSel, ih]

/-- **summing the selected modes with `keepdim`** gives the partial sums of the transfer-matrix
    products; the summed positions carry a dummy index -/
theorem chain_mapSel_sumMode (sel : Nat → Bool) (cs : List (Core α)) :
    ∀ (p : Nat) (ij : List (Nat × Nat)) (a b : Nat), ij.length = cs.length →
      chain (mapSel sumModeCore sel p cs) ij a b
        = sumOver sel p cs ij (fun r => chain cs r a b) := by
  induction cs with
  | nil => intro p ij a b _; simp [mapSel, sumOver, chain]
  | cons c cs ih =>
    intro p ij a b hij
    match ij, hij with
    | x :: xs, hij =>
      have hxs : xs.length = cs.length := by simpa using hij
      simp only [mapSel, sumOver, chain]
      split_ifs with hs
      · simp only [sumModeCore, ih (p+1) xs _ b hxs, sumOver_sumTo, sumOver_mul_left]
        simp only [sumTo_eq_sum, Finset.sum_mul]
        rw [Finset.sum_comm]
        apply Finset.sum_congr rfl; intro i _
        rw [Finset.sum_comm]
      · simp only [ih (p+1) xs _ b hxs, sumOver_sumTo, sumOver_mul_left]

theorem length_expandIdx (mask : List Bool) : ∀ (ij : List (Nat × Nat)),
    ij.length = keptCount mask → (expandIdx mask ij).length = mask.length := by
  induction mask with
  | nil => intro ij _; rfl
  | cons m ms ih =>
    intro ij h
    cases m with
    | false =>
      rw [keptCount_false] at h
      simp [expandIdx, ih ij h]
    | true =>
      rw [keptCount_true] at h
      match ij, h with
      | x :: xs, h => simp [expandIdx, ih xs (by simpa using h)]

/-- with `exclude` = the unsummed positions, exactly the summed positions are removable -/
theorem rd_rawMask_sumSel (sel : Nat → Bool) (cs : List (Core α)) : ∀ (p : Nat),
    rawMask (fun i => !sel i) p (modes (mapSel sumModeCore sel p cs)) = unselMask sel p cs := by
  induction cs with
  | nil => intro p; rfl
  | cons c cs ih =>
    intro p
    simp only [mapSel, modes_cons, rawMask, unselMask, ih]
    cases hs : sel p <;> simp [keepB, removableB, hs, sumModeCore]

theorem length_unselMask {β : Type} (sel : Nat → Bool) (cs : List β) : ∀ p,
    (unselMask sel p cs).length = cs.length := by
  induction cs with
  | nil => intro p; rfl
  | cons c cs ih => intro p; simp [unselMask, ih]

/-- survival mask of `x.sum(index)` -/
theorem keptMask_sumSel (sel : Nat → Bool) (cs : List (Core α)) (hne : cs ≠ []) :
    keptMask (fun i => !sel i) (mapSel sumModeCore sel 0 cs)
      = if (unselMask sel 0 cs).any id = true then unselMask sel 0 cs
        else List.replicate (cs.length - 1) false ++ [true] := by
  have hne' : modes (mapSel sumModeCore sel 0 cs) ≠ [] := by
    intro h0
    have := congrArg List.length h0
    simp [modes, length_mapSel] at this
    exact hne this
  rw [keptMask, keptMaskM, rd_maskGo_eq _ _ hne' 0 false, rd_rawMask_sumSel]
  simp [modes, length_mapSel]

/-! ### `sum()` over all modes -/

theorem rd_vecSweep (cs : List (Core α)) :
    ∀ (ij : List (Nat × Nat)) (r : Nat) (v : Nat → α), WF cs r → ij.length = cs.length →
      vecSweep cs ij v 0 = sumTo r (fun a => v a * chain cs ij a 0) := by
  induction cs with
  | nil =>
    intro ij r v hw _
    have hr : r = 1 := hw
    subst hr
    simp [vecSweep, chain, sumTo]
  | cons c cs ih =>
    intro ij r v hw hij
    match ij, hij with
    | x :: xs, hij =>
      have hxs : xs.length = cs.length := by simpa using hij
      obtain ⟨h0, hw'⟩ := hw
      subst h0
      simp only [vecSweep, chain]
      rw [ih xs c.r1 _ hw' hxs]
      simp only [sumTo_eq_sum, Finset.sum_mul, Finset.mul_sum]
      rw [Finset.sum_comm]
      apply Finset.sum_congr rfl; intro l _
      apply Finset.sum_congr rfl; intro k _
      ring

theorem rd_map_eq_mapSel (f : Core α → Core α) (cs : List (Core α)) : ∀ p,
    cs.map f = mapSel f (fun _ => true) p cs := by
  induction cs with
  | nil => intro p; rfl
  | cons c cs ih => intro p; simp [mapSel, ← ih (p+1)]

theorem rd_WF_map_sumMode (cs : List (Core α)) : ∀ r, WF cs r → WF (cs.map sumModeCore) r := by
  induction cs with
  | nil => intro r h; exact h
  | cons c cs ih => intro r h; exact ⟨h.1, ih c.r1 h.2⟩

/-! ### glue lemmas used by the property files -/

theorem rd_getitemGo_top (sel : List Sel) (cs cs' : List (Core α)) (ex : List Nat)
    (h : getitemGo sel cs 0 [] [] = some (cs', ex)) :
    slicedCores sel cs 1 = some cs' ∧ ex = exPos 0 sel := by
  rw [rd_getitemGo_eq] at h
  simp only [rd_lastR1, List.reverse_nil, List.nil_append, Option.map_eq_some_iff,
    Prod.mk.injEq] at h
  obtain ⟨t, ht, rfl, rfl⟩ := h
  exact ⟨ht, rfl⟩

theorem rd_getitem_some (sel : List Sel) (cs res : List (Core α)) (flag : Bool)
    (h : getitem sel cs = some (res, flag)) :
    ∃ t, getitemGo sel cs 0 [] [] = some (t, exPos 0 sel) ∧ slicedCores sel cs 1 = some t ∧
      res = reduceDims (fun i => (exPos 0 sel).contains i) t ∧ flag = (exPos 0 sel).isEmpty := by
  unfold getitem at h
  split at h
  · exact absurd h (by simp)
  · rename_i cs' ex heq
    obtain ⟨ht, hex⟩ := rd_getitemGo_top sel cs cs' ex heq
    subst hex
    simp only [Option.some.injEq, Prod.mk.injEq] at h
    exact ⟨cs', heq, ht, h.1.symm, h.2.symm⟩

/-- `getIdx` on tensor-style indices -/
def getIdxT : List Sel → List Nat → List Nat
  | .int k :: ss, xs => k :: getIdxT ss xs
  | .slice s st _ :: ss, x :: xs => (s + st * x) :: getIdxT ss xs
  | .none :: ss, _ :: xs => getIdxT ss xs
  | _, _ => []

theorem rd_getIdx_tIdx (sel : List Sel) : ∀ (is : List Nat),
    getIdx sel (tIdx is) = tIdx (getIdxT sel is) := by
  induction sel with
  | nil => intro is; cases is <;> rfl
  | cons s ss ih =>
    intro is
    cases s with
    | int k => simpa [getIdx, getIdxT, tIdx] using ih is
    | slice a b c =>
      cases is with
      | nil => rfl
      | cons x xs => simpa [getIdx, getIdxT, tIdx] using ih xs
    | none =>
      cases is with
      | nil => rfl
      | cons x xs => simpa [getIdx, getIdxT, tIdx] using ih xs

theorem keepBy_replicate {β : Type} (v : β) (mask : List Bool) :
    keepBy mask (List.replicate mask.length v) = List.replicate (keptCount mask) v := by
  induction mask with
  | nil => rfl
  | cons m ms ih =>
    cases m
    · simpa [List.replicate_succ, keepBy, keptCount_false] using ih
    · simpa [List.replicate_succ, keepBy, keptCount_true] using ih

/-- the unsummed cores are untouched by `mapSel` -/
theorem rd_keepBy_unsel (f : Core α → Core α) (sel : Nat → Bool) (cs : List (Core α)) : ∀ p,
    keepBy (unselMask sel p cs) (modes (mapSel f sel p cs)) = keepBy (unselMask sel p cs) (modes cs) := by
  induction cs with
  | nil => intro p; rfl
  | cons c cs ih =>
    intro p
    cases hs : sel p <;> simp [unselMask, mapSel, modes_cons, keepBy, hs, ih]

/-! ### when is `x[sel]` defined -/

def Sel.isNone : Sel → Bool
  | .none => true
  | _ => false

/-- the slicing loop succeeds iff the selectors other than `None` are as many as the cores -/
theorem rd_sliced_isSome (sel : List Sel) : ∀ (cs : List (Core α)) (r : Nat),
    (slicedCores sel cs r).isSome = true ↔ sel.countP (fun s => !s.isNone) = cs.length := by
  induction sel with
  | nil => intro cs r; cases cs <;> simp [slicedCores]
  | cons s ss ih =>
    intro cs r
    cases s with
    | none => simpa [slicedCores, Sel.isNone] using ih cs r
    | int k =>
      cases cs with
      | nil => simp [slicedCores, Sel.isNone]
      | cons c cs => simpa [slicedCores, Sel.isNone] using ih cs c.r1
    | slice a b l =>
      cases cs with
      | nil => simp [slicedCores, Sel.isNone]
      | cons c cs => simpa [slicedCores, Sel.isNone] using ih cs c.r1

end TT
