import TTLemmas.ReduceDims
import TTLemmas.Mul
import TTModel.Reduce2

/-!
# `__getitem__` on TT-matrices (operator branch) and the embedding loop of `dot(a, b, axis)`

Part A: `getitemGoM` / `getitemM` (pairs of selectors per mode).  `gm_slicedM` is the
accumulator-free form of the slicing loop, `selIdxM` the index map, `gm_exPosM` the `exclude` list.
Part B: `embedGo` (the train `b` spread over the contracted modes of `a`, identity cores elsewhere).
Helper names carry the prefix `gm_`.
-/
set_option linter.unusedSectionVars false

namespace TT
open Finset
variable {α : Type} [CommRing α]

/-! ## Part A: TT-matrix indexing -/

/-- admissible selector pairs: `(int, int)`, `(slice, slice)`, `(None, None)` -/
def gm_pairOK : Sel × Sel → Bool
  | (.int _, .int _) => true
  | (.slice _ _ _, .slice _ _ _) => true
  | (.none, .none) => true
  | _ => false

/-- the pair `(None, None)` -/
def gm_pairNone : Sel × Sel → Bool
  | (.none, .none) => true
  | _ => false

/-- a pair whose position survives `reduce_dims(exclude)`: everything but `(int, int)` -/
def gm_pairKeeps : Sel × Sel → Bool
  | (.int _, .int _) => false
  | _ => true

/-- index of the original operator addressed by index `ij` of the sliced operator (one entry per
    selector pair): `(int a, int b)` reads `(a, b)`, a pair of slices reads
    `(s1 + st1*x, s2 + st2*y)`, `(None, None)` positions carry no original index -/
def selIdxM : List (Sel × Sel) → List (Nat × Nat) → List (Nat × Nat)
  | (.none, .none) :: ss, _ :: xs => selIdxM ss xs
  | (.int a, .int b) :: ss, _ :: xs => (a, b) :: selIdxM ss xs
  | (.slice s1 st1 _, .slice s2 st2 _) :: ss, x :: xs =>
    (s1 + st1 * x.1, s2 + st2 * x.2) :: selIdxM ss xs
  | _, _ => []

/-- the `exclude` list built by the operator loop: positions of slice and `None` pairs -/
def gm_exPosM : Nat → List (Sel × Sel) → List Nat
  | _, [] => []
  | i, (.int _, .int _) :: ss => gm_exPosM (i+1) ss
  | i, _ :: ss => i :: gm_exPosM (i+1) ss

/-- accumulator-free form of `getitemGoM`; `r` is the right rank of the previous new core -/
def gm_slicedM : List (Sel × Sel) → List (Core α) → Nat → Option (List (Core α))
  | [], [], _ => some []
  | [], _ :: _, _ => Option.none
  | (.none, .none) :: ss, cs, r => (gm_slicedM ss cs r).map (fun t => eyeCore r :: t)
  | _ :: _, [], _ => Option.none
  | (.int k1, .int k2) :: ss, c :: cs, _ =>
    (gm_slicedM ss cs c.r1).map (fun t => selCol (selRow c (.int k1)) (.int k2) :: t)
  | (.slice a1 b1 c1, .slice a2 b2 c2) :: ss, c :: cs, _ =>
    (gm_slicedM ss cs c.r1).map
      (fun t => selCol (selRow c (.slice a1 b1 c1)) (.slice a2 b2 c2) :: t)
  | _ :: _, _ :: _, _ => Option.none

/-- mode sizes `(m, n)` after slicing, before `reduce_dims` -/
def gm_shapeFullM : List (Sel × Sel) → List (Nat × Nat)
  | [] => []
  | (.slice _ _ l1, .slice _ _ l2) :: ss => (l1, l2) :: gm_shapeFullM ss
  | _ :: ss => (1, 1) :: gm_shapeFullM ss

/-- the shape dense indexing gives: `(len1, len2)` per slice pair, `(1,1)` per `None` pair,
    nothing per integer pair -/
def gm_shapeM : List (Sel × Sel) → List (Nat × Nat)
  | [] => []
  | (.int _, .int _) :: ss => gm_shapeM ss
  | (.slice _ _ l1, .slice _ _ l2) :: ss => (l1, l2) :: gm_shapeM ss
  | _ :: ss => (1, 1) :: gm_shapeM ss

/-- index of the original operator addressed by index `ij` of the *result* of `A[sel]`
    (one entry per slice / `None` pair) -/
def gm_getIdxM : List (Sel × Sel) → List (Nat × Nat) → List (Nat × Nat)
  | (.int a, .int b) :: ss, xs => (a, b) :: gm_getIdxM ss xs
  | (.slice s1 st1 _, .slice s2 st2 _) :: ss, x :: xs =>
    (s1 + st1 * x.1, s2 + st2 * x.2) :: gm_getIdxM ss xs
  | (.none, .none) :: ss, _ :: xs => gm_getIdxM ss xs
  | _, _ => []

/-- survival mask of `A[sel]` -/
def gm_selMaskM (sel : List (Sel × Sel)) : List Bool :=
  if sel.any gm_pairKeeps then sel.map gm_pairKeeps
  else List.replicate (sel.length - 1) false ++ [true]

/-- `getitemGoM` = accumulator ++ `gm_slicedM`, exclude list = `gm_exPosM` -/
theorem gm_getitemGoM_eq (sel : List (Sel × Sel)) :
    ∀ (cs : List (Core α)) (i : Nat) (acc : List (Core α)) (ex : List Nat),
      getitemGoM sel cs i acc ex
        = (gm_slicedM sel cs (rd_lastR1 acc)).map
            (fun t => (acc.reverse ++ t, ex.reverse ++ gm_exPosM i sel)) := by
  induction sel with
  | nil =>
    intro cs i acc ex
    cases cs <;> simp [getitemGoM, gm_slicedM, gm_exPosM]
  | cons s ss ih =>
    intro cs i acc ex
    rcases s with ⟨s1, s2⟩
    cases s1 <;> cases s2 <;> cases cs <;>
      simp only [getitemGoM, gm_slicedM, gm_exPosM, Option.map_none] <;>
      (try rw [ih]) <;>
      (try (cases acc <;>
        simp [rd_lastR1, eyeCore, selRow, selCol, Option.map_map, Function.comp_def]))

/-- inversion of one step of the slicing loop -/
theorem gm_slicedM_cons_some (p : Sel × Sel) (ss : List (Sel × Sel)) (cs : List (Core α)) (r : Nat)
    (t : List (Core α)) (h : gm_slicedM (p :: ss) cs r = some t) :
    (p = (.none, .none) ∧ ∃ t', gm_slicedM ss cs r = some t' ∧ t = eyeCore r :: t') ∨
    (∃ k1 k2 c cs' t', p = (.int k1, .int k2) ∧ cs = c :: cs' ∧
      gm_slicedM ss cs' c.r1 = some t' ∧ t = selCol (selRow c (.int k1)) (.int k2) :: t') ∨
    (∃ a1 b1 c1 a2 b2 c2 c cs' t', p = (.slice a1 b1 c1, .slice a2 b2 c2) ∧ cs = c :: cs' ∧
      gm_slicedM ss cs' c.r1 = some t' ∧
      t = selCol (selRow c (.slice a1 b1 c1)) (.slice a2 b2 c2) :: t') := by
  rcases p with ⟨s1, s2⟩
  cases s1 <;> cases s2 <;> cases cs <;>
    simp only [gm_slicedM, Option.map_eq_some_iff, reduceCtorEq] at h
  · rename_i k1 k2 c cs'
    obtain ⟨t', ht', rfl⟩ := h
    exact Or.inr (Or.inl ⟨k1, k2, c, cs', t', rfl, rfl, ht', rfl⟩)
  · rename_i a1 b1 c1 a2 b2 c2 c cs'
    obtain ⟨t', ht', rfl⟩ := h
    exact Or.inr (Or.inr ⟨a1, b1, c1, a2, b2, c2, c, cs', t', rfl, rfl, ht', rfl⟩)
  · obtain ⟨t', ht', rfl⟩ := h
    exact Or.inl ⟨rfl, t', ht', rfl⟩
  · obtain ⟨t', ht', rfl⟩ := h
    exact Or.inl ⟨rfl, t', ht', rfl⟩


/-- **value of the sliced operator** (before `reduce_dims`), for an arbitrary left rank index -/
theorem gm_chain_slicedM (sel : List (Sel × Sel)) :
    ∀ (cs t : List (Core α)) (r : Nat) (ij : List (Nat × Nat)) (a b : Nat),
      gm_slicedM sel cs r = some t → ij.length = sel.length → a < r →
      chain t ij a b = chain cs (selIdxM sel ij) a b := by
  induction sel with
  | nil =>
    intro cs t r ij a b h hij ha
    cases cs with
    | nil =>
      simp only [gm_slicedM, Option.some.injEq] at h
      subst h
      cases ij <;> simp [chain]
    | cons c cs => simp [gm_slicedM] at h
  | cons s ss ih =>
    intro cs t r ij a b h hij ha
    match ij, hij with
    | x :: xs, hij =>
      have hxs : xs.length = ss.length := by simpa using hij
      rcases gm_slicedM_cons_some s ss cs r t h with
        ⟨rfl, t', ht', rfl⟩ | ⟨k1, k2, c, cs', t', rfl, rfl, ht', rfl⟩ |
        ⟨a1, b1, c1, a2, b2, c2, c, cs', t', rfl, rfl, ht', rfl⟩
      · rw [chain_eyeCore r t' x xs a b ha]
        simpa [selIdxM] using ih cs t' r xs a b ht' hxs ha
      · simp only [selIdxM, chain, selRow, selCol]
        apply sumTo_congr; intro l hl
        rw [ih cs' t' c.r1 xs l b ht' hxs hl]
      · simp only [selIdxM, chain, selRow, selCol]
        apply sumTo_congr; intro l hl
        rw [ih cs' t' c.r1 xs l b ht' hxs hl]

theorem gm_WF_slicedM (sel : List (Sel × Sel)) :
    ∀ (cs t : List (Core α)) (r : Nat), gm_slicedM sel cs r = some t → WF cs r → WF t r := by
  induction sel with
  | nil =>
    intro cs t r h hw
    cases cs with
    | nil => simp only [gm_slicedM, Option.some.injEq] at h; subst h; exact hw
    | cons c cs => simp [gm_slicedM] at h
  | cons s ss ih =>
    intro cs t r h hw
    rcases gm_slicedM_cons_some s ss cs r t h with
      ⟨rfl, t', ht', rfl⟩ | ⟨k1, k2, c, cs', t', rfl, rfl, ht', rfl⟩ |
      ⟨a1, b1, c1, a2, b2, c2, c, cs', t', rfl, rfl, ht', rfl⟩
    · exact ⟨rfl, ih cs t' r ht' hw⟩
    · exact ⟨hw.1, ih cs' t' c.r1 ht' hw.2⟩
    · exact ⟨hw.1, ih cs' t' c.r1 ht' hw.2⟩

theorem gm_length_slicedM (sel : List (Sel × Sel)) :
    ∀ (cs t : List (Core α)) (r : Nat), gm_slicedM sel cs r = some t → t.length = sel.length := by
  induction sel with
  | nil =>
    intro cs t r h
    cases cs with
    | nil => simp only [gm_slicedM, Option.some.injEq] at h; subst h; rfl
    | cons c cs => simp [gm_slicedM] at h
  | cons s ss ih =>
    intro cs t r h
    rcases gm_slicedM_cons_some s ss cs r t h with
      ⟨rfl, t', ht', rfl⟩ | ⟨k1, k2, c, cs', t', rfl, rfl, ht', rfl⟩ |
      ⟨a1, b1, c1, a2, b2, c2, c, cs', t', rfl, rfl, ht', rfl⟩
    · simp [ih cs t' r ht']
    · simp [ih cs' t' c.r1 ht']
    · simp [ih cs' t' c.r1 ht']

/-- mode sizes of the sliced operator (no hypothesis on the cores) -/
theorem gm_modes_slicedM (sel : List (Sel × Sel)) :
    ∀ (cs t : List (Core α)) (r : Nat), gm_slicedM sel cs r = some t →
      modes t = gm_shapeFullM sel := by
  induction sel with
  | nil =>
    intro cs t r h
    cases cs with
    | nil => simp only [gm_slicedM, Option.some.injEq] at h; subst h; rfl
    | cons c cs => simp [gm_slicedM] at h
  | cons s ss ih =>
    intro cs t r h
    rcases gm_slicedM_cons_some s ss cs r t h with
      ⟨rfl, t', ht', rfl⟩ | ⟨k1, k2, c, cs', t', rfl, rfl, ht', rfl⟩ |
      ⟨a1, b1, c1, a2, b2, c2, c, cs', t', rfl, rfl, ht', rfl⟩
    · simp [modes_cons, gm_shapeFullM, eyeCore, ih cs t' r ht']
    · simp [modes_cons, gm_shapeFullM, selRow, selCol, ih cs' t' c.r1 ht']
    · simp [modes_cons, gm_shapeFullM, selRow, selCol, ih cs' t' c.r1 ht']

/-- every selector pair of a successful slicing is admissible -/
theorem gm_all_ok_slicedM (sel : List (Sel × Sel)) :
    ∀ (cs t : List (Core α)) (r : Nat), gm_slicedM sel cs r = some t →
      ∀ p ∈ sel, gm_pairOK p = true := by
  induction sel with
  | nil => intro cs t r _ p hp; simp at hp
  | cons s ss ih =>
    intro cs t r h p hp
    rcases gm_slicedM_cons_some s ss cs r t h with
      ⟨rfl, t', ht', rfl⟩ | ⟨k1, k2, c, cs', t', rfl, rfl, ht', rfl⟩ |
      ⟨a1, b1, c1, a2, b2, c2, c, cs', t', rfl, rfl, ht', rfl⟩
    · rcases List.mem_cons.mp hp with rfl | hp
      · rfl
      · exact ih cs t' r ht' p hp
    · rcases List.mem_cons.mp hp with rfl | hp
      · rfl
      · exact ih cs' t' c.r1 ht' p hp
    · rcases List.mem_cons.mp hp with rfl | hp
      · rfl
      · exact ih cs' t' c.r1 ht' p hp

/-! ### the survival mask of `A[sel]` -/

theorem gm_exPosM_ge (sel : List (Sel × Sel)) : ∀ (i j : Nat), j ∈ gm_exPosM i sel → i ≤ j := by
  induction sel with
  | nil => intro i j h; simp [gm_exPosM] at h
  | cons s ss ih =>
    intro i j h
    rcases s with ⟨s1, s2⟩
    cases s1 <;> cases s2 <;> simp only [gm_exPosM, List.mem_cons] at h <;>
      first
        | (have := ih (i+1) j h; omega)
        | (rcases h with h | h
           · omega
           · have := ih (i+1) j h; omega)

theorem gm_exPosM_isEmpty (sel : List (Sel × Sel)) : ∀ (i : Nat),
    (gm_exPosM i sel).isEmpty = !(sel.any gm_pairKeeps) := by
  induction sel with
  | nil => intro i; rfl
  | cons s ss ih =>
    intro i
    rcases s with ⟨s1, s2⟩
    cases s1 <;> cases s2 <;> simp [gm_exPosM, gm_pairKeeps, ih]

theorem gm_exPosM_keep (i : Nat) (p : Sel × Sel) (ss : List (Sel × Sel))
    (h : gm_pairKeeps p = true) : gm_exPosM i (p :: ss) = i :: gm_exPosM (i+1) ss := by
  rcases p with ⟨s1, s2⟩
  cases s1 <;> cases s2 <;> simp_all [gm_exPosM, gm_pairKeeps]

theorem gm_exPosM_drop (i : Nat) (p : Sel × Sel) (ss : List (Sel × Sel))
    (h : gm_pairKeeps p = false) :
    gm_exPosM i (p :: ss) = gm_exPosM (i+1) ss ∧
    gm_shapeFullM (p :: ss) = (1, 1) :: gm_shapeFullM ss := by
  rcases p with ⟨s1, s2⟩
  cases s1 <;> cases s2 <;> simp_all [gm_exPosM, gm_pairKeeps, gm_shapeFullM]

theorem gm_shapeFullM_cons (p : Sel × Sel) (ss : List (Sel × Sel)) :
    ∃ mn, gm_shapeFullM (p :: ss) = mn :: gm_shapeFullM ss := by
  rcases p with ⟨s1, s2⟩
  cases s1 <;> cases s2 <;> exact ⟨_, rfl⟩

/-- with `exclude` = the slice / `None` positions, exactly the integer pairs are removable -/
theorem gm_rawMask_selM (sel : List (Sel × Sel)) :
    ∀ (i : Nat) (pre : List Nat), (∀ p ∈ pre, p < i) →
      rawMask (fun j => (pre ++ gm_exPosM i sel).contains j) i (gm_shapeFullM sel)
        = sel.map gm_pairKeeps := by
  induction sel with
  | nil => intro i pre _; rfl
  | cons s ss ih =>
    intro i pre hpre
    cases hk : gm_pairKeeps s with
    | false =>
      obtain ⟨he, hs⟩ := gm_exPosM_drop i s ss hk
      have hni : i ∉ pre ∧ i ∉ gm_exPosM (i+1) ss := by
        constructor
        · intro h; have := hpre i h; omega
        · intro h; have := gm_exPosM_ge ss (i+1) i h; omega
      rw [he, hs]
      simp only [List.map_cons, rawMask, hk]
      rw [ih (i+1) pre (fun p hp => by have := hpre p hp; omega)]
      simp [keepB, removableB, hni]
    | true =>
      have he := gm_exPosM_keep i s ss hk
      obtain ⟨mn, hs⟩ := gm_shapeFullM_cons s ss
      have hfun : (fun j => (pre ++ gm_exPosM i (s :: ss)).contains j)
          = (fun j => ((pre ++ [i]) ++ gm_exPosM (i+1) ss).contains j) := by
        funext j; simp [he]
      rw [hfun, hs]
      simp only [List.map_cons, rawMask, hk]
      rw [ih (i+1) (pre ++ [i]) (by
        intro p hp
        simp only [List.mem_append, List.mem_singleton] at hp
        rcases hp with hp | hp
        · have := hpre p hp; omega
        · omega)]
      simp [keepB, removableB]

theorem gm_length_shapeFullM (sel : List (Sel × Sel)) :
    (gm_shapeFullM sel).length = sel.length := by
  induction sel with
  | nil => rfl
  | cons s ss ih =>
    obtain ⟨mn, hs⟩ := gm_shapeFullM_cons s ss
    simp [hs, ih]

/-- survival mask of the sliced operator under `reduce_dims(exclude)` -/
theorem gm_keptMask_slicedM (sel : List (Sel × Sel)) (cs t : List (Core α)) (r : Nat)
    (hne : sel ≠ []) (h : gm_slicedM sel cs r = some t) :
    keptMask (fun j => (gm_exPosM 0 sel).contains j) t = gm_selMaskM sel := by
  have hm := gm_modes_slicedM sel cs t r h
  have hraw := gm_rawMask_selM sel 0 [] (by simp)
  simp only [List.nil_append] at hraw
  have hne' : gm_shapeFullM sel ≠ [] := by
    intro h0
    have := congrArg List.length h0
    simp [gm_length_shapeFullM] at this
    exact hne this
  rw [keptMask, keptMaskM, hm, rd_maskGo_eq _ _ hne' 0 false, hraw]
  have hany : (List.map gm_pairKeeps sel).any id = sel.any gm_pairKeeps := by
    rw [List.any_map]; rfl
  rw [hany, gm_length_shapeFullM]
  simp only [Bool.false_or, gm_selMaskM]

/-! ### index / shape bookkeeping -/

theorem gm_selIdxM_expand (sel : List (Sel × Sel)) (hok : ∀ p ∈ sel, gm_pairOK p = true) :
    ∀ (ij : List (Nat × Nat)),
      selIdxM sel (expandIdx (sel.map gm_pairKeeps) ij) = gm_getIdxM sel ij := by
  induction sel with
  | nil => intro ij; cases ij <;> rfl
  | cons s ss ih =>
    intro ij
    have ih' := ih (fun p hp => hok p (List.mem_cons_of_mem _ hp))
    have hs := hok s List.mem_cons_self
    rcases s with ⟨s1, s2⟩
    cases s1 <;> cases s2 <;> simp only [gm_pairOK, reduceCtorEq] at hs
    · simp [gm_pairKeeps, expandIdx, selIdxM, gm_getIdxM, ih']
    · cases ij with
      | nil => simp [gm_pairKeeps, expandIdx, selIdxM, gm_getIdxM]
      | cons x xs => simp [gm_pairKeeps, expandIdx, selIdxM, gm_getIdxM, ih']
    · cases ij with
      | nil => simp [gm_pairKeeps, expandIdx, selIdxM, gm_getIdxM]
      | cons x xs => simp [gm_pairKeeps, expandIdx, selIdxM, gm_getIdxM, ih']

theorem gm_selIdxM_allInt (sel : List (Sel × Sel)) (hne : sel ≠ [])
    (hall : sel.any gm_pairKeeps = false) (x : Nat × Nat) :
    selIdxM sel (expandIdx (List.replicate (sel.length - 1) false ++ [true]) [x])
      = gm_getIdxM sel [] := by
  induction sel with
  | nil => exact absurd rfl hne
  | cons s ss ih =>
    rcases s with ⟨s1, s2⟩
    cases s1 <;> cases s2 <;> simp only [List.any_cons, gm_pairKeeps, Bool.true_or,
      Bool.false_or, reduceCtorEq] at hall
    cases ss with
    | nil => simp [expandIdx, selIdxM, gm_getIdxM]
    | cons s' ss' =>
      have := ih (by simp) hall
      simp only [List.length_cons, Nat.add_sub_cancel] at this ⊢
      simp only [List.replicate_succ, List.cons_append, expandIdx, selIdxM, gm_getIdxM]
      rw [this]

theorem gm_keepBy_shapeM (sel : List (Sel × Sel)) :
    keepBy (sel.map gm_pairKeeps) (gm_shapeFullM sel) = gm_shapeM sel := by
  induction sel with
  | nil => rfl
  | cons s ss ih =>
    rcases s with ⟨s1, s2⟩
    cases s1 <;> cases s2 <;> simp [gm_pairKeeps, gm_shapeFullM, gm_shapeM, keepBy, ih]

theorem gm_shapeFullM_allInt (sel : List (Sel × Sel)) (hall : sel.any gm_pairKeeps = false) :
    gm_shapeFullM sel = List.replicate sel.length (1, 1) := by
  induction sel with
  | nil => rfl
  | cons s ss ih =>
    rcases s with ⟨s1, s2⟩
    cases s1 <;> cases s2 <;> simp only [List.any_cons, gm_pairKeeps, Bool.true_or,
      Bool.false_or, reduceCtorEq] at hall
    simp [gm_shapeFullM, ih hall, List.replicate_succ]

/-! ### glue -/

theorem gm_getitemGoM_top (sel : List (Sel × Sel)) (cs cs' : List (Core α)) (ex : List Nat)
    (h : getitemGoM sel cs 0 [] [] = some (cs', ex)) :
    gm_slicedM sel cs 1 = some cs' ∧ ex = gm_exPosM 0 sel := by
  rw [gm_getitemGoM_eq] at h
  simp only [rd_lastR1, List.reverse_nil, List.nil_append, Option.map_eq_some_iff,
    Prod.mk.injEq] at h
  obtain ⟨t, ht, rfl, rfl⟩ := h
  exact ⟨ht, rfl⟩

theorem gm_getitemM_some (sel : List (Sel × Sel)) (cs res : List (Core α)) (flag : Bool)
    (h : getitemM sel cs = some (res, flag)) :
    ∃ t, getitemGoM sel cs 0 [] [] = some (t, gm_exPosM 0 sel) ∧ gm_slicedM sel cs 1 = some t ∧
      res = reduceDims (fun i => (gm_exPosM 0 sel).contains i) t ∧
      flag = (gm_exPosM 0 sel).isEmpty := by
  unfold getitemM at h
  split at h
  · exact absurd h (by simp)
  · rename_i cs' ex heq
    obtain ⟨ht, hex⟩ := gm_getitemGoM_top sel cs cs' ex heq
    subst hex
    simp only [Option.some.injEq, Prod.mk.injEq] at h
    exact ⟨cs', heq, ht, h.1.symm, h.2.symm⟩

/-- the operator slicing loop succeeds iff every pair is admissible and the pairs other than
    `(None, None)` are as many as the cores -/
theorem gm_slicedM_isSome (sel : List (Sel × Sel)) : ∀ (cs : List (Core α)) (r : Nat),
    (gm_slicedM sel cs r).isSome = true ↔
      (sel.all gm_pairOK = true ∧ sel.countP (fun p => !gm_pairNone p) = cs.length) := by
  induction sel with
  | nil => intro cs r; cases cs <;> simp [gm_slicedM]
  | cons s ss ih =>
    intro cs r
    rcases s with ⟨s1, s2⟩
    cases s1 <;> cases s2 <;> cases cs <;>
      simp only [gm_slicedM, List.all_cons, List.countP_cons, Option.isSome_map, Option.isSome_none,
        ih] <;>
      simp [gm_pairOK, gm_pairNone]


/-! ## Part B: the embedding loop of `dot(a, b, axis)` -/

/-- an additive map with `cj 0 = 0` commutes with bounded sums -/
theorem gm_cj_sumTo (cj : α → α) (h0 : cj 0 = 0) (hadd : ∀ x y, cj (x + y) = cj x + cj y)
    (n : Nat) (f : Nat → α) : cj (sumTo n f) = sumTo n (fun k => cj (f k)) := by
  induction n with
  | zero => simpa [sumTo] using h0
  | succ n ih => simp [sumTo, hadd, ih]

/-- the step of `embedGo` at an uncontracted position: the identity core is square as soon as the
    remaining cores of `b` chain from the current `rank_left` -/
theorem gm_embedGo_false (cj : α → α) (ms : List Bool) (a0 : Core α) (as bs : List (Core α))
    (rl : Nat) (hw : WF bs rl) :
    embedGo cj (false :: ms) (a0 :: as) bs rl
      = (eyeRect rl rl a0.m).mapVal cj :: embedGo cj ms as bs rl := by
  rcases ms with _ | ⟨_ | _, ms'⟩ <;> rcases bs with _ | ⟨b, bs'⟩ <;>
    (simp only [embedGo]; try rw [show b.r0 = rl from hw.1])

/-- the same step without well-formedness: some right rank `rr` -/
theorem gm_embedGo_false' (cj : α → α) (ms : List Bool) (a0 : Core α) (as bs : List (Core α))
    (rl : Nat) :
    ∃ rr, embedGo cj (false :: ms) (a0 :: as) bs rl
      = (eyeRect rl rr a0.m).mapVal cj :: embedGo cj ms as bs rl := by
  rcases ms with _ | ⟨_ | _, ms'⟩ <;> rcases bs with _ | ⟨b, bs'⟩ <;>
    (refine ⟨?_, ?_⟩; rotate_left; simp only [embedGo]; rfl)

/-- a (conjugated) square identity core is transparent -/
theorem gm_chain_eyeRect (cj : α → α) (h0 : cj 0 = 0) (h1 : cj 1 = 1) (r m : Nat)
    (t : List (Core α)) (x : Nat × Nat) (xs : List (Nat × Nat)) (a b : Nat) (ha : a < r) :
    chain ((eyeRect r r m : Core α).mapVal cj :: t) (x :: xs) a b = chain t xs a b := by
  simp only [chain, eyeRect, Core.mapVal]
  rw [sumTo_single a ha]
  · simp [h1]
  · intro k _ hk
    have : ¬ (a = k) := fun h => hk h.symm
    simp [this, h0]

/-- **value of the embedded train**, for an arbitrary left rank index: `cj` of the entry of `b`
    at the indices of the contracted positions -/
theorem gm_chain_embedGo (cj : α → α) (h0 : cj 0 = 0) (h1 : cj 1 = 1)
    (hadd : ∀ x y, cj (x + y) = cj x + cj y) (hmul : ∀ x y, cj (x * y) = cj x * cj y)
    (mask : List Bool) :
    ∀ (as bs : List (Core α)) (rl : Nat) (ij : List (Nat × Nat)) (a : Nat),
      mask.length = as.length → ij.length = as.length → bs.length = keptCount mask →
      WF bs rl → a < rl →
      chain (embedGo cj mask as bs rl) ij a 0 = cj (chain bs (keepBy mask ij) a 0) := by
  induction mask with
  | nil =>
    intro as bs rl ij a hm hij hb hw ha
    have has : as = [] := List.length_eq_zero_iff.mp hm.symm
    subst has
    have hbs : bs = [] := List.length_eq_zero_iff.mp (by simpa [keptCount] using hb)
    subst hbs
    simp only [embedGo, chain]
    split_ifs <;> simp [h0, h1]
  | cons m ms ih =>
    intro as bs rl ij a hm hij hb hw ha
    match as, ij, hm, hij with
    | a0 :: as', x :: xs, hm, hij =>
      have hm' : ms.length = as'.length := by simpa using hm
      have hxs : xs.length = as'.length := by simpa using hij
      cases m with
      | false =>
        rw [keptCount_false] at hb
        rw [gm_embedGo_false cj ms a0 as' bs rl hw, gm_chain_eyeRect cj h0 h1 rl a0.m _ x xs a 0 ha]
        simpa [keepBy] using ih as' bs rl xs a hm' hxs hb hw ha
      | true =>
        rw [keptCount_true] at hb
        match bs, hb, hw with
        | b :: bs', hb, hw =>
          have hb' : bs'.length = keptCount ms := by simpa using hb
          simp only [embedGo, chain, keepBy, Core.mapVal]
          rw [gm_cj_sumTo cj h0 hadd]
          apply sumTo_congr; intro k hk
          rw [ih as' bs' b.r1 xs k hm' hxs hb' hw.2 hk, hmul]

theorem gm_WF_embedGo (cj : α → α) (mask : List Bool) :
    ∀ (as bs : List (Core α)) (rl : Nat),
      mask.length = as.length → bs.length = keptCount mask → WF bs rl →
      WF (embedGo cj mask as bs rl) rl := by
  induction mask with
  | nil =>
    intro as bs rl hm hb hw
    have has : as = [] := List.length_eq_zero_iff.mp hm.symm
    subst has
    have hbs : bs = [] := List.length_eq_zero_iff.mp (by simpa [keptCount] using hb)
    subst hbs
    simpa [embedGo] using hw
  | cons m ms ih =>
    intro as bs rl hm hb hw
    match as, hm with
    | a0 :: as', hm =>
      have hm' : ms.length = as'.length := by simpa using hm
      cases m with
      | false =>
        rw [keptCount_false] at hb
        rw [gm_embedGo_false cj ms a0 as' bs rl hw]
        exact ⟨rfl, ih as' bs rl hm' hb hw⟩
      | true =>
        rw [keptCount_true] at hb
        match bs, hb, hw with
        | b :: bs', hb, hw =>
          have hb' : bs'.length = keptCount ms := by simpa using hb
          simp only [embedGo]
          exact ⟨hw.1, ih as' bs' b.r1 hm' hb' hw.2⟩

theorem gm_length_embedGo (cj : α → α) (mask : List Bool) :
    ∀ (as bs : List (Core α)) (rl : Nat),
      mask.length = as.length → bs.length = keptCount mask →
      (embedGo cj mask as bs rl).length = as.length := by
  induction mask with
  | nil =>
    intro as bs rl hm hb
    have has : as = [] := List.length_eq_zero_iff.mp hm.symm
    subst has
    cases bs <;> simp [embedGo]
  | cons m ms ih =>
    intro as bs rl hm hb
    match as, hm with
    | a0 :: as', hm =>
      have hm' : ms.length = as'.length := by simpa using hm
      cases m with
      | false =>
        rw [keptCount_false] at hb
        obtain ⟨rr, he⟩ := gm_embedGo_false' cj ms a0 as' bs rl
        rw [he]
        simp [ih as' bs rl hm' hb]
      | true =>
        rw [keptCount_true] at hb
        match bs, hb with
        | b :: bs', hb =>
          have hb' : bs'.length = keptCount ms := by simpa using hb
          simp [embedGo, ih as' bs' b.r1 hm' hb']

/-- mode sizes of the embedded train: those of `a` at the uncontracted positions, those of `b`
    at the contracted ones -/
theorem gm_modes_embedGo (cj : α → α) (mask : List Bool) :
    ∀ (as bs : List (Core α)) (rl : Nat),
      mask.length = as.length → bs.length = keptCount mask →
      keepBy mask (modes (embedGo cj mask as bs rl)) = modes bs ∧
      keepBy (mask.map not) (modes (embedGo cj mask as bs rl))
        = (keepBy (mask.map not) (modesM as)).map (fun m => (m, 1)) := by
  induction mask with
  | nil =>
    intro as bs rl hm hb
    have has : as = [] := List.length_eq_zero_iff.mp hm.symm
    subst has
    have hbs : bs = [] := List.length_eq_zero_iff.mp (by simpa [keptCount] using hb)
    subst hbs
    simp [embedGo, keepBy, modes, modesM]
  | cons m ms ih =>
    intro as bs rl hm hb
    match as, hm with
    | a0 :: as', hm =>
      have hm' : ms.length = as'.length := by simpa using hm
      cases m with
      | false =>
        rw [keptCount_false] at hb
        obtain ⟨rr, he⟩ := gm_embedGo_false' cj ms a0 as' bs rl
        rw [he]
        have := ih as' bs rl hm' hb
        simp only [modes_cons, keepBy, List.map_cons, Bool.not_false, modesM]
        exact ⟨this.1, by simpa [eyeRect, Core.mapVal, modesM] using this.2⟩
      | true =>
        rw [keptCount_true] at hb
        match bs, hb with
        | b :: bs', hb =>
          have hb' : bs'.length = keptCount ms := by simpa using hb
          have := ih as' bs' b.r1 hm' hb'
          simp only [embedGo, modes_cons, keepBy, List.map_cons, Bool.not_true, modesM]
          exact ⟨by simpa [Core.mapVal] using this.1, by simpa [modesM] using this.2⟩

omit [CommRing α] in
theorem gm_length_maskOf (axis : List Nat) (d : Nat) : (maskOf axis d).length = d := by
  simp [maskOf]

theorem gm_keepBy_tIdx (mask : List Bool) (is : List Nat) :
    keepBy mask (tIdx is) = tIdx (keepBy mask is) := by
  simp only [tIdx]
  rw [keepBy_map]

theorem gm_length_mul (xs : List (Core α)) : ∀ (ys : List (Core α)), xs.length = ys.length →
    (mul xs ys).length = xs.length := by
  induction xs with
  | nil => intro ys _; cases ys <;> rfl
  | cons x xs ih =>
    intro ys h
    match ys, h with
    | y :: ys, h => simp [mul, ih ys (by simpa using h)]

/-! ### `sumOver` bookkeeping -/

theorem gm_sumOver_congr (sel : Nat → Bool) (cs : List (Core α)) :
    ∀ (p : Nat) (ij : List (Nat × Nat)) (f g : List (Nat × Nat) → α),
      ij.length = cs.length → (∀ r, r.length = cs.length → f r = g r) →
      sumOver sel p cs ij f = sumOver sel p cs ij g := by
  induction cs with
  | nil => intro p ij f g _ h; simpa [sumOver] using h [] rfl
  | cons c cs ih =>
    intro p ij f g hij h
    match ij, hij with
    | x :: xs, hij =>
      have hxs : xs.length = cs.length := by simpa using hij
      simp only [sumOver]
      split_ifs
      · apply sumTo_congr; intro i _
        apply sumTo_congr; intro j _
        exact ih (p+1) xs _ _ hxs (fun r hr => h _ (by simp [hr]))
      · exact ih (p+1) xs _ _ hxs (fun r hr => h _ (by simp [hr]))

/-- `sumOver` only reads the mode sizes, and `mul` keeps those of its first operand -/
theorem gm_sumOver_mul (sel : Nat → Bool) (xs : List (Core α)) :
    ∀ (ys : List (Core α)) (p : Nat) (ij : List (Nat × Nat)) (f : List (Nat × Nat) → α),
      xs.length = ys.length →
      sumOver sel p (mul xs ys) ij f = sumOver sel p xs ij f := by
  induction xs with
  | nil => intro ys p ij f _; cases ys <;> rfl
  | cons x xs ih =>
    intro ys p ij f h
    match ys, h with
    | y :: ys, h =>
      have h' : xs.length = ys.length := by simpa using h
      cases ij with
      | nil => simp [mul, sumOver]
      | cons i is =>
        simp only [mul, sumOver, mulCore]
        split_ifs
        · apply sumTo_congr; intro i _
          apply sumTo_congr; intro j _
          exact ih ys (p+1) is _ h'
        · exact ih ys (p+1) is _ h'

theorem gm_unselMask_len {β γ : Type} (sel : Nat → Bool) (l1 : List β) :
    ∀ (l2 : List γ) (p : Nat), l1.length = l2.length → unselMask sel p l1 = unselMask sel p l2 := by
  induction l1 with
  | nil => intro l2 p h; cases l2 with
    | nil => rfl
    | cons _ _ => simp at h
  | cons a l1 ih =>
    intro l2 p h
    match l2, h with
    | b :: l2, h => simp [unselMask, ih l2 (p+1) (by simpa using h)]

/-- the uncontracted positions are the complement of `maskOf` -/
theorem gm_unselMask_maskOf {β : Type} (axis : List Nat) (l : List β) :
    unselMask (fun i => axis.contains i) 0 l = (maskOf axis l.length).map not := by
  have : ∀ (l : List β) (p : Nat), unselMask (fun i => axis.contains i) p l
      = ((List.range' p l.length).map (fun i => axis.contains i)).map not := by
    intro l
    induction l with
    | nil => intro p; rfl
    | cons a l ih =>
      intro p
      simp only [unselMask, List.length_cons, List.range'_succ, List.map_cons, ih (p+1)]
  rw [this l 0, maskOf, List.range_eq_range']

end TT
