import TTLemmas.ReduceDims
import TTLemmas.Mul

/-!
# `__getitem__` on TT-matrices (operator branch) and the embedding loop of `dot(a, b, axis)`

Part A: `getitemGoM` / `getitemM` (pairs of selectors per mode).  `gm_slicedM` is the
accumulator-free form of the slicing loop, `selIdxM` the index map, `gm_exPosM` the `exclude` list.
Part B: `embedGo` (the train `b` spread over the contracted modes of `a`, identity cores elsewhere).
Helper names carry the prefix `gm_`.
-/
set_option linter.unusedSectionVars false

namespace TT
open Finset
variable {α : Type} [CommRing α]

/-! ## Part A: TT-matrix indexing -/

/-- admissible selector pairs: `(int, int)`, `(slice, slice)`, `(None, None)` -/
def gm_pairOK : Sel × Sel → Bool
  | (.int _, .int _) => true
  | (.slice _ _ _, .slice _ _ _) => true
  | (.none, .none) => true
  | _ => false

/-- the pair `(None, None)` -/
def gm_pairNone : Sel × Sel → Bool
  | (.none, .none) => true
  | _ => false

/-- a pair whose position survives `reduce_dims(exclude)`: everything but `(int, int)` -/
def gm_pairKeeps : Sel × Sel → Bool
  | (.int _, .int _) => false
  | _ => true

/-- index of the original operator addressed by index `ij` of the sliced operator (one entry per
    selector pair): `(int a, int b)` reads `(a, b)`, a pair of slices reads
    `(s1 + st1*x, s2 + st2*y)`, `(None, None)` positions carry no original index -/
def selIdxM : List (Sel × Sel) → List (Nat × Nat) → List (Nat × Nat)
  | (.none, .none) :: ss, _ :: xs => selIdxM ss xs
  | (.int a, .int b) :: ss, _ :: xs => (a, b) :: selIdxM ss xs
  | (.slice s1 st1 _, .slice s2 st2 _) :: ss, x :: xs =>
    (s1 + st1 * x.1, s2 + st2 * x.2) :: selIdxM ss xs
  | _, _ => []

/-- the `exclude` list built by the operator loop: positions of slice and `None` pairs -/
def gm_exPosM : Nat → List (Sel × Sel) → List Nat
  | _, [] => []
  | i, (.int _, .int _) :: ss => gm_exPosM (i+1) ss
  | i, _ :: ss => i :: gm_exPosM (i+1) ss

/-- accumulator-free form of `getitemGoM`; `r` is the right rank of the previous new core -/
def gm_slicedM : List (Sel × Sel) → List (Core α) → Nat → Option (List (Core α))
  | [], [], _ => some []
  | [], _ :: _, _ => Option.none
  | (.none, .none) :: ss, cs, r => (gm_slicedM ss cs r).map (fun t => eyeCore r :: t)
  | _ :: _, [], _ => Option.none
  | (.int k1, .int k2) :: ss, c :: cs, _ =>
    (gm_slicedM ss cs c.r1).map (fun t => selCol (selRow c (.int k1)) (.int k2) :: t)
  | (.slice a1 b1 c1, .slice a2 b2 c2) :: ss, c :: cs, _ =>
    (gm_slicedM ss cs c.r1).map
      (fun t => selCol (selRow c (.slice a1 b1 c1)) (.slice a2 b2 c2) :: t)
  | _ :: _, _ :: _, _ => Option.none

/-- mode sizes `(m, n)` after slicing, before `reduce_dims` -/
def gm_shapeFullM : List (Sel × Sel) → List (Nat × Nat)
  | [] => []
  | (.slice _ _ l1, .slice _ _ l2) :: ss => (l1, l2) :: gm_shapeFullM ss
  | _ :: ss => (1, 1) :: gm_shapeFullM ss

/-- the shape dense indexing gives: `(len1, len2)` per slice pair, `(1,1)` per `None` pair,
    nothing per integer pair -/
def gm_shapeM : List (Sel × Sel) → List (Nat × Nat)
  | [] => []
  | (.int _, .int _) :: ss => gm_shapeM ss
  | (.slice _ _ l1, .slice _ _ l2) :: ss => (l1, l2) :: gm_shapeM ss
  | _ :: ss => (1, 1) :: gm_shapeM ss

/-- index of the original operator addressed by index `ij` of the *result* of `A[sel]`
    (one entry per slice / `None` pair) -/
def gm_getIdxM : List (Sel × Sel) → List (Nat × Nat) → List (Nat × Nat)
  | (.int a, .int b) :: ss, xs => (a, b) :: gm_getIdxM ss xs
  | (.slice s1 st1 _, .slice s2 st2 _) :: ss, x :: xs =>
    (s1 + st1 * x.1, s2 + st2 * x.2) :: gm_getIdxM ss xs
  | (.none, .none) :: ss, _ :: xs => gm_getIdxM ss xs
  | _, _ => []

/-- survival mask of `A[sel]` -/
def gm_selMaskM (sel : List (Sel × Sel)) : List Bool :=
  if sel.any gm_pairKeeps then sel.map gm_pairKeeps
  else List.replicate (sel.length - 1) false ++ [true]

/-- `getitemGoM` = accumulator ++ `gm_slicedM`, exclude list = `gm_exPosM` -/
theorem gm_getitemGoM_eq (sel : List (Sel × Sel)) :
    ∀ (cs : List (Core α)) (i : Nat) (acc : List (Core α)) (ex : List Nat),
      getitemGoM sel cs i acc ex
        = (gm_slicedM sel cs (rd_lastR1 acc)).map
            (fun t => (acc.reverse ++ t, ex.reverse ++ gm_exPosM i sel)) := by
  induction sel with
  | nil =>
    intro cs i acc ex
    cases cs <;> simp [getitemGoM, gm_slicedM, gm_exPosM]
  | cons s ss ih =>
    intro cs i acc ex
    rcases s with ⟨s1, s2⟩
    cases s1 <;> cases s2 <;> cases cs <;>
      simp only [getitemGoM, gm_slicedM, gm_exPosM, Option.map_none] <;>
      (try rw [ih]) <;>
      (try (cases acc <;>
        simp [rd_lastR1, eyeCore, selRow, selCol, Option.map_map, Function.comp_def]))

/-- inversion of one step of the slicing loop -/
theorem gm_slicedM_cons_some (p : Sel × Sel) (ss : List (Sel × Sel)) (cs : List (Core α)) (r : Nat)
    (t : List (Core α)) (h : gm_slicedM (p :: ss) cs r = some t) :
    (p = (.none, .none) ∧ ∃ t', gm_slicedM ss cs r = some t' ∧ t = eyeCore r :: t') ∨
    (∃ k1 k2 c cs' t', p = (.int k1, .int k2) ∧ cs = c :: cs' ∧
      gm_slicedM ss cs' c.r1 = some t' ∧ t = selCol (selRow c (.int k1)) (.int k2) :: t') ∨
    (∃ a1 b1 c1 a2 b2 c2 c cs' t', p = (.slice a1 b1 c1, .slice a2 b2 c2) ∧ cs = c :: cs' ∧
      gm_slicedM ss cs' c.r1 = some t' ∧
      t = selCol (selRow c (.slice a1 b1 c1)) (.slice a2 b2 c2) :: t') := by
  rcases p with ⟨s1, s2⟩
  cases s1 <;> cases s2 <;> cases cs <;>
    simp only [gm_slicedM, Option.map_eq_some_iff, reduceCtorEq] at h
  · rename_i k1 k2 c cs'
    obtain ⟨t', ht', rfl⟩ := h
    exact Or.inr (Or.inl ⟨k1, k2, c, cs', t', rfl, rfl, ht', rfl⟩)
  · rename_i a1 b1 c1 a2 b2 c2 c cs'
    obtain ⟨t', ht', rfl⟩ := h
    exact Or.inr (Or.inr ⟨a1, b1, c1, a2, b2, c2, c, cs', t', rfl, rfl, ht', rfl⟩)
  · obtain ⟨t', ht', rfl⟩ := h
    exact Or.inl ⟨rfl, t', ht', rfl⟩
  · obtain ⟨t', ht', rfl⟩ := h
    exact Or.inl ⟨rfl, t', ht', rfl⟩

end TT
