import TTModel.Algebra
import TTLemmas.Sum

/-! Block placement lemma behind `+`/`-`: `chain (addFrom …)` splits into the two operands. -/
namespace TT
open Finset
variable {α : Type} [CommRing α]

/-- non-first part of `add`: block-diagonal transfer matrices, last core stacked. -/
theorem chain_addFrom_false (xs ys : List (Core α)) (ij : List (Nat × Nat))
    (hlen : xs.length = ys.length) (hne : xs ≠ []) :
    ∀ (rx ry : Nat), WF xs rx → WF ys ry → ij.length = xs.length →
      (∀ a, a < rx → chain (addFrom false xs ys) ij a 0 = chain xs ij a 0) ∧
      (∀ a, a < ry → chain (addFrom false xs ys) ij (rx + a) 0 = chain ys ij a 0) := by
  induction xs generalizing ys ij with
  | nil => exact absurd rfl hne
  | cons x xs ih =>
    intro rx ry hwx hwy hil
    match ys, ij, hlen, hil with
    | y :: ys, i :: is, hlen, hil =>
      obtain ⟨hx0, hwx'⟩ := hwx
      obtain ⟨hy0, hwy'⟩ := hwy
      cases xs with
      | nil =>
        have hys : ys = [] := by
          cases ys with
          | nil => rfl
          | cons _ _ => simp at hlen
        subst hys
        have hx1 : x.r1 = 1 := hwx'
        have hy1 : y.r1 = 1 := hwy'
        constructor
        · intro a ha
          simp [addFrom, addCore, off, chain, sumTo, hx1, hy1, hx0, ha]
        · intro a ha
          simp [addFrom, addCore, off, chain, sumTo, hx1, hy1, hx0]
      | cons x' xs' =>
        match ys, hlen with
        | y' :: ys', hlen =>
          have hlen' : (x' :: xs').length = (y' :: ys').length := by simpa using hlen
          have hil' : is.length = (x' :: xs').length := by simpa using hil
          have IH := ih (y' :: ys') is hlen' (by simp) x.r1 y.r1 hwx' hwy' hil'
          obtain ⟨IHx, IHy⟩ := IH
          constructor
          · intro a ha
            have : addFrom false (x :: x' :: xs') (y :: y' :: ys') =
                addCore false false x y :: addFrom false (x' :: xs') (y' :: ys') := rfl
            rw [this]
            simp only [chain]
            show sumTo (x.r1 + y.r1) _ = sumTo x.r1 _
            rw [sumTo_add]
            have h1 : sumTo x.r1 (fun k => (addCore false false x y).get a i.1 i.2 k *
                chain (addFrom false (x' :: xs') (y' :: ys')) is k 0)
                = sumTo x.r1 (fun k => x.get a i.1 i.2 k * chain (x' :: xs') is k 0) := by
              apply sumTo_congr
              intro k hk
              rw [IHx k hk]
              have hk2 : ¬ (rx ≤ a ∧ x.r1 ≤ k) := by omega
              simp [addCore, off, hx0, ha, hk, hk2]
            have h2 : sumTo y.r1 (fun k => (addCore false false x y).get a i.1 i.2 (x.r1 + k) *
                chain (addFrom false (x' :: xs') (y' :: ys')) is (x.r1 + k) 0) = 0 := by
              apply sumTo_eq_zero
              intro k hk
              have hk2 : ¬ (rx ≤ a) := by omega
              simp [addCore, off, hx0, ha, hk2]
            simp only [addCore, off] at h1 h2 ⊢
            rw [h1, h2, add_zero]
          · intro a ha
            have : addFrom false (x :: x' :: xs') (y :: y' :: ys') =
                addCore false false x y :: addFrom false (x' :: xs') (y' :: ys') := rfl
            rw [this]
            simp only [chain]
            show sumTo (x.r1 + y.r1) _ = sumTo y.r1 _
            rw [sumTo_add]
            have h1 : sumTo x.r1 (fun k => (addCore false false x y).get (rx + a) i.1 i.2 k *
                chain (addFrom false (x' :: xs') (y' :: ys')) is k 0) = 0 := by
              apply sumTo_eq_zero
              intro k hk
              have hk2 : ¬ (x.r1 ≤ k) := by omega
              simp [addCore, off, hx0, hk2]
            have h2 : sumTo y.r1 (fun k => (addCore false false x y).get (rx + a) i.1 i.2 (x.r1 + k) *
                chain (addFrom false (x' :: xs') (y' :: ys')) is (x.r1 + k) 0)
                = sumTo y.r1 (fun k => y.get a i.1 i.2 k * chain (y' :: ys') is k 0) := by
              apply sumTo_congr
              intro k hk
              rw [IHy k hk]
              simp [addCore, off, hx0]
            simp only [addCore, off] at h1 h2 ⊢
            rw [h1, h2, zero_add]

/-- value of `add`: all orders, all mode sizes, all rank profiles, all core values. -/
theorem full_add_gen (xs ys : List (Core α)) (ij : List (Nat × Nat))
    (hwx : WF xs 1) (hwy : WF ys 1) (hlen : xs.length = ys.length)
    (hil : ij.length = xs.length) (hne : xs ≠ []) :
    full (add xs ys) ij = full xs ij + full ys ij := by
  match xs, ys, ij, hlen, hil, hne with
  | [x], [y], [i], _, _, _ =>
    obtain ⟨hx0, hx1⟩ := hwx
    obtain ⟨hy0, hy1⟩ := hwy
    have hx1 : x.r1 = 1 := hx1
    have hy1 : y.r1 = 1 := hy1
    simp [full, add, addFrom, addCore, off, chain, sumTo, hx0, hx1, hy0, hy1, ]
  | x :: x' :: xs', y :: y' :: ys', i :: is, hlen, hil, _ =>
    obtain ⟨hx0, hwx'⟩ := hwx
    obtain ⟨hy0, hwy'⟩ := hwy
    have hlen' : (x' :: xs').length = (y' :: ys').length := by simpa using hlen
    have hil' : is.length = (x' :: xs').length := by simpa using hil
    obtain ⟨Hx, Hy⟩ := chain_addFrom_false (x' :: xs') (y' :: ys') is hlen' (by simp)
      x.r1 y.r1 hwx' hwy' hil'
    have e : add (x :: x' :: xs') (y :: y' :: ys') =
        addCore true false x y :: addFrom false (x' :: xs') (y' :: ys') := rfl
    simp only [full, e, chain]
    show sumTo (x.r1 + y.r1) _ = _
    rw [sumTo_add]
    congr 1
    · apply sumTo_congr
      intro k hk
      rw [Hx k hk]
      have hk2 : ¬ (x.r1 ≤ k) := by omega
      simp [addCore, off, hx0, hk, hk2]
    · apply sumTo_congr
      intro k hk
      rw [Hy k hk]
      simp [addCore, off, hx0]

end TT
