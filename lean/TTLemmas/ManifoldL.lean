import TTModel.Manifold
import TTLemmas.Sum
import TTLemmas.ExtrasL

/-!
Helper lemmas for C16 (`torchtt/manifold.py`): block structure of `_delta2cores`
(`TT.Manifold.delta2cores`) and multilinearity of the kernels of `riemannian_projection`.
All helper names carry the prefix `mf_`.
-/
namespace TT.Manifold
open TT TT.Kern Finset
variable {α : Type} [CommRing α]

/-- `ls`, `rs`, `ds` have the same length and share one rank profile `ρ_k, ρ_{k+1}, …, 1`
    starting from the left rank `ρ` (mode sizes are irrelevant) -/
def SameRanks : List (Core α) → List (Core α) → List (Core α) → Nat → Prop
  | [], [], [], ρ => ρ = 1
  | l :: ls, r :: rs, d :: ds, ρ =>
      l.r0 = ρ ∧ r.r0 = ρ ∧ d.r0 = ρ ∧ l.r1 = r.r1 ∧ d.r1 = r.r1 ∧ SameRanks ls rs ds r.r1
  | _, _, _, _ => False

/-- the `k`-th tangent term `L_0 ⋯ L_{k-1} · δ_k · R_{k+1} ⋯ R_{d-1}` as a train
    (`(ds.drop k).take 1 = [ds[k]]` for `k < ds.length`) -/
def tangentTerm (ls rs ds : List (Core α)) (k : Nat) : List (Core α) :=
  ls.take k ++ (ds.drop k).take 1 ++ rs.drop (k + 1)

/-- recursive form of the tangent sum on a suffix, for a left boundary index `a`:
    `δ_k R_{k+1} ⋯ + L_k · (tangent sum of the rest)` -/
def mf_tsum : List (Core α) → List (Core α) → List (Core α) → List (Nat × Nat) → Nat → α
  | l :: ls, _ :: rs, d :: ds, i :: is, a =>
      chain (d :: rs) (i :: is) a 0 + sumTo l.r1 (fun k => l.get a i.1 i.2 k * mf_tsum ls rs ds is k)
  | _, _, _, _, _ => 0

omit [CommRing α] in
theorem mf_SameRanks_length (ls rs ds : List (Core α)) :
    ∀ ρ, SameRanks ls rs ds ρ → rs.length = ls.length ∧ ds.length = ls.length := by
  induction ls generalizing rs ds with
  | nil =>
    intro ρ h
    match rs, ds, h with
    | [], [], _ => exact ⟨rfl, rfl⟩
  | cons l ls ih =>
    intro ρ h
    match rs, ds, h with
    | r :: rs, d :: ds, h =>
      obtain ⟨_, _, _, _, _, h'⟩ := h
      obtain ⟨h1, h2⟩ := ih rs ds _ h'
      simp [h1, h2]

theorem mf_sumTo_succ' (n : Nat) (f : Nat → α) :
    sumTo (n + 1) f = f 0 + sumTo n (fun k => f (k + 1)) := by
  simp only [sumTo_eq_sum]
  rw [Finset.sum_range_succ', add_comm]

/-- the recursive tangent sum is the sum over the position of `δ` -/
theorem mf_tsum_eq_sum (ls rs ds : List (Core α)) (ij : List (Nat × Nat))
    (hr : rs.length = ls.length) (hd : ds.length = ls.length) (hil : ij.length = ls.length) :
    ∀ a, mf_tsum ls rs ds ij a =
      sumTo ls.length (fun k => chain (tangentTerm ls rs ds k) ij a 0) := by
  induction ls generalizing rs ds ij with
  | nil => intro a; match rs, ds, ij, hr, hd, hil with | [], [], [], _, _, _ => simp [mf_tsum, sumTo]
  | cons l ls ih =>
    intro a
    match rs, ds, ij, hr, hd, hil with
    | r :: rs, d :: ds, i :: is, hr, hd, hil =>
      have hr' : rs.length = ls.length := by simpa using hr
      have hd' : ds.length = ls.length := by simpa using hd
      have hil' : is.length = ls.length := by simpa using hil
      simp only [mf_tsum, List.length_cons]
      rw [mf_sumTo_succ']
      congr 1
      have e : ∀ k, chain (tangentTerm (l :: ls) (r :: rs) (d :: ds) (k + 1)) (i :: is) a 0 =
          sumTo l.r1 (fun b => l.get a i.1 i.2 b * chain (tangentTerm ls rs ds k) is b 0) := by
        intro k
        simp [tangentTerm, chain]
      simp only [e]
      rw [sumTo_comm]
      apply sumTo_congr; intro b _
      rw [ih rs ds is hr' hd' hil' b, sumTo_mul_left]

/-! ### block structure of `deltaTail` -/

theorem mf_chain_cons (c : Core α) (cs : List (Core α)) (i : Nat × Nat) (is : List (Nat × Nat))
    (a b : Nat) :
    chain (c :: cs) (i :: is) a b = sumTo c.r1 (fun k => c.get a i.1 i.2 k * chain cs is k b) := rfl

theorem mf_tsum_cons (l r d : Core α) (ls rs ds : List (Core α)) (i : Nat × Nat)
    (is : List (Nat × Nat)) (a : Nat) :
    mf_tsum (l :: ls) (r :: rs) (d :: ds) (i :: is) a =
      chain (d :: rs) (i :: is) a 0 +
        sumTo l.r1 (fun k => l.get a i.1 i.2 k * mf_tsum ls rs ds is k) := rfl

/-- Transfer-matrix product of the tail of `_delta2cores` (positions `k ≥ 1`): the upper block row
    reproduces the right-orthogonal suffix, the lower block row the tangent sum of the suffix. -/
theorem mf_chain_deltaTail (ls rs ds : List (Core α)) (ij : List (Nat × Nat)) (hne : ls ≠ []) :
    ∀ ρ, SameRanks ls rs ds ρ → ij.length = ls.length →
      (∀ a, a < ρ → chain (deltaTail ls rs ds) ij a 0 = chain rs ij a 0) ∧
      (∀ a, chain (deltaTail ls rs ds) ij (ρ + a) 0 = mf_tsum ls rs ds ij a) := by
  induction ls generalizing rs ds ij with
  | nil => exact absurd rfl hne
  | cons l ls ih =>
    intro ρ hs hil
    match rs, ds, ij, hs, hil with
    | r :: rs, d :: ds, i :: is, hs, hil =>
      obtain ⟨hl0, hr0, hd0, hl1, hd1, hs'⟩ := hs
      cases ls with
      | nil =>
        match rs, ds, is, hs', hil with
        | [], [], [], hs', _ =>
          have hr1 : r.r1 = 1 := hs'
          have hl1' : l.r1 = 1 := by omega
          have hd1' : d.r1 = 1 := by omega
          constructor
          · intro a ha
            simp [deltaTail, catR0, chain, sumTo, hr1, hr0, ha]
          · intro a
            simp [deltaTail, catR0, chain, sumTo, mf_tsum, hr1, hr0, hl1', hd1']
      | cons l' ls' =>
        match rs, ds, is, hs', hil with
        | r' :: rs', d' :: ds', i' :: is', hs', hil =>
          have hil' : (i' :: is').length = (l' :: ls').length := by simpa using hil
          obtain ⟨IHa, IHb⟩ := ih (r' :: rs') (d' :: ds') (i' :: is') (by simp) r.r1 hs' hil'
          have e : deltaTail (l :: l' :: ls') (r :: r' :: rs') (d :: d' :: ds') =
              catR0 (catR1 r (zeroLike r)) (catR1 d l) ::
                deltaTail (l' :: ls') (r' :: rs') (d' :: ds') := rfl
          rw [e]
          constructor
          · intro a ha
            rw [mf_chain_cons, mf_chain_cons r]
            show sumTo (r.r1 + r.r1) _ = sumTo r.r1 _
            rw [sumTo_add]
            have h1 : sumTo r.r1 (fun k => (catR0 (catR1 r (zeroLike r)) (catR1 d l)).get a i.1 i.2 k *
                chain (deltaTail (l' :: ls') (r' :: rs') (d' :: ds')) (i' :: is') k 0)
                = sumTo r.r1 (fun k => r.get a i.1 i.2 k * chain (r' :: rs') (i' :: is') k 0) := by
              apply sumTo_congr
              intro k hk
              rw [IHa k hk]
              simp [catR0, catR1, hr0, ha, hk]
            have h2 : sumTo r.r1 (fun k =>
                (catR0 (catR1 r (zeroLike r)) (catR1 d l)).get a i.1 i.2 (r.r1 + k) *
                chain (deltaTail (l' :: ls') (r' :: rs') (d' :: ds')) (i' :: is') (r.r1 + k) 0) = 0 := by
              apply sumTo_eq_zero
              intro k hk
              simp [catR0, catR1, zeroLike, hr0, ha]
            rw [h1, h2, add_zero]
          · intro a
            rw [mf_chain_cons, mf_tsum_cons, mf_chain_cons d]
            show sumTo (r.r1 + r.r1) _ = _
            rw [sumTo_add]
            congr 1
            · rw [hd1]
              apply sumTo_congr
              intro k hk
              rw [IHa k hk]
              simp [catR0, catR1, hr0, hd1, hk]
            · rw [hl1]
              apply sumTo_congr
              intro k hk
              rw [IHb k]
              simp [catR0, catR1, hr0, hd1]

/-- the rank-`2r` train of `_delta2cores` represents the (recursive) tangent sum -/
theorem mf_full_delta2cores (ls rs ds : List (Core α)) (ij : List (Nat × Nat))
    (hs : SameRanks ls rs ds 1) (h2 : 2 ≤ ls.length) (hil : ij.length = ls.length) :
    full (delta2cores ls rs ds) ij = mf_tsum ls rs ds ij 0 := by
  match ls, h2, hs, hil with
  | l :: l' :: ls', _, hs, hil =>
    match rs, ds, ij, hs, hil with
    | r :: rs, d :: ds, i :: is, hs, hil =>
      obtain ⟨hl0, hr0, hd0, hl1, hd1, hs'⟩ := hs
      match rs, ds, is, hs', hil with
      | r' :: rs', d' :: ds', i' :: is', hs', hil =>
        have hil' : (i' :: is').length = (l' :: ls').length := by simpa using hil
        obtain ⟨Ha, Hb⟩ := mf_chain_deltaTail (l' :: ls') (r' :: rs') (d' :: ds') (i' :: is')
          (by simp) r.r1 hs' hil'
        have e : delta2cores (l :: l' :: ls') (r :: r' :: rs') (d :: d' :: ds') =
            catR1 d l :: deltaTail (l' :: ls') (r' :: rs') (d' :: ds') := rfl
        unfold full
        rw [e, mf_chain_cons, mf_tsum_cons, mf_chain_cons d]
        show sumTo (d.r1 + l.r1) _ = _
        rw [sumTo_add]
        congr 1
        · apply sumTo_congr
          intro k hk
          rw [Ha k (by omega)]
          simp [catR1, hk]
        · apply sumTo_congr
          intro k hk
          rw [hd1, Hb k]
          simp [catR1, hd1]

/-! ### well-formedness and ranks of `delta2cores` -/

/-- double every entry but the last -/
def mf_dblInit : List Nat → List Nat
  | [] => []
  | [x] => [x]
  | x :: y :: t => 2 * x :: mf_dblInit (y :: t)

theorem mf_dblInit_getD_le (xs : List Nat) : ∀ k, (mf_dblInit xs).getD k 0 ≤ 2 * xs.getD k 0 := by
  induction xs with
  | nil => intro k; simp [mf_dblInit]
  | cons x xs ih =>
    intro k
    cases xs with
    | nil => cases k <;> simp [mf_dblInit]; omega
    | cons y t =>
      cases k with
      | zero => simp [mf_dblInit]
      | succ k => simpa [mf_dblInit] using ih k

theorem mf_dblInit_getD_lt (xs : List Nat) :
    ∀ k, k + 1 < xs.length → (mf_dblInit xs).getD k 0 = 2 * xs.getD k 0 := by
  induction xs with
  | nil => intro k h; simp at h
  | cons x xs ih =>
    intro k h
    cases xs with
    | nil => simp at h
    | cons y t =>
      cases k with
      | zero => simp [mf_dblInit]
      | succ k =>
        have h' : k + 1 < (y :: t).length := by simpa using h
        simpa [mf_dblInit] using ih k h'

theorem mf_dblInit_getD_last (xs : List Nat) :
    ∀ k, k + 1 = xs.length → (mf_dblInit xs).getD k 0 = xs.getD k 0 := by
  induction xs with
  | nil => intro k h; simp at h
  | cons x xs ih =>
    intro k h
    cases xs with
    | nil =>
      have : k = 0 := by simpa using h
      subst this; simp [mf_dblInit]
    | cons y t =>
      cases k with
      | zero => simp at h
      | succ k =>
        have h' : k + 1 = (y :: t).length := by simpa using h
        simpa [mf_dblInit] using ih k h'

theorem mf_dblInit_length (xs : List Nat) : (mf_dblInit xs).length = xs.length := by
  induction xs with
  | nil => rfl
  | cons x xs ih =>
    cases xs with
    | nil => rfl
    | cons y t => simpa [mf_dblInit] using ih

omit [CommRing α] in
theorem mf_deltaTail_spec [Zero α] (ls rs ds : List (Core α)) (hne : ls ≠ []) :
    ∀ ρ, SameRanks ls rs ds ρ →
      WF (deltaTail ls rs ds) (ρ + ρ) ∧ (deltaTail ls rs ds).length = ls.length ∧
      (deltaTail ls rs ds).map (·.r1) = mf_dblInit (ls.map (·.r1)) := by
  induction ls generalizing rs ds with
  | nil => exact absurd rfl hne
  | cons l ls ih =>
    intro ρ hs
    match rs, ds, hs with
    | r :: rs, d :: ds, hs =>
      obtain ⟨hl0, hr0, hd0, hl1, hd1, hs'⟩ := hs
      cases ls with
      | nil =>
        match rs, ds, hs' with
        | [], [], hs' =>
          have hr1 : r.r1 = 1 := hs'
          refine ⟨⟨?_, ?_⟩, rfl, ?_⟩
          · simp [catR0, hr0, hd0]
          · show r.r1 = 1
            exact hr1
          · simp [deltaTail, catR0, mf_dblInit, hl1]
      | cons l' ls' =>
        match rs, ds, hs' with
        | r' :: rs', d' :: ds', hs' =>
          obtain ⟨IH1, IH2, IH3⟩ := ih (r' :: rs') (d' :: ds') (by simp) r.r1 hs'
          have e : deltaTail (l :: l' :: ls') (r :: r' :: rs') (d :: d' :: ds') =
              catR0 (catR1 r (zeroLike r)) (catR1 d l) ::
                deltaTail (l' :: ls') (r' :: rs') (d' :: ds') := rfl
          rw [e]
          refine ⟨⟨?_, ?_⟩, ?_, ?_⟩
          · simp [catR0, catR1, hr0, hd0]
          · exact IH1
          · simp [IH2]
          · rw [List.map_cons, IH3]
            simp [mf_dblInit, catR0, catR1, zeroLike, hl1]
            omega

omit [CommRing α] in
theorem mf_delta2cores_spec [Zero α] (ls rs ds : List (Core α))
    (hs : SameRanks ls rs ds 1) (h2 : 2 ≤ ls.length) :
    WF (delta2cores ls rs ds) 1 ∧ (delta2cores ls rs ds).length = ls.length ∧
    ranks (delta2cores ls rs ds) = 1 :: mf_dblInit (ls.map (·.r1)) := by
  match ls, h2, hs with
  | l :: l' :: ls', _, hs =>
    match rs, ds, hs with
    | r :: rs, d :: ds, hs =>
      obtain ⟨hl0, hr0, hd0, hl1, hd1, hs'⟩ := hs
      match rs, ds, hs' with
      | r' :: rs', d' :: ds', hs' =>
        obtain ⟨H1, H2, H3⟩ := mf_deltaTail_spec (l' :: ls') (r' :: rs') (d' :: ds') (by simp) r.r1 hs'
        have e : delta2cores (l :: l' :: ls') (r :: r' :: rs') (d :: d' :: ds') =
            catR1 d l :: deltaTail (l' :: ls') (r' :: rs') (d' :: ds') := rfl
        rw [e]
        refine ⟨⟨?_, ?_⟩, ?_, ?_⟩
        · simp [catR1, hd0]
        · have : (catR1 d l).r1 = r.r1 + r.r1 := by simp [catR1, hd1, hl1]
          rw [this]; exact H1
        · simp [H2]
        · simp only [ranks, List.map_cons, H3]
          simp [mf_dblInit, catR1, hd0, hd1, hl1]
          omega

/-! ### multilinearity of the kernels of `riemannian_projection` -/

/-- entrywise sum of two cores of the same shape (shape fields taken from the first) -/
def addC (z w : Core α) : Core α := { z with get := fun a i j b => z.get a i j b + w.get a i j b }
/-- entrywise scaling of a core -/
def smulC (c : α) (z : Core α) : Core α := { z with get := fun a i j b => c * z.get a i j b }
/-- entrywise sum / scaling of interface matrices -/
def addP (P Q : Phi2 α) : Phi2 α := fun r s => P r s + Q r s
def smulP (c : α) (P : Phi2 α) : Phi2 α := fun r s => c * P r s

theorem mf_pleftStep_add_z (P : Phi2 α) (l z w : Core α) (h0 : w.r0 = z.r0) (R S : Nat) :
    pleftStep P l (addC z w) R S = pleftStep P l z R S + pleftStep P l w R S := by
  simp only [pleftStep, addC, h0, sumTo_eq_sum, mul_add, Finset.sum_add_distrib]

theorem mf_pleftStep_smul_z (c : α) (P : Phi2 α) (l z : Core α) (R S : Nat) :
    pleftStep P l (smulC c z) R S = c * pleftStep P l z R S := by
  simp only [pleftStep, smulC, sumTo_eq_sum, Finset.mul_sum]
  refine Finset.sum_congr rfl fun _ _ => Finset.sum_congr rfl fun _ _ =>
    Finset.sum_congr rfl fun _ _ => Finset.sum_congr rfl fun _ _ => ?_
  ring

theorem mf_pleftStep_add_P (P Q : Phi2 α) (l z : Core α) (R S : Nat) :
    pleftStep (addP P Q) l z R S = pleftStep P l z R S + pleftStep Q l z R S := by
  simp only [pleftStep, addP, sumTo_eq_sum, add_mul, Finset.sum_add_distrib]

theorem mf_pleftStep_smul_P (c : α) (P : Phi2 α) (l z : Core α) (R S : Nat) :
    pleftStep (smulP c P) l z R S = c * pleftStep P l z R S := by
  simp only [pleftStep, smulP, sumTo_eq_sum, Finset.mul_sum]
  refine Finset.sum_congr rfl fun _ _ => Finset.sum_congr rfl fun _ _ =>
    Finset.sum_congr rfl fun _ _ => Finset.sum_congr rfl fun _ _ => ?_
  ring

theorem mf_prightStep_add_z (P : Phi2 α) (rc z w : Core α) (h1 : w.r1 = z.r1) (r s : Nat) :
    prightStep P rc (addC z w) r s = prightStep P rc z r s + prightStep P rc w r s := by
  simp only [prightStep, addC, h1, sumTo_eq_sum, mul_add, Finset.sum_add_distrib]

theorem mf_prightStep_smul_z (c : α) (P : Phi2 α) (rc z : Core α) (r s : Nat) :
    prightStep P rc (smulC c z) r s = c * prightStep P rc z r s := by
  simp only [prightStep, smulC, sumTo_eq_sum, Finset.mul_sum]
  refine Finset.sum_congr rfl fun _ _ => Finset.sum_congr rfl fun _ _ =>
    Finset.sum_congr rfl fun _ _ => Finset.sum_congr rfl fun _ _ => ?_
  ring

theorem mf_prightStep_add_P (P Q : Phi2 α) (rc z : Core α) (r s : Nat) :
    prightStep (addP P Q) rc z r s = prightStep P rc z r s + prightStep Q rc z r s := by
  simp only [prightStep, addP, sumTo_eq_sum, add_mul, Finset.sum_add_distrib]

theorem mf_prightStep_smul_P (c : α) (P : Phi2 α) (rc z : Core α) (r s : Nat) :
    prightStep (smulP c P) rc z r s = c * prightStep P rc z r s := by
  simp only [prightStep, smulP, sumTo_eq_sum, Finset.mul_sum]
  refine Finset.sum_congr rfl fun _ _ => Finset.sum_congr rfl fun _ _ =>
    Finset.sum_congr rfl fun _ _ => Finset.sum_congr rfl fun _ _ => ?_
  ring

/-- the `get` of `projSd`, written with the (already linear) kernel `pleftStep` -/
theorem mf_projSd_get_none (L : Phi2 α) (rR : Nat) (l z : Core α) (r i j S : Nat) :
    (projSd L none rR l z).get r i j S = sumTo z.r0 (fun s => L r s * z.get s i j S) := rfl

theorem mf_projSd_get_some (L Rp : Phi2 α) (rR : Nat) (l z : Core α) (r i j R : Nat) :
    (projSd L (some Rp) rR l z).get r i j R =
      sumTo z.r1 (fun S => (sumTo z.r0 (fun s => L r s * z.get s i j S) +
        - sumTo l.r1 (fun R' => l.get r i j R' * pleftStep L l z R' S)) * Rp R S) := rfl

theorem mf_projSd_add_z (L : Phi2 α) (Rm : Option (Phi2 α)) (rR : Nat) (l z w : Core α)
    (h0 : w.r0 = z.r0) (h1 : w.r1 = z.r1) (r i j R : Nat) :
    (projSd L Rm rR l (addC z w)).get r i j R =
      (projSd L Rm rR l z).get r i j R + (projSd L Rm rR l w).get r i j R := by
  cases Rm with
  | none =>
    simp only [mf_projSd_get_none, h0]
    simp only [addC, sumTo_eq_sum, mul_add, Finset.sum_add_distrib]
  | some Rp =>
    simp only [mf_projSd_get_some, h0, h1, mf_pleftStep_add_z _ _ _ _ h0]
    simp only [addC, sumTo_eq_sum, mul_add, add_mul, neg_add, Finset.sum_add_distrib]
    ring

theorem mf_projSd_smul_z (c : α) (L : Phi2 α) (Rm : Option (Phi2 α)) (rR : Nat) (l z : Core α)
    (r i j R : Nat) :
    (projSd L Rm rR l (smulC c z)).get r i j R = c * (projSd L Rm rR l z).get r i j R := by
  cases Rm with
  | none =>
    simp only [mf_projSd_get_none]
    simp only [smulC, sumTo_eq_sum, Finset.mul_sum]
    refine Finset.sum_congr rfl fun _ _ => ?_
    ring
  | some Rp =>
    simp only [mf_projSd_get_some, mf_pleftStep_smul_z]
    simp only [smulC, sumTo_eq_sum, Finset.mul_sum]
    refine Finset.sum_congr rfl fun S _ => ?_
    have e1 : ∀ s, L r s * (c * z.get s i j S) = c * (L r s * z.get s i j S) := fun s => by ring
    have e2 : ∀ R', l.get r i j R' * (c * pleftStep L l z R' S) =
        c * (l.get r i j R' * pleftStep L l z R' S) := fun R' => by ring
    simp only [e1, e2, ← Finset.mul_sum]
    ring

theorem mf_projSd_add_L (L M : Phi2 α) (Rm : Option (Phi2 α)) (rR : Nat) (l z : Core α)
    (r i j R : Nat) :
    (projSd (addP L M) Rm rR l z).get r i j R =
      (projSd L Rm rR l z).get r i j R + (projSd M Rm rR l z).get r i j R := by
  cases Rm with
  | none =>
    simp only [mf_projSd_get_none]
    simp only [addP, sumTo_eq_sum, add_mul, Finset.sum_add_distrib]
  | some Rp =>
    simp only [mf_projSd_get_some, mf_pleftStep_add_P]
    simp only [addP, sumTo_eq_sum, mul_add, add_mul, neg_add, Finset.sum_add_distrib]
    ring

theorem mf_projSd_smul_L (c : α) (L : Phi2 α) (Rm : Option (Phi2 α)) (rR : Nat) (l z : Core α)
    (r i j R : Nat) :
    (projSd (smulP c L) Rm rR l z).get r i j R = c * (projSd L Rm rR l z).get r i j R := by
  cases Rm with
  | none =>
    simp only [mf_projSd_get_none]
    simp only [smulP, sumTo_eq_sum, Finset.mul_sum]
    refine Finset.sum_congr rfl fun _ _ => ?_
    ring
  | some Rp =>
    simp only [mf_projSd_get_some, mf_pleftStep_smul_P]
    simp only [smulP, sumTo_eq_sum, Finset.mul_sum]
    refine Finset.sum_congr rfl fun S _ => ?_
    have e1 : ∀ s, c * L r s * z.get s i j S = c * (L r s * z.get s i j S) := fun s => by ring
    have e2 : ∀ R', l.get r i j R' * (c * pleftStep L l z R' S) =
        c * (l.get r i j R' * pleftStep L l z R' S) := fun R' => by ring
    simp only [e1, e2, ← Finset.mul_sum]
    ring

theorem mf_projSd_add_R (L Rp Rq : Phi2 α) (rR : Nat) (l z : Core α) (r i j R : Nat) :
    (projSd L (some (addP Rp Rq)) rR l z).get r i j R =
      (projSd L (some Rp) rR l z).get r i j R + (projSd L (some Rq) rR l z).get r i j R := by
  simp only [mf_projSd_get_some]
  simp only [addP, sumTo_eq_sum, mul_add, Finset.sum_add_distrib]

theorem mf_projSd_smul_R (c : α) (L Rp : Phi2 α) (rR : Nat) (l z : Core α) (r i j R : Nat) :
    (projSd L (some (smulP c Rp)) rR l z).get r i j R =
      c * (projSd L (some Rp) rR l z).get r i j R := by
  simp only [mf_projSd_get_some]
  simp only [smulP, sumTo_eq_sum, Finset.mul_sum]
  refine Finset.sum_congr rfl fun S _ => ?_
  ring

/-! ### shapes of the projected variations -/

omit [CommRing α] in
theorem mf_SameRanks_WF (ls rs ds : List (Core α)) :
    ∀ ρ, SameRanks ls rs ds ρ → WF ls ρ ∧ WF rs ρ ∧ WF ds ρ := by
  induction ls generalizing rs ds with
  | nil =>
    intro ρ h
    match rs, ds, h with
    | [], [], h => exact ⟨h, h, h⟩
  | cons l ls ih =>
    intro ρ h
    match rs, ds, h with
    | r :: rs, d :: ds, h =>
      obtain ⟨h1, h2, h3, h4, h5, h'⟩ := h
      obtain ⟨w1, w2, w3⟩ := ih rs ds _ h'
      exact ⟨⟨h1, by rw [h4]; exact w1⟩, ⟨h2, w2⟩, ⟨h3, by rw [h5]; exact w3⟩⟩

omit [CommRing α] in
theorem mf_prightList_length [Zero α] [One α] [Add α] [Mul α] (rs zs : List (Core α))
    (h : zs.length = rs.length) : (prightList rs zs).length = rs.length := by
  induction rs generalizing zs with
  | nil => simp [prightList]
  | cons r rs ih =>
    match zs, h with
    | z :: zs, h =>
      have h' : zs.length = rs.length := by simpa using h
      simp [prightList, ih zs h']

theorem mf_projSdsGo_cons2 (l l' z z' : Core α) (ls zs : List (Core α)) (p0 pr : Phi2 α)
    (prs : List (Phi2 α)) (L : Phi2 α) :
    projSdsGo (l :: l' :: ls) (z :: z' :: zs) (p0 :: pr :: prs) L =
      projSd L (some pr) l.r1 l z ::
        projSdsGo (l' :: ls) (z' :: zs) (pr :: prs) (pleftStep L l z) := rfl

/-- the variations computed by `riemannian_projection` have the rank profile of the base point -/
theorem mf_SameRanks_projSdsGo (ls rs zs : List (Core α)) (hne : ls ≠ []) :
    ∀ (ρ s : Nat) (prs : List (Phi2 α)) (L : Phi2 α), SameRanks ls rs ls ρ → WF zs s →
      zs.length = ls.length → prs.length = ls.length →
      SameRanks ls rs (projSdsGo ls zs prs L) ρ := by
  induction ls generalizing rs zs with
  | nil => exact absurd rfl hne
  | cons l ls ih =>
    intro ρ s prs L hs hw hz hp
    match rs, zs, prs, hs, hw, hz, hp with
    | r :: rs, z :: zs, p0 :: prs, hs, hw, hz, hp =>
      obtain ⟨hl0, hr0, _, hl1, _, hs'⟩ := hs
      obtain ⟨_, hw'⟩ := hw
      cases ls with
      | nil =>
        match rs, zs, hs', hz with
        | [], [], hs', _ =>
          have hr1 : r.r1 = 1 := hs'
          have hz1 : z.r1 = 1 := hw'
          exact ⟨hl0, hr0, hl0, hl1, by show z.r1 = r.r1; omega, hs'⟩
      | cons l' ls' =>
        match rs, zs, prs, hs', hw', hz, hp with
        | r' :: rs', z' :: zs', pr :: prs', hs', hw', hz, hp =>
          rw [mf_projSdsGo_cons2]
          refine ⟨hl0, hr0, hl0, hl1, hl1, ?_⟩
          exact ih (r' :: rs') (z' :: zs') (by simp) r.r1 z.r1 (pr :: prs') _ hs' hw'
            (by simpa using hz) (by simpa using hp)

/-! ### the projection fixes the base point (left-orthogonal gauge) -/

/-- `Σ_{a,i,j} l[a,i,j,b] · l[a,i,j,b'] = δ_{bb'}` -/
def LeftOrth (l : Core α) : Prop :=
  ∀ b b', b < l.r1 → b' < l.r1 →
    sumTo l.r0 (fun a => sumTo l.m (fun i => sumTo l.n (fun j =>
      l.get a i j b * l.get a i j b'))) = if b = b' then 1 else 0

/-- all cores but the last are left-orthonormal -/
def LeftOrthInit : List (Core α) → Prop
  | [] => True
  | [_] => True
  | l :: l' :: ls => LeftOrth l ∧ LeftOrthInit (l' :: ls)

/-- `L` is the identity on indices `< ρ` -/
def mf_IsId (L : Phi2 α) (ρ : Nat) : Prop :=
  ∀ r s, r < ρ → s < ρ → L r s = if r = s then 1 else 0

theorem mf_sum_id (L : Phi2 α) (ρ : Nat) (hL : mf_IsId L ρ) (a : Nat) (ha : a < ρ) (f : Nat → α) :
    sumTo ρ (fun s => L a s * f s) = f a := by
  rw [sumTo_single a ha]
  · rw [hL a a ha ha]; simp
  · intro k hk hne
    rw [hL a k ha hk, if_neg (fun h => hne h.symm)]; simp

theorem mf_pleftStep_self (L : Phi2 α) (l : Core α) (hL : mf_IsId L l.r0) (ho : LeftOrth l) :
    mf_IsId (pleftStep L l l) l.r1 := by
  intro R S hR hS
  rw [← ho R S hR hS]
  unfold pleftStep
  apply sumTo_congr; intro r hr
  rw [sumTo_single r hr]
  · apply sumTo_congr; intro i _
    apply sumTo_congr; intro j _
    rw [hL r r hr hr]; simp
  · intro s hs hne
    apply sumTo_eq_zero; intro i _
    apply sumTo_eq_zero; intro j _
    rw [hL r s hr hs, if_neg (fun h => hne h.symm)]; simp

/-- with `z_k = l_k` left-orthonormal and `L = I`, the gauge-projected variation vanishes -/
theorem mf_projSd_self_zero (L Rp : Phi2 α) (rR : Nat) (l : Core α) (hL : mf_IsId L l.r0)
    (ho : LeftOrth l) (a : Nat) (ha : a < l.r0) (i j R : Nat) :
    (projSd L (some Rp) rR l l).get a i j R = 0 := by
  rw [mf_projSd_get_some]
  apply sumTo_eq_zero; intro S hS
  rw [mf_sum_id L l.r0 hL a ha (fun s => l.get s i j S)]
  have hI := mf_pleftStep_self L l hL ho
  have : sumTo l.r1 (fun R' => l.get a i j R' * pleftStep L l l R' S) = l.get a i j S := by
    rw [sumTo_single S hS]
    · rw [hI S S hS hS]; simp
    · intro k hk hne
      rw [hI k S hk hS, if_neg hne]; simp
  rw [this]; ring

theorem mf_tsum_projSdsGo_self (ls rs : List (Core α)) (is : List (Nat × Nat)) (hne : ls ≠ []) :
    ∀ (ρ : Nat) (prs : List (Phi2 α)) (L : Phi2 α), SameRanks ls rs ls ρ → LeftOrthInit ls →
      prs.length = ls.length → is.length = ls.length → mf_IsId L ρ →
      ∀ a, a < ρ → mf_tsum ls rs (projSdsGo ls ls prs L) is a = chain ls is a 0 := by
  induction ls generalizing rs is with
  | nil => exact absurd rfl hne
  | cons l ls ih =>
    intro ρ prs L hs ho hp hil hL a ha
    match rs, is, prs, hs, hil, hp with
    | r :: rs, i :: is, p0 :: prs, hs, hil, hp =>
      obtain ⟨hl0, hr0, _, hl1, _, hs'⟩ := hs
      cases ls with
      | nil =>
        match rs, is, hs', hil with
        | [], [], hs', _ =>
          have e : projSdsGo [l] [l] (p0 :: prs) L = [projSd L none 0 l l] := rfl
          rw [e, mf_tsum_cons, mf_chain_cons, mf_chain_cons l]
          have h0 : sumTo l.r1 (fun k => l.get a i.1 i.2 k * mf_tsum [] [] [] [] k) = 0 := by
            apply sumTo_eq_zero; intro k _; simp [mf_tsum]
          rw [h0, add_zero]
          show sumTo l.r1 _ = _
          apply sumTo_congr; intro k _
          rw [mf_projSd_get_none]
          have hL' : mf_IsId L l.r0 := by rw [hl0]; exact hL
          rw [mf_sum_id L l.r0 hL' a (by omega) (fun s => l.get s i.1 i.2 k)]
      | cons l' ls' =>
        match rs, is, prs, hs', hil, hp with
        | r' :: rs', i' :: is', pr :: prs', hs', hil, hp =>
          obtain ⟨ho1, ho'⟩ := ho
          have hL' : mf_IsId L l.r0 := by rw [hl0]; exact hL
          rw [mf_projSdsGo_cons2, mf_tsum_cons, mf_chain_cons, mf_chain_cons l]
          have h0 : sumTo (projSd L (some pr) l.r1 l l).r1 (fun k =>
              (projSd L (some pr) l.r1 l l).get a i.1 i.2 k * chain (r' :: rs') (i' :: is') k 0) = 0 := by
            apply sumTo_eq_zero; intro k _
            rw [mf_projSd_self_zero L pr l.r1 l hL' ho1 a (by omega)]; ring
          rw [h0, zero_add]
          apply sumTo_congr; intro k hk
          have hI : mf_IsId (pleftStep L l l) r.r1 := by
            rw [← hl1]; exact mf_pleftStep_self L l hL' ho1
          rw [ih (r' :: rs') (i' :: is') (by simp) r.r1 (pr :: prs') (pleftStep L l l) hs' ho'
            (by simpa using hp) (by simpa using hil) hI k (by omega)]

/-! ### `delta2cores` is linear in the variations -/

theorem mf_tsum_add (ls rs ds es : List (Core α)) (is : List (Nat × Nat))
    (hlen : es.length = ds.length) (h1 : ∀ p ∈ ds.zip es, p.2.r1 = p.1.r1) :
    ∀ a, mf_tsum ls rs (List.zipWith addC ds es) is a = mf_tsum ls rs ds is a + mf_tsum ls rs es is a := by
  induction ls generalizing rs ds es is with
  | nil => intro a; simp [mf_tsum]
  | cons l ls ih =>
    intro a
    match rs, ds, es, is, hlen, h1 with
    | [], _, _, _, _, _ => simp [mf_tsum]
    | _ :: _, [], [], _, _, _ => simp [mf_tsum]
    | _ :: _, _ :: _, _ :: _, [], _, _ => simp [mf_tsum]
    | r :: rs, d :: ds, e :: es, i :: is, hlen, h1 =>
      have hlen' : es.length = ds.length := by simpa using hlen
      have he : e.r1 = d.r1 := h1 (d, e) (by simp)
      have h1' : ∀ p ∈ ds.zip es, p.2.r1 = p.1.r1 := fun p hp => h1 p (by simp [hp])
      rw [List.zipWith_cons_cons, mf_tsum_cons, mf_tsum_cons, mf_tsum_cons, mf_chain_cons,
        mf_chain_cons d, mf_chain_cons e, he]
      show sumTo d.r1 _ + _ = _
      have e1 : ∀ k, (addC d e).get a i.1 i.2 k * chain rs is k 0 =
          d.get a i.1 i.2 k * chain rs is k 0 + e.get a i.1 i.2 k * chain rs is k 0 := by
        intro k; simp [addC]; ring
      have e2 : ∀ k, l.get a i.1 i.2 k * mf_tsum ls rs (List.zipWith addC ds es) is k =
          l.get a i.1 i.2 k * mf_tsum ls rs ds is k + l.get a i.1 i.2 k * mf_tsum ls rs es is k := by
        intro k; rw [ih rs ds es is hlen' h1' k]; ring
      simp only [e1, e2, sumTo_add_fn]
      ring

theorem mf_tsum_smul (c : α) (ls rs ds : List (Core α)) (is : List (Nat × Nat)) :
    ∀ a, mf_tsum ls rs (ds.map (smulC c)) is a = c * mf_tsum ls rs ds is a := by
  induction ls generalizing rs ds is with
  | nil => intro a; simp [mf_tsum]
  | cons l ls ih =>
    intro a
    match rs, ds, is with
    | [], _, _ => simp [mf_tsum]
    | _ :: _, [], _ => simp [mf_tsum]
    | _ :: _, _ :: _, [] => simp [mf_tsum]
    | r :: rs, d :: ds, i :: is =>
      rw [List.map_cons, mf_tsum_cons, mf_tsum_cons, mf_chain_cons, mf_chain_cons d]
      show sumTo d.r1 _ + _ = _
      have e1 : ∀ k, (smulC c d).get a i.1 i.2 k * chain rs is k 0 =
          c * (d.get a i.1 i.2 k * chain rs is k 0) := by
        intro k; simp [smulC]; ring
      have e2 : ∀ k, l.get a i.1 i.2 k * mf_tsum ls rs (ds.map (smulC c)) is k =
          c * (l.get a i.1 i.2 k * mf_tsum ls rs ds is k) := by
        intro k; rw [ih rs ds is k]; ring
      simp only [e1, e2, sumTo_mul_left]
      ring

theorem mf_SameRanks_zipWith_addC (ls rs ds es : List (Core α)) :
    ∀ ρ, SameRanks ls rs ds ρ → SameRanks ls rs es ρ → SameRanks ls rs (List.zipWith addC ds es) ρ := by
  induction ls generalizing rs ds es with
  | nil =>
    intro ρ h1 h2
    match rs, ds, es, h1, h2 with
    | [], [], [], h1, _ => exact h1
  | cons l ls ih =>
    intro ρ h1 h2
    match rs, ds, es, h1, h2 with
    | r :: rs, d :: ds, e :: es, h1, h2 =>
      obtain ⟨a1, a2, a3, a4, a5, a6⟩ := h1
      obtain ⟨_, _, _, _, _, b6⟩ := h2
      exact ⟨a1, a2, a3, a4, a5, ih rs ds es _ a6 b6⟩

theorem mf_SameRanks_map_smulC (c : α) (ls rs ds : List (Core α)) :
    ∀ ρ, SameRanks ls rs ds ρ → SameRanks ls rs (ds.map (smulC c)) ρ := by
  induction ls generalizing rs ds with
  | nil =>
    intro ρ h1
    match rs, ds, h1 with
    | [], [], h1 => exact h1
  | cons l ls ih =>
    intro ρ h1
    match rs, ds, h1 with
    | r :: rs, d :: ds, h1 =>
      obtain ⟨a1, a2, a3, a4, a5, a6⟩ := h1
      exact ⟨a1, a2, a3, a4, a5, ih rs ds _ a6⟩

omit [CommRing α] in
theorem mf_SameRanks_zip_r1 (ls rs ds es : List (Core α)) :
    ∀ ρ, SameRanks ls rs ds ρ → SameRanks ls rs es ρ → ∀ p ∈ ds.zip es, p.2.r1 = p.1.r1 := by
  induction ls generalizing rs ds es with
  | nil =>
    intro ρ h1 h2
    match rs, ds, es, h1, h2 with
    | [], [], [], _, _ => intro p hp; simp at hp
  | cons l ls ih =>
    intro ρ h1 h2
    match rs, ds, es, h1, h2 with
    | r :: rs, d :: ds, e :: es, h1, h2 =>
      obtain ⟨_, _, _, _, a5, a6⟩ := h1
      obtain ⟨_, _, _, _, b5, b6⟩ := h2
      intro p hp
      rw [List.zip_cons_cons, List.mem_cons] at hp
      rcases hp with rfl | hp
      · show e.r1 = d.r1
        omega
      · exact ih rs ds es _ a6 b6 p hp

/-! ### linearity of `riemannian_projection` in `z` (TT addition `add`, scaling `scaleFirst`) -/

/-- `einsum('rs,sijS->rijS', L, z)` -/
def mf_tmp1 (L : Phi2 α) (z : Core α) (r i j S : Nat) : α :=
  sumTo z.r0 (fun s => L r s * z.get s i j S)

theorem mf_projSd_get_none' (L : Phi2 α) (rR : Nat) (l z : Core α) (r i j S : Nat) :
    (projSd L none rR l z).get r i j S = mf_tmp1 L z r i j S := rfl

theorem mf_projSd_get_some' (L Rp : Phi2 α) (rR : Nat) (l z : Core α) (r i j R : Nat) :
    (projSd L (some Rp) rR l z).get r i j R =
      sumTo z.r1 (fun S => (mf_tmp1 L z r i j S +
        - sumTo l.r1 (fun R' => l.get r i j R' * pleftStep L l z R' S)) * Rp R S) := rfl

theorem mf_pleftStep_alt (P : Phi2 α) (l z : Core α) (R S : Nat) :
    pleftStep P l z R S = sumTo l.r0 (fun r => sumTo l.m (fun i => sumTo l.n (fun j =>
      l.get r i j R * mf_tmp1 P z r i j S))) := by
  unfold pleftStep
  apply sumTo_congr; intro r _
  rw [sumTo_comm]
  apply sumTo_congr; intro i _
  rw [sumTo_comm]
  apply sumTo_congr; intro j _
  unfold mf_tmp1
  rw [← sumTo_mul_left]
  apply sumTo_congr; intro s _
  ring

/-- column-block splitting of an interface matrix: `Lu = [Lz Lw]` -/
def mf_LSplit (Lu Lz Lw : Phi2 α) (sz sw : Nat) : Prop :=
  (∀ r s, s < sz → Lu r s = Lz r s) ∧ (∀ r s, s < sw → Lu r (sz + s) = Lw r s)

def mf_T1 (Lu Lz Lw : Phi2 α) (U z w : Core α) : Prop :=
  (∀ r i j S, S < z.r1 → mf_tmp1 Lu U r i j S = mf_tmp1 Lz z r i j S) ∧
  (∀ r i j S, S < w.r1 → mf_tmp1 Lu U r i j (z.r1 + S) = mf_tmp1 Lw w r i j S)

theorem mf_T1_false (Lu Lz Lw : Phi2 α) (z w : Core α) (h : mf_LSplit Lu Lz Lw z.r0 w.r0) :
    mf_T1 Lu Lz Lw (addCore false false z w) z w := by
  obtain ⟨hz, hw⟩ := h
  constructor
  · intro r i j S hS
    unfold mf_tmp1
    show sumTo (z.r0 + w.r0) _ = _
    rw [sumTo_add]
    have h2 : sumTo w.r0 (fun s => Lu r (z.r0 + s) * (addCore false false z w).get (z.r0 + s) i j S) = 0 := by
      apply sumTo_eq_zero; intro s hs
      have h1 : ¬ (z.r1 ≤ S) := by omega
      simp [addCore, off, h1]
    rw [h2, add_zero]
    apply sumTo_congr; intro s hs
    have h1 : ¬ (z.r0 ≤ s) := by omega
    rw [hz r s hs]
    simp [addCore, off, hs, hS, h1]
  · intro r i j S hS
    unfold mf_tmp1
    show sumTo (z.r0 + w.r0) _ = _
    rw [sumTo_add]
    have h2 : sumTo z.r0 (fun s => Lu r s * (addCore false false z w).get s i j (z.r1 + S)) = 0 := by
      apply sumTo_eq_zero; intro s hs
      have h1 : ¬ (z.r0 ≤ s) := by omega
      simp [addCore, off, h1]
    rw [h2, zero_add]
    apply sumTo_congr; intro s hs
    rw [hw r s hs]
    simp [addCore, off]

theorem mf_T1_true (Lu Lz Lw : Phi2 α) (z w : Core α) (hz0 : z.r0 = 1) (hw0 : w.r0 = 1)
    (hz : ∀ r, Lu r 0 = Lz r 0) (hw : ∀ r, Lu r 0 = Lw r 0) :
    mf_T1 Lu Lz Lw (addCore true false z w) z w := by
  constructor
  · intro r i j S hS
    unfold mf_tmp1
    show sumTo (off true z.r0 + w.r0) _ = _
    have h1 : ¬ (z.r1 ≤ S) := by omega
    simp [off, hw0, hz0, sumTo, addCore, hS, h1, hz]
  · intro r i j S hS
    unfold mf_tmp1
    show sumTo (off true z.r0 + w.r0) _ = _
    simp [off, hw0, hz0, sumTo, addCore, hw]

theorem mf_pleftStep_of_T1 (Lu Lz Lw : Phi2 α) (l U z w : Core α) (h : mf_T1 Lu Lz Lw U z w) :
    mf_LSplit (pleftStep Lu l U) (pleftStep Lz l z) (pleftStep Lw l w) z.r1 w.r1 := by
  obtain ⟨hz, hw⟩ := h
  constructor
  · intro R S hS
    rw [mf_pleftStep_alt, mf_pleftStep_alt]
    apply sumTo_congr; intro r _
    apply sumTo_congr; intro i _
    apply sumTo_congr; intro j _
    rw [hz r i j S hS]
  · intro R S hS
    rw [mf_pleftStep_alt, mf_pleftStep_alt]
    apply sumTo_congr; intro r _
    apply sumTo_congr; intro i _
    apply sumTo_congr; intro j _
    rw [hw r i j S hS]

theorem mf_projSd_some_of_T1 (Lu Lz Lw Ru Rz Rw : Phi2 α) (rR : Nat) (l U z w : Core α)
    (hU1 : U.r1 = z.r1 + w.r1) (hT : mf_T1 Lu Lz Lw U z w) (hR : mf_LSplit Ru Rz Rw z.r1 w.r1)
    (r i j R : Nat) :
    (projSd Lu (some Ru) rR l U).get r i j R =
      (projSd Lz (some Rz) rR l z).get r i j R + (projSd Lw (some Rw) rR l w).get r i j R := by
  obtain ⟨hPz, hPw⟩ := mf_pleftStep_of_T1 Lu Lz Lw l U z w hT
  obtain ⟨hz, hw⟩ := hT
  obtain ⟨hRz, hRw⟩ := hR
  rw [mf_projSd_get_some', mf_projSd_get_some', mf_projSd_get_some', hU1, sumTo_add]
  congr 1
  · apply sumTo_congr; intro S hS
    rw [hz r i j S hS, hRz R S hS]
    congr 3
    apply sumTo_congr; intro R' _
    rw [hPz R' S hS]
  · apply sumTo_congr; intro S hS
    rw [hw r i j S hS, hRw R S hS]
    congr 3
    apply sumTo_congr; intro R' _
    rw [hPw R' S hS]

theorem mf_tmp1_last (Lu Lz Lw : Phi2 α) (z w : Core α) (h : mf_LSplit Lu Lz Lw z.r0 w.r0)
    (hz1 : z.r1 = 1) (r i j : Nat) :
    mf_tmp1 Lu (addCore false true z w) r i j 0 = mf_tmp1 Lz z r i j 0 + mf_tmp1 Lw w r i j 0 := by
  obtain ⟨hz, hw⟩ := h
  unfold mf_tmp1
  show sumTo (z.r0 + w.r0) _ = _
  rw [sumTo_add]
  congr 1
  · apply sumTo_congr; intro s hs
    have h1 : ¬ (z.r0 ≤ s) := by omega
    rw [hz r s hs]
    simp [addCore, off, hs, hz1, h1]
  · apply sumTo_congr; intro s hs
    rw [hw r s hs]
    simp [addCore, off]

theorem mf_prightStep_split (Pu Pz Pw : Phi2 α) (rc z w : Core α)
    (h : mf_LSplit Pu Pz Pw z.r1 w.r1) :
    mf_LSplit (prightStep Pu rc (addCore false false z w)) (prightStep Pz rc z) (prightStep Pw rc w)
      z.r0 w.r0 := by
  obtain ⟨hz, hw⟩ := h
  constructor
  · intro r s hs
    unfold prightStep
    apply sumTo_congr; intro R _
    show sumTo (z.r1 + w.r1) _ = _
    rw [sumTo_add]
    have h2 : sumTo w.r1 (fun S => sumTo rc.m (fun i => sumTo rc.n (fun j =>
        Pu R (z.r1 + S) * rc.get r i j R * (addCore false false z w).get s i j (z.r1 + S)))) = 0 := by
      apply sumTo_eq_zero; intro S _
      apply sumTo_eq_zero; intro i _
      apply sumTo_eq_zero; intro j _
      have h1 : ¬ (z.r0 ≤ s) := by omega
      simp [addCore, off, h1]
    rw [h2, add_zero]
    apply sumTo_congr; intro S hS
    apply sumTo_congr; intro i _
    apply sumTo_congr; intro j _
    have h1 : ¬ (z.r0 ≤ s) := by omega
    rw [hz R S hS]
    simp [addCore, off, hs, hS, h1]
  · intro r s hs
    unfold prightStep
    apply sumTo_congr; intro R _
    show sumTo (z.r1 + w.r1) _ = _
    rw [sumTo_add]
    have h2 : sumTo z.r1 (fun S => sumTo rc.m (fun i => sumTo rc.n (fun j =>
        Pu R S * rc.get r i j R * (addCore false false z w).get (z.r0 + s) i j S))) = 0 := by
      apply sumTo_eq_zero; intro S hS
      apply sumTo_eq_zero; intro i _
      apply sumTo_eq_zero; intro j _
      have h1 : ¬ (z.r1 ≤ S) := by omega
      simp [addCore, off, h1]
    rw [h2, zero_add]
    apply sumTo_congr; intro S hS
    apply sumTo_congr; intro i _
    apply sumTo_congr; intro j _
    rw [hw R S hS]
    simp [addCore, off]

theorem mf_prightStep_split_last (rc z w : Core α) (hz1 : z.r1 = 1) (hw1 : w.r1 = 1) :
    mf_LSplit (prightStep (fun _ _ => (1:α)) rc (addCore false true z w))
      (prightStep (fun _ _ => 1) rc z) (prightStep (fun _ _ => 1) rc w) z.r0 w.r0 := by
  constructor
  · intro r s hs
    unfold prightStep
    apply sumTo_congr; intro R _
    show sumTo (off true z.r1 + w.r1) _ = _
    have h1 : ¬ (z.r0 ≤ s) := by omega
    simp [off, hw1, hz1, sumTo, addCore, hs, h1]
  · intro r s hs
    unfold prightStep
    apply sumTo_congr; intro R _
    show sumTo (off true z.r1 + w.r1) _ = _
    simp [off, hw1, hz1, sumTo, addCore]

/-- the right interface matrices of `z + w` are `[Pright^z  Pright^w]` at every position -/
def mf_RSplit : List (Phi2 α) → List (Phi2 α) → List (Phi2 α) → List (Core α) → List (Core α) → Prop
  | pu :: pus, pz :: pzs, pw :: pws, z :: zs, w :: ws =>
      mf_LSplit pu pz pw z.r0 w.r0 ∧ mf_RSplit pus pzs pws zs ws
  | [], [], [], [], [] => True
  | _, _, _, _, _ => False

theorem mf_prightList_cons (r : Core α) (rs : List (Core α)) (z : Core α) (zs : List (Core α))
    (p : Phi2 α) (ps : List (Phi2 α)) (h : prightList rs zs = p :: ps) :
    prightList (r :: rs) (z :: zs) = prightStep p r z :: p :: ps := by
  simp [prightList, h]

theorem mf_prightList_single (r z : Core α) :
    prightList [r] [z] = [prightStep (fun _ _ => (1:α)) r z] := by
  simp [prightList]

theorem mf_addFrom_cons2 (f : Bool) (z z' w w' : Core α) (zs ws : List (Core α)) :
    addFrom f (z :: z' :: zs) (w :: w' :: ws) =
      addCore f false z w :: addFrom false (z' :: zs) (w' :: ws) := rfl

theorem mf_prightList_addFrom (rs zs ws : List (Core α)) (hne : zs ≠ [])
    (hr : rs.length = zs.length) (hw : ws.length = zs.length) :
    ∀ sz sw, WF zs sz → WF ws sw →
      mf_RSplit (prightList rs (addFrom false zs ws)) (prightList rs zs) (prightList rs ws) zs ws := by
  induction zs generalizing rs ws with
  | nil => exact absurd rfl hne
  | cons z zs ih =>
    intro sz sw hwz hww
    match rs, ws, hr, hw with
    | r :: rs, w :: ws, hr, hw =>
      obtain ⟨_, hwz'⟩ := hwz
      obtain ⟨_, hww'⟩ := hww
      cases zs with
      | nil =>
        match rs, ws, hr, hw with
        | [], [], _, _ =>
          have hz1 : z.r1 = 1 := hwz'
          have hw1 : w.r1 = 1 := hww'
          have e : addFrom false [z] [w] = [addCore false true z w] := rfl
          rw [e, mf_prightList_single, mf_prightList_single, mf_prightList_single]
          exact ⟨mf_prightStep_split_last r z w hz1 hw1, trivial⟩
      | cons z' zs' =>
        match rs, ws, hr, hw with
        | r' :: rs', w' :: ws', hr, hw =>
          have IH := ih (r' :: rs') (w' :: ws') (by simp) (by simpa using hr) (by simpa using hw)
            z.r1 w.r1 hwz' hww'
          have hlU : (addFrom false (z' :: zs') (w' :: ws')).length = (r' :: rs').length := by
            rw [length_addFrom _ _ (by simpa using hw.symm)]; simpa using hr.symm
          have lU := mf_prightList_length (r' :: rs') _ hlU
          have lZ := mf_prightList_length (r' :: rs') (z' :: zs') (by simpa using hr.symm)
          have lW := mf_prightList_length (r' :: rs') (w' :: ws') (by simp at hr hw ⊢; omega)
          rw [mf_addFrom_cons2]
          generalize hPU : prightList (r' :: rs') (addFrom false (z' :: zs') (w' :: ws')) = PU at IH lU
          generalize hPZ : prightList (r' :: rs') (z' :: zs') = PZ at IH lZ
          generalize hPW : prightList (r' :: rs') (w' :: ws') = PW at IH lW
          match PU, PZ, PW, lU, lZ, lW, IH with
          | pu :: pus, pz :: pzs, pw :: pws, _, _, _, IH =>
            rw [mf_prightList_cons r _ _ _ pu pus hPU, mf_prightList_cons r _ _ _ pz pzs hPZ,
              mf_prightList_cons r _ _ _ pw pws hPW]
            refine ⟨?_, IH⟩
            apply mf_prightStep_split
            have h1 : z'.r0 = z.r1 := hwz'.1
            have h2 : w'.r0 = w.r1 := hww'.1
            rw [← h1, ← h2]
            exact IH.1

theorem mf_projSdsGo_cons2' (l l' z : Core α) (ls zs : List (Core α)) (p0 pr : Phi2 α)
    (prs : List (Phi2 α)) (L : Phi2 α) :
    projSdsGo (l :: l' :: ls) (z :: zs) (p0 :: pr :: prs) L =
      projSd L (some pr) l.r1 l z :: projSdsGo (l' :: ls) zs (pr :: prs) (pleftStep L l z) := by
  cases zs <;> rfl

theorem mf_tsum_single (l r D : Core α) (i : Nat × Nat) (a : Nat) (h : D.r1 = 1) :
    mf_tsum [l] [r] [D] [i] a = D.get a i.1 i.2 0 := by
  simp [mf_tsum, chain, sumTo, h, sumTo_zero']

omit [CommRing α] in
theorem mf_RSplit_cons_inv (PU PZ PW : List (Phi2 α)) (z w : Core α) (zs ws : List (Core α))
    (h : mf_RSplit PU PZ PW (z :: zs) (w :: ws)) :
    ∃ pu pus pz pzs pw pws, PU = pu :: pus ∧ PZ = pz :: pzs ∧ PW = pw :: pws ∧
      mf_LSplit pu pz pw z.r0 w.r0 ∧ mf_RSplit pus pzs pws zs ws := by
  cases PU <;> cases PZ <;> cases PW <;> simp [mf_RSplit] at h
  exact ⟨_, _, _, _, _, _, rfl, rfl, rfl, h.1, h.2⟩

theorem mf_SameRanks_projSds (ls rs zs : List (Core α)) (hs : SameRanks ls rs ls 1) (hz : WF zs 1)
    (hlen : zs.length = ls.length) (hne : ls ≠ []) :
    SameRanks ls rs (projSds ls rs zs) 1 := by
  obtain ⟨hr, _⟩ := mf_SameRanks_length ls rs ls 1 hs
  exact mf_SameRanks_projSdsGo ls rs zs hne 1 1 _ _ hs hz hlen
    (by rw [mf_prightList_length rs zs (by omega), hr])

/-- one step of the additivity induction -/
theorem mf_tsum_step_add (l r Du Dz Dw : Core α) (ls rs TU TZ TW : List (Core α)) (i : Nat × Nat)
    (is : List (Nat × Nat)) (a : Nat)
    (hz1 : Dz.r1 = Du.r1) (hw1 : Dw.r1 = Du.r1)
    (hget : ∀ k, Du.get a i.1 i.2 k = Dz.get a i.1 i.2 k + Dw.get a i.1 i.2 k)
    (htail : ∀ k, mf_tsum ls rs TU is k = mf_tsum ls rs TZ is k + mf_tsum ls rs TW is k) :
    mf_tsum (l :: ls) (r :: rs) (Du :: TU) (i :: is) a =
      mf_tsum (l :: ls) (r :: rs) (Dz :: TZ) (i :: is) a +
        mf_tsum (l :: ls) (r :: rs) (Dw :: TW) (i :: is) a := by
  rw [mf_tsum_cons, mf_tsum_cons, mf_tsum_cons, mf_chain_cons, mf_chain_cons Dz, mf_chain_cons Dw,
    hz1, hw1]
  have e1 : ∀ k, Du.get a i.1 i.2 k * chain rs is k 0 =
      Dz.get a i.1 i.2 k * chain rs is k 0 + Dw.get a i.1 i.2 k * chain rs is k 0 := by
    intro k; rw [hget k]; ring
  have e2 : ∀ k, l.get a i.1 i.2 k * mf_tsum ls rs TU is k =
      l.get a i.1 i.2 k * mf_tsum ls rs TZ is k + l.get a i.1 i.2 k * mf_tsum ls rs TW is k := by
    intro k; rw [htail k]; ring
  simp only [e1, e2, sumTo_add_fn]
  ring

theorem mf_tsum_projSdsGo_add (ls rs zs ws : List (Core α)) (is : List (Nat × Nat)) (hne : ls ≠ []) :
    ∀ (prsU prsZ prsW : List (Phi2 α)) (Lu Lz Lw : Phi2 α) (sz sw : Nat),
      WF zs sz → WF ws sw → zs.length = ls.length → ws.length = ls.length →
      rs.length = ls.length → is.length = ls.length →
      mf_RSplit prsU prsZ prsW zs ws → mf_LSplit Lu Lz Lw sz sw →
      ∀ a, mf_tsum ls rs (projSdsGo ls (addFrom false zs ws) prsU Lu) is a =
        mf_tsum ls rs (projSdsGo ls zs prsZ Lz) is a + mf_tsum ls rs (projSdsGo ls ws prsW Lw) is a := by
  induction ls generalizing rs zs ws is with
  | nil => exact absurd rfl hne
  | cons l ls ih =>
    intro prsU prsZ prsW Lu Lz Lw sz sw hwz hww hlz hlw hlr hli hRS hLS a
    match zs, ws, rs, is, hlz, hlw, hlr, hli, hwz, hww, hRS with
    | z :: zs, w :: ws, r :: rs, i :: is, hlz, hlw, hlr, hli, hwz, hww, hRS =>
      obtain ⟨pu, pus, pz, pzs, pw, pws, rfl, rfl, rfl, _, hRS'⟩ := mf_RSplit_cons_inv _ _ _ _ _ _ _ hRS
      obtain ⟨hz0, hwz'⟩ := hwz
      obtain ⟨hw0, hww'⟩ := hww
      have hLS' : mf_LSplit Lu Lz Lw z.r0 w.r0 := by rw [hz0, hw0]; exact hLS
      cases ls with
      | nil =>
        match zs, ws, rs, is, hlz, hlw, hlr, hli with
        | [], [], [], [], _, _, _, _ =>
          have hz1 : z.r1 = 1 := hwz'
          have hw1 : w.r1 = 1 := hww'
          have eU : projSdsGo [l] (addFrom false [z] [w]) (pu :: pus) Lu =
              [projSd Lu none 0 l (addCore false true z w)] := rfl
          have eZ : projSdsGo [l] [z] (pz :: pzs) Lz = [projSd Lz none 0 l z] := rfl
          have eW : projSdsGo [l] [w] (pw :: pws) Lw = [projSd Lw none 0 l w] := rfl
          rw [eU, eZ, eW, mf_tsum_single _ _ _ _ _ (by show off true z.r1 + w.r1 = 1; simp [off, hw1]),
            mf_tsum_single _ _ _ _ _ (by show z.r1 = 1; exact hz1),
            mf_tsum_single _ _ _ _ _ (by show w.r1 = 1; exact hw1),
            mf_projSd_get_none', mf_projSd_get_none', mf_projSd_get_none']
          exact mf_tmp1_last Lu Lz Lw z w hLS' hz1 a i.1 i.2
      | cons l' ls' =>
        match zs, ws, rs, is, hlz, hlw, hlr, hli, hwz', hww', hRS' with
        | z' :: zs', w' :: ws', r' :: rs', i' :: is', hlz, hlw, hlr, hli, hwz', hww', hRS' =>
          obtain ⟨pru, pus', prz, pzs', prw, pws', rfl, rfl, rfl, hR0, _⟩ :=
            mf_RSplit_cons_inv _ _ _ _ _ _ _ hRS'
          have hT := mf_T1_false Lu Lz Lw z w hLS'
          have hR : mf_LSplit pru prz prw z.r1 w.r1 := by
            have h1 : z'.r0 = z.r1 := hwz'.1
            have h2 : w'.r0 = w.r1 := hww'.1
            rw [← h1, ← h2]; exact hRS'.1
          rw [mf_addFrom_cons2, mf_projSdsGo_cons2', mf_projSdsGo_cons2', mf_projSdsGo_cons2']
          apply mf_tsum_step_add
          · rfl
          · rfl
          · intro k
            exact mf_projSd_some_of_T1 Lu Lz Lw pru prz prw l.r1 l _ z w rfl hT hR a i.1 i.2 k
          · intro k
            exact ih (r' :: rs') (z' :: zs') (w' :: ws') (i' :: is') (by simp)
              (pru :: pus') (prz :: pzs') (prw :: pws') _ _ _ z.r1 w.r1 hwz' hww'
              (by simpa using hlz) (by simpa using hlw) (by simpa using hlr) (by simpa using hli)
              hRS' (mf_pleftStep_of_T1 Lu Lz Lw l _ z w hT) k

/-- `riemannian_projection(x, z + w) = riemannian_projection(x, z) + riemannian_projection(x, w)`
    as tensors, `z + w` being the TT sum `add` (block cores) -/
theorem mf_project_add (ls rs zs ws : List (Core α)) (ij : List (Nat × Nat))
    (hs : SameRanks ls rs ls 1) (hz : WF zs 1) (hw : WF ws 1)
    (hlz : zs.length = ls.length) (hlw : ws.length = ls.length) (h2 : 2 ≤ ls.length)
    (hil : ij.length = ls.length) :
    full (project ls rs (add zs ws)) ij = full (project ls rs zs) ij + full (project ls rs ws) ij := by
  have hne : ls ≠ [] := by intro h; simp [h] at h2
  have hzne : zs ≠ [] := by intro h; simp [h] at hlz; omega
  obtain ⟨hlr, _⟩ := mf_SameRanks_length ls rs ls 1 hs
  have hla : (add zs ws).length = ls.length := by
    unfold add; rw [length_addFrom zs ws (by omega)]; exact hlz
  have hwa : WF (add zs ws) 1 := by
    have := WF_addFrom zs ws (by omega) hzne true 1 1 hz hw
    show WF (addFrom true zs ws) 1
    simpa [off] using this
  unfold project
  rw [mf_full_delta2cores ls rs _ ij (mf_SameRanks_projSds ls rs _ hs hwa hla hne) h2 hil,
    mf_full_delta2cores ls rs _ ij (mf_SameRanks_projSds ls rs _ hs hz hlz hne) h2 hil,
    mf_full_delta2cores ls rs _ ij (mf_SameRanks_projSds ls rs _ hs hw hlw hne) h2 hil]
  unfold projSds
  match ls, rs, zs, ws, ij, h2, hlr, hlz, hlw, hil, hz, hw with
  | l :: l' :: ls', r :: r' :: rs', z :: z' :: zs', w :: w' :: ws', i :: i' :: is', _, hlr, hlz, hlw,
      hil, hz, hw =>
    obtain ⟨hz0, hwz'⟩ := hz
    obtain ⟨hw0, hww'⟩ := hw
    have hlz' : (z' :: zs').length = (l' :: ls').length := by simpa using hlz
    have hlw' : (w' :: ws').length = (l' :: ls').length := by simpa using hlw
    have hlr' : (r' :: rs').length = (l' :: ls').length := by simpa using hlr
    have hRS := mf_prightList_addFrom (r' :: rs') (z' :: zs') (w' :: ws') (by simp)
      (by omega) (by omega) z.r1 w.r1 hwz' hww'
    have hlU : (addFrom false (z' :: zs') (w' :: ws')).length = (r' :: rs').length := by
      rw [length_addFrom _ _ (by omega)]; omega
    have lU := mf_prightList_length (r' :: rs') _ hlU
    have lZ := mf_prightList_length (r' :: rs') (z' :: zs') (by omega)
    have lW := mf_prightList_length (r' :: rs') (w' :: ws') (by omega)
    have eA : add (z :: z' :: zs') (w :: w' :: ws') =
        addCore true false z w :: addFrom false (z' :: zs') (w' :: ws') := rfl
    rw [eA]
    generalize hPU : prightList (r' :: rs') (addFrom false (z' :: zs') (w' :: ws')) = PU at hRS lU
    generalize hPZ : prightList (r' :: rs') (z' :: zs') = PZ at hRS lZ
    generalize hPW : prightList (r' :: rs') (w' :: ws') = PW at hRS lW
    match PU, PZ, PW, lU, lZ, lW, hRS with
    | pu :: pus, pz :: pzs, pw :: pws, _, _, _, hRS =>
      rw [mf_prightList_cons r _ _ _ pu pus hPU, mf_prightList_cons r _ _ _ pz pzs hPZ,
        mf_prightList_cons r _ _ _ pw pws hPW,
        mf_projSdsGo_cons2', mf_projSdsGo_cons2', mf_projSdsGo_cons2']
      have hT := mf_T1_true (fun _ _ => (1:α)) (fun _ _ => 1) (fun _ _ => 1) z w hz0 hw0
        (fun _ => rfl) (fun _ => rfl)
      have hR : mf_LSplit pu pz pw z.r1 w.r1 := by
        have h1 : z'.r0 = z.r1 := hwz'.1
        have h2 : w'.r0 = w.r1 := hww'.1
        rw [← h1, ← h2]; exact hRS.1
      apply mf_tsum_step_add
      · rfl
      · rfl
      · intro k
        exact mf_projSd_some_of_T1 _ _ _ pu pz pw l.r1 l _ z w rfl hT hR 0 i.1 i.2 k
      · intro k
        exact mf_tsum_projSdsGo_add (l' :: ls') (r' :: rs') (z' :: zs') (w' :: ws') (i' :: is')
          (by simp) (pu :: pus) (pz :: pzs) (pw :: pws) _ _ _ z.r1 w.r1 hwz' hww' hlz' hlw' hlr'
          (by simpa using hil) hRS (mf_pleftStep_of_T1 _ _ _ l _ z w hT) k

theorem mf_scale_eq_smulC (c : α) (z : Core α) : z.scale c = smulC c z := by
  unfold Core.scale smulC
  congr
  funext a i j b
  ring

theorem mf_tsum_step_smul (c : α) (l r D' D : Core α) (ls rs T' T : List (Core α)) (i : Nat × Nat)
    (is : List (Nat × Nat)) (a : Nat) (hr1 : D'.r1 = D.r1)
    (hget : ∀ k, D'.get a i.1 i.2 k = c * D.get a i.1 i.2 k)
    (htail : ∀ k, mf_tsum ls rs T' is k = c * mf_tsum ls rs T is k) :
    mf_tsum (l :: ls) (r :: rs) (D' :: T') (i :: is) a =
      c * mf_tsum (l :: ls) (r :: rs) (D :: T) (i :: is) a := by
  rw [mf_tsum_cons, mf_tsum_cons, mf_chain_cons, mf_chain_cons D, hr1]
  have e1 : ∀ k, D'.get a i.1 i.2 k * chain rs is k 0 = c * (D.get a i.1 i.2 k * chain rs is k 0) := by
    intro k; rw [hget k]; ring
  have e2 : ∀ k, l.get a i.1 i.2 k * mf_tsum ls rs T' is k =
      c * (l.get a i.1 i.2 k * mf_tsum ls rs T is k) := by
    intro k; rw [htail k]; ring
  simp only [e1, e2, sumTo_mul_left]
  ring

theorem mf_tsum_projSdsGo_smulL (c : α) (ls rs zs : List (Core α)) (is : List (Nat × Nat)) :
    ∀ (prs : List (Phi2 α)) (L : Phi2 α), zs.length = ls.length → prs.length = ls.length →
      rs.length = ls.length → is.length = ls.length →
      ∀ a, mf_tsum ls rs (projSdsGo ls zs prs (smulP c L)) is a =
        c * mf_tsum ls rs (projSdsGo ls zs prs L) is a := by
  induction ls generalizing rs zs is with
  | nil => intro prs L _ _ _ _ a; simp [mf_tsum]
  | cons l ls ih =>
    intro prs L hlz hlp hlr hli a
    match zs, prs, rs, is, hlz, hlp, hlr, hli with
    | z :: zs, p0 :: prs, r :: rs, i :: is, hlz, hlp, hlr, hli =>
      cases ls with
      | nil =>
        match zs, prs, rs, is, hlz, hlp, hlr, hli with
        | [], [], [], [], _, _, _, _ =>
          have e : ∀ M : Phi2 α, projSdsGo [l] [z] [p0] M = [projSd M none 0 l z] := fun _ => rfl
          rw [e, e]
          apply mf_tsum_step_smul
          · rfl
          · intro k; exact mf_projSd_smul_L c L none 0 l z a i.1 i.2 k
          · intro k; simp [mf_tsum]
      | cons l' ls' =>
        match zs, prs, rs, is, hlz, hlp, hlr, hli with
        | z' :: zs', pr :: prs', r' :: rs', i' :: is', hlz, hlp, hlr, hli =>
          rw [mf_projSdsGo_cons2', mf_projSdsGo_cons2']
          apply mf_tsum_step_smul
          · rfl
          · intro k; exact mf_projSd_smul_L c L (some pr) l.r1 l z a i.1 i.2 k
          · intro k
            have e : pleftStep (smulP c L) l z = smulP c (pleftStep L l z) := by
              funext R S; exact mf_pleftStep_smul_P c L l z R S
            rw [e]
            exact ih (r' :: rs') (z' :: zs') (i' :: is') (pr :: prs') _ (by simpa using hlz)
              (by simpa using hlp) (by simpa using hlr) (by simpa using hli) k

/-- `riemannian_projection(x, c·z) = c · riemannian_projection(x, z)` as tensors
    (`c·z` = first core scaled, as `TT.__mul__` / `__rmul__` do) -/
theorem mf_project_smul (c : α) (ls rs zs : List (Core α)) (ij : List (Nat × Nat))
    (hs : SameRanks ls rs ls 1) (hz : WF zs 1) (hlz : zs.length = ls.length) (h2 : 2 ≤ ls.length)
    (hil : ij.length = ls.length) :
    full (project ls rs (scaleFirst c zs)) ij = c * full (project ls rs zs) ij := by
  have hne : ls ≠ [] := by intro h; simp [h] at h2
  obtain ⟨hlr, _⟩ := mf_SameRanks_length ls rs ls 1 hs
  have hls : (scaleFirst c zs).length = ls.length := by
    cases zs <;> simpa [scaleFirst] using hlz
  have hws : WF (scaleFirst c zs) 1 := WF_scaleFirst c zs 1 hz
  unfold project
  rw [mf_full_delta2cores ls rs _ ij (mf_SameRanks_projSds ls rs _ hs hws hls hne) h2 hil,
    mf_full_delta2cores ls rs _ ij (mf_SameRanks_projSds ls rs _ hs hz hlz hne) h2 hil]
  unfold projSds
  match ls, rs, zs, ij, h2, hlr, hlz, hil with
  | l :: l' :: ls', r :: r' :: rs', z :: z' :: zs', i :: i' :: is', _, hlr, hlz, hil =>
    have lZ := mf_prightList_length (r' :: rs') (z' :: zs') (by simp at hlr hlz ⊢; omega)
    have eS : scaleFirst c (z :: z' :: zs') = z.scale c :: z' :: zs' := rfl
    rw [eS]
    generalize hPZ : prightList (r' :: rs') (z' :: zs') = PZ at lZ
    match PZ, lZ with
    | p :: ps, lZ =>
      rw [mf_prightList_cons r _ _ _ p ps hPZ, mf_prightList_cons r _ _ _ p ps hPZ,
        mf_projSdsGo_cons2', mf_projSdsGo_cons2']
      apply mf_tsum_step_smul
      · rfl
      · intro k
        rw [mf_scale_eq_smulC]
        exact mf_projSd_smul_z c _ (some p) l.r1 l z 0 i.1 i.2 k
      · intro k
        have e : pleftStep (fun _ _ => (1:α)) l (z.scale c) =
            smulP c (pleftStep (fun _ _ => 1) l z) := by
          funext R S; rw [mf_scale_eq_smulC]; exact mf_pleftStep_smul_z c _ l z R S
        rw [e]
        exact mf_tsum_projSdsGo_smulL c (l' :: ls') (r' :: rs') (z' :: zs') (i' :: is') (p :: ps) _
          (by simpa using hlz) (by simp at lZ hlr ⊢; omega) (by simpa using hlr)
          (by simpa using hil) k

end TT.Manifold
