import TTModel.Manifold
import TTLemmas.Sum

/-!
Helper lemmas for C16 (`torchtt/manifold.py`): block structure of `_delta2cores`
(`TT.Manifold.delta2cores`) and multilinearity of the kernels of `riemannian_projection`.
All helper names carry the prefix `mf_`.
-/
namespace TT.Manifold
open TT TT.Kern Finset
variable {α : Type} [CommRing α]

/-- `ls`, `rs`, `ds` have the same length and share one rank profile `ρ_k, ρ_{k+1}, …, 1`
    starting from the left rank `ρ` (mode sizes are irrelevant) -/
def SameRanks : List (Core α) → List (Core α) → List (Core α) → Nat → Prop
  | [], [], [], ρ => ρ = 1
  | l :: ls, r :: rs, d :: ds, ρ =>
      l.r0 = ρ ∧ r.r0 = ρ ∧ d.r0 = ρ ∧ l.r1 = r.r1 ∧ d.r1 = r.r1 ∧ SameRanks ls rs ds r.r1
  | _, _, _, _ => False

/-- the `k`-th tangent term `L_0 ⋯ L_{k-1} · δ_k · R_{k+1} ⋯ R_{d-1}` as a train
    (`(ds.drop k).take 1 = [ds[k]]` for `k < ds.length`) -/
def tangentTerm (ls rs ds : List (Core α)) (k : Nat) : List (Core α) :=
  ls.take k ++ (ds.drop k).take 1 ++ rs.drop (k + 1)

/-- recursive form of the tangent sum on a suffix, for a left boundary index `a`:
    `δ_k R_{k+1} ⋯ + L_k · (tangent sum of the rest)` -/
def mf_tsum : List (Core α) → List (Core α) → List (Core α) → List (Nat × Nat) → Nat → α
  | l :: ls, _ :: rs, d :: ds, i :: is, a =>
      chain (d :: rs) (i :: is) a 0 + sumTo l.r1 (fun k => l.get a i.1 i.2 k * mf_tsum ls rs ds is k)
  | _, _, _, _, _ => 0

omit [CommRing α] in
theorem mf_SameRanks_length (ls rs ds : List (Core α)) :
    ∀ ρ, SameRanks ls rs ds ρ → rs.length = ls.length ∧ ds.length = ls.length := by
  induction ls generalizing rs ds with
  | nil =>
    intro ρ h
    match rs, ds, h with
    | [], [], _ => exact ⟨rfl, rfl⟩
  | cons l ls ih =>
    intro ρ h
    match rs, ds, h with
    | r :: rs, d :: ds, h =>
      obtain ⟨_, _, _, _, _, h'⟩ := h
      obtain ⟨h1, h2⟩ := ih rs ds _ h'
      simp [h1, h2]

theorem mf_sumTo_succ' (n : Nat) (f : Nat → α) :
    sumTo (n + 1) f = f 0 + sumTo n (fun k => f (k + 1)) := by
  simp only [sumTo_eq_sum]
  rw [Finset.sum_range_succ', add_comm]

/-- the recursive tangent sum is the sum over the position of `δ` -/
theorem mf_tsum_eq_sum (ls rs ds : List (Core α)) (ij : List (Nat × Nat))
    (hr : rs.length = ls.length) (hd : ds.length = ls.length) (hil : ij.length = ls.length) :
    ∀ a, mf_tsum ls rs ds ij a =
      sumTo ls.length (fun k => chain (tangentTerm ls rs ds k) ij a 0) := by
  induction ls generalizing rs ds ij with
  | nil => intro a; match rs, ds, ij, hr, hd, hil with | [], [], [], _, _, _ => simp [mf_tsum, sumTo]
  | cons l ls ih =>
    intro a
    match rs, ds, ij, hr, hd, hil with
    | r :: rs, d :: ds, i :: is, hr, hd, hil =>
      have hr' : rs.length = ls.length := by simpa using hr
      have hd' : ds.length = ls.length := by simpa using hd
      have hil' : is.length = ls.length := by simpa using hil
      simp only [mf_tsum, List.length_cons]
      rw [mf_sumTo_succ']
      congr 1
      have e : ∀ k, chain (tangentTerm (l :: ls) (r :: rs) (d :: ds) (k + 1)) (i :: is) a 0 =
          sumTo l.r1 (fun b => l.get a i.1 i.2 b * chain (tangentTerm ls rs ds k) is b 0) := by
        intro k
        simp [tangentTerm, chain]
      simp only [e]
      rw [sumTo_comm]
      apply sumTo_congr; intro b _
      rw [ih rs ds is hr' hd' hil' b, sumTo_mul_left]

/-! ### block structure of `deltaTail` -/

theorem mf_chain_cons (c : Core α) (cs : List (Core α)) (i : Nat × Nat) (is : List (Nat × Nat))
    (a b : Nat) :
    chain (c :: cs) (i :: is) a b = sumTo c.r1 (fun k => c.get a i.1 i.2 k * chain cs is k b) := rfl

theorem mf_tsum_cons (l r d : Core α) (ls rs ds : List (Core α)) (i : Nat × Nat)
    (is : List (Nat × Nat)) (a : Nat) :
    mf_tsum (l :: ls) (r :: rs) (d :: ds) (i :: is) a =
      chain (d :: rs) (i :: is) a 0 +
        sumTo l.r1 (fun k => l.get a i.1 i.2 k * mf_tsum ls rs ds is k) := rfl

/-- Transfer-matrix product of the tail of `_delta2cores` (positions `k ≥ 1`): the upper block row
    reproduces the right-orthogonal suffix, the lower block row the tangent sum of the suffix. -/
theorem mf_chain_deltaTail (ls rs ds : List (Core α)) (ij : List (Nat × Nat)) (hne : ls ≠ []) :
    ∀ ρ, SameRanks ls rs ds ρ → ij.length = ls.length →
      (∀ a, a < ρ → chain (deltaTail ls rs ds) ij a 0 = chain rs ij a 0) ∧
      (∀ a, chain (deltaTail ls rs ds) ij (ρ + a) 0 = mf_tsum ls rs ds ij a) := by
  induction ls generalizing rs ds ij with
  | nil => exact absurd rfl hne
  | cons l ls ih =>
    intro ρ hs hil
    match rs, ds, ij, hs, hil with
    | r :: rs, d :: ds, i :: is, hs, hil =>
      obtain ⟨hl0, hr0, hd0, hl1, hd1, hs'⟩ := hs
      cases ls with
      | nil =>
        match rs, ds, is, hs', hil with
        | [], [], [], hs', _ =>
          have hr1 : r.r1 = 1 := hs'
          have hl1' : l.r1 = 1 := by omega
          have hd1' : d.r1 = 1 := by omega
          constructor
          · intro a ha
            simp [deltaTail, catR0, chain, sumTo, hr1, hr0, ha]
          · intro a
            simp [deltaTail, catR0, chain, sumTo, mf_tsum, hr1, hr0, hl1', hd1']
      | cons l' ls' =>
        match rs, ds, is, hs', hil with
        | r' :: rs', d' :: ds', i' :: is', hs', hil =>
          have hil' : (i' :: is').length = (l' :: ls').length := by simpa using hil
          obtain ⟨IHa, IHb⟩ := ih (r' :: rs') (d' :: ds') (i' :: is') (by simp) r.r1 hs' hil'
          have e : deltaTail (l :: l' :: ls') (r :: r' :: rs') (d :: d' :: ds') =
              catR0 (catR1 r (zeroLike r)) (catR1 d l) ::
                deltaTail (l' :: ls') (r' :: rs') (d' :: ds') := rfl
          rw [e]
          constructor
          · intro a ha
            rw [mf_chain_cons, mf_chain_cons r]
            show sumTo (r.r1 + r.r1) _ = sumTo r.r1 _
            rw [sumTo_add]
            have h1 : sumTo r.r1 (fun k => (catR0 (catR1 r (zeroLike r)) (catR1 d l)).get a i.1 i.2 k *
                chain (deltaTail (l' :: ls') (r' :: rs') (d' :: ds')) (i' :: is') k 0)
                = sumTo r.r1 (fun k => r.get a i.1 i.2 k * chain (r' :: rs') (i' :: is') k 0) := by
              apply sumTo_congr
              intro k hk
              rw [IHa k hk]
              simp [catR0, catR1, hr0, ha, hk]
            have h2 : sumTo r.r1 (fun k =>
                (catR0 (catR1 r (zeroLike r)) (catR1 d l)).get a i.1 i.2 (r.r1 + k) *
                chain (deltaTail (l' :: ls') (r' :: rs') (d' :: ds')) (i' :: is') (r.r1 + k) 0) = 0 := by
              apply sumTo_eq_zero
              intro k hk
              simp [catR0, catR1, zeroLike, hr0, ha]
            rw [h1, h2, add_zero]
          · intro a
            rw [mf_chain_cons, mf_tsum_cons, mf_chain_cons d]
            show sumTo (r.r1 + r.r1) _ = _
            rw [sumTo_add]
            congr 1
            · rw [hd1]
              apply sumTo_congr
              intro k hk
              rw [IHa k hk]
              simp [catR0, catR1, hr0, hd1, hk]
            · rw [hl1]
              apply sumTo_congr
              intro k hk
              rw [IHb k]
              simp [catR0, catR1, hr0, hd1]

/-- the rank-`2r` train of `_delta2cores` represents the (recursive) tangent sum -/
theorem mf_full_delta2cores (ls rs ds : List (Core α)) (ij : List (Nat × Nat))
    (hs : SameRanks ls rs ds 1) (h2 : 2 ≤ ls.length) (hil : ij.length = ls.length) :
    full (delta2cores ls rs ds) ij = mf_tsum ls rs ds ij 0 := by
  match ls, h2, hs, hil with
  | l :: l' :: ls', _, hs, hil =>
    match rs, ds, ij, hs, hil with
    | r :: rs, d :: ds, i :: is, hs, hil =>
      obtain ⟨hl0, hr0, hd0, hl1, hd1, hs'⟩ := hs
      match rs, ds, is, hs', hil with
      | r' :: rs', d' :: ds', i' :: is', hs', hil =>
        have hil' : (i' :: is').length = (l' :: ls').length := by simpa using hil
        obtain ⟨Ha, Hb⟩ := mf_chain_deltaTail (l' :: ls') (r' :: rs') (d' :: ds') (i' :: is')
          (by simp) r.r1 hs' hil'
        have e : delta2cores (l :: l' :: ls') (r :: r' :: rs') (d :: d' :: ds') =
            catR1 d l :: deltaTail (l' :: ls') (r' :: rs') (d' :: ds') := rfl
        unfold full
        rw [e, mf_chain_cons, mf_tsum_cons, mf_chain_cons d]
        show sumTo (d.r1 + l.r1) _ = _
        rw [sumTo_add]
        congr 1
        · apply sumTo_congr
          intro k hk
          rw [Ha k (by omega)]
          simp [catR1, hk]
        · apply sumTo_congr
          intro k hk
          rw [hd1, Hb k]
          simp [catR1, hd1]

/-! ### well-formedness and ranks of `delta2cores` -/

/-- double every entry but the last -/
def mf_dblInit : List Nat → List Nat
  | [] => []
  | [x] => [x]
  | x :: y :: t => 2 * x :: mf_dblInit (y :: t)

theorem mf_dblInit_getD_le (xs : List Nat) : ∀ k, (mf_dblInit xs).getD k 0 ≤ 2 * xs.getD k 0 := by
  induction xs with
  | nil => intro k; simp [mf_dblInit]
  | cons x xs ih =>
    intro k
    cases xs with
    | nil => cases k <;> simp [mf_dblInit]; omega
    | cons y t =>
      cases k with
      | zero => simp [mf_dblInit]
      | succ k => simpa [mf_dblInit] using ih k

theorem mf_dblInit_getD_lt (xs : List Nat) :
    ∀ k, k + 1 < xs.length → (mf_dblInit xs).getD k 0 = 2 * xs.getD k 0 := by
  induction xs with
  | nil => intro k h; simp at h
  | cons x xs ih =>
    intro k h
    cases xs with
    | nil => simp at h
    | cons y t =>
      cases k with
      | zero => simp [mf_dblInit]
      | succ k =>
        have h' : k + 1 < (y :: t).length := by simpa using h
        simpa [mf_dblInit] using ih k h'

theorem mf_dblInit_getD_last (xs : List Nat) :
    ∀ k, k + 1 = xs.length → (mf_dblInit xs).getD k 0 = xs.getD k 0 := by
  induction xs with
  | nil => intro k h; simp at h
  | cons x xs ih =>
    intro k h
    cases xs with
    | nil =>
      have : k = 0 := by simpa using h
      subst this; simp [mf_dblInit]
    | cons y t =>
      cases k with
      | zero => simp at h
      | succ k =>
        have h' : k + 1 = (y :: t).length := by simpa using h
        simpa [mf_dblInit] using ih k h'

theorem mf_dblInit_length (xs : List Nat) : (mf_dblInit xs).length = xs.length := by
  induction xs with
  | nil => rfl
  | cons x xs ih =>
    cases xs with
    | nil => rfl
    | cons y t => simpa [mf_dblInit] using ih

omit [CommRing α] in
theorem mf_deltaTail_spec [Zero α] (ls rs ds : List (Core α)) (hne : ls ≠ []) :
    ∀ ρ, SameRanks ls rs ds ρ →
      WF (deltaTail ls rs ds) (ρ + ρ) ∧ (deltaTail ls rs ds).length = ls.length ∧
      (deltaTail ls rs ds).map (·.r1) = mf_dblInit (ls.map (·.r1)) := by
  induction ls generalizing rs ds with
  | nil => exact absurd rfl hne
  | cons l ls ih =>
    intro ρ hs
    match rs, ds, hs with
    | r :: rs, d :: ds, hs =>
      obtain ⟨hl0, hr0, hd0, hl1, hd1, hs'⟩ := hs
      cases ls with
      | nil =>
        match rs, ds, hs' with
        | [], [], hs' =>
          have hr1 : r.r1 = 1 := hs'
          refine ⟨⟨?_, ?_⟩, rfl, ?_⟩
          · simp [catR0, hr0, hd0]
          · show r.r1 = 1
            exact hr1
          · simp [deltaTail, catR0, mf_dblInit, hl1]
      | cons l' ls' =>
        match rs, ds, hs' with
        | r' :: rs', d' :: ds', hs' =>
          obtain ⟨IH1, IH2, IH3⟩ := ih (r' :: rs') (d' :: ds') (by simp) r.r1 hs'
          have e : deltaTail (l :: l' :: ls') (r :: r' :: rs') (d :: d' :: ds') =
              catR0 (catR1 r (zeroLike r)) (catR1 d l) ::
                deltaTail (l' :: ls') (r' :: rs') (d' :: ds') := rfl
          rw [e]
          refine ⟨⟨?_, ?_⟩, ?_, ?_⟩
          · simp [catR0, catR1, hr0, hd0]
          · exact IH1
          · simp [IH2]
          · rw [List.map_cons, IH3]
            simp [mf_dblInit, catR0, catR1, zeroLike, hl1]
            omega

omit [CommRing α] in
theorem mf_delta2cores_spec [Zero α] (ls rs ds : List (Core α))
    (hs : SameRanks ls rs ds 1) (h2 : 2 ≤ ls.length) :
    WF (delta2cores ls rs ds) 1 ∧ (delta2cores ls rs ds).length = ls.length ∧
    ranks (delta2cores ls rs ds) = 1 :: mf_dblInit (ls.map (·.r1)) := by
  match ls, h2, hs with
  | l :: l' :: ls', _, hs =>
    match rs, ds, hs with
    | r :: rs, d :: ds, hs =>
      obtain ⟨hl0, hr0, hd0, hl1, hd1, hs'⟩ := hs
      match rs, ds, hs' with
      | r' :: rs', d' :: ds', hs' =>
        obtain ⟨H1, H2, H3⟩ := mf_deltaTail_spec (l' :: ls') (r' :: rs') (d' :: ds') (by simp) r.r1 hs'
        have e : delta2cores (l :: l' :: ls') (r :: r' :: rs') (d :: d' :: ds') =
            catR1 d l :: deltaTail (l' :: ls') (r' :: rs') (d' :: ds') := rfl
        rw [e]
        refine ⟨⟨?_, ?_⟩, ?_, ?_⟩
        · simp [catR1, hd0]
        · have : (catR1 d l).r1 = r.r1 + r.r1 := by simp [catR1, hd1, hl1]
          rw [this]; exact H1
        · simp [H2]
        · simp only [ranks, List.map_cons, H3]
          simp [mf_dblInit, catR1, hd0, hd1, hl1]
          omega

/-! ### multilinearity of the kernels of `riemannian_projection` -/

/-- entrywise sum of two cores of the same shape (shape fields taken from the first) -/
def addC (z w : Core α) : Core α := { z with get := fun a i j b => z.get a i j b + w.get a i j b }
/-- entrywise scaling of a core -/
def smulC (c : α) (z : Core α) : Core α := { z with get := fun a i j b => c * z.get a i j b }
/-- entrywise sum / scaling of interface matrices -/
def addP (P Q : Phi2 α) : Phi2 α := fun r s => P r s + Q r s
def smulP (c : α) (P : Phi2 α) : Phi2 α := fun r s => c * P r s

theorem mf_pleftStep_add_z (P : Phi2 α) (l z w : Core α) (h0 : w.r0 = z.r0) (R S : Nat) :
    pleftStep P l (addC z w) R S = pleftStep P l z R S + pleftStep P l w R S := by
  simp only [pleftStep, addC, h0, sumTo_eq_sum, mul_add, Finset.sum_add_distrib]

theorem mf_pleftStep_smul_z (c : α) (P : Phi2 α) (l z : Core α) (R S : Nat) :
    pleftStep P l (smulC c z) R S = c * pleftStep P l z R S := by
  simp only [pleftStep, smulC, sumTo_eq_sum, Finset.mul_sum]
  refine Finset.sum_congr rfl fun _ _ => Finset.sum_congr rfl fun _ _ =>
    Finset.sum_congr rfl fun _ _ => Finset.sum_congr rfl fun _ _ => ?_
  ring

theorem mf_pleftStep_add_P (P Q : Phi2 α) (l z : Core α) (R S : Nat) :
    pleftStep (addP P Q) l z R S = pleftStep P l z R S + pleftStep Q l z R S := by
  simp only [pleftStep, addP, sumTo_eq_sum, add_mul, Finset.sum_add_distrib]

theorem mf_pleftStep_smul_P (c : α) (P : Phi2 α) (l z : Core α) (R S : Nat) :
    pleftStep (smulP c P) l z R S = c * pleftStep P l z R S := by
  simp only [pleftStep, smulP, sumTo_eq_sum, Finset.mul_sum]
  refine Finset.sum_congr rfl fun _ _ => Finset.sum_congr rfl fun _ _ =>
    Finset.sum_congr rfl fun _ _ => Finset.sum_congr rfl fun _ _ => ?_
  ring

theorem mf_prightStep_add_z (P : Phi2 α) (rc z w : Core α) (h1 : w.r1 = z.r1) (r s : Nat) :
    prightStep P rc (addC z w) r s = prightStep P rc z r s + prightStep P rc w r s := by
  simp only [prightStep, addC, h1, sumTo_eq_sum, mul_add, Finset.sum_add_distrib]

theorem mf_prightStep_smul_z (c : α) (P : Phi2 α) (rc z : Core α) (r s : Nat) :
    prightStep P rc (smulC c z) r s = c * prightStep P rc z r s := by
  simp only [prightStep, smulC, sumTo_eq_sum, Finset.mul_sum]
  refine Finset.sum_congr rfl fun _ _ => Finset.sum_congr rfl fun _ _ =>
    Finset.sum_congr rfl fun _ _ => Finset.sum_congr rfl fun _ _ => ?_
  ring

theorem mf_prightStep_add_P (P Q : Phi2 α) (rc z : Core α) (r s : Nat) :
    prightStep (addP P Q) rc z r s = prightStep P rc z r s + prightStep Q rc z r s := by
  simp only [prightStep, addP, sumTo_eq_sum, add_mul, Finset.sum_add_distrib]

theorem mf_prightStep_smul_P (c : α) (P : Phi2 α) (rc z : Core α) (r s : Nat) :
    prightStep (smulP c P) rc z r s = c * prightStep P rc z r s := by
  simp only [prightStep, smulP, sumTo_eq_sum, Finset.mul_sum]
  refine Finset.sum_congr rfl fun _ _ => Finset.sum_congr rfl fun _ _ =>
    Finset.sum_congr rfl fun _ _ => Finset.sum_congr rfl fun _ _ => ?_
  ring

/-- the `get` of `projSd`, written with the (already linear) kernel `pleftStep` -/
theorem mf_projSd_get_none (L : Phi2 α) (rR : Nat) (l z : Core α) (r i j S : Nat) :
    (projSd L none rR l z).get r i j S = sumTo z.r0 (fun s => L r s * z.get s i j S) := rfl

theorem mf_projSd_get_some (L Rp : Phi2 α) (rR : Nat) (l z : Core α) (r i j R : Nat) :
    (projSd L (some Rp) rR l z).get r i j R =
      sumTo z.r1 (fun S => (sumTo z.r0 (fun s => L r s * z.get s i j S) +
        - sumTo l.r1 (fun R' => l.get r i j R' * pleftStep L l z R' S)) * Rp R S) := rfl

theorem mf_projSd_add_z (L : Phi2 α) (Rm : Option (Phi2 α)) (rR : Nat) (l z w : Core α)
    (h0 : w.r0 = z.r0) (h1 : w.r1 = z.r1) (r i j R : Nat) :
    (projSd L Rm rR l (addC z w)).get r i j R =
      (projSd L Rm rR l z).get r i j R + (projSd L Rm rR l w).get r i j R := by
  cases Rm with
  | none =>
    simp only [mf_projSd_get_none, h0]
    simp only [addC, sumTo_eq_sum, mul_add, Finset.sum_add_distrib]
  | some Rp =>
    simp only [mf_projSd_get_some, h0, h1, mf_pleftStep_add_z _ _ _ _ h0]
    simp only [addC, sumTo_eq_sum, mul_add, add_mul, neg_add, Finset.sum_add_distrib]
    ring

theorem mf_projSd_smul_z (c : α) (L : Phi2 α) (Rm : Option (Phi2 α)) (rR : Nat) (l z : Core α)
    (r i j R : Nat) :
    (projSd L Rm rR l (smulC c z)).get r i j R = c * (projSd L Rm rR l z).get r i j R := by
  cases Rm with
  | none =>
    simp only [mf_projSd_get_none]
    simp only [smulC, sumTo_eq_sum, Finset.mul_sum]
    refine Finset.sum_congr rfl fun _ _ => ?_
    ring
  | some Rp =>
    simp only [mf_projSd_get_some, mf_pleftStep_smul_z]
    simp only [smulC, sumTo_eq_sum, Finset.mul_sum]
    refine Finset.sum_congr rfl fun S _ => ?_
    have e1 : ∀ s, L r s * (c * z.get s i j S) = c * (L r s * z.get s i j S) := fun s => by ring
    have e2 : ∀ R', l.get r i j R' * (c * pleftStep L l z R' S) =
        c * (l.get r i j R' * pleftStep L l z R' S) := fun R' => by ring
    simp only [e1, e2, ← Finset.mul_sum]
    ring

theorem mf_projSd_add_L (L M : Phi2 α) (Rm : Option (Phi2 α)) (rR : Nat) (l z : Core α)
    (r i j R : Nat) :
    (projSd (addP L M) Rm rR l z).get r i j R =
      (projSd L Rm rR l z).get r i j R + (projSd M Rm rR l z).get r i j R := by
  cases Rm with
  | none =>
    simp only [mf_projSd_get_none]
    simp only [addP, sumTo_eq_sum, add_mul, Finset.sum_add_distrib]
  | some Rp =>
    simp only [mf_projSd_get_some, mf_pleftStep_add_P]
    simp only [addP, sumTo_eq_sum, mul_add, add_mul, neg_add, Finset.sum_add_distrib]
    ring

theorem mf_projSd_smul_L (c : α) (L : Phi2 α) (Rm : Option (Phi2 α)) (rR : Nat) (l z : Core α)
    (r i j R : Nat) :
    (projSd (smulP c L) Rm rR l z).get r i j R = c * (projSd L Rm rR l z).get r i j R := by
  cases Rm with
  | none =>
    simp only [mf_projSd_get_none]
    simp only [smulP, sumTo_eq_sum, Finset.mul_sum]
    refine Finset.sum_congr rfl fun _ _ => ?_
    ring
  | some Rp =>
    simp only [mf_projSd_get_some, mf_pleftStep_smul_P]
    simp only [smulP, sumTo_eq_sum, Finset.mul_sum]
    refine Finset.sum_congr rfl fun S _ => ?_
    have e1 : ∀ s, c * L r s * z.get s i j S = c * (L r s * z.get s i j S) := fun s => by ring
    have e2 : ∀ R', l.get r i j R' * (c * pleftStep L l z R' S) =
        c * (l.get r i j R' * pleftStep L l z R' S) := fun R' => by ring
    simp only [e1, e2, ← Finset.mul_sum]
    ring

theorem mf_projSd_add_R (L Rp Rq : Phi2 α) (rR : Nat) (l z : Core α) (r i j R : Nat) :
    (projSd L (some (addP Rp Rq)) rR l z).get r i j R =
      (projSd L (some Rp) rR l z).get r i j R + (projSd L (some Rq) rR l z).get r i j R := by
  simp only [mf_projSd_get_some]
  simp only [addP, sumTo_eq_sum, mul_add, Finset.sum_add_distrib]

theorem mf_projSd_smul_R (c : α) (L Rp : Phi2 α) (rR : Nat) (l z : Core α) (r i j R : Nat) :
    (projSd L (some (smulP c Rp)) rR l z).get r i j R =
      c * (projSd L (some Rp) rR l z).get r i j R := by
  simp only [mf_projSd_get_some]
  simp only [smulP, sumTo_eq_sum, Finset.mul_sum]
  refine Finset.sum_congr rfl fun S _ => ?_
  ring

end TT.Manifold
