import TTModel.Extras
import TTLemmas.Sum
import TTLemmas.Add
import TTLemmas.Simple

/-!
Helper lemmas for C03b (kron, broadcasting, factories, well-formedness of `add`/`mul`) and
C09 (`conj`, `diag`, `mprod`, `cat`, `pad`).
-/
namespace TT
open Finset
variable {α : Type} [CommRing α]

/-! ### `chain` over `++` -/

/-- the suffix of a chain can be replaced by anything with the same transfer product -/
theorem chain_append_congr (cs A B : List (Core α)) (ij kl kl' : List (Nat × Nat)) (b : Nat)
    (hil : ij.length = cs.length) (h : ∀ k, chain A kl k b = chain B kl' k b) :
    ∀ a, chain (cs ++ A) (ij ++ kl) a b = chain (cs ++ B) (ij ++ kl') a b := by
  induction cs generalizing ij with
  | nil =>
    match ij, hil with
    | [], _ => intro a; simpa using h a
  | cons c cs ih =>
    match ij, hil with
    | i :: is, hil =>
      intro a
      have hil' : is.length = cs.length := by simpa using hil
      simp only [List.cons_append, chain]
      apply sumTo_congr; intro k _
      rw [ih is hil' k]

theorem chain_append_zero (cs A : List (Core α)) (ij kl : List (Nat × Nat)) (b : Nat)
    (hil : ij.length = cs.length) (h : ∀ k, chain A kl k b = 0) :
    ∀ a, chain (cs ++ A) (ij ++ kl) a b = 0 := by
  induction cs generalizing ij with
  | nil =>
    match ij, hil with
    | [], _ => intro a; simpa using h a
  | cons c cs ih =>
    match ij, hil with
    | i :: is, hil =>
      intro a
      have hil' : is.length = cs.length := by simpa using hil
      simp only [List.cons_append, chain]
      apply sumTo_eq_zero; intro k _
      rw [ih is hil' k]; ring

/-- a well-formed prefix (last rank 1) factors out -/
theorem chain_append (xs ys : List (Core α)) (ij kl : List (Nat × Nat)) (b : Nat)
    (hil : ij.length = xs.length) :
    ∀ rx, WF xs rx → ∀ a, a < rx →
      chain (xs ++ ys) (ij ++ kl) a b = chain xs ij a 0 * chain ys kl 0 b := by
  induction xs generalizing ij with
  | nil =>
    match ij, hil with
    | [], _ =>
      intro rx hw a ha
      have : rx = 1 := hw
      have : a = 0 := by omega
      subst this
      simp [chain]
  | cons x xs ih =>
    match ij, hil with
    | i :: is, hil =>
      intro rx hw a ha
      obtain ⟨_, hw'⟩ := hw
      have hil' : is.length = xs.length := by simpa using hil
      simp only [List.cons_append, chain]
      rw [← sumTo_mul_right]
      apply sumTo_congr; intro k hk
      rw [ih is hil' x.r1 hw' k hk]; ring

omit [CommRing α] in
theorem WF_append (xs ys : List (Core α)) (hy : WF ys 1) : ∀ r, WF xs r → WF (xs ++ ys) r := by
  induction xs with
  | nil => intro r h; have : r = 1 := h; subst this; simpa using hy
  | cons x xs ih => intro r h; exact ⟨h.1, ih x.r1 h.2⟩

theorem full_kron_gen (xs ys : List (Core α)) (ij kl : List (Nat × Nat))
    (hwx : WF xs 1) (hil : ij.length = xs.length) :
    full (kron xs ys) (ij ++ kl) = full xs ij * full ys kl := by
  simpa [full, kron] using chain_append xs ys ij kl 0 hil 1 hwx 0 (by omega)

/-! ### well-formedness of `add`, `mul` -/

theorem WF_addFrom (xs ys : List (Core α)) (hlen : xs.length = ys.length) (hne : xs ≠ []) :
    ∀ (first : Bool) (rx ry : Nat), WF xs rx → WF ys ry →
      WF (addFrom first xs ys) (off first rx + ry) := by
  induction xs generalizing ys with
  | nil => exact absurd rfl hne
  | cons x xs ih =>
    intro first rx ry hwx hwy
    match ys, hlen with
    | y :: ys, hlen =>
      obtain ⟨hx0, hwx'⟩ := hwx
      obtain ⟨hy0, hwy'⟩ := hwy
      cases xs with
      | nil =>
        have hys : ys = [] := by
          cases ys with
          | nil => rfl
          | cons _ _ => simp at hlen
        subst hys
        have hx1 : x.r1 = 1 := hwx'
        have hy1 : y.r1 = 1 := hwy'
        refine ⟨?_, ?_⟩
        · simp [addCore, hx0, hy0]
        · show off true x.r1 + y.r1 = 1
          simp [off, hy1]
      | cons x' xs' =>
        match ys, hlen with
        | y' :: ys', hlen =>
          have hlen' : (x' :: xs').length = (y' :: ys').length := by simpa using hlen
          have e : addFrom first (x :: x' :: xs') (y :: y' :: ys') =
              addCore first false x y :: addFrom false (x' :: xs') (y' :: ys') := rfl
          rw [e]
          refine ⟨?_, ?_⟩
          · simp [addCore, hx0, hy0]
          · have := ih (y' :: ys') hlen' (by simp) false x.r1 y.r1 hwx' hwy'
            simpa [addCore, off] using this

theorem WF_mul_gen (xs ys : List (Core α)) (hlen : xs.length = ys.length) :
    ∀ (rx ry : Nat), WF xs rx → WF ys ry → WF (mul xs ys) (rx * ry) := by
  induction xs generalizing ys with
  | nil =>
    intro rx ry hwx hwy
    match ys, hlen with
    | [], _ =>
      have h1 : rx = 1 := hwx
      have h2 : ry = 1 := hwy
      subst h1 h2
      show 1 * 1 = 1
      rfl
  | cons x xs ih =>
    intro rx ry hwx hwy
    match ys, hlen with
    | y :: ys, hlen =>
      obtain ⟨hx0, hwx'⟩ := hwx
      obtain ⟨hy0, hwy'⟩ := hwy
      have hlen' : xs.length = ys.length := by simpa using hlen
      refine ⟨?_, ?_⟩
      · simp [mulCore, hx0, hy0]
      · exact ih ys hlen' x.r1 y.r1 hwx' hwy'

theorem length_addFrom (xs ys : List (Core α)) (hlen : xs.length = ys.length) :
    ∀ first, (addFrom first xs ys).length = xs.length := by
  induction xs generalizing ys with
  | nil => intro first; match ys, hlen with | [], _ => rfl
  | cons x xs ih =>
    intro first
    match ys, hlen with
    | y :: ys, hlen =>
      cases xs with
      | nil =>
        have hys : ys = [] := by
          cases ys with
          | nil => rfl
          | cons _ _ => simp at hlen
        subst hys; rfl
      | cons x' xs' =>
        match ys, hlen with
        | y' :: ys', hlen =>
          have hlen' : (x' :: xs').length = (y' :: ys').length := by simpa using hlen
          have e : addFrom first (x :: x' :: xs') (y :: y' :: ys') =
              addCore first false x y :: addFrom false (x' :: xs') (y' :: ys') := rfl
          rw [e, List.length_cons, ih (y' :: ys') hlen' false]
          simp

theorem length_mul (xs ys : List (Core α)) (hlen : xs.length = ys.length) :
    (mul xs ys).length = xs.length := by
  induction xs generalizing ys with
  | nil => match ys, hlen with | [], _ => rfl
  | cons x xs ih =>
    match ys, hlen with
    | y :: ys, hlen =>
      have hlen' : xs.length = ys.length := by simpa using hlen
      simp [mul, ih ys hlen']

/-! ### `conj` -/

theorem cj_sumTo (cj : α → α) (h0 : cj 0 = 0) (hadd : ∀ a b, cj (a + b) = cj a + cj b)
    (n : Nat) (f : Nat → α) : cj (sumTo n f) = sumTo n (fun k => cj (f k)) := by
  induction n with
  | zero => simpa [sumTo] using h0
  | succ n ih => simp [sumTo, hadd, ih]

theorem chain_conj (cj : α → α) (h0 : cj 0 = 0) (h1 : cj 1 = 1)
    (hadd : ∀ a b, cj (a + b) = cj a + cj b) (hmul : ∀ a b, cj (a * b) = cj a * cj b)
    (xs : List (Core α)) (ij : List (Nat × Nat)) :
    ∀ a b, chain (conjTT cj xs) ij a b = cj (chain xs ij a b) := by
  induction xs generalizing ij with
  | nil => intro a b; by_cases h : a = b <;> simp [conjTT, chain, h, h0, h1]
  | cons x xs ih =>
    intro a b
    match ij with
    | [] => simp [conjTT, chain, h0]
    | i :: is =>
      have e : conjTT cj (x :: xs) = Core.mapVal cj x :: conjTT cj xs := rfl
      rw [e]
      simp only [chain]
      rw [cj_sumTo cj h0 hadd]
      show sumTo x.r1 _ = _
      apply sumTo_congr; intro k _
      rw [ih is k b, hmul]
      rfl

/-! ### `diag` -/

theorem chain_diagEmbed (xs : List (Core α)) (ij : List (Nat × Nat)) (hil : ij.length = xs.length) :
    ∀ a b, chain (diagEmbed xs) ij a b =
      if ∀ p ∈ ij, p.1 = p.2 then chain xs (tIdx (ij.map Prod.fst)) a b else 0 := by
  induction xs generalizing ij with
  | nil =>
    match ij, hil with
    | [], _ => intro a b; simp [diagEmbed, tIdx]
  | cons x xs ih =>
    match ij, hil with
    | i :: is, hil =>
      intro a b
      have hil' : is.length = xs.length := by simpa using hil
      have e : diagEmbed (x :: xs) =
          { r0 := x.r0, m := x.m, n := x.m, r1 := x.r1,
            get := fun a i j b => x.get a i 0 b * (if i = j then 1 else 0) } :: diagEmbed xs := rfl
      rw [e]
      simp only [chain, tIdx, List.map_cons]
      by_cases h1 : i.1 = i.2
      · by_cases h2 : ∀ p ∈ is, p.1 = p.2
        · have hall : ∀ p ∈ i :: is, p.1 = p.2 := by
            intro p hp; rcases List.mem_cons.mp hp with rfl | hp
            · exact h1
            · exact h2 p hp
          rw [if_pos hall]
          apply sumTo_congr; intro k _
          rw [ih is hil' k b, if_pos h2]
          simp [h1, tIdx]
        · have hall : ¬ ∀ p ∈ i :: is, p.1 = p.2 := by
            intro hh; exact h2 (fun p hp => hh p (List.mem_cons_of_mem _ hp))
          rw [if_neg hall]
          apply sumTo_eq_zero; intro k _
          rw [ih is hil' k b, if_neg h2]; ring
      · have hall : ¬ ∀ p ∈ i :: is, p.1 = p.2 := by
          intro hh; exact h1 (hh i (List.mem_cons_self))
        rw [if_neg hall]
        apply sumTo_eq_zero; intro k _
        simp [h1]

theorem chain_diagExtract (xs : List (Core α)) (is : List Nat) :
    ∀ a b, chain (diagExtract xs) (tIdx is) a b = chain xs (is.map (fun i => (i, i))) a b := by
  induction xs generalizing is with
  | nil => intro a b; simp [diagExtract, chain]
  | cons x xs ih =>
    intro a b
    match is with
    | [] => simp [diagExtract, chain, tIdx]
    | i :: is =>
      have e : diagExtract (x :: xs) =
          { r0 := x.r0, m := min x.m x.n, n := 1, r1 := x.r1,
            get := fun a i _ b => x.get a i i b } :: diagExtract xs := rfl
      rw [e]
      simp only [chain, tIdx, List.map_cons]
      apply sumTo_congr; intro k _
      have := ih is k b
      simp only [tIdx] at this
      rw [this]

/-! ### `mprod` -/

theorem chain_mprod (rows : Nat) (F : Nat → Nat → α) (mode : Nat) (cs : List (Core α)) (is : List Nat)
    (hm : mode < cs.length) (hil : is.length = cs.length) :
    ∀ a b, chain (mprod cs mode rows F) (tIdx is) a b =
      sumTo (cs[mode]).m (fun j => F (is[mode]) j * chain cs (tIdx (is.set mode j)) a b) := by
  induction mode generalizing cs is with
  | zero =>
    match cs, is, hm, hil with
    | c :: cs, i :: is, _, _ =>
      intro a b
      simp only [mprod, modifyAt, chain, tIdx, List.map_cons, List.getElem_cons_zero, List.set_cons_zero,
        mprodCore]
      have : ∀ k, sumTo c.m (fun j => c.get a j 0 k * F i j) * chain cs (List.map (fun i => (i, 0)) is) k b
          = sumTo c.m (fun j => c.get a j 0 k * F i j * chain cs (List.map (fun i => (i, 0)) is) k b) := by
        intro k; rw [sumTo_mul_right]
      simp only [this]
      rw [sumTo_comm]
      apply sumTo_congr; intro j _
      rw [← sumTo_mul_left]
      apply sumTo_congr; intro k _
      ring
  | succ mode ih =>
    match cs, is, hm, hil with
    | c :: cs, i :: is, hm, hil =>
      intro a b
      have hm' : mode < cs.length := by simpa using hm
      have hil' : is.length = cs.length := by simpa using hil
      have IH := ih cs is hm' hil'
      simp only [mprod] at IH
      simp only [mprod, modifyAt, chain, tIdx, List.map_cons, List.getElem_cons_succ, List.set_cons_succ]
      simp only [tIdx] at IH
      have : ∀ k, c.get a i 0 k * chain (modifyAt (fun c => mprodCore c rows F) mode cs)
            (List.map (fun i => (i, 0)) is) k b
          = sumTo (cs[mode]).m (fun j => c.get a i 0 k * (F (is[mode]) j *
              chain cs (List.map (fun i => (i, 0)) (is.set mode j)) k b)) := by
        intro k; rw [IH k b, sumTo_mul_left]
      simp only [this]
      rw [sumTo_comm]
      apply sumTo_congr; intro j _
      rw [← sumTo_mul_left]
      apply sumTo_congr; intro k _
      ring

/-! ### factories -/

theorem full_onesTT (shape : List (Nat × Nat)) (ij : List (Nat × Nat)) (h : ij.length = shape.length) :
    full (onesTT shape : List (Core α)) ij = 1 := by
  unfold full
  induction shape generalizing ij with
  | nil => simp [onesTT, chain]
  | cons s shape ih =>
    match ij, h with
    | i :: is, h =>
      have h' : is.length = shape.length := by simpa using h
      have e : (onesTT (s :: shape) : List (Core α)) = constCore 1 s.1 s.2 :: onesTT shape := rfl
      rw [e]
      simp only [chain]
      have e1 : (constCore (1:α) s.1 s.2).r1 = 1 := rfl
      rw [e1, sumTo_one, ih is h']
      simp [constCore]

theorem full_zerosTT (shape : List (Nat × Nat)) (ij : List (Nat × Nat)) (h : ij.length = shape.length)
    (hne : shape ≠ []) : full (zerosTT shape : List (Core α)) ij = 0 := by
  match shape, ij, h, hne with
  | s :: shape, i :: is, _, _ => simp [full, zerosTT, chain, constCore, sumTo]

theorem full_eyeTT (shape : List Nat) (ij : List (Nat × Nat)) (h : ij.length = shape.length) :
    full (eyeTT shape : List (Core α)) ij = if ∀ p ∈ ij, p.1 = p.2 then 1 else 0 := by
  unfold full
  induction shape generalizing ij with
  | nil =>
    match ij, h with
    | [], _ => simp [eyeTT, chain]
  | cons s shape ih =>
    match ij, h with
    | i :: is, h =>
      have h' : is.length = shape.length := by simpa using h
      have e : (eyeTT (s :: shape) : List (Core α)) =
        ({ r0 := 1, m := s, n := s, r1 := 1, get := fun _ i j _ => if i = j then 1 else 0 } : Core α)
          :: eyeTT shape := rfl
      rw [e]
      simp only [chain]
      rw [sumTo_one, ih is h']
      have hiff : (∀ p ∈ i :: is, p.1 = p.2) ↔ (i.1 = i.2 ∧ ∀ p ∈ is, p.1 = p.2) := by
        constructor
        · intro hh; exact ⟨hh i List.mem_cons_self, fun p hp => hh p (List.mem_cons_of_mem _ hp)⟩
        · intro hh p hp
          rcases List.mem_cons.mp hp with rfl | hp
          · exact hh.1
          · exact hh.2 p hp
      by_cases h1 : i.1 = i.2 <;> by_cases h2 : ∀ p ∈ is, p.1 = p.2
      · rw [if_pos h2, if_pos (hiff.mpr ⟨h1, h2⟩)]; simp [h1]
      · rw [if_neg h2, if_neg (fun hh => h2 (hiff.mp hh).2)]; simp
      · rw [if_neg (fun hh => h1 (hiff.mp hh).1)]; simp [h1]
      · rw [if_neg (fun hh => h1 (hiff.mp hh).1)]; simp [h1]

/-- `Π_k v_k[i_k]` -/
def prodAt : List (Nat × (Nat → α)) → List Nat → α
  | [], _ => 1
  | _ :: _, [] => 0
  | v :: vs, i :: is => v.2 i * prodAt vs is

theorem full_rank1TT (vs : List (Nat × (Nat → α))) (is : List Nat) :
    full (rank1TT vs) (tIdx is) = prodAt vs is := by
  unfold full
  induction vs generalizing is with
  | nil => simp [rank1TT, chain, prodAt]
  | cons v vs ih =>
    match is with
    | [] => simp [rank1TT, chain, prodAt, tIdx]
    | i :: is =>
      have e : rank1TT (v :: vs) =
        { r0 := 1, m := v.1, n := 1, r1 := 1, get := fun _ i _ _ => v.2 i } :: rank1TT vs := rfl
      rw [e]
      simp only [chain, tIdx, List.map_cons, prodAt]
      rw [sumTo_one]
      have := ih is
      simp only [tIdx] at this
      rw [this]

theorem chain_meshgrid_aux (k : Nat) (vs : List (Nat × (Nat → α))) (is : List Nat) (s : Nat)
    (hil : is.length = vs.length) :
    chain ((List.range' s vs.length).zipWith
      (fun p v => ({ r0 := 1, m := v.1, n := 1, r1 := 1,
                     get := fun _ i _ _ => if p = k then v.2 i else 1 } : Core α)) vs) (tIdx is) 0 0 =
      if h : s ≤ k ∧ k - s < vs.length then (vs[k - s]'h.2).2 (is[k - s]'(by omega)) else 1 := by
  induction vs generalizing is s with
  | nil =>
    match is, hil with
    | [], _ => simp [chain, tIdx]
  | cons v vs ih =>
    match is, hil with
    | i :: is, hil =>
      have hil' : is.length = vs.length := by simpa using hil
      simp only [List.length_cons, List.range'_succ, List.zipWith_cons_cons, chain, tIdx, List.map_cons]
      rw [sumTo_one]
      have IH := ih is (s + 1) hil'
      simp only [tIdx] at IH
      rw [IH]
      by_cases hsk : s = k
      · subst hsk
        simp
      · by_cases hlt : s ≤ k
        · have h1 : s + 1 ≤ k := by omega
          have e : k - s = (k - (s + 1)) + 1 := by omega
          by_cases hb : k - (s + 1) < vs.length
          · have hb' : k - s < vs.length + 1 := by omega
            simp only [hsk, if_false, one_mul, h1, hb, hlt, hb', and_self, dite_true]
            simp only [e, List.getElem_cons_succ]
          · have hb' : ¬ (k - s < vs.length + 1) := by omega
            simp [hsk, hb, hb']
        · have h1 : ¬ (s + 1 ≤ k) := by omega
          simp [hsk, hlt, h1]

theorem full_meshgridK (vs : List (Nat × (Nat → α))) (k : Nat) (is : List Nat)
    (hk : k < vs.length) (hil : is.length = vs.length) :
    full (meshgridK vs k) (tIdx is) = (vs[k]).2 (is[k]) := by
  have := chain_meshgrid_aux k vs is 0 hil
  simp only [full, meshgridK, List.range_eq_range']
  rw [this]
  simp [hk]

/-! ### `pad` (tensor branch, fill value 0) -/

/-- all padded indices lie inside the original block -/
def padInside (cs : List (Core α)) (ps : List (Nat × Nat)) (is : List Nat) : Prop :=
  ∀ t ∈ cs.zip (ps.zip is), t.2.1.1 ≤ t.2.2 ∧ t.2.2 < t.2.1.1 + t.1.m

instance (cs : List (Core α)) (ps : List (Nat × Nat)) (is : List Nat) : Decidable (padInside cs ps is) := by
  unfold padInside; infer_instance

/-- indices shifted back into the original block -/
def padShift (ps : List (Nat × Nat)) (is : List Nat) : List Nat := List.zipWith (fun p i => i - p.1) ps is

theorem padRevT_zero [DecidableEq α] (as bs : List (Core α)) (ps : List (Nat × Nat))
    (h : as.length = ps.length) :
    padRevT (as ++ bs) ps 0 = List.zipWith (fun c p => padCoreT c p.1 p.2 (0:α)) as ps ++ bs := by
  induction as generalizing ps with
  | nil =>
    match ps, h with
    | [], _ => cases bs <;> simp [padRevT]
  | cons a as ih =>
    match ps, h with
    | p :: ps, h =>
      have h' : as.length = ps.length := by simpa using h
      simp [padRevT, ih ps h']

theorem padT_zero_eq [DecidableEq α] (cs0 cs1 : List (Core α)) (ps : List (Nat × Nat))
    (h : cs1.length = ps.length) :
    padT (cs0 ++ cs1) ps 0 = cs0 ++ List.zipWith (fun c p => padCoreT c p.1 p.2 (0:α)) cs1 ps := by
  unfold padT
  rw [List.reverse_append, padRevT_zero _ _ _ (by simpa using h), List.reverse_append,
    List.reverse_reverse, ← List.reverse_zipWith h, List.reverse_reverse]

theorem chain_padZip (cs : List (Core α)) (ps : List (Nat × Nat)) (is : List Nat)
    (h1 : cs.length = ps.length) (h2 : is.length = cs.length) :
    ∀ a b, chain (List.zipWith (fun c p => padCoreT c p.1 p.2 (0:α)) cs ps) (tIdx is) a b =
      if padInside cs ps is then chain cs (tIdx (padShift ps is)) a b else 0 := by
  induction cs generalizing ps is with
  | nil =>
    match ps, is, h1, h2 with
    | [], [], _, _ => intro a b; simp [padInside, padShift]
  | cons c cs ih =>
    match ps, is, h1, h2 with
    | p :: ps, i :: is, h1, h2 =>
      intro a b
      have h1' : cs.length = ps.length := by simpa using h1
      have h2' : is.length = cs.length := by simpa using h2
      have IH := ih ps is h1' h2'
      simp only [tIdx] at IH
      simp only [List.zipWith_cons_cons, chain, tIdx, List.map_cons, padShift]
      have hiff : padInside (c :: cs) (p :: ps) (i :: is) ↔
          ((p.1 ≤ i ∧ i < p.1 + c.m) ∧ padInside cs ps is) := by
        simp [padInside]
      by_cases hh : p.1 ≤ i ∧ i < p.1 + c.m
      · by_cases hr : padInside cs ps is
        · rw [if_pos (hiff.mpr ⟨hh, hr⟩)]
          apply sumTo_congr; intro k _
          rw [IH k b, if_pos hr]
          simp [padCoreT, hh, padShift]
        · rw [if_neg (fun h => hr (hiff.mp h).2)]
          apply sumTo_eq_zero; intro k _
          rw [IH k b, if_neg hr]; ring
      · rw [if_neg (fun h => hh (hiff.mp h).1)]
        apply sumTo_eq_zero; intro k _
        simp [padCoreT, hh]

theorem full_padT_zero_gen [DecidableEq α] (cs0 cs1 : List (Core α)) (ps : List (Nat × Nat))
    (is0 is1 : List Nat) (h1 : cs1.length = ps.length) (h2 : is0.length = cs0.length)
    (h3 : is1.length = cs1.length) :
    full (padT (cs0 ++ cs1) ps 0) (tIdx (is0 ++ is1)) =
      if padInside cs1 ps is1 then full (cs0 ++ cs1) (tIdx (is0 ++ padShift ps is1)) else 0 := by
  rw [padT_zero_eq cs0 cs1 ps h1]
  unfold full
  have e1 : tIdx (is0 ++ is1) = tIdx is0 ++ tIdx is1 := by simp [tIdx]
  have e2 : tIdx (is0 ++ padShift ps is1) = tIdx is0 ++ tIdx (padShift ps is1) := by simp [tIdx]
  have hl : (tIdx is0).length = cs0.length := by simpa [tIdx] using h2
  rw [e1, e2]
  by_cases hr : padInside cs1 ps is1
  · rw [if_pos hr]
    apply chain_append_congr _ _ _ _ _ _ _ hl
    intro k
    rw [chain_padZip cs1 ps is1 h1 h3 k 0, if_pos hr]
  · rw [if_neg hr]
    apply chain_append_zero _ _ _ _ _ hl
    intro k
    rw [chain_padZip cs1 ps is1 h1 h3 k 0, if_neg hr]

/-! ### broadcasting -/

/-- torch broadcasting index map on right-aligned operands: tiled size-1 modes read index `(0,0)` -/
def bcastIdxAligned : List (Core α) → List (Core α) → List (Nat × Nat) → List (Nat × Nat)
  | x :: xs, y :: ys, p :: ps => (if y.m = x.m ∧ y.n = x.n then p else (0, 0)) :: bcastIdxAligned xs ys ps
  | _, _, _ => []

/-- torch broadcasting index map: drop the leading `xs.length - ys.length` indices, then
    `bcastIdxAligned` -/
def bcastIdx (xs ys : List (Core α)) (ij : List (Nat × Nat)) : List (Nat × Nat) :=
  bcastIdxAligned (xs.drop (xs.length - ys.length)) ys (ij.drop (xs.length - ys.length))

omit [CommRing α] in
theorem SameModes_append (a b c d : List (Core α)) (h1 : SameModes a b) (h2 : SameModes c d) :
    SameModes (a ++ c) (b ++ d) := by
  induction a generalizing b with
  | nil =>
    match b, h1 with
    | [], _ => simpa using h2
  | cons x a ih =>
    match b, h1 with
    | y :: b, h1 => exact ⟨h1.1, h1.2.1, ih b h1.2.2⟩

theorem SameModes_const_ones (l : List (Core α)) :
    SameModes l (l.map (fun c => constCore (1:α) c.m c.n)) := by
  induction l with
  | nil => trivial
  | cons c l ih => exact ⟨rfl, rfl, ih⟩

theorem bcastAligned_spec (xs ys r : List (Core α)) (h : bcastAligned xs ys = some r) :
    r.length = xs.length ∧ xs.length = ys.length ∧ SameModes xs r ∧ (∀ ρ, WF ys ρ → WF r ρ) ∧
    ∀ ps : List (Nat × Nat), ps.length = xs.length → ∀ a b,
      chain r ps a b = chain ys (bcastIdxAligned xs ys ps) a b := by
  induction xs generalizing ys r with
  | nil =>
    match ys, h with
    | [], h =>
      have : r = [] := by simpa [bcastAligned] using h.symm
      subst this
      refine ⟨rfl, rfl, trivial, fun ρ hw => hw, ?_⟩
      intro ps hps a b
      match ps, hps with
      | [], _ => simp [bcastIdxAligned]
  | cons x xs ih =>
    match ys, h with
    | y :: ys, h =>
      unfold bcastAligned at h
      split at h
      · exact absurd h (by simp)
      · rename_i r' hr'
        obtain ⟨hl, hl2, hsm, hwf, hch⟩ := ih ys r' hr'
        split_ifs at h with hc1 hc2
        · have : r = y :: r' := by simpa using h.symm
          subst this
          refine ⟨by simp [hl], by simp [hl2], ⟨hc1.1.symm, hc1.2.symm, hsm⟩, ?_, ?_⟩
          · intro ρ hw; exact ⟨hw.1, hwf _ hw.2⟩
          · intro ps hps a b
            match ps, hps with
            | p :: ps, hps =>
              have hps' : ps.length = xs.length := by simpa using hps
              simp only [bcastIdxAligned, chain, if_pos hc1]
              apply sumTo_congr; intro k _
              rw [hch ps hps' k b]
        · have : r = tileCore y x.m x.n :: r' := by simpa using h.symm
          subst this
          refine ⟨by simp [hl], by simp [hl2], ⟨rfl, rfl, hsm⟩, ?_, ?_⟩
          · intro ρ hw; exact ⟨hw.1, hwf _ hw.2⟩
          · intro ps hps a b
            match ps, hps with
            | p :: ps, hps =>
              have hps' : ps.length = xs.length := by simpa using hps
              simp only [bcastIdxAligned, chain, if_neg hc1]
              show sumTo y.r1 _ = _
              apply sumTo_congr; intro k _
              rw [hch ps hps' k b]
              rfl

theorem bcast_spec (xs ys ys' : List (Core α)) (h : bcast xs ys = some ys') :
    ys'.length = xs.length ∧ SameModes xs ys' ∧ (WF ys 1 → WF ys' 1) ∧
    ∀ ij : List (Nat × Nat), ij.length = xs.length → full ys' ij = full ys (bcastIdx xs ys ij) := by
  unfold bcast at h
  split_ifs at h with hlt
  simp only at h
  split at h
  · exact absurd h (by simp)
  · rename_i r hr
    have e : ys' = (xs.take (xs.length - ys.length)).map (fun c => constCore (1:α) c.m c.n) ++ r := by
      simpa using h.symm
    obtain ⟨hl, hl2, hsm, hwf, hch⟩ := bcastAligned_spec _ _ _ hr
    subst e
    refine ⟨?_, ?_, ?_, ?_⟩
    · simp [hl]
    · have := SameModes_append _ _ _ _ (SameModes_const_ones (xs.take (xs.length - ys.length))) hsm
      simpa using this
    · intro hw
      exact WF_append _ _ (hwf 1 hw) 1 (WF_const_ones _)
    · intro ij hij
      have hsplit : ij = ij.take (xs.length - ys.length) ++ ij.drop (xs.length - ys.length) := by simp
      have hlt' : (ij.take (xs.length - ys.length)).length =
          ((xs.take (xs.length - ys.length)).map (fun c => constCore (1:α) c.m c.n)).length := by
        simp [hij]
      unfold full
      rw [hsplit, chain_append _ _ _ _ 0 hlt' 1 (WF_const_ones _) 0 (by omega),
        chain_const_ones _ _ (by simpa using hlt'), one_mul,
        hch _ (by simp [hij]) 0 0]
      simp [bcastIdx]

end TT
