import TTModel.Extras
import TTLemmas.Sum
import TTLemmas.Add
import TTLemmas.Simple

/-!
Helper lemmas for C03b (kron, broadcasting, factories, well-formedness of `add`/`mul`) and
C09 (`conj`, `diag`, `mprod`, `cat`, `pad`).
-/
namespace TT
open Finset
variable {α : Type} [CommRing α]

/-! ### `chain` over `++` -/

/-- the suffix of a chain can be replaced by anything with the same transfer product -/
theorem chain_append_congr (cs A B : List (Core α)) (ij kl kl' : List (Nat × Nat)) (b : Nat)
    (hil : ij.length = cs.length) (h : ∀ k, chain A kl k b = chain B kl' k b) :
    ∀ a, chain (cs ++ A) (ij ++ kl) a b = chain (cs ++ B) (ij ++ kl') a b := by
  induction cs generalizing ij with
  | nil =>
    match ij, hil with
    | [], _ => intro a; simpa using h a
  | cons c cs ih =>
    match ij, hil with
    | i :: is, hil =>
      intro a
      have hil' : is.length = cs.length := by simpa using hil
      simp only [List.cons_append, chain]
      apply sumTo_congr; intro k _
      rw [ih is hil' k]

theorem chain_append_zero (cs A : List (Core α)) (ij kl : List (Nat × Nat)) (b : Nat)
    (hil : ij.length = cs.length) (h : ∀ k, chain A kl k b = 0) :
    ∀ a, chain (cs ++ A) (ij ++ kl) a b = 0 := by
  induction cs generalizing ij with
  | nil =>
    match ij, hil with
    | [], _ => intro a; simpa using h a
  | cons c cs ih =>
    match ij, hil with
    | i :: is, hil =>
      intro a
      have hil' : is.length = cs.length := by simpa using hil
      simp only [List.cons_append, chain]
      apply sumTo_eq_zero; intro k _
      rw [ih is hil' k]; ring

/-- a well-formed prefix (last rank 1) factors out -/
theorem chain_append (xs ys : List (Core α)) (ij kl : List (Nat × Nat)) (b : Nat)
    (hil : ij.length = xs.length) :
    ∀ rx, WF xs rx → ∀ a, a < rx →
      chain (xs ++ ys) (ij ++ kl) a b = chain xs ij a 0 * chain ys kl 0 b := by
  induction xs generalizing ij with
  | nil =>
    match ij, hil with
    | [], _ =>
      intro rx hw a ha
      have : rx = 1 := hw
      have : a = 0 := by omega
      subst this
      simp [chain]
  | cons x xs ih =>
    match ij, hil with
    | i :: is, hil =>
      intro rx hw a ha
      obtain ⟨_, hw'⟩ := hw
      have hil' : is.length = xs.length := by simpa using hil
      simp only [List.cons_append, chain]
      rw [← sumTo_mul_right]
      apply sumTo_congr; intro k hk
      rw [ih is hil' x.r1 hw' k hk]; ring

omit [CommRing α] in
theorem WF_append (xs ys : List (Core α)) (hy : WF ys 1) : ∀ r, WF xs r → WF (xs ++ ys) r := by
  induction xs with
  | nil => intro r h; have : r = 1 := h; subst this; simpa using hy
  | cons x xs ih => intro r h; exact ⟨h.1, ih x.r1 h.2⟩

theorem full_kron_gen (xs ys : List (Core α)) (ij kl : List (Nat × Nat))
    (hwx : WF xs 1) (hil : ij.length = xs.length) :
    full (kron xs ys) (ij ++ kl) = full xs ij * full ys kl := by
  simpa [full, kron] using chain_append xs ys ij kl 0 hil 1 hwx 0 (by omega)

/-! ### well-formedness of `add`, `mul` -/

theorem WF_addFrom (xs ys : List (Core α)) (hlen : xs.length = ys.length) (hne : xs ≠ []) :
    ∀ (first : Bool) (rx ry : Nat), WF xs rx → WF ys ry →
      WF (addFrom first xs ys) (off first rx + ry) := by
  induction xs generalizing ys with
  | nil => exact absurd rfl hne
  | cons x xs ih =>
    intro first rx ry hwx hwy
    match ys, hlen with
    | y :: ys, hlen =>
      obtain ⟨hx0, hwx'⟩ := hwx
      obtain ⟨hy0, hwy'⟩ := hwy
      cases xs with
      | nil =>
        have hys : ys = [] := by
          cases ys with
          | nil => rfl
          | cons _ _ => simp at hlen
        subst hys
        have hx1 : x.r1 = 1 := hwx'
        have hy1 : y.r1 = 1 := hwy'
        refine ⟨?_, ?_⟩
        · simp [addCore, hx0, hy0]
        · show off true x.r1 + y.r1 = 1
          simp [off, hy1]
      | cons x' xs' =>
        match ys, hlen with
        | y' :: ys', hlen =>
          have hlen' : (x' :: xs').length = (y' :: ys').length := by simpa using hlen
          have e : addFrom first (x :: x' :: xs') (y :: y' :: ys') =
              addCore first false x y :: addFrom false (x' :: xs') (y' :: ys') := rfl
          rw [e]
          refine ⟨?_, ?_⟩
          · simp [addCore, hx0, hy0]
          · have := ih (y' :: ys') hlen' (by simp) false x.r1 y.r1 hwx' hwy'
            simpa [addCore, off] using this

theorem WF_mul_gen (xs ys : List (Core α)) (hlen : xs.length = ys.length) :
    ∀ (rx ry : Nat), WF xs rx → WF ys ry → WF (mul xs ys) (rx * ry) := by
  induction xs generalizing ys with
  | nil =>
    intro rx ry hwx hwy
    match ys, hlen with
    | [], _ =>
      have h1 : rx = 1 := hwx
      have h2 : ry = 1 := hwy
      subst h1 h2
      show 1 * 1 = 1
      rfl
  | cons x xs ih =>
    intro rx ry hwx hwy
    match ys, hlen with
    | y :: ys, hlen =>
      obtain ⟨hx0, hwx'⟩ := hwx
      obtain ⟨hy0, hwy'⟩ := hwy
      have hlen' : xs.length = ys.length := by simpa using hlen
      refine ⟨?_, ?_⟩
      · simp [mulCore, hx0, hy0]
      · exact ih ys hlen' x.r1 y.r1 hwx' hwy'

theorem length_addFrom (xs ys : List (Core α)) (hlen : xs.length = ys.length) :
    ∀ first, (addFrom first xs ys).length = xs.length := by
  induction xs generalizing ys with
  | nil => intro first; match ys, hlen with | [], _ => rfl
  | cons x xs ih =>
    intro first
    match ys, hlen with
    | y :: ys, hlen =>
      cases xs with
      | nil =>
        have hys : ys = [] := by
          cases ys with
          | nil => rfl
          | cons _ _ => simp at hlen
        subst hys; rfl
      | cons x' xs' =>
        match ys, hlen with
        | y' :: ys', hlen =>
          have hlen' : (x' :: xs').length = (y' :: ys').length := by simpa using hlen
          have e : addFrom first (x :: x' :: xs') (y :: y' :: ys') =
              addCore first false x y :: addFrom false (x' :: xs') (y' :: ys') := rfl
          rw [e, List.length_cons, ih (y' :: ys') hlen' false]
          simp

theorem length_mul (xs ys : List (Core α)) (hlen : xs.length = ys.length) :
    (mul xs ys).length = xs.length := by
  induction xs generalizing ys with
  | nil => match ys, hlen with | [], _ => rfl
  | cons x xs ih =>
    match ys, hlen with
    | y :: ys, hlen =>
      have hlen' : xs.length = ys.length := by simpa using hlen
      simp [mul, ih ys hlen']

/-! ### `conj` -/

theorem cj_sumTo (cj : α → α) (h0 : cj 0 = 0) (hadd : ∀ a b, cj (a + b) = cj a + cj b)
    (n : Nat) (f : Nat → α) : cj (sumTo n f) = sumTo n (fun k => cj (f k)) := by
  induction n with
  | zero => simpa [sumTo] using h0
  | succ n ih => simp [sumTo, hadd, ih]

theorem chain_conj (cj : α → α) (h0 : cj 0 = 0) (h1 : cj 1 = 1)
    (hadd : ∀ a b, cj (a + b) = cj a + cj b) (hmul : ∀ a b, cj (a * b) = cj a * cj b)
    (xs : List (Core α)) (ij : List (Nat × Nat)) :
    ∀ a b, chain (conjTT cj xs) ij a b = cj (chain xs ij a b) := by
  induction xs generalizing ij with
  | nil => intro a b; by_cases h : a = b <;> simp [conjTT, chain, h, h0, h1]
  | cons x xs ih =>
    intro a b
    match ij with
    | [] => simp [conjTT, chain, h0]
    | i :: is =>
      have e : conjTT cj (x :: xs) = Core.mapVal cj x :: conjTT cj xs := rfl
      rw [e]
      simp only [chain]
      rw [cj_sumTo cj h0 hadd]
      show sumTo x.r1 _ = _
      apply sumTo_congr; intro k _
      rw [ih is k b, hmul]
      rfl

/-! ### `diag` -/

theorem chain_diagEmbed (xs : List (Core α)) (ij : List (Nat × Nat)) (hil : ij.length = xs.length) :
    ∀ a b, chain (diagEmbed xs) ij a b =
      if ∀ p ∈ ij, p.1 = p.2 then chain xs (tIdx (ij.map Prod.fst)) a b else 0 := by
  induction xs generalizing ij with
  | nil =>
    match ij, hil with
    | [], _ => intro a b; simp [diagEmbed, tIdx]
  | cons x xs ih =>
    match ij, hil with
    | i :: is, hil =>
      intro a b
      have hil' : is.length = xs.length := by simpa using hil
      have e : diagEmbed (x :: xs) =
          { r0 := x.r0, m := x.m, n := x.m, r1 := x.r1,
            get := fun a i j b => x.get a i 0 b * (if i = j then 1 else 0) } :: diagEmbed xs := rfl
      rw [e]
      simp only [chain, tIdx, List.map_cons]
      by_cases h1 : i.1 = i.2
      · by_cases h2 : ∀ p ∈ is, p.1 = p.2
        · have hall : ∀ p ∈ i :: is, p.1 = p.2 := by
            intro p hp; rcases List.mem_cons.mp hp with rfl | hp
            · exact h1
            · exact h2 p hp
          rw [if_pos hall]
          apply sumTo_congr; intro k _
          rw [ih is hil' k b, if_pos h2]
          simp [h1, tIdx]
        · have hall : ¬ ∀ p ∈ i :: is, p.1 = p.2 := by
            intro hh; exact h2 (fun p hp => hh p (List.mem_cons_of_mem _ hp))
          rw [if_neg hall]
          apply sumTo_eq_zero; intro k _
          rw [ih is hil' k b, if_neg h2]; ring
      · have hall : ¬ ∀ p ∈ i :: is, p.1 = p.2 := by
          intro hh; exact h1 (hh i (List.mem_cons_self))
        rw [if_neg hall]
        apply sumTo_eq_zero; intro k _
        simp [h1]

theorem chain_diagExtract (xs : List (Core α)) (is : List Nat) :
    ∀ a b, chain (diagExtract xs) (tIdx is) a b = chain xs (is.map (fun i => (i, i))) a b := by
  induction xs generalizing is with
  | nil => intro a b; simp [diagExtract, chain]
  | cons x xs ih =>
    intro a b
    match is with
    | [] => simp [diagExtract, chain, tIdx]
    | i :: is =>
      have e : diagExtract (x :: xs) =
          { r0 := x.r0, m := min x.m x.n, n := 1, r1 := x.r1,
            get := fun a i _ b => x.get a i i b } :: diagExtract xs := rfl
      rw [e]
      simp only [chain, tIdx, List.map_cons]
      apply sumTo_congr; intro k _
      have := ih is k b
      simp only [tIdx] at this
      rw [this]

/-! ### `mprod` -/

theorem chain_mprod (rows : Nat) (F : Nat → Nat → α) (mode : Nat) (cs : List (Core α)) (is : List Nat)
    (hm : mode < cs.length) (hil : is.length = cs.length) :
    ∀ a b, chain (mprod cs mode rows F) (tIdx is) a b =
      sumTo (cs[mode]).m (fun j => F (is[mode]) j * chain cs (tIdx (is.set mode j)) a b) := by
  induction mode generalizing cs is with
  | zero =>
    match cs, is, hm, hil with
    | c :: cs, i :: is, _, _ =>
      intro a b
      simp only [mprod, modifyAt, chain, tIdx, List.map_cons, List.getElem_cons_zero, List.set_cons_zero,
        mprodCore]
      have : ∀ k, sumTo c.m (fun j => c.get a j 0 k * F i j) * chain cs (List.map (fun i => (i, 0)) is) k b
          = sumTo c.m (fun j => c.get a j 0 k * F i j * chain cs (List.map (fun i => (i, 0)) is) k b) := by
        intro k; rw [sumTo_mul_right]
      simp only [this]
      rw [sumTo_comm]
      apply sumTo_congr; intro j _
      rw [← sumTo_mul_left]
      apply sumTo_congr; intro k _
      ring
  | succ mode ih =>
    match cs, is, hm, hil with
    | c :: cs, i :: is, hm, hil =>
      intro a b
      have hm' : mode < cs.length := by simpa using hm
      have hil' : is.length = cs.length := by simpa using hil
      have IH := ih cs is hm' hil'
      simp only [mprod] at IH
      simp only [mprod, modifyAt, chain, tIdx, List.map_cons, List.getElem_cons_succ, List.set_cons_succ]
      simp only [tIdx] at IH
      have : ∀ k, c.get a i 0 k * chain (modifyAt (fun c => mprodCore c rows F) mode cs)
            (List.map (fun i => (i, 0)) is) k b
          = sumTo (cs[mode]).m (fun j => c.get a i 0 k * (F (is[mode]) j *
              chain cs (List.map (fun i => (i, 0)) (is.set mode j)) k b)) := by
        intro k; rw [IH k b, sumTo_mul_left]
      simp only [this]
      rw [sumTo_comm]
      apply sumTo_congr; intro j _
      rw [← sumTo_mul_left]
      apply sumTo_congr; intro k _
      ring

/-! ### factories -/

theorem full_onesTT (shape : List (Nat × Nat)) (ij : List (Nat × Nat)) (h : ij.length = shape.length) :
    full (onesTT shape : List (Core α)) ij = 1 := by
  unfold full
  induction shape generalizing ij with
  | nil => simp [onesTT, chain]
  | cons s shape ih =>
    match ij, h with
    | i :: is, h =>
      have h' : is.length = shape.length := by simpa using h
      have e : (onesTT (s :: shape) : List (Core α)) = constCore 1 s.1 s.2 :: onesTT shape := rfl
      rw [e]
      simp only [chain]
      have e1 : (constCore (1:α) s.1 s.2).r1 = 1 := rfl
      rw [e1, sumTo_one, ih is h']
      simp [constCore]

theorem full_zerosTT (shape : List (Nat × Nat)) (ij : List (Nat × Nat)) (h : ij.length = shape.length)
    (hne : shape ≠ []) : full (zerosTT shape : List (Core α)) ij = 0 := by
  match shape, ij, h, hne with
  | s :: shape, i :: is, _, _ => simp [full, zerosTT, chain, constCore, sumTo]

theorem full_eyeTT (shape : List Nat) (ij : List (Nat × Nat)) (h : ij.length = shape.length) :
    full (eyeTT shape : List (Core α)) ij = if ∀ p ∈ ij, p.1 = p.2 then 1 else 0 := by
  unfold full
  induction shape generalizing ij with
  | nil =>
    match ij, h with
    | [], _ => simp [eyeTT, chain]
  | cons s shape ih =>
    match ij, h with
    | i :: is, h =>
      have h' : is.length = shape.length := by simpa using h
      have e : (eyeTT (s :: shape) : List (Core α)) =
        ({ r0 := 1, m := s, n := s, r1 := 1, get := fun _ i j _ => if i = j then 1 else 0 } : Core α)
          :: eyeTT shape := rfl
      rw [e]
      simp only [chain]
      rw [sumTo_one, ih is h']
      have hiff : (∀ p ∈ i :: is, p.1 = p.2) ↔ (i.1 = i.2 ∧ ∀ p ∈ is, p.1 = p.2) := by
        constructor
        · intro hh; exact ⟨hh i List.mem_cons_self, fun p hp => hh p (List.mem_cons_of_mem _ hp)⟩
        · intro hh p hp
          rcases List.mem_cons.mp hp with rfl | hp
          · exact hh.1
          · exact hh.2 p hp
      by_cases h1 : i.1 = i.2 <;> by_cases h2 : ∀ p ∈ is, p.1 = p.2
      · rw [if_pos h2, if_pos (hiff.mpr ⟨h1, h2⟩)]; simp [h1]
      · rw [if_neg h2, if_neg (fun hh => h2 (hiff.mp hh).2)]; simp
      · rw [if_neg (fun hh => h1 (hiff.mp hh).1)]; simp [h1]
      · rw [if_neg (fun hh => h1 (hiff.mp hh).1)]; simp [h1]

/-- `Π_k v_k[i_k]` -/
def prodAt : List (Nat × (Nat → α)) → List Nat → α
  | [], _ => 1
  | _ :: _, [] => 0
  | v :: vs, i :: is => v.2 i * prodAt vs is

theorem full_rank1TT (vs : List (Nat × (Nat → α))) (is : List Nat) :
    full (rank1TT vs) (tIdx is) = prodAt vs is := by
  unfold full
  induction vs generalizing is with
  | nil => simp [rank1TT, chain, prodAt]
  | cons v vs ih =>
    match is with
    | [] => simp [rank1TT, chain, prodAt, tIdx]
    | i :: is =>
      have e : rank1TT (v :: vs) =
        { r0 := 1, m := v.1, n := 1, r1 := 1, get := fun _ i _ _ => v.2 i } :: rank1TT vs := rfl
      rw [e]
      simp only [chain, tIdx, List.map_cons, prodAt]
      rw [sumTo_one]
      have := ih is
      simp only [tIdx] at this
      rw [this]

theorem chain_meshgrid_aux (k : Nat) (vs : List (Nat × (Nat → α))) (is : List Nat) (s : Nat)
    (hil : is.length = vs.length) :
    chain ((List.range' s vs.length).zipWith
      (fun p v => ({ r0 := 1, m := v.1, n := 1, r1 := 1,
                     get := fun _ i _ _ => if p = k then v.2 i else 1 } : Core α)) vs) (tIdx is) 0 0 =
      if h : s ≤ k ∧ k - s < vs.length then (vs[k - s]'h.2).2 (is[k - s]'(by omega)) else 1 := by
  induction vs generalizing is s with
  | nil =>
    match is, hil with
    | [], _ => simp [chain, tIdx]
  | cons v vs ih =>
    match is, hil with
    | i :: is, hil =>
      have hil' : is.length = vs.length := by simpa using hil
      simp only [List.length_cons, List.range'_succ, List.zipWith_cons_cons, chain, tIdx, List.map_cons]
      rw [sumTo_one]
      have IH := ih is (s + 1) hil'
      simp only [tIdx] at IH
      rw [IH]
      by_cases hsk : s = k
      · subst hsk
        simp
      · by_cases hlt : s ≤ k
        · have h1 : s + 1 ≤ k := by omega
          have e : k - s = (k - (s + 1)) + 1 := by omega
          by_cases hb : k - (s + 1) < vs.length
          · have hb' : k - s < vs.length + 1 := by omega
            simp only [hsk, if_false, one_mul, h1, hb, hlt, hb', and_self, dite_true]
            simp only [e, List.getElem_cons_succ]
          · have hb' : ¬ (k - s < vs.length + 1) := by omega
            simp [hsk, hb, hb']
        · have h1 : ¬ (s + 1 ≤ k) := by omega
          simp [hsk, hlt, h1]

theorem full_meshgridK (vs : List (Nat × (Nat → α))) (k : Nat) (is : List Nat)
    (hk : k < vs.length) (hil : is.length = vs.length) :
    full (meshgridK vs k) (tIdx is) = (vs[k]).2 (is[k]) := by
  have := chain_meshgrid_aux k vs is 0 hil
  simp only [full, meshgridK, List.range_eq_range']
  rw [this]
  simp [hk]

/-! ### `pad` (tensor branch, fill value 0) -/

/-- all padded indices lie inside the original block -/
def padInside (cs : List (Core α)) (ps : List (Nat × Nat)) (is : List Nat) : Prop :=
  ∀ t ∈ cs.zip (ps.zip is), t.2.1.1 ≤ t.2.2 ∧ t.2.2 < t.2.1.1 + t.1.m

instance (cs : List (Core α)) (ps : List (Nat × Nat)) (is : List Nat) : Decidable (padInside cs ps is) := by
  unfold padInside; infer_instance

/-- indices shifted back into the original block -/
def padShift (ps : List (Nat × Nat)) (is : List Nat) : List Nat := List.zipWith (fun p i => i - p.1) ps is

theorem padRevT_zero [DecidableEq α] (as bs : List (Core α)) (ps : List (Nat × Nat))
    (h : as.length = ps.length) :
    padRevT (as ++ bs) ps 0 = List.zipWith (fun c p => padCoreT c p.1 p.2 (0:α)) as ps ++ bs := by
  induction as generalizing ps with
  | nil =>
    match ps, h with
    | [], _ => cases bs <;> simp [padRevT]
  | cons a as ih =>
    match ps, h with
    | p :: ps, h =>
      have h' : as.length = ps.length := by simpa using h
      simp [padRevT, ih ps h']

theorem padT_zero_eq [DecidableEq α] (cs0 cs1 : List (Core α)) (ps : List (Nat × Nat))
    (h : cs1.length = ps.length) :
    padT (cs0 ++ cs1) ps 0 = cs0 ++ List.zipWith (fun c p => padCoreT c p.1 p.2 (0:α)) cs1 ps := by
  unfold padT
  rw [List.reverse_append, padRevT_zero _ _ _ (by simpa using h), List.reverse_append,
    List.reverse_reverse, ← List.reverse_zipWith h, List.reverse_reverse]

theorem chain_padZip (cs : List (Core α)) (ps : List (Nat × Nat)) (is : List Nat)
    (h1 : cs.length = ps.length) (h2 : is.length = cs.length) :
    ∀ a b, chain (List.zipWith (fun c p => padCoreT c p.1 p.2 (0:α)) cs ps) (tIdx is) a b =
      if padInside cs ps is then chain cs (tIdx (padShift ps is)) a b else 0 := by
  induction cs generalizing ps is with
  | nil =>
    match ps, is, h1, h2 with
    | [], [], _, _ => intro a b; simp [padInside, padShift]
  | cons c cs ih =>
    match ps, is, h1, h2 with
    | p :: ps, i :: is, h1, h2 =>
      intro a b
      have h1' : cs.length = ps.length := by simpa using h1
      have h2' : is.length = cs.length := by simpa using h2
      have IH := ih ps is h1' h2'
      simp only [tIdx] at IH
      simp only [List.zipWith_cons_cons, chain, tIdx, List.map_cons, padShift]
      have hiff : padInside (c :: cs) (p :: ps) (i :: is) ↔
          ((p.1 ≤ i ∧ i < p.1 + c.m) ∧ padInside cs ps is) := by
        simp [padInside]
      by_cases hh : p.1 ≤ i ∧ i < p.1 + c.m
      · by_cases hr : padInside cs ps is
        · rw [if_pos (hiff.mpr ⟨hh, hr⟩)]
          apply sumTo_congr; intro k _
          rw [IH k b, if_pos hr]
          simp [padCoreT, hh, padShift]
        · rw [if_neg (fun h => hr (hiff.mp h).2)]
          apply sumTo_eq_zero; intro k _
          rw [IH k b, if_neg hr]; ring
      · rw [if_neg (fun h => hh (hiff.mp h).1)]
        apply sumTo_eq_zero; intro k _
        simp [padCoreT, hh]

theorem full_padT_zero_gen [DecidableEq α] (cs0 cs1 : List (Core α)) (ps : List (Nat × Nat))
    (is0 is1 : List Nat) (h1 : cs1.length = ps.length) (h2 : is0.length = cs0.length)
    (h3 : is1.length = cs1.length) :
    full (padT (cs0 ++ cs1) ps 0) (tIdx (is0 ++ is1)) =
      if padInside cs1 ps is1 then full (cs0 ++ cs1) (tIdx (is0 ++ padShift ps is1)) else 0 := by
  rw [padT_zero_eq cs0 cs1 ps h1]
  unfold full
  have e1 : tIdx (is0 ++ is1) = tIdx is0 ++ tIdx is1 := by simp [tIdx]
  have e2 : tIdx (is0 ++ padShift ps is1) = tIdx is0 ++ tIdx (padShift ps is1) := by simp [tIdx]
  have hl : (tIdx is0).length = cs0.length := by simpa [tIdx] using h2
  rw [e1, e2]
  by_cases hr : padInside cs1 ps is1
  · rw [if_pos hr]
    apply chain_append_congr _ _ _ _ _ _ _ hl
    intro k
    rw [chain_padZip cs1 ps is1 h1 h3 k 0, if_pos hr]
  · rw [if_neg hr]
    apply chain_append_zero _ _ _ _ _ hl
    intro k
    rw [chain_padZip cs1 ps is1 h1 h3 k 0, if_neg hr]

/-! ### broadcasting -/

/-- torch broadcasting index map on right-aligned operands: tiled size-1 modes read index `(0,0)` -/
def bcastIdxAligned : List (Core α) → List (Core α) → List (Nat × Nat) → List (Nat × Nat)
  | x :: xs, y :: ys, p :: ps => (if y.m = x.m ∧ y.n = x.n then p else (0, 0)) :: bcastIdxAligned xs ys ps
  | _, _, _ => []

/-- torch broadcasting index map: drop the leading `xs.length - ys.length` indices, then
    `bcastIdxAligned` -/
def bcastIdx (xs ys : List (Core α)) (ij : List (Nat × Nat)) : List (Nat × Nat) :=
  bcastIdxAligned (xs.drop (xs.length - ys.length)) ys (ij.drop (xs.length - ys.length))

omit [CommRing α] in
theorem SameModes_append (a b c d : List (Core α)) (h1 : SameModes a b) (h2 : SameModes c d) :
    SameModes (a ++ c) (b ++ d) := by
  induction a generalizing b with
  | nil =>
    match b, h1 with
    | [], _ => simpa using h2
  | cons x a ih =>
    match b, h1 with
    | y :: b, h1 => exact ⟨h1.1, h1.2.1, ih b h1.2.2⟩

theorem SameModes_const_ones (l : List (Core α)) :
    SameModes l (l.map (fun c => constCore (1:α) c.m c.n)) := by
  induction l with
  | nil => trivial
  | cons c l ih => exact ⟨rfl, rfl, ih⟩

theorem bcastAligned_spec (xs ys r : List (Core α)) (h : bcastAligned xs ys = some r) :
    r.length = xs.length ∧ xs.length = ys.length ∧ SameModes xs r ∧ (∀ ρ, WF ys ρ → WF r ρ) ∧
    ∀ ps : List (Nat × Nat), ps.length = xs.length → ∀ a b,
      chain r ps a b = chain ys (bcastIdxAligned xs ys ps) a b := by
  induction xs generalizing ys r with
  | nil =>
    match ys, h with
    | [], h =>
      have : r = [] := by simpa [bcastAligned] using h.symm
      subst this
      refine ⟨rfl, rfl, trivial, fun ρ hw => hw, ?_⟩
      intro ps hps a b
      match ps, hps with
      | [], _ => simp [bcastIdxAligned]
  | cons x xs ih =>
    match ys, h with
    | y :: ys, h =>
      unfold bcastAligned at h
      split at h
      · exact absurd h (by simp)
      · rename_i r' hr'
        obtain ⟨hl, hl2, hsm, hwf, hch⟩ := ih ys r' hr'
        split_ifs at h with hc1 hc2
        · have : r = y :: r' := by simpa using h.symm
          subst this
          refine ⟨by simp [hl], by simp [hl2], ⟨hc1.1.symm, hc1.2.symm, hsm⟩, ?_, ?_⟩
          · intro ρ hw; exact ⟨hw.1, hwf _ hw.2⟩
          · intro ps hps a b
            match ps, hps with
            | p :: ps, hps =>
              have hps' : ps.length = xs.length := by simpa using hps
              simp only [bcastIdxAligned, chain, if_pos hc1]
              apply sumTo_congr; intro k _
              rw [hch ps hps' k b]
        · have : r = tileCore y x.m x.n :: r' := by simpa using h.symm
          subst this
          refine ⟨by simp [hl], by simp [hl2], ⟨rfl, rfl, hsm⟩, ?_, ?_⟩
          · intro ρ hw; exact ⟨hw.1, hwf _ hw.2⟩
          · intro ps hps a b
            match ps, hps with
            | p :: ps, hps =>
              have hps' : ps.length = xs.length := by simpa using hps
              simp only [bcastIdxAligned, chain, if_neg hc1]
              show sumTo y.r1 _ = _
              apply sumTo_congr; intro k _
              rw [hch ps hps' k b]
              rfl

theorem bcast_spec (xs ys ys' : List (Core α)) (h : bcast xs ys = some ys') :
    ys'.length = xs.length ∧ SameModes xs ys' ∧ (WF ys 1 → WF ys' 1) ∧
    ∀ ij : List (Nat × Nat), ij.length = xs.length → full ys' ij = full ys (bcastIdx xs ys ij) := by
  unfold bcast at h
  split_ifs at h with hlt
  simp only at h
  split at h
  · exact absurd h (by simp)
  · rename_i r hr
    have e : ys' = (xs.take (xs.length - ys.length)).map (fun c => constCore (1:α) c.m c.n) ++ r := by
      simpa using h.symm
    obtain ⟨hl, hl2, hsm, hwf, hch⟩ := bcastAligned_spec _ _ _ hr
    subst e
    refine ⟨?_, ?_, ?_, ?_⟩
    · simp [hl]
    · have := SameModes_append _ _ _ _ (SameModes_const_ones (xs.take (xs.length - ys.length))) hsm
      simpa using this
    · intro hw
      exact WF_append _ _ (hwf 1 hw) 1 (WF_const_ones _)
    · intro ij hij
      have hsplit : ij = ij.take (xs.length - ys.length) ++ ij.drop (xs.length - ys.length) := by simp
      have hlt' : (ij.take (xs.length - ys.length)).length =
          ((xs.take (xs.length - ys.length)).map (fun c => constCore (1:α) c.m c.n)).length := by
        simp [hij]
      unfold full
      rw [hsplit, chain_append _ _ _ _ 0 hlt' 1 (WF_const_ones _) 0 (by omega),
        chain_const_ones _ _ (by simpa using hlt'), one_mul,
        hch _ (by simp [hij]) 0 0]
      simp [bcastIdx]

/-! ### `cat` -/

omit [CommRing α] in
theorem sumNat_cons (a : Nat) (l : List Nat) : sumNat (a :: l) = a + sumNat l := by
  have key : ∀ (l : List Nat) (a : Nat), List.foldl (· + ·) a l = a + List.foldl (· + ·) 0 l := by
    intro l
    induction l with
    | nil => intro a; simp
    | cons x l ih => intro a; simp only [List.foldl_cons]; rw [ih (a + x), ih (0 + x)]; omega
  simp only [sumNat, List.foldl_cons]
  rw [key l (0 + a)]; omega

/-- moving all three running offsets of `catGet` is a shift of the block -/
theorem catGet_shift (first last isDim : Bool) (ts : List (Core α)) (s1 s2 s3 : Nat) :
    ∀ (o1 o2 o3 a i j b : Nat),
      catGet first last isDim ts (o1 + s1) (o2 + s2) (o3 + s3) a i j b =
        if s1 ≤ a ∧ s2 ≤ i ∧ s3 ≤ b then catGet first last isDim ts o1 o2 o3 (a - s1) (i - s2) j (b - s3)
        else 0 := by
  induction ts with
  | nil => intro o1 o2 o3 a i j b; simp [catGet]
  | cons t ts ih =>
    intro o1 o2 o3 a i j b
    simp only [catGet]
    rw [show o1 + s1 + off first t.r0 = o1 + off first t.r0 + s1 by omega,
      show (o2 + s2 + if isDim = true then t.m else 0) = (o2 + if isDim = true then t.m else 0) + s2 by omega,
      show o3 + s3 + off last t.r1 = o3 + off last t.r1 + s3 by omega, ih]
    by_cases hS : s1 ≤ a ∧ s2 ≤ i ∧ s3 ≤ b
    · rw [if_pos hS, if_pos hS]
      congr 1
      have hc : (o1 + s1 ≤ a ∧ a < o1 + s1 + t.r0 ∧ o2 + s2 ≤ i ∧ i < o2 + s2 + t.m ∧
            o3 + s3 ≤ b ∧ b < o3 + s3 + t.r1) ↔
          (o1 ≤ a - s1 ∧ a - s1 < o1 + t.r0 ∧ o2 ≤ i - s2 ∧ i - s2 < o2 + t.m ∧
            o3 ≤ b - s3 ∧ b - s3 < o3 + t.r1) := by omega
      have e1 : a - (o1 + s1) = a - s1 - o1 := by omega
      have e2 : i - (o2 + s2) = i - s2 - o2 := by omega
      have e3 : b - (o3 + s3) = b - s3 - o3 := by omega
      simp only [hc, e1, e2, e3]
    · rw [if_neg hS, if_neg hS]
      have : ¬ (o1 + s1 ≤ a ∧ a < o1 + s1 + t.r0 ∧ o2 + s2 ≤ i ∧ i < o2 + s2 + t.m ∧
            o3 + s3 ≤ b ∧ b < o3 + s3 + t.r1) := by omega
      rw [if_neg this]; simp

/-- binary block core: `x` at the origin, `Y` shifted by `x`'s ranks (and by `x.m` on the
    concatenated mode) -/
def cat2Core (first last isDim : Bool) (x Y : Core α) : Core α :=
  { r0 := if first then 1 else x.r0 + Y.r0
    m := if isDim then x.m + Y.m else x.m
    n := 1
    r1 := if last then 1 else x.r1 + Y.r1
    get := fun a i j b =>
      (if a < x.r0 ∧ i < x.m ∧ b < x.r1 then x.get a i j b else 0) +
      (if off first x.r0 ≤ a ∧ (if isDim then x.m else 0) ≤ i ∧ off last x.r1 ≤ b
        then Y.get (a - off first x.r0) (i - (if isDim then x.m else 0)) j (b - off last x.r1) else 0) }

theorem catCore_cons (first last isDim : Bool) (h : Core α) (hs : List (Core α)) :
    catCore first last isDim (h :: hs) = cat2Core first last isDim h (catCore first last isDim hs) := by
  have hget : ∀ a i j b, catGet first last isDim (h :: hs) 0 0 0 a i j b =
      (if a < h.r0 ∧ i < h.m ∧ b < h.r1 then h.get a i j b else 0) +
      (if off first h.r0 ≤ a ∧ (if isDim then h.m else 0) ≤ i ∧ off last h.r1 ≤ b
        then catGet first last isDim hs 0 0 0 (a - off first h.r0) (i - (if isDim then h.m else 0)) j
          (b - off last h.r1) else 0) := by
    intro a i j b
    simp only [catGet]
    rw [catGet_shift]
    simp
  cases isDim <;> cases first <;> cases last <;>
    simp only [catCore, cat2Core, List.map_cons, sumNat_cons, hget] <;> simp

/-- binary `cat` of a train `xs` with an already concatenated block train `Ys` -/
def cat2Go (dim : Nat) : Nat → Nat → List (Core α) → List (Core α) → List (Core α)
  | k+1, i, x :: xs, Y :: Ys => cat2Core (i == 0) (k == 0) (i == dim) x Y :: cat2Go dim k (i+1) xs Ys
  | _, _, _, _ => []

omit [CommRing α] in
theorem heads_exists (ts : List (List (Core α))) (k : Nat) (h : ∀ u ∈ ts, u.length = k + 1) :
    ∃ hs, heads ts = some hs := by
  induction ts with
  | nil => exact ⟨[], rfl⟩
  | cons u ts ih =>
    obtain ⟨hs, hhs⟩ := ih (fun v hv => h v (List.mem_cons_of_mem _ hv))
    have hu := h u List.mem_cons_self
    match u, hu with
    | c :: u', _ => exact ⟨c :: hs, by simp [heads, hhs]⟩

/-- peeling the first operand off a k-ary `cat` -/
theorem catGo_cons (dim : Nat) : ∀ (n i : Nat) (t : List (Core α)) (ts : List (List (Core α))),
    t.length = n → (∀ u ∈ ts, u.length = n) →
    catGo dim n i (t :: ts) = cat2Go dim n i t (catGo dim n i ts) := by
  intro n
  induction n with
  | zero => intro i t ts _ _; simp [catGo, cat2Go]
  | succ k ih =>
    intro i t ts ht hts
    obtain ⟨hs, hhs⟩ := heads_exists ts k hts
    match t, ht with
    | c :: t', ht =>
      have ht' : t'.length = k := by simpa using ht
      have hts' : ∀ u ∈ ts.map List.tail, u.length = k := by
        intro u hu
        obtain ⟨v, hv, rfl⟩ := List.mem_map.mp hu
        simp [hts v hv]
      have e1 : heads ((c :: t') :: ts) = some (c :: hs) := by simp [heads, hhs]
      have IH := ih (i + 1) t' (ts.map List.tail) ht' hts'
      simp only [catGo, e1, hhs, List.map_cons, List.tail_cons, cat2Go, catCore_cons, IH]

/-- the x-block of `cat2Core` only sees in-range mode indices -/
def maskCore (c : Core α) : Core α :=
  { c with get := fun a i j b => if i < c.m then c.get a i j b else 0 }

/-- is the index on the concatenated mode beyond `xs`'s block? -/
def catOK (dim : Nat) : Nat → List (Core α) → List Nat → Bool
  | i, x :: xs, j :: js => (i != dim || decide (x.m ≤ j)) && catOK dim (i+1) xs js
  | _, _, _ => true

/-- index seen by the remaining operands: shifted by `x.m` on the concatenated mode -/
def catRest (dim : Nat) : Nat → List (Core α) → List Nat → List Nat
  | i, x :: xs, j :: js => (if i = dim then j - x.m else j) :: catRest dim (i+1) xs js
  | _, _, _ => []

/-- block placement for binary `cat`, any starting position `i` -/
theorem chain_cat2Go (dim : Nat) (xs Ys : List (Core α)) (is : List Nat) (hne : xs ≠ []) :
    ∀ (n i rx rY : Nat), xs.length = n → Ys.length = n → is.length = n → WF xs rx → WF Ys rY →
    ∀ a, chain (cat2Go dim n i xs Ys) (tIdx is) a 0 =
      (if a < rx then chain (xs.map maskCore) (tIdx is) a 0 else 0) +
      (if off (i == 0) rx ≤ a then
        (if catOK dim i xs is then chain Ys (tIdx (catRest dim i xs is)) (a - off (i == 0) rx) 0 else 0)
       else 0) := by
  induction xs generalizing Ys is with
  | nil => exact absurd rfl hne
  | cons x xs ih =>
    intro n i rx rY hlx hlY hli hwx hwY a
    match n, Ys, is, hlx, hlY, hli with
    | k+1, Y :: Ys, j :: js, hlx, hlY, hli =>
      obtain ⟨hx0, hwx'⟩ := hwx
      obtain ⟨hY0, hwY'⟩ := hwY
      subst hx0
      cases xs with
      | nil =>
        have hk : k = 0 := by simpa using hlx.symm
        subst hk
        have hYs : Ys = [] := by
          cases Ys with
          | nil => rfl
          | cons _ _ => simp at hlY
        have hjs : js = [] := by
          cases js with
          | nil => rfl
          | cons _ _ => simp at hli
        subst hYs hjs
        have hx1 : x.r1 = 1 := hwx'
        have hY1 : Y.r1 = 1 := hwY'
        by_cases hid : i = dim
        · by_cases hj : x.m ≤ j
          · have hj' : ¬ (j < x.m) := by omega
            simp [cat2Go, cat2Core, chain, tIdx, maskCore, catOK, catRest, off, sumTo, hx1, hY1, hid, hj, hj']
          · have hj' : j < x.m := by omega
            simp [cat2Go, cat2Core, chain, tIdx, maskCore, catOK, off, sumTo, hx1, hid, hj, hj']
        · by_cases hj : j < x.m
          · simp [cat2Go, cat2Core, chain, tIdx, maskCore, catOK, catRest, off, sumTo, hx1, hY1, hid, hj]
          · simp [cat2Go, cat2Core, chain, tIdx, maskCore, catOK, catRest, off, sumTo, hx1, hY1, hid, hj]
      | cons x' xs' =>
        match k, Ys, js, hlx, hlY, hli with
        | k'+1, Y' :: Ys', j' :: js', hlx, hlY, hli =>
          have hlx' : (x' :: xs').length = k' + 1 := by simpa using hlx
          have hlY' : (Y' :: Ys').length = k' + 1 := by simpa using hlY
          have hli' : (j' :: js').length = k' + 1 := by simpa using hli
          have IH := ih (Y' :: Ys') (j' :: js') (by simp) (k' + 1) (i + 1) x.r1 Y.r1 hlx' hlY' hli' hwx' hwY'
          have hi1 : ((i + 1 == 0) = false) := by simp
          simp only [hi1, off] at IH
          have e : cat2Go dim (k' + 1 + 1) i (x :: x' :: xs') (Y :: Y' :: Ys') =
              cat2Core (i == 0) false (i == dim) x Y ::
                cat2Go dim (k' + 1) (i + 1) (x' :: xs') (Y' :: Ys') := by
            simp [cat2Go]
          rw [e]
          have et : tIdx (j :: j' :: js') = (j, 0) :: tIdx (j' :: js') := rfl
          rw [et]
          simp only [chain]
          show sumTo (x.r1 + Y.r1) _ = _
          rw [sumTo_add]
          congr 1
          · -- x block
            have em : (x :: x' :: xs').map maskCore = maskCore x :: (x' :: xs').map maskCore := rfl
            rw [em]
            simp only [chain]
            by_cases ha : a < x.r0
            · rw [if_pos ha]
              show _ = sumTo x.r1 _
              apply sumTo_congr; intro b hb
              rw [IH b]
              have hb2 : ¬ (x.r1 ≤ b) := by omega
              by_cases hj : j < x.m
              · simp [cat2Core, maskCore, off, ha, hb, hb2, hj]
              · simp [cat2Core, maskCore, off, ha, hb, hb2, hj]
            · rw [if_neg ha]
              apply sumTo_eq_zero; intro b hb
              have hb2 : ¬ (x.r1 ≤ b) := by omega
              simp [cat2Core, off, ha, hb2]
          · -- Y block
            have hoff : ∀ b, b < Y.r1 →
                chain (cat2Go dim (k' + 1) (i + 1) (x' :: xs') (Y' :: Ys')) (tIdx (j' :: js')) (x.r1 + b) 0 =
                if catOK dim (i + 1) (x' :: xs') (j' :: js') then
                  chain (Y' :: Ys') (tIdx (catRest dim (i + 1) (x' :: xs') (j' :: js'))) b 0 else 0 := by
              intro b _
              rw [IH (x.r1 + b)]
              have h1 : ¬ (x.r1 + b < x.r1) := by omega
              simp [h1]
            have ecat : catOK dim i (x :: x' :: xs') (j :: j' :: js') =
                ((i != dim || decide (x.m ≤ j)) && catOK dim (i + 1) (x' :: xs') (j' :: js')) := rfl
            by_cases ha : off (i == 0) x.r0 ≤ a
            · rw [if_pos ha]
              by_cases hok : (i != dim || decide (x.m ≤ j)) = true
              · by_cases hok2 : catOK dim (i + 1) (x' :: xs') (j' :: js') = true
                · have hokk : catOK dim i (x :: x' :: xs') (j :: j' :: js') = true := by
                    rw [ecat, Bool.and_eq_true]; exact ⟨hok, hok2⟩
                  rw [if_pos hokk]
                  have er : catRest dim i (x :: x' :: xs') (j :: j' :: js') =
                      (if i = dim then j - x.m else j) :: catRest dim (i + 1) (x' :: xs') (j' :: js') := rfl
                  rw [er]
                  have et2 : ∀ q l, tIdx (q :: l) = (q, 0) :: tIdx l := fun _ _ => rfl
                  rw [et2 (if i = dim then j - x.m else j)]
                  simp only [chain]
                  apply sumTo_congr; intro b hb
                  rw [hoff b hb, if_pos hok2]
                  have hb1 : ¬ (x.r1 + b < x.r1) := by omega
                  by_cases hid : i = dim
                  · have hj : x.m ≤ j := by simpa [hid] using hok
                    simp [cat2Core, off, hb1, hid, hj]
                    intro hh
                    have : ¬ (a < off (i == 0) x.r0) := by omega
                    exact absurd (by simpa [off, hid] using hh) this
                  · simp [cat2Core, off, hb1, hid]
                    intro hh
                    have : ¬ (a < off (i == 0) x.r0) := by omega
                    exact absurd (by simpa [off, hid] using hh) this
                · have hokk : ¬ (catOK dim i (x :: x' :: xs') (j :: j' :: js') = true) := by
                    rw [ecat, Bool.and_eq_true]; exact fun h => hok2 h.2
                  rw [if_neg hokk]
                  apply sumTo_eq_zero; intro b hb
                  rw [hoff b hb, if_neg hok2]; ring
              · have hokk : ¬ (catOK dim i (x :: x' :: xs') (j :: j' :: js') = true) := by
                  rw [ecat, Bool.and_eq_true]; exact fun h => hok h.1
                rw [if_neg hokk]
                apply sumTo_eq_zero; intro b hb
                have hb1 : ¬ (x.r1 + b < x.r1) := by omega
                have hid : i = dim := by
                  by_contra hne; exact hok (by simp [hne])
                have hj : ¬ (x.m ≤ j) := by
                  intro hj; exact hok (by simp [hj])
                simp [cat2Core, hb1, hid, hj]
            · rw [if_neg ha]
              apply sumTo_eq_zero; intro b hb
              have hb1 : ¬ (x.r1 + b < x.r1) := by omega
              simp [cat2Core, hb1, ha]

theorem WF_cat2Go (dim : Nat) (xs Ys : List (Core α)) (hne : xs ≠ []) :
    ∀ (n i rx rY : Nat), xs.length = n → Ys.length = n → WF xs rx → WF Ys rY →
      WF (cat2Go dim n i xs Ys) (if i = 0 then 1 else rx + rY) := by
  induction xs generalizing Ys with
  | nil => exact absurd rfl hne
  | cons x xs ih =>
    intro n i rx rY hlx hlY hwx hwY
    match n, Ys, hlx, hlY with
    | k+1, Y :: Ys, hlx, hlY =>
      obtain ⟨hx0, hwx'⟩ := hwx
      obtain ⟨hY0, hwY'⟩ := hwY
      cases xs with
      | nil =>
        have hk : k = 0 := by simpa using hlx.symm
        subst hk
        refine ⟨?_, ?_⟩
        · by_cases hi : i = 0 <;> simp [cat2Core, hi, hx0, hY0]
        · simp [cat2Go, cat2Core, WF]
      | cons x' xs' =>
        match k, Ys, hlx, hlY with
        | k'+1, Y' :: Ys', hlx, hlY =>
          have hlx' : (x' :: xs').length = k' + 1 := by simpa using hlx
          have hlY' : (Y' :: Ys').length = k' + 1 := by simpa using hlY
          have IH := ih (Y' :: Ys') (by simp) (k' + 1) (i + 1) x.r1 Y.r1 hlx' hlY' hwx' hwY'
          have e : cat2Go dim (k' + 1 + 1) i (x :: x' :: xs') (Y :: Y' :: Ys') =
              cat2Core (i == 0) false (i == dim) x Y ::
                cat2Go dim (k' + 1) (i + 1) (x' :: xs') (Y' :: Ys') := by
            simp [cat2Go]
          rw [e]
          refine ⟨?_, ?_⟩
          · by_cases hi : i = 0 <;> simp [cat2Core, hi, hx0, hY0]
          · simpa [cat2Core] using IH

theorem length_cat2Go (dim : Nat) (xs Ys : List (Core α)) :
    ∀ (n i : Nat), xs.length = n → Ys.length = n → (cat2Go dim n i xs Ys).length = n := by
  induction xs generalizing Ys with
  | nil => intro n i h _; subst h; cases Ys <;> simp [cat2Go]
  | cons x xs ih =>
    intro n i hlx hlY
    match n, Ys, hlx, hlY with
    | k+1, Y :: Ys, hlx, hlY =>
      simp only [cat2Go, List.length_cons]
      rw [ih Ys k (i + 1) (by simpa using hlx) (by simpa using hlY)]

/-- `cat` of no operands: all-zero block cores -/
theorem WF_catGo_nil (dim : Nat) : ∀ (n i : Nat), 1 ≤ n →
    WF (catGo dim n i ([] : List (List (Core α)))) (if i = 0 then 1 else 0) := by
  intro n
  induction n with
  | zero => intro i h; omega
  | succ k ih =>
    intro i _
    simp only [catGo, heads, List.map_nil]
    refine ⟨?_, ?_⟩
    · by_cases hi : i = 0 <;> simp [catCore, hi, sumNat]
    · cases k with
      | zero => simp [catGo, catCore, WF]
      | succ k' =>
        have := ih (i + 1) (by omega)
        simpa [catCore, sumNat] using this

theorem length_catGo_nil (dim : Nat) : ∀ (n i : Nat),
    (catGo dim n i ([] : List (List (Core α)))).length = n := by
  intro n
  induction n with
  | zero => intro i; simp [catGo]
  | succ k ih => intro i; simp [catGo, heads, ih (i + 1)]

theorem chain_catGo_nil (dim : Nat) (n i : Nat) (hn : 1 ≤ n) (ij : List (Nat × Nat)) (a b : Nat) :
    chain (catGo dim n i ([] : List (List (Core α)))) ij a b = 0 := by
  match n, hn with
  | k+1, _ =>
    simp only [catGo, heads, List.map_nil]
    match ij with
    | [] => simp [chain]
    | p :: ps =>
      simp only [chain]
      apply sumTo_eq_zero; intro c _
      simp [catCore, catGet]

theorem WF_catGo (dim d : Nat) (hd : 1 ≤ d) (ts : List (List (Core α)))
    (hlen : ∀ t ∈ ts, t.length = d) (hwf : ∀ t ∈ ts, WF t 1) :
    WF (catGo dim d 0 ts) 1 ∧ (catGo dim d 0 ts).length = d := by
  induction ts with
  | nil =>
    exact ⟨by simpa using WF_catGo_nil (α := α) dim d 0 hd, length_catGo_nil dim d 0⟩
  | cons t ts ih =>
    obtain ⟨hw, hl⟩ := ih (fun u hu => hlen u (List.mem_cons_of_mem _ hu))
      (fun u hu => hwf u (List.mem_cons_of_mem _ hu))
    have ht := hlen t List.mem_cons_self
    have hne : t ≠ [] := by intro h; subst h; simp at ht; omega
    rw [catGo_cons dim d 0 t ts ht (fun u hu => hlen u (List.mem_cons_of_mem _ hu))]
    refine ⟨?_, length_cat2Go dim t _ d 0 ht hl⟩
    have := WF_cat2Go dim t (catGo dim d 0 ts) hne d 0 1 1 ht hl (hwf t List.mem_cons_self) hw
    simpa using this

/-- masked train = the train itself on in-range indices -/
theorem chain_mask_eq (xs : List (Core α)) (is : List Nat) (hil : is.length = xs.length)
    (hin : ∀ q, q < xs.length → is.getD q 0 < (modesM xs).getD q 0) :
    ∀ a b, chain (xs.map maskCore) (tIdx is) a b = chain xs (tIdx is) a b := by
  induction xs generalizing is with
  | nil => intro a b; simp [chain]
  | cons x xs ih =>
    match is, hil with
    | i :: is, hil =>
      intro a b
      have hil' : is.length = xs.length := by simpa using hil
      have h0 : i < x.m := by simpa [modesM] using hin 0 (by simp)
      have hin' : ∀ q, q < xs.length → is.getD q 0 < (modesM xs).getD q 0 := by
        intro q hq
        have := hin (q + 1) (by simpa using hq)
        simpa [modesM] using this
      have IH := ih is hil' hin'
      simp only [tIdx] at IH
      simp only [List.map_cons, chain, tIdx]
      apply sumTo_congr; intro k _
      rw [IH k b]
      simp [maskCore, h0]

/-- masked train vanishes as soon as one index is out of range -/
theorem chain_mask_zero (xs : List (Core α)) (is : List Nat) (hil : is.length = xs.length)
    (q : Nat) (hq : q < xs.length) (hout : (modesM xs).getD q 0 ≤ is.getD q 0) :
    ∀ a b, chain (xs.map maskCore) (tIdx is) a b = 0 := by
  induction xs generalizing is q with
  | nil => simp at hq
  | cons x xs ih =>
    match is, hil with
    | i :: is, hil =>
      intro a b
      have hil' : is.length = xs.length := by simpa using hil
      simp only [List.map_cons, chain, tIdx]
      apply sumTo_eq_zero; intro k _
      cases q with
      | zero =>
        have h0 : ¬ (i < x.m) := by
          have : x.m ≤ i := by simpa [modesM] using hout
          omega
        simp [maskCore, h0]
      | succ q =>
        have IH := ih is hil' q (by simpa using hq) (by simpa [modesM] using hout) k b
        simp only [tIdx] at IH
        rw [IH]; ring

omit [CommRing α] in
/-- past the concatenated mode nothing changes -/
theorem catOK_catRest_past (dim : Nat) (xs : List (Core α)) (is : List Nat) (hil : is.length = xs.length) :
    ∀ i, dim < i → catOK dim i xs is = true ∧ catRest dim i xs is = is := by
  induction xs generalizing is with
  | nil => intro i _; match is, hil with | [], _ => simp [catOK, catRest]
  | cons x xs ih =>
    match is, hil with
    | j :: js, hil =>
      intro i hi
      have hne : i ≠ dim := by omega
      obtain ⟨h1, h2⟩ := ih js (by simpa using hil) (i + 1) (by omega)
      simp [catOK, catRest, hne, h1, h2]

omit [CommRing α] in
/-- index form of `catOK` / `catRest` -/
theorem catOK_catRest_at (dim : Nat) (xs : List (Core α)) (is : List Nat) (hil : is.length = xs.length) :
    ∀ i, i ≤ dim → dim - i < xs.length →
      catOK dim i xs is = decide ((modesM xs).getD (dim - i) 0 ≤ is.getD (dim - i) 0) ∧
      catRest dim i xs is = is.set (dim - i) (is.getD (dim - i) 0 - (modesM xs).getD (dim - i) 0) := by
  induction xs generalizing is with
  | nil => intro i _ h; simp at h
  | cons x xs ih =>
    match is, hil with
    | j :: js, hil =>
      intro i hi hlt
      have hil' : js.length = xs.length := by simpa using hil
      by_cases hid : i = dim
      · subst hid
        obtain ⟨h1, h2⟩ := catOK_catRest_past i xs js hil' (i + 1) (by omega)
        simp [catOK, catRest, h1, h2, modesM]
      · have e : dim - i = (dim - (i + 1)) + 1 := by omega
        obtain ⟨h1, h2⟩ := ih js hil' (i + 1) (by omega) (by simp at hlt; omega)
        rw [e]
        simp [catOK, catRest, hid, h1, h2, modesM]

/-- offset of operand `p` on the concatenated mode: `Σ_{q<p} ts[q].modes[dim]` -/
def catOffset (dim : Nat) (ts : List (List (Core α))) (p : Nat) : Nat :=
  sumNat ((ts.take p).map (fun t => (modesM t).getD dim 0))

/-- entry of the k-ary `cat` = entry of the operand selected by the concatenated index -/
theorem full_catGo (dim d : Nat) (hd : dim < d) (ts : List (List (Core α))) :
    ∀ (is : List Nat) (p : Nat) (hp : p < ts.length),
      (∀ t ∈ ts, t.length = d) → (∀ t ∈ ts, WF t 1) → is.length = d →
      catOffset dim ts p ≤ is.getD dim 0 →
      is.getD dim 0 < catOffset dim ts p + (modesM ts[p]).getD dim 0 →
      (∀ q, q < d → q ≠ dim → is.getD q 0 < (modesM ts[p]).getD q 0) →
      full (catGo dim d 0 ts) (tIdx is) =
        full ts[p] (tIdx (is.set dim (is.getD dim 0 - catOffset dim ts p))) := by
  induction ts with
  | nil => intro is p hp; simp at hp
  | cons t ts ih =>
    intro is p hp hlen hwf hil hlo hhi hin
    have hlen' : ∀ u ∈ ts, u.length = d := fun u hu => hlen u (List.mem_cons_of_mem _ hu)
    have hwf' : ∀ u ∈ ts, WF u 1 := fun u hu => hwf u (List.mem_cons_of_mem _ hu)
    have ht := hlen t List.mem_cons_self
    have hwt := hwf t List.mem_cons_self
    have hne : t ≠ [] := by intro h; subst h; simp at ht; omega
    obtain ⟨hwY, hlY⟩ := WF_catGo dim d (by omega) ts hlen' hwf'
    have hilt : is.length = t.length := by omega
    obtain ⟨hok, hrest⟩ := catOK_catRest_at dim t is hilt 0 (by omega) (by omega)
    simp only [Nat.sub_zero] at hok hrest
    rw [catGo_cons dim d 0 t ts ht hlen']
    unfold full
    rw [chain_cat2Go dim t (catGo dim d 0 ts) is hne d 0 1 1 ht hlY hil hwt hwY 0]
    simp only [Nat.lt_one_iff, if_true, beq_self_eq_true, off, Nat.zero_le, Nat.sub_zero]
    cases p with
    | zero =>
      have hoff0 : catOffset dim (t :: ts) 0 = 0 := by simp [catOffset, sumNat]
      rw [hoff0] at hlo hhi ⊢
      simp only [List.getElem_cons_zero, Nat.zero_add] at hhi hin
      have hnot : ¬ ((modesM t).getD dim 0 ≤ is.getD dim 0) := by omega
      rw [hok]
      simp only [hnot, decide_false, Bool.false_eq_true, if_false, add_zero]
      have hall : ∀ q, q < t.length → is.getD q 0 < (modesM t).getD q 0 := by
        intro q hq
        by_cases hqd : q = dim
        · subst hqd; exact hhi
        · exact hin q (by omega) hqd
      rw [chain_mask_eq t is hilt hall 0 0]
      have hd' : dim < is.length := by omega
      have : is.set dim (is.getD dim 0 - 0) = is := by
        simp [List.getD_eq_getElem?_getD, hd']
      rw [this]
      rfl
    | succ p =>
      have hp' : p < ts.length := by simpa using hp
      have hoffS : catOffset dim (t :: ts) (p + 1) = (modesM t).getD dim 0 + catOffset dim ts p := by
        simp [catOffset, sumNat_cons]
      rw [hoffS] at hlo hhi ⊢
      simp only [List.getElem_cons_succ] at hhi hin ⊢
      have hge : (modesM t).getD dim 0 ≤ is.getD dim 0 := by omega
      rw [chain_mask_zero t is hilt dim (by omega) hge 0 0, hok]
      simp only [hge, decide_true, if_true, zero_add]
      rw [hrest]
      have hd' : dim < is.length := by omega
      have hg1 : (is.set dim (is.getD dim 0 - (modesM t).getD dim 0)).getD dim 0
          = is.getD dim 0 - (modesM t).getD dim 0 := by
        simp [List.getD_eq_getElem?_getD, hd']
      have hg2 : ∀ q, q ≠ dim → (is.set dim (is.getD dim 0 - (modesM t).getD dim 0)).getD q 0
          = is.getD q 0 := by
        intro q hq
        simp only [List.getD_eq_getElem?_getD]
        rw [List.getElem?_set_ne (by omega)]
      have IH := ih (is.set dim (is.getD dim 0 - (modesM t).getD dim 0)) p hp' hlen' hwf'
        (by simpa using hil) (by rw [hg1]; omega) (by rw [hg1]; omega)
        (by intro q hq hqd; rw [hg2 q hqd]; exact hin q hq hqd)
      unfold full at IH
      rw [IH, hg1, List.set_set, Nat.sub_add_eq]


/-! ### `pad` (operator branch) -/

theorem sumTo_three (n : Nat) (f : Nat → α) :
    sumTo (1 + n + 1) f = f 0 + sumTo n (fun k => f (1 + k)) + f (n + 1) := by
  rw [sumTo_add, sumTo_add, sumTo_one, sumTo_one]
  simp [Nat.add_comm]

theorem padCoreM_row0 (c : Core α) (hasR : Bool) (p0 p1 : Nat) (v : α) (i j b : Nat) :
    (padCoreM c true hasR p0 p1 v).get 0 i j b =
      if b = 0 ∧ i < p0 ∧ j < p0 then (if i = j then v else 0) else 0 := by
  simp [padCoreM]
  intro h; omega

theorem padCoreM_rowLast (c : Core α) (hasR : Bool) (p0 p1 : Nat) (v : α) (i j b : Nat) :
    (padCoreM c true hasR p0 p1 v).get (c.r0 + 1) i j b =
      if b = (if hasR then 1 else 0) + c.r1 + (if hasR then 1 else 0) - 1 ∧ p0 + c.m ≤ i ∧ p0 + c.n ≤ j
      then (if i - (p0 + c.m) = j - (p0 + c.n) then v else 0) else 0 := by
  have h1 : c.r0 + 1 = 1 + c.r0 + 1 - 1 := by omega
  simp [padCoreM, h1]

theorem padCoreM_rowMid (c : Core α) (hasR : Bool) (p0 p1 : Nat) (v : α) (a i j b : Nat) (ha : a < c.r0) :
    (padCoreM c true hasR p0 p1 v).get (1 + a) i j b =
      if (if hasR then 1 else 0) ≤ b ∧ b < (if hasR then 1 else 0) + c.r1 ∧
          p0 ≤ i ∧ i < p0 + c.m ∧ p0 ≤ j ∧ j < p0 + c.n
      then c.get a (i - p0) (j - p0) (b - (if hasR then 1 else 0)) else 0 := by
  have h1 : ¬ (1 + a = 1 + c.r0 + 1 - 1) := by omega
  have h2 : 1 + a < 1 + c.r0 := by omega
  simp [padCoreM, h2]
  intro h; omega

theorem ite3 {A B C : Prop} [Decidable A] [Decidable B] [Decidable C]
    (hAB : ¬ (A ∧ B)) (hAC : ¬ (A ∧ C)) (hBC : ¬ (B ∧ C)) (x y z : α) :
    (if A then x else if B then y else if C then z else 0) =
      (if B then y else 0) + (if A then x else 0) + (if C then z else 0) := by
  by_cases hA : A <;> by_cases hB : B <;> by_cases hC : C <;> simp_all

theorem padCoreM_first (c : Core α) (hasR : Bool) (p0 p1 : Nat) (v : α) (i j b : Nat) (h0 : c.r0 = 1) :
    (padCoreM c false hasR p0 p1 v).get 0 i j b =
      (if b = 0 ∧ i < p0 ∧ j < p0 then (if i = j then v else 0) else 0) +
      (if b = (if hasR then 1 else 0) + c.r1 + (if hasR then 1 else 0) - 1 ∧ p0 + c.m ≤ i ∧ p0 + c.n ≤ j
        then (if i - (p0 + c.m) = j - (p0 + c.n) then v else 0) else 0) +
      (if (if hasR then 1 else 0) ≤ b ∧ b < (if hasR then 1 else 0) + c.r1 ∧
          p0 ≤ i ∧ i < p0 + c.m ∧ p0 ≤ j ∧ j < p0 + c.n
        then c.get 0 (i - p0) (j - p0) (b - (if hasR then 1 else 0)) else 0) := by
  cases hasR <;> simp [padCoreM, h0] <;> exact ite3 (by omega) (by omega) (by omega) _ _ _

/-- forward form of `padM`'s core list: position `k`, order `d`; the last core carries `v`, the
    others `1` -/
def padFwdM : List (Core α) → List (Nat × Nat) → Nat → Nat → α → List (Core α)
  | c :: cs, p :: ps, k, d, v =>
    padCoreM c (decide (k > 0)) (decide (k + 1 < d)) p.1 p.2 (if cs.isEmpty then v else 1)
      :: padFwdM cs ps (k + 1) d v
  | _, _, _, _, _ => []

theorem padFwdM_snoc (d : Nat) (v : α) (A : List (Core α)) (c : Core α) (p : Nat × Nat) :
    ∀ (Q : List (Nat × Nat)) (s : Nat), A.length = Q.length →
      padFwdM (A ++ [c]) (Q ++ [p]) s d v =
        padFwdM A Q s d 1 ++
          [padCoreM c (decide (s + A.length > 0)) (decide (s + A.length + 1 < d)) p.1 p.2 v] := by
  induction A with
  | nil => intro Q s h; match Q, h with | [], _ => simp [padFwdM]
  | cons a A ih =>
    intro Q s h
    match Q, h with
    | q :: Q, h =>
      have h' : A.length = Q.length := by simpa using h
      simp only [List.cons_append, padFwdM, ih Q (s + 1) h', List.length_cons]
      have e1 : s + 1 + A.length = s + (A.length + 1) := by omega
      simp [e1]

theorem padRevM_eq (d : Nat) : ∀ (L : List (Core α)) (P : List (Nat × Nat)) (k : Nat) (v : α),
    L.length = P.length → L.length ≤ k + 1 →
      (padRevM L P k d v).reverse = padFwdM L.reverse P.reverse (k + 1 - L.length) d v := by
  intro L
  induction L with
  | nil => intro P k v h _; match P, h with | [], _ => simp [padRevM, padFwdM]
  | cons c L ih =>
    intro P k v h hk
    match P, h with
    | p :: P, h =>
      have h' : L.length = P.length := by simpa using h
      simp only [padRevM, List.reverse_cons, List.length_cons]
      rw [padFwdM_snoc d v L.reverse c p P.reverse (k + 1 - (L.length + 1)) (by simpa using h')]
      cases L with
      | nil =>
        match P, h' with
        | [], _ => simp [padRevM, padFwdM]
      | cons c' L' =>
        have hk1 : 1 ≤ k := by simp at hk; omega
        rw [ih P (k - 1) 1 h' (by simp at hk ⊢; omega)]
        have e1 : k - 1 + 1 - (c' :: L').length = k + 1 - ((c' :: L').length + 1) := by omega
        have e2 : k + 1 - ((c' :: L').length + 1) + (c' :: L').reverse.length = k := by
          simp at hk ⊢; omega
        rw [e1, e2]

theorem padM_eq (cs : List (Core α)) (ps : List (Nat × Nat)) (v : α) (h : cs.length = ps.length) :
    padM cs ps v = padFwdM cs ps 0 cs.length v := by
  unfold padM
  cases cs with
  | nil => match ps, h with | [], _ => simp [padRevM, padFwdM]
  | cons c cs =>
    have := padRevM_eq (c :: cs).length (c :: cs).reverse ps.reverse ((c :: cs).length - 1) v
      (by simpa using h) (by simp)
    rw [this]
    simp

/-- entry of the leading `v·I` block -/
def padBeforeM (ps ij : List (Nat × Nat)) : Prop :=
  ∀ t ∈ ps.zip ij, t.2.1 < t.1.1 ∧ t.2.2 < t.1.1 ∧ t.2.1 = t.2.2

/-- entry of the trailing `v·I` block -/
def padAfterM (cs : List (Core α)) (ps ij : List (Nat × Nat)) : Prop :=
  ∀ t ∈ cs.zip (ps.zip ij), t.2.1.1 + t.1.m ≤ t.2.2.1 ∧ t.2.1.1 + t.1.n ≤ t.2.2.2 ∧
    t.2.2.1 - (t.2.1.1 + t.1.m) = t.2.2.2 - (t.2.1.1 + t.1.n)

/-- entry of the original block -/
def padInsideM (cs : List (Core α)) (ps ij : List (Nat × Nat)) : Prop :=
  ∀ t ∈ cs.zip (ps.zip ij), t.2.1.1 ≤ t.2.2.1 ∧ t.2.2.1 < t.2.1.1 + t.1.m ∧
    t.2.1.1 ≤ t.2.2.2 ∧ t.2.2.2 < t.2.1.1 + t.1.n

instance (ps ij : List (Nat × Nat)) : Decidable (padBeforeM ps ij) := by
  unfold padBeforeM; infer_instance
instance (cs : List (Core α)) (ps ij : List (Nat × Nat)) : Decidable (padAfterM cs ps ij) := by
  unfold padAfterM; infer_instance
instance (cs : List (Core α)) (ps ij : List (Nat × Nat)) : Decidable (padInsideM cs ps ij) := by
  unfold padInsideM; infer_instance

def padShiftM (ps ij : List (Nat × Nat)) : List (Nat × Nat) :=
  List.zipWith (fun p q => (q.1 - p.1, q.2 - p.1)) ps ij

theorem padBeforeM_cons (p q : Nat × Nat) (ps ij : List (Nat × Nat)) :
    padBeforeM (p :: ps) (q :: ij) ↔ (q.1 < p.1 ∧ q.2 < p.1 ∧ q.1 = q.2) ∧ padBeforeM ps ij := by
  simp [padBeforeM]

omit [CommRing α] in
theorem padAfterM_cons (c : Core α) (cs : List (Core α)) (p q : Nat × Nat) (ps ij : List (Nat × Nat)) :
    padAfterM (c :: cs) (p :: ps) (q :: ij) ↔
      (p.1 + c.m ≤ q.1 ∧ p.1 + c.n ≤ q.2 ∧ q.1 - (p.1 + c.m) = q.2 - (p.1 + c.n)) ∧ padAfterM cs ps ij := by
  simp [padAfterM]

omit [CommRing α] in
theorem padInsideM_cons (c : Core α) (cs : List (Core α)) (p q : Nat × Nat) (ps ij : List (Nat × Nat)) :
    padInsideM (c :: cs) (p :: ps) (q :: ij) ↔
      (p.1 ≤ q.1 ∧ q.1 < p.1 + c.m ∧ p.1 ≤ q.2 ∧ q.2 < p.1 + c.n) ∧ padInsideM cs ps ij := by
  simp [padInsideM]

theorem chain_padFwdM (d : Nat) (v : α) (cs : List (Core α)) (hne : cs ≠ []) :
    ∀ (ps ij : List (Nat × Nat)) (s rx : Nat), cs.length = ps.length → ij.length = cs.length →
      1 ≤ s → s + cs.length = d → WF cs rx →
      chain (padFwdM cs ps s d v) ij 0 0 = (if padBeforeM ps ij then v else 0) ∧
      chain (padFwdM cs ps s d v) ij (rx + 1) 0 = (if padAfterM cs ps ij then v else 0) ∧
      ∀ a, a < rx → chain (padFwdM cs ps s d v) ij (1 + a) 0 =
        if padInsideM cs ps ij then chain cs (padShiftM ps ij) a 0 else 0 := by
  induction cs with
  | nil => exact absurd rfl hne
  | cons c cs ih =>
    intro ps ij s rx hlp hli hs hsd hw
    match ps, ij, hlp, hli with
    | p :: ps, q :: ij, hlp, hli =>
      obtain ⟨h0, hw'⟩ := hw
      subst h0
      cases cs with
      | nil =>
        have hps : ps = [] := by
          cases ps with
          | nil => rfl
          | cons _ _ => simp at hlp
        have hij : ij = [] := by
          cases ij with
          | nil => rfl
          | cons _ _ => simp at hli
        subst hps hij
        have hc1 : c.r1 = 1 := hw'
        have hL : decide (s > 0) = true := by simp; omega
        have hR : decide (s + 1 < d) = false := by simp at hsd ⊢; omega
        have e : padFwdM [c] [p] s d v = [padCoreM c true false p.1 p.2 v] := by
          simp [padFwdM, hL, hR]
        rw [e]
        have er : (padCoreM c true false p.1 p.2 v).r1 = 1 := by simp [padCoreM, hc1]
        simp only [chain, er, sumTo_one]
        refine ⟨?_, ?_, ?_⟩
        · rw [padCoreM_row0]
          simp [padBeforeM, ite_and]
        · rw [padCoreM_rowLast]
          simp [padAfterM, hc1, ite_and]
        · intro a ha
          rw [padCoreM_rowMid _ _ _ _ _ _ _ _ _ ha]
          simp [padInsideM, padShiftM, chain, hc1, sumTo, ite_and]
      | cons c' cs' =>
        have hlp' : (c' :: cs').length = ps.length := by simpa using hlp
        have hli' : ij.length = (c' :: cs').length := by simpa using hli
        obtain ⟨IHA, IHB, IHC⟩ := ih (by simp) ps ij (s + 1) c.r1 hlp' hli' (by omega)
          (by simp at hsd ⊢; omega) hw'
        have hL : decide (s > 0) = true := by simp; omega
        have hR : decide (s + 1 < d) = true := by simp at hsd ⊢; omega
        have e : padFwdM (c :: c' :: cs') (p :: ps) s d v =
            padCoreM c true true p.1 p.2 1 :: padFwdM (c' :: cs') ps (s + 1) d v := by
          simp [padFwdM, hL, hR]
        rw [e]
        have er : (padCoreM c true true p.1 p.2 (1:α)).r1 = 1 + c.r1 + 1 := by simp [padCoreM]
        simp only [chain, er]
        refine ⟨?_, ?_, ?_⟩
        · rw [sumTo_three]
          simp only [padCoreM_row0, IHA]
          rw [sumTo_eq_zero (by intro k _; simp)]
          simp only [padBeforeM_cons]
          by_cases hT : padBeforeM ps ij <;> by_cases h1 : q.1 < p.1 <;> by_cases h2 : q.2 < p.1 <;>
            by_cases h3 : q.1 = q.2 <;> simp [*]
        · rw [sumTo_three]
          simp only [padCoreM_rowLast, IHB]
          rw [sumTo_eq_zero (by intro k _; simp; intro h; omega)]
          simp only [padAfterM_cons]
          have e0 : ¬ (0 = 1 + c.r1) := by omega
          have e1 : c.r1 + 1 = 1 + c.r1 := by omega
          by_cases hT : padAfterM (c' :: cs') ps ij <;> by_cases h1 : p.1 + c.m ≤ q.1 <;>
            by_cases h2 : p.1 + c.n ≤ q.2 <;>
            by_cases h3 : q.1 - (p.1 + c.m) = q.2 - (p.1 + c.n) <;> simp [*]
        · intro a ha
          rw [sumTo_three]
          simp only [padCoreM_rowMid _ _ _ _ _ _ _ _ _ ha, if_true]
          have hmid : ∀ k, k < c.r1 →
              chain (padFwdM (c' :: cs') ps (s + 1) d v) ij (1 + k) 0 =
                if padInsideM (c' :: cs') ps ij then chain (c' :: cs') (padShiftM ps ij) k 0 else 0 := IHC
          have hz1 : ¬ (1 ≤ 0) := by omega
          have hz2 : ¬ (c.r1 + 1 < 1 + c.r1) := by omega
          simp only [hz1, hz2, false_and, and_false, if_false, zero_mul, zero_add, add_zero]
          rw [sumTo_congr (fun k hk => by rw [hmid k hk])]
          simp only [padInsideM_cons]
          have esh : padShiftM (p :: ps) (q :: ij) = (q.1 - p.1, q.2 - p.1) :: padShiftM ps ij := rfl
          rw [esh]
          simp only [chain]
          by_cases hH : p.1 ≤ q.1 ∧ q.1 < p.1 + c.m ∧ p.1 ≤ q.2 ∧ q.2 < p.1 + c.n
          · by_cases hT : padInsideM (c' :: cs') ps ij
            · rw [if_pos ⟨hH, hT⟩]
              apply sumTo_congr; intro k hk
              have hk1 : 1 ≤ 1 + k ∧ 1 + k < 1 + c.r1 ∧ p.1 ≤ q.1 ∧ q.1 < p.1 + c.m ∧ p.1 ≤ q.2 ∧ q.2 < p.1 + c.n :=
                ⟨by omega, by omega, hH⟩
              rw [if_pos hk1, if_pos hT]
              simp
            · rw [if_neg (fun h => hT h.2)]
              apply sumTo_eq_zero; intro k hk
              rw [if_neg hT]; ring
          · rw [if_neg (fun h => hH h.1)]
            apply sumTo_eq_zero; intro k hk
            have hk1 : ¬ (1 ≤ 1 + k ∧ 1 + k < 1 + c.r1 ∧ p.1 ≤ q.1 ∧ q.1 < p.1 + c.m ∧ p.1 ≤ q.2 ∧ q.2 < p.1 + c.n) :=
              fun h => hH h.2.2
            rw [if_neg hk1]; ring

theorem full_padM_gen (cs : List (Core α)) (ps ij : List (Nat × Nat)) (v : α) (hne : cs ≠ [])
    (hlp : cs.length = ps.length) (hli : ij.length = cs.length) (hw : WF cs 1) :
    full (padM cs ps v) ij =
      (if padBeforeM ps ij then v else 0) + (if padAfterM cs ps ij then v else 0) +
      (if padInsideM cs ps ij then full cs (padShiftM ps ij) else 0) := by
  rw [padM_eq cs ps v hlp]
  unfold full
  match cs, ps, ij, hne, hlp, hli with
  | c :: cs, p :: ps, q :: ij, _, hlp, hli =>
    obtain ⟨h0, hw'⟩ := hw
    cases cs with
    | nil =>
      have hps : ps = [] := by
        cases ps with
        | nil => rfl
        | cons _ _ => simp at hlp
      have hij : ij = [] := by
        cases ij with
        | nil => rfl
        | cons _ _ => simp at hli
      subst hps hij
      have hc1 : c.r1 = 1 := hw'
      have e : padFwdM [c] [p] 0 [c].length v = [padCoreM c false false p.1 p.2 v] := by
        simp [padFwdM]
      rw [e]
      have er : (padCoreM c false false p.1 p.2 v).r1 = 1 := by simp [padCoreM, hc1]
      simp only [chain, er, sumTo_one]
      rw [padCoreM_first _ _ _ _ _ _ _ _ h0]
      simp [padBeforeM, padAfterM, padInsideM, padShiftM, chain, hc1, sumTo, ite_and]
    | cons c' cs' =>
      have hlp' : (c' :: cs').length = ps.length := by simpa using hlp
      have hli' : ij.length = (c' :: cs').length := by simpa using hli
      obtain ⟨IHA, IHB, IHC⟩ := chain_padFwdM (c :: c' :: cs').length v (c' :: cs') (by simp) ps ij 1 c.r1
        hlp' hli' (by omega) (by simp; omega) hw'
      have e : padFwdM (c :: c' :: cs') (p :: ps) 0 (c :: c' :: cs').length v =
          padCoreM c false true p.1 p.2 1 :: padFwdM (c' :: cs') ps 1 (c :: c' :: cs').length v := by
        simp [padFwdM]
      rw [e]
      have er : (padCoreM c false true p.1 p.2 (1:α)).r1 = 1 + c.r1 + 1 := by simp [padCoreM]
      simp only [chain, er]
      rw [sumTo_three]
      simp only [padCoreM_first _ _ _ _ _ _ _ _ h0, if_true, IHA, IHB]
      have hz1 : ¬ (1 ≤ 0) := by omega
      have hz2 : ¬ (c.r1 + 1 < 1 + c.r1) := by omega
      have hz3 : ¬ (0 = 1 + c.r1 + 1 - 1) := by omega
      have hz4 : ¬ (c.r1 + 1 = 0) := by omega
      have hz5 : c.r1 + 1 = 1 + c.r1 + 1 - 1 := by omega
      simp only [hz1, hz2, hz3, hz4, false_and, and_false, if_false, zero_add, add_zero, true_and]
      have split3 : ∀ (X Y Z A B C : α), X = A → Z = B → Y = C → X + Y + Z = A + B + C := by
        intro X Y Z A B C h1 h2 h3; subst h1 h2 h3; ring
      apply split3
      · simp only [padBeforeM_cons]
        by_cases hT : padBeforeM ps ij <;> by_cases h1 : q.1 < p.1 <;> by_cases h2 : q.2 < p.1 <;>
          by_cases h3 : q.1 = q.2 <;> simp [*]
      · simp only [padAfterM_cons]
        have e1 : c.r1 + 1 = 1 + c.r1 := by omega
        by_cases hT : padAfterM (c' :: cs') ps ij <;> by_cases h1 : p.1 + c.m ≤ q.1 <;>
          by_cases h2 : p.1 + c.n ≤ q.2 <;>
          by_cases h3 : q.1 - (p.1 + c.m) = q.2 - (p.1 + c.n) <;> simp [*]
      · simp only [padInsideM_cons]
        have esh : padShiftM (p :: ps) (q :: ij) = (q.1 - p.1, q.2 - p.1) :: padShiftM ps ij := rfl
        rw [esh]
        simp only [chain]
        by_cases hH : p.1 ≤ q.1 ∧ q.1 < p.1 + c.m ∧ p.1 ≤ q.2 ∧ q.2 < p.1 + c.n
        · by_cases hT : padInsideM (c' :: cs') ps ij
          · have hHT : (p.1 ≤ q.1 ∧ q.1 < p.1 + c.m ∧ p.1 ≤ q.2 ∧ q.2 < p.1 + c.n) ∧
                padInsideM (c' :: cs') ps ij := ⟨hH, hT⟩
            rw [if_pos hHT]
            apply sumTo_congr; intro k hk
            have hk1 : 1 ≤ 1 + k ∧ 1 + k < 1 + c.r1 ∧ p.1 ≤ q.1 ∧ q.1 < p.1 + c.m ∧ p.1 ≤ q.2 ∧ q.2 < p.1 + c.n :=
              ⟨by omega, by omega, hH⟩
            have hk2 : ¬ (1 + k = 0 ∧ q.1 < p.1 ∧ q.2 < p.1) := by omega
            have hk3 : ¬ (1 + k = 1 + c.r1 + 1 - 1 ∧ p.1 + c.m ≤ q.1 ∧ p.1 + c.n ≤ q.2) := by omega
            rw [if_pos hk1, if_neg hk2, if_neg hk3, IHC k hk, if_pos hT]
            simp
          · have hHT : ¬ ((p.1 ≤ q.1 ∧ q.1 < p.1 + c.m ∧ p.1 ≤ q.2 ∧ q.2 < p.1 + c.n) ∧
                padInsideM (c' :: cs') ps ij) := fun h => hT h.2
            rw [if_neg hHT]
            apply sumTo_eq_zero; intro k hk
            rw [IHC k hk, if_neg hT]; ring
        · have hHT : ¬ ((p.1 ≤ q.1 ∧ q.1 < p.1 + c.m ∧ p.1 ≤ q.2 ∧ q.2 < p.1 + c.n) ∧
              padInsideM (c' :: cs') ps ij) := fun h => hH h.1
          rw [if_neg hHT]
          apply sumTo_eq_zero; intro k hk
          have hk1 : ¬ (1 ≤ 1 + k ∧ 1 + k < 1 + c.r1 ∧ p.1 ≤ q.1 ∧ q.1 < p.1 + c.m ∧ p.1 ≤ q.2 ∧ q.2 < p.1 + c.n) :=
            fun h => hH h.2.2
          have hk2 : ¬ (1 + k = 0 ∧ q.1 < p.1 ∧ q.2 < p.1) := by omega
          have hk3 : ¬ (1 + k = 1 + c.r1 + 1 - 1 ∧ p.1 + c.m ≤ q.1 ∧ p.1 + c.n ≤ q.2) := by omega
          rw [if_neg hk1, if_neg hk2, if_neg hk3]; ring

end TT
