import TTModel.Decomp
import TTLemmas.Sum
import Mathlib.Data.List.Forall2
import Mathlib.Tactic.Ring

/-!
Helper lemmas for the decomposition sweeps (`TTModel/Decomp.lean`): `prodNat` / `flatIdx` arithmetic,
re-association of nested `sumTo`s, prefix congruence of `chain`, and the chain invariants of
`toTTGo`, `lrOrthGo`, `roundGo`.  All helper names carry the `dc_` prefix.
-/
namespace TT.Decomp
open TT

variable {α : Type} [CommRing α]

/-! ### `prodNat`, `flatIdx` -/

theorem dc_foldl_mul (l : List Nat) (a : Nat) :
    l.foldl (· * ·) a = a * l.foldl (· * ·) 1 := by
  induction l generalizing a with
  | nil => simp
  | cons x xs ih =>
    simp only [List.foldl_cons]
    rw [ih (a * x), ih (1 * x)]; ring

theorem dc_prodNat_nil : prodNat [] = 1 := rfl

theorem dc_prodNat_cons (n : Nat) (ns : List Nat) : prodNat (n :: ns) = n * prodNat ns := by
  unfold prodNat
  simp only [List.foldl_cons]
  rw [dc_foldl_mul]; ring

theorem dc_prodNat_pos (ns : List Nat) (h : ∀ n ∈ ns, 0 < n) : 0 < prodNat ns := by
  induction ns with
  | nil => simp [dc_prodNat_nil]
  | cons n ns ih =>
    rw [dc_prodNat_cons]
    exact Nat.mul_pos (h n (by simp)) (ih (fun x hx => h x (by simp [hx])))

theorem dc_prodNat_div (n : Nat) (ns : List Nat) (hn : 0 < n) : prodNat (n :: ns) / n = prodNat ns := by
  rw [dc_prodNat_cons, Nat.mul_div_cancel_left _ hn]

theorem dc_flatIdx_cons (n : Nat) (ns : List Nat) (i : Nat) (is : List Nat) :
    flatIdx (n :: ns) (i :: is) = i * prodNat ns + flatIdx ns is := rfl

/-- an in-range multi-index has an in-range flat index -/
theorem dc_flatIdx_lt {is ns : List Nat} (h : List.Forall₂ (· < ·) is ns) :
    flatIdx ns is < prodNat ns := by
  induction h with
  | nil => simp [flatIdx, dc_prodNat_nil]
  | @cons i n is' ns' hin _ ih =>
    rw [dc_flatIdx_cons, dc_prodNat_cons]
    calc i * prodNat ns' + flatIdx ns' is' < i * prodNat ns' + prodNat ns' := by omega
      _ = (i + 1) * prodNat ns' := by ring
      _ ≤ n * prodNat ns' := Nat.mul_le_mul_right _ (by omega)

/-- in-range implies the mode sizes are positive -/
theorem dc_pos_of_inRange {is ns : List Nat} (h : List.Forall₂ (· < ·) is ns) : ∀ n ∈ ns, 0 < n := by
  induction h with
  | nil => simp
  | @cons i n is' ns' hin _ ih =>
    intro x hx
    rcases List.mem_cons.mp hx with rfl | hx
    · omega
    · exact ih x hx

/-- the `length` / `getElem` form of the in-range condition -/
theorem dc_inRange_of_get (is ns : List Nat) (hlen : is.length = ns.length)
    (h : ∀ k (h1 : k < is.length) (h2 : k < ns.length), is[k] < ns[k]) :
    List.Forall₂ (· < ·) is ns := by
  apply List.forall₂_iff_get.mpr
  refine ⟨hlen, ?_⟩
  intro k h1 h2
  simpa using h k h1 h2

theorem dc_tIdx_cons (i : Nat) (is : List Nat) : tIdx (i :: is) = (i, 0) :: tIdx is := rfl

theorem dc_merge_lt {a r i n : Nat} (ha : a < r) (hi : i < n) : a * n + i < r * n := by
  calc a * n + i < a * n + n := by omega
    _ = (a + 1) * n := by ring
    _ ≤ r * n := Nat.mul_le_mul_right _ (by omega)

/-! ### oracle contracts -/

/-- exact reconstruction for all matrices whose smaller dimension is at most `B` -/
def dc_ExactUpTo (o : Oracle α) (B : Nat) : Prop :=
  ∀ rows cols (C : Mat α) i j, i < rows → j < cols → min rows cols ≤ B →
    sumTo (o rows cols C).r (fun k => (o rows cols C).left i k * (o rows cols C).right k j) = C i j

theorem dc_exactUpTo_of_exact {o : Oracle α} (h : Exact o) (B : Nat) : dc_ExactUpTo o B :=
  fun rows cols C i j hi hj _ => h rows cols C i j hi hj

theorem dc_exact_of_exactUpTo {o : Oracle α} (h : ∀ B, dc_ExactUpTo o B) : Exact o :=
  fun rows cols C i j hi hj => h (min rows cols) rows cols C i j hi hj (Nat.le_refl _)

theorem dc_idOracle_upto (cap : Nat) : dc_ExactUpTo (idOracle (α := α) cap) cap := by
  intro rows cols C i j hi hj hcap
  unfold idOracle
  split_ifs with h
  · have hr : min rows cap = rows := by omega
    simp only [hr]
    rw [sumTo_single i hi]
    · simp
    · intro k _ hne
      have : ¬ (i = k) := fun e => hne e.symm
      simp [this]
  · have hr : min cols cap = cols := by omega
    simp only [hr]
    rw [sumTo_single j hj]
    · simp
    · intro k _ hne
      simp [hne]

/-! ### re-association of nested sums -/

theorem dc_sumTo_assoc (n m : Nat) (L : Nat → α) (R : Nat → Nat → α) (X : Nat → α) :
    sumTo n (fun k => L k * sumTo m (fun t => R k t * X t))
      = sumTo m (fun t => sumTo n (fun k => L k * R k t) * X t) := by
  simp only [sumTo_eq_sum, Finset.mul_sum, Finset.sum_mul]
  rw [Finset.sum_comm]
  apply Finset.sum_congr rfl; intro t _
  apply Finset.sum_congr rfl; intro k _
  ring

theorem dc_sumTo_assoc' (n m : Nat) (g : Nat → α) (U : Nat → Nat → α) (Y : Nat → α) :
    sumTo n (fun k => sumTo m (fun s => g s * U s k) * Y k)
      = sumTo m (fun s => g s * sumTo n (fun k => U s k * Y k)) := by
  simp only [sumTo_eq_sum, Finset.mul_sum, Finset.sum_mul]
  rw [Finset.sum_comm]
  apply Finset.sum_congr rfl; intro t _
  apply Finset.sum_congr rfl; intro k _
  ring

/-! ### `toTTGo` -/
set_option linter.unusedSectionVars false

theorem dc_toTTGo_chain (svd : Oracle α) (B : Nat) (hsvd : dc_ExactUpTo svd B) :
    ∀ (is ns : List Nat), List.Forall₂ (· < ·) is ns → ns ≠ [] →
    ∀ (rcur cols : Nat) (C : Mat α) (a : Nat), cols = prodNat ns → prodNat ns ≤ B → a < rcur →
      chain (toTTGo svd ns rcur cols C) (tIdx is) a 0 = C a (flatIdx ns is) := by
  intro is ns h
  induction h with
  | nil => intro h; exact absurd rfl h
  | @cons i n is' ns' hin hrest ih =>
    intro _ rcur cols C a hcols hB ha
    cases hrest with
    | nil => simp [toTTGo, tIdx, chain, flatIdx, sumTo, dc_prodNat_nil]
    | @cons i' n' is'' ns'' hi' hr' =>
      have ih' := ih (by simp)
      have hn : 0 < n := by omega
      have hc' : cols / n = prodNat (n' :: ns'') := by rw [hcols, dc_prodNat_div _ _ hn]
      have hfl := dc_flatIdx_lt (List.Forall₂.cons hi' hr')
      have hle : prodNat (n' :: ns'') ≤ B := by
        refine Nat.le_trans ?_ hB
        rw [dc_prodNat_cons n]
        exact Nat.le_mul_of_pos_left _ hn
      rw [dc_tIdx_cons i]
      simp only [toTTGo, chain]
      set F := svd (rcur * n) (cols / n) (fun p j => C (p / n) (p % n * (cols / n) + j)) with hF
      rw [sumTo_congr (g := fun k => F.left (a * n + i) k * F.right k (flatIdx (n' :: ns'') (i' :: is'')))
        (fun k hk => by rw [ih' _ _ _ k hc' hle hk])]
      rw [hF, hsvd _ _ _ _ _ (dc_merge_lt ha hin) (by rw [hc']; exact hfl) (by omega)]
      simp only [merge_div hin, merge_mod hin, dc_flatIdx_cons, hc']

theorem dc_toTTGo_WF (svd : Oracle α) :
    ∀ (ns : List Nat), ns ≠ [] → ∀ (rcur cols : Nat) (C : Mat α), WF (toTTGo svd ns rcur cols C) rcur := by
  intro ns
  induction ns with
  | nil => intro h; exact absurd rfl h
  | cons n ns' ih =>
    intro _ rcur cols C
    cases ns' with
    | nil => simp [toTTGo, WF]
    | cons n' ns'' =>
      simp only [toTTGo, WF, true_and]
      exact ih (by simp) _ _ _

theorem dc_toTTGo_modes (svd : Oracle α) :
    ∀ (ns : List Nat) (rcur cols : Nat) (C : Mat α), modesM (toTTGo svd ns rcur cols C) = ns := by
  intro ns
  induction ns with
  | nil => intro _ _ _; simp [toTTGo, modesM]
  | cons n ns' ih =>
    intro rcur cols C
    cases ns' with
    | nil => simp [toTTGo, modesM]
    | cons n' ns'' =>
      have := ih (svd (rcur * n) (cols / n) (fun p j => C (p / n) (p % n * (cols / n) + j))).r (cols / n)
        (svd (rcur * n) (cols / n) (fun p j => C (p / n) (p % n * (cols / n) + j))).right
      simp only [modesM] at this ⊢
      simp only [toTTGo, List.map_cons, this]

theorem dc_toTTGo_isTensor (svd : Oracle α) :
    ∀ (ns : List Nat) (rcur cols : Nat) (C : Mat α), IsTensor (toTTGo svd ns rcur cols C) := by
  intro ns
  induction ns with
  | nil => intro _ _ _; simp [toTTGo, IsTensor]
  | cons n ns' ih =>
    intro rcur cols C
    cases ns' with
    | nil => simp [toTTGo, IsTensor]
    | cons n' ns'' =>
      simp only [toTTGo, IsTensor, true_and]
      exact ih _ _ _

/-! ### `lrOrthGo` -/

theorem dc_lrOrthGo_chain (qr : Oracle α) (hqr : Exact qr) :
    ∀ (rest : List (Core α)) (c : Core α) (i : Nat) (is : List Nat) (a : Nat),
      WF rest c.r1 → i < c.m → List.Forall₂ (fun i (x : Core α) => i < x.m) is rest → a < c.r0 →
      chain (lrOrthGo qr c rest) (tIdx (i :: is)) a 0 = chain (c :: rest) (tIdx (i :: is)) a 0 := by
  intro rest
  induction rest with
  | nil => intro c i is a _ _ _ _; rfl
  | cons nxt rest' ih =>
    intro c i is a hwf hi hr ha
    obtain ⟨hr0, hwf'⟩ := hwf
    cases hr with
    | @cons i' _ is'' _ hi' hr'' =>
      let F := qr (c.r0 * c.m) c.r1 (fun p b => c.get (p / c.m) (p % c.m) 0 b)
      let nx : Core α := { r0 := F.r, m := nxt.m, n := 1, r1 := nxt.r1
                           get := fun k i _ b => sumTo nxt.r0 (fun t => F.right k t * nxt.get t i 0 b) }
      show sumTo F.r (fun k => F.left (a * c.m + i) k * chain (lrOrthGo qr nx rest') (tIdx (i' :: is'')) k 0)
        = sumTo c.r1 (fun t => c.get a i 0 t * chain (nxt :: rest') (tIdx (i' :: is'')) t 0)
      have key : ∀ k, k < F.r → chain (lrOrthGo qr nx rest') (tIdx (i' :: is'')) k 0
          = sumTo c.r1 (fun t => F.right k t * chain (nxt :: rest') (tIdx (i' :: is'')) t 0) := by
        intro k hk
        rw [ih nx i' is'' k hwf' hi' hr'' hk, ← hr0]
        exact dc_sumTo_assoc' nxt.r1 nxt.r0 (fun s => F.right k s) (fun s b => nxt.get s i' 0 b)
          (fun b => chain rest' (tIdx is'') b 0)
      rw [sumTo_congr (g := fun k => F.left (a * c.m + i) k *
            sumTo c.r1 (fun t => F.right k t * chain (nxt :: rest') (tIdx (i' :: is'')) t 0))
          (fun k hk => by rw [key k hk])]
      refine (dc_sumTo_assoc F.r c.r1 (fun k => F.left (a * c.m + i) k) (fun k t => F.right k t)
        (fun t => chain (nxt :: rest') (tIdx (i' :: is'')) t 0)).trans ?_
      apply sumTo_congr
      intro t ht
      have e := hqr (c.r0 * c.m) c.r1 (fun p b => c.get (p / c.m) (p % c.m) 0 b) (a * c.m + i) t
        (dc_merge_lt ha hi) ht
      simp only [merge_div hi, merge_mod hi] at e
      show sumTo F.r (fun k => F.left (a * c.m + i) k * F.right k t) * _ = _
      rw [e]

theorem dc_lrOrthGo_WF (qr : Oracle α) :
    ∀ (rest : List (Core α)) (c : Core α), WF rest c.r1 → WF (lrOrthGo qr c rest) c.r0 := by
  intro rest
  induction rest with
  | nil => intro c h; exact ⟨rfl, h⟩
  | cons nxt rest' ih =>
    intro c h
    obtain ⟨_, hwf'⟩ := h
    refine ⟨rfl, ?_⟩
    exact ih _ hwf'

theorem dc_lrOrthGo_modes (qr : Oracle α) :
    ∀ (rest : List (Core α)) (c : Core α), modesM (lrOrthGo qr c rest) = modesM (c :: rest) := by
  intro rest
  induction rest with
  | nil => intro c; rfl
  | cons nxt rest' ih =>
    intro c
    simp only [lrOrthGo, modesM, List.map_cons] at ih ⊢
    rw [ih]

theorem dc_lrOrthGo_isTensor (qr : Oracle α) :
    ∀ (rest : List (Core α)) (c : Core α), c.n = 1 → IsTensor (lrOrthGo qr c rest) := by
  intro rest
  induction rest with
  | nil => intro c h; exact ⟨h, trivial⟩
  | cons nxt rest' ih =>
    intro c _
    exact ⟨rfl, ih _ rfl⟩

/-! ### prefix congruence of `chain` -/

/-- ranks chain from `r0` through the list and end at `r` (no condition on `r`) -/
def dc_WFto : List (Core α) → Nat → Nat → Prop
  | [], r0, r => r0 = r
  | c :: cs, r0, r => c.r0 = r0 ∧ dc_WFto cs c.r1 r

theorem dc_WF_append_cons (xs : List (Core α)) (y : Core α) (ys : List (Core α)) (r0 : Nat) :
    WF (xs ++ y :: ys) r0 ↔ dc_WFto xs r0 y.r0 ∧ WF ys y.r1 := by
  induction xs generalizing r0 with
  | nil => simp only [List.nil_append, WF, dc_WFto]; constructor <;> (rintro ⟨h1, h2⟩; exact ⟨h1.symm, h2⟩)
  | cons x xs ih => simp only [List.cons_append, WF, dc_WFto, ih, and_assoc]

theorem dc_chain_prefix_congr (ys ys' : List (Core α)) (iys : List (Nat × Nat)) (r : Nat)
    (h : ∀ k, k < r → chain ys iys k 0 = chain ys' iys k 0) :
    ∀ (xs : List (Core α)) (ixs : List (Nat × Nat)) (r0 a : Nat), xs.length = ixs.length →
      dc_WFto xs r0 r → a < r0 →
      chain (xs ++ ys) (ixs ++ iys) a 0 = chain (xs ++ ys') (ixs ++ iys) a 0 := by
  intro xs
  induction xs with
  | nil =>
    intro ixs r0 a hlen hwf ha
    have : ixs = [] := by cases ixs with
      | nil => rfl
      | cons _ _ => simp at hlen
    subst this
    have hwf' : r0 = r := hwf
    subst hwf'
    exact h a ha
  | cons x xs ih =>
    intro ixs r0 a hlen hwf ha
    cases ixs with
    | nil => simp at hlen
    | cons ix ixs' =>
      simp only [List.cons_append, chain]
      apply sumTo_congr
      intro k hk
      rw [ih ixs' x.r1 k (by simpa using hlen) hwf.2 hk]

/-! ### `roundGo` -/

theorem dc_tIdx_reverse_cons (ip : Nat) (l : List Nat) (x : List (Nat × Nat)) :
    tIdx (ip :: l).reverse ++ x = tIdx l.reverse ++ (ip, 0) :: x := by
  simp [tIdx]

theorem dc_roundGo_chain (svd : Oracle α) (hsvd : Exact svd) :
    ∀ (isP : List Nat) (prev : List (Core α)), List.Forall₂ (fun i (x : Core α) => i < x.m) isP prev →
    ∀ (cur : Core α) (acc : List (Core α)) (i : Nat) (jA : List (Nat × Nat)) (r0 a : Nat),
      WF (prev.reverse ++ cur :: acc) r0 → i < cur.m → a < r0 →
      chain (roundGo svd cur prev acc) (tIdx isP.reverse ++ (i, 0) :: jA) a 0
        = chain (prev.reverse ++ cur :: acc) (tIdx isP.reverse ++ (i, 0) :: jA) a 0 := by
  intro isP prev h
  induction h with
  | nil => intro cur acc i jA r0 a _ _ _; rfl
  | @cons ip p isP' prev' hip hrest ih =>
    intro cur acc i jA r0 a hwf hi ha
    have hrev : (p :: prev').reverse ++ cur :: acc = prev'.reverse ++ p :: cur :: acc := by simp
    rw [hrev] at hwf ⊢
    rw [dc_tIdx_reverse_cons]
    obtain ⟨hpre, hcur0, hacc⟩ := (dc_WF_append_cons _ _ _ _).mp hwf
    let F := svd cur.r0 (cur.m * cur.r1) (fun a q => cur.get a (q / cur.r1) 0 (q % cur.r1))
    let cnow : Core α := { r0 := F.r, m := cur.m, n := 1, r1 := cur.r1
                           get := fun k i _ b => F.right k (i * cur.r1 + b) }
    let pnew : Core α := { r0 := p.r0, m := p.m, n := 1, r1 := F.r
                           get := fun a i _ k => sumTo p.r1 (fun t => p.get a i 0 t * F.left t k) }
    show chain (roundGo svd pnew prev' (cnow :: acc)) _ a 0 = _
    have hwf2 : WF (prev'.reverse ++ pnew :: cnow :: acc) r0 :=
      (dc_WF_append_cons _ _ _ _).mpr ⟨hpre, rfl, hacc⟩
    rw [ih pnew (cnow :: acc) ip ((i, 0) :: jA) r0 a hwf2 hip ha]
    apply dc_chain_prefix_congr _ _ _ p.r0 _ _ _ r0 a _ hpre ha
    · intro t _
      show sumTo F.r (fun k => sumTo p.r1 (fun s => p.get t ip 0 s * F.left s k) *
              sumTo cur.r1 (fun b => F.right k (i * cur.r1 + b) * chain acc jA b 0))
         = sumTo p.r1 (fun s => p.get t ip 0 s *
              sumTo cur.r1 (fun b => cur.get s i 0 b * chain acc jA b 0))
      refine (dc_sumTo_assoc' F.r p.r1 (fun s => p.get t ip 0 s) (fun s k => F.left s k)
        (fun k => sumTo cur.r1 (fun b => F.right k (i * cur.r1 + b) * chain acc jA b 0))).trans ?_
      apply sumTo_congr
      intro s hs
      congr 1
      refine (dc_sumTo_assoc F.r cur.r1 (fun k => F.left s k) (fun k b => F.right k (i * cur.r1 + b))
        (fun b => chain acc jA b 0)).trans ?_
      apply sumTo_congr
      intro b hb
      have e := hsvd cur.r0 (cur.m * cur.r1) (fun a q => cur.get a (q / cur.r1) 0 (q % cur.r1)) s
        (i * cur.r1 + b) (by omega) (dc_merge_lt hi hb)
      simp only [merge_div hb, merge_mod hb] at e
      show sumTo F.r (fun k => F.left s k * F.right k (i * cur.r1 + b)) * _ = _
      rw [e]
    · have := hrest.length_eq
      simp [tIdx, this]

theorem dc_roundGo_WF (svd : Oracle α) :
    ∀ (prev : List (Core α)) (cur : Core α) (acc : List (Core α)) (r0 : Nat),
      WF (prev.reverse ++ cur :: acc) r0 → WF (roundGo svd cur prev acc) r0 := by
  intro prev
  induction prev with
  | nil => intro cur acc r0 h; exact h
  | cons p prev' ih =>
    intro cur acc r0 hwf
    have hrev : (p :: prev').reverse ++ cur :: acc = prev'.reverse ++ p :: cur :: acc := by simp
    rw [hrev] at hwf
    obtain ⟨hpre, _, hacc⟩ := (dc_WF_append_cons _ _ _ _).mp hwf
    apply ih
    exact (dc_WF_append_cons _ _ _ _).mpr ⟨hpre, rfl, hacc⟩

theorem dc_roundGo_modes (svd : Oracle α) :
    ∀ (prev : List (Core α)) (cur : Core α) (acc : List (Core α)),
      modesM (roundGo svd cur prev acc) = modesM (prev.reverse ++ cur :: acc) := by
  intro prev
  induction prev with
  | nil => intro cur acc; rfl
  | cons p prev' ih =>
    intro cur acc
    simp only [roundGo]
    rw [ih]
    simp [modesM]

theorem dc_roundGo_isTensor (svd : Oracle α) :
    ∀ (prev : List (Core α)) (cur : Core α) (acc : List (Core α)),
      cur.n = 1 → IsTensor acc → IsTensor (roundGo svd cur prev acc) := by
  intro prev
  induction prev with
  | nil => intro cur acc h1 h2; exact ⟨h1, h2⟩
  | cons p prev' ih =>
    intro cur acc _ h2
    exact ih _ _ rfl ⟨rfl, h2⟩

/-- the right-to-left sweep applied to a reversed list `Lr` -/
def dc_roundRev (svd : Oracle α) : List (Core α) → List (Core α)
  | [] => []
  | last :: prev => roundGo svd last prev []

theorem dc_roundTT_eq (qr svd : Oracle α) (cs : List (Core α)) :
    roundTT qr svd cs = dc_roundRev svd (lrOrth qr cs).reverse := by
  unfold roundTT dc_roundRev
  rfl

theorem dc_roundRev_chain (svd : Oracle α) (hsvd : Exact svd) (Lr : List (Core α)) (is : List Nat)
    (r0 a : Nat) (hwf : WF Lr.reverse r0) (hr : List.Forall₂ (· < ·) is (modesM Lr.reverse)) (ha : a < r0) :
    chain (dc_roundRev svd Lr) (tIdx is) a 0 = chain Lr.reverse (tIdx is) a 0 := by
  cases Lr with
  | nil => rfl
  | cons last prev =>
    have hr' : List.Forall₂ (fun i (x : Core α) => i < x.m) is.reverse (last :: prev) := by
      have := List.forall₂_reverse_iff.mpr hr
      simp only [modesM, ← List.map_reverse, List.reverse_reverse] at this
      exact List.forall₂_map_right_iff.mp this
    generalize hisr : is.reverse = isr at hr'
    have his : is = isr.reverse := by rw [← hisr, List.reverse_reverse]
    subst his
    cases hr' with
    | @cons i _ isP _ hi hP =>
      have e1 : tIdx (i :: isP).reverse = tIdx isP.reverse ++ (i, 0) :: [] := by simp [tIdx]
      have e2 : (last :: prev).reverse = prev.reverse ++ last :: [] := by simp
      rw [e1]
      rw [e2] at hwf ⊢
      exact dc_roundGo_chain svd hsvd isP prev hP last [] i [] r0 a hwf hi ha

theorem dc_roundRev_WF (svd : Oracle α) (Lr : List (Core α)) (r0 : Nat) (hwf : WF Lr.reverse r0) :
    WF (dc_roundRev svd Lr) r0 := by
  cases Lr with
  | nil => exact hwf
  | cons last prev =>
    have e2 : (last :: prev).reverse = prev.reverse ++ last :: [] := by simp
    rw [e2] at hwf
    exact dc_roundGo_WF svd prev last [] r0 hwf

theorem dc_roundRev_modes (svd : Oracle α) (Lr : List (Core α)) :
    modesM (dc_roundRev svd Lr) = modesM Lr.reverse := by
  cases Lr with
  | nil => rfl
  | cons last prev =>
    have e2 : (last :: prev).reverse = prev.reverse ++ last :: [] := by simp
    rw [e2]
    exact dc_roundGo_modes svd prev last []

theorem dc_isTensor_append (xs ys : List (Core α)) :
    IsTensor (xs ++ ys) ↔ IsTensor xs ∧ IsTensor ys := by
  induction xs with
  | nil => simp [IsTensor]
  | cons x xs ih => simp [IsTensor, ih, and_assoc]

theorem dc_roundRev_isTensor (svd : Oracle α) (Lr : List (Core α)) (h : IsTensor Lr.reverse) :
    IsTensor (dc_roundRev svd Lr) := by
  cases Lr with
  | nil => trivial
  | cons last prev =>
    have e2 : (last :: prev).reverse = prev.reverse ++ last :: [] := by simp
    rw [e2, dc_isTensor_append] at h
    exact dc_roundGo_isTensor svd prev last [] h.2.1 trivial

/-! ### an oracle that satisfies `Exact` at every size (non-vacuity of the contract) -/

/-- the uncapped identity factorisation `C = I·C` / `C = C·I` -/
def dc_idFull : Oracle α := fun rows cols C => idOracle (max rows cols) rows cols C

theorem dc_idFull_exact : Exact (dc_idFull (α := α)) := by
  intro rows cols C i j hi hj
  exact dc_idOracle_upto (max rows cols) rows cols C i j hi hj (by omega)

end TT.Decomp
