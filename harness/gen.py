"""Structured generators: TT operands with small integer (Gaussian-integer) cores, shapes with
pairwise distinct sizes, rank profiles, and independent dense contractions used by the oracles."""
import itertools
import numpy as np
import torch as tn
import torchtt

DTYPES = {"f64": tn.float64, "f32": tn.float32, "c128": tn.complex128, "c64": tn.complex64}


def int_tensor(rng, shape, dtype, lo=-2, hi=2, nz=False):
    n = int(np.prod(shape)) if len(shape) else 1
    vals = [rng.randint(lo, hi) for _ in range(n)]
    if nz:
        vals = [v if v != 0 else 1 for v in vals]
    t = tn.tensor(vals, dtype=tn.float64).reshape(shape)
    if dtype in (tn.complex128, tn.complex64):
        im = tn.tensor([rng.randint(lo, hi) for _ in range(n)], dtype=tn.float64).reshape(shape)
        return tn.complex(t, im).to(dtype)
    return t.to(dtype)


def rand_ranks(rng, d, rmax=3, distinct=True):
    if d == 1:
        return [1, 1]
    inner = [rng.randint(1, rmax) for _ in range(d - 1)]
    return [1] + inner + [1]


def rand_modes(rng, d, lo=1, hi=4, distinct=True):
    pool = list(range(lo, hi + 1))
    if distinct and d <= len(pool):
        return rng.sample(pool, d)
    return [rng.choice(pool) for _ in range(d)]


def rand_tt(rng, N, R=None, dtype=tn.float64, M=None, lo=-2, hi=2, rmax=3):
    d = len(N)
    if R is None:
        R = rand_ranks(rng, d, rmax)
    cores = []
    for k in range(d):
        sh = [R[k], N[k], R[k + 1]] if M is None else [R[k], M[k], N[k], R[k + 1]]
        cores.append(int_tensor(rng, sh, dtype, lo, hi))
    return torchtt.TT(cores)


def noncontig(x):
    """the same TT with cores that are NON-CONTIGUOUS views (values, shapes and ranks unchanged): mode-permuted storage, as produced by
    `A.t()`, by `permute()`/`transpose()` of user cores, or by slicing with steps"""
    cs = []
    for c in x.cores:
        perm = list(range(c.dim()))[::-1]
        inv = [perm.index(i) for i in range(c.dim())]
        cs.append(c.permute(perm).contiguous().permute(inv))
    return torchtt.TT(cs)


def dense_of(x):
    """independent contraction of the cores of a TT object (not via TT.full)"""
    return dense_of_cores(x.cores, x.is_ttm)


def dense_of_cores(cores, is_ttm):
    d = len(cores)
    if is_ttm:
        acc = cores[0][0]  # m n r
        acc = acc.reshape(cores[0].shape[1], cores[0].shape[2], cores[0].shape[3])
        ms, ns = [cores[0].shape[1]], [cores[0].shape[2]]
        cur = acc.reshape(-1, cores[0].shape[3])
        for k in range(1, d):
            c = cores[k]
            cur = tn.einsum('xr,rmns->xmns', cur, c).reshape(-1, c.shape[3])
            ms.append(c.shape[1])
            ns.append(c.shape[2])
        full = cur.reshape([v for p in zip(ms, ns) for v in p])
        perm = [2 * i for i in range(d)] + [2 * i + 1 for i in range(d)]
        return full.permute(perm).contiguous()
    cur = cores[0].reshape(-1, cores[0].shape[2]) if cores[0].dim() == 3 else None
    cur = cores[0][0].reshape(cores[0].shape[1], cores[0].shape[2])
    ns = [cores[0].shape[1]]
    for k in range(1, d):
        c = cores[k]
        cur = tn.einsum('xr,rns->xns', cur, c).reshape(-1, c.shape[2])
        ns.append(c.shape[1])
    return cur.reshape(ns)


def exact_equal(a, b):
    """exact equality of two dense arrays (shape and every entry), dtype-insensitive"""
    if not tn.is_tensor(a):
        a = tn.as_tensor(a)
    if not tn.is_tensor(b):
        b = tn.as_tensor(b)
    if list(a.shape) != list(b.shape):
        return "shape %s vs %s" % (list(a.shape), list(b.shape))
    ca = a.to(tn.complex128) if (a.is_complex() or b.is_complex()) else a.to(tn.float64)
    cb = b.to(tn.complex128) if (a.is_complex() or b.is_complex()) else b.to(tn.float64)
    if not tn.equal(ca, cb):
        diff = (ca - cb).abs()
        return "max abs diff %g" % float(diff.max())
    return None


def close(a, b, tol):
    if not tn.is_tensor(a):
        a = tn.as_tensor(a)
    if not tn.is_tensor(b):
        b = tn.as_tensor(b)
    if list(a.shape) != list(b.shape):
        return "shape %s vs %s" % (list(a.shape), list(b.shape))
    ca = a.to(tn.complex128)
    cb = b.to(tn.complex128)
    err = float(tn.linalg.norm((ca - cb).reshape(-1)))
    ref = float(tn.linalg.norm(cb.reshape(-1)))
    # written with negated <= so that NaN / inf anywhere in the result FAILS the comparison
    if not (err <= tol * max(ref, 1e-300) or err <= 1e-300):
        return "rel err %g > %g" % (err / max(ref, 1e-300), tol)
    return None


def structure_grid(rng, orders, n_per_order, mode_hi=4, rmax=3, ensure_singleton=True, ensure_rank1=True):
    """yield (N, R) structures: per order a few random profiles plus the corner ones
    (all-singleton-free, one singleton mode, rank-1, maximal ranks)"""
    out = []
    for d in orders:
        for k in range(n_per_order):
            N = rand_modes(rng, d, 2 if k % 2 == 0 else 1, mode_hi)
            R = rand_ranks(rng, d, rmax)
            out.append((N, R))
        if ensure_singleton and d >= 1:
            N = rand_modes(rng, d, 2, mode_hi)
            N[rng.randrange(d)] = 1
            out.append((N, rand_ranks(rng, d, rmax)))
        if ensure_rank1:
            out.append((rand_modes(rng, d, 2, mode_hi), [1] * (d + 1)))
        if d >= 2:
            out.append((rand_modes(rng, d, 2, mode_hi), [1] + [rmax - (i % 2) for i in range(d - 1)] + [1]))
    return out


def clone_tt(x):
    return torchtt.TT([c.clone() for c in x.cores])


def clone_any(v):
    if isinstance(v, torchtt.TT):
        return clone_tt(v)
    if tn.is_tensor(v):
        return v.clone()
    if isinstance(v, list):
        return [clone_any(w) for w in v]
    if isinstance(v, tuple):
        return tuple(clone_any(w) for w in v)
    return v
