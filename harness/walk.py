"""Random walks over the public API of torchtt on a store of live objects (used by C05 and C06).

Every result is put back into the store and can be used by later calls; views produced by slicing, transpose, conj,
sum, to_ttm, detach are fed into later operations.  Each step reports (op name, operand refs, in-place target or None)."""
import numpy as np
import torch as tn
import torchtt
from gen import int_tensor, rand_ranks

MAXR = 8


def rnd_tt(rng, N, M=None, dtype=tn.float64, rmax=2):
    d = len(N)
    R = rand_ranks(rng, d, rmax)
    cores = []
    for k in range(d):
        sh = [R[k], N[k], R[k + 1]] if M is None else [R[k], M[k], N[k], R[k + 1]]
        cores.append(int_tensor(rng, sh, dtype, -2, 2))
    return torchtt.TT(cores)


def spd_ttm(rng, N, dtype=tn.float64):
    """well conditioned square operator: 3*I + small rank-1 perturbation"""
    I = torchtt.eye(list(N), dtype=dtype)
    P = rnd_tt(rng, N, M=N, dtype=dtype, rmax=1)
    return I * 3.0 + P * 0.1


class Walker:
    def __init__(self, rng, dtype=tn.float64, allow_solvers=True):
        self.rng = rng
        self.dtype = dtype
        self.store = []          # list of torchtt.TT
        self.allow_solvers = allow_solvers
        self.log = []

    # ---------------------------------------------------------------- helpers
    def pick(self, pred=None):
        c = [i for i, x in enumerate(self.store) if pred is None or pred(x)]
        return self.rng.choice(c) if c else None

    def small(self, x):
        return max(x.R) <= MAXR and len(x.N) <= 5 and int(np.prod(x.N)) * (int(np.prod(x.M)) if x.is_ttm else 1) <= 4096

    def partner(self, x):
        """an object with the same shape/kind: an existing one if there is one (half of the time), else a fresh one"""
        same = [i for i, y in enumerate(self.store) if y is not x and y.is_ttm == x.is_ttm and y.N == x.N and (not x.is_ttm or y.M == x.M) and self.small(y)
                and y.cores[0].dtype == x.cores[0].dtype]
        if same and self.rng.random() < 0.6:
            j = self.rng.choice(same)
            return self.store[j], j
        y = rnd_tt(self.rng, x.N, x.M if x.is_ttm else None, x.cores[0].dtype)
        self.store.append(y)
        return y, len(self.store) - 1

    @staticmethod
    def snapshot(x):
        t = [len(x.cores)]
        for c in x.cores:
            t += [c.dim()] + list(c.shape)
        N = list(x.N); M = list(x.M) if x.is_ttm else []
        R = [int(r) for r in x.R]
        return t + [len(N)] + N + [len(M)] + M + [len(R)] + R + [1 if x.is_ttm else 0]

    def seed_objects(self):
        rng = self.rng
        for _ in range(3):
            d = rng.randint(1, 4)
            N = [rng.randint(1, 4) for _ in range(d)]
            self.store.append(rnd_tt(rng, N, None, self.dtype))
        d = rng.randint(1, 3)
        N = [rng.randint(1, 3) for _ in range(d)]
        M = [rng.randint(1, 3) for _ in range(d)]
        self.store.append(rnd_tt(rng, N, M, self.dtype))
        N = [rng.randint(2, 3) for _ in range(rng.randint(1, 3))]
        self.store.append(rnd_tt(rng, N, N, self.dtype))

    # ---------------------------------------------------------------- one step
    def step(self, force=None):
        """returns dict(op, refs, inplace (ref or None), new (list of objects), skipped)"""
        rng = self.rng
        ops = ["add", "sub", "mul", "scalar", "neg", "kron", "matmul", "t", "round", "getitem", "sum", "cat", "pad", "diag",
               "mprod", "to_ttm", "conj", "clone", "detach", "to", "reshape", "permute", "ctor_dense", "ctor_cores", "factory",
               "set_core", "reduce_dims", "dot_partial", "qtt", "full_numpy", "norm", "truediv_scalar", "rmul", "pow_none", "manifold"]
        if self.allow_solvers:
            ops += ["fast_matvec", "dmrg_hadamard", "amen_mv", "amen_mm", "amen_solve", "divide", "interpolate"]
        op = force if force is not None else rng.choice(ops)
        f = getattr(self, "op_" + op)
        i = getattr(self, "force_target", None)
        if i is None:
            i = self.pick(self.small)
        if i is None:
            self.seed_objects()
            i = self.pick(self.small)
        x = self.store[i]
        info = {"op": op, "refs": [i], "inplace": None, "new": [], "skipped": False, "error": None}
        try:
            out = f(x, i, info)
        except Exception as e:
            info["error"] = e
            out = None
        if out is not None:
            for o in (out if isinstance(out, list) else [out]):
                if isinstance(o, torchtt.TT):
                    self.store.append(o)
                    info["new"].append(len(self.store) - 1)
        self.log.append((op, list(info["refs"]), info["inplace"], type(info["error"]).__name__ if info["error"] else None))
        if len(self.store) > 60:
            # forget old objects (keep indices stable inside one step only)
            keep = self.rng.sample(range(len(self.store)), 30)
            self.store = [self.store[k] for k in sorted(keep)]
            info["compacted"] = True
        return info

    # ---------------------------------------------------------------- operations
    def op_add(self, x, i, info):
        y, j = self.partner(x); info["refs"].append(j)
        return x + y

    def op_sub(self, x, i, info):
        y, j = self.partner(x); info["refs"].append(j)
        return x - y

    def op_mul(self, x, i, info):
        y, j = self.partner(x); info["refs"].append(j)
        if max(x.R) * max(y.R) > MAXR * 2:
            info["skipped"] = True; return None
        return x * y

    def op_scalar(self, x, i, info):
        s = self.rng.choice([2, -1.5, 0, np.float64(0.5), tn.tensor(3.0, dtype=tn.float64)])
        k = self.rng.randrange(5)
        return [x + s, s + x, x - s, s - x, x * s][k]

    def op_rmul(self, x, i, info):
        return 2.0 * x

    def op_truediv_scalar(self, x, i, info):
        return x / self.rng.choice([2, 4.0, tn.tensor(2.0, dtype=tn.float64)])

    def op_neg(self, x, i, info):
        return -x

    def op_pow_none(self, x, i, info):
        return x ** None

    def op_kron(self, x, i, info):
        j = self.pick(lambda y: y.is_ttm == x.is_ttm and len(y.N) + len(x.N) <= 5 and self.small(y))
        if j is None:
            info["skipped"] = True; return None
        info["refs"].append(j)
        return x ** self.store[j] if self.rng.random() < 0.5 else torchtt.kron(x, self.store[j])

    def op_matmul(self, x, i, info):
        rng = self.rng
        if x.is_ttm:
            k = rng.randrange(3)
            if k == 0:
                y = rnd_tt(rng, x.N, None, x.cores[0].dtype); self.store.append(y); info["refs"].append(len(self.store) - 1)
                return x @ y
            if k == 1:
                N2 = [rng.randint(1, 3) for _ in x.N]
                B = rnd_tt(rng, N2, x.N, x.cores[0].dtype); self.store.append(B); info["refs"].append(len(self.store) - 1)
                return x @ B
            dense = int_tensor(rng, [2] + list(x.N), x.cores[0].dtype)
            x @ dense
            return None
        A = rnd_tt(rng, [rng.randint(1, 3) for _ in x.N], x.N, x.cores[0].dtype); self.store.append(A); info["refs"].append(len(self.store) - 1)
        return x @ A

    def op_t(self, x, i, info):
        if not x.is_ttm:
            info["skipped"] = True; return None
        return x.t()

    def op_round(self, x, i, info):
        eps = self.rng.choice([1e-12, 1e-6, 1e-2, 0.3])
        if self.rng.random() < 0.5:
            return x.round(eps)
        return x.round(eps, self.rng.choice([1, 2, 5]))

    def op_getitem(self, x, i, info):
        rng = self.rng
        if x.is_ttm:
            rows, cols = [], []
            for m, n in zip(x.M, x.N):
                if rng.random() < 0.4:
                    rows.append(rng.randrange(m)); cols.append(rng.randrange(n))
                else:
                    a = rng.randrange(m); b = rng.randrange(n)
                    rows.append(slice(a, rng.randint(a + 1, m))); cols.append(slice(b, rng.randint(b + 1, n)))
            r = x[tuple(rows + cols)]
            return r if isinstance(r, torchtt.TT) else None
        idx = []
        for n in x.N:
            k = rng.random()
            if k < 0.35:
                idx.append(rng.randrange(n))
            elif k < 0.6:
                idx.append(slice(None))
            else:
                a = rng.randrange(n)
                idx.append(slice(a, rng.randint(a + 1, n)))
        if rng.random() < 0.3:
            idx.insert(rng.randint(0, len(idx)), None)
        r = x[tuple(idx)]
        return r if isinstance(r, torchtt.TT) else None

    def op_sum(self, x, i, info):
        d = len(x.N)
        k = self.rng.randint(1, d)
        idx = sorted(self.rng.sample(range(d), k))
        r = x.sum(idx)
        return r if isinstance(r, torchtt.TT) else None

    def op_dot_partial(self, x, i, info):
        d = len(x.N)
        if x.is_ttm or d < 2:
            info["skipped"] = True; return None
        k = self.rng.randint(1, d - 1)
        axis = sorted(self.rng.sample(range(d), k))
        b = rnd_tt(self.rng, [x.N[a] for a in axis], None, x.cores[0].dtype); self.store.append(b); info["refs"].append(len(self.store) - 1)
        r = torchtt.dot(x, b, axis)
        return r if isinstance(r, torchtt.TT) else None

    def op_cat(self, x, i, info):
        if x.is_ttm:
            info["skipped"] = True; return None
        dim = self.rng.randrange(len(x.N))
        N2 = list(x.N); N2[dim] = self.rng.randint(1, 3)
        y = rnd_tt(self.rng, N2, None, x.cores[0].dtype); self.store.append(y); info["refs"].append(len(self.store) - 1)
        return torchtt.cat((x, y), dim)

    def op_pad(self, x, i, info):
        d = len(x.N)
        npad = d if x.is_ttm else self.rng.randint(1, d)
        pads = tuple((self.rng.randint(0, 1), self.rng.randint(0, 2)) for _ in range(npad))
        if int(np.prod([n + 3 for n in x.N])) > 3000:
            info["skipped"] = True; return None
        return torchtt.pad(x, pads, value=self.rng.choice([0.0, 1.5]))

    def op_diag(self, x, i, info):
        if x.is_ttm and x.M != x.N:
            info["skipped"] = True; return None
        if not x.is_ttm and int(np.prod(x.N)) > 64:
            info["skipped"] = True; return None
        return torchtt.diag(x)

    def op_mprod(self, x, i, info):
        if x.is_ttm:
            info["skipped"] = True; return None
        k = self.rng.randrange(len(x.N))
        F = int_tensor(self.rng, [self.rng.randint(1, 3), x.N[k]], x.cores[0].dtype)
        return x.mprod(F, k)

    def op_to_ttm(self, x, i, info):
        if x.is_ttm:
            info["skipped"] = True; return None
        return x.to_ttm()

    def op_conj(self, x, i, info):
        return x.conj()

    def op_clone(self, x, i, info):
        return x.clone()

    def op_detach(self, x, i, info):
        return x.detach()

    def op_to(self, x, i, info):
        return x.to(dtype=tn.float64)

    def op_full_numpy(self, x, i, info):
        x.full(); x.numpy()
        return None

    def op_norm(self, x, i, info):
        x.norm(); x.norm(True)
        return None

    def op_reshape(self, x, i, info):
        rng = self.rng
        if x.is_ttm:
            # merge all modes into one pair or split nothing: keep it simple and always valid
            if len(x.N) < 2:
                info["skipped"] = True; return None
            M2 = [x.M[0] * x.M[1]] + list(x.M[2:]); N2 = [x.N[0] * x.N[1]] + list(x.N[2:])
            return torchtt.reshape(x, [(m, n) for m, n in zip(M2, N2)], eps=1e-12)
        total = int(np.prod(x.N))
        # random ordered factorisation of the element count
        fac, rest = [], total
        for p in (2, 3, 2, 2, 3):
            if rest % p == 0 and rest > 1 and rng.random() < 0.7:
                fac.append(p); rest //= p
        fac.append(rest)
        if rng.random() < 0.3:
            fac.insert(rng.randint(0, len(fac)), 1)
        if fac == [1] * len(fac) and total == 1:
            fac = [1]
        return torchtt.reshape(x, fac, eps=1e-12)

    def op_permute(self, x, i, info):
        d = len(x.N)
        if d < 2:
            info["skipped"] = True; return None
        p = list(range(d)); self.rng.shuffle(p)
        return torchtt.permute(x, p, 1e-10)

    def op_qtt(self, x, i, info):
        if x.is_ttm or any(n not in (1, 2, 4, 8) for n in x.N) or all(n < 4 for n in x.N):
            info["skipped"] = True; return None
        q = x.to_qtt()
        self.store.append(q)
        info["new"].append(len(self.store) - 1)
        return q.qtt_to_tens(list(x.N))

    def op_ctor_dense(self, x, i, info):
        rng = self.rng
        d = rng.randint(1, 4)
        N = [rng.randint(1, 4) for _ in range(d)]
        A = int_tensor(rng, N, self.dtype, -3, 3)
        k = rng.randrange(4)
        if k == 3:
            # prescribed shape given as a list OBJECT that is shared between several constructor calls (and stays with the caller):
            # two objects are built from the same list; in-place operations on one must not reach the other
            flat = int_tensor(rng, [int(np.prod(N))], self.dtype, -3, 3)
            shape_list = list(N)
            a = torchtt.TT(flat.reshape(N), shape_list, eps=1e-12)
            b = torchtt.TT(flat.numpy().reshape(N) * 2, shape_list, eps=1e-12)
            self.shared_lists = getattr(self, "shared_lists", [])
            self.shared_lists.append((shape_list, list(N)))
            return [a, b]
        if k == 0:
            return torchtt.TT(A, eps=rng.choice([1e-12, 1e-2]))
        if k == 1:
            return torchtt.TT(A.numpy(), eps=1e-10, rmax=rng.choice([2, 100]))
        M = [rng.randint(1, 3) for _ in range(d)]
        B = int_tensor(rng, M + N, self.dtype, -3, 3)
        return torchtt.TT(B, [(m, n) for m, n in zip(M, N)], eps=1e-10)

    def op_ctor_cores(self, x, i, info):
        # raw constructor on *cloned* cores of an existing object
        return torchtt.TT([c.clone() for c in x.cores])

    def op_factory(self, x, i, info):
        rng = self.rng
        d = rng.randint(1, 3)
        N = [rng.randint(1, 4) for _ in range(d)]
        k = rng.randrange(6)
        if k == 0:
            return torchtt.ones(N, dtype=self.dtype)
        if k == 1:
            return torchtt.zeros([(n, n + 1) for n in N], dtype=self.dtype)
        if k == 2:
            return torchtt.eye(N, dtype=self.dtype)
        if k == 3:
            return torchtt.rank1TT([int_tensor(rng, [n], self.dtype) for n in N])
        if k == 4:
            return torchtt.meshgrid([int_tensor(rng, [n], self.dtype) for n in N])
        return torchtt.random(N, [1] + [2] * (d - 1) + [1], dtype=self.dtype)

    def op_set_core(self, x, i, info):
        rng = self.rng
        k = rng.randrange(len(x.N))
        R = x.R
        if rng.random() < getattr(self, "p_same_shape", 0.4):
            # a replacement with the layout of the core it replaces (the ALS-type use of set_core)
            c = int_tensor(rng, list(x.cores[k].shape), x.cores[k].dtype)
        elif x.is_ttm:
            c = int_tensor(rng, [R[k], rng.randint(1, 3), rng.randint(1, 3), R[k + 1]], x.cores[0].dtype)
        else:
            c = int_tensor(rng, [R[k], rng.randint(1, 4), R[k + 1]], x.cores[0].dtype)
        info["inplace"] = i
        if rng.random() < 0.2:
            # negative positions are not accepted by set_core (InvalidArguments); if an implementation accepts them it must
            # still leave a well-formed object behind — the walk does not replay these through the model
            x.set_core(k - len(x.N), c)
            return None
        info["set_core"] = (k, list(c.shape))
        info["before_obj"] = self.snapshot(x)
        x.set_core(k, c)
        return None

    def op_reduce_dims(self, x, i, info):
        info["inplace"] = i
        ex = [k for k in range(len(x.N)) if self.rng.random() < 0.3]
        info["reduce_dims"] = ex
        info["before_obj"] = self.snapshot(x)
        if ex:
            x.reduce_dims(ex)
        else:
            x.reduce_dims()
        return None

    # ---- iterative routines (small, with guesses taken from the store)
    def guess_for(self, N, is_ttm=False, M=None):
        j = self.pick(lambda y: y.is_ttm == is_ttm and y.N == list(N) and (not is_ttm or y.M == list(M)) and max(y.R) <= 4
                      and y.cores[0].dtype == tn.float64)
        if j is None and self.rng.random() < 0.8:
            g = rnd_tt(self.rng, list(N), list(M) if is_ttm else None, tn.float64, rmax=self.rng.choice([1, 2, 3]))
            self.store.append(g)
            j = len(self.store) - 1
        return j

    def op_fast_matvec(self, x, i, info):
        if not x.is_ttm or int(np.prod(x.N)) > 200:
            info["skipped"] = True; return None
        v = rnd_tt(self.rng, x.N, None, x.cores[0].dtype); self.store.append(v); info["refs"].append(len(self.store) - 1)
        j = self.guess_for(x.M)
        if j is not None and self.rng.random() < 0.7:
            info["refs"].append(j); info["guess"] = j
            return x.fast_matvec(v, initial=self.store[j], eps=1e-10, nswp=8, use_cpp=False)
        return x.fast_matvec(v, eps=1e-10, nswp=8, use_cpp=False)

    def op_dmrg_hadamard(self, x, i, info):
        if x.is_ttm or int(np.prod(x.N)) > 300:
            info["skipped"] = True; return None
        y, j = self.partner(x); info["refs"].append(j)
        g = self.guess_for(x.N)
        if g is not None and self.rng.random() < 0.7:
            info["refs"].append(g); info["guess"] = g
            return torchtt.dmrg_hadamard(x, y, z0=self.store[g], eps=1e-10, nswp=8, use_cpp=False)
        return torchtt.dmrg_hadamard(x, y, eps=1e-10, nswp=8, use_cpp=False)

    def op_amen_mv(self, x, i, info):
        if not x.is_ttm or int(np.prod(x.N)) > 200:
            info["skipped"] = True; return None
        v = rnd_tt(self.rng, x.N, None, x.cores[0].dtype); self.store.append(v); info["refs"].append(len(self.store) - 1)
        g = self.guess_for(x.M)
        if g is not None and self.rng.random() < 0.7:
            info["refs"].append(g); info["guess"] = g
            return torchtt.amen_mv(x, v, eps=1e-8, x0=self.store[g], nswp=8, use_cpp=False)
        return torchtt.amen_mv(x, v, eps=1e-8, nswp=8, use_cpp=False)

    def op_amen_mm(self, x, i, info):
        if not x.is_ttm or int(np.prod(x.N)) * int(np.prod(x.M)) > 400:
            info["skipped"] = True; return None
        B = rnd_tt(self.rng, [self.rng.randint(1, 2) for _ in x.N], x.N, x.cores[0].dtype); self.store.append(B); info["refs"].append(len(self.store) - 1)
        g = self.guess_for(B.N, True, x.M)
        if g is not None and self.rng.random() < 0.7:
            info["refs"].append(g); info["guess"] = g
            return torchtt.amen_mm(x, B, eps=1e-8, nswp=8, X0=self.store[g])
        return torchtt.amen_mm(x, B, eps=1e-8, nswp=8)

    def op_amen_solve(self, x, i, info):
        N = [self.rng.randint(2, 3) for _ in range(self.rng.randint(2, 3))]
        A = spd_ttm(self.rng, N, tn.float64); self.store.append(A); info["refs"].append(len(self.store) - 1)
        b = rnd_tt(self.rng, N, None, tn.float64); self.store.append(b); info["refs"].append(len(self.store) - 1)
        g = self.guess_for(N)
        kw = dict(eps=1e-8, nswp=10, use_cpp=False, verbose=False)
        if self.rng.random() < 0.5:
            kw["preconditioner"] = self.rng.choice(["c", "r"])
        if g is not None and self.rng.random() < 0.7:
            info["refs"].append(g); info["guess"] = g
            return torchtt.solvers.amen_solve(A, b, x0=self.store[g], **kw)
        return torchtt.solvers.amen_solve(A, b, **kw)

    def op_divide(self, x, i, info):
        if x.is_ttm or int(np.prod(x.N)) > 200 or len(x.N) < 2:
            info["skipped"] = True; return None
        z = rnd_tt(self.rng, x.N, None, tn.float64, rmax=1); self.store.append(z); info["refs"].append(len(self.store) - 1)
        y = z * z + 1.0
        self.store.append(y); info["refs"].append(len(self.store) - 1)
        g = self.guess_for(x.N)
        if g is not None and self.rng.random() < 0.5:
            info["refs"].append(g); info["guess"] = g
            return torchtt.elementwise_divide(x, y, eps=1e-8, starting_tensor=self.store[g], nswp=10)
        k = self.rng.randrange(3)
        if k == 0:
            return x / y
        if k == 1:
            return 2.0 / y
        return torchtt.elementwise_divide(x, y, eps=1e-8, nswp=10)

    def op_manifold(self, x, i, info):
        import torchtt.manifold as MF
        if int(np.prod(x.N)) * (int(np.prod(x.M)) if x.is_ttm else 1) > 400:
            info["skipped"] = True; return None
        if self.rng.random() < 0.6:
            y, j = self.partner(x); info["refs"].append(j)
            return MF.riemannian_projection(x, y)
        if x.cores[0].dtype not in (tn.float64, tn.float32):
            info["skipped"] = True; return None
        return MF.riemannian_gradient(x, lambda y: (y * y).sum())

    def op_interpolate(self, x, i, info):
        if x.is_ttm or len(x.N) < 2 or int(np.prod(x.N)) > 300:
            info["skipped"] = True; return None
        if self.rng.random() < 0.5:
            g = self.guess_for(x.N)
            kw = {}
            if g is not None and self.rng.random() < 0.5:
                info["refs"].append(g); info["guess"] = g
                kw["start_tens"] = self.store[g]
            return torchtt.interpolate.function_interpolate(lambda v: v * v + 1.0, x, eps=1e-8, nswp=6, **kw)
        N = list(x.N)
        if min(N) < 2:
            info["skipped"] = True; return None
        return torchtt.interpolate.dmrg_cross(lambda I: (I.sum(1) + 1.0) ** 2, N, eps=1e-8, nswp=6, dtype=tn.float64)
