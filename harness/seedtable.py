"""print the markdown table of seeded changes and which checks caught them (from seeded/*/meta.json)"""
import json, glob, os
rows = []
for d in sorted(glob.glob(os.path.join(os.path.dirname(os.path.dirname(os.path.abspath(__file__))), "seeded", "*"))):
    m = json.load(open(os.path.join(d, "meta.json")))
    ev = m.get("evaluation", [])
    first = ev[0] if ev else {}
    last = ev[-1] if ev else {}
    caught_first = first.get("caught_by")
    caught_last = last.get("caught_by")
    rows.append((os.path.basename(d), m.get("what", "")[:150].replace("|", "/"), m.get("needs", "")[:120].replace("|", "/"),
                 last.get("demo_clean"), last.get("demo_patched"), caught_first, caught_last, len(ev)))
print("| id | change | needs | demo clean / patched | caught by (first evaluation) | caught by (current checks) |")
print("|---|---|---|---|---|---|")
for r in rows:
    print("| %s | %s | %s | %s / %s | %s | %s |" % (r[0], r[1], r[2], r[3], r[4], ", ".join(r[5]) if r[5] else ("—" if r[5] is not None else "n/a"),
                                                ", ".join(r[6]) if r[6] else ("**missed**" if r[6] is not None else "n/a")))
