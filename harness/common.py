"""
Shared machinery of the torchTT verification harness.

* exact serialisation of torch tensors / TT objects into the driver's line protocol
* running the Lean driver (the executable model) and the Lean build + axiom audit
* two-level comparison (core level, then observable level), verdicts, replay files, evidence,
  known findings

Everything is run with /venv/bin/python and PYTHONPATH=/repo (set by check.py), so `torchtt`
is always the *current working tree* of /repo.
"""
import sys, os, json, time, hashlib, subprocess, re, random, traceback, warnings
from fractions import Fraction

sys.dont_write_bytecode = True
VERIF = os.path.dirname(os.path.dirname(os.path.abspath(__file__)))
LEAN = os.path.join(VERIF, "lean")
REPO = os.environ.get("TORCHTT_REPO", "/repo")
if REPO not in sys.path:
    sys.path.insert(0, REPO)
warnings.filterwarnings("ignore")

import numpy as np
import torch as tn

tn.set_num_threads(1)

ALLOWED_AXIOMS = {"propext", "Classical.choice", "Quot.sound"}
TRUSTED_BASE = [
    "Lean 4.33 kernel; Mathlib v4.33 modules imported by TTLemmas/TTProps",
    "axioms of every registered theorem ⊆ {propext, Classical.choice, Quot.sound} (checked by #print axioms on every run); no native_decide, no bv_decide, no sorry, no axioms of ours",
    "hand-written Lean models (TTModel/*.lean) — tied to /repo by the correspondence run of this check (exact, core level)",
    "the correspondence harness itself: generators, exact float->rational conversion, dense oracles written with plain torch indexing/einsum, `lake env lean --run TTModel/Driver.lean`",
    "torch tensor primitives on exactly representable inputs (einsum, pad, reshape, cat, indexing, tensordot); IEEE arithmetic exact on the chosen integer/dyadic inputs (asserted per case)",
]

# ------------------------------------------------------------------ exact numbers

def frac_of_float(x):
    x = float(x)
    if x != x or x in (float("inf"), float("-inf")):
        raise ValueError("non-finite value %r" % x)
    n, d = x.as_integer_ratio()
    return Fraction(n, d)


def fstr(fr):
    return str(fr.numerator) if fr.denominator == 1 else "%d/%d" % (fr.numerator, fr.denominator)


def num_str(z):
    """exact token of a python/numpy/torch scalar (real or complex)"""
    if isinstance(z, Fraction):
        return fstr(z)
    if isinstance(z, tuple):
        re_, im_ = z
        return fstr(re_) if im_ == 0 else fstr(re_) + "," + fstr(im_)
    if isinstance(z, complex) or (hasattr(z, "dtype") and np.iscomplexobj(z)):
        z = complex(z)
        re_, im_ = frac_of_float(z.real), frac_of_float(z.imag)
        return fstr(re_) if im_ == 0 else fstr(re_) + "," + fstr(im_)
    return fstr(frac_of_float(z))


def tensor_tokens(t):
    """row-major exact tokens of a torch tensor"""
    t = t.detach().resolve_conj() if hasattr(t, "resolve_conj") else t.detach()
    if t.is_complex():
        a = t.to(tn.complex128).reshape(-1).numpy()
        return [num_str(complex(v)) for v in a]
    a = t.to(tn.float64).reshape(-1).numpy()
    return [num_str(float(v)) for v in a]


def core_tokens(c):
    sh = list(c.shape)
    if len(sh) == 3:
        r0, m, r1 = sh
        n = 1
    elif len(sh) == 4:
        r0, m, n, r1 = sh
    else:
        raise ValueError("core with %d dims" % len(sh))
    return [str(r0), str(m), str(n), str(r1)] + tensor_tokens(c)


def tt_tokens(x):
    """serialise a torchtt.TT from its *cores* (metadata is checked separately)"""
    toks = ["M" if x.is_ttm else "T", str(len(x.cores))]
    for c in x.cores:
        toks += core_tokens(c)
    return toks


def cores_tokens(cores, is_ttm):
    toks = ["M" if is_ttm else "T", str(len(cores))]
    for c in cores:
        toks += core_tokens(c)
    return toks


def dense_tokens(t):
    t = t if tn.is_tensor(t) else tn.tensor(t)
    return [str(t.dim())] + [str(s) for s in t.shape] + tensor_tokens(t)


def out_tt(x):
    return "tt " + " ".join(tt_tokens(x))


def out_scalar(v):
    if tn.is_tensor(v):
        if v.numel() != 1:
            return "dn " + " ".join(dense_tokens(v))
        v = v.reshape(-1)[0]
        v = complex(v) if v.is_complex() else float(v)
    return "sc " + num_str(v)


def out_dense(t):
    return "dn " + " ".join(dense_tokens(t))


ERRNAMES = ("ShapeMismatch", "RankMismatch", "IncompatibleTypes", "InvalidArguments", "NotImplementedError")


def out_err(e):
    n = type(e).__name__
    return "err " + (n if n in ERRNAMES else "Other:" + n)


def outcome_of(val):
    import torchtt
    if isinstance(val, torchtt.TT):
        return out_tt(val)
    if tn.is_tensor(val):
        return out_scalar(val) if val.numel() == 1 and val.dim() == 0 else out_dense(val)
    if isinstance(val, (int, float, complex, np.generic)):
        return out_scalar(val)
    if val is None:
        return "none"
    return "other " + type(val).__name__


# ------------------------------------------------------------------ parsing outcomes (for level 2)

def parse_num(tok):
    if "," in tok:
        a, b = tok.split(",")
        return (Fraction(a), Fraction(b))
    return (Fraction(tok), Fraction(0))


def parse_tt(line):
    toks = line.split()
    assert toks[0] == "tt"
    kind = toks[1]
    d = int(toks[2])
    p = 3
    cores = []
    for _ in range(d):
        r0, m, n, r1 = (int(t) for t in toks[p:p + 4])
        p += 4
        cnt = r0 * m * n * r1
        vals = [parse_num(t) for t in toks[p:p + cnt]]
        p += cnt
        cores.append((r0, m, n, r1, vals))
    return kind, cores


def cmul(a, b):
    return (a[0] * b[0] - a[1] * b[1], a[0] * b[1] + a[1] * b[0])


def cadd(a, b):
    return (a[0] + b[0], a[1] + b[1])


def tt_full_exact(cores):
    """dense value of a parsed train, exact: dict multi-index tuple -> complex-fraction pair"""
    # state: list over (idx tuple) of row vectors
    state = {(): [(Fraction(1), Fraction(0))]}
    for (r0, m, n, r1, vals) in cores:
        new = {}
        for idx, vec in state.items():
            for i in range(m):
                for j in range(n):
                    out = []
                    for b in range(r1):
                        acc = (Fraction(0), Fraction(0))
                        for a in range(r0):
                            if vec[a] == (0, 0):
                                continue
                            acc = cadd(acc, cmul(vec[a], vals[((a * m + i) * n + j) * r1 + b]))
                        out.append(acc)
                    new[idx + ((i, j),)] = out
        state = new
    return {k: v[0] for k, v in state.items()}


def shapes_of(line):
    """(kind, [core shapes]) of a tt outcome without parsing the numbers"""
    kind, cores = parse_tt(line)
    return kind, [(c[0], c[1], c[2], c[3]) for c in cores]


def level2_equal(impl, model):
    """observable-level equality of two outcomes that differ textually"""
    if impl == model:
        return True
    a, b = impl.split(" ", 1)[0], model.split(" ", 1)[0]
    if a != b:
        return False
    if a == "tt":
        ka, ca = parse_tt(impl)
        kb, cb = parse_tt(model)
        if ka != kb or len(ca) != len(cb):
            return False
        if [(c[1], c[2]) for c in ca] != [(c[1], c[2]) for c in cb]:
            return False
        if [(c[0], c[3]) for c in ca] != [(c[0], c[3]) for c in cb]:
            return False  # ranks are observable (property clauses on rank structure)
        return tt_full_exact(ca) == tt_full_exact(cb)
    return False


# ------------------------------------------------------------------ Lean side

def run_driver(lines, timeout=1200, main="MainDriver.lean"):
    inp = "\n".join(lines) + "\n"
    p = subprocess.run(["lake", "env", "lean", "--run", main], cwd=LEAN, input=inp,
                       capture_output=True, text=True, timeout=timeout)
    if p.returncode != 0:
        raise RuntimeError("driver failed: " + p.stderr[-2000:] + p.stdout[-500:])
    out = p.stdout.split("\n")
    if out and out[-1] == "":
        out.pop()
    if len(out) != len(lines):
        raise RuntimeError("driver returned %d lines for %d inputs" % (len(out), len(lines)))
    return out


_FORBIDDEN = re.compile(r"\b(sorry|admit|native_decide|bv_decide|implemented_by)\b|^\s*axiom\s|\bunsafe\s|maxHeartbeats\s+0")


def strip_lean_comments(src):
    src = re.sub(r"/-.*?-/", "", src, flags=re.S)
    src = re.sub(r"--.*", "", src)
    return src


def lean_sources():
    """the Lean files that are part of the build: everything reachable through `import` lines from the library roots and the two driver
    entry points (a scratch file that nothing imports — e.g. a proof still being written — is not part of what is checked or run)"""
    roots = ["TTModel.lean", "TTLemmas.lean", "TTProps.lean", "MainDriver.lean", "MainAD.lean"]
    seen, todo = set(), [r for r in roots if os.path.exists(os.path.join(LEAN, r))]
    while todo:
        rel = todo.pop()
        if rel in seen:
            continue
        seen.add(rel)
        for ln in open(os.path.join(LEAN, rel)).read().split("\n"):
            m = re.match(r"\s*import\s+([A-Za-z0-9_.]+)", ln)
            if m:
                cand = m.group(1).replace(".", "/") + ".lean"
                if os.path.exists(os.path.join(LEAN, cand)):
                    todo.append(cand)
    return sorted(os.path.join(LEAN, r) for r in seen)


def lean_build_and_audit(prop, thorough=False):
    """lake build, forbidden-token grep, #print axioms for the theorems registered for `prop`.
    Returns dict(obligations, discharged, failed=[names], theorems=[...], log)."""
    reg = json.load(open(os.path.join(VERIF, "harness", "theorems.json")))
    thms = reg.get(prop, [])
    res = {"obligations": len(thms), "discharged": 0, "failed": [], "theorems": thms, "log": ""}
    p = subprocess.run(["lake", "build"], cwd=LEAN, capture_output=True, text=True, timeout=3000)
    if p.returncode != 0:
        res["failed"] = list(thms)
        res["log"] = (p.stdout + p.stderr)[-4000:]
        res["build_failed"] = True
        return res
    bad = []
    for f in lean_sources():
        src = strip_lean_comments(open(f).read())
        for ln in src.split("\n"):
            if _FORBIDDEN.search(ln):
                bad.append("%s: %s" % (os.path.relpath(f, LEAN), ln.strip()))
    if bad:
        res["failed"] = list(thms)
        res["log"] = "forbidden tokens: " + "; ".join(bad[:10])
        return res
    if not thms:
        return res
    audit = "import TTProps\n" + "\n".join("#print axioms %s" % t for t in thms) + "\n"
    apath = os.path.join(LEAN, ".lake", "Audit_%s_%d.lean" % (prop, os.getpid()))
    os.makedirs(os.path.dirname(apath), exist_ok=True)
    open(apath, "w").write(audit)
    try:
        p = subprocess.run(["lake", "env", "lean", apath], cwd=LEAN, capture_output=True, text=True, timeout=1200)
    finally:
        try:
            os.remove(apath)
        except OSError:
            pass
    txt = p.stdout + p.stderr
    res["log"] = txt[-3000:]
    ok = {}
    for m in re.finditer(r"^'(.+)' depends on axioms: \[([^\]]*)\]", txt, flags=re.M):
        ax = {a.strip() for a in m.group(2).replace("\n", " ").split(",") if a.strip()}
        ok[m.group(1)] = ax
    for m in re.finditer(r"^'(.+)' does not depend on any axioms", txt, flags=re.M):
        ok[m.group(1)] = set()
    for t in thms:
        if t in ok and ok[t] <= ALLOWED_AXIOMS:
            res["discharged"] += 1
        else:
            res["failed"].append(t)
    if thorough and not res["failed"]:
        mods = sorted({"TTProps." + prop})
        p = subprocess.run(["lake", "env", "leanchecker"] + mods, cwd=LEAN, capture_output=True, text=True, timeout=3000)
        res["leanchecker"] = "ok" if p.returncode == 0 else (p.stdout + p.stderr)[-1500:]
        if p.returncode != 0:
            res["failed"] = list(thms)
            res["discharged"] = 0
    return res


# ------------------------------------------------------------------ cases, verdicts

class Case:
    """one generated case.
    line    : model input line (None if the case has no model counterpart)
    impl    : () -> outcome string of the real code (exceptions are mapped by the runner)
    oracle  : () -> None | str ; the property's own oracle on the real code (None = holds)
    cls     : structural class label (for the distribution printed in the evidence)
    nontrivial : whether the case counts as non-trivial by the check's rule
    finding : optional signature string; if the oracle fails and this signature is listed in
              known_findings.json the failure is printed as KNOWN-FINDING
    """
    __slots__ = ("line", "impl", "oracle", "cls", "nontrivial", "finding", "desc", "gauge_ok")

    def __init__(self, line, impl, oracle=None, cls="", nontrivial=True, finding=None, desc=None, gauge_ok=True):
        self.line, self.impl, self.oracle, self.cls = line, impl, oracle, cls
        self.nontrivial, self.finding, self.desc, self.gauge_ok = nontrivial, finding, desc, gauge_ok


def load_known():
    p = os.path.join(VERIF, "known_findings.json")
    if not os.path.exists(p):
        return []
    return json.load(open(p))


def write_replay(prop, payload):
    os.makedirs(os.path.join(VERIF, "replays"), exist_ok=True)
    h = hashlib.sha1(json.dumps(payload, sort_keys=True, default=str).encode()).hexdigest()[:12]
    path = os.path.join(VERIF, "replays", "%s-%s.json" % (prop, h))
    json.dump(payload, open(path, "w"), indent=1, default=str)
    return os.path.relpath(path, VERIF)


class Result:
    def __init__(self, prop, tier, seed):
        self.prop, self.tier, self.seed = prop, tier, seed
        self.t0 = time.time()
        self.evaluations = 0
        self.classes = {}
        self.nontrivial = set()
        self.samples = []
        self.core_equal = 0
        self.gauge_drift = 0
        self.model_cases = 0
        self.violations = []      # (replay path, suffix)
        self.known_hits = {}      # signature -> count
        self.extra = {}
        self.oracle_checked = 0
        self.notes = []

    def violation(self, payload, no_input=False):
        path = write_replay(self.prop, payload)
        self.violations.append((path, no_input))


def run_cases(res, cases, known, max_samples=4):
    """execute cases: real code, model (one driver call), compare, oracles."""
    impl_out = []
    exc_txt = {}
    for ci, c in enumerate(cases):
        try:
            impl_out.append(c.impl())
        except Exception as e:  # the real code raised
            impl_out.append(out_err(e))
            tb = traceback.extract_tb(e.__traceback__)
            exc_txt[ci] = "%s: %s @ %s" % (type(e).__name__, str(e)[:300], " <- ".join("%s:%d" % (os.path.basename(f.filename), f.lineno) for f in tb[-3:]))
    lines = [c.line for c in cases if c.line is not None]
    model_out = run_driver(lines) if lines else []
    mi = 0
    known_sigs = {k["signature"] for k in known if k.get("property") == res.prop and k.get("kind") == "finding"}
    for ci, (c, io) in enumerate(zip(cases, impl_out)):
        res.evaluations += 1
        res.classes[c.cls] = res.classes.get(c.cls, 0) + 1
        if c.nontrivial:
            res.nontrivial.add(hashlib.sha1((c.cls + "|" + (c.line or c.desc or "")).encode()).hexdigest())
        if len(res.samples) < max_samples and (c.line or c.desc):
            s = (c.line or c.desc)
            res.samples.append({"class": c.cls, "case": s[:600], "impl": io[:300]})
        ofail = None
        if c.oracle is not None:
            res.oracle_checked += 1
            try:
                ofail = c.oracle()
            except Exception as e:
                ofail = "oracle raised %s: %s" % (type(e).__name__, e)
        mo = None
        corr_broken = False
        if c.line is not None:
            mo = model_out[mi]
            mi += 1
            res.model_cases += 1
            if mo.startswith("bad "):
                raise RuntimeError("driver rejected a line: %s :: %s" % (mo, c.line[:200]))
            if io == mo:
                res.core_equal += 1
            elif c.gauge_ok and level2_equal(io, mo):
                res.gauge_drift += 1
            else:
                corr_broken = True
        if ofail is not None:
            sig = c.finding
            m = re.match(r"\[finding:([^\]]+)\]", ofail)
            if m:       # the oracle itself classified the failure (value errors are never classified)
                sig = m.group(1)
            if sig and sig in known_sigs:
                res.known_hits[sig] = res.known_hits.get(sig, 0) + 1
            else:
                res.violation({"property": res.prop, "kind": "oracle-failure", "class": c.cls,
                               "case": c.line or c.desc, "impl_outcome": io, "model_outcome": mo,
                               "oracle": ofail, "seed": res.seed, "exception": exc_txt.get(ci)})
        elif corr_broken:
            if c.finding and c.finding in known_sigs:
                # inside a listed defect region the model mirrors the defective code; a difference here
                # is still a broken correspondence
                pass
            res.violation({"property": res.prop, "kind": "correspondence", "class": c.cls,
                           "case": c.line, "impl_outcome": io, "model_outcome": mo,
                           "note": "model and implementation differ on an observable; the property's own oracle "
                                   "did not fail on this input", "seed": res.seed}, no_input=True)


def finish(res, audit, level, rule, assumptions, known, extra_cov=None, thm_note=None):
    """print verdict lines, write evidence, return exit code"""
    prop = res.prop
    code = 0
    # obligations not discharged -> violation without failing input (unless a case already failed)
    if audit["failed"]:
        res.violation({"property": prop, "kind": "proof-obligation",
                       "theorems_not_checked": audit["failed"], "log": audit.get("log", "")[-1500:]},
                      no_input=True)
    for k in known:
        if k.get("property") == prop and k.get("kind") == "finding":
            n = res.known_hits.get(k["signature"], 0)
            if n > 0:
                print("KNOWN-FINDING: property=%s %s (%d case(s) this run; signature %s)" % (prop, k["what"], n, k["signature"]))
            else:
                res.notes.append("listed finding %s not reproduced in this run" % k["signature"])
    seen = set()
    have_input = any(not ni for _, ni in res.violations)
    for path, no_input in res.violations:
        if path in seen:
            continue
        if no_input and have_input:
            continue          # a concrete failing input exists: report that one, not the broken tie
        seen.add(path)
        code = 1
        print("VIOLATION property=%s replay=%s%s" % (prop, path, " no-failing-input-found" if no_input else ""))
        if len(seen) >= 5:
            break
    cov = {
        "obligations": audit["obligations"],
        "discharged": audit["discharged"],
        "checker_cmd": "cd lean && lake build && lake env lean <generated #print axioms file>" + ("; lake env leanchecker TTProps.%s" % prop if res.tier == "thorough" else ""),
        "trusted_base": TRUSTED_BASE,
        "theorems": audit["theorems"],
        "evaluations": res.evaluations,
        "distinct_nontrivial": len(res.nontrivial),
        "rule": rule,
        "samples": res.samples,
        "traces_validated_against_impl": res.model_cases,
        "core_level_equal": res.core_equal,
        "gauge_drift": res.gauge_drift,
        "oracle_evaluations": res.oracle_checked,
        "class_distribution": dict(sorted(res.classes.items())),
        "known_finding_hits": res.known_hits,
        "notes": res.notes,
    }
    if thm_note:
        cov["clauses_not_covered_by_theorem"] = thm_note
    cov.update(res.extra)
    if extra_cov:
        cov.update(extra_cov)
    ev = {"property_id": prop, "tier": res.tier, "seed": res.seed, "level": level, "coverage": cov,
          "assumptions": assumptions, "wall_s": round(time.time() - res.t0, 2), "violations": len(seen)}
    evdir = os.environ.get("VERIF_EVIDENCE_DIR") or os.path.join(VERIF, "evidence")     # seedtest.py redirects: evidence/ only ever holds runs on the unchanged tree
    os.makedirs(evdir, exist_ok=True)
    json.dump(ev, open(os.path.join(evdir, "%s.json" % prop), "w"), indent=1, default=str)
    print("%s %s: %d cases (%d distinct non-trivial), %d model traces (%d core-equal, %d gauge drift), "
          "%d/%d obligations, %d violation(s), %.1fs" % (prop, res.tier, res.evaluations, len(res.nontrivial),
          res.model_cases, res.core_equal, res.gauge_drift, audit["discharged"], audit["obligations"], len(seen),
          time.time() - res.t0))
    return code
