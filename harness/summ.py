import json,glob,collections,sys
prop=sys.argv[1]
cnt=collections.Counter(); ex={}
for f in glob.glob('/verif/replays/%s-*.json'%prop):
    d=json.load(open(f))
    key=(d['kind'], '/'.join(d.get('class','').split('/')[:2]), (d.get('oracle') or '')[:70])
    cnt[key]+=1; ex.setdefault(key,f)
for k,v in sorted(cnt.items(), key=lambda kv:-kv[1])[:25]: print(v,k,ex[k])
