"""Loop ties of the AMEn solvers (amen_solve: C12, amen_divide: C13): the local variables of the running function are read from outside
(sys.settrace, harness/trace.py) right before each direct local solve and compared with the Lean kernels / folds evaluated in exact rational
arithmetic on the floats of the run."""
import numpy as np
import torch as tn
import torchtt
from common import dense_tokens, core_tokens, cores_tokens, run_driver, parse_num
from gen import int_tensor
from util import J


def _unit(t):
    t = t.to(tn.float64)
    n = float(tn.linalg.norm(t.reshape(-1)))
    return t / n if n > 0 else t


def diag_embed_core(c):
    """[s, m, S] -> [s, m, m, S] with the mode on the diagonal"""
    s0, m, s1 = c.shape
    out = tn.zeros((s0, m, m, s1), dtype=c.dtype)
    for i in range(m):
        out[:, i, i, :] = c[:, i, :]
    return out


def solve_loop_tie(res, prop, rng, func, pattern, runs, opname, bname, embed, max_events_per_mode=3):
    """`runs`: list of (label, thunk) — thunk() calls `func` on a small system.  `opname`/`bname`: names of the local variables holding the
    operator / right-hand side TT objects; `embed`: the operator cores are 3-index and act as diagonal operators (division)."""
    from trace import LocalsTracer
    lines, expect, labels, modes = [], [], [], []
    broken = []
    for label, thunk in runs:
        count = [0]

        def on(name, loc, label=label, count=count):
            count[0] += 1
            dd = len(loc["x_cores"])
            if count[0] > max_events_per_mode * dd:      # the first sweeps are enough (each event costs several exact evaluations)
                return
            k = loc["k"]
            xs = [t.detach().clone() for t in loc["x_cores"]]
            Ac = [diag_embed_core(c) for c in loc[opname].cores] if embed else loc[opname].cores
            bc = loc[bname].cores
            PL, PR = loc["Phis"][k], loc["Phis"][k + 1]
            u = int_tensor(rng, list(xs[k].shape), tn.float64, -2, 2)
            lines.append(J("localprod", dense_tokens(PL), dense_tokens(PR), core_tokens(Ac[k]), core_tokens(u)))
            expect.append((loc["B"] @ u.reshape(-1, 1)).reshape(xs[k].shape).detach().clone()); labels.append(label + "/local_matrix"); modes.append("abs")
            lines.append(J("localrhs", dense_tokens(loc["Phis_b"][k]), dense_tokens(loc["Phis_b"][k + 1]), core_tokens(bc[k] * loc["nrmsc"])))
            expect.append(loc["rhs"].reshape(xs[k].shape).detach().clone()); labels.append(label + "/local_rhs"); modes.append("abs")
            if k > 0:
                lines.append(J("foldA", "fwd", "plain", cores_tokens(xs[:k], False), cores_tokens(Ac[:k], True), cores_tokens(xs[:k], False)))
                expect.append(PL.detach().clone()); labels.append(label + "/env_left"); modes.append("dir")
                lines.append(J("foldRhs", "fwd", cores_tokens(bc[:k], False), cores_tokens(xs[:k], False)))
                expect.append(loc["Phis_b"][k].detach().clone()); labels.append(label + "/env_left_rhs"); modes.append("dir")
            if k + 1 < dd:
                lines.append(J("foldA", "bck", "plain", cores_tokens(xs[k + 1:], False), cores_tokens(Ac[k + 1:], True), cores_tokens(xs[k + 1:], False)))
                expect.append(PR.detach().clone()); labels.append(label + "/env_right"); modes.append("dir")
                lines.append(J("foldRhs", "bck", cores_tokens(bc[k + 1:], False), cores_tokens(xs[k + 1:], False)))
                expect.append(loc["Phis_b"][k + 1].detach().clone()); labels.append(label + "/env_right_rhs"); modes.append("dir")
        tr = LocalsTracer(func, {"solve": pattern}, on)
        if tr.missing:
            broken.append("%s: source pattern %r not found" % (func.__name__, pattern))
            continue
        try:
            with tr:
                thunk()
        except Exception as e:
            broken.append("%s raised under tracing: %s: %s" % (func.__name__, type(e).__name__, str(e)[:100]))
    for bmsg in broken:
        res.violation({"property": prop, "kind": "correspondence", "class": "amen-loop/trace", "case": bmsg, "impl_outcome": bmsg,
                       "model_outcome": "observation point before the direct local solve", "note": "the loop tie of %s cannot be established" % func.__name__}, no_input=True)
    if not lines:
        return 0
    outs = run_driver(lines)
    for line, exp, lab, mode, mo in zip(lines, expect, labels, modes, outs):
        res.model_cases += 1
        toks = mo.split()
        ok = bool(toks) and toks[0] == "dn"
        worst, scale = float("inf"), 1.0
        if ok:
            nd = int(toks[1]); dims = [int(t) for t in toks[2:2 + nd]]
            ok = dims == list(exp.shape)
            if ok:
                vals = [parse_num(t) for t in toks[2 + nd:]]
                mv = tn.tensor([float(v[0]) for v in vals], dtype=tn.float64).reshape(dims)
                if mode == "dir":
                    worst = float((_unit(mv) - _unit(exp)).abs().max())
                else:
                    worst = float((mv - exp).abs().max())
                    scale = max(1.0, float(exp.abs().max()))
        if ok and worst <= 1e-8 * scale:
            res.core_equal += 1
        else:
            res.violation({"property": prop, "kind": "correspondence", "class": "amen-loop/" + lab, "case": line[:1500],
                           "impl_outcome": "shape %s" % (list(exp.shape),), "model_outcome": "%s ; max deviation %.3g" % (mo[:200], worst),
                           "note": "a quantity stored by the running AMEn loop differs from the Lean kernel / fold evaluated on the operands of the run"}, no_input=True)
    return len(lines)


def _mat_tokens(m):
    m = m.detach()
    return [str(m.shape[0]), str(m.shape[1])] + __import__("common").tensor_tokens(m)


def _model_cores(mo):
    from common import parse_tt
    kind, cores = parse_tt(mo)
    out = []
    for (r0, m, n, r1, vals) in cores:
        out.append(tn.tensor([float(v[0]) for v in vals], dtype=tn.float64).reshape(r0, m, n, r1))
    return out


def update_loop_tie(res, prop, rng, func, pats, runs, opname=None, embed=False, res_rule=True, max_events=6):
    """The block AFTER the local solve of an AMEn routine, observed in the running function and recomputed by the Lean model
    (TTModel/AmenStep.lean; theorems TT.C12d):
      * (res_rule) `res_new` / `res_old` are the true relative residuals of the local system for the new / previous local solution
        (local operator = Kern.localProduct on the environments of the run),
      * (res_rule) the bond rank chosen by the residual scan equals Amen.rankByResidual on the recorded test outcomes (which are re-derived
        here from the recorded residuals and the threshold max(real_tol*damp, res_new)),
      * the two cores written back (x_cores[k], x_cores[k+1]·norm_now) equal Amen.updatePlain / updateEnrich applied to the truncated factors,
        the enrichment block and the QR factors of the run; and the hypothesis of the theorems (Q·R = [u | uk]) holds for those factors.
    `pats`: dict name -> source text of the observation line in `func`."""
    from trace import LocalsTracer
    from common import tensor_tokens
    lines, checks, broken = [], [], []
    stats = {"events": 0, "enriched": 0, "plain": 0, "rank_rules": 0, "residuals": 0, "truncating": 0}
    for label, thunk in runs:
        st = {"n": 0, "scan": [], "vt": None, "qr": None}

        def on(name, loc, label=label, st=st):
            k = loc["k"]
            d = len(loc["x_cores"])
            if name == "res":
                if st["n"] >= max_events:
                    return
                sol = loc["solution_now"].detach().clone().to(tn.float64)
                prev = loc["previous_solution"].detach().clone().to(tn.float64)
                xk = loc["x_cores"][k]
                Ac = loc[opname].cores[k]
                Ac = diag_embed_core(Ac) if embed else Ac
                PL, PR = loc["Phis"][k], loc["Phis"][k + 1]
                rhs = loc["rhs"].detach().clone().to(tn.float64).reshape(-1)
                nr = float(loc["norm_rhs"])
                for which, vec, got in (("res_new", sol, float(loc["res_new"])), ("res_old", prev, float(loc["res_old"]))):
                    u = vec.reshape(xk.shape[0], xk.shape[1], xk.shape[-1])
                    lines.append(J("localprod", dense_tokens(PL.to(tn.float64)), dense_tokens(PR.to(tn.float64)), core_tokens(Ac.to(tn.float64)), core_tokens(u)))
                    checks.append(("residual", label + "/" + which, {"rhs": rhs, "nr": nr, "got": got, "single": bool(loc.get("use_single_precision", False)) and not loc["use_full"]}))
                st["scan"] = []
            elif name == "scan":
                thr = max(float(loc["real_tol"]) * float(loc["damp"]), float(loc["res_new"]))
                st["scan"].append((int(loc["r"]), float(loc["res"]), thr))
            elif name == "vt":
                # just before `v = v.t()`: u = U[:, :r], v = diag(s[:r]) V[:r, :]
                st["vt"] = {"k": k, "u": loc["u"].detach().clone(), "w": loc["v"].detach().clone(), "r": int(loc["r"]),
                            "sol": loc["solution_now"].detach().clone(), "n": int(loc["s"].numel()) if k < d - 1 else None,
                            "rmax": int(loc["rmax"][k + 1]) if k < d - 1 else None, "scan": list(st["scan"]),
                            "rule": res_rule and k < d - 1 and loc.get("trunc_norm", "res") != "fro"}
                st["scan"] = []
                st["qr"] = None
            elif name == "qr":
                st["qr"] = {"Q": loc["u"].detach().clone(), "R": loc["Rmat"].detach().clone(), "uk": loc["uk"].detach().clone()}
            elif name == "set":
                vt = st["vt"]
                if vt is None or vt["k"] != k or st["n"] >= max_events:
                    return
                st["n"] += 1
                stats["events"] += 1
                nxt_old = loc["x_cores"][k + 1].detach().clone()
                new_k = loc["u"].detach().clone()
                new_k1 = (loc["v"].detach().clone() * float(loc["norm_now"]))
                shp = list(loc["x_cores"][k].shape)
                rows = vt["u"].shape[0]
                solcore = vt["sol"].reshape(shp[:-1] + [vt["sol"].shape[1]])
                toks = ["amenupd", core_tokens(solcore), core_tokens(nxt_old), vt["r"], _mat_tokens(vt["u"]), _mat_tokens(vt["w"])]
                if st["qr"] is not None:
                    q = st["qr"]
                    ukm = q["uk"].reshape(rows, -1)
                    toks += [1, ukm.shape[1], _mat_tokens(ukm), q["Q"].shape[1], _mat_tokens(q["Q"]), _mat_tokens(q["R"])]
                    # hypothesis of updateEnrich_chain on the factors of the run
                    M = tn.cat((vt["u"], ukm), 1)
                    dev = float((q["Q"] @ q["R"] - M).abs().max()) / max(1.0, float(M.abs().max()))
                    checks_h = dev
                    stats["enriched"] += 1
                else:
                    toks += [0]
                    checks_h = 0.0
                    stats["plain"] += 1
                lines.append(J(*toks))
                checks.append(("update", label + "/core%d" % k, {"k": new_k.reshape(shp[0], shp[1], -1, new_k.shape[-1]) if len(shp) == 3 else new_k.reshape(shp[0], shp[1], shp[2], -1),
                                                                 "k1": new_k1.reshape(new_k1.shape[0], new_k1.shape[1], -1, new_k1.shape[-1]), "qr_dev": checks_h}))
                if vt["r"] < min(vt["u"].shape[0], vt["sol"].shape[1]):
                    stats["truncating"] += 1
                if vt["rule"]:
                    n = vt["n"]
                    bads = [0] * (n - 1)
                    for (r, rs, thr) in vt["scan"]:
                        if 1 <= r <= n - 1:
                            bads[r - 1] = 1 if rs > thr else 0
                    lines.append(J("rankres", n, vt["rmax"], bads))
                    checks.append(("rank", label + "/core%d" % k, {"r": vt["r"], "scan": vt["scan"]}))
                    stats["rank_rules"] += 1
                st["vt"] = None
        tr = LocalsTracer(func, pats, on)
        if tr.missing:
            broken.append("%s: source pattern(s) %s not found" % (func.__name__, [pats[m] for m in tr.missing]))
            continue
        try:
            with tr:
                thunk()
        except Exception as e:
            broken.append("%s raised under tracing: %s: %s" % (func.__name__, type(e).__name__, str(e)[:160]))
    for bmsg in broken:
        res.violation({"property": prop, "kind": "correspondence", "class": "amen-update/trace", "case": bmsg, "impl_outcome": bmsg,
                       "model_outcome": "observation points around the core update", "note": "the update tie of %s cannot be established" % func.__name__}, no_input=True)
    if not lines:
        return stats
    outs = run_driver(lines)
    for line, (kind, lab, info), mo in zip(lines, checks, outs):
        res.model_cases += 1
        bad = None
        if kind == "residual":
            toks = mo.split()
            if toks[0] != "dn":
                bad = "model: " + mo[:100]
            else:
                nd = int(toks[1])
                vals = tn.tensor([float(parse_num(t)[0]) for t in toks[2 + nd:]], dtype=tn.float64)
                true = float(tn.linalg.norm(vals - info["rhs"])) / info["nr"] if info["nr"] > 0 else 0.0
                tol = (1e-4 if info["single"] else 1e-7) * max(true, 1e-6) + (1e-5 if info["single"] else 1e-11)
                stats["residuals"] += 1
                if not abs(true - info["got"]) <= tol:
                    bad = "the loop's %s = %.6g but the relative residual of the local system is %.6g" % (lab.split("/")[-1], info["got"], true)
        elif kind == "rank":
            if mo.split()[:1] != ["sc"] or int(mo.split()[1]) != info["r"]:
                bad = "bond rank used %d, rank rule on the recorded tests %s gives %s" % (info["r"], info["scan"], mo)
        else:
            try:
                mk, mk1 = _model_cores(mo)
                dev = max(float((mk - info["k"].to(tn.float64)).abs().max()) / max(1.0, float(mk.abs().max())) if list(mk.shape) == list(info["k"].shape) else float("inf"),
                          float((mk1 - info["k1"].to(tn.float64)).abs().max()) / max(1.0, float(mk1.abs().max())) if list(mk1.shape) == list(info["k1"].shape) else float("inf"))
            except Exception as e:
                dev = float("inf")
            if not dev <= 1e-9:
                bad = "the cores written back differ from Amen.update on the factors of the run (max relative deviation %.3g)" % dev
            elif not info["qr_dev"] <= 1e-9:
                bad = "QR factors of the enrichment do not reconstruct [u | uk] (deviation %.3g): hypothesis of updateEnrich_chain" % info["qr_dev"]
        if bad is None:
            res.core_equal += 1
        else:
            res.violation({"property": prop, "kind": "correspondence", "class": "amen-update/" + kind + "/" + lab, "case": line[:1500],
                           "impl_outcome": bad, "model_outcome": mo[:300],
                           "note": "a quantity of the running AMEn core update differs from the Lean model evaluated on the data of the run"}, no_input=True)
    return stats
