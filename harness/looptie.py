"""Loop ties of the AMEn solvers (amen_solve: C12, amen_divide: C13): the local variables of the running function are read from outside
(sys.settrace, harness/trace.py) right before each direct local solve and compared with the Lean kernels / folds evaluated in exact rational
arithmetic on the floats of the run."""
import numpy as np
import torch as tn
import torchtt
from common import dense_tokens, core_tokens, cores_tokens, run_driver, parse_num
from gen import int_tensor
from util import J


def _unit(t):
    t = t.to(tn.float64)
    n = float(tn.linalg.norm(t.reshape(-1)))
    return t / n if n > 0 else t


def diag_embed_core(c):
    """[s, m, S] -> [s, m, m, S] with the mode on the diagonal"""
    s0, m, s1 = c.shape
    out = tn.zeros((s0, m, m, s1), dtype=c.dtype)
    for i in range(m):
        out[:, i, i, :] = c[:, i, :]
    return out


def solve_loop_tie(res, prop, rng, func, pattern, runs, opname, bname, embed, max_events_per_mode=3):
    """`runs`: list of (label, thunk) — thunk() calls `func` on a small system.  `opname`/`bname`: names of the local variables holding the
    operator / right-hand side TT objects; `embed`: the operator cores are 3-index and act as diagonal operators (division)."""
    from trace import LocalsTracer
    lines, expect, labels, modes = [], [], [], []
    broken = []
    for label, thunk in runs:
        count = [0]

        def on(name, loc, label=label, count=count):
            count[0] += 1
            dd = len(loc["x_cores"])
            if count[0] > max_events_per_mode * dd:      # the first sweeps are enough (each event costs several exact evaluations)
                return
            k = loc["k"]
            xs = [t.detach().clone() for t in loc["x_cores"]]
            Ac = [diag_embed_core(c) for c in loc[opname].cores] if embed else loc[opname].cores
            bc = loc[bname].cores
            PL, PR = loc["Phis"][k], loc["Phis"][k + 1]
            u = int_tensor(rng, list(xs[k].shape), tn.float64, -2, 2)
            lines.append(J("localprod", dense_tokens(PL), dense_tokens(PR), core_tokens(Ac[k]), core_tokens(u)))
            expect.append((loc["B"] @ u.reshape(-1, 1)).reshape(xs[k].shape).detach().clone()); labels.append(label + "/local_matrix"); modes.append("abs")
            lines.append(J("localrhs", dense_tokens(loc["Phis_b"][k]), dense_tokens(loc["Phis_b"][k + 1]), core_tokens(bc[k] * loc["nrmsc"])))
            expect.append(loc["rhs"].reshape(xs[k].shape).detach().clone()); labels.append(label + "/local_rhs"); modes.append("abs")
            if k > 0:
                lines.append(J("foldA", "fwd", "plain", cores_tokens(xs[:k], False), cores_tokens(Ac[:k], True), cores_tokens(xs[:k], False)))
                expect.append(PL.detach().clone()); labels.append(label + "/env_left"); modes.append("dir")
                lines.append(J("foldRhs", "fwd", cores_tokens(bc[:k], False), cores_tokens(xs[:k], False)))
                expect.append(loc["Phis_b"][k].detach().clone()); labels.append(label + "/env_left_rhs"); modes.append("dir")
            if k + 1 < dd:
                lines.append(J("foldA", "bck", "plain", cores_tokens(xs[k + 1:], False), cores_tokens(Ac[k + 1:], True), cores_tokens(xs[k + 1:], False)))
                expect.append(PR.detach().clone()); labels.append(label + "/env_right"); modes.append("dir")
                lines.append(J("foldRhs", "bck", cores_tokens(bc[k + 1:], False), cores_tokens(xs[k + 1:], False)))
                expect.append(loc["Phis_b"][k + 1].detach().clone()); labels.append(label + "/env_right_rhs"); modes.append("dir")
        tr = LocalsTracer(func, {"solve": pattern}, on)
        if tr.missing:
            broken.append("%s: source pattern %r not found" % (func.__name__, pattern))
            continue
        try:
            with tr:
                thunk()
        except Exception as e:
            broken.append("%s raised under tracing: %s: %s" % (func.__name__, type(e).__name__, str(e)[:100]))
    for bmsg in broken:
        res.violation({"property": prop, "kind": "correspondence", "class": "amen-loop/trace", "case": bmsg, "impl_outcome": bmsg,
                       "model_outcome": "observation point before the direct local solve", "note": "the loop tie of %s cannot be established" % func.__name__}, no_input=True)
    if not lines:
        return 0
    outs = run_driver(lines)
    for line, exp, lab, mode, mo in zip(lines, expect, labels, modes, outs):
        res.model_cases += 1
        toks = mo.split()
        ok = bool(toks) and toks[0] == "dn"
        worst, scale = float("inf"), 1.0
        if ok:
            nd = int(toks[1]); dims = [int(t) for t in toks[2:2 + nd]]
            ok = dims == list(exp.shape)
            if ok:
                vals = [parse_num(t) for t in toks[2 + nd:]]
                mv = tn.tensor([float(v[0]) for v in vals], dtype=tn.float64).reshape(dims)
                if mode == "dir":
                    worst = float((_unit(mv) - _unit(exp)).abs().max())
                else:
                    worst = float((mv - exp).abs().max())
                    scale = max(1.0, float(exp.abs().max()))
        if ok and worst <= 1e-8 * scale:
            res.core_equal += 1
        else:
            res.violation({"property": prop, "kind": "correspondence", "class": "amen-loop/" + lab, "case": line[:1500],
                           "impl_outcome": "shape %s" % (list(exp.shape),), "model_outcome": "%s ; max deviation %.3g" % (mo[:200], worst),
                           "note": "a quantity stored by the running AMEn loop differs from the Lean kernel / fold evaluated on the operands of the run"}, no_input=True)
    return len(lines)
