"""Translator tie (first kind of tie of the brief) for the contraction kernels of the iterative routines.

On every run the einsum / opt_einsum subscript strings of the kernel call sites are EXTRACTED FROM /repo's CURRENT SOURCE (python `ast`), translated
to Lean definitions (nested bounded sums `sumTo`, factors in operand order) and Lean's kernel checks, by definitional unfolding (`rfl`), that each
generated definition IS the hand-written model kernel the theorems are about (TTModel/Kernels*.lean).  A changed subscript string (a swapped letter, a
transposed operand, another output order) changes the generated term and the `rfl` obligation fails: the theorem no longer speaks about the code.

What the translator assumes (trusted): the semantics of einsum — output entry = sum over the letters absent from the output of the product of the
operand entries; a letter has ONE range, shared by every operand carrying it (torch raises otherwise), so the range may be read off any of them
(`prio` picks which, `order` the nesting of the sums: neither changes the value, both only make the term syntactically equal to the model's).
Operands are 3-/4-index TT cores (`coreT`: [r0, m, r1], `coreM`: [r0, m, n, r1]) or environment arrays without own dimensions (`phi2`, `phi3`)."""
import ast
import os
import re
import subprocess
import tempfile

REPO = os.environ.get("TORCHTT_REPO", "/repo")
VERIF = os.path.dirname(os.path.dirname(os.path.abspath(__file__)))
LEAN = os.path.join(VERIF, "lean")

CORE_FIELDS = {"coreT": ["r0", "m", "r1"], "coreM": ["r0", "m", "n", "r1"], "conjT": ["r0", "m", "r1"], "conjM": ["r0", "m", "n", "r1"]}

# name: Lean name of the generated def; model: the hand-written kernel; params: Lean binders (in the model's parameter order);
# operands: (Lean name, kind) in the order of the einsum call's operands
SITES = {
    "C12": [
        dict(name="phiFwdA", file="torchtt/solvers.py", func="_compute_phi_fwd_A", target="Phi_next", occ=0, model="TT.Kern.phiFwdA",
             params="(P : Phi3 α) (x A y : Core α)", operands=[("P", "phi3"), ("x", "coreT"), ("A", "coreM"), ("y", "coreT")], prio=["A", "x", "y"]),
        dict(name="phiBckA", file="torchtt/solvers.py", func="_compute_phi_bck_A", target="Phi", occ=0, model="TT.Kern.phiBckA",
             params="(P : Phi3 α) (x A y : Core α)", operands=[("P", "phi3"), ("x", "coreT"), ("A", "coreM"), ("y", "coreT")], prio=["A", "x", "y"]),
        dict(name="phiFwdRhs", file="torchtt/solvers.py", func="_compute_phi_fwd_rhs", target="Phi_next", occ=0, model="TT.Kern.phiFwdRhs",
             params="(P : Phi2 α) (b x : Core α)", operands=[("P", "phi2"), ("b", "coreT"), ("x", "coreT")], prio=["b", "x"]),
        dict(name="phiBckRhs", file="torchtt/solvers.py", func="_compute_phi_bck_rhs", target="Phi", occ=0, model="TT.Kern.phiBckRhs",
             params="(P : Phi2 α) (b x : Core α)", operands=[("P", "phi2"), ("b", "coreT"), ("x", "coreT")], prio=["b", "x"]),
        dict(name="localProduct", file="torchtt/solvers.py", func="_local_product", target="w", occ=0, model="TT.Kern.localProduct",
             params="(PL PR : Phi3 α) (A u : Core α)", operands=[("PL", "phi3"), ("A", "coreM"), ("PR", "phi3"), ("u", "coreT")], prio=["A", "u"]),
        dict(name="localRhs", file="torchtt/solvers.py", func="_amen_solve_python", target="rhs", occ=0, model="TT.Kern.localRhs",
             params="(PL PR : Phi2 α) (b : Core α)", operands=[("PL", "phi2"), ("b", "coreT"), ("PR", "phi2")], prio=["b"]),
    ],
    "C11": [
        dict(name="phiFwdAB", file="torchtt/_amen.py", func="_compute_phi_fwd_AB", target="Phi_next", occ=0, model="TT.Kern.phiFwdAB",
             params="(P : Phi3 α) (A B X : Core α)", operands=[("P", "phi3"), ("A", "coreM"), ("B", "coreM"), ("X", "coreM")], prio=["X", "A", "B"], dims={"m": "A.m", "n": "B.n"}),
        dict(name="phiBckAB", file="torchtt/_amen.py", func="_compute_phi_bck_AB", target="Phi", occ=0, model="TT.Kern.phiBckAB",
             params="(P : Phi3 α) (A B X : Core α)", operands=[("P", "phi3"), ("A", "coreM"), ("B", "coreM"), ("X", "coreM")], prio=["X", "A", "B"], dims={"m": "A.m", "n": "B.n"}),
        dict(name="localAB", file="torchtt/_amen.py", func="_local_AB", target="w", occ=0, model="TT.Kern.localAB",
             params="(PL PR : Phi3 α) (A B : Core α)", operands=[("PL", "phi3"), ("A", "coreM"), ("B", "coreM"), ("PR", "phi3")], prio=["A", "B"]),
        dict(name="phiFwdX", file="torchtt/_amen.py", func="_compute_phi_fwd_x", target="Phi_next", occ=0, model="TT.Kern.phiFwdX",
             params="(P : Phi2 α) (x y : Core α)", operands=[("P", "phi2"), ("x", "coreM"), ("y", "coreM")], prio=["x", "y"]),
        dict(name="phiBckX", file="torchtt/_amen.py", func="_compute_phi_bck_x", target="Phi", occ=0, model="TT.Kern.phiBckX",
             params="(P : Phi2 α) (x y : Core α)", operands=[("P", "phi2"), ("x", "coreM"), ("y", "coreM")], prio=["x", "y"]),
    ],
    "C13": [
        dict(name="divLocalProduct", file="torchtt/_division.py", func="local_product", target="w", occ=0, model="TT.Kern.divLocalProduct",
             params="(PL PR : Phi3 α) (y u : Core α)", operands=[("PL", "phi3"), ("y", "coreT"), ("PR", "phi3"), ("u", "coreT")], prio=["y", "u"]),
        dict(name="divPhiFwdA", file="torchtt/_division.py", func="compute_phi_fwd_A", target="Phi_next", occ=0, model="TT.Kern.divPhiFwdA",
             params="(P : Phi3 α) (x y z : Core α)", operands=[("P", "phi3"), ("x", "coreT"), ("y", "coreT"), ("z", "coreT")], prio=["y", "x", "z"], dims={"l": "x.r0", "L": "x.r1", "r": "z.r0", "R": "z.r1"}),
        dict(name="divPhiBckA", file="torchtt/_division.py", func="compute_phi_bck_A", target="Phi", occ=0, model="TT.Kern.divPhiBckA",
             params="(P : Phi3 α) (x y z : Core α)", operands=[("P", "phi3"), ("x", "coreT"), ("y", "coreT"), ("z", "coreT")], prio=["y", "x", "z"], dims={"l": "x.r0", "L": "x.r1", "r": "z.r0", "R": "z.r1"}),
        dict(name="divPhiFwdRhs", file="torchtt/_division.py", func="compute_phi_fwd_rhs", target="Phi_next", occ=0, model="TT.Kern.phiFwdRhs",
             params="(P : Phi2 α) (b x : Core α)", operands=[("P", "phi2"), ("b", "coreT"), ("x", "coreT")], prio=["b", "x"]),
        dict(name="divPhiBckRhs", file="torchtt/_division.py", func="compute_phi_bck_rhs", target="Phi", occ=0, model="TT.Kern.phiBckRhs",
             params="(P : Phi2 α) (b x : Core α)", operands=[("P", "phi2"), ("b", "coreT"), ("x", "coreT")], prio=["b", "x"]),
        dict(name="divLocalRhs", file="torchtt/_division.py", func="amen_divide", target="rhs", occ=0, model="TT.Kern.localRhs",
             params="(PL PR : Phi2 α) (b : Core α)", operands=[("PL", "phi2"), ("b", "coreT"), ("PR", "phi2")], prio=["b"]),
    ],
}

_DM = dict(file="torchtt/_dmrg.py", func="dmrg_matvec_python")
SITES["C11"] += [
    dict(_DM, name="dmrgW1a", target="W1", occ=0, model="TT.Kern.dmrgW1a", params="(cj : α → α) (PL : Phi3 α) (x1 : Core α)", app="cj PL x1",
         operands=[("PL", "phi3"), ("x1", "conjT")], prio=["x1"]),
    dict(_DM, name="dmrgW1b", target="W1", occ=1, model="TT.Kern.dmrgW1b", params="(cj : α → α) (PL : Phi3 α) (A1 x1 : Core α)", app="cj PL A1 x1",
         operands=[("A1", "conjM"), ("(gen_dmrgW1a cj PL x1)", "arr4")], prio=["A1"]),
    dict(_DM, name="dmrgW2a", target="W2", occ=0, model="TT.Kern.dmrgW2a", params="(cj : α → α) (PR : Phi3 α) (x2 : Core α)", app="cj PR x2",
         operands=[("PR", "phi3"), ("x2", "conjT")], prio=["x2"]),
    dict(_DM, name="dmrgW2b", target="W2", occ=1, model="TT.Kern.dmrgW2b", params="(cj : α → α) (PR : Phi3 α) (A2 x2 : Core α)", app="cj PR A2 x2",
         operands=[("A2", "conjM"), ("(gen_dmrgW2a cj PR x2)", "arr4")], prio=["A2"]),
    dict(_DM, name="dmrgWc", target="W", occ=0, model="TT.Kern.dmrgWc", params="(cj : α → α) (PL PR : Phi3 α) (A1 x1 A2 x2 : Core α)", app="cj PL PR A1 x1 A2 x2",
         operands=[("(gen_dmrgW1b cj PL A1 x1)", "arr4"), ("(gen_dmrgW2b cj PR A2 x2)", "arr4")], prio=[], dims={"k": "A1.r1", "l": "x1.r1"}),
    dict(_DM, name="dmrgBckA", target="Phi", occ=0, model="TT.Kern.dmrgBckA", params="(cj : α → α) (P : Phi3 α) (x : Core α)", app="cj P x",
         operands=[("P", "phi3"), ("x", "conjT")], prio=["x"]),
    dict(_DM, name="dmrgBckB", target="Phi", occ=1, model="TT.Kern.dmrgBckB", params="(cj : α → α) (P : Phi3 α) (A x : Core α)", app="cj P A x",
         operands=[("A", "conjM"), ("(gen_dmrgBckA cj P x)", "arr4")], prio=["A"]),
    dict(_DM, name="dmrgBckC", target="Phi", occ=2, model="TT.Kern.dmrgBckC", params="(cj : α → α) (P : Phi3 α) (y A x : Core α)", app="cj P y A x",
         operands=[("(gen_dmrgBckB cj P A x)", "arr4"), ("y", "coreT")], prio=["y"], dims={"j": "A.m"}),
    dict(_DM, name="dmrgFwdA", target="Phi_next", occ=0, model="TT.Kern.dmrgFwdA", params="(cj : α → α) (P : Phi3 α) (x : Core α)", app="cj P x",
         operands=[("P", "phi3"), ("x", "conjT")], prio=["x"]),
    dict(_DM, name="dmrgFwdB", target="Phi_next", occ=1, model="TT.Kern.dmrgFwdB", params="(cj : α → α) (P : Phi3 α) (A x : Core α)", app="cj P A x",
         operands=[("(gen_dmrgFwdA cj P x)", "arr4"), ("A", "conjM")], prio=["A"]),
    dict(_DM, name="dmrgFwdC", target="Phi_next", occ=2, model="TT.Kern.dmrgFwdC", params="(cj : α → α) (P : Phi3 α) (y A x : Core α)", app="cj P y A x",
         operands=[("y", "coreT"), ("(gen_dmrgFwdB cj P A x)", "arr4")], prio=["y"], dims={"j": "A.m"}),
]

_DH = dict(file="torchtt/_dmrg.py", func="dmrg_hadamard_python")
SITES["C11"] += [
    dict(_DH, name="hadW1a", target="W1", occ=0, model="TT.Kern.dmrgW1a", params="(cj : α → α) (PL : Phi3 α) (x1 : Core α)", app="cj PL x1",
         operands=[("PL", "phi3"), ("x1", "conjT")], prio=["x1"]),
    dict(_DH, name="hadW1b", target="W1", occ=1, model="TT.Kern.hadW1b", params="(cj : α → α) (PL : Phi3 α) (z1 x1 : Core α)", app="cj PL z1 x1",
         operands=[("z1", "conjT"), ("(gen_hadW1a cj PL x1)", "arr4")], prio=["z1"]),
    dict(_DH, name="hadW2a", target="W2", occ=0, model="TT.Kern.dmrgW2a", params="(cj : α → α) (PR : Phi3 α) (x2 : Core α)", app="cj PR x2",
         operands=[("PR", "phi3"), ("x2", "conjT")], prio=["x2"]),
    dict(_DH, name="hadW2b", target="W2", occ=1, model="TT.Kern.hadW2b", params="(cj : α → α) (PR : Phi3 α) (z2 x2 : Core α)", app="cj PR z2 x2",
         operands=[("z2", "conjT"), ("(gen_hadW2a cj PR x2)", "arr4")], prio=["z2"]),
    dict(_DH, name="hadWc", target="W", occ=0, model="TT.Kern.hadWc", params="(cj : α → α) (PL PR : Phi3 α) (z1 x1 z2 x2 : Core α)", app="cj PL PR z1 x1 z2 x2",
         operands=[("(gen_hadW1b cj PL z1 x1)", "arr4"), ("(gen_hadW2b cj PR z2 x2)", "arr4")], prio=[], dims={"k": "z1.r1", "l": "x1.r1"}),
    dict(_DH, name="hadBckA", target="Phi", occ=0, model="TT.Kern.dmrgBckA", params="(cj : α → α) (P : Phi3 α) (x : Core α)", app="cj P x",
         operands=[("P", "phi3"), ("x", "conjT")], prio=["x"]),
    dict(_DH, name="hadBckB", target="Phi", occ=1, model="TT.Kern.hadBckB", params="(cj : α → α) (P : Phi3 α) (z x : Core α)", app="cj P z x",
         operands=[("z", "conjT"), ("(gen_hadBckA cj P x)", "arr4")], prio=["z"]),
    dict(_DH, name="hadBckC", target="Phi", occ=2, model="TT.Kern.hadBckC", params="(cj : α → α) (P : Phi3 α) (y z x : Core α)", app="cj P y z x",
         operands=[("(gen_hadBckB cj P z x)", "arr4"), ("y", "coreT")], prio=["y"], dims={"j": "z.m"}),
    dict(_DH, name="hadFwdA", target="Phi_next", occ=0, model="TT.Kern.dmrgFwdA", params="(cj : α → α) (P : Phi3 α) (x : Core α)", app="cj P x",
         operands=[("P", "phi3"), ("x", "conjT")], prio=["x"]),
    dict(_DH, name="hadFwdB", target="Phi_next", occ=1, model="TT.Kern.hadFwdB", params="(cj : α → α) (P : Phi3 α) (z x : Core α)", app="cj P z x",
         operands=[("(gen_hadFwdA cj P x)", "arr4"), ("z", "conjT")], prio=["z"]),
    dict(_DH, name="hadFwdC", target="Phi_next", occ=2, model="TT.Kern.hadFwdC", params="(cj : α → α) (P : Phi3 α) (y z x : Core α)", app="cj P y z x",
         operands=[("y", "coreT"), ("(gen_hadFwdB cj P z x)", "arr4")], prio=["y"], dims={"j": "z.m"}),
]

SITES["C16"] = [
    dict(name="pleftStep", file="torchtt/manifold.py", func="riemannian_projection", target="tmp", occ=0, model="TT.Manifold.pleftStep",
         params="(P : Phi2 α) (l z : Core α)", operands=[("P", "phi2"), ("l", "coreM"), ("z", "coreM")], prio=["l", "z"]),
    dict(name="prightStep", file="torchtt/manifold.py", func="riemannian_projection", target="tmp", occ=2, model="TT.Manifold.prightStep",
         params="(P : Phi2 α) (rc z : Core α)", operands=[("P", "phi2"), ("rc", "coreM"), ("z", "coreM")], prio=["rc", "z"]),
]

_BL = dict(file="torchtt/_aux_ops.py", func="bilinear_form_aux")
SITES["C07"] = [
    dict(_BL, name="bilA", target="result", occ=0, model="TT.bilA", params="(cj : α → α) (T : Nat → Nat → Nat → α) (x : Core α)", app="cj T x",
         operands=[("T", "phi3"), ("x", "conjT")], prio=["x"]),
    dict(_BL, name="bilB", target="result", occ=1, model="TT.bilB", params="(cj : α → α) (T : Nat → Nat → Nat → α) (x A : Core α)", app="cj T x A",
         operands=[("(gen_bilA cj T x)", "arr4"), ("A", "coreM")], prio=["A"]),
    dict(_BL, name="bilC", target="result", occ=2, model="TT.bilC", params="(cj : α → α) (T : Nat → Nat → Nat → α) (x A y : Core α)", app="cj T x A y",
         operands=[("(gen_bilB cj T x A)", "arr4"), ("y", "coreT")], prio=["y"], dims={"n": "A.n"}),
]


class SiteError(Exception):
    pass


def _find_calls(tree, func):
    """all `target = <einsum|contract>('subs', ops…)` assignments inside the function `func` (any nesting level), in source order"""
    out = []
    for node in ast.walk(tree):
        if isinstance(node, (ast.FunctionDef, ast.AsyncFunctionDef)) and node.name == func:
            for sub in ast.walk(node):
                if isinstance(sub, ast.Assign) and isinstance(sub.value, ast.Call):
                    f = sub.value.func
                    fname = f.attr if isinstance(f, ast.Attribute) else (f.id if isinstance(f, ast.Name) else None)
                    if fname in ("einsum", "contract") and sub.value.args and isinstance(sub.value.args[0], ast.Constant) and isinstance(sub.value.args[0].value, str):
                        tg = sub.targets[0]
                        tname = tg.id if isinstance(tg, ast.Name) else ast.unparse(tg)
                        out.append((sub.lineno, tname, sub.value.args[0].value, [ast.unparse(a) for a in sub.value.args[1:]]))
    out.sort()
    return out


def extract(site):
    path = os.path.join(REPO, site["file"])
    tree = ast.parse(open(path).read())
    calls = [c for c in _find_calls(tree, site["func"]) if c[1] == site["target"]]
    if len(calls) <= site["occ"]:
        raise SiteError("%s: no einsum/contract assignment to `%s` #%d in %s()" % (site["file"], site["target"], site["occ"], site["func"]))
    return calls[site["occ"]]


def translate(site, subs):
    """einsum subscripts -> Lean term (string)"""
    subs = subs.replace(" ", "")
    if "->" not in subs or "." in subs:
        raise SiteError("unsupported subscripts %r" % subs)
    lhs, out = subs.split("->")
    ops = lhs.split(",")
    if len(ops) != len(site["operands"]):
        raise SiteError("%s: %d operands in the source, %d expected" % (site["name"], len(ops), len(site["operands"])))
    for (nm, kind), letters in zip(site["operands"], ops):
        want = {"phi3": 3, "phi2": 2, "coreT": 3, "coreM": 4, "conjT": 3, "conjM": 4, "arr4": 4}[kind]
        if len(letters) != want or len(set(letters)) != len(letters):
            raise SiteError("%s: operand %s (%s) has subscripts %r" % (site["name"], nm, kind, letters))
    summed = []
    for letters in ops:
        for ch in letters:
            if ch not in out and ch not in summed:
                summed.append(ch)
    if any(ch not in "".join(ops) for ch in out) or len(set(out)) != len(out):
        raise SiteError("%s: output subscripts %r" % (site["name"], out))
    order = site.get("order") or summed

    def rng(ch):
        if ch in site.get("dims", {}):
            return site["dims"][ch]
        for p in site["prio"]:
            for (nm, kind), letters in zip(site["operands"], ops):
                if nm == p and kind in CORE_FIELDS and ch in letters:
                    return "%s.%s" % (nm, CORE_FIELDS[kind][letters.index(ch)])
        raise SiteError("%s: no range for the summed letter %r" % (site["name"], ch))

    def v(ch):      # Lean variable for a subscript letter (upper and lower case are different identifiers; avoid keywords)
        return "i_" + ch if ch.islower() else "I_" + ch
    facs = []
    for (nm, kind), letters in zip(site["operands"], ops):
        ix = [v(ch) for ch in letters]
        if kind in ("phi3", "phi2", "arr4"):
            facs.append("%s %s" % (nm, " ".join(ix)))
        elif kind == "conjT":
            facs.append("cj (%s.get %s %s 0 %s)" % (nm, ix[0], ix[1], ix[2]))
        elif kind == "conjM":
            facs.append("cj (%s.get %s)" % (nm, " ".join(ix)))
        elif kind == "coreT":
            facs.append("%s.get %s %s 0 %s" % (nm, ix[0], ix[1], ix[2]))
        else:
            facs.append("%s.get %s" % (nm, " ".join(ix)))
    body = " * ".join(facs)
    for ch in reversed(order):
        body = "sumTo %s (fun %s => %s)" % (rng(ch), v(ch), body)
    return "fun %s => %s" % (" ".join(v(ch) for ch in out), body)


def generate(prop):
    """returns (lean source, [(theorem name, site, subscripts, operand source)], [site errors])"""
    defs, thms, errs = [], [], []
    for site in SITES.get(prop, []):
        try:
            lineno, tname, subs, args = extract(site)
            term = translate(site, subs)
        except (SiteError, OSError, SyntaxError) as e:
            errs.append((site["name"], str(e)))
            continue
        pnames = re.findall(r"\(([^:]+):", site["params"])
        app = site.get("app") or " ".join(" ".join(p.split()) for p in pnames)
        defs.append("/-- %s:%d  `%s = …('%s', %s)` -/\ndef gen_%s %s :=\n  %s\n" % (site["file"], lineno, tname, subs, ", ".join(args), site["name"], site["params"], term))
        defs.append("theorem gen_%s_eq %s : gen_%s %s = %s %s := rfl\n" % (site["name"], site["params"], site["name"], app, site["model"], app))
        thms.append(("gen_%s_eq" % site["name"], site, subs, args, lineno))
    src = ("import TTModel.Kernels\nimport TTModel.KernelsDiv\nimport TTModel.KernelsDmrg\nimport TTModel.Manifold\nimport TTModel.Reduce\n/-! GENERATED by harness/einsum2lean.py from the current source of /repo — do not edit -/\n"
           "set_option linter.unusedSectionVars false\nnamespace TT.Gen\nopen TT TT.Kern\nvariable {α : Type} [Zero α] [One α] [Add α] [Mul α]\n\n" + "\n".join(defs) + "\nend TT.Gen\n")
    return src, thms, errs


def check(res, prop):
    """generate, compile, report.  Every site is one obligation; a failing one is a broken tie (no concrete input by itself)."""
    src, thms, errs = generate(prop)
    gdir = os.path.join(LEAN, ".lake", "gen")
    os.makedirs(gdir, exist_ok=True)
    fd, path = tempfile.mkstemp(prefix="Einsum_%s_" % prop, suffix=".lean", dir=gdir)
    os.write(fd, src.encode()); os.close(fd)
    try:
        p = subprocess.run(["lake", "env", "lean", path], cwd=LEAN, capture_output=True, text=True, timeout=900)
    finally:
        keep = os.path.join(gdir, "Einsum_%s.lean" % prop)
        try:
            os.replace(path, keep)        # the last generated file is kept for inspection (git-ignored build directory)
        except OSError:
            pass
    txt = p.stdout + p.stderr
    failed = {}
    lines = src.split("\n")
    for m in re.finditer(r":(\d+):(\d+): error:(.*)", txt):
        ln = int(m.group(1))
        # which theorem does the error line belong to
        for k in range(ln - 1, -1, -1):
            mm = re.match(r"(?:theorem|def) (gen_\w+)", lines[k]) if k < len(lines) else None
            if mm:
                failed.setdefault(mm.group(1).replace("_eq", "") if False else mm.group(1), m.group(3).strip()[:160])
                break
    if p.returncode != 0 and not failed:
        failed["<file>"] = txt[-300:]
    ok = 0
    for (tn_, site, subs, args, lineno) in thms:
        bad = failed.get(tn_) or failed.get("gen_" + site["name"])
        res.model_cases += 1
        if bad is None:
            ok += 1
            res.core_equal += 1
        else:
            res.violation({"property": prop, "kind": "generated-model", "class": "einsum-translation/" + site["name"],
                           "case": "%s:%d  %s = einsum('%s', %s)" % (site["file"], lineno, site["target"], subs, ", ".join(args)),
                           "impl_outcome": "subscripts in the current source: '%s'" % subs,
                           "model_outcome": "theorem TT.Gen.%s (generated definition = %s, by rfl) no longer checks: %s" % (tn_, site["model"], bad),
                           "note": "the contraction written in the source is not the kernel the theorems of this property are about"}, no_input=True)
    for nm, msg in errs:
        res.model_cases += 1
        res.violation({"property": prop, "kind": "generated-model", "class": "einsum-translation/" + nm, "case": msg, "impl_outcome": msg,
                       "model_outcome": "call site not found / not translatable", "note": "the translator tie of kernel %s cannot be established" % nm}, no_input=True)
    res.extra["translated_einsum_sites"] = {"sites": len(thms) + len(errs), "definitionally_equal_to_model": ok,
                                            "subscripts": {s["name"]: sub for (_, s, sub, _, _) in thms}}
    return ok, len(thms) + len(errs)


if __name__ == "__main__":
    import sys
    for prop in (sys.argv[1:] or sorted(SITES)):
        src, thms, errs = generate(prop)
        print(src)
        print(errs)
