#!/bin/bash
# collect_seed.sh <prop> <round-suffix> : copy /tmp/${SEEDROOT:-seed5}/<prop>/_seed into seeded/<prop>-<suffix>, evaluate (demo clean/patched, suite, all quick checks), remove the worktree
set -e
P=$1; SUF=$2; SRC=/tmp/${SEEDROOT:-seed5}/$P/_seed; DST=/verif/seeded/$P-$SUF
mkdir -p $DST
cp $SRC/patch.diff $SRC/demo.py $SRC/meta.json $DST/
[ -f $SRC/build_cpp.py ] && cp $SRC/build_cpp.py $DST/
git -C /repo worktree remove --force /tmp/${SEEDROOT:-seed5}/$P 2>/dev/null || true
rm -rf /tmp/${SEEDROOT:-seed5}/$P
cd /verif && /venv/bin/python harness/seedtest.py seeded/$P-$SUF --checks ${CHECKS:-all} $3 2>&1 | python3 -c "
import sys,json
t=sys.stdin.read()
try:
    i=t.index('{'); e=json.loads(t[i:]); print('$P-$SUF', e['demo_clean'], e['demo_patched'], e.get('suite_patched'), e['caught_by'])
except Exception as ex: print('$P-$SUF', 'ERR', t[-400:])
"
