// verification-only pybind shim: exposes rank_chop of the repository's cpp/ortho.h for exact comparison with the Lean model
#include "ortho.h"

int rank_chop_shim(torch::Tensor s, double eps) { return rank_chop(s, eps); }

PYBIND11_MODULE(TORCH_EXTENSION_NAME, m) {
  m.def("rank_chop", &rank_chop_shim, "rank_chop of cpp/ortho.h");
}
