#!/venv/bin/python
"""Evaluate a seeded change: harness/seedtest.py <seed_dir> [--checks C03,C04] [--suite]

seed_dir holds patch.diff, demo.py, meta.json (property).  Steps (all in scratch worktrees except the check run, which must see /repo):
 1. demo.py on a clean scratch worktree  -> must PASS
 2. demo.py with the patch applied       -> must FAIL
 3. (--suite) the repository's test-suite with the patch applied -> must pass as on the clean tree
 4. apply the patch to /repo, run the listed checks (default: the property's own check; `all` for every check), revert /repo immediately
Results are appended to <seed_dir>/meta.json under "evaluation"."""
import json, os, subprocess, sys, tempfile, shutil, time

REPO = "/repo"
VERIF = os.path.dirname(os.path.dirname(os.path.abspath(__file__)))
PY = "/venv/bin/python"


def sh(cmd, cwd=None, env=None, timeout=3600):
    p = subprocess.run(cmd, cwd=cwd, env=env, capture_output=True, text=True, timeout=timeout)
    return p.returncode, p.stdout + p.stderr


def main():
    args = sys.argv[1:]
    seed = os.path.abspath(args[0])
    checks = None
    suite = "--suite" in args
    if "--checks" in args:
        checks = args[args.index("--checks") + 1]
    meta = json.load(open(os.path.join(seed, "meta.json")))
    prop = meta["property"]
    patch = os.path.join(seed, "patch.diff")
    ev = {"at": time.strftime("%Y-%m-%d %H:%M:%S"), "repo_head": sh(["git", "-C", REPO, "rev-parse", "--short", "HEAD"])[1].strip()}
    wt = tempfile.mkdtemp(prefix="ttverif_seed_", dir="/tmp")
    os.rmdir(wt)
    try:
        rc, out = sh(["git", "-C", REPO, "worktree", "add", "-q", "--detach", wt, "HEAD"])
        if rc != 0:
            print(out); return 2
        env = dict(os.environ, PYTHONPATH=wt, PYTHONDONTWRITEBYTECODE="1", TORCHTT_REPO=wt, TT_CPP_CACHE=os.path.join(wt, "_cppcache"),
                   OMP_NUM_THREADS=os.environ.get("SEEDTEST_THREADS", "2"), MKL_NUM_THREADS=os.environ.get("SEEDTEST_THREADS", "2"))
        rc, out = sh([PY, os.path.join(seed, "demo.py")], cwd=wt, env=env, timeout=900)
        ev["demo_clean"] = "PASS" if rc == 0 else "FAIL(rc=%d)" % rc
        rc, out = sh(["git", "-C", wt, "apply", patch])
        if rc != 0:
            ev["apply"] = "patch does not apply: " + out[-300:]
            print(ev); return 2
        rc, out = sh([PY, os.path.join(seed, "demo.py")], cwd=wt, env=env, timeout=900)
        ev["demo_patched"] = "PASS" if rc == 0 else "FAIL(rc=%d)" % rc
        if suite:
            rc, out = sh([PY, "-m", "pytest", "-q", "-p", "no:cacheprovider", "--timeout=900", "tests"], cwd=wt, env=env, timeout=1500)
            tail = [l for l in out.split("\n") if "passed" in l or "failed" in l]
            ev["suite_patched"] = tail[-1].strip() if tail else "rc=%d" % rc
    finally:
        sh(["git", "-C", REPO, "worktree", "remove", "--force", wt])
        shutil.rmtree(wt, ignore_errors=True)
    # run the checks against /repo with the patch applied
    todo = [prop] if not checks else (["C%02d" % i for i in range(1, 21)] if checks == "all" else checks.split(","))
    rc, out = sh(["git", "-C", REPO, "status", "--porcelain"])
    if out.strip():
        print("refusing: /repo is not clean"); return 2
    rc, out = sh(["git", "-C", REPO, "apply", patch])
    results = {}
    try:
        from concurrent.futures import ThreadPoolExecutor

        def one(c):
            t0 = time.time()
            rc, out = sh([PY, os.path.join(VERIF, "harness", "check.py"), c, "--tier", "quick"], cwd=VERIF, timeout=3000,
                         env=dict(os.environ, VERIF_EVIDENCE_DIR="/tmp/ttverif_seed_evidence", OMP_NUM_THREADS="2", MKL_NUM_THREADS="2"))
            lines = [l for l in out.split("\n") if l.startswith("VIOLATION") or l.startswith("KNOWN-FINDING") or l.startswith("TIMEOUT") or "INFRASTRUCTURE" in l]
            return c, rc, lines, round(time.time() - t0, 1)

        with ThreadPoolExecutor(max_workers=int(os.environ.get("SEEDTEST_JOBS", "10"))) as ex:
            outs = list(ex.map(one, todo))
        for c, rc, lines, dt in outs:
            results[c] = {"exit": rc, "lines": [l[:200] for l in lines[:3]], "s": dt}
            # keep the replay of the first violation next to the seed
            for l in lines:
                if l.startswith("VIOLATION"):
                    rp = l.split("replay=")[1].split()[0]
                    src = os.path.join(VERIF, rp)
                    if os.path.exists(src):
                        shutil.copy(src, os.path.join(seed, "replay_%s.json" % c))
                    break
    finally:
        sh(["git", "-C", REPO, "checkout", "--", "."])
    ev["checks"] = results
    ev["caught_by"] = sorted(c for c, r in results.items() if r["exit"] == 1)
    meta.setdefault("evaluation", []).append(ev)
    json.dump(meta, open(os.path.join(seed, "meta.json"), "w"), indent=1)
    print(json.dumps(ev, indent=1))
    return 0


if __name__ == "__main__":
    sys.exit(main())
