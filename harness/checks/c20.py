"""C20 — the TT linear layer computes the dense affine map it represents."""
import numpy as np
import torch as tn
import torchtt
from common import Case, cores_tokens, dense_tokens, out_dense
from gen import DTYPES, rand_modes, rand_ranks, int_tensor, dense_of_cores, exact_equal
from util import J

LEVEL = "proof"
RULE = ("size_in/size_out of 1..4 rectangular modes (sizes 1..5, pairwise distinct where possible) x rank profiles x batch shapes with "
        "0..3 leading dims x float32/float64 x initializer in {He, Glo}; after construction the cores and bias are overwritten with small "
        "integers so that forward() is exact; parameters listing and exact gradients (vs an independent dense autograd graph) are checked "
        "on every case. Non-trivial: order>1 or rank>1 or batch dims present.")
ASSUMPTIONS = ["torch.tensordot / autograd as modelled / trusted; exact float arithmetic on integer data",
               "the random initialisation's distribution is not part of the property"]


def one(cases, rng, tier, d, rep, dtname, init, preset=None):
    dt = DTYPES[dtname]
    sin = rand_modes(rng, d, 1, 5)
    sout = rand_modes(rng, d, 1, 5)
    if d >= 3:
        sin = [min(v, 3) for v in sin]; sout = [min(v, 3) for v in sout]
    R = rand_ranks(rng, d, 3)
    if preset is not None:
        sin, sout, R = [list(v) for v in preset]
    nb = rep % 4
    bshape = [rng.randint(1, 3) for _ in range(nb)]
    lo, hi = (-2, 2) if dtname == "f64" else (-1, 1)
    cores = [int_tensor(rng, [R[k], sout[k], sin[k], R[k + 1]], dt, lo, hi) for k in range(d)]
    bias = int_tensor(rng, sout, dt, -3, 3)
    x = int_tensor(rng, bshape + sin, dt, lo, hi)
    G = int_tensor(rng, bshape + sout, dt, -1, 1)
    box = {}

    def impl():
        # the sizes may be given as lists, tuples or torch.Size objects (e.g. `x.shape[1:]`)
        form = [list, tuple, tn.Size][rep % 3]
        layer = torchtt.nn.LinearLayerTT(form(sin), form(sout), list(R), dtype=dt, initializer=init)
        names = [n for n, _ in layer.named_parameters()]
        box["names"] = names
        box["shapes"] = [tuple(p.shape) for p in layer.parameters()]
        box["reqgrad"] = all(p.requires_grad for p in layer.parameters())
        box["dtypes"] = {p.dtype for p in layer.parameters()}
        with tn.no_grad():
            for p, c in zip(layer.cores, cores):
                p.copy_(c)
            layer.bias.copy_(bias)
        y = layer.forward(x.clone())
        box["y"] = y.detach().clone()
        (y * G).sum().backward()
        box["gc"] = [p.grad.clone() for p in layer.cores]
        box["gb"] = layer.bias.grad.clone()
        return out_dense(y)

    def oracle():
        if "y" not in box:
            return "constructing / running the layer raised"
        cl = [c.clone().requires_grad_(True) for c in cores]
        bl = bias.clone().requires_grad_(True)
        W = dense_of_cores(cl, True).reshape(int(np.prod(sout)), int(np.prod(sin)))
        xf = x.reshape(-1, int(np.prod(sin)))
        y2 = (xf @ W.T).reshape(bshape + sout) + bl
        e = exact_equal(box["y"], y2.detach())
        if e:
            return "forward differs from W.x+b: " + e
        (y2 * G).sum().backward()
        for k in range(d):
            e = exact_equal(box["gc"][k], cl[k].grad)
            if e:
                return "gradient of core %d differs from the dense map's: %s" % (k, e)
        e = exact_equal(box["gb"], bl.grad)
        if e:
            return "bias gradient differs: " + e
        if len(box["names"]) != d + 1 or "bias" not in box["names"]:
            return "registered parameters: %s (expected %d cores + bias)" % (box["names"], d)
        exp_shapes = sorted([(R[k], sout[k], sin[k], R[k + 1]) for k in range(d)] + [tuple(sout)])
        if sorted(box["shapes"]) != exp_shapes:
            return "parameter shapes %s" % box["shapes"]
        if not box["reqgrad"]:
            return "some parameter is not trainable"
        if box["dtypes"] != {dt}:
            return "parameter dtypes %s" % box["dtypes"]
        return None
    line = J("forward", cores_tokens(cores, True), dense_tokens(bias), dense_tokens(x))
    cases.append(Case(line, impl, oracle, "forward/d%d/b%d/%s/%s" % (d, nb, dtname, init), d > 1 or max(R) > 1 or nb > 0))


def history(cases, rng, tier, hi, d):
    """one layer object used across a history: forwards in train / eval mode, with and without autograd, interleaved with parameter updates
    (in-place copy, load_state_dict, one SGD step with integer data).  forward must be a function of the CURRENT cores and bias: every
    forward of the history is compared with the model on the parameter values of that moment."""
    dt = tn.float64
    sin = rand_modes(rng, d, 1, 3); sout = rand_modes(rng, d, 1, 3)
    R = rand_ranks(rng, d, 2)
    st = {}

    def fresh():
        return [int_tensor(rng, [R[k], sout[k], sin[k], R[k + 1]], dt, -2, 2) for k in range(d)], int_tensor(rng, sout, dt, -3, 3)
    # deterministic skeleton: inference forward, update, inference forward again (no mode switch in between); then random steps
    upd = ["copy", "load", "sgd"][hi % 3]
    steps = [("fwd", False, True), (upd,), ("fwd", False, True), ("fwd", True, False), (rng.choice(["copy", "load", "sgd"]),), ("fwd", rng.random() < 0.5, rng.random() < 0.5),
             (rng.choice(["copy", "load"]),), ("fwd", False, True)]
    cur = fresh()
    init_vals = cur
    plan, traj = [], []

    def sgd_update(cur, x, G):
        cl = [c.clone().requires_grad_(True) for c in cur[0]]
        bl = cur[1].clone().requires_grad_(True)
        W = dense_of_cores(cl, True).reshape(int(np.prod(sout)), int(np.prod(sin)))
        y = (x.reshape(-1, int(np.prod(sin))) @ W.T).reshape(list(x.shape[:1]) + sout) + bl
        (y * G).sum().backward()
        return [c.detach() - c.grad for c in cl], bl.detach() - bl.grad
    for stp in steps:
        if stp[0] == "fwd":
            nb = rng.randint(0, 2)
            x = int_tensor(rng, [rng.randint(1, 3) for _ in range(nb)] + sin, dt, -2, 2)
            plan.append(("fwd", stp[1], stp[2], x))
        elif stp[0] in ("copy", "load"):
            cur = fresh()
            plan.append((stp[0], cur))
        else:
            x, G = int_tensor(rng, [2] + sin, dt, -1, 1), int_tensor(rng, [2] + sout, dt, -1, 1)
            plan.append(("sgd", x, G))
            cur = sgd_update(cur, x, G)
        traj.append(cur)

    for si, stp in enumerate(plan):
        if stp[0] != "fwd":
            continue
        box = {}

        def impl(si=si, box=box):
            # replay the history up to and including step si on ONE persistent layer (created at the first forward)
            if "layer" not in st:
                layer = torchtt.nn.LinearLayerTT(list(sin), list(sout), list(R), dtype=dt, initializer=["He", "Glo"][hi % 2])
                with tn.no_grad():
                    for p_, c in zip(layer.cores, init_vals[0]):
                        p_.copy_(c)
                    layer.bias.copy_(init_vals[1])
                st["layer"], st["done"] = layer, 0
            layer = st["layer"]
            y = None
            while st["done"] <= si:
                op = plan[st["done"]]
                if op[0] == "fwd":
                    if layer.training != op[1]:          # switch the mode only when it changes (a redundant train()/eval() call is itself an event)
                        layer.train(op[1])
                    if op[2]:
                        with tn.no_grad():
                            y = layer.forward(op[3].clone())
                    else:
                        y = layer.forward(op[3].clone())
                elif op[0] == "copy":
                    with tn.no_grad():
                        for p_, c in zip(layer.cores, op[1][0]):
                            p_.copy_(c)
                        layer.bias.copy_(op[1][1])
                elif op[0] == "load":
                    sd = layer.state_dict()
                    keys = list(sd.keys())
                    new = {}
                    for kname in keys:
                        new[kname] = op[1][1].clone() if kname == "bias" else None
                    ck = [kname for kname in keys if kname != "bias"]
                    for kname, c in zip(ck, op[1][0]):
                        new[kname] = c.clone()
                    layer.load_state_dict(new)
                else:
                    opt = tn.optim.SGD(layer.parameters(), lr=1.0)
                    opt.zero_grad()
                    (layer.forward(op[1].clone()) * op[2]).sum().backward()
                    opt.step()
                st["done"] += 1
            box["y"] = y.detach().clone()
            box["cores"] = [p_.detach().clone() for p_ in layer.cores]
            box["bias"] = layer.bias.detach().clone()
            return out_dense(y)

        def oracle(si=si, box=box):
            if "y" not in box:
                return "the history raised"
            W = dense_of_cores([c.clone() for c in box["cores"]], True).reshape(int(np.prod(sout)), int(np.prod(sin)))
            x = plan[si][3]
            y2 = (x.reshape(-1, int(np.prod(sin))) @ W.T).reshape(list(x.shape[:x.dim() - d]) + sout) + box["bias"]
            e = exact_equal(box["y"], y2)
            if e:
                return "forward at step %d of the history differs from W.x+b of the CURRENT parameters: %s" % (si, e)
            return None
        # the model line carries the parameter values of that moment, tracked independently above (plain tensors, dense autograd for the SGD step)
        line = J("forward", cores_tokens(traj[si][0], True), dense_tokens(traj[si][1]), dense_tokens(stp[3]))
        cases.append(Case(line, impl, oracle, "history/d%d/%s/step%d" % (d, upd, si), True))


def run(res, rng, tier, known):
    from common import run_cases
    cases = []
    orders = [1, 2, 3] if tier == "quick" else [1, 2, 3, 4]
    reps = 8 if tier == "quick" else 24
    ci = 0
    for d in orders:
        for rep in range(reps):
            one(cases, rng, tier, d, rep, ["f64", "f32"][ci % 2], ["He", "Glo"][(ci // 2) % 2]); ci += 1
    # deterministic family: four modes with strongly asymmetric size / rank profiles (a wide last input mode, a wide first output mode, a
    # size-1 output mode, equal middle output modes) — any sweep-order or cost-driven variant of the contraction must give the same map
    fam4 = [([2, 2, 2, 5], [5, 2, 2, 2], [1, 2, 3, 2, 1]), ([2, 3, 2, 4], [4, 3, 3, 2], [1, 2, 2, 3, 1]), ([2, 2, 3, 5], [4, 2, 3, 1], [1, 3, 2, 2, 1]),
            ([5, 2, 2, 2], [2, 2, 2, 5], [1, 2, 3, 2, 1]), ([1, 1, 1, 3], [2, 1, 2, 1], [1, 2, 2, 2, 1]), ([1, 1, 1, 3], [2, 1, 2, 1], [1, 2, 2, 2, 1]),
            ([1, 1, 1, 3], [2, 1, 2, 1], [1, 2, 2, 2, 1])]
    fam2 = [([1, 4], [2, 3], [1, 2, 1]), ([1, 4], [2, 3], [1, 2, 1]), ([1, 4], [2, 3], [1, 2, 1]), ([1, 1, 5], [2, 2, 1], [1, 2, 2, 1]), ([1, 1, 5], [2, 2, 1], [1, 2, 2, 1]),
            ([1, 1], [3, 2], [1, 2, 1])]
    for fi, pre in enumerate(fam2):
        one(cases, rng, tier, len(pre[0]), fi, ["f64", "f32"][fi % 2], ["He", "Glo"][(fi // 2) % 2], preset=pre)
    for fi, pre in enumerate(fam4):
        one(cases, rng, tier, 4, fi, ["f64", "f32"][fi % 2], ["He", "Glo"][(fi // 2) % 2], preset=pre)
    for hi in range(6 if tier == "quick" else 40):
        history(cases, rng, tier, hi, [2, 3, 2][hi % 3])
    # invalid initializer must raise InvalidArguments
    def bad():
        torchtt.nn.LinearLayerTT([2], [2], [1, 1], initializer="xx")
        return "none"
    cases.append(Case(None, bad, lambda: None, "bad-initializer", False, desc="initializer='xx'"))
    run_cases(res, cases, known)
    return {"level": LEVEL, "rule": RULE, "assumptions": ASSUMPTIONS,
            "not_by_theorem": ["parameter registration and gradients (oracle-checked against an independent dense autograd graph)",
                               "variance of the random initialisation"]}
