"""C20 — the TT linear layer computes the dense affine map it represents."""
import numpy as np
import torch as tn
import torchtt
from common import Case, cores_tokens, dense_tokens, out_dense
from gen import DTYPES, rand_modes, rand_ranks, int_tensor, dense_of_cores, exact_equal
from util import J

LEVEL = "proof"
RULE = ("size_in/size_out of 1..4 rectangular modes (sizes 1..5, pairwise distinct where possible) x rank profiles x batch shapes with "
        "0..3 leading dims x float32/float64 x initializer in {He, Glo}; after construction the cores and bias are overwritten with small "
        "integers so that forward() is exact; parameters listing and exact gradients (vs an independent dense autograd graph) are checked "
        "on every case. Non-trivial: order>1 or rank>1 or batch dims present.")
ASSUMPTIONS = ["torch.tensordot / autograd as modelled / trusted; exact float arithmetic on integer data",
               "the random initialisation's distribution is not part of the property"]


def one(cases, rng, tier, d, rep, dtname, init):
    dt = DTYPES[dtname]
    sin = rand_modes(rng, d, 1, 5)
    sout = rand_modes(rng, d, 1, 5)
    if d >= 3:
        sin = [min(v, 3) for v in sin]; sout = [min(v, 3) for v in sout]
    R = rand_ranks(rng, d, 3)
    nb = rep % 4
    bshape = [rng.randint(1, 3) for _ in range(nb)]
    lo, hi = (-2, 2) if dtname == "f64" else (-1, 1)
    cores = [int_tensor(rng, [R[k], sout[k], sin[k], R[k + 1]], dt, lo, hi) for k in range(d)]
    bias = int_tensor(rng, sout, dt, -3, 3)
    x = int_tensor(rng, bshape + sin, dt, lo, hi)
    G = int_tensor(rng, bshape + sout, dt, -1, 1)
    box = {}

    def impl():
        layer = torchtt.nn.LinearLayerTT(list(sin), list(sout), list(R), dtype=dt, initializer=init)
        names = [n for n, _ in layer.named_parameters()]
        box["names"] = names
        box["shapes"] = [tuple(p.shape) for p in layer.parameters()]
        box["reqgrad"] = all(p.requires_grad for p in layer.parameters())
        box["dtypes"] = {p.dtype for p in layer.parameters()}
        with tn.no_grad():
            for p, c in zip(layer.cores, cores):
                p.copy_(c)
            layer.bias.copy_(bias)
        y = layer.forward(x.clone())
        box["y"] = y.detach().clone()
        (y * G).sum().backward()
        box["gc"] = [p.grad.clone() for p in layer.cores]
        box["gb"] = layer.bias.grad.clone()
        return out_dense(y)

    def oracle():
        if "y" not in box:
            return "constructing / running the layer raised"
        cl = [c.clone().requires_grad_(True) for c in cores]
        bl = bias.clone().requires_grad_(True)
        W = dense_of_cores(cl, True).reshape(int(np.prod(sout)), int(np.prod(sin)))
        xf = x.reshape(-1, int(np.prod(sin)))
        y2 = (xf @ W.T).reshape(bshape + sout) + bl
        e = exact_equal(box["y"], y2.detach())
        if e:
            return "forward differs from W.x+b: " + e
        (y2 * G).sum().backward()
        for k in range(d):
            e = exact_equal(box["gc"][k], cl[k].grad)
            if e:
                return "gradient of core %d differs from the dense map's: %s" % (k, e)
        e = exact_equal(box["gb"], bl.grad)
        if e:
            return "bias gradient differs: " + e
        if len(box["names"]) != d + 1 or "bias" not in box["names"]:
            return "registered parameters: %s (expected %d cores + bias)" % (box["names"], d)
        exp_shapes = sorted([(R[k], sout[k], sin[k], R[k + 1]) for k in range(d)] + [tuple(sout)])
        if sorted(box["shapes"]) != exp_shapes:
            return "parameter shapes %s" % box["shapes"]
        if not box["reqgrad"]:
            return "some parameter is not trainable"
        if box["dtypes"] != {dt}:
            return "parameter dtypes %s" % box["dtypes"]
        return None
    line = J("forward", cores_tokens(cores, True), dense_tokens(bias), dense_tokens(x))
    cases.append(Case(line, impl, oracle, "forward/d%d/b%d/%s/%s" % (d, nb, dtname, init), d > 1 or max(R) > 1 or nb > 0))


def run(res, rng, tier, known):
    from common import run_cases
    cases = []
    orders = [1, 2, 3] if tier == "quick" else [1, 2, 3, 4]
    reps = 8 if tier == "quick" else 24
    ci = 0
    for d in orders:
        for rep in range(reps):
            one(cases, rng, tier, d, rep, ["f64", "f32"][ci % 2], ["He", "Glo"][(ci // 2) % 2]); ci += 1
    # invalid initializer must raise InvalidArguments
    def bad():
        torchtt.nn.LinearLayerTT([2], [2], [1, 1], initializer="xx")
        return "none"
    cases.append(Case(None, bad, lambda: None, "bad-initializer", False, desc="initializer='xx'"))
    run_cases(res, cases, known)
    return {"level": LEVEL, "rule": RULE, "assumptions": ASSUMPTIONS,
            "not_by_theorem": ["parameter registration and gradients (oracle-checked against an independent dense autograd graph)",
                               "variance of the random initialisation"]}
