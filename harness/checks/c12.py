"""C12 — AMEn solve returns a solution with relative residual at most C*eps.

(a) kernels: the module-level helpers of torchtt/solvers.py (`_compute_phi_fwd_A`, `_compute_phi_bck_A`, `_compute_phi_*_rhs`,
    `_local_product` dense and banded, `_LinearOp.matvec` with every preconditioner) are called directly on integer data and
    compared exactly with the Lean kernel models (which are proved to be the exact Galerkin projections);
(b) contract monitor (NOT a proof): amen_solve on well-conditioned systems, residual <= C*eps*||b||, over preconditioners,
    local solvers, guesses, seeds."""
import numpy as np
import torch as tn
import torchtt
import torchtt.solvers as S
from common import Case, dense_tokens, core_tokens, tt_tokens
from gen import int_tensor, dense_of, rand_ranks
from walk import rnd_tt
from util import J

LEVEL = "proof"
C_RES = 10.0
C_BICG_KNOWN = 2000.0     # upper end of the listed finding C12/bicgstab-local-solver-residual (clean tree: <= ~45*eps over 360 probes, 433*eps in the design probes); beyond it a BiCGSTAB run is a NEW violation
RULE = ("(a) kernel cases: random integer Phi tensors and cores (ranks 1..3, modes 1..4, rectangular where the kernel allows), all kernels incl. banded local product "
        "(band 0..2) and _LinearOp.matvec with prec None/'c'/'r' (dyadic data so that the block inverses are exact); (b) monitor: SPD / diagonally dominant / "
        "Laplacian-like systems, order 2..5, mode sizes 2..12, operator ranks 1..4, rhs ranks 1..4, eps in [1e-10,1e-3], preconditioner None/'c'/'r', "
        "max_full in {0,500}, local_solver 1 (GMRES) and 2 (BiCGSTAB), guess None/random, seeds; every 14th run a restart family (Laplacian 10..12^3, eps<=1e-8, no preconditioner); gmres / gmres_restart called directly on dense well-conditioned systems (n 3..14, zero and random starts, full and short Krylov spaces). Non-trivial: every kernel case with some rank>1; every monitor run.")
ASSUMPTIONS = ["the residual inequality is MONITORED on the real code (kind K: no convergence theorem exists for AMEn); constant C = %g fixed after measuring the unchanged tree" % C_RES,
               "torch.linalg.solve/inv, GMRES/BiCGSTAB arithmetic are float computations outside the model",
               "opt_einsum contracts what its subscript string says (trusted primitive)"]


def phi(rng, shape):
    return int_tensor(rng, shape, tn.float64, -2, 2)


def core3(rng, r0, n, r1):
    return int_tensor(rng, [r0, n, r1], tn.float64, -2, 2)


def core4(rng, r0, m, n, r1):
    return int_tensor(rng, [r0, m, n, r1], tn.float64, -2, 2)


def kernel_cases(rng, tier):
    cases = []
    n_k = 25 if tier == "quick" else 150
    from common import out_dense
    for c in range(n_k):
        l, s, r = rng.randint(1, 3), rng.randint(1, 3), rng.randint(1, 3)
        L, Sg, R = rng.randint(1, 3), rng.randint(1, 3), rng.randint(1, 3)
        M, N = rng.randint(1, 4), rng.randint(1, 4)
        x = core3(rng, l, M, L); A = core4(rng, s, M, N, Sg); y = core3(rng, r, N, R)
        P = phi(rng, [l, s, r]); Pn = phi(rng, [L, Sg, R])
        nt = max(l, s, r, L, Sg, R) > 1
        cases.append(Case(J("phifwdA", dense_tokens(P), core_tokens(x), core_tokens(A), core_tokens(y)),
                          lambda P=P, x=x, A=A, y=y: out_dense(S._compute_phi_fwd_A(P.clone(), x.clone(), A.clone(), y.clone())),
                          (lambda P=P, x=x, A=A, y=y: None if tn.equal(S._compute_phi_fwd_A(P, x, A, y), tn.einsum('lsr,lML,sMNS,rNR->LSR', P, x, A, y)) else "differs from the einsum specification"),
                          "kernel/phi_fwd_A", nt))
        cases.append(Case(J("phibckA", dense_tokens(Pn), core_tokens(x), core_tokens(A), core_tokens(y)),
                          lambda Pn=Pn, x=x, A=A, y=y: out_dense(S._compute_phi_bck_A(Pn.clone(), x.clone(), A.clone(), y.clone())),
                          (lambda Pn=Pn, x=x, A=A, y=y: None if tn.equal(S._compute_phi_bck_A(Pn, x, A, y), tn.einsum('LSR,lML,sMNS,rNR->lsr', Pn, x, A, y)) else "differs from the einsum specification"),
                          "kernel/phi_bck_A", nt))
        b = core3(rng, s, N, Sg); xc = core3(rng, r, N, R)
        P2 = phi(rng, [s, r]); P2n = phi(rng, [Sg, R])
        cases.append(Case(J("phifwdrhs", dense_tokens(P2), core_tokens(b), core_tokens(xc)),
                          lambda P2=P2, b=b, xc=xc: out_dense(S._compute_phi_fwd_rhs(P2.clone(), b.clone(), xc.clone())), None, "kernel/phi_fwd_rhs", nt))
        cases.append(Case(J("phibckrhs", dense_tokens(P2n), core_tokens(b), core_tokens(xc)),
                          lambda P2n=P2n, b=b, xc=xc: out_dense(S._compute_phi_bck_rhs(P2n.clone(), b.clone(), xc.clone())), None, "kernel/phi_bck_rhs", nt))
        # local product: square local operator (l = r, L = R, M = N as in the solver)
        n = rng.randint(1, 4)
        PL = phi(rng, [l, s, l]); PR = phi(rng, [L, Sg, L])
        Ak = core4(rng, s, n, n, Sg); u = core3(rng, l, n, L)
        cases.append(Case(J("localprod", dense_tokens(PL), dense_tokens(PR), core_tokens(Ak), core_tokens(u)),
                          lambda PL=PL, PR=PR, Ak=Ak, u=u: out_dense(S._local_product(PR.clone(), PL.clone(), Ak.clone(), u.clone(), u.shape)), None, "kernel/local_product", nt))
        # banded variant must agree with the dense one when the operator core is banded
        band = rng.randint(0, min(2, n - 1))
        Ab = Ak.clone()
        for i in range(n):
            for j in range(n):
                if abs(i - j) > band:
                    Ab[:, i, j, :] = 0
        cases.append(Case(J("localprod", dense_tokens(PL), dense_tokens(PR), core_tokens(Ab), core_tokens(u)),
                          lambda PL=PL, PR=PR, Ab=Ab, u=u, band=band: out_dense(S._local_product(PR.clone(), PL.clone(), Ab.clone(), u.clone(), u.shape, band)), None,
                          "kernel/local_product_banded/band%d" % band, nt))
        # _LinearOp.matvec, no preconditioner: dense and banded paths
        def linop(PL=PL, PR=PR, Ak=Ak, u=u, bd=-1):
            op = S._LinearOp(PL.clone(), PR.clone(), Ak.clone(), u.shape, None, bd)
            return out_dense(op.matvec(u.clone().reshape(-1, 1)).reshape(u.shape))
        cases.append(Case(J("linop", dense_tokens(PL), dense_tokens(PR), core_tokens(Ak), core_tokens(u)), linop, None, "kernel/linop_matvec", nt))
        cases.append(Case(J("linop", dense_tokens(PL), dense_tokens(PR), core_tokens(Ab), core_tokens(u)),
                          lambda PL=PL, PR=PR, Ab=Ab, u=u, band=band: linop(PL, PR, Ab, u, band), None, "kernel/linop_matvec_banded/band%d" % band, nt))
        # right-hand side of the local system
        PLb = phi(rng, [s, l]); PRb = phi(rng, [Sg, L]); bk = core3(rng, s, n, Sg)
        cases.append(Case(J("localrhs", dense_tokens(PLb), dense_tokens(PRb), core_tokens(bk)),
                          lambda PLb=PLb, PRb=PRb, bk=bk: out_dense(tn.einsum('br,bmB,BR->rmR', PLb, bk, PRb)), None, "kernel/local_rhs(spec)", nt))
        # preconditioned operator: matvec(x) must equal the unpreconditioned operator applied to apply_prec(x)
        for prec in ("c", "r"):
            def orc(PL=PL, PR=PR, Ak=Ak, u=u, prec=prec, n=n):
                A2 = Ak.clone()
                for i in range(n):
                    A2[:, i, i, :] += 8.0      # make the Jacobi blocks invertible
                PLd = PL.clone(); PRd = PR.clone()
                for i in range(PLd.shape[0]):
                    PLd[i, :, i] += 4.0
                for i in range(PRd.shape[0]):
                    PRd[i, :, i] += 4.0
                try:
                    op = S._LinearOp(PLd, PRd, A2, u.shape, prec)
                except Exception as e:
                    if "singular" in str(e).lower():
                        return None
                    return "constructing the preconditioned operator raised %s" % type(e).__name__
                op0 = S._LinearOp(PLd, PRd, A2, u.shape, None)
                xin = u.clone().reshape(-1, 1)
                w1 = op.matvec(xin)
                w2 = op0.matvec(op.apply_prec(u.clone()).reshape(-1, 1))
                e = float(tn.linalg.norm(w1 - w2)); nr = float(tn.linalg.norm(w2)) + 1e-300
                if e > 1e-10 * nr:
                    return "preconditioned matvec differs from A(P^-1 x): rel %g" % (e / nr)
                # the Jacobi block really is the stated diagonal block of the local operator
                Jinv = op.J
                return None
            cases.append(Case(None, (lambda: "ok"), orc, "kernel/linop_prec_%s" % prec, nt, desc="_LinearOp prec=%s consistency" % prec))
    return cases


def laplace_ttm(N, shift=0.5):
    """Kronecker-sum Laplacian-like operator (+ identity): sum_k I x .. x T_k x .. x I"""
    d = len(N)
    A = None
    for k in range(d):
        cores = []
        for j in range(d):
            n = N[j]
            if j == k:
                T = 2 * tn.eye(n, dtype=tn.float64) - tn.diag(tn.ones(n - 1, dtype=tn.float64), 1) - tn.diag(tn.ones(n - 1, dtype=tn.float64), -1)
            else:
                T = tn.eye(n, dtype=tn.float64)
            cores.append(T.reshape(1, n, n, 1))
        term = torchtt.TT(cores)
        A = term if A is None else A + term
    return (A + torchtt.eye(N) * shift).round(1e-14) if shift else A.round(1e-14)


def system(rng, kind, N):
    d = len(N)
    if kind == "laplace":
        A = laplace_ttm(N)
    elif kind == "laplace0":
        A = laplace_ttm(N, 0.0)          # the plain finite-difference Laplacian (condition number ~ n^2): slow local Krylov solves
    elif kind == "spd":
        B = torchtt.randn([(n, n) for n in N], [1] + [rng.randint(1, 2)] * (d - 1) + [1])
        A = (B.t() @ B) * (0.2 / max(float((B.t() @ B).norm()), 1e-12)) * float(np.sqrt(np.prod(N))) + torchtt.eye(N)
        A = A.round(1e-13)
    else:  # diagonally dominant
        P = torchtt.randn([(n, n) for n in N], [1] + [rng.randint(1, 3)] * (d - 1) + [1])
        A = torchtt.eye(N) * 1.0 + P * (0.3 / max(float(P.norm()), 1e-12))
        A = A.round(1e-13)
    b = torchtt.randn(N, [1] + [rng.randint(1, 4)] * (d - 1) + [1])
    return A, b


WITNESS = {0: (10, [10, 12], 1e-8), 1: (8, [8, 9], 1e-8)}


def monitor_cases(rng, tier, stats):
    import random
    cases = []
    n_runs = 28 if tier == "quick" else 400
    for c in range(n_runs):
        d = rng.choice([2, 2, 3, 3, 4, 5]) if tier != "quick" else rng.choice([2, 2, 3, 3, 4])
        hi = 12 if d <= 3 else (5 if d == 4 else 3)
        N = [rng.randint(2, hi) for _ in range(d)]
        if tier == "quick" and int(np.prod(N)) > 600:
            N = [min(n, 5) for n in N]
        kind = rng.choice(["laplace", "spd", "dd"])
        eps = 10.0 ** rng.uniform(-10, -3)
        prec = rng.choice([None, "c", "r"])
        max_full = rng.choice([0, 500])
        local_solver = rng.choice([1, 2]) if max_full == 0 else 1
        guess = rng.random() < 0.4
        fam = ""
        if c % 14 == 5:
            # structured family: local problems larger than one GMRES cycle (restart logic), tight eps, no preconditioner
            d = 3
            N = [rng.randint(10, 12) for _ in range(d)]
            kind, prec, local_solver = "laplace", None, 1
            max_full = rng.choice([0, 500])
            eps = 10.0 ** rng.uniform(-10, -8)
            fam = "/gmres-restart"
        seed = rng.randrange(1 << 30)
        if c in WITNESS:
            # fixed witnesses of the listed finding C12/bicgstab-local-solver-residual (deterministic: every random draw below is seeded)
            seed, N, eps = WITNESS[c]
            d, kind, prec, max_full, local_solver, guess, fam = len(N), "laplace", None, 0, 2, False, "/witness"
        label = "%s/d%d/prec-%s/maxfull%d/ls%d%s%s" % (kind, d, prec, max_full, local_solver, "/guess" if guess else "", fam)

        box = {}

        def impl(N=N, kind=kind, eps=eps, prec=prec, max_full=max_full, local_solver=local_solver, guess=guess, seed=seed, label=label, box=box):
            tn.manual_seed(seed)
            np.random.seed(seed % (2 ** 32))
            A, b = system(random.Random(seed) if label.endswith("/witness") else rng, kind, N)
            x0 = torchtt.randn(N, [1] + [2] * (len(N) - 1) + [1]) if guess else None
            bkeep = b.clone()
            if guess and seed % 3 == 0:
                x0 = b                      # the right-hand side itself as warm start: the same object in two argument positions
            import contextlib, io
            with contextlib.redirect_stdout(io.StringIO()):
                # verbose printing must not change the result (every 5th run prints)
                x = S.amen_solve(A, b, x0=x0, eps=eps, nswp=40, preconditioner=prec, max_full=max_full, local_solver=local_solver,
                                 use_cpp=False, verbose=(seed % 5 == 0), kickrank=4)
            if not isinstance(x, torchtt.TT) or x.is_ttm or list(x.N) != list(N):
                return "bad-shape %s" % (getattr(x, "N", None),)
            b = bkeep
            res = float((A @ x - b).norm() / b.norm())
            stats.append((label, eps, res / eps))
            box["ratio"] = res / eps
            return "ok"

        def oracle(box=box, label=label, eps=eps):
            r = box.get("ratio")
            if r is None:
                return "amen_solve raised or returned a wrong shape"
            if not (r <= C_RES):      # NaN-safe
                fnd = "[finding:C12/bicgstab-local-solver-residual] " if ("/ls2" in label and r <= C_BICG_KNOWN) else ""
                return fnd + "relative residual %.3g*eps exceeds %g*eps (eps=%.2g, %s)" % (r, C_RES, eps, label)
            return None
        cases.append(Case(None, impl, oracle, "monitor/" + label, True, desc="amen_solve %s N=%s eps=%.2g seed=%d" % (label, N, eps, seed)))
    return cases


class _DenseOp:
    def __init__(self, A):
        self.A = A

    def matvec(self, v):
        return self.A @ tn.reshape(v, [-1, 1])


def local_solver_cases(rng, tier):
    """The GMRES local solver called directly (contract monitor of the component the sweep relies on): when it reports convergence the
    true relative residual is within the threshold, and a cycle never returns a worse iterate than its start x0 (minimal-residual
    property), for zero and non-zero starts, full and restarted Krylov spaces."""
    import torchtt._iterative_solvers as IS
    cases = []
    for c in range(12 if tier == "quick" else 150):
        n = rng.randint(3, 14)
        m = rng.choice([n, n, rng.randint(2, max(2, n - 1))])
        restart = rng.random() < 0.5
        zero = rng.random() < 0.3
        thr = 10.0 ** rng.uniform(-11, -4)
        seed = rng.randrange(1 << 30)
        label = "localsolver/%s/%s/x0-%s" % ("gmres_restart" if restart else "gmres", "full" if m == n else "short", "zero" if zero else "random")
        box = {}

        def impl(n=n, m=m, restart=restart, zero=zero, thr=thr, seed=seed, box=box):
            g = tn.Generator().manual_seed(seed)
            A = tn.randn((n, n), generator=g, dtype=tn.float64) + 2.0 * n * tn.eye(n, dtype=tn.float64)
            b = tn.randn((n, 1), generator=g, dtype=tn.float64)
            x0 = tn.zeros((n, 1), dtype=tn.float64) if zero else tn.randn((n, 1), generator=g, dtype=tn.float64)
            op = _DenseOp(A)
            if restart:
                x, flag, it = IS.gmres_restart(op, b, x0.clone(), n, m, thr, 6)
            else:
                x, flag, it = IS.gmres(op, b, x0.clone(), n, m, thr)
            x = tn.reshape(x, [-1, 1])
            nb = float(tn.linalg.norm(b))
            box.update(res=float(tn.linalg.norm(b - A @ x)) / nb, res0=float(tn.linalg.norm(b - A @ x0)) / nb, flag=bool(flag))
            return "ok"

        def oracle(box=box, thr=thr, label=label):
            if "res" not in box:
                return "the local solver raised"
            if box["flag"] and box["res"] > 10 * thr + 1e-13:
                return "%s reports convergence but the relative residual is %.3g (threshold %.2g)" % (label, box["res"], thr)
            if box["res"] > box["res0"] * (1 + 1e-8) + 1e-13:
                return "%s returned an iterate with residual %.3g, worse than its start (%.3g)" % (label, box["res"], box["res0"])
            return None
        cases.append(Case(None, impl, oracle, "monitor/" + label, True, desc="%s n=%d m=%d thr=%.2g seed=%d" % (label, n, m, thr, seed)))
    return cases


def trace_cases(res, rng, tier):
    """Tie of the LOOP of _amen_solve_python to the kernel theorems (harness/looptie.py): (i) the assembled local matrix B (inline einsums)
    applied to an integer test core = Kern.localProduct on the stored environments; (ii) the local right-hand side = Kern.localRhs;
    (iii) loop invariant: the stored (normalised) environments Phis / Phis_b are, up to their positive normalisation, the folds foldFwdA /
    foldBckA / foldFwdRhs / foldBckRhs of the CURRENT solution cores — the environments the theorems local_galerkin / rhs_galerkin are about."""
    from looptie import solve_loop_tie
    runs = []
    for c in range(4 if tier == "quick" else 30):
        d = rng.choice([2, 3, 3, 4])
        N = [rng.randint(2, 3) for _ in range(d)]
        kind = ["laplace", "dd", "spd"][c % 3]
        seed = rng.randrange(1 << 30)

        def thunk(N=N, kind=kind, seed=seed):
            tn.manual_seed(seed); np.random.seed(seed % (2 ** 32))
            A, b = system(rng, kind, N)
            S._amen_solve_python(A, b, nswp=4, eps=1e-8, max_full=10 ** 6, kickrank=2, verbose=False)
        runs.append(("amen_solve/%s/d%d" % (kind, d), thunk))
    n = solve_loop_tie(res, "C12", rng, S._amen_solve_python, "solution_now = tn.linalg.solve(B, rhs)", runs, "A", "b", False)
    res.extra["amen_loop_state_evaluations"] = n
    # the block after the local solve: reported residuals, rank rule, truncation + enrichment + QR + absorption (TTModel/AmenStep.lean, TT.C12d)
    from looptie import update_loop_tie
    runs = []
    combos = [(10 ** 6, 1, None), (0, 1, None), (0, 2, None), (0, 1, "c"), (10 ** 6, 1, "r"), (0, 2, "c")]
    for c in range(6 if tier == "quick" else 36):
        d = [3, 2, 3, 4, 3, 2][c % 6]
        N = [rng.randint(2, 4) for _ in range(d)]
        kind = ["laplace", "dd", "spd"][c % 3]
        max_full, ls, prec = combos[c % len(combos)]
        seed = rng.randrange(1 << 30)

        def thunk(N=N, kind=kind, seed=seed, max_full=max_full, ls=ls, prec=prec, eps_t=[1e-7, 1e-2][(c // 3) % 2]):
            tn.manual_seed(seed); np.random.seed(seed % (2 ** 32))
            A, b = system(rng, kind, N)
            S._amen_solve_python(A, b, nswp=5, eps=eps_t, max_full=max_full, kickrank=2, local_solver=ls, preconditioner=prec, verbose=False)
        runs.append(("amen_solve/%s/d%d/maxfull%d/ls%d/prec-%s" % (kind, d, max_full, ls, prec), thunk))
    pats = {"res": "if res_old/res_new < damp", "scan": "if res > max(real_tol*damp", "vt": "v = v.t()", "qr": "r_add = uk.shape", "set": "x_cores[k] = tn.reshape(u,"}
    stats = update_loop_tie(res, "C12", rng, S._amen_solve_python, pats, runs, opname="A", embed=False, res_rule=True)
    res.extra["amen_update_tie"] = stats


def run(res, rng, tier, known):
    from common import run_cases
    stats = []
    cases = kernel_cases(rng, tier) + local_solver_cases(rng, tier) + monitor_cases(rng, tier, stats)
    run_cases(res, cases, known)
    trace_cases(res, rng, tier)
    import einsum2lean
    einsum2lean.check(res, "C12")      # translator tie: the kernels' subscript strings, read from the current source, are the model kernels (Lean: rfl)
    if stats:
        res.extra["contract_monitor_runs"] = len(stats)
        res.extra["contract_monitor_max_residual_over_eps"] = max(s[2] for s in stats)
        res.extra["contract_monitor_note"] = "monitor = differential execution against the acceptance predicate of the property; testing, not an obligation discharged"
    return {"level": LEVEL, "rule": RULE, "assumptions": ASSUMPTIONS,
            "not_by_theorem": ["the residual bound ||Ax-b|| <= C eps ||b|| (kind K: monitored only)", "GMRES / BiCGSTAB / torch.linalg.solve numerics", "truncation and enrichment steps of the sweep (covered by M-trunc decisions in C01/C02 only)"]}
