"""C16 — Riemannian projection is an orthogonal projector; the AD gradient is its image.

(a) `_delta2cores` called directly on integer cores and compared exactly with the Lean model (block structure [[R,0],[δ,L]]);
(b) `riemannian_projection`: the gauges (left/right orthogonal cores) the implementation computed are captured from outside, handed to the
    Lean model as exact rationals together with z, and the model's projection is compared with the real one (1e-9: the only difference is the
    float arithmetic of the einsums);
(c) the property's own oracle on the real code: linear, idempotent, self-adjoint, fixes x, residual orthogonal to projected tensors, ranks <= 2r;
    riemannian_gradient(x, f) = projection of the dense Euclidean gradient for f in {quadratic misfit, linear functional, quartic}."""
import numpy as np
import torch as tn
import torchtt
import torchtt.manifold as MF
from fractions import Fraction
from common import Case, tt_tokens, cores_tokens, run_driver, parse_tt, out_tt
from gen import int_tensor, dense_of, dense_of_cores, rand_ranks
from util import J

LEVEL = "proof"
RULE = ("base points x of order 2..5 (quick 2..4) with minimal ranks (rounded random tensors) and mode sizes 2..4, tensors and operators; z, w of arbitrary ranks; "
        "f in {0.5||y-a||², <c,y>, sum(y⊙y⊙y⊙y)} on tensors and (every third case) operators incl. base points with r_k*M_k = r_{k+1}; plus direct integer cases for _delta2cores. Non-trivial: every case.")
ASSUMPTIONS = ["QR returns orthonormal factors (gauge conditions; checked per run, 1e-9); given them the projector identities are Lean theorems (proj_selfadjoint, proj_idempotent, proj_orthogonal_projector) and are additionally checked numerically on the real code",
               "autograd for riemannian_gradient"]
TOL = 1e-9


def minimal_point(rng, N, M=None):
    d = len(N)
    R = [1] + [rng.randint(1, 3) for _ in range(d - 1)] + [1]
    x = torchtt.random(N if M is None else [(m, n) for m, n in zip(M, N)], R)
    return x.round(1e-12)


def inner(a, b):
    return float((dense_of(a) * dense_of(b)).sum())


def nrm(a):
    return float(tn.linalg.norm(dense_of(a).reshape(-1)))


def proj_case(rng, tier, ci, ties):
    d = rng.choice([2, 3, 3, 4] if tier == "quick" else [2, 3, 4, 5])
    ttm = rng.random() < 0.25 and d <= 3
    N = [rng.randint(2, 4 if d <= 3 else 3) for _ in range(d)]
    M = [rng.randint(2, 3) for _ in range(d)] if ttm else None
    seed = rng.randrange(1 << 30)
    label = "projection/%s/d%d" % ("ttm" if ttm else "tt", d)
    box = {}

    def impl():
        tn.manual_seed(seed)
        x = minimal_point(rng, N, M)
        shp = N if M is None else [(m, n) for m, n in zip(M, N)]
        z = torchtt.random(shp, [1] + [rng.randint(1, 4) for _ in range(d - 1)] + [1])
        w = torchtt.random(shp, [1] + [rng.randint(1, 3) for _ in range(d - 1)] + [1])
        captured = {}
        o_lr, o_rl = MF.lr_orthogonal, MF.rl_orthogonal

        def lr(c, R, t):
            out = o_lr(c, R, t); captured.setdefault("l", [cc.clone() for cc in out[0]]); return out

        def rl(c, R, t):
            out = o_rl(c, R, t); captured.setdefault("r", [cc.clone() for cc in out[0]]); return out
        MF.lr_orthogonal, MF.rl_orthogonal = lr, rl
        try:
            Pz = MF.riemannian_projection(x, z)
        finally:
            MF.lr_orthogonal, MF.rl_orthogonal = o_lr, o_rl
        Pw = MF.riemannian_projection(x, w)
        box.update(x=x, z=z, w=w, Pz=Pz, Pw=Pw, cap=captured)
        if "l" in captured and "r" in captured:
            ties.append((J("project", cores_tokens(captured["l"], ttm), cores_tokens(captured["r"], ttm), tt_tokens(z)), Pz, label))
        return "ok"

    def oracle():
        if "Pz" not in box:
            return "riemannian_projection raised"
        x, z, w, Pz, Pw = box["x"], box["z"], box["w"], box["Pz"], box["Pw"]
        if list(Pz.N) != list(x.N) or Pz.is_ttm != x.is_ttm:
            return "projection has shape %s" % (Pz.N,)
        for k in range(1, d):
            if Pz.R[k] > 2 * x.R[k]:
                return "rank %d at bond %d exceeds twice the rank %d of x" % (Pz.R[k], k, x.R[k])
        # hypotheses of the Lean theorems proj_idempotent / proj_fixed on the gauges the run actually used:
        # all left cores but the last left-orthonormal, all right cores but the first right-orthonormal, equal rank profiles
        cap = box["cap"]
        if "l" in cap and "r" in cap:
            ls, rs = cap["l"], cap["r"]
            if [c.shape[0] for c in ls] != [c.shape[0] for c in rs] or [c.shape[-1] for c in ls] != [c.shape[-1] for c in rs]:
                return "left and right gauges have different rank profiles"
            for k in range(d - 1):
                U = ls[k].reshape(-1, ls[k].shape[-1])
                e = float((U.T @ U - tn.eye(U.shape[1], dtype=U.dtype)).abs().max())
                if not (e <= 1e-9):
                    return "gauge hypothesis LeftOrthInit fails at core %d (|LᵀL - I| = %.3g)" % (k, e)
            for k in range(1, d):
                V = rs[k].reshape(rs[k].shape[0], -1)
                e = float((V @ V.T - tn.eye(V.shape[0], dtype=V.dtype)).abs().max())
                if not (e <= 1e-9):
                    return "gauge hypothesis RightOrthTail fails at core %d (|RRᵀ - I| = %.3g)" % (k, e)
        nz = nrm(z) + nrm(w) + 1e-300
        # linear
        a, b = 1.5, -0.75
        Pl = MF.riemannian_projection(x, a * z + b * w)
        e = float(tn.linalg.norm((dense_of(Pl) - (a * dense_of(Pz) + b * dense_of(Pw))).reshape(-1)))
        if not (e <= TOL * nz):
            return "not linear: ||P(az+bw) - aP(z) - bP(w)|| = %.3g" % e
        # idempotent
        PPz = MF.riemannian_projection(x, Pz)
        e = float(tn.linalg.norm((dense_of(PPz) - dense_of(Pz)).reshape(-1)))
        if not (e <= TOL * nz):
            return "not idempotent: ||P(P(z)) - P(z)|| = %.3g" % e
        # self-adjoint
        e = abs(inner(Pz, w) - inner(z, Pw))
        if not (e <= TOL * nz * nz):
            return "not self-adjoint: <Pz,w> - <z,Pw> = %.3g" % e
        # fixes x
        Px = MF.riemannian_projection(x, x)
        e = float(tn.linalg.norm((dense_of(Px) - dense_of(x)).reshape(-1)))
        if not (e <= TOL * (nrm(x) + 1e-300)):
            return "P(x) != x: %.3g" % e
        # residual orthogonal to projected tensors
        e = abs(float(((dense_of(z) - dense_of(Pz)) * dense_of(Pw)).sum()))
        if not (e <= TOL * nz * nz):
            return "residual z - P(z) not orthogonal to P(w): %.3g" % e
        return None
    return Case(None, impl, oracle, label, True, desc="riemannian_projection %s N=%s M=%s seed=%d" % (label, N, M, seed))


def grad_case(rng, tier, ci):
    d = rng.choice([2, 3, 3, 4])
    ttm = ci % 3 == 1 and d <= 3
    N = [rng.randint(2, 4 if d <= 3 else 3) for _ in range(d)]
    M = [rng.randint(2, 3) for _ in range(d)] if ttm else None
    fam = rng.choice(["quadratic", "linear", "quartic"])
    seed = rng.randrange(1 << 30)
    label = "gradient/%s/%s/d%d" % (fam, "ttm" if ttm else "tt", d)
    box = {}

    def impl():
        tn.manual_seed(seed)
        shp = N if M is None else [(m, n) for m, n in zip(M, N)]
        if ttm and rng.random() < 0.6:
            # base points whose rank equals the row-mode size of the preceding core (r_k * M_k == r_{k+1}: 'square' left unfoldings)
            kk = rng.randrange(d - 1)
            R = [1]
            for k in range(d - 1):
                R.append(R[k] * M[k] if (k == kk and R[k] * M[k] <= 6) or (k == 0 and kk > 0 and rng.random() < 0.5) else rng.randint(1, 3))
            R.append(1)
            x = torchtt.random(shp, R).round(1e-12)
        else:
            x = minimal_point(rng, N, M)
        a = torchtt.random(shp, [1] + [2] * (d - 1) + [1])
        da = dense_of(a)
        if fam == "quadratic":
            f_tt = lambda y: 0.5 * (y - a).norm(True)
            g_dense = lambda dy: dy - da
        elif fam == "linear":
            f_tt = (lambda y: (y * a).sum()) if ttm else (lambda y: torchtt.dot(y, a))
            g_dense = lambda dy: da
        else:
            f_tt = lambda y: ((y * y) * (y * y)).sum()
            g_dense = lambda dy: 4 * dy ** 3
        g = MF.riemannian_gradient(x, f_tt)
        G = torchtt.TT(g_dense(dense_of(x)), shape=shp if ttm else None, eps=1e-14)
        PG = MF.riemannian_projection(x, G)
        box.update(g=g, PG=PG, x=x)
        return "ok"

    def oracle():
        if "g" not in box:
            return "riemannian_gradient raised"
        g, PG, x = box["g"], box["PG"], box["x"]
        if list(g.N) != list(x.N) or g.is_ttm != x.is_ttm or (x.is_ttm and list(g.M) != list(x.M)):
            return "gradient has shape %s" % (g.N,)
        e = float(tn.linalg.norm((dense_of(g) - dense_of(PG)).reshape(-1)))
        ref = nrm(PG) + 1e-300
        if not (e <= 1e-8 * ref or e <= 1e-10):
            return "riemannian_gradient differs from the projection of the Euclidean gradient: rel %.3g (%s)" % (e / ref, label)
        return None
    return Case(None, impl, oracle, label, True, desc="riemannian_gradient %s N=%s M=%s seed=%d" % (fam, N, M, seed))


def delta_case(rng, ci):
    d = rng.randint(2, 4)
    ttm = rng.random() < 0.3
    N = [rng.randint(1, 3) for _ in range(d)]
    M = [rng.randint(1, 2) for _ in range(d)]
    R = rand_ranks(rng, d, 3)

    def mk():
        return [int_tensor(rng, [R[k], M[k], N[k], R[k + 1]] if ttm else [R[k], N[k], R[k + 1]], tn.float64, -2, 2) for k in range(d)]
    ls, rs, ds = mk(), mk(), mk()

    def impl():
        out = MF._delta2cores([c.clone() for c in ls], list(R), [c.clone() for c in ds], ttm, ortho=[[c.clone() for c in ls], [c.clone() for c in rs]])
        return "tt " + " ".join(cores_tokens(out, ttm))

    def oracle():
        out = MF._delta2cores(ls, list(R), ds, ttm, ortho=[ls, rs])
        got = dense_of_cores(out, ttm)
        exp = None
        for k in range(d):
            term = dense_of_cores(ls[:k] + [ds[k]] + rs[k + 1:], ttm)
            exp = term if exp is None else exp + term
        return None if tn.equal(got, exp) else "delta2cores does not represent sum_k L..L δ_k R..R"
    return Case(J("delta2cores", cores_tokens(ls, ttm), cores_tokens(rs, ttm), cores_tokens(ds, ttm)), impl, oracle,
                "delta2cores/%s/d%d" % ("ttm" if ttm else "tt", d), True, gauge_ok=False)


def run(res, rng, tier, known):
    from common import run_cases
    ties = []
    cases = [delta_case(rng, c) for c in range(20 if tier == "quick" else 150)]
    cases += [proj_case(rng, tier, c, ties) for c in range(16 if tier == "quick" else 200)]
    cases += [grad_case(rng, tier, c) for c in range(15 if tier == "quick" else 120)]
    run_cases(res, cases, known)
    import einsum2lean
    einsum2lean.check(res, "C16")      # translator tie: the Gram recursions Pleft / Pright (TT-matrix branch) as written in the current source are the model steps (Lean: rfl)
    # model projection from the captured gauges (exact rationals) vs the real projection (float)
    if ties:
        outs = run_driver([t[0] for t in ties])
        for (line, Pz, label), mo in zip(ties, outs):
            res.model_cases += 1
            kind, mcores = parse_tt(mo)
            real = Pz.cores
            ok = len(mcores) == len(real)
            worst = 0.0
            if ok:
                for (r0, m, n, r1, vals), c in zip(mcores, real):
                    sh = list(c.shape) if c.dim() == 4 else [c.shape[0], c.shape[1], 1, c.shape[2]]
                    if [r0, m, n, r1] != sh:
                        ok = False
                        break
                    mv = tn.tensor([float(v[0]) for v in vals], dtype=tn.float64).reshape(sh)
                    worst = max(worst, float((mv - c.reshape(sh)).abs().max()))
            scale = max(float(c.abs().max()) for c in real) + 1e-300
            if ok and worst <= 1e-9 * max(scale, 1.0):
                res.core_equal += 1
            else:
                res.violation({"property": "C16", "kind": "correspondence", "class": label, "case": line[:800], "impl_outcome": "projection cores (float)",
                               "model_outcome": "max core difference %.3g / shapes equal: %s" % (worst, ok),
                               "note": "model projection computed from the captured gauges differs from the real projection"}, no_input=True)
    return {"level": LEVEL, "rule": RULE, "assumptions": ASSUMPTIONS,
            "not_by_theorem": ["that torch's QR returns orthonormal factors (hypothesis LeftOrthInit / RightOrthTail of proj_idempotent; checked numerically on the gauges of every run)",
                               "riemannian_gradient = P(grad f) (numerical oracle + autograd)"]}
