"""C10 — reshape, permute and QTT conversion preserve the tensor up to the given eps."""
import itertools, math
import numpy as np
import torch as tn
import torchtt
from common import Case, run_driver
from gen import DTYPES, rand_tt, rand_modes, rand_ranks, dense_of, int_tensor
from checks.c01 import Recorder, replay_decisions
from util import J

LEVEL = "proof"
RULE = ("reshape: every ordered factorisation / merge of the element counts 12, 16, 24, 36 (plus singleton modes inserted at the front, middle and end) for tensors, "
        "pairs of factorisations for operators; permute: all permutations of up to 4 (quick) / 5 (thorough) modes, tensors and operators; to_qtt / qtt_to_tens on "
        "power-of-two shapes; eps in {default, 1e-10, 1e-6, 1e-2}; float64 / complex128; integer and random cores. Non-trivial: the target differs from the source shape.")
ASSUMPTIONS = ["QR / SVD contracts (monitored for SVD); the constant in 'a small multiple of eps' is fixed to 10 (plus 1e3 machine-eps)",
               "rank decisions taken inside reshape/permute are replayed through M-trunc exactly like C01/C02"]
CONST = 10.0
TIES = []


def factorizations(n, maxlen=4):
    """ordered factorisations of n into factors >= 2"""
    out = []

    def rec(rest, cur):
        if rest == 1:
            if cur:
                out.append(list(cur))
            return
        if len(cur) >= maxlen:
            return
        for f in range(2, rest + 1):
            if rest % f == 0:
                rec(rest // f, cur + [f])
    rec(n, [])
    return out


def with_ones(rng, shape):
    s = list(shape)
    k = rng.choice([0, 0, 1, 2])
    for _ in range(k):
        pos = rng.choice([0, len(s), rng.randint(0, len(s))])
        s.insert(pos, 1)
    return s


def value_oracle(box, expected, N_expected, M_expected, eps, what):
    def oracle():
        if "r" not in box:
            return what + " raised"
        r = box["r"]
        if not isinstance(r, torchtt.TT):
            return what + " did not return a TT"
        if list(r.N) != list(N_expected):
            return "%s returned mode sizes %s, requested %s" % (what, list(r.N), list(N_expected))
        if M_expected is not None and (not r.is_ttm or list(r.M) != list(M_expected)):
            return "%s returned row sizes %s, requested %s" % (what, list(r.M) if r.is_ttm else None, list(M_expected))
        exp = expected()
        got = dense_of(r).to(exp.dtype)
        if list(got.shape) != list(exp.shape):
            return "dense shape %s vs %s" % (list(got.shape), list(exp.shape))
        err = float(tn.linalg.norm((got - exp).reshape(-1)))
        nrm = float(tn.linalg.norm(exp.reshape(-1)))
        if not (err <= CONST * eps * nrm + 1e3 * 2.3e-16 * nrm + (1e-12 if nrm == 0 else 0.0)):      # NaN-safe
            return "%s: error %.3g exceeds %g*eps*norm = %.3g (eps=%g)" % (what, err, CONST, CONST * eps * nrm, eps)
        return None
    return oracle


def build(rng, tier, rec):
    cases = []
    counts = [12, 16, 24, 36] if tier != "quick" else [12, 16, 24]
    per = 10 if tier == "quick" else 60
    epss = [None, 1e-10, 1e-6, 1e-2]
    for n in counts:
        facs = factorizations(n)
        for _ in range(per):
            src = with_ones(rng, rng.choice(facs))
            dst = with_ones(rng, rng.choice(facs))
            dt = DTYPES[rng.choice(["f64", "c128"])]
            if len(src) > 6 or len(dst) > 6:
                continue
            kind = rng.choice(["int", "rand"])
            x = rand_tt(rng, src, rand_ranks(rng, len(src), 3), dt)
            if kind == "rand":
                g = tn.Generator().manual_seed(rng.randrange(1 << 30))
                x = torchtt.TT([tn.randn(c.shape, generator=g, dtype=tn.float64).to(dt) * (1 + 0j if dt == tn.complex128 else 1) for c in x.cores])
                if dt == tn.complex128:
                    x = torchtt.TT([c * complex(rng.choice([1, -1]), rng.choice([0, 1, -1])) for c in x.cores])
            eps = rng.choice(epss)
            sc = rng.choice([1.0, 1.0, 1.0, 2.0 ** -30, 2.0 ** 20])
            if sc != 1.0:
                x = torchtt.TT([c * (sc if k == 0 else 1.0) for k, c in enumerate(x.cores)])
            dx = dense_of(x)
            box = {}

            def impl(x=x, dst=dst, eps=eps, box=box):
                rec.active = True
                c0 = len(rec.calls)
                try:
                    box["r"] = torchtt.reshape(x, list(dst)) if eps is None else torchtt.reshape(x, list(dst), eps)
                finally:
                    rec.active = False
                box["nchop"] = len(rec.calls) - c0
                return "ok"
            TIES.append(("reshape", J("reshapemodes", len(src), src, len(dst), dst), box, len(dst)))
            cls = "reshape/tt/%s/%s%s" % ("same" if src == dst else "merge+split", "singletons" if 1 in src + dst else "plain", "/trailing1-src" if src[-1] == 1 else "")
            cases.append(Case(None, impl, value_oracle(box, lambda dx=dx, dst=dst: dx.reshape(dst), dst, None, eps or 1e-16, "reshape"), cls, src != dst,
                              desc="reshape N=%s -> %s eps=%s %s" % (src, dst, eps, dt)))
    # deterministic family: complex data, source ending in size-1 modes whose cores carry a phase, targets that drop / merge / keep them
    # (tensors and operators) — the unit cores left behind by the orthogonalisation sweep hold the phase of the tensor
    fam = [([4, 6, 1], [4, 6]), ([4, 6, 1], [24]), ([4, 6, 1], [2, 2, 6]), ([4, 6, 1, 1], [8, 3, 1]), ([2, 3, 1], [3, 2]), ([6, 1, 1], [2, 3]), ([1, 6, 1], [6])]
    for fi, (src, dst) in enumerate(fam):
        g = tn.Generator().manual_seed(rng.randrange(1 << 30))
        R = [1] + [rng.randint(1, 3) for _ in range(len(src) - 1)] + [1]
        cs = [tn.complex(tn.randn([R[k], src[k], R[k + 1]], generator=g, dtype=tn.float64), tn.randn([R[k], src[k], R[k + 1]], generator=g, dtype=tn.float64)) for k in range(len(src))]
        x = torchtt.TT(cs)
        dx = dense_of(x)
        box = {}

        def impl(x=x, dst=dst, box=box):
            box["r"] = torchtt.reshape(x, list(dst))
            return "ok"
        cases.append(Case(None, impl, value_oracle(box, lambda dx=dx, dst=dst: dx.reshape(dst), dst, None, 1e-16, "reshape"), "reshape/tt/complex-trailing-units/%d" % fi, True,
                          desc="reshape complex N=%s -> %s" % (src, dst)))
    famM = [([4, 2, 1], [4, 2, 1], [4, 2], [4, 2]), ([2, 1], [3, 1], [2], [3]), ([2, 2, 1, 1], [2, 3, 1, 1], [4, 1], [6, 1]), ([2, 2, 1], [2, 2, 1], [2, 2], [2, 2])]
    for fi, (sM, sN, dM, dN) in enumerate(famM):
        g = tn.Generator().manual_seed(rng.randrange(1 << 30))
        R = [1] + [rng.randint(1, 2) for _ in range(len(sM) - 1)] + [1]
        cs = [tn.complex(tn.randn([R[k], sM[k], sN[k], R[k + 1]], generator=g, dtype=tn.float64), tn.randn([R[k], sM[k], sN[k], R[k + 1]], generator=g, dtype=tn.float64)) for k in range(len(sM))]
        A = torchtt.TT(cs)
        dA = dense_of(A)
        box = {}
        shape = [(a, b) for a, b in zip(dM, dN)]

        def impl(A=A, shape=shape, box=box):
            box["r"] = torchtt.reshape(A, list(shape))
            return "ok"
        cases.append(Case(None, impl, value_oracle(box, lambda dA=dA, dM=dM, dN=dN: dA.reshape(dM + dN), dN, dM, 1e-16, "reshape(operator)"),
                          "reshape/ttm/complex-trailing-units/%d" % fi, True, desc="reshape complex operator M=%s N=%s -> %s" % (sM, sN, shape)))
        if sM == sN and all(v in (1, 2, 4) for v in sM):
            box2 = {}
            q = []
            for v in sM:
                q += [2] * {1: 0, 2: 1, 4: 2}[v]

            def impl2(A=A, box2=box2):
                box2["r"] = A.to_qtt()
                return "ok"
            cases.append(Case(None, impl2, value_oracle(box2, lambda dA=dA, q=q: dA.reshape(q + q), q, q, 1e-12, "to_qtt(operator)"),
                              "to_qtt/ttm/complex-trailing-units/%d" % fi, True, desc="to_qtt complex operator M=N=%s" % (sM,)))
    # deterministic family: splitting a mode whose new bond needs a rank far above 100 (no hidden default cap inside the splitting helper)
    for fi, (src, Rs, dst) in enumerate([([12, 144, 12], [1, 12, 12, 1], [12, 12, 12, 12]), ([16384], [1, 1], [128, 128])][: (2 if tier != "quick" else 1)]):
        g = tn.Generator().manual_seed(rng.randrange(1 << 30))
        x = torchtt.TT([tn.randn([Rs[k], src[k], Rs[k + 1]], generator=g, dtype=tn.float64) for k in range(len(src))])
        dx = dense_of(x)
        box = {}

        def impl(x=x, dst=dst, box=box):
            box["r"] = torchtt.reshape(x, list(dst), 1e-12)
            return "ok"
        cases.append(Case(None, impl, value_oracle(box, lambda dx=dx, dst=dst: dx.reshape(dst), dst, None, 1e-12, "reshape"), "reshape/tt/high-rank-split/%d" % fi, True,
                          desc="reshape N=%s R=%s -> %s" % (src, Rs, dst)))
    # operators
    for _ in range(8 if tier == "quick" else 60):
        m, n = rng.choice([(4, 6), (6, 4), (8, 4), (4, 4), (6, 6), (12, 2)])
        fm, fn = rng.choice(factorizations(m, 3)), rng.choice(factorizations(n, 3))
        L = max(len(fm), len(fn))
        srcM = fm + [1] * (L - len(fm)); srcN = fn + [1] * (L - len(fn))
        gm, gn = rng.choice(factorizations(m, 3)), rng.choice(factorizations(n, 3))
        L2 = max(len(gm), len(gn))
        dstM = gm + [1] * (L2 - len(gm)); dstN = gn + [1] * (L2 - len(gn))
        if rng.random() < 0.3:
            dstM = [1] + dstM; dstN = [1] + dstN
        dt = DTYPES[rng.choice(["f64", "c128"])]
        A = rand_tt(rng, srcN, rand_ranks(rng, L, 2), dt, M=srcM)
        dA = dense_of(A)
        eps = rng.choice(epss)
        box = {}
        shape = [(a, b) for a, b in zip(dstM, dstN)]

        def impl(A=A, shape=shape, eps=eps, box=box):
            rec.active = True
            try:
                box["r"] = torchtt.reshape(A, list(shape)) if eps is None else torchtt.reshape(A, list(shape), eps)
            finally:
                rec.active = False
            return "ok"
        cases.append(Case(None, impl, value_oracle(box, lambda dA=dA, dstM=dstM, dstN=dstN: dA.reshape(dstM + dstN), dstN, dstM, eps or 1e-16, "reshape(operator)"),
                          "reshape/ttm%s" % ("/trailing-unit-pair" if (dstM[-1], dstN[-1]) == (1, 1) else ""), True,
                          desc="reshape operator M=%s N=%s -> %s eps=%s" % (srcM, srcN, shape, eps)))
    # permute: all permutations
    maxd = 4 if tier == "quick" else 5
    for d in range(2, maxd + 1):
        perms = list(itertools.permutations(range(d)))
        if tier == "quick" and len(perms) > 12:
            perms = rng.sample(perms, 12)
        for p in perms:
            dt = DTYPES[rng.choice(["f64", "c128"])]
            N = rand_modes(rng, d, 1, 3 if d > 3 else 4, distinct=False)
            ttm = rng.random() < 0.3 and d <= 3
            M = rand_modes(rng, d, 1, 3, distinct=False) if ttm else None
            x = rand_tt(rng, N, rand_ranks(rng, d, 3), dt, M=M)
            # overall scale far from 1 (powers of two keep the integer data exact): tolerances must be RELATIVE to the norm
            sc = rng.choice([1.0, 1.0, 2.0 ** -30, 2.0 ** -20, 2.0 ** 20])
            if sc != 1.0:
                x = torchtt.TT([c * (sc if k == 0 else 1.0) for k, c in enumerate(x.cores)])
            dx = dense_of(x)
            eps = rng.choice([1e-12, 1e-8, 1e-3, 1e-1])
            box = {}

            def impl(x=x, p=p, eps=eps, box=box, d=d):
                rec.active = True
                c0 = len(rec.calls)
                try:
                    box["r"] = torchtt.permute(x, list(p), eps)
                finally:
                    rec.active = False
                box["nchop"] = len(rec.calls) - c0
                # per-swap allowance actually used, relative to the norm of the spectrum it was applied to
                worst = 0.0
                for (s_, e_, r_) in rec.calls[c0:]:
                    ns = float(np.linalg.norm(s_))
                    if ns > 0:
                        worst = max(worst, e_ / ns)
                box["allow"] = worst
                return "ok"
            TIES.append(("permute", J("permuteorder", d, list(p)), box, (list(N), list(p))))
            def with_allow(orc, box=box, eps=eps, d=d):
                def o():
                    r = orc()
                    if r:
                        return r
                    lim = eps / (d ** 1.5)
                    if box.get("allow", 0.0) > lim * (1 + 1e-6):
                        return "a swap truncated with relative allowance %.3g > eps/d^1.5 = %.3g (allowance must be relative to the norm)" % (box["allow"], lim)
                    return None
                return o
            if ttm:
                exp = lambda dx=dx, p=p, d=d: dx.permute(list(p) + [q + d for q in p])
                cases.append(Case(None, impl, with_allow(value_oracle(box, exp, [N[q] for q in p], [M[q] for q in p], eps, "permute(operator)")), "permute/ttm/d%d" % d, list(p) != list(range(d)),
                                  desc="permute operator M=%s N=%s dims=%s eps=%g" % (M, N, p, eps)))
            else:
                exp = lambda dx=dx, p=p: dx.permute(list(p))
                cases.append(Case(None, impl, with_allow(value_oracle(box, exp, [N[q] for q in p], None, eps, "permute")), "permute/tt/d%d" % d, list(p) != list(range(d)),
                                  desc="permute N=%s dims=%s eps=%g" % (N, p, eps)))
    # QTT
    for _ in range(6 if tier == "quick" else 40):
        d = rng.randint(1, 3)
        N = [rng.choice([2, 4, 8, 16, 1]) for _ in range(d)]
        dt = DTYPES[rng.choice(["f64", "c128"])]
        x = rand_tt(rng, N, rand_ranks(rng, d, 3), dt)
        dx = dense_of(x)
        box = {}

        def impl(x=x, box=box):
            rec.active = True
            try:
                box["r"] = x.to_qtt()
            finally:
                rec.active = False
            return "ok"
        Nq = []
        for n in N:
            k = int(round(math.log2(n)))
            Nq += [2] * k if k > 1 else [n]
        cases.append(Case(None, impl, value_oracle(box, lambda dx=dx, Nq=Nq: dx.reshape(Nq), Nq, None, 1e-12, "to_qtt"), "qtt/to/d%d" % d, True, desc="to_qtt N=%s" % N))
        box2 = {}

        def impl2(x=x, N=N, box2=box2):
            box2["r"] = x.to_qtt().qtt_to_tens(list(N))
            return "ok"
        cases.append(Case(None, impl2, value_oracle(box2, lambda dx=dx: dx, N, None, 1e-12, "qtt_to_tens(to_qtt)"), "qtt/roundtrip/d%d" % d, True, desc="qtt roundtrip N=%s" % N))
    for _ in range(3 if tier == "quick" else 12):
        d = rng.randint(1, 2)
        N = [rng.choice([2, 4]) for _ in range(d)]
        A = rand_tt(rng, N, rand_ranks(rng, d, 2), tn.float64, M=N)
        dA = dense_of(A)
        box = {}

        def impl(A=A, box=box):
            box["r"] = A.to_qtt()
            return "ok"
        Nq = []
        for n in N:
            Nq += [2] * int(round(math.log2(n)))
        cases.append(Case(None, impl, value_oracle(box, lambda dA=dA, Nq=Nq: dA.reshape(Nq + Nq), Nq, Nq, 1e-12, "to_qtt(operator)"), "qtt/ttm/d%d" % d, True, desc="to_qtt operator N=%s" % N))
    return cases


def run(res, rng, tier, known):
    from common import run_cases
    rec = Recorder()
    rec.install()
    try:
        cases = build(rng, tier, rec)
        run_cases(res, cases, known)
    finally:
        rec.uninstall()
    # value-level tie of permute / reshape / rl_orthogonal: exact integer oracles in place of SVD/QR, compared core by core with TTModel/Permute.lean and TTModel/Reshape.lean
    from checks.sweeps import sweep_cases
    run_cases(res, sweep_cases(rng, tier, "permute") + sweep_cases(rng, tier, "reshape") + sweep_cases(rng, tier, "rl_orthogonal")
              + sweep_cases(rng, tier, "permute_ttm") + sweep_cases(rng, tier, "reshape_ttm") + sweep_cases(rng, tier, "to_qtt"), known)
    replay_decisions(res, rec.calls, res.prop, "reshape/permute")
    # control-flow tie: mode sizes and number of SVD splits / swaps predicted by M-sweep
    ties = [t for t in TIES if "r" in t[2]]
    if ties:
        outs = run_driver([t[1] for t in ties])
        for (kind, line, box, extra), mo in zip(ties, outs):
            res.model_cases += 1
            r = box["r"]
            if kind == "reshape":
                nd = extra
                io = "modes %s splits %d" % (list(r.N), box["nchop"] - (nd - 1 if nd > 1 else 0))
            else:
                N, p = extra
                io = "order %s swaps %d" % (list(p), box["nchop"])
                if list(r.N) != [N[q] for q in p]:
                    io = "order ? swaps %d" % box["nchop"]
            if io.replace(" ", "") == mo.replace(" ", ""):
                res.core_equal += 1
            else:
                res.violation({"property": "C10", "kind": "correspondence", "class": "sweep/" + kind, "case": line, "impl_outcome": io, "model_outcome": mo,
                               "note": "mode sizes / number of SVD splits differ from the M-sweep model of the loop"}, no_input=True)
    del TIES[:]
    res.extra["svd_contract_calls_bad"] = len(rec.svd_bad)
    return {"level": LEVEL, "rule": RULE, "assumptions": ASSUMPTIONS,
            "not_by_theorem": ["the eps bound of the truncating pipeline (needs orthonormal factors from QR/SVD and, for permute, the gauge of the neighbouring cores); value preservation without truncation IS a theorem (permuteTT_full, reshapeTT_full)",
                               "TT-matrix branches of reshape / permute at value level (control flow and oracle only)"]}
