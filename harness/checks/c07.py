"""C07 — norm, inner product, sums and bilinear forms equal their dense values."""
import itertools
import numpy as np
import torch as tn
import torchtt
from common import Case, tt_tokens, num_str
from gen import DTYPES, rand_tt, rand_modes, rand_ranks, dense_of, exact_equal, close, clone_tt
from util import J, boxed, chk_val

LEVEL = "proof"
RULE = ("structured enumeration: reduction (sum all / every kind of mode subset: first, last, adjacent, scattered, all; dot full and partial; "
        "norm squared with autograd (exact Gram chain) and norm via the QR sweep (float, 1e-12 relative); bilinear form) x order 1..5 x "
        "mode/rank profiles incl. singleton modes x tensors and operators x real/complex x zero tensors. Non-trivial: order>1 or rank>1.")
ASSUMPTIONS = ["torch primitives as modelled; exact float arithmetic on integer operands",
               "QR-sweep norm (no autograd) is compared numerically (rel 1e-12) with the exact Gram value: tn.linalg.qr is trusted to return orthonormal Q"]


def subsets(d, rng, tier):
    out = [[0], [d - 1], list(range(d))]
    if d >= 2:
        out += [[0, 1], [d - 2, d - 1]]
    if d >= 3:
        out += [[0, d - 1], [1]]
    if d >= 4:
        out += [[0, 2], [1, 3], [1, 2]]
    uniq = []
    for s in out:
        if s not in uniq:
            uniq.append(s)
    if tier == "quick" and len(uniq) > 4:
        uniq = uniq[:2] + rng.sample(uniq[2:], 2)
    return uniq


def sum_oracle(box, dx, idx, N):
    def oracle():
        if "r" not in box:
            return "sum raised"
        r = box["r"]
        exp = dx.sum(dim=idx) if idx is not None else dx.sum()
        got = dense_of(r) if isinstance(r, torchtt.TT) else r
        e = exact_equal(got.reshape(-1), exp.reshape(-1))
        if e:
            return "value differs: " + e
        if list(got.shape) != list(exp.shape):
            return "[finding:C07/sum-squeezes-unsummed-singleton-modes] shape %s, dense reduction gives %s" % (list(got.shape), list(exp.shape))
        return None
    return oracle


def one(cases, rng, tier, d, rep, dtname):
    dt = DTYPES[dtname]
    N = rand_modes(rng, d, 1 if rep % 3 == 0 else 2, 4)
    zero = (rep % 7 == 6)
    x = rand_tt(rng, N, rand_ranks(rng, d, 3), dt)
    y = rand_tt(rng, N, rand_ranks(rng, d, 3), dt)
    if zero:
        x = torchtt.TT([c * 0 if i == d // 2 else c for i, c in enumerate(x.cores)])
    dx, dy = dense_of(x), dense_of(y)
    tag = "d%d/%s%s" % (d, dtname, "/zero" if zero else "")
    nt = d > 1 or max(x.R) > 1
    # --- sums
    box, impl = boxed(lambda x=x: x.sum())
    cases.append(Case(J("sumall", tt_tokens(x)), impl, sum_oracle(box, dx, None, N), "sum/all/" + tag, nt))
    for idx in subsets(d, rng, tier):
        box, impl = boxed(lambda x=x, idx=idx: x.sum(list(idx)))
        kind = "all" if len(idx) == d else ("first" if idx == [0] else "last" if idx == [d - 1] else "adjacent" if idx[-1] - idx[0] == len(idx) - 1 else "scattered")
        cases.append(Case(J("sumsel", tt_tokens(x), len(idx), idx), impl, sum_oracle(box, dx, idx, N), "sum/%s/%s" % (kind, tag), True))
    if d >= 1 and rep % 2 == 0:
        box, impl = boxed(lambda x=x: x.sum(0))
        cases.append(Case(J("sumsel", tt_tokens(x), 1, 0), impl, sum_oracle(box, dx, [0], N), "sum/intarg/" + tag, True))
    # --- dot (full)
    box, impl = boxed(lambda x=x, y=y: torchtt.dot(x, y))
    cases.append(Case(J("dot", tt_tokens(x), tt_tokens(y)), impl, chk_val(box, lambda: (dx * dy.conj()).sum() if dy.is_complex() else (dx * dy).sum()), "dot/full/" + tag, nt))
    # --- dot (partial): contract a subset of x's modes with a smaller tensor
    if d >= 2:
        for _ in range(2 if tier == "quick" else 4):
            k = rng.randint(1, d - 1)
            axis = sorted(rng.sample(range(d), k))
            b = rand_tt(rng, [N[a] for a in axis], rand_ranks(rng, k, 2), dt)
            db = dense_of(b)

            def dn(axis=axis, db=db):
                letters = "abcdefgh"[:d]
                sub = "".join(letters[a] for a in axis)
                rest = "".join(l for i, l in enumerate(letters) if i not in axis)
                return tn.einsum("%s,%s->%s" % (letters, sub, rest), dx.to(tn.complex128), db.to(tn.complex128).conj())
            box, impl = boxed(lambda x=x, b=b, axis=axis: torchtt.dot(x, b, list(axis)))
            adj = "adjacent" if axis[-1] - axis[0] == k - 1 else "scattered"

            def orc(box=box, dn=dn):
                if "r" not in box:
                    return "dot raised"
                r = box["r"]
                got = dense_of(r) if isinstance(r, torchtt.TT) else r
                exp = dn()
                e = exact_equal(got.reshape(-1), exp.reshape(-1))
                if e:
                    return "value differs: " + e
                if list(got.shape) != [s for s in exp.shape if s != 1] and list(got.shape) != list(exp.shape):
                    return "shape %s vs %s" % (list(got.shape), list(exp.shape))
                return None
            cases.append(Case(J("dotp", tt_tokens(x), tt_tokens(b), k, axis), impl, orc, "dot/partial/%s/%s" % (adj, tag), True))
    # --- norm: autograd branch (exact), QR branch (float)
    def nsq_exact():
        return (dx * dx.conj()).sum() if dx.is_complex() else (dx * dx).sum()

    def watched(x):
        z = clone_tt(x)
        torchtt.grad.watch(z)
        return z
    if dtname not in ("c128", "c64"):  # requires_grad on complex leaves is supported, keep both
        pass
    box, impl = boxed(lambda x=x: watched(x).norm(True).detach())
    cases.append(Case(J("normsq", tt_tokens(x)), impl, chk_val(box, nsq_exact), "norm/autograd-squared/" + tag, nt))
    box, impl = boxed(lambda x=x: x.norm(True))
    cases.append(Case(None, impl, chk_val(box, nsq_exact, exact=False, tol=1e-5 if dtname in ("f32", "c64") else 1e-12), "norm/qr-squared/" + tag, nt, desc="norm(True) N=%s R=%s %s" % (N, list(x.R), dtname)))
    box, impl = boxed(lambda x=x: x.norm())
    cases.append(Case(None, impl, chk_val(box, lambda: tn.sqrt(tn.abs(nsq_exact())), exact=False, tol=1e-5 if dtname in ("f32", "c64") else 1e-12), "norm/qr/" + tag, nt, desc="norm() N=%s R=%s %s" % (N, list(x.R), dtname)))
    box, impl = boxed(lambda x=x: watched(x).norm().detach())
    cases.append(Case(None, impl, chk_val(box, lambda: tn.sqrt(tn.abs(nsq_exact())), exact=False, tol=1e-5 if dtname in ("f32", "c64") else 1e-12), "norm/autograd/" + tag, nt, desc="watched norm() N=%s" % N))
    # --- norm on the QR branch for operands whose unfoldings have exactly ZERO LEADING columns (accumulator pattern zeros + z, 0*w + z) or
    #     rank-deficient blocks (z + z): the triangular factors then have zero pivots
    if d >= 2:
        for nm, mk_ in (("zeros+z", lambda x=x: torchtt.zeros(list(x.N), dtype=x.cores[0].dtype) + x), ("0w+z", lambda x=x: (x * 0) + x), ("z+z", lambda x=x: x + x)):
            xz = mk_()
            dxz = dense_of(xz)
            box, impl = boxed(lambda xz=xz: xz.norm())
            cases.append(Case(None, impl, chk_val(box, lambda dxz=dxz: tn.sqrt(tn.abs((dxz * dxz.conj()).sum())), exact=False, tol=1e-5 if dtname in ("f32", "c64") else 1e-12),
                              "norm/qr-zero-pivots/%s/%s" % (nm, tag), True, desc="norm() of %s N=%s" % (nm, N)))
            box, impl = boxed(lambda xz=xz: xz.norm(True))
            cases.append(Case(None, impl, chk_val(box, lambda dxz=dxz: (dxz * dxz.conj()).sum(), exact=False, tol=1e-5 if dtname in ("f32", "c64") else 1e-12),
                              "norm/qr-squared-zero-pivots/%s/%s" % (nm, tag), True, desc="norm(True) of %s N=%s" % (nm, N)))
    # --- norm of operands that vanish only through cancellation (x - x, (x + y) - y - x), tracked and untracked: a finite number at roundoff level
    if d >= 2 and dtname in ("f64", "c128"):
        g_ = tn.Generator().manual_seed(rng.randrange(1 << 30))
        xr = torchtt.TT([tn.randn(c.shape, generator=g_, dtype=tn.float64).to(dt) for c in x.cores])
        yr = torchtt.TT([tn.randn(c.shape, generator=g_, dtype=tn.float64).to(dt) for c in x.cores])
        scale_ = float(xr.norm())
        for nm, mk_ in (("x-x", lambda xr=xr: xr - xr), ("x+y-y-x", lambda xr=xr, yr_=yr: (xr + yr_) - yr_ - xr), ("2x-x-x", lambda xr=xr: 2 * xr - xr - xr)):
            for tracked in (True, False):
                boxc = {}

                def implc(mk_=mk_, tracked=tracked, boxc=boxc):
                    z = mk_()
                    if tracked:
                        torchtt.grad.watch(z)
                    v = z.norm()
                    boxc["v"] = float(v.detach().real) if tn.is_tensor(v) else float(v)
                    return "ok"

                def orcc(boxc=boxc, scale_=scale_, nm=nm, tracked=tracked):
                    v = boxc.get("v")
                    if v is None:
                        return "norm raised"
                    if not (v == v) or v < 0 or v > 1e-10 * max(scale_, 1.0):
                        return "norm() of %s (%s) = %r, the dense norm is at roundoff level (<= %.3g)" % (nm, "tracked" if tracked else "untracked", v, 1e-10 * max(scale_, 1.0))
                    return None
                cases.append(Case(None, implc, orcc, "norm/cancellation/%s/%s/%s" % (nm, "tracked" if tracked else "untracked", tag), True, desc="norm of %s" % nm))
    # --- operators: sum, norm, bilinear form
    if d <= 4:
        M = rand_modes(rng, d, 1, 3)
        Nn = [min(n, 3) for n in N]
        A = rand_tt(rng, Nn, rand_ranks(rng, d, 2), dt, M=M)
        dA = dense_of(A)
        box, impl = boxed(lambda A=A: A.sum())
        cases.append(Case(J("sumall", tt_tokens(A)), impl, chk_val(box, lambda: dA.sum()), "sum/all/ttm/" + tag, True))
        box, impl = boxed(lambda A=A: watched(A).norm(True).detach())
        cases.append(Case(J("normsq", tt_tokens(A)), impl, chk_val(box, lambda: (dA * dA.conj()).sum()), "norm/autograd-squared/ttm/" + tag, True))
        box, impl = boxed(lambda A=A: A.norm(True))
        cases.append(Case(None, impl, chk_val(box, lambda: (dA * dA.conj()).sum(), exact=False, tol=1e-5 if dtname in ("f32", "c64") else 1e-12), "norm/qr-squared/ttm/" + tag, True, desc="ttm norm M=%s N=%s" % (M, Nn)))
        xl = rand_tt(rng, M, rand_ranks(rng, d, 2), dt)
        yr = rand_tt(rng, Nn, rand_ranks(rng, d, 2), dt)
        dxl, dyr = dense_of(xl), dense_of(yr)
        box, impl = boxed(lambda xl=xl, A=A, yr=yr: torchtt.bilinear_form(xl, A, yr))

        def bil():
            Am = dA.reshape(int(np.prod(M)), int(np.prod(Nn))).to(tn.complex128)
            return (dxl.reshape(-1).to(tn.complex128).conj() @ Am @ dyr.reshape(-1).to(tn.complex128))
        cases.append(Case(J("bilinear", tt_tokens(xl), tt_tokens(A), tt_tokens(yr)), impl, chk_val(box, bil), "bilinear/" + tag, True))
        # deterministic family: the two vectors have different maximal ranks (x richer than y and y richer than x), so that any
        # rank-dependent evaluation order of the form is exercised — with complex data the conjugation must stay on x
        if 2 <= d <= 3:
            for which in ("x-richer", "y-richer"):
                Rx = [1] + [3 if which == "x-richer" else 1] * (d - 1) + [1]
                Ry = [1] + [1 if which == "x-richer" else 3] * (d - 1) + [1]
                xl2 = rand_tt(rng, M, Rx, dt)
                yr2 = rand_tt(rng, Nn, Ry, dt)
                dxl2, dyr2 = dense_of(xl2), dense_of(yr2)
                box2, impl2 = boxed(lambda xl2=xl2, A=A, yr2=yr2: torchtt.bilinear_form(xl2, A, yr2))

                def bil2(dxl2=dxl2, dyr2=dyr2):
                    Am = dA.reshape(int(np.prod(M)), int(np.prod(Nn))).to(tn.complex128)
                    return (dxl2.reshape(-1).to(tn.complex128).conj() @ Am @ dyr2.reshape(-1).to(tn.complex128))
                cases.append(Case(J("bilinear", tt_tokens(xl2), tt_tokens(A), tt_tokens(yr2)), impl2, chk_val(box2, bil2), "bilinear/%s/%s" % (which, tag), True))
        for idx in subsets(d, rng, "quick")[:2]:
            box, impl = boxed(lambda A=A, idx=idx: A.sum(list(idx)))

            def orcA(box=box, idx=idx):
                if "r" not in box:
                    return "sum raised"
                r = box["r"]
                got = dense_of(r) if isinstance(r, torchtt.TT) else r
                exp = dA.sum(dim=[i for i in idx] + [i + d for i in idx])
                e = exact_equal(got.reshape(-1), exp.reshape(-1))
                return ("value differs: " + e) if e else None
            cases.append(Case(J("sumsel", tt_tokens(A), len(idx), idx), impl, orcA, "sum/subset/ttm/" + tag, True))


def qr_norm_tie(res, rng, tier):
    """norm() on the QR branch (cores not tracked): the QR factorisation is replaced from outside by the exact integer oracle of checks/sweeps.py
    (M = I·M or M·I); the data flow of the sweep — unfoldings, absorption of R, which core's norm is returned — then runs in exact integers and is
    compared with Decomp.normSqQR / normSqQRM run on the same oracle (1e-12 relative: the code squares a square root at the end)."""
    from checks.sweeps import FakePrims
    from common import run_driver
    from fractions import Fraction
    lines, vals, labels = [], [], []
    for c in range(16 if tier == "quick" else 120):
        d = rng.randint(1, 4)
        ttm = c % 3 == 2
        N = [rng.randint(1, 3) for _ in range(d)]
        M = [rng.randint(1, 2) for _ in range(d)] if ttm else None
        x = rand_tt(rng, N, rand_ranks(rng, d, 3), tn.float64, M=M)
        try:
            with FakePrims(1000):
                v = float(x.norm(True))
        except Exception as e:
            v = e
        lines.append(J("normqr", tt_tokens(x))); vals.append(v); labels.append("norm-qr-sweep/%s/d%d" % ("ttm" if ttm else "tt", d))
    outs = run_driver(lines)
    for line, v, lab, mo in zip(lines, vals, labels, outs):
        res.model_cases += 1
        toks = mo.split()
        ok = len(toks) == 2 and toks[0] == "sc" and not isinstance(v, Exception)
        if ok:
            mv = float(Fraction(toks[1].split(",")[0]))
            ok = abs(mv - v) <= 1e-12 * max(1.0, abs(mv))
        if ok:
            res.core_equal += 1
        else:
            res.violation({"property": "C07", "kind": "correspondence", "class": lab, "case": line[:1200], "impl_outcome": repr(v)[:200], "model_outcome": mo[:200],
                           "note": "norm() run with an exact integer QR oracle differs from Decomp.normSqQR on the same oracle"}, no_input=True)


def run(res, rng, tier, known):
    from common import run_cases
    cases = []
    orders = [1, 2, 3, 4] if tier == "quick" else [1, 2, 3, 4, 5]
    reps = 4 if tier == "quick" else 14
    dts = ["f64", "c128", "f32", "c64"]
    ci = 0
    for d in orders:
        for rep in range(reps):
            one(cases, rng, tier, d, rep, dts[ci % len(dts)]); ci += 1
    rng.shuffle(cases)
    run_cases(res, cases, known)
    import einsum2lean
    einsum2lean.check(res, "C07")      # translator tie: the three einsums per core of bilinear_form_aux, read from the current source, are the model chain bilA/bilB/bilC (Lean: rfl); C07e proves the chain is the sweep step
    qr_norm_tie(res, rng, tier)
    return {"level": LEVEL, "rule": RULE, "assumptions": ASSUMPTIONS,
            "not_by_theorem": ["norm() through the QR sweep (float; compared numerically against the exact Gram value, QR contract trusted)",
                               "sqrt in norm(); float roundoff"]}
