"""C04 — TT-matrix algebra equals dense linear-operator algebra (exact correspondence + dense oracle)."""
import numpy as np
import torch as tn
import torchtt
from common import Case, tt_tokens, dense_tokens, num_str
from gen import DTYPES, rand_tt, rand_modes, rand_ranks, dense_of, exact_equal, int_tensor
from util import J, boxed, chk_tt, chk_val, scalar_inexact_cases, sdiv_inexact_cases

LEVEL = "proof"
RULE = ("structured enumeration: operation (A@x, x@A, A@B, A@dense with 0..3 batch dims, A.t(), TT-matrix +,-,*, scalar ops, full) "
        "x order 1..4 x rectangular mode patterns with row/column/inner sizes drawn pairwise distinct x rank profiles x dtype; "
        "integer (Gaussian-integer) cores make float arithmetic exact. Non-trivial: order > 1 or some rank > 1; "
        "distinct = distinct (class, operands).")
ASSUMPTIONS = ["torch primitives (einsum, reshape, tensordot, permute, pad) behave as modelled on exact inputs",
               "float arithmetic exact on generated integer operands (asserted by exact conversion)"]


def mat(d, rows, cols):
    return d.reshape(int(np.prod(rows)), int(np.prod(cols)))


def run(res, rng, tier, known):
    from common import run_cases
    cases = []
    orders = [1, 2, 3] if tier == "quick" else [1, 2, 3, 4]
    reps = 5 if tier == "quick" else 14
    dts = ["f64", "c128", "f32"]
    ci = 0
    for d in orders:
        for rep in range(reps):
            dtname = dts[ci % 3]; ci += 1
            one(cases, rng, tier, d, rep, dtname)
    rng.shuffle(cases)
    run_cases(res, cases, known)
    return {"level": LEVEL, "rule": RULE, "assumptions": ASSUMPTIONS,
            "not_by_theorem": ["dtype preservation (oracle-checked on every case)", "float roundoff (outside the model)"]}


def one(cases, rng, tier, d, rep, dtname):
    if True:
        if True:
            dt = DTYPES[dtname]
            pool = list(range(1, 6)) if rep % 3 else list(range(2, 7))
            sizes = rng.sample(pool * 3, 3 * d)
            M, K, N = sizes[:d], sizes[d:2 * d], sizes[2 * d:]
            if max(M + K + N) > 4 and d >= 3:
                M = [min(v, 3) for v in M]; K = [min(v, 3) for v in K]; N = [min(v, 2) for v in N]
            lo, hi = (-2, 2) if dtname != "f32" else (-1, 2)
            A = rand_tt(rng, K, rand_ranks(rng, d, 3), dt, M=M, lo=lo, hi=hi)      # (M x K)
            B = rand_tt(rng, N, rand_ranks(rng, d, 2), dt, M=K, lo=lo, hi=hi)      # (K x N)
            A2 = rand_tt(rng, K, rand_ranks(rng, d, 2), dt, M=M, lo=lo, hi=hi)
            x = rand_tt(rng, K, rand_ranks(rng, d, 3), dt, lo=lo, hi=hi)
            xl = rand_tt(rng, M, rand_ranks(rng, d, 3), dt, lo=lo, hi=hi)
            dA, dB, dA2, dx, dxl = dense_of(A), dense_of(B), dense_of(A2), dense_of(x), dense_of(xl)
            tag = "d%d/%s" % (d, dtname)
            nt = d > 1 or max(A.R) > 1
            RA, RB, Rx, Rxl, RA2 = list(A.R), list(B.R), list(x.R), list(xl.R), list(A2.R)
            # A @ x
            box, impl = boxed(lambda A=A, x=x: A @ x)
            cases.append(Case(J("mm", tt_tokens(A), tt_tokens(x)), impl,
                              chk_tt(box, lambda: (mat(dA, M, K) @ dx.reshape(-1)).reshape(M), dt, [a * b for a, b in zip(RA, Rx)], M, is_ttm=False),
                              "matvec/" + tag, nt))
            # xl @ A
            box, impl = boxed(lambda A=A, xl=xl: xl @ A)
            cases.append(Case(J("vm", tt_tokens(xl), tt_tokens(A)), impl,
                              chk_tt(box, lambda: (dxl.reshape(-1) @ mat(dA, M, K)).reshape(K), dt, [a * b for a, b in zip(Rxl, RA)], K, is_ttm=False),
                              "vecmat/" + tag, nt))
            # A @ B
            box, impl = boxed(lambda A=A, B=B: A @ B)
            cases.append(Case(J("mm", tt_tokens(A), tt_tokens(B)), impl,
                              chk_tt(box, lambda: (mat(dA, M, K) @ mat(dB, K, N)).reshape(M + N), dt, [a * b for a, b in zip(RA, RB)], N, M=M, is_ttm=True),
                              "matmat/" + tag, nt))
            # A @ dense with batch dims
            for nb in ([0, 1, 2] if tier == "quick" else [0, 1, 2, 3]):
                bshape = [rng.randint(1, 3) for _ in range(nb)]
                xd = int_tensor(rng, bshape + K, dt, lo, hi)
                box, impl = boxed(lambda A=A, xd=xd: A @ xd)

                def dn(xd=xd, bshape=bshape):
                    flat = xd.reshape(int(np.prod(bshape)) if bshape else 1, -1)
                    return (flat @ mat(dA, M, K).T).reshape(bshape + M)
                cases.append(Case(J("dmv", tt_tokens(A), dense_tokens(xd)), impl, chk_val(box, dn), "densemv/b%d/%s" % (nb, tag), True))
            # transpose
            box, impl = boxed(lambda A=A: A.t())
            cases.append(Case(J("t", tt_tokens(A)), impl,
                              chk_tt(box, lambda: mat(dA, M, K).T.reshape(K + M), dt, RA, M, M=K, is_ttm=True), "t/" + tag, nt))
            # operations on the TRANSPOSED operator (its cores are permuted views, not contiguous arrays): scalar *, /, +, unary -, product
            dAt = mat(dA, M, K).T.reshape(K + M)
            st_ = rng.choice([2, -3, 2.5, -0.5])
            for nm, f, dn in (("t-smul", lambda A=A, st_=st_: A.t() * st_, lambda dAt=dAt, st_=st_: dAt * st_), ("t-rsmul", lambda A=A, st_=st_: st_ * A.t(), lambda dAt=dAt, st_=st_: st_ * dAt),
                              ("t-sdiv", lambda A=A: A.t() / 4.0, lambda dAt=dAt: dAt / 4.0), ("t-neg", lambda A=A: -(A.t()), lambda dAt=dAt: -dAt),
                              ("t-add-self", lambda A=A: A.t() + A.t(), lambda dAt=dAt: dAt + dAt), ("t-t-smul", lambda A=A, st_=st_: (A.t() * st_).t(), lambda st_=st_: dA * st_)):
                box, impl = boxed(f)
                ttm_M, ttm_N = (K, M) if nm != "t-t-smul" else (M, K)
                cases.append(Case(None, impl, chk_tt(box, dn, dt, None, ttm_N, M=ttm_M, is_ttm=True), "%s/%s" % (nm, tag), nt, desc="%s M=%s N=%s" % (nm, M, K)))
            # full
            box, impl = boxed(lambda A=A: A.full())
            cases.append(Case(J("full", tt_tokens(A)), impl, chk_val(box, lambda: dA), "full/" + tag, nt))
            # TT-matrix +, -, *
            Radd = [1] + [a + b for a, b in zip(RA[1:-1], RA2[1:-1])] + [1]
            for op, f, dn, rk in (("add", lambda A=A, A2=A2: A + A2, lambda: dA + dA2, Radd),
                                  ("sub", lambda A=A, A2=A2: A - A2, lambda: dA - dA2, Radd),
                                  ("mul", lambda A=A, A2=A2: A * A2, lambda: dA * dA2, [a * b for a, b in zip(RA, RA2)])):
                box, impl = boxed(f)
                cases.append(Case(J(op, tt_tokens(A), tt_tokens(A2)), impl, chk_tt(box, dn, dt, rk, K, M=M, is_ttm=True), "%s/%s" % (op, tag), nt))
            # scalar operations on operators
            cases += scalar_inexact_cases(rng, A, dt, tag, 3 if tier == "quick" else 8)
            cases += sdiv_inexact_cases(rng, A, dt, tag, 1 if tier == "quick" else 4)
            s = rng.choice([2, -3, 2.5, -0.5])
            se = float(s)
            st = [num_str(se)]
            for op, f, dn, tok in (("adds", lambda A=A, s=s: A + s, lambda: dA + se, st), ("adds", lambda A=A, s=s: s + A, lambda: se + dA, st),
                              ("subs", lambda A=A, s=s: A - s, lambda: dA - se, st), ("rsubs", lambda A=A, s=s: s - A, lambda: se - dA, st),
                              ("smul", lambda A=A, s=s: A * s, lambda: dA * se, st), ("smul", lambda A=A, s=s: s * A, lambda: se * dA, st),
                              ("smul", lambda A=A: A * 0, lambda: dA * 0, ["0"]), ("neg", lambda A=A: -A, lambda: -dA, []),
                              ("sdiv", lambda A=A: A / 2, lambda: dA / 2, ["2"])):
                box, impl = boxed(f)
                cases.append(Case(J(op, tt_tokens(A), tok), impl, chk_tt(box, dn, dt, None, K, M=M, is_ttm=True), "%s/scalar/%s" % (op, tag), True))
