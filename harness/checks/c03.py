"""C03 — TT-tensor arithmetic equals dense arithmetic entry for entry.

Every case is (i) executed on the real torchtt, (ii) executed on the Lean model through the driver
and compared core entry by core entry (exact), (iii) checked against the property's own oracle:
an independent dense contraction of the result cores vs the same expression on dense operands,
dtype preservation and the documented rank structure."""
import types
import numpy as np
import torch as tn
import torchtt
from common import Case, tt_tokens, outcome_of, out_dense, num_str, out_err
from gen import (noncontig, clone_any, DTYPES, rand_tt, rand_modes, rand_ranks, dense_of, exact_equal, int_tensor, structure_grid)

LEVEL = "proof"
RULE = ("structured enumeration: operation branch x order 1..5 x mode-size pattern (pairwise distinct sizes, singleton modes) "
        "x rank profile (rank 1, distinct ranks) x dtype x scalar kind x broadcast alignment; cores are random small "
        "(Gaussian) integers so that every float operation of the implementation is exact. A case is non-trivial "
        "when some rank > 1 or order > 1 or a broadcast/scalar branch is taken; distinct = distinct (class, operands).")
ASSUMPTIONS = [
    "torch primitives (pad, einsum, reshape, tile, clone) behave as modelled on exactly representable inputs",
    "float arithmetic is exact on the generated integer/dyadic operands (results are converted to exact rationals; a non-finite value aborts the case)",
]


from util import J, boxed, chk_tt, sdiv_inexact_cases, scalar_inexact_cases


def tdt_of(dtype):
    return dtype if dtype != tn.complex128 else tn.float64


def scalar_kinds(rng, dtype):
    v = rng.choice([2, -3, 5])
    f = rng.choice([2.5, -0.5, 4.0])
    tdt = dtype if dtype != tn.complex128 else tn.float64
    return [
        ("int", v, v), ("float", f, f), ("npfloat64", np.float64(f), f),
        ("tensor0d", tn.tensor(float(v), dtype=tdt), v), ("tensor1el", tn.tensor([f], dtype=tdt), f),
        ("zero", 0, 0), ("zerofloat", 0.0, 0),
    ]


def run(res, rng, tier, known):
    from common import run_cases
    cases = []
    orders = [1, 2, 3, 4] if tier == "quick" else [1, 2, 3, 4, 5]
    reps = 2 if tier == "quick" else 8
    dts = ["f64", "f32", "c128", "c64"]
    structs = structure_grid(rng, orders, reps)
    for si, (N, Rx) in enumerate(structs):
        d = len(N)
        dtn = dts[si % len(dts)] if tier == "quick" else None
        for dtname in ([dtn] if dtn else dts):
            dt = DTYPES[dtname]
            Ry = rand_ranks(rng, d, 3)
            x = rand_tt(rng, N, Rx, dt)
            y = rand_tt(rng, N, Ry, dt)
            if si % 4 == 1:
                x, y = noncontig(x), noncontig(y)      # operands whose cores are strided views
            dx, dy = dense_of(x), dense_of(y)
            tag = "d%d/%s/%s" % (d, "sing" if 1 in N else "nosing", dtname)
            nt = d > 1 or max(Rx + Ry) > 1
            Radd = [1] + [a + b for a, b in zip(Rx[1:-1], Ry[1:-1])] + [1]
            Rmul = [a * b for a, b in zip(Rx, Ry)]
            # --- TT (+,-,*) TT, same shape
            for op, f, dn, rk in (("add", lambda x=x, y=y: x + y, lambda dx=dx, dy=dy: dx + dy, Radd),
                                  ("sub", lambda x=x, y=y: x - y, lambda dx=dx, dy=dy: dx - dy, Radd),
                                  ("mul", lambda x=x, y=y: x * y, lambda dx=dx, dy=dy: dx * dy, Rmul)):
                box, impl = boxed(f)
                cases.append(Case(J(op, tt_tokens(x), tt_tokens(y)), impl, chk_tt(box, dn, dt, rk, N), "%s/%s" % (op, tag), nt))
            # --- the same object in both argument positions (x + x, x - x, x * x, x ** x)
            Rself_add = [1] + [2 * a for a in Rx[1:-1]] + [1]
            for op, f, dn, rk in (("add", lambda x=x: x + x, lambda dx=dx: dx + dx, Rself_add),
                                  ("sub", lambda x=x: x - x, lambda dx=dx: dx - dx, Rself_add),
                                  ("mul", lambda x=x: x * x, lambda dx=dx: dx * dx, [a * a for a in Rx])):
                box, impl = boxed(f)
                cases.append(Case(J(op, tt_tokens(x), tt_tokens(x)), impl, chk_tt(box, dn, dt, rk, N), "%s-self/%s" % (op, tag), nt))
            # --- operands of DIFFERENT dtypes (narrower one on either side): the dense expression promotes, so must the TT one
            if si % 3 == 0:
                other_dt = {"f64": tn.complex128, "f32": tn.float64, "c128": tn.float64, "c64": tn.complex128}.get(dtname, tn.complex128)
                ym = rand_tt(rng, N, Ry, other_dt)
                dym = dense_of(ym)
                wide = tn.promote_types(dt, other_dt)
                for op, f, dn, rk in (("add", lambda x=x, ym=ym: x + ym, lambda dx=dx, dym=dym: dx + dym, Radd), ("add", lambda x=x, ym=ym: ym + x, lambda dx=dx, dym=dym: dym + dx, Radd),
                                      ("sub", lambda x=x, ym=ym: x - ym, lambda dx=dx, dym=dym: dx - dym, Radd), ("sub", lambda x=x, ym=ym: ym - x, lambda dx=dx, dym=dym: dym - dx, Radd),
                                      ("mul", lambda x=x, ym=ym: x * ym, lambda dx=dx, dym=dym: dx * dym, Rmul)):
                    box, impl = boxed(f)
                    cases.append(Case(None, impl, chk_tt(box, dn, wide, rk, N), "%s-mixed-dtype/%s" % (op, tag), nt, desc="%s %s with %s" % (op, dtname, other_dt)))
            # --- builtins and reflected forms: python's sum() (0 + x + ...), augmented assignment, numpy / torch scalars on the LEFT
            Rsum = [1] + [2 * a + b + (1 if True else 0) for a, b in zip(Rx[1:-1], Ry[1:-1])] + [1]
            box, impl = boxed(lambda x=x, y=y: sum([x, y, x]))
            cases.append(Case(None, impl, chk_tt(box, lambda dx=dx, dy=dy: dx + dy + dx, dt, None, N), "builtin-sum/" + tag, nt, desc="sum([x, y, x])"))

            def _iadd(x=x, y=y):
                z = x
                z += y
                z -= x
                z *= 2
                return z
            box, impl = boxed(_iadd)
            cases.append(Case(None, impl, chk_tt(box, lambda dx=dx, dy=dy: ((dx + dy) - dx) * 2, dt, None, N), "augmented-assign/" + tag, nt, desc="z = x; z += y; z -= x; z *= 2"))
            for lname, lv in (("np.float64", np.float64(3.0)), ("np.array0d", np.array(3.0)), ("tensor0d", tn.tensor(3.0, dtype=tn.float64)), ("np.int64", np.int64(3))):
                for onm, f, dn in (("radd", lambda x=x, lv=lv: lv + x, lambda dx=dx: 3.0 + dx), ("rsub", lambda x=x, lv=lv: lv - x, lambda dx=dx: 3.0 - dx),
                                   ("rmul", lambda x=x, lv=lv: lv * x, lambda dx=dx: 3.0 * dx)):
                    box, impl = boxed(f)
                    cases.append(Case(None, impl, chk_tt(box, dn, dt, None, N), "left-%s/%s/%s" % (lname, onm, tag), nt, desc="%s %s x" % (lname, onm)))
            # --- unary minus, full
            box, impl = boxed(lambda x=x: -x)
            cases.append(Case(J("neg", tt_tokens(x)), impl, chk_tt(box, lambda dx=dx: -dx, dt, Rx, N), "neg/" + tag, nt))
            box, impl = boxed(lambda x=x: x.full())
            cases.append(Case(J("full", tt_tokens(x)), impl,
                              (lambda box=box, dx=dx: "full() raised" if "r" not in box else exact_equal(box["r"], dx)), "full/" + tag, nt))
            # --- scalars from either side
            for (kname, sval, sexact) in scalar_kinds(rng, dt):
                stok = num_str(float(sexact))
                se = float(sexact)
                for op, f, dn in (("adds", lambda x=x, s=sval: x + s, lambda dx=dx, se=se: dx + se),
                                  ("adds", lambda x=x, s=sval: s + x, lambda dx=dx, se=se: se + dx),
                                  ("subs", lambda x=x, s=sval: x - s, lambda dx=dx, se=se: dx - se),
                                  ("rsubs", lambda x=x, s=sval: s - x, lambda dx=dx, se=se: se - dx),
                                  ("smul", lambda x=x, s=sval: x * s, lambda dx=dx, se=se: dx * se),
                                  ("smul", lambda x=x, s=sval: s * x, lambda dx=dx, se=se: se * dx)):
                    if rng.random() > (0.35 if tier == "quick" else 1.0):
                        continue
                    box, impl = boxed(f)
                    rk = None
                    if op != "smul":
                        rk = [1] + [a + 1 for a in Rx[1:-1]] + [1]
                    cases.append(Case(J(op, tt_tokens(x), stok), impl, chk_tt(box, dn, dt, rk, N),
                                      "%s/%s/%s" % (op, kname, tag), True))
                if sexact != 0 and rng.random() < (0.5 if tier == "quick" else 1.0):
                    q = rng.choice([2, 4.0, -0.5])   # powers of two: the quotient is exact in float32/float64
                    qe = float(q)
                    if kname == "tensor0d":
                        q = tn.tensor(qe, dtype=tdt_of(dt))
                    elif kname == "tensor1el":
                        q = tn.tensor([qe], dtype=tdt_of(dt))
                    if isinstance(q, int) or isinstance(q, float) or tn.is_tensor(q):
                        box, impl = boxed(lambda x=x, q=q: x / q)
                        cases.append(Case(J("sdiv", tt_tokens(x), num_str(qe)), impl,
                                          chk_tt(box, lambda dx=dx, qe=qe: dx / qe, dt, Rx, N),
                                          "sdiv/%s/%s" % (kname, tag), True))
            cases += sdiv_inexact_cases(rng, x, dt, tag, 2 if tier == "quick" else 6)
            cases += scalar_inexact_cases(rng, x, dt, tag, 3 if tier == "quick" else 8)
            # numpy integer / float32 scalars in `*` (accepted by `+`)
            if si % 4 == 0:
                for kname, sval in (("npint64", np.int64(3)), ("npfloat32", np.float32(2.0))):
                    se = float(sval)
                    box, impl = boxed(lambda x=x, s=sval: x * s)
                    cases.append(Case(J("smul", tt_tokens(x), num_str(se)), impl,
                                      chk_tt(box, lambda dx=dx, se=se: dx * se, dt, None, N),
                                      "smul/%s/%s" % (kname, tag), True, finding="C03/mul-numpy-scalar-rejected"))
                    box, impl = boxed(lambda x=x, s=sval: x + s)
                    cases.append(Case(J("adds", tt_tokens(x), num_str(se)), impl,
                                      chk_tt(box, lambda dx=dx, se=se: dx + se, dt, None, N),
                                      "adds/%s/%s" % (kname, tag), True))
            # --- Kronecker product
            N2 = rand_modes(rng, rng.randint(1, 2), 1, 3)
            z = rand_tt(rng, N2, None, dt)
            dz = dense_of(z)
            kd = lambda dx=dx, dz=dz: tn.tensordot(dx, dz, dims=0)
            box, impl = boxed(lambda x=x, z=z: x ** z)
            cases.append(Case(J("kron", tt_tokens(x), tt_tokens(z)), impl, chk_tt(box, kd, dt, list(x.R) + list(z.R)[1:], N + N2), "kron/pow/" + tag, True))
            if si % 3 == 0:
                box, impl = boxed(lambda x=x, z=z: torchtt.kron(x, z))
                cases.append(Case(J("kron", tt_tokens(x), tt_tokens(z)), impl, chk_tt(box, kd, dt, None, N + N2), "kron/fn/" + tag, True))
                box, impl = boxed(lambda x=x: torchtt.kron(None, x))
                cases.append(Case(J("clone", tt_tokens(x)), impl, chk_tt(box, lambda dx=dx: dx, dt, Rx, N), "kron/none/" + tag, True))
            # --- broadcasting: right operand with fewer modes and/or size-1 modes
            if d >= 1:
                for _ in range(2 if tier == "quick" else 4):
                    k = rng.randint(1, d)
                    Ny = list(N[d - k:])
                    for p in range(k):
                        if rng.random() < 0.4:
                            Ny[p] = 1
                    if Ny == N:
                        Ny[rng.randrange(k)] = 1
                    yb = rand_tt(rng, Ny, None, dt)
                    dyb = dense_of(yb)
                    Ryb = list(yb.R)
                    pre = d - k
                    for op, f, dn in (("addb", lambda x=x, yb=yb: x + yb, lambda dx=dx, dyb=dyb: dx + dyb),
                                      ("subb", lambda x=x, yb=yb: x - yb, lambda dx=dx, dyb=dyb: dx - dyb),
                                      ("mulb", lambda x=x, yb=yb: x * yb, lambda dx=dx, dyb=dyb: dx * dyb)):
                        if op == "mulb":
                            rk = [Rx[i] * (1 if i < pre else Ryb[i - pre]) for i in range(d + 1)]
                        else:
                            rk = [1] + [Rx[i] + (1 if i < pre else Ryb[i - pre]) for i in range(1, d)] + [1]
                        box, impl = boxed(f)
                        cases.append(Case(J(op, tt_tokens(x), tt_tokens(yb)), impl, chk_tt(box, dn, dt, rk, N),
                                          "%s/k%d/%s" % (op, k, tag), True))
                    # the mirrored alignment: smaller operand on the left (torch's rule is symmetric)
                    if rng.random() < 0.5 and list(tn.broadcast_shapes(tuple(Ny), tuple(N))) == list(N) and Ny != N:
                        for op, f, dn in (("addb", lambda x=x, yb=yb: yb + x, lambda dx=dx, dyb=dyb: dyb + dx),
                                          ("mulb", lambda x=x, yb=yb: yb * x, lambda dx=dx, dyb=dyb: dyb * dx)):
                            box, impl = boxed(f)
                            cases.append(Case(None, impl, chk_tt(box, dn, dt, None, N), "%s-left-smaller/%s" % (op, tag), True,
                                              finding="C03/broadcast-left-operand-smaller",
                                              desc="%s with left operand N=%s and right operand N=%s" % (op, Ny, N)))
    # --- factories
    for d in orders:
        for dtname in dts:
            dt = DTYPES[dtname]
            N = rand_modes(rng, d, 1, 4)
            M = rand_modes(rng, d, 1, 4)
            shT = [(n, 1) for n in N]
            shM = list(zip(M, N))
            tokT = J(d, [v for p in shT for v in p], 0)
            tokM = J(d, [v for p in shM for v in p], 1)
            for nm, fn, val in (("ones", torchtt.ones, 1.0), ("zeros", torchtt.zeros, 0.0)):
                box, impl = boxed(lambda fn=fn, N=N, dt=dt: fn(list(N), dtype=dt))
                cases.append(Case(J(nm, tokT), impl, chk_tt(box, lambda N=N, val=val: tn.full(N, val, dtype=tn.float64), dt, [1] * (d + 1), N), "%s/T/d%d/%s" % (nm, d, dtname), True))
                box, impl = boxed(lambda fn=fn, shM=shM, dt=dt: fn(list(shM), dtype=dt))
                cases.append(Case(J(nm, tokM), impl, chk_tt(box, lambda M=M, N=N, val=val: tn.full(M + N, val, dtype=tn.float64), dt, [1] * (d + 1), N), "%s/M/d%d/%s" % (nm, d, dtname), True))
            box, impl = boxed(lambda N=N, dt=dt: torchtt.eye(list(N), dtype=dt))

            def eye_dense(N=N):
                n = int(np.prod(N))
                return tn.eye(n, dtype=tn.float64).reshape(N + N)
            cases.append(Case(J("eye", d, N), impl, chk_tt(box, eye_dense, dt, [1] * (d + 1), N), "eye/d%d/%s" % (d, dtname), True))
            vs = [int_tensor(rng, [n], dt, -3, 3) for n in N]
            vtok = []
            from common import tensor_tokens
            for v in vs:
                vtok += [str(v.shape[0])] + tensor_tokens(v)

            def r1_dense(vs=vs):
                acc = vs[0]
                for v in vs[1:]:
                    acc = tn.tensordot(acc, v, dims=0)
                return acc
            box, impl = boxed(lambda vs=vs: torchtt.rank1TT(vs))
            cases.append(Case(J("rank1", d, vtok), impl, chk_tt(box, r1_dense, dt, [1] * (d + 1), N), "rank1/d%d/%s" % (d, dtname), True))
            k = rng.randrange(d)

            def mg_dense(vs=vs, k=k, N=N):
                sh = [1] * len(N)
                sh[k] = N[k]
                return vs[k].reshape(sh).expand(N).clone()
            box, impl = boxed(lambda vs=vs, k=k: torchtt.meshgrid(vs)[k])
            cases.append(Case(J("meshgrid", d, vtok, k), impl, chk_tt(box, mg_dense, dt, [1] * (d + 1), N), "meshgrid/d%d/%s" % (d, dtname), True))
    rng.shuffle(cases)
    # --- result dtypes on all 16 ordered dtype pairs, tied to the Lean model DType.promote (theorems TT.C03d)
    from util import dtype_cases
    sameN = lambda rng_, d, n: [[rng_.randint(1, 3) for _ in range(d)]] * n
    anyN = lambda rng_, d, n: [[rng_.randint(1, 3) for _ in range(d)] for _ in range(n)]
    cases += dtype_cases(rng, [("add", lambda xs: xs[0] + xs[1], lambda ds: ds[0] + ds[1], sameN),
                               ("sub", lambda xs: xs[0] - xs[1], lambda ds: ds[0] - ds[1], sameN),
                               ("mul", lambda xs: xs[0] * xs[1], lambda ds: ds[0] * ds[1], sameN),
                               ("kron", lambda xs: torchtt.kron(xs[0], xs[1]), lambda ds: tn.tensordot(ds[0], ds[1], dims=0), anyN),
                               ("pow", lambda xs: xs[0] ** xs[1], lambda ds: tn.tensordot(ds[0], ds[1], dims=0), anyN)], "binary")
    run_cases(res, cases, known)
    return {"level": LEVEL, "rule": RULE, "assumptions": ASSUMPTIONS,
            "not_by_theorem": ["dtype rules for python / numpy / torch SCALAR operands (oracle: torch result_type); for TT operands the dtype is tied to DType.promote (theorems C03d)",
                               "float roundoff on non-exact inputs (outside the model; the property says 'exactly' for exact arithmetic)"]}
