"""C13 — elementwise division inverts elementwise multiplication.

(a) the 3-index kernels of torchtt/_division.py are compared exactly with the C12 kernel models applied to the diagonal embedding
    diag(y) of the divisor core (division is the AMEn solve with the operator diag(y)); scalar division is exact (C03);
(b) contract monitor: x / y, s / y and elementwise_divide(x, y, ...) for y = 1 + z*z (entries >= 1): ||q*y - x|| <= C*tol*||x||."""
import numpy as np
import torch as tn
import torchtt
import torchtt._division as DV
from common import Case, dense_tokens, core_tokens, out_dense, tt_tokens, num_str
from gen import int_tensor, dense_of, rand_tt, rand_ranks, exact_equal
from util import J, boxed, chk_tt, sdiv_inexact_cases

LEVEL = "proof"
C_DIV = 10.0
RULE = ("(a) kernel cases: integer Phi tensors and cores, ranks 1..3, modes 1..4: local_product, compute_phi_fwd_A / bck_A, compute_phi_*_rhs, LinearOp.matvec (prec None) "
        "against the solver kernels on diag(y); exact scalar division; (b) monitor: order 2..5, mode sizes 1..10, ranks 1..4, y = 1 + z*z, operators `/`, `s / y`, "
        "elementwise_divide with tolerances 1e-10..1e-4, preconditioner None/'c', optional initial guess, seeds. Non-trivial: every case.")
ASSUMPTIONS = ["the residual inequality is MONITORED (kind K), constant C = %g; the operator overloads use the fixed tolerance 1e-12" % C_DIV,
               "local dense solves / GMRES are float computations outside the model"]


def diag4(c):
    """embed a divisor core [s, m, S] as the operator core [s, m, m, S] with the mode on the diagonal"""
    s, m, S = c.shape
    out = tn.zeros(s, m, m, S, dtype=c.dtype)
    for i in range(m):
        out[:, i, i, :] = c[:, i, :]
    return out


def kernel_cases(rng, tier):
    cases = []
    for c in range(25 if tier == "quick" else 150):
        l, s, L, Sg = rng.randint(1, 3), rng.randint(1, 3), rng.randint(1, 3), rng.randint(1, 3)
        m = rng.randint(1, 4)
        PL = int_tensor(rng, [l, s, l], tn.float64, -2, 2); PR = int_tensor(rng, [L, Sg, L], tn.float64, -2, 2)
        yk = int_tensor(rng, [s, m, Sg], tn.float64, -2, 2)
        u = int_tensor(rng, [l, m, L], tn.float64, -2, 2)
        A4 = diag4(yk)
        nt = max(l, s, L, Sg) > 1
        cases.append(Case(J("localprod", dense_tokens(PL), dense_tokens(PR), core_tokens(A4), core_tokens(u)),
                          lambda PL=PL, PR=PR, yk=yk, u=u: out_dense(DV.local_product(PR.clone(), PL.clone(), yk.clone(), u.clone(), u.shape)), None, "kernel/div_local_product", nt))

        def lin(PL=PL, PR=PR, yk=yk, u=u):
            op = DV.LinearOp(PL.clone(), PR.clone(), yk.clone(), u.shape, None)
            return out_dense(op.matvec(u.clone().reshape(-1, 1)).reshape(u.shape))
        cases.append(Case(J("linop", dense_tokens(PL), dense_tokens(PR), core_tokens(A4), core_tokens(u)), lin, None, "kernel/div_linop_matvec", nt))
        r, R = rng.randint(1, 3), rng.randint(1, 3)
        xl = int_tensor(rng, [l, m, L], tn.float64, -2, 2); xr = int_tensor(rng, [r, m, R], tn.float64, -2, 2)
        P = int_tensor(rng, [l, s, r], tn.float64, -2, 2); Pn = int_tensor(rng, [L, Sg, R], tn.float64, -2, 2)
        cases.append(Case(J("phifwdA", dense_tokens(P), core_tokens(xl), core_tokens(A4), core_tokens(xr)),
                          lambda P=P, xl=xl, yk=yk, xr=xr: out_dense(DV.compute_phi_fwd_A(P.clone(), xl.clone(), yk.clone(), xr.clone())), None, "kernel/div_phi_fwd_A", nt))
        cases.append(Case(J("phibckA", dense_tokens(Pn), core_tokens(xl), core_tokens(A4), core_tokens(xr)),
                          lambda Pn=Pn, xl=xl, yk=yk, xr=xr: out_dense(DV.compute_phi_bck_A(Pn.clone(), xl.clone(), yk.clone(), xr.clone())), None, "kernel/div_phi_bck_A", nt))
        b = int_tensor(rng, [s, m, Sg], tn.float64, -2, 2); xc = int_tensor(rng, [r, m, R], tn.float64, -2, 2)
        P2 = int_tensor(rng, [s, r], tn.float64, -2, 2); P2n = int_tensor(rng, [Sg, R], tn.float64, -2, 2)
        cases.append(Case(J("phifwdrhs", dense_tokens(P2), core_tokens(b), core_tokens(xc)),
                          lambda P2=P2, b=b, xc=xc: out_dense(DV.compute_phi_fwd_rhs(P2.clone(), b.clone(), xc.clone())), None, "kernel/div_phi_fwd_rhs", nt))
        cases.append(Case(J("phibckrhs", dense_tokens(P2n), core_tokens(b), core_tokens(xc)),
                          lambda P2n=P2n, b=b, xc=xc: out_dense(DV.compute_phi_bck_rhs(P2n.clone(), b.clone(), xc.clone())), None, "kernel/div_phi_bck_rhs", nt))
        # the Jacobi preconditioner 'c' is the reciprocal of the diagonal of the local operator
        def prec_orc(PL=PL, PR=PR, yk=yk, u=u):
            PLd = PL.clone().abs() + 1.0; PRd = PR.clone().abs() + 1.0; yd = yk.clone().abs() + 1.0
            op = DV.LinearOp(PLd, PRd, yd, u.shape, 'c')
            op0 = DV.LinearOp(PLd, PRd, yd, u.shape, None)
            n = u.numel()
            Bm = tn.stack([op0.matvec(tn.eye(n, dtype=tn.float64)[:, i:i + 1]).reshape(-1) for i in range(n)], 1)
            dg = tn.diagonal(Bm).reshape(u.shape)
            e = float(tn.linalg.norm(op.J * dg - 1.0))
            return None if e < 1e-10 else "J is not the reciprocal diagonal of the local operator (%.3g)" % e
        cases.append(Case(None, (lambda: "ok"), prec_orc, "kernel/div_prec_c", nt, desc="division Jacobi block"))
    # exact scalar division
    for c in range(6 if tier == "quick" else 40):
        d = rng.randint(1, 4)
        N = [rng.randint(1, 4) for _ in range(d)]
        x = rand_tt(rng, N, rand_ranks(rng, d, 3), tn.float64)
        q = rng.choice([2, 4.0, -0.5, 8])
        dx = dense_of(x)
        box, impl = boxed(lambda x=x, q=q: x / q)
        cases.append(Case(J("sdiv", tt_tokens(x), num_str(float(q))), impl, chk_tt(box, lambda dx=dx, q=q: dx / q, tn.float64, list(x.R), N), "scalar-division/d%d" % d, True))
        cases += sdiv_inexact_cases(rng, x, tn.float64, "d%d" % d, 2)
    return cases


def monitor_cases(rng, tier, stats):
    cases = []
    for c in range(24 if tier == "quick" else 300):
        d = rng.choice([2, 2, 3, 3, 4] if tier == "quick" else [2, 3, 3, 4, 5])
        hi = 10 if d <= 3 else (5 if d == 4 else 3)
        N = [rng.randint(1, hi) for _ in range(d)]
        mode = ["truediv", "rtruediv", "fn", "fn-prec", "fn-guess", "fn-guess-self", "fn-guess-divisor"][c % 7] if c % 2 == 0 else \
            rng.choice(["truediv", "rtruediv", "fn", "fn-prec", "fn-guess"])
        tol = 1e-12 if mode in ("truediv", "rtruediv") else 10.0 ** rng.uniform(-10, -4)
        seed = rng.randrange(1 << 30)
        heavy = False
        if c in (4, 10, 16):
            # deterministic member: a quotient of HIGH TT rank (order 4, modes 6,10,10,6, quotient rank ~60): the solver needs many sweeps in
            # which the rank grows by the kick only and the residual falls slowly — it must still run until the tolerance is met
            d, N, mode, tol, heavy = 4, [6, 10, 10, 6], {4: "truediv", 10: "fn", 16: "rtruediv"}[c], 1e-12, True
        box = {}
        # complex operands (complex numerator; the positive divisor merely STORED as complex): the projections of the numerator and of the
        # operator must use the same (unconjugated) bilinear pairing
        cplx = (c % 6 == 1) and not heavy
        if cplx and c == 7:
            # fixed witness of the known finding C13/complex-gmres-local-solve: local systems of size >= max_full (500) go through the GMRES
            # local solver, whose Arnoldi process uses unconjugated dot products — for complex data the quotient is wrong by O(1)
            d, N, mode, tol = 3, [9, 10, 6], "fn", 2.3e-5
        label = "%s/d%d%s%s" % (mode, d, "/high-rank" if heavy else "", "/c128" if cplx else "")

        def body(N=N, mode=mode, tol=tol, seed=seed, box=box, d=d, c=c, heavy=heavy, cplx=cplx):
            z = torchtt.randn(N, [1] + [3 if heavy else rng.randint(1, 3)] * (d - 1) + [1])
            y = (z * z + 1.0).round(1e-13)
            x = torchtt.randn(N, [1] + [2 if heavy else rng.randint(1, 4)] * (d - 1) + [1])
            if cplx:
                x2 = torchtt.randn(N, [1] + [rng.randint(1, 2)] * (d - 1) + [1])
                x = torchtt.TT([cc.to(tn.complex128) for cc in x.cores]) + torchtt.TT([cc.to(tn.complex128) for cc in x2.cores]) * 1j
                y = torchtt.TT([cc.to(tn.complex128) for cc in y.cores])
            if mode == "truediv":
                q = x / y; num = x
            elif mode == "rtruediv":
                # every admissible scalar form; values that single precision cannot represent exactly are the rule, not the exception
                sv = rng.choice([1.0, 2.5, -3.0, 0.1, -7.3, 1.0 / 3.0, 2])
                form = rng.choice(["py", "py", "np", "t0", "t1"])
                if c % 2 == 0:
                    sv, form = [0.1, -7.3, 1.0 / 3.0][(c // 14) % 3], "py"        # deterministic member: a python float that float32 cannot hold
                s = sv if form == "py" else np.float64(sv) if form == "np" else tn.tensor(float(sv), dtype=tn.float64) if form == "t0" else tn.tensor([float(sv)], dtype=tn.float64)
                q = s / y; num = torchtt.ones(N, dtype=tn.complex128 if cplx else tn.float64) * float(sv)
            else:
                kw = {"eps": tol, "nswp": 50}
                if mode == "fn-prec":
                    kw["preconditioner"] = "c"
                if mode == "fn-guess":
                    kw["starting_tensor"] = torchtt.randn(N, [1] + [2] * (d - 1) + [1])
                    if cplx:
                        kw["starting_tensor"] = torchtt.TT([cc.to(tn.complex128) for cc in kw["starting_tensor"].cores])
                num = x
                if mode == "fn-guess-self":
                    # the numerator itself as warm start (natural when y is close to 1): operands and guess may be the same object
                    kw["starting_tensor"] = x
                    num = x.clone()
                if mode == "fn-guess-divisor":
                    kw["starting_tensor"] = y
                    ykeep = y.clone()
                q = torchtt.elementwise_divide(x, y, **kw)
                if mode == "fn-guess-divisor":
                    y = ykeep
            if not isinstance(q, torchtt.TT) or q.is_ttm or list(q.N) != list(N):
                box["shape"] = "result has shape %s" % (getattr(q, "N", None),)
                return "bad-shape"
            res = float((q * y - num).norm() / num.norm())
            box["ratio"] = res / tol
            stats.append((mode, tol, res / tol))
            return "ok"

        def impl(body=body, seed=seed, box=box):
            tn.manual_seed(seed); np.random.seed(seed % (2 ** 32))
            import torchtt._division as _D
            _orig = _D.gmres_restart
            box["gmres"] = 0

            def _counting(*a, **k):
                box["gmres"] += 1
                return _orig(*a, **k)
            _D.gmres_restart = _counting
            try:
                return body()
            finally:
                _D.gmres_restart = _orig

        def oracle(box=box, tol=tol, label=label, cplx=cplx):
            if "shape" in box:
                return box["shape"]
            r = box.get("ratio")
            if r is None:
                return "division raised"
            if not (r <= C_DIV or r * tol <= 1e-11):      # NaN-safe
                msg = "||q*y - x||/||x|| = %.3g*tol exceeds %g*tol (tol=%.2g, %s)" % (r, C_DIV, tol, label)
                if cplx and box.get("gmres", 0) > 0:
                    return "[finding:C13/complex-gmres-local-solve] " + msg + " [%d GMRES local solves on complex data]" % box["gmres"]
                return msg
            return None
        cases.append(Case(None, impl, oracle, "monitor/" + label, True, desc="divide %s N=%s tol=%.2g seed=%d" % (mode, N, tol, seed)))
    return cases


def trace_cases(res, rng, tier):
    """loop tie of amen_divide (see harness/looptie.py): the local matrix, right-hand side and the stored environments of the running division
    are compared with the Lean kernels / folds on diag(a) (the operator of the division), in exact rationals on the floats of the run"""
    from looptie import solve_loop_tie
    runs = []
    for c in range(3 if tier == "quick" else 24):
        d = rng.choice([2, 3, 3, 4])
        N = [rng.randint(1, 3) for _ in range(d)]
        seed = rng.randrange(1 << 30)

        def thunk(N=N, seed=seed, d=d):
            tn.manual_seed(seed)
            z = torchtt.randn(N, [1] + [2] * (d - 1) + [1])
            y = (z * z + 1.0).round(1e-14)
            x = torchtt.randn(N, [1] + [2] * (d - 1) + [1])
            DV.amen_divide(y, x, nswp=3, eps=1e-8, max_full=10 ** 6, kickrank=2, verbose=False)
        runs.append(("amen_divide/d%d" % d, thunk))
    n = solve_loop_tie(res, "C13", rng, DV.amen_divide, "solution_now = tn.linalg.solve(B,rhs)", runs, "a", "b", True)
    res.extra["division_loop_state_evaluations"] = n
    # the block after the local solve (reported residuals, rank rule, truncation + enrichment + QR + absorption): TTModel/AmenStep.lean, TT.C12d
    from looptie import update_loop_tie
    runs = []
    for c in range(4 if tier == "quick" else 24):
        d = [3, 2, 4, 3][c % 4]
        N = [rng.randint(2, 3) for _ in range(d)]
        seed = rng.randrange(1 << 30)
        max_full = [10 ** 6, 0][c % 2]

        def thunk(N=N, seed=seed, d=d, max_full=max_full, eps_t=[1e-8, 1e-2][(c // 2) % 2]):
            tn.manual_seed(seed)
            z = torchtt.randn(N, [1] + [2] * (d - 1) + [1])
            y = (z * z + 1.0).round(1e-14)
            x = torchtt.randn(N, [1] + [2] * (d - 1) + [1])
            DV.amen_divide(y, x, nswp=4, eps=eps_t, max_full=max_full, kickrank=2, verbose=False)
        runs.append(("amen_divide/d%d/maxfull%d" % (d, max_full), thunk))
    pats = {"res": "if res_old/res_new < damp", "scan": "if res > max(real_tol*damp", "vt": "v = v.t()", "qr": "r_add = uk.shape", "set": "x_cores[k] = tn.reshape(u,"}
    res.extra["division_update_tie"] = update_loop_tie(res, "C13", rng, DV.amen_divide, pats, runs, opname="a", embed=True, res_rule=True)


def run(res, rng, tier, known):
    from common import run_cases
    stats = []
    cases = kernel_cases(rng, tier) + monitor_cases(rng, tier, stats)
    run_cases(res, cases, known)
    trace_cases(res, rng, tier)
    import einsum2lean
    einsum2lean.check(res, "C13")      # translator tie: the kernels' subscript strings, read from the current source, are the model kernels (Lean: rfl)
    if stats:
        res.extra["contract_monitor_runs"] = len(stats)
        res.extra["contract_monitor_max_residual_over_tol"] = max(s[2] for s in stats)
        res.extra["contract_monitor_note"] = "monitor = testing against the acceptance predicate; not an obligation discharged"
    return {"level": LEVEL, "rule": RULE, "assumptions": ASSUMPTIONS,
            "not_by_theorem": ["the residual bound of the AMEn division (kind K: monitored only)"]}
