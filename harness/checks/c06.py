"""C06 — operations never change the value of their operands.

(a) systematic sweep: every operation of the walker (all public operators / functions, every argument position incl. optional
    initial guesses) on fresh operands; (b) random histories in which results and views are fed into later operations.
Before every call the observables of EVERY live object are recorded: ranks, shape, dtype, dense value, and - for the
effect model M-heap - the identity of the core list, of its elements and the torch version counter of every core.
After the call they must be unchanged for every object except the target of a documented in-place operation."""
import numpy as np
import torch as tn
import torchtt
from common import run_driver
from walk import Walker
from gen import dense_of
from checks.c05 import meta_str
from util import J

LEVEL = "proof"
RULE = ("(a) each of the ~40 walker operations x 6 (quick) / 40 (thorough) fresh stores, guesses taken from the store whenever the routine accepts one; "
        "(b) random histories (quick 5 x 60 calls; thorough 30 x 250) re-using earlier results and views; (c) directed histories: y derived from x by each of 22 operations, then set_core with a same-layout core on x and on y alternately (3 positions each). Observables of every live object are compared "
        "before/after each call. Non-trivial: calls that returned or modified an object; distinct by (op, operand structure).")
ASSUMPTIONS = ["torch's tensor._version counts every in-place write to a tensor's storage view; untyped_storage().data_ptr() identifies storages",
               "the raw constructor TT(list) keeps the caller's list (documented hypothesis of history_stable): sequences that apply a documented in-place operation to one of two objects sharing a list are outside the statement; the walker always passes fresh lists"]


def observe(x):
    dv = dense_of(x) if int(np.prod(x.N)) * (int(np.prod(x.M)) if x.is_ttm else 1) <= 5000 else None
    return {
        "meta": meta_str(x),
        "dtype": [str(c.dtype) for c in x.cores],
        "dense": dv,
        "list_id": id(x.cores),
        "elem_ids": [id(c) for c in x.cores],
        "versions": [c._version for c in x.cores],
        "cores": [c.detach().clone() for c in x.cores],
    }


def diff(before, x):
    """(property-level difference, heap-level difference)"""
    prop = None
    if meta_str(x) != before["meta"]:
        prop = "ranks/shape changed: %s -> %s" % (before["meta"], meta_str(x))
    elif [str(c.dtype) for c in x.cores] != before["dtype"]:
        prop = "dtype changed"
    else:
        same = all(a.shape == b.shape and tn.equal(a, b) for a, b in zip(before["cores"], x.cores))
        if not same and before["dense"] is not None:
            dn = dense_of(x)
            err = float(tn.linalg.norm((dn - before["dense"]).reshape(-1).to(tn.complex128)))
            ref = float(tn.linalg.norm(before["dense"].reshape(-1).to(tn.complex128)))
            if not (err <= 1e-12 * max(ref, 1e-300) or err <= 0):      # NaN-safe
                prop = "dense value changed (relative change %.3g)" % (err / max(ref, 1e-300))
    heap = None
    if id(x.cores) != before["list_id"]:
        heap = "core list replaced"
    elif [id(c) for c in x.cores] != before["elem_ids"]:
        heap = "core list entries rebound"
    elif [c._version for c in x.cores] != before["versions"]:
        heap = "in-place write into a core (version counter)"
    return prop, heap


def one_step(res, wk, tag, heap_obs):
    before = [observe(x) for x in wk.store]
    objs = list(wk.store)
    info = wk.step()
    res.evaluations += 1
    op = info["op"]
    cls = "%s/%s%s" % (tag, op, "/guess" if "guess" in info else "")
    res.classes[cls] = res.classes.get(cls, 0) + 1
    if info["new"] or info["inplace"] is not None:
        res.nontrivial.add(hash((op, "guess" in info, tuple(tuple(objs[r].N) for r in info["refs"][:3] if r < len(objs)))))
    if len(res.samples) < 4 and info["new"] and "guess" in info:
        res.samples.append({"op": op, "operands": [before[r]["meta"] for r in info["refs"] if r < len(before)], "guess_ref": info["guess"]})
    for idx, (b, x) in enumerate(zip(before, objs)):
        res.oracle_checked += 1
        prop, heap = diff(b, x)
        is_target = (info["inplace"] == idx)
        heap_obs.append((op, is_target, heap is not None))
        if is_target:
            continue
        if prop:
            res.violation({"property": "C06", "kind": "oracle-failure", "class": cls,
                           "case": "%s: operation %s on refs %s (guess=%s) changed live object #%d (role: %s)" % (tag, op, info["refs"], info.get("guess"), idx,
                                   "operand %d" % info["refs"].index(idx) if idx in info["refs"] else "bystander"),
                           "oracle": prop, "object_before": b["meta"], "history": wk.log[-20:], "seed": res.seed})
            return False
        if heap:
            # a write the effect model does not allow, although the dense value survived (e.g. a gauge change in place)
            res.violation({"property": "C06", "kind": "correspondence", "class": cls,
                           "case": "%s: operation %s on refs %s: %s of live object #%d" % (tag, op, info["refs"], heap, idx),
                           "impl_outcome": heap, "model_outcome": "M-heap: no write to pre-existing objects for this operation",
                           "history": wk.log[-20:]}, no_input=True)
            return False
    return True


def run(res, rng, tier, known):
    heap_obs = []
    reps = 6 if tier == "quick" else 40
    ops = [n[3:] for n in dir(Walker) if n.startswith("op_")]
    ok = True
    # (a) systematic sweep
    for op in ops:
        for r in range(reps):
            wk = Walker(rng)
            wk.seed_objects(); wk.seed_objects()
            wk.step = (lambda wk=wk, op=op: Walker.step(wk, force=op))
            ok = one_step(res, wk, "sweep", heap_obs)
            if not ok:
                break
        if not ok:
            break
    # (b) histories
    if ok:
        nwalks, nsteps = (5, 60) if tier == "quick" else (30, 250)
        for w in range(nwalks):
            wk = Walker(rng)
            wk.seed_objects()
            for st in range(nsteps):
                ok = one_step(res, wk, "history", heap_obs)
                if not ok:
                    break
            if not ok:
                break
    # (c) directed histories: y derived from x without a copy, then set_core (same layout, every position) on either of the two
    if ok:
        derive = ["t", "getitem", "sum", "diag", "to_ttm", "conj", "detach", "to", "truediv_scalar", "rmul", "scalar", "neg", "pow_none", "qtt",
                  "reshape", "permute", "clone", "round", "mprod", "pad", "cat", "kron"]
        for op in derive:
            for r in range(2 if tier == "quick" else 10):
                wk = Walker(rng)
                wk.seed_objects()
                wk.p_same_shape = 1.0
                wk.force_target = rng.randrange(len(wk.store))
                src = wk.force_target
                wk.step = (lambda wk=wk, op=op: Walker.step(wk, force=op))
                ok = one_step(res, wk, "derived", heap_obs)
                if not ok:
                    break
                new = [j for j in range(len(wk.store)) if j >= 5]
                for tgt in ([src] + new[-1:]) * 3:
                    wk.force_target = tgt
                    wk.step = (lambda wk=wk: Walker.step(wk, force="set_core"))
                    ok = one_step(res, wk, "derived/" + op, heap_obs)
                    if not ok:
                        break
                if not ok:
                    break
            if not ok:
                break
    # tie to M-heap: feed the observed effect kinds to the model
    lines = []
    agg = {}
    for op, is_target, wrote in heap_obs:
        k = (op, is_target)
        agg[k] = agg.get(k, False) or wrote
    for (op, is_target), wrote in sorted(agg.items()):
        lines.append(J("heapeffect", op, 1 if is_target else 0))
    if lines:
        outs = run_driver(lines)
        for ((op, is_target), wrote), mo in zip(sorted(agg.items()), outs):
            res.model_cases += 1
            allowed = mo.strip() == "sc 1"
            if wrote and not allowed:
                res.violation({"property": "C06", "kind": "correspondence", "class": "heap/" + op, "case": "heapeffect %s target=%s" % (op, is_target),
                               "impl_outcome": "write observed", "model_outcome": "no write allowed"}, no_input=True)
            else:
                res.core_equal += 1
    res.extra["observations"] = len(heap_obs)
    res.extra["operations"] = sorted({o for o, _, _ in heap_obs})
    return {"level": LEVEL, "rule": RULE, "assumptions": ASSUMPTIONS,
            "not_by_theorem": ["that each Python operation really has the effect set listed for it in M-heap is established by observation (version counters, list identity) on every call of the run, not by proof"]}
