"""C05 — every reachable TT object is structurally well formed.

Random walks over the public API on a store of live objects (results are reused, in-place set_core / reduce_dims included,
iterative routines with guesses taken from the store).  After every call EVERY live object is checked against the
property directly (oracle) and the validating constructor / set_core / reduce_dims calls observed during the walk are
replayed through the Lean M-shape model (exact comparison of kind, N, M, R, shape or exception class)."""
import numpy as np
import torch as tn
import torchtt
import torchtt._tt_base as B
from common import run_driver, out_err
from walk import Walker, rnd_tt
from util import J

LEVEL = "proof"
RULE = ("random walks (quick: 6 walks x 60 calls; thorough: 40 x 250) over ~40 public operations incl. constructors, algebra, rounding, slicing, "
        "reshape/permute/QTT, reductions, cat/pad/diag/mprod, solvers/DMRG/AMEn/cross with guesses from the store, in-place set_core/reduce_dims; "
        "operands are picked among all earlier results (order<=5, modes<=4, ranks<=8). After each call every live object is checked. "
        "Non-trivial = a call that produced or modified an object; distinct by (op, operand structures).")
ASSUMPTIONS = ["public operations other than set_core/reduce_dims build their result through TT(list_of_cores) or the dense constructor (observed by wrapping TT.__init__ from outside; every such construction is replayed through the model)",
               "torch reports tensor shapes correctly"]


def wf_violation(x):
    """None if the object is well formed per C05, else a description"""
    cs = x.cores
    if len(cs) == 0:
        return "no cores"
    nd = {c.dim() for c in cs}
    if nd not in ({3}, {4}):
        return "cores are not all 3-d or all 4-d: %s" % sorted(nd)
    ttm = nd == {4}
    if bool(x.is_ttm) != ttm:
        return "is_ttm=%s but cores are %d-d" % (x.is_ttm, 4 if ttm else 3)
    R = [int(r) for r in x.R]
    if len(R) != len(cs) + 1:
        return "R has length %d for %d cores" % (len(R), len(cs))
    for k, c in enumerate(cs):
        if c.shape[0] != R[k] or c.shape[-1] != R[k + 1]:
            return "core %d has ranks (%d,%d) but R says (%d,%d)" % (k, c.shape[0], c.shape[-1], R[k], R[k + 1])
    if R[0] != 1 or R[-1] != 1:
        return "boundary ranks %s" % R
    N = [c.shape[2] if ttm else c.shape[1] for c in cs]
    if list(x.N) != N:
        return "N=%s but cores say %s" % (list(x.N), N)
    if ttm:
        M = [c.shape[1] for c in cs]
        if list(x.M) != M:
            return "M=%s but cores say %s" % (list(x.M), M)
        if list(x.shape) != [(m, n) for m, n in zip(M, N)]:
            return "shape=%s but cores say %s" % (x.shape, list(zip(M, N)))
        want = M + N
    else:
        if list(x.shape) != N:
            return "shape=%s but cores say %s" % (x.shape, N)
        want = N
    if int(np.prod(want)) <= 20000:
        fs = list(x.full().shape)
        if fs != want:
            return "full() has shape %s, expected M+N=%s" % (fs, want)
    return None


def obj_tokens(x):
    """serialise the object's core shapes and stored metadata for the model"""
    t = [len(x.cores)]
    for c in x.cores:
        t += [c.dim()] + list(c.shape)
    ttm = 1 if x.is_ttm else 0
    N = list(x.N); M = list(x.M) if x.is_ttm else []
    R = [int(r) for r in x.R]
    t += [len(N)] + N + [len(M)] + M + [len(R)] + R + [ttm]
    return t


def meta_str(x):
    N = list(x.N); M = list(x.M) if x.is_ttm else []
    R = [int(r) for r in x.R]
    sh = [list(s) if isinstance(s, tuple) else [s] for s in x.shape]
    return "obj %s N %s M %s R %s S %s C %s" % ("M" if x.is_ttm else "T", N, M, R, sh, [list(c.shape) for c in x.cores])


def directed_histories(res, rng):
    """scripted histories around the in-place operations: objects that must be independent of the one being modified (built from a shared
    shape list, obtained by round / clone / detach / to / arithmetic with trivial effect) stay well formed and keep their value"""
    def fresh(kind):
        N = [rng.randint(2, 4) for _ in range(3)]
        if kind == "rank1":
            return torchtt.ones(N, dtype=tn.float64), N
        if kind == "rank1-ttm":
            return torchtt.eye(N, dtype=tn.float64), N
        return rnd_tt(rng, N, None, tn.float64), N
    scripts = []
    for kind in ("rank1", "rank1-ttm", "generic"):
        for via in ("round", "round-eps", "clone", "detach", "to", "mul1", "add0", "shared-shape-list"):
            scripts.append((kind, via))
    for kind, via in scripts:
        x, N = fresh(kind)
        caller = None
        if via == "shared-shape-list":
            if x.is_ttm:
                continue
            caller = list(N)
            dense = x.full().clone()
            x = torchtt.TT(dense, caller, eps=1e-12)
            y = torchtt.TT(dense * 2, caller, eps=1e-12)
        elif via == "round":
            y = x.round(1e-12)
        elif via == "round-eps":
            y = x.round(1e-3, 5)
        elif via == "clone":
            y = x.clone()
        elif via == "detach":
            y = x.detach()
        elif via == "to":
            y = x.to(dtype=tn.float64)
        elif via == "mul1":
            y = x * 1.0
        else:
            y = x + 0.0 if not x.is_ttm else x * 1
        keep_val = x.full().clone()
        keep_meta = (list(x.N), list(x.M) if x.is_ttm else None, [int(r) for r in x.R])
        for who in ("result", "operand"):
            tgt, other = (y, x) if who == "result" else (x, y)
            other_val, other_meta = other.full().clone(), (list(other.N), [int(r) for r in other.R])
            k = rng.randrange(len(tgt.cores))
            c = tgt.cores[k]
            newshape = list(c.shape); newshape[1] += 1
            try:
                tgt.set_core(k, tn.ones(newshape, dtype=c.dtype))
            except Exception as e:
                res.violation({"property": "C05", "kind": "oracle-failure", "class": "history/%s/%s" % (kind, via), "case": "set_core on the %s raised %s" % (who, type(e).__name__),
                               "oracle": "set_core with matching ranks must be accepted", "seed": res.seed})
                break
            res.evaluations += 1
            res.oracle_checked += 2
            res.classes["history/%s/%s" % (kind, via)] = res.classes.get("history/%s/%s" % (kind, via), 0) + 1
            res.nontrivial.add(hash(("history", kind, via, who)))
            msg = wf_violation(other) or wf_violation(tgt)
            if not msg and ((list(other.N), [int(r) for r in other.R]) != other_meta or not tn.equal(other.full(), other_val)):
                msg = "the other object changed (N %s -> %s)" % (other_meta[0], list(other.N))
            if not msg and caller is not None and caller != N:
                msg = "the caller's shape list %s was rewritten to %s" % (N, caller)
            if msg:
                res.violation({"property": "C05", "kind": "oracle-failure", "class": "history/%s/%s" % (kind, via),
                               "case": "x = %s operand; y obtained via %s; set_core(%d, mode+1) on the %s" % (kind, via, k, who), "oracle": msg, "seed": res.seed})
                break


def rejected_calls(res, rng):
    """in-place calls that are REJECTED must leave the object exactly as it was (no half-updated metadata): set_core with a core of the right
    dimensionality whose ranks do not fit and whose mode sizes differ from the current ones, wrong dimensionality, bad position"""
    for kind in ("tt", "ttm"):
        for rep in range(6):
            d = rng.randint(2, 4)
            N = [rng.randint(2, 4) for _ in range(d)]
            M = [rng.randint(2, 3) for _ in range(d)] if kind == "ttm" else None
            R = [1] + [rng.randint(2, 3) for _ in range(d - 1)] + [1]
            x = rnd_tt(rng, N, M, tn.float64) if M is not None else rnd_tt(rng, N, None, tn.float64)
            k = rng.randrange(d)
            c = x.cores[k]
            bad = []
            sh = list(c.shape); sh[0] += 1; sh[1] += 1
            bad.append(("rank-left+mode", k, sh))
            sh = list(c.shape); sh[-1] += 2; sh[-2] += 1
            bad.append(("rank-right+mode", k, sh))
            sh = list(c.shape); sh = sh[:1] + [sh[1] + 1] + ([2] if kind == "tt" else []) + sh[2:] if kind == "tt" else [sh[0], sh[1] + 1, sh[-1]]
            bad.append(("wrong-dims", k, sh))
            bad.append(("position", len(x.cores), list(c.shape)))
            # negative positions (not accepted: InvalidArguments).  If an implementation does accept them it must address core d+k with the
            # ranks of THAT core: offer both the fitting core and the cores that fit the neighbouring bonds of the (d+1)-long rank list
            Rl = [int(r) for r in x.R]
            for kn in range(-d, 0):
                kp = d + kn
                mid = list(x.cores[kp].shape[1:-1])
                bad.append(("negative-position-fitting", kn, [Rl[kp]] + mid + [Rl[kp + 1]]))
                bad.append(("negative-position-shifted", kn, [Rl[kn]] + [m + 1 for m in mid] + [Rl[kn + 1]]))
            for what, kk, shp in bad:
                before = (meta_str(x), [cc.clone() for cc in x.cores], [id(cc) for cc in x.cores])
                try:
                    x.set_core(kk, tn.ones(shp, dtype=c.dtype))
                    raised = False
                except Exception:
                    raised = True
                res.evaluations += 1
                res.oracle_checked += 1
                cls = "rejected-set_core/%s/%s" % (kind, what)
                res.classes[cls] = res.classes.get(cls, 0) + 1
                res.nontrivial.add(hash((cls, rep)))
                msg = None
                if raised:
                    if meta_str(x) != before[0]:
                        msg = "a rejected set_core changed the metadata: %s -> %s" % (before[0], meta_str(x))
                    elif any(a.shape != b.shape or not tn.equal(a, b) for a, b in zip(before[1], x.cores)) or len(before[1]) != len(x.cores):
                        msg = "a rejected set_core changed the cores"
                    else:
                        msg = wf_violation(x)
                else:
                    msg = wf_violation(x)
                    if msg is None and what == "negative-position-fitting":
                        pass          # accepted with the fitting core and still well formed: nothing to report
                    elif msg is None and what != "position":
                        msg = "set_core accepted a core that does not fit (%s) without raising" % what
                if msg:
                    res.violation({"property": "C05", "kind": "oracle-failure", "class": cls,
                                   "case": "%s N=%s M=%s R=%s; set_core(%d, ones(%s))" % (kind, N, M, [int(r) for r in x.R], kk, shp), "oracle": msg, "seed": res.seed})
                    break


def dense_ctor_cases(res, rng):
    """objects built from DENSE data (torch / numpy source, tensor and operator shapes, eps and rmax forms) with size-1 modes in every position,
    on bonds of rank > 1: reported metadata must describe the cores, and objects derived from them must be buildable"""
    shapes = [[3, 1, 4], [2, 1, 1, 3], [1, 3, 1, 2], [3, 4, 1], [2, 3, 1, 2, 2]]
    opshapes = [[(2, 2), (1, 1), (3, 3)], [(2, 3), (1, 1), (1, 1), (2, 2)], [(1, 1), (2, 2), (3, 2)]]
    for si, sh in enumerate(shapes + opshapes):
        is_op = isinstance(sh[0], tuple)
        full_shape = [m for m, _ in sh] + [n for _, n in sh] if is_op else list(sh)
        g = tn.Generator().manual_seed(rng.randrange(1 << 30))
        dense = tn.randn(full_shape, generator=g, dtype=tn.float64)
        for src in ("torch", "numpy"):
            for kw in ({}, {"eps": 1e-6}, {"rmax": 3}, {"rmax": [1] + [3] * (len(sh) - 1) + [1]}):
                data = dense if src == "torch" else dense.numpy()
                try:
                    x = torchtt.TT(data, [tuple(p_) for p_ in sh], **kw) if is_op else (torchtt.TT(data, **kw) if si % 2 == 0 else torchtt.TT(data, list(sh), **kw))
                    msg = wf_violation(x)
                    if msg is None:
                        y = x - 0.5 * x            # operations that trust the reported ranks
                        z = x * x
                        msg = wf_violation(y) or wf_violation(z)
                except Exception as e:
                    msg = "construction / derived operation raised %s: %s" % (type(e).__name__, str(e)[:80])
                res.evaluations += 1
                res.oracle_checked += 1
                cls = "dense-ctor/%s/%s" % ("ttm" if is_op else "tt", src)
                res.classes[cls] = res.classes.get(cls, 0) + 1
                res.nontrivial.add(hash((cls, si, str(kw))))
                if msg:
                    res.violation({"property": "C05", "kind": "oracle-failure", "class": cls, "case": "TT(%s dense, shape=%s, %s)" % (src, sh, kw), "oracle": msg, "seed": res.seed})
                    return


def run(res, rng, tier, known):
    directed_histories(res, rng)
    rejected_calls(res, rng)
    dense_ctor_cases(res, rng)
    nwalks, nsteps = (6, 60) if tier == "quick" else (40, 250)
    model_lines, impl_outs = [], []
    orig_init = B.TT.__init__
    recording = {"on": False}

    def init(self, source, *a, **k):
        if recording["on"] and isinstance(source, list) and all(tn.is_tensor(c) for c in source):
            shapes = [list(c.shape) for c in source]
            try:
                orig_init(self, source, *a, **k)
                out = meta_str(self)
            except Exception as e:
                out = out_err(e)
                model_lines.append(J("ctor", len(shapes), [[len(s)] + s for s in shapes]))
                impl_outs.append(out)
                raise
            model_lines.append(J("ctor", len(shapes), [v for s in shapes for v in ([len(s)] + s)]))
            impl_outs.append(out)
        else:
            orig_init(self, source, *a, **k)
    B.TT.__init__ = init
    opcount = {}
    try:
        for w in range(nwalks):
            wk = Walker(rng, allow_solvers=True)
            wk.seed_objects()
            for st in range(nsteps):
                recording["on"] = True
                store_before = list(wk.store)
                try:
                    info = wk.step()
                finally:
                    recording["on"] = False
                res.evaluations += 1
                op = info["op"]
                opcount[op] = opcount.get(op, 0) + 1
                cls = "walk/%s%s" % (op, "/guess" if "guess" in info else "")
                res.classes[cls] = res.classes.get(cls, 0) + 1
                if info["new"] or info["inplace"] is not None:
                    key = (op, tuple(tuple(wk.store[r].N) if r < len(wk.store) else () for r in info["refs"][:2]))
                    res.nontrivial.add(hash(key))
                if len(res.samples) < 4 and info["new"]:
                    res.samples.append({"walk": w, "step": st, "op": op, "operands": [meta_str(store_before[r]) for r in info["refs"] if r < len(store_before)][:2],
                                        "result": meta_str(wk.store[info["new"][0]])})
                # in-place operations: replay through the model
                if info["inplace"] is not None and "before_obj" in info:
                    x = store_before[info["inplace"]]
                    if "set_core" in info:
                        k, sh = info["set_core"]
                        model_lines.append(J("setcore", info["before_obj"], k, len(sh), sh))
                    else:
                        ex = info["reduce_dims"]
                        model_lines.append(J("reducedims", info["before_obj"], len(ex), ex))
                    impl_outs.append(out_err(info["error"]) if info["error"] is not None else meta_str(x))
                # the property itself, on EVERY live object
                for idx, x in enumerate(wk.store):
                    res.oracle_checked += 1
                    v = wf_violation(x)
                    if v:
                        res.violation({"property": "C05", "kind": "oracle-failure", "class": cls,
                                       "case": "walk %d step %d: after %s on refs %s, live object #%d is malformed" % (w, st, op, info["refs"], idx),
                                       "oracle": v, "object": meta_str(x), "history": wk.log[-25:], "seed": res.seed})
                        break
                for (lst, keep) in getattr(wk, "shared_lists", []):
                    if lst != keep and not res.violations:
                        res.violation({"property": "C05", "kind": "oracle-failure", "class": cls,
                                       "case": "walk %d step %d: after %s the caller's own shape list %s was rewritten to %s" % (w, st, op, keep, lst),
                                       "oracle": "a list passed as `shape` to the constructor is aliased by the object and modified by an in-place operation",
                                       "history": wk.log[-25:], "seed": res.seed})
                if res.violations:
                    break
            if res.violations:
                break
    finally:
        B.TT.__init__ = orig_init
    # replay the observed constructor calls through M-shape
    if model_lines:
        uniq = {}
        for l, o in zip(model_lines, impl_outs):
            uniq.setdefault(l, o)
        lines = list(uniq)
        outs = run_driver(lines)
        for l, mo in zip(lines, outs):
            io = uniq[l]
            res.model_cases += 1
            if io.replace(" ", "") == mo.replace(" ", ""):
                res.core_equal += 1
            else:
                res.violation({"property": "C05", "kind": "correspondence", "class": "ctor", "case": l, "impl_outcome": io, "model_outcome": mo,
                               "note": "the validating constructor and its M-shape model disagree"}, no_input=True)
    res.extra["operations_exercised"] = dict(sorted(opcount.items()))
    res.extra["constructor_calls_replayed"] = len(model_lines)
    return {"level": LEVEL, "rule": RULE, "assumptions": ASSUMPTIONS,
            "not_by_theorem": ["that each algebraic operation passes chain-consistent core shapes to the constructor is not a theorem per operation; the constructor rejects anything malformed (theorem fromCores_wf), so a malformed result can only come from an in-place path or a bypass of the constructor — both are what the walk looks for"]}
