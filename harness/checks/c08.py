"""C08 — indexing and pointwise evaluation agree with dense indexing."""
import numpy as np
import torch as tn
import torchtt
from common import Case, tt_tokens
from gen import DTYPES, rand_tt, rand_modes, rand_ranks, dense_of, exact_equal
from util import J, boxed, chk_val

LEVEL = "proof"
RULE = ("structured enumeration: per mode an index kind drawn from {int>=0, negative int, full slice, proper slice, slice with step, "
        "length-1 slice} with None inserted at random positions and an optional leading/trailing Ellipsis; orders 1..5, singleton modes, "
        "TT-matrices with (int,int)/(slice,slice)/(None,None) pairs; apply_mask on random index batches. "
        "Non-trivial: at least one slice/None/Ellipsis or order>1. The dense oracle is the same expression on the dense array.")
ASSUMPTIONS = ["torch basic indexing of a core (core[:, idx, :]) and python slice normalisation (slice.indices) are trusted primitives",
               "exact float arithmetic on integer operands"]


def sel_tok(idx, n):
    """normalised selector tokens for the model"""
    if idx is None:
        return ["n"]
    if isinstance(idx, int):
        return ["i", idx % n]
    start, stop, step = idx.indices(n)
    return ["s", start, step, len(range(start, stop, step))]


def rand_index(rng, n):
    k = rng.random()
    if k < 0.22:
        return rng.randrange(n), "int"
    if k < 0.34:
        return -rng.randint(1, n), "negint"
    if k < 0.5:
        return slice(None, None, None), "full"
    if k < 0.65:
        a = rng.randrange(n)
        return slice(a, a + 1), "len1"
    if k < 0.82:
        a = rng.randrange(n)
        b = rng.randint(a + 1, n)
        return slice(a, b), "slice"
    a = rng.randrange(n)
    return slice(a, None, rng.randint(2, 3)), "step"


def res_oracle(box, expected):
    def oracle():
        if "r" not in box:
            return "indexing raised"
        r = box["r"]
        exp = expected()
        if isinstance(r, torchtt.TT):
            got = dense_of(r)
            if exp.dim() == 0:
                return "a TT was returned for a fully integer index (dense gives a scalar)"
        else:
            got = r
            if exp.dim() != 0:
                return "a %s-d value was returned, dense indexing gives shape %s" % (getattr(r, "dim", lambda: "?")(), list(exp.shape))
        e = exact_equal(got, exp)
        return ("differs from dense indexing: " + e) if e else None
    return oracle


def ellipsis_singleton_cases(cases, rng):
    """directed: an Ellipsis (leading, trailing, bare) covering modes of size 1 — those modes stay in the result, only integer-indexed modes go"""
    for N in ([3, 1, 4], [4, 1], [1], [2, 1, 1, 3], [1, 3, 1], [1, 1]):
        d = len(N)
        x = rand_tt(rng, N, rand_ranks(rng, d, 3), tn.float64)
        dx = dense_of(x)
        idxs = [(Ellipsis,), (0, Ellipsis), (slice(0, 1), Ellipsis), (None, Ellipsis), (Ellipsis, 0), (Ellipsis, slice(None)), (Ellipsis, None),
                (N[0] - 1, Ellipsis), (slice(None), Ellipsis)]
        if d >= 2:
            idxs += [(0, 0, Ellipsis), (Ellipsis, 0, 0), (slice(None), 0, Ellipsis) if N[1] >= 1 else (0, Ellipsis)]
        for index in idxs:
            box, impl = boxed(lambda x=x, index=index: x[index])
            cases.append(Case(None, impl, res_oracle(box, lambda dx=dx, index=index: dx[index]), "getitem/ellipsis-over-singleton/d%d" % d, True,
                              desc="N=%s index=%s" % (N, str(index).replace("Ellipsis", "..."))))


def one(cases, rng, tier, d, rep, dtname):
    dt = DTYPES[dtname]
    N = rand_modes(rng, d, 1 if rep % 2 == 0 else 2, 4)
    x = rand_tt(rng, N, rand_ranks(rng, d, 3), dt)
    dx = dense_of(x)
    tag = "d%d/%s" % (d, dtname)
    for _ in range(6 if tier == "quick" else 20):
        idx, kinds = [], []
        for n in N:
            i, k = rand_index(rng, n)
            idx.append(i); kinds.append(k)
        # None insertion
        nn = rng.choice([0, 0, 1, 2])
        for _k in range(nn):
            idx.insert(rng.randint(0, len(idx)), None)
        ell = 0
        toks_idx = list(idx)
        full_idx = list(idx)
        r = rng.random()
        if r < 0.2 and d >= 2:
            # leading ellipsis replaces a prefix of full-slice positions
            cut = rng.randint(1, d - 1)
            # drop the first `cut` tensor positions (and the Nones before them)
            cnt, p = 0, 0
            while cnt < cut:
                if full_idx[p] is not None:
                    cnt += 1
                p += 1
            tail = full_idx[p:]
            toks_idx = tail
            full_idx = [Ellipsis] + tail
            ell = 1
        elif r < 0.4 and d >= 2:
            cut = rng.randint(1, d - 1)
            cnt, p = 0, len(full_idx)
            while cnt < cut:
                p -= 1
                if full_idx[p] is not None:
                    cnt += 1
            head = full_idx[:p]
            toks_idx = head
            full_idx = head + [Ellipsis]
            ell = 2
        index = tuple(full_idx)
        # model tokens: selectors normalised against the mode they address
        toks = []
        if ell == 1:
            ks = N[d - sum(1 for t in toks_idx if t is not None):]
        else:
            ks = N
        ki = 0
        for t in toks_idx:
            if t is None:
                toks += sel_tok(None, 0)
            else:
                toks += sel_tok(t, ks[ki]); ki += 1
        box, impl = boxed(lambda x=x, index=index: x[index])
        cls = "getitem/%s%s%s/%s" % ("+".join(sorted(set(kinds))), "/none" if nn else "", "/ell%d" % ell if ell else "", tag)
        cases.append(Case(J("getitem", tt_tokens(x), ell, len(toks_idx), toks), impl,
                          res_oracle(box, lambda index=index: dx[index]), cls, True))
    # order-1 special forms
    if d == 1:
        n = N[0]
        k = rng.randrange(n)
        box, impl = boxed(lambda x=x, k=k: x[k])
        cases.append(Case(J("getitem", tt_tokens(x), 0, 1, "i", k), impl, res_oracle(box, lambda k=k: dx[k]), "getitem/bare-int/" + tag, True))
        a = rng.randrange(n); b = rng.randint(a + 1, n)
        box, impl = boxed(lambda x=x, a=a, b=b: x[a:b])
        cases.append(Case(J("getitem", tt_tokens(x), 0, 1, "s", a, 1, b - a), impl, res_oracle(box, lambda a=a, b=b: dx[a:b]), "getitem/bare-slice/" + tag, True))
    box, impl = boxed(lambda x=x: x[...])
    cases.append(Case(J("clone", tt_tokens(x)), impl, res_oracle(box, lambda: dx), "getitem/ellipsis-only/" + tag, True))
    # empty slices (stop 0, start == stop, start > stop) in every position: the mode becomes empty, the shape follows dense indexing
    if d >= 2:
        for es in (slice(None, 0), slice(0, 0), slice(1, 0), slice(N[0], None), slice(2, 2)):
            for pos in sorted({0, d - 1}):
                idx = tuple(es if q == pos else slice(None) for q in range(d))
                box, impl = boxed(lambda x=x, idx=idx: x[idx])

                def eorc(box=box, idx=idx):
                    if "r" not in box:
                        return "indexing with an empty slice raised"
                    r = box["r"]
                    want = list(dx[idx].shape)
                    got = list(r.N) if isinstance(r, torchtt.TT) else list(r.shape)
                    return None if got == want else "index %s: shape %s, dense indexing gives %s" % (idx, got, want)
                cases.append(Case(None, impl, eorc, "getitem/empty-slice/pos%d/%s" % (pos, tag), True, desc="x[%s]" % (idx,)))
    # apply_mask
    rows = rng.randint(1, 5)
    idxs = [[rng.randrange(n) for n in N] for _ in range(rows)]
    it = tn.tensor(idxs, dtype=tn.int64)
    box, impl = boxed(lambda x=x, it=it: x.apply_mask(it))

    def mexp(idxs=idxs):
        return tn.stack([dx[tuple(r)] for r in idxs])

    def morc(box=box, mexp=mexp, rows=rows):
        if "r" not in box:
            return "apply_mask raised"
        got = box["r"].reshape(-1)
        e = exact_equal(got, mexp().reshape(-1))
        return ("apply_mask differs: " + e) if e else None
    flat = [v for r in idxs for v in r]
    # the implementation squeezes a single-row result to 0-d; canonicalise both sides to 1-d
    def impl_mask(impl=impl, box=box):
        impl()
        from common import out_dense
        return out_dense(box["r"].reshape(-1))
    cases.append(Case(J("mask", tt_tokens(x), rows, flat), impl_mask, morc, "apply_mask/r%d/%s" % (rows, tag), True))
    # TT-matrix indexing
    if d <= 3:
        M = rand_modes(rng, d, 1, 3)
        Nn = [min(n, 3) for n in N]
        A = rand_tt(rng, Nn, rand_ranks(rng, d, 2), dt, M=M)
        dA = dense_of(A)
        for it in range(4 if tier == "quick" else 10):
            rows_i, cols_i, toks, kinds = [], [], [], []
            sign_round = it if it in (1, 2) else 0      # it=1: every integer column index negative; it=2: every integer row index negative
            allint = rng.random() < 0.3 or it in (1, 2)
            for m, n in zip(M, Nn):
                if allint or rng.random() < 0.35:
                    a, b = rng.randrange(m), rng.randrange(n)
                    if rng.random() < 0.3:
                        a = a - m
                    if rng.random() < 0.4 or sign_round == 1:
                        b = b - n                      # negative column index (row and column signs vary independently)
                    if sign_round == 2:
                        a = a - m if a >= 0 else a
                    kinds.append("int")
                else:
                    a, ka = rand_index(rng, m)
                    while not isinstance(a, slice):
                        a, ka = rand_index(rng, m)
                    b, kb = rand_index(rng, n)
                    while not isinstance(b, slice):
                        b, kb = rand_index(rng, n)
                    kinds.append("slice")
                rows_i.append(a); cols_i.append(b)
                toks += sel_tok(a, m) + sel_tok(b, n)
            index = tuple(rows_i + cols_i)
            box, impl = boxed(lambda A=A, index=index: A[index])
            cases.append(Case(J("getitemM", tt_tokens(A), len(rows_i), toks), impl, res_oracle(box, lambda index=index: dA[index]),
                              "getitemM/%s/%s" % ("+".join(sorted(set(kinds))), tag), True))


def run(res, rng, tier, known):
    from common import run_cases
    cases = []
    orders = [1, 2, 3, 4] if tier == "quick" else [1, 2, 3, 4, 5]
    reps = 4 if tier == "quick" else 12
    dts = ["f64", "c128", "f32"]
    ci = 0
    for d in orders:
        for rep in range(reps):
            one(cases, rng, tier, d, rep, dts[ci % 3]); ci += 1
    # deterministic family: apply_mask with MANY index rows on a train of large rank (any internal blocking of the rows must be invisible)
    for (Nb, Rb, rows) in ([([9, 8, 10], [1, 40, 40, 1], 6000), ([6, 5], [1, 5, 1], 200000)] if tier != "quick" else [([9, 8, 10], [1, 40, 40, 1], 6000)]):
        g = tn.Generator().manual_seed(rng.randrange(1 << 30))
        xb = torchtt.TT([tn.randint(-2, 3, [Rb[k], Nb[k], Rb[k + 1]], generator=g).to(tn.float64) for k in range(len(Nb))])
        dxb = dense_of(xb)
        itb = tn.stack([tn.randint(0, n, [rows], generator=g) for n in Nb], 1)
        boxb = {}

        def implb(xb=xb, itb=itb, boxb=boxb):
            boxb["r"] = xb.apply_mask(itb)
            return "ok"

        def orcb(boxb=boxb, dxb=dxb, itb=itb):
            if "r" not in boxb:
                return "apply_mask raised"
            want = dxb[tuple(itb[:, k] for k in range(itb.shape[1]))]
            bad = (boxb["r"].reshape(-1) != want.reshape(-1)).nonzero()
            return None if bad.numel() == 0 else "apply_mask with %d rows: %d entries differ from dense indexing, first bad row %d" % (itb.shape[0], bad.shape[0], int(bad[0]))
        cases.append(Case(None, implb, orcb, "apply_mask/many-rows", True, desc="apply_mask N=%s R=%s rows=%d" % (Nb, Rb, rows)))
    rng.shuffle(cases)
    ellipsis_singleton_cases(cases, rng)
    run_cases(res, cases, known)
    return {"level": LEVEL, "rule": RULE, "assumptions": ASSUMPTIONS,
            "not_by_theorem": ["python-level normalisation of negative ints / slices (done by torch, trusted)", "Ellipsis in the middle of an index (not claimed by the property)"]}
