"""C09 — cat, pad, diag, mprod, to_ttm, conj, clone are exact."""
import numpy as np
import torch as tn
import torch.nn.functional as tnf
import torchtt
from common import Case, tt_tokens, num_str, tensor_tokens
from gen import DTYPES, rand_tt, rand_modes, rand_ranks, dense_of, exact_equal, int_tensor
from util import J, boxed, chk_tt

LEVEL = "proof"
RULE = ("structured enumeration: cat over every axis with 2..3 operands of distinct ranks; pad with every trailing subset of modes, "
        "widths incl. 0, fill 0 and non-zero, tensors and operators; diag both directions; mprod on single modes and lists of modes with "
        "rectangular factors; to_ttm, conj, clone; orders 1..4, real/complex/float32. Non-trivial: order>1 or rank>1.")
ASSUMPTIONS = ["torch primitives (pad, slicing assignment, diagonal, einsum) as modelled; exact float arithmetic on integer operands",
               "pad(): the division value/prod(R) is done in floating point by the implementation; its float result is handed to the model"]


def dense_pad_ttm(dA, M, N, pads, value):
    """block-diagonal padding per the property: original block kept, leading/trailing corner blocks value*I, rest 0,
    applied to the trailing len(pads) modes"""
    d = len(M)
    k0 = d - len(pads)
    Mn = list(M); Nn = list(N)
    for p, k in zip(pads, range(k0, d)):
        Mn[k] += p[0] + p[1]; Nn[k] += p[0] + p[1]
    out = tn.zeros(Mn + Nn, dtype=dA.dtype)
    # original block
    sl = tuple(slice(0, M[k]) if k < k0 else slice(pads[k - k0][0], pads[k - k0][0] + M[k]) for k in range(d)) + \
        tuple(slice(0, N[k]) if k < k0 else slice(pads[k - k0][0], pads[k - k0][0] + N[k]) for k in range(d))
    out[sl] = dA
    return out, Mn, Nn


def one(cases, rng, tier, d, rep, dtname):
    dt = DTYPES[dtname]
    N = rand_modes(rng, d, 1 if rep % 3 == 0 else 2, 4)
    x = rand_tt(rng, N, rand_ranks(rng, d, 3), dt)
    dx = dense_of(x)
    Rx = list(x.R)
    tag = "d%d/%s" % (d, dtname)
    nt = d > 1 or max(Rx) > 1
    # --- conj, clone, to_ttm
    box, impl = boxed(lambda x=x: x.conj())
    cases.append(Case(J("conj", tt_tokens(x)), impl, chk_tt(box, lambda: dx.conj() if dx.is_complex() else dx, dt, Rx, N), "conj/" + tag, nt))
    box, impl = boxed(lambda x=x: x.clone())
    cases.append(Case(J("clone", tt_tokens(x)), impl, chk_tt(box, lambda: dx, dt, Rx, N), "clone/" + tag, nt))
    box, impl = boxed(lambda x=x: x.to_ttm())
    cases.append(Case(J("tottm", tt_tokens(x)), impl, chk_tt(box, lambda: dx.reshape(N + [1] * d), dt, Rx, [1] * d, M=N, is_ttm=True), "to_ttm/" + tag, nt))
    # --- diag both directions
    box, impl = boxed(lambda x=x: torchtt.diag(x))

    def dembed():
        n = int(np.prod(N))
        return tn.diag(dx.reshape(-1)).reshape(N + N)
    cases.append(Case(J("diagE", tt_tokens(x)), impl, chk_tt(box, dembed, dt, Rx, N, M=N, is_ttm=True), "diag/embed/" + tag, nt))
    if d <= 3:
        Msq = [min(n, 3) for n in N]
        A = rand_tt(rng, Msq, rand_ranks(rng, d, 2), dt, M=Msq)
        dA = dense_of(A)
        box, impl = boxed(lambda A=A: torchtt.diag(A))

        def dextract():
            n = int(np.prod(Msq))
            return tn.diagonal(dA.reshape(n, n)).reshape(Msq).clone()
        cases.append(Case(J("diagX", tt_tokens(A)), impl, chk_tt(box, dextract, dt, list(A.R), Msq, is_ttm=False), "diag/extract/" + tag, True))
    if d <= 3:
        # rectangular operators (tall and wide modes, |m - n| up to 3): the diagonal has min(m, n) entries per mode
        Mr = [rng.choice([1, 2, 3, 5]) for _ in range(d)]
        Nr = [max(1, m + rng.choice([-3, -2, 2, 3])) if rng.random() < 0.8 else m for m in Mr]
        Ar = rand_tt(rng, Nr, rand_ranks(rng, d, 2), dt, M=Mr)
        dAr = dense_of(Ar)
        Kr = [min(m, n) for m, n in zip(Mr, Nr)]
        box, impl = boxed(lambda Ar=Ar: torchtt.diag(Ar))

        def dextract_r(dAr=dAr, Kr=Kr, d=d):
            out = tn.zeros(Kr, dtype=dAr.dtype)
            import itertools
            for idx in itertools.product(*[range(k_) for k_ in Kr]):
                out[idx] = dAr[idx + idx]
            return out
        cases.append(Case(None, impl, chk_tt(box, dextract_r, dt, list(Ar.R), Kr, is_ttm=False), "diag/extract-rectangular/" + tag, True, desc="diag of M=%s N=%s" % (Mr, Nr)))
    # --- mprod: single mode and list of modes
    k = rng.randrange(d)
    rows = rng.choice([r for r in range(1, 5) if r != N[k]] or [2])
    F = int_tensor(rng, [rows, N[k]], dt)
    box, impl = boxed(lambda x=x, F=F, k=k: x.mprod(F, k))

    def mp1():
        return tn.movedim(tn.tensordot(F, dx, dims=([1], [k])), 0, k)
    Nn = list(N); Nn[k] = rows
    cases.append(Case(J("mprod", tt_tokens(x), 1, k, rows, N[k], tensor_tokens(F)), impl, chk_tt(box, mp1, dt, Rx, Nn), "mprod/single/" + tag, True))
    # negative mode index (python convention) and, for lists, a negative entry / a repeated mode (applied one after the other)
    kn = k - d
    box, impl = boxed(lambda x=x, F=F, kn=kn: x.mprod(F, kn))
    cases.append(Case(J("mprod", tt_tokens(x), 1, k, rows, N[k], tensor_tokens(F)), impl, chk_tt(box, mp1, dt, Rx, Nn), "mprod/single-negative/" + tag, True))
    F2 = int_tensor(rng, [rng.randint(1, 3), rows], dt)
    box, impl = boxed(lambda x=x, F=F, F2=F2, k=k, kn=kn: x.mprod([F, F2], [k, kn] if d > 1 else [k, k]))

    def mp2():
        return tn.movedim(tn.tensordot(F2 @ F, dx, dims=([1], [k])), 0, k)
    Nn2 = list(N); Nn2[k] = F2.shape[0]
    F21 = F2 @ F
    cases.append(Case(J("mprod", tt_tokens(x), 1, k, F21.shape[0], N[k], tensor_tokens(F21)), impl, chk_tt(box, mp2, dt, Rx, Nn2), "mprod/list-repeated-mode/" + tag, True))
    if d >= 2:
        ks = sorted(rng.sample(range(d), rng.randint(2, min(d, 3))))
        Fs = [int_tensor(rng, [rng.randint(1, 3), N[kk]], dt) for kk in ks]
        box, impl = boxed(lambda x=x, Fs=Fs, ks=ks: x.mprod(list(Fs), list(ks)))

        def mpl():
            out = dx
            for Fm, kk in zip(Fs, ks):
                out = tn.movedim(tn.tensordot(Fm, out, dims=([1], [kk])), 0, kk)
            return out
        toks = [len(ks)]
        Nl = list(N)
        for Fm, kk in zip(Fs, ks):
            toks += [kk, Fm.shape[0], Fm.shape[1]] + tensor_tokens(Fm)
            Nl[kk] = Fm.shape[0]
        cases.append(Case(J("mprod", tt_tokens(x), toks), impl, chk_tt(box, mpl, dt, Rx, Nl), "mprod/list/" + tag, True))
    # --- cat over every axis
    for dim in range(d):
        nop = rng.choice([2, 3])
        ops, dens = [x], [dx]
        for _ in range(nop - 1):
            Ny = list(N); Ny[dim] = rng.randint(1, 3)
            y = rand_tt(rng, Ny, rand_ranks(rng, d, 2), dt)
            ops.append(y); dens.append(dense_of(y))
        box, impl = boxed(lambda ops=ops, dim=dim: torchtt.cat(tuple(ops), dim))
        Nc = list(N); Nc[dim] = sum(o.N[dim] for o in ops)
        Rc = [1] + [sum(o.R[i] for o in ops) for i in range(1, d)] + [1]
        toks = [dim, len(ops)]
        for o in ops:
            toks += tt_tokens(o)
        cases.append(Case(J("cat", toks), impl, chk_tt(box, lambda dens=dens, dim=dim: tn.cat(dens, dim), dt, Rc, Nc), "cat/n%d/dim%d/%s" % (nop, dim, tag), True))
    # --- cat with the SAME object in several positions (tiling: cat((a, a)), cat((a, b, a))): positions are what counts, not identities
    for dim in sorted({0, d - 1}):
        Ny = list(N); Ny[dim] = rng.randint(1, 3)
        yb = rand_tt(rng, Ny, rand_ranks(rng, d, 2), dt)
        dyb = dense_of(yb)
        for pat in ("aa", "aba"):
            if pat == "aa":
                box, impl = boxed(lambda x=x, dim=dim: torchtt.cat((x, x), dim))
                ops2, dens2 = [x, x], [dx, dx]
            else:
                box, impl = boxed(lambda x=x, yb=yb, dim=dim: torchtt.cat((x, yb, x), dim))
                ops2, dens2 = [x, yb, x], [dx, dyb, dx]
            Nc = list(N); Nc[dim] = sum(o.N[dim] for o in ops2)
            Rc = [1] + [sum(o.R[i] for o in ops2) for i in range(1, d)] + [1]
            toks = [dim, len(ops2)]
            for o in ops2:
                toks += tt_tokens(o)
            cases.append(Case(J("cat", toks), impl, chk_tt(box, lambda dens2=dens2, dim=dim: tn.cat(dens2, dim), dt, Rc, Nc), "cat/same-object-%s/dim%d/%s" % (pat, dim, tag), True))
    # --- cat of operands with DIFFERENT dtypes (narrower one first / last): torch.cat promotes, no entry may lose its imaginary part or precision
    other_dt = {tn.float64: tn.complex128, tn.float32: tn.float64, tn.complex128: tn.float64, tn.complex64: tn.complex128}.get(dt)
    if other_dt is not None:
        dim = rng.randrange(d)
        Ny = list(N); Ny[dim] = rng.randint(1, 3)
        ym = rand_tt(rng, Ny, rand_ranks(rng, d, 2), other_dt)
        dym = dense_of(ym)
        wide = tn.promote_types(dt, other_dt)
        for pat, ops3, dens3 in (("xy", [x, ym], [dx, dym]), ("yx", [ym, x], [dym, dx])):
            box, impl = boxed(lambda ops3=ops3, dim=dim: torchtt.cat(tuple(ops3), dim))
            Nc = list(N); Nc[dim] = sum(o.N[dim] for o in ops3)
            Rc = [1] + [sum(o.R[i] for o in ops3) for i in range(1, d)] + [1]
            cases.append(Case(None, impl, chk_tt(box, lambda dens3=dens3, dim=dim, wide=wide: tn.cat([a.to(wide) for a in dens3], dim), wide, Rc, Nc),
                              "cat/mixed-dtype-%s/dim%d/%s" % (pat, dim, tag), True, desc="cat of %s and %s operands" % (dt, other_dt)))
    # --- pad, tensor branch: every trailing subset, widths incl. 0, fill 0 / non-zero
    for npad in range(1, d + 1):
        if tier == "quick" and rng.random() < 0.3 and npad not in (1, d):
            continue
        pads = [(rng.randint(0, 2), rng.randint(0, 2)) for _ in range(npad)]
        for value in (0.0, float(rng.choice([2, -3, 0.5]))):
            box, impl = boxed(lambda x=x, pads=pads, value=value: torchtt.pad(x, tuple(pads), value=value))

            def dpad(pads=pads, value=value):
                flat = []
                for p in reversed(pads):
                    flat += [p[0], p[1]]
                return tnf.pad(dx, tuple(flat), value=value)
            Np = list(N)
            for p, kk in zip(pads, range(d - npad, d)):
                Np[kk] += p[0] + p[1]
            padded_any = any(p[0] + p[1] > 0 for p in pads)
            fnd = None
            Rp = Rx if value == 0 else [1] + [r + 2 for r in Rx[1:-1]] + [1]
            cases.append(Case(J("padT", tt_tokens(x), npad, [v for p in pads for v in p], num_str(float(value))), impl,
                              chk_tt(box, dpad, dt, Rp, Np), "pad/T/n%d/%s/%s" % (npad, "zero" if value == 0 else "nonzero", tag), True, finding=fnd))
    # --- pad, operator branch
    if d <= 3:
        Mp = rand_modes(rng, d, 1, 3)
        Nn2 = [min(n, 3) for n in N]
        Ap = rand_tt(rng, Nn2, rand_ranks(rng, d, 2), dt, M=Mp)
        dAp = dense_of(Ap)
        for npad in sorted({d, rng.randint(1, d)}):
            pads = [(rng.randint(0, 2), rng.randint(0, 2)) for _ in range(npad)]
            value = float(rng.choice([0, 2, -1]))
            box, impl = boxed(lambda Ap=Ap, pads=pads, value=value: torchtt.pad(Ap, tuple(pads), value=value))

            def dpadM(pads=pads, value=value, npad=npad):
                out, Mn, Nn_ = dense_pad_ttm(dAp, Mp, Nn2, pads, value)
                if value != 0:
                    # leading and trailing corner blocks: value * identity on the padded index ranges (all padded modes jointly)
                    k0 = d - npad
                    import itertools
                    for corner in (0, 1):
                        rngs = []
                        ok = True
                        for kk in range(d):
                            if kk < k0:
                                ok = False
                                break
                            p = pads[kk - k0]
                            rngs.append(range(0, p[0]) if corner == 0 else range(p[0] + Mp[kk], p[0] + Mp[kk] + p[1]))
                            # column offsets use N
                        if not ok:
                            continue
                        crngs = []
                        for kk in range(d):
                            p = pads[kk - k0]
                            crngs.append(0 if corner == 0 else (p[0] + Nn2[kk]) - (p[0] + Mp[kk]))
                        for idx in itertools.product(*rngs):
                            cidx = tuple(i + o for i, o in zip(idx, crngs))
                            out[tuple(idx) + cidx] = value
                return out
            Mn = list(Mp); Nq = list(Nn2)
            for p, kk in zip(pads, range(d - npad, d)):
                Mn[kk] += p[0] + p[1]; Nq[kk] += p[0] + p[1]
            fnd = "C09/pad-operator-partial-padding" if npad < d else None
            line = J("padM", tt_tokens(Ap), npad, [v for p in pads for v in p], num_str(value)) if npad == d else None
            cases.append(Case(line, impl,
                              chk_tt(box, dpadM, dt, None, Nq, M=Mn, is_ttm=True), "pad/M/n%d-of-%d/%s/%s" % (npad, d, "zero" if value == 0 else "nonzero", tag), True, finding=fnd,
                              desc="pad operator M=%s N=%s padding=%s value=%s" % (Mp, Nn2, pads, value)))


def run(res, rng, tier, known):
    from common import run_cases
    cases = []
    orders = [1, 2, 3, 4] if tier == "quick" else [1, 2, 3, 4]
    reps = 3 if tier == "quick" else 12
    dts = ["f64", "c128", "f32"]
    ci = 0
    for d in orders:
        for rep in range(reps):
            one(cases, rng, tier, d, rep, dts[ci % 3]); ci += 1
    rng.shuffle(cases)
    # --- dtype of cat on all ordered dtype pairs (and a quarter of the triples), tied to DType.promoteAll (theorems TT.C03d)
    from util import dtype_cases

    def catN(rng_, d, n):
        base = [rng_.randint(1, 3) for _ in range(d)]
        out = []
        for _ in range(n):
            Ni = list(base); Ni[0] = rng_.randint(1, 3)
            out.append(Ni)
        return out
    cases += dtype_cases(rng, [("cat", lambda xs: torchtt.cat(tuple(xs), 0), lambda ds: tn.cat(ds, 0), catN)], "cat", nops=(2, 3))
    run_cases(res, cases, known)
    return {"level": LEVEL, "rule": RULE, "assumptions": ASSUMPTIONS,
            "not_by_theorem": ["dtype preservation", "operator padding (model + correspondence + oracle only)"]}
