"""C14 — cross approximation recovers low-rank data and samples only valid indices.

(a) index safety (proof level): every index matrix handed to the user's function by dmrg_cross is recorded and compared EXACTLY with
    the Lean model of the index bookkeeping (`Idx[k]` updates by unravel_index, assembly of eval_index), replayed from the pivots
    that `np.unravel_index` received (observed through a proxy of the module's `np`); the oracle checks dtype, shape M x d and the range
    of every column; for function_interpolate the values handed to the function must be actual entries of the argument tensors;
(b) quality monitor (NOT a proof): exact low-rank and smooth targets, error <= C*eps."""
import numpy as np
import torch as tn
import torchtt
import torchtt.interpolate as IP
from common import Case, run_driver
from gen import dense_of
from util import J

LEVEL = "proof"
C_CROSS = 50.0
RULE = ("targets with exact TT ranks 1..4 (sums of separable terms, integer-valued) and smooth functions of the index sum, order 2..5, mode sizes 2..20 incl. non-uniform and "
        "smaller than rank+kick (2,2,3,...), eps in [1e-10,1e-3], seeds, optional starting tensor; function_interpolate with one argument tensor and with lists of argument "
        "tensors (meshgrid). Every function call is recorded. Non-trivial: every run; distinct by (routine, N, eps, seed).")
ASSUMPTIONS = ["approximation quality is MONITORED (kind K), constant C = %g" % C_CROSS,
               "_maxvol returns row numbers below the number of rows (oracle assumption on torch's LU pivot vector; checked on every call of the run)",
               "the module-level name `np` of torchtt.interpolate is replaced by a recording proxy during the run (observation from outside, no source hook)"]


class NPProxy:
    def __init__(self, events):
        self._e = events

    def __getattr__(self, name):
        return getattr(np, name)

    def unravel_index(self, idx, shape):
        import sys as _sys
        if _sys._getframe(1).f_code.co_name == "_max_matrix":      # pivot search inside _maxvol: not index bookkeeping
            return np.unravel_index(idx, shape)
        arr = np.asarray(idx).reshape(-1)
        self._e.append(("unravel", [int(v) for v in arr], tuple(int(s) for s in shape)))
        return np.unravel_index(idx, shape)


class MaxvolRec:
    """records, from outside, every `_maxvol` call of the run: shape, the LU pivot vector, the (tolerance test, arg-max position) of every loop
    pass, and the returned positions — replayed through TTModel/Maxvol.lean (theorems TT.C14b)"""
    def __init__(self):
        self.calls, self.cur = [], None

    def __enter__(self):
        self.o_lu, self.o_mm, self.o_mv = IP._LU, IP._max_matrix, IP._maxvol
        rec = self

        def lu(M):
            L, U, P = rec.o_lu(M)
            if rec.cur is not None:
                rec.cur["P"] = [int(v) for v in P.reshape(-1)]
            return L, U, P

        def mm(M):
            vals, idx = rec.o_mm(M)
            if rec.cur is not None:
                rec.cur["ev"].append((1 if bool(vals <= 1 + 5e-2) else 0, int(idx[0][0]), int(idx[0][1])))
            return vals, idx

        def mv(M):
            outer = rec.cur
            rec.cur = {"rows": int(M.shape[0]), "cols": int(M.shape[1]), "P": [], "ev": []}
            try:
                r = rec.o_mv(M)
                rec.cur["res"] = [int(v) for v in r]
                rec.calls.append(rec.cur)
                return r
            finally:
                rec.cur = outer
        IP._LU, IP._max_matrix, IP._maxvol = lu, mm, mv
        return self

    def __exit__(self, *a):
        IP._LU, IP._max_matrix, IP._maxvol = self.o_lu, self.o_mm, self.o_mv


def replay_maxvol(res, rec, limit):
    from common import run_driver
    from util import J
    calls = rec.calls
    # keep every structurally different call first (swaps made, loop exhausted, wide matrices), then the rest up to the limit
    calls = sorted(calls, key=lambda c: (-(sum(1 for e in c["ev"] if not e[0])), c["cols"] >= c["rows"]))[:limit]
    lines = [J("maxvol", c["rows"], c["cols"], len(c["P"]), c["P"], len(c["ev"]), [list(e) for e in c["ev"]]) for c in calls]
    outs = run_driver(lines) if lines else []
    swaps = 0
    for c, line, mo in zip(calls, lines, outs):
        res.model_cases += 1
        io = "il %d %s" % (len(c["res"]), " ".join(str(v) for v in c["res"]))
        swaps += sum(1 for e in c["ev"] if not e[0])
        bad = None
        if io.split() != mo.split():
            bad = "returned positions differ from the model"
        elif any(not (0 <= v < c["rows"]) for v in c["res"]):
            bad = "a returned position is not a row number"
        elif any(not (0 <= v < c["rows"]) for v in c["P"]) or any(not (0 <= e[1] < c["rows"] and 0 <= e[2] < c["cols"]) for e in c["ev"]):
            bad = "primitive contract (LU pivot vector / arg-max position inside the matrix) violated: hypothesis of maxvol_inRange"
        if bad is None:
            res.core_equal += 1
        else:
            res.violation({"property": "C14", "kind": "correspondence", "class": "maxvol/%dx%d" % (c["rows"], c["cols"]), "case": line[:1500], "impl_outcome": io,
                           "model_outcome": mo[:300], "note": bad}, no_input=True)
    res.extra["maxvol_calls_replayed"] = len(lines)
    res.extra["maxvol_calls_seen"] = len(rec.calls)
    res.extra["maxvol_row_swaps_replayed"] = swaps


def target(rng, kind, N):
    d = len(N)
    if kind == "lowrank":
        r = rng.randint(1, 4)
        sparse = rng.random() < 0.15
        pool = [-2, -1, 0, 0, 1, 2, 3] if sparse else [-3, -2, -1, 1, 2, 3]
        vecs = [[tn.tensor([float(rng.choice(pool)) for _ in range(n)], dtype=tn.float64) for n in N] for _ in range(r)]

        def f(I, vecs=vecs):
            out = tn.zeros(I.shape[0], dtype=tn.float64)
            for term in vecs:
                t = tn.ones(I.shape[0], dtype=tn.float64)
                for k, v in enumerate(term):
                    t = t * v[I[:, k]]
                out = out + t
            return out
        return f
    if kind == "witness-sparse":
        # fixed witness of the listed finding C14/cross-sparse-target: rank one, 23 of 27 entries are exact zeros
        a, b, c = tn.tensor([2., 1., -1.], dtype=tn.float64), tn.tensor([2., 4., 0.], dtype=tn.float64), tn.tensor([1., 0., 0.], dtype=tn.float64)
        return lambda I: a[I[:, 0]] * b[I[:, 1]] * c[I[:, 2]]
    if kind == "smooth":
        return lambda I: 1.0 / (2.0 + I.sum(1).to(tn.float64))
    return lambda I: tn.sin(0.3 * I.sum(1).to(tn.float64)) + 2.0


def dense_target(f, N):
    I = tn.stack(tn.meshgrid(*[tn.arange(n) for n in N], indexing="ij"), -1).reshape(-1, len(N))
    return f(I).reshape(N)


def lst(rows):
    return [len(rows)] + [[len(r)] + list(r) for r in rows]


def shape_break(res, label, where, got, want):
    """the pivots are decoded with a grid other than (index-set size, mode size) of the model: the correspondence no longer checks"""
    res.violation({"property": "C14", "kind": "correspondence", "class": "index-bookkeeping/" + label, "case": "unravel at %s" % where,
                   "impl_outcome": "pivot positions decoded on a %s grid" % (tuple(got),), "model_outcome": "grid %s (Cross.leftUpdate/rightUpdate/rightInit)" % (tuple(want),),
                   "note": "the implementation decodes maxvol positions with other dimensions than the Lean model of the index bookkeeping"}, no_input=True)
    return None


def replay_cross(res, events, N, label):
    """replay the recorded unravel / function events through the Lean model of the index bookkeeping"""
    d = len(N)
    Idx = [None] * (d + 1)
    Idx[0] = [[]]
    Idx[d] = [[]]
    lines, expect = [], []
    ev = list(events)
    pos = 0
    # initialisation loop
    for k in range(d - 1, 0, -1):
        kind, piv, shape = ev[pos]; pos += 1
        if kind != "unravel":
            return "event order: expected the initialisation unravel for k=%d" % k
        n = N[k]
        if tuple(shape) != (len(Idx[k + 1]), n):
            return shape_break(res, label, "initialisation k=%d" % k, shape, (len(Idx[k + 1]), n))
        new = [[p % n] + Idx[k + 1][p // n] for p in piv]
        lines.append(J("rightinit", lst(Idx[k + 1]), n, len(piv), piv)); expect.append(("set", new))
        Idx[k] = new
    # sweeps
    sweep_pos = [("LR", k) for k in range(d - 1)] + [("RL", k) for k in range(d - 2, -1, -1)]
    si = 0
    while pos < len(ev):
        direction, k = sweep_pos[si % len(sweep_pos)]; si += 1
        kind, mat = ev[pos][0], ev[pos][1]; pos += 1
        if kind != "call":
            return "event order: expected a function call at %s k=%d" % (direction, k)
        if Idx[k] is None or Idx[k + 2] is None:
            return "model has no index set for position %d" % k
        lines.append(J("evalindex", lst(Idx[k]), N[k], N[k + 1], lst(Idx[k + 2]))); expect.append(("set", mat))
        if pos >= len(ev):
            break
        kind, piv, shape = ev[pos]; pos += 1
        if kind != "unravel":
            return "event order: expected an unravel after the call at %s k=%d" % (direction, k)
        if direction == "LR":
            n = N[k]
            if tuple(shape) != (len(Idx[k]), n):
                return shape_break(res, label, "left-to-right k=%d" % k, shape, (len(Idx[k]), n))
            new = [Idx[k][p // n] + [p % n] for p in piv]
            lines.append(J("leftupdate", lst(Idx[k]), n, len(piv), piv)); expect.append(("set", new))
            Idx[k + 1] = new
        else:
            r = len(Idx[k + 2])
            if tuple(shape) != (N[k + 1], r):
                return shape_break(res, label, "right-to-left k=%d" % k, shape, (N[k + 1], r))
            new = [[p // r] + Idx[k + 2][p % r] for p in piv]
            lines.append(J("rightupdate", lst(Idx[k + 2]), r, len(piv), piv)); expect.append(("set", new))
            Idx[k + 1] = new
    outs = run_driver(lines)
    for (tag, exp), mo, ln in zip(expect, outs, lines):
        res.model_cases += 1
        io = "set %s" % exp
        if io.replace(" ", "") == mo.replace(" ", ""):
            res.core_equal += 1
        else:
            res.violation({"property": "C14", "kind": "correspondence", "class": "index-bookkeeping/" + label, "case": ln[:1500],
                           "impl_outcome": io[:1500], "model_outcome": mo[:1500],
                           "note": "index matrix handed to the user function / index-set update differs from the Lean model"}, no_input=True)
            return None
    return None


def cross_case(res, rng, tier, ci, stats):
    d = rng.choice([2, 2, 3, 3, 4] if tier == "quick" else [2, 3, 3, 4, 5])
    small = rng.random() < 0.4
    hi = 20 if d <= 3 else (8 if d == 4 else 5)
    N = [rng.choice([2, 2, 3]) if small else rng.randint(2, hi) for _ in range(d)]
    kind = rng.choice(["lowrank", "lowrank", "smooth", "sin"])
    eps = 10.0 ** rng.uniform(-10, -3)
    seed = rng.randrange(1 << 30)
    start = rng.random() < 0.25
    if ci == 0:
        d, N, kind, eps, start, small = 3, [3, 3, 3], "witness-sparse", 6.6e-8, False, True
    label = "dmrg_cross/%s/d%d%s%s" % (kind, d, "/small-modes" if small else "", "/start" if start else "")
    box = {"calls": []}
    events = []

    def impl():
        tn.manual_seed(seed); np.random.seed(seed % (2 ** 32))
        f = target(rng, kind, N)
        box["f"] = f

        def wrapped(I):
            events.append(("call", [[int(v) for v in row] for row in I.tolist()]))
            box["calls"].append((I.dtype, tuple(I.shape), I.min(0)[0].tolist() if I.numel() else [], I.max(0)[0].tolist() if I.numel() else []))
            return f(I)
        x0 = torchtt.randn(N, [1] + [rng.randint(1, 3)] * (d - 1) + [1]) if start else None
        saved = IP.np
        IP.np = NPProxy(events)
        try:
            x = IP.dmrg_cross(wrapped, N, eps=eps, nswp=12, x_start=x0)
        finally:
            IP.np = saved
        box["x"] = x
        return "ok"

    def oracle():
        if "x" not in box:
            if "f" in box:
                ref = dense_target(box["f"], N)
                zf = float((ref == 0).double().mean())
                if zf >= 0.5:
                    return "[finding:C14/cross-sparse-target] dmrg_cross raised on a target with %.0f%% exact zeros (the sampled supercore can vanish identically)" % (100 * zf)
            return "dmrg_cross raised"
        x = box["x"]
        if not isinstance(x, torchtt.TT) or x.is_ttm or list(x.N) != N:
            return "result shape %s, requested %s" % (getattr(x, "N", None), N)
        if not box["calls"]:
            return "the function was never called"
        for (dt, shp, lo, hi_) in box["calls"]:
            if dt != tn.int64:
                return "index matrix has dtype %s" % dt
            if len(shp) != 2 or shp[1] != d:
                return "index matrix has shape %s, expected M x %d" % (shp, d)
            for k in range(d):
                if lo[k] < 0 or hi_[k] >= N[k]:
                    return "column %d of an index matrix ranges over [%d,%d], valid is [0,%d)" % (k, lo[k], hi_[k], N[k])
        ref = dense_target(box["f"], N)
        err = float(tn.linalg.norm(dense_of(x) - ref) / tn.linalg.norm(ref))
        box["ratio"] = err / eps
        stats.append((label, eps, err / eps))
        if not (err <= C_CROSS * eps or err <= 1e-11):      # NaN-safe
            zf = float((ref == 0).double().mean())
            pre = "[finding:C14/cross-sparse-target] " if zf >= 0.5 else ""
            return pre + "relative error %.3g = %.3g*eps exceeds %g*eps (%s N=%s)" % (err, err / eps, C_CROSS, label, N)
        return None
    return Case(None, impl, oracle, label, True, desc="dmrg_cross %s N=%s eps=%.2g seed=%d" % (label, N, eps, seed)), events, N, label


def fi_case(rng, tier, ci, stats):
    d = rng.choice([2, 3, 3, 4])
    N = [rng.randint(2, 9 if d <= 3 else 5) for _ in range(d)]
    mode = rng.choice(["single", "list-d", "list-other"])
    if ci % 4 == 3:
        mode = "list-mixed"           # deterministic family: 4-5 argument tensors whose TT ranks differ and interleave
    eps = 10.0 ** rng.uniform(-10, -4)
    seed = rng.randrange(1 << 30)
    label = "function_interpolate/%s/d%d" % (mode, d)
    box = {"bad": None}

    def impl():
        tn.manual_seed(seed); np.random.seed(seed % (2 ** 32))
        if mode == "single":
            z = torchtt.randn(N, [1] + [rng.randint(1, 2)] * (d - 1) + [1])
            entries = z.full().reshape(-1)
            srt, _ = tn.sort(entries)

            def f(v):
                # every value must be an actual entry of the argument tensor
                pos = tn.searchsorted(srt, v.reshape(-1)).clamp(0, srt.numel() - 1)
                near = tn.minimum((srt[pos] - v.reshape(-1)).abs(), (srt[(pos - 1).clamp(0)] - v.reshape(-1)).abs())
                scale = float(entries.abs().max()) + 1e-300
                if not (float(near.max()) <= 1e-9 * scale):
                    box["bad"] = "a value handed to the function is not an entry of the argument tensor (distance %.3g)" % float(near.max())
                return v * v + 1.0
            y = IP.function_interpolate(f, z, eps=eps, nswp=12)
            ref = z.full() ** 2 + 1.0
        elif mode == "list-mixed":
            # argument j takes its values in [j, j+1) (disjoint ranges: a column can only come from its own argument); rank-one coordinate
            # tensors and rank-two sums of two coordinates are interleaved ([1,2,2,1] / [2,1,1,2,1] rank signatures); f is not symmetric
            vs = [tn.linspace(0.0, 0.4, n, dtype=tn.float64) for n in N]
            Xs = torchtt.meshgrid(vs)
            pat = [[1, 2, 2, 1], [2, 1, 1, 2, 1], [1, 2, 1, 2]][ci % 3]
            use = []
            for j, rk in enumerate(pat):
                a = Xs[j % d]
                t = (a + float(j)) if rk == 1 else (a + Xs[(j + 1) % d] * 0.5 + float(j))
                use.append(t.round(1e-14))
            dens = [dense_of(t) for t in use]
            wts = [1.0 + 0.7 * j for j in range(len(use))]

            def f(v, use=use, dens=dens, wts=wts):
                if v.dim() != 2 or v.shape[1] != len(use):
                    box["bad"] = "argument matrix has shape %s for %d argument tensors" % (tuple(v.shape), len(use))
                    return v.sum(1)
                for k in range(len(use)):
                    ent = dens[k].reshape(-1)
                    srt, _ = tn.sort(ent)
                    col = v[:, k].reshape(-1).to(tn.float64)
                    pos = tn.searchsorted(srt, col).clamp(0, srt.numel() - 1)
                    near = tn.minimum((srt[pos] - col).abs(), (srt[(pos - 1).clamp(0)] - col).abs())
                    if not (float(near.max()) <= 1e-9 * (float(ent.abs().max()) + 1e-300)):
                        box["bad"] = "column %d holds a value that is not an entry of argument tensor %d (distance %.3g)" % (k, k, float(near.max()))
                return 1.0 / (1.0 + sum(w * v[:, k] for k, w in enumerate(wts)))
            y = IP.function_interpolate(f, use, eps=eps, nswp=12)
            ref = 1.0 / (1.0 + sum(w * dk for w, dk in zip(wts, dens)))
        else:
            vs = [tn.linspace(0.0, 1.0, n, dtype=tn.float64) for n in N]
            Xs = torchtt.meshgrid(vs)
            use = Xs if mode == "list-d" else Xs[: max(1, d - 1)]
            grids = [set(float(a) for a in v.tolist()) for v in vs]

            def f(v, use=use):
                if v.dim() != 2 or v.shape[1] != len(use):
                    box["bad"] = "argument matrix has shape %s for %d argument tensors" % (tuple(v.shape), len(use))
                    return v.sum(1)
                for k in range(len(use)):
                    col = v[:, k]
                    ref_v = vs[k]
                    dist = (col.reshape(-1, 1) - ref_v.reshape(1, -1)).abs().min(1)[0]
                    if not (float(dist.max()) <= 1e-9):
                        box["bad"] = "column %d holds a value that is not an entry of argument tensor %d" % (k, k)
                return 1.0 / (1.0 + v.sum(1))
            y = IP.function_interpolate(f, use, eps=eps, nswp=12)
            dens = [dense_of(t) for t in use]
            ref = 1.0 / (1.0 + sum(dens))
        box["y"], box["ref"] = y, ref
        return "ok"

    def oracle():
        if box["bad"]:
            return box["bad"]
        if "y" not in box:
            return "function_interpolate raised"
        y = box["y"]
        if not isinstance(y, torchtt.TT) or list(y.N) != N:
            return "result shape %s, expected %s" % (getattr(y, "N", None), N)
        err = float(tn.linalg.norm(dense_of(y) - box["ref"]) / tn.linalg.norm(box["ref"]))
        stats.append((label, eps, err / eps))
        if not (err <= C_CROSS * eps or err <= 1e-11):      # NaN-safe
            return "relative error %.3g = %.3g*eps exceeds %g*eps (%s N=%s)" % (err, err / eps, C_CROSS, label, N)
        return None
    return Case(None, impl, oracle, label, True, desc="function_interpolate %s N=%s eps=%.2g seed=%d" % (mode, N, eps, seed),
                finding="C14/function-interpolate-list-length" if mode == "list-other" else None)


def run(res, rng, tier, known):
    from common import run_cases
    stats = []
    n_cross, n_fi = (14, 8) if tier == "quick" else (150, 80)
    cases, replays = [], []
    for ci in range(n_cross):
        c, events, N, label = cross_case(res, rng, tier, ci, stats)
        cases.append(c)
        replays.append((events, N, label))
    for ci in range(n_fi):
        cases.append(fi_case(rng, tier, ci, stats))
    with MaxvolRec() as mrec:
        run_cases(res, cases, known)
    replay_maxvol(res, mrec, 400 if tier == "quick" else 4000)
    nrep = 0
    for events, N, label in replays:
        if not events or res.violations:
            continue
        msg = replay_cross(res, events, N, label)
        nrep += 1
        if msg:
            res.violation({"property": "C14", "kind": "correspondence", "class": "index-bookkeeping/" + label, "case": "N=%s" % N, "impl_outcome": msg,
                           "model_outcome": "event sequence of the model (init loop, then LR/RL sweeps)"}, no_input=True)
    res.extra["runs_replayed_through_index_model"] = nrep
    if stats:
        res.extra["contract_monitor_runs"] = len(stats)
        res.extra["contract_monitor_max_error_over_eps"] = max(s[2] for s in stats)
    return {"level": LEVEL, "rule": RULE, "assumptions": ASSUMPTIONS,
            "not_by_theorem": ["approximation quality (kind K: monitored only)", "the two primitive contracts behind TT.C14b.maxvol_inRange (torch's LU pivot vector holds row numbers; topk + unravel_index return a position inside the matrix): checked on every recorded call"]}
