"""C18 — incompatible operands raise an error instead of returning a wrong tensor.

Malformed stream: for every public entry point, each class of incompatibility at each position.  The oracle is the
property itself: the call must raise; where the docstring names an exception class the raised class must be that one.
The guard logic of the binary operators and of the constructor is also modelled in Lean (M-shape, `Guard.lean`) and
compared outcome-class by outcome-class."""
import numpy as np
import torch as tn
import torchtt
from torchtt.errors import ShapeMismatch, RankMismatch, IncompatibleTypes, InvalidArguments
from common import Case, out_err, run_driver
from walk import rnd_tt, spd_ttm
from util import J

LEVEL = "proof"
RULE = ("malformed stream: entry point x incompatibility class (mode-size mismatch at each position, order mismatch, kind mismatch, wrong argument type, "
        "out-of-range axis/index/core position, non-matching element count, invalid permutation/rank lists) over small operand structures (order 1..4); "
        "a separate well-formed control stream checks that compatible calls are NOT rejected. Non-trivial: every malformed case; distinct by (entry, class, position, structure).")
ASSUMPTIONS = ["an exception raised by torch itself (RuntimeError/IndexError/TypeError) counts as 'raises' for undocumented cases; for documented cases the library's class is required"]

LIB = (ShapeMismatch, RankMismatch, IncompatibleTypes, InvalidArguments, NotImplementedError)


def mk(cases, label, f, doc=None, finding=None, model=None):
    """doc: exception class documented for this case (None = any exception is acceptable)"""
    box = {}

    def impl():
        try:
            r = f()
        except Exception as e:
            box["exc"] = e
            o = out_err(e)
            return "err Other" if (model is not None and o.startswith("err Other:")) else o     # the guard models have one class for non-library exceptions
        box["ret"] = r
        return "returned " + type(r).__name__

    def oracle():
        if "ret" in box:
            r = box["ret"]
            what = "a TT object" if isinstance(r, torchtt.TT) else ("a number/array" if (tn.is_tensor(r) or isinstance(r, (int, float, complex, np.ndarray))) else repr(type(r).__name__))
            return "no exception: the call returned %s" % what
        e = box.get("exc")
        if e is None:
            return "case not executed"
        if doc is not None and not isinstance(e, doc):
            return "[class] raised %s (%s) where %s is documented" % (type(e).__name__, str(e)[:80], doc.__name__)
        return None
    cases.append(Case(model, impl, oracle, label, True, finding=finding, desc=label, gauge_ok=False))


def shape_tok(x):
    """object description for the guard model: kind, N, M, R"""
    N = list(x.N); M = list(x.M) if x.is_ttm else []
    return ["M" if x.is_ttm else "T", len(N)] + N + [len(M)] + M


def build(rng, tier):
    cases = []
    reps = 2 if tier == "quick" else 8
    for rep in range(reps):
        for d in (1, 2, 3, 4) if tier != "quick" else (1, 2, 3):
            one(cases, rng, tier, rep, d)
    return cases


def one(cases, rng, tier, rep, d):
    if True:
        if True:
            N = [rng.randint(2, 4) for _ in range(d)]
            M = [rng.randint(2, 4) for _ in range(d)]
            x = rnd_tt(rng, N)
            A = rnd_tt(rng, N, M)
            tag = "d%d" % d
            # --- mode-size mismatch at each position, TT (+,-,*) TT
            for pos in range(d):
                N2 = list(N); N2[pos] = N[pos] + 1
                y = rnd_tt(rng, N2)
                for nm, f in (("add", lambda x=x, y=y: x + y), ("sub", lambda x=x, y=y: x - y), ("mul", lambda x=x, y=y: x * y)):
                    mk(cases, "%s/tt/mode-mismatch/pos%d/%s" % (nm, pos, tag), f, ShapeMismatch,
                       model=J("guard", nm, shape_tok(x), shape_tok(y)))
                mk(cases, "dot/mode-mismatch/pos%d/%s" % (pos, tag), lambda x=x, y=y: torchtt.dot(x, y), ShapeMismatch, model=J("guard2", "dot", shape_tok(x), shape_tok(y)))
                mk(cases, "truediv/mode-mismatch/pos%d/%s" % (pos, tag), lambda x=x, y=y: x / y, ShapeMismatch, model=J("guard2", "truediv", shape_tok(x), shape_tok(y)))
                # TT-matrices: row mismatch and column mismatch
                M2 = list(M); M2[pos] = M[pos] + 1
                Brow = rnd_tt(rng, N, M2)
                Bcol = rnd_tt(rng, N2, M)
                for nm, f2 in (("add", lambda a, b: a + b), ("sub", lambda a, b: a - b), ("mul", lambda a, b: a * b)):
                    for which, Bx in (("row", Brow), ("col", Bcol)):
                        mk(cases, "%s/ttm/%s-mismatch/pos%d/%s" % (nm, which, pos, tag), lambda A=A, Bx=Bx, f2=f2: f2(A, Bx), ShapeMismatch,
                           
                           model=J("guard", nm, shape_tok(A), shape_tok(Bx)))
                # size-1 variant for operators: the mismatching mode of the second operand has size 1
                M3 = list(M); M3[pos] = 1
                B1 = rnd_tt(rng, N, M3)
                for nm, f2 in (("add", lambda a, b: a + b), ("sub", lambda a, b: a - b)):
                    mk(cases, "%s/ttm/row-size1/pos%d/%s" % (nm, pos, tag), lambda A=A, B1=B1, f2=f2: f2(A, B1), ShapeMismatch,
                       model=J("guard", nm, shape_tok(A), shape_tok(B1)))
                # matmul inner mismatch
                xv = rnd_tt(rng, N2)
                mk(cases, "matmul/ttm-tt/inner-mismatch/pos%d/%s" % (pos, tag), lambda A=A, xv=xv: A @ xv, ShapeMismatch,
                   model=J("guard", "matmul", shape_tok(A), shape_tok(xv)))
                Bm = rnd_tt(rng, [2] * d, N2)
                mk(cases, "matmul/ttm-ttm/inner-mismatch/pos%d/%s" % (pos, tag), lambda A=A, Bm=Bm: A @ Bm, ShapeMismatch,
                   model=J("guard", "matmul", shape_tok(A), shape_tok(Bm)))
                xl = rnd_tt(rng, M2)
                mk(cases, "matmul/tt-ttm/inner-mismatch/pos%d/%s" % (pos, tag), lambda A=A, xl=xl: xl @ A, ShapeMismatch,
                   model=J("guard", "matmul", shape_tok(xl), shape_tok(A)))
                # size-1 variants of the contraction guard: the contracted mode of the vector-like operand has size 1 (einsum would broadcast it)
                if N[pos] > 1:
                    N1 = list(N); N1[pos] = 1
                    xv1 = rnd_tt(rng, N1)
                    mk(cases, "matmul/ttm-tt/inner-size1/pos%d/%s" % (pos, tag), lambda A=A, xv1=xv1: A @ xv1, ShapeMismatch,
                       model=J("guard", "matmul", shape_tok(A), shape_tok(xv1)))
                    Bm1 = rnd_tt(rng, [2] * d, N1)
                    mk(cases, "matmul/ttm-ttm/inner-size1/pos%d/%s" % (pos, tag), lambda A=A, Bm1=Bm1: A @ Bm1, ShapeMismatch,
                       model=J("guard", "matmul", shape_tok(A), shape_tok(Bm1)))
                if M[pos] > 1:
                    Ml1 = list(M); Ml1[pos] = 1
                    xl1 = rnd_tt(rng, Ml1)
                    mk(cases, "matmul/tt-ttm/inner-size1/pos%d/%s" % (pos, tag), lambda A=A, xl1=xl1: xl1 @ A, ShapeMismatch,
                       model=J("guard", "matmul", shape_tok(xl1), shape_tok(A)))
                dn = tn.ones([2] + N2, dtype=tn.float64)
                mk(cases, "matmul/ttm-dense/mismatch/pos%d/%s" % (pos, tag), lambda A=A, dn=dn: A @ dn, ShapeMismatch)
                mk(cases, "bilinear/shape/pos%d/%s" % (pos, tag), lambda A=A, xl=xl, x=x: torchtt.bilinear_form(xl, A, x), ShapeMismatch, model=J("guard2", "bilinear", shape_tok(xl), shape_tok(A), shape_tok(x)))
                mk(cases, "fast_matvec/inner-mismatch/pos%d/%s" % (pos, tag), lambda A=A, xv=xv: A.fast_matvec(xv, use_cpp=False), None)
                mk(cases, "amen_mv/inner-mismatch/pos%d/%s" % (pos, tag), lambda A=A, xv=xv: torchtt.amen_mv(A, xv, use_cpp=False), None)
                mk(cases, "cat/mode-mismatch/pos%d/%s" % (pos, tag),
                   lambda x=x, y=y, pos=pos, d=d: torchtt.cat((x, y), (pos + 1) % d) if d > 1 else (_ for _ in ()).throw(InvalidArguments("n/a")), InvalidArguments,
                   model=J("guard2", "cat", shape_tok(x), shape_tok(y), (pos + 1) % d) if d > 1 else None)
                F = tn.ones([2, N[pos] + 1], dtype=tn.float64)
                mk(cases, "mprod/mode-mismatch/pos%d/%s" % (pos, tag), lambda x=x, F=F, pos=pos: x.mprod(F, pos), ShapeMismatch, model=J("guard2", "mprod", shape_tok(x), pos, N[pos] + 1))
            # --- order mismatch
            z = rnd_tt(rng, N + [2])
            mk(cases, "add/order-mismatch-left-smaller/" + tag, lambda x=x, z=z: x + z, ShapeMismatch, model=J("guard", "add", shape_tok(x), shape_tok(z)))
            mk(cases, "mul/order-mismatch-left-smaller/" + tag, lambda x=x, z=z: x * z, ShapeMismatch, model=J("guard", "mul", shape_tok(x), shape_tok(z)))
            mk(cases, "dot/order-mismatch/" + tag, lambda x=x, z=z: torchtt.dot(x, z), ShapeMismatch, model=J("guard2", "dot", shape_tok(x), shape_tok(z)))
            mk(cases, "dot/partial/first-has-fewer-modes/" + tag, lambda x=x, z=z: torchtt.dot(x, z, [0]), ShapeMismatch)
            mk(cases, "cat/order-mismatch/" + tag, lambda x=x, z=z: torchtt.cat((x, z), 0), InvalidArguments, model=J("guard2", "cat", shape_tok(x), shape_tok(z), 0))
            mk(cases, "matmul/order-mismatch/" + tag, lambda A=A, z=z: A @ z, ShapeMismatch, model=J("guard", "matmul", shape_tok(A), shape_tok(z)))
            # --- kind mismatch
            for nm, f in (("add", lambda x=x, A=A: x + A), ("add-rev", lambda x=x, A=A: A + x), ("sub", lambda x=x, A=A: x - A),
                          ("mul", lambda x=x, A=A: x * A), ("mul-rev", lambda x=x, A=A: A * x), ("truediv", lambda x=x, A=A: x / A),
                          ("kron", lambda x=x, A=A: x ** A), ("kron-fn", lambda x=x, A=A: torchtt.kron(A, x))):
                mk(cases, "%s/kind-mismatch/%s" % (nm, tag), f, IncompatibleTypes,
                   model=J("guard", nm.split("-")[0], shape_tok(A if "rev" in nm else x), shape_tok(x if "rev" in nm else A)) if nm.split("-")[0] in ("add", "sub", "mul")
                   else (J("guard2", "truediv", shape_tok(x), shape_tok(A)) if nm == "truediv" else J("guard2", "kron", shape_tok(A if nm == "kron-fn" else x), shape_tok(x if nm == "kron-fn" else A))))
            mk(cases, "matmul/tt-tt/" + tag, lambda x=x: x @ x, InvalidArguments, model=J("guard", "matmul", shape_tok(x), shape_tok(x)))
            mk(cases, "t/on-tensor/" + tag, lambda x=x: x.t(), InvalidArguments)
            mk(cases, "M/on-tensor/" + tag, lambda x=x: x.M, IncompatibleTypes)
            mk(cases, "fast_matvec/kinds/tensor-first/" + tag, lambda x=x: x.fast_matvec(x), IncompatibleTypes, model=J("guard2", "fast_matvec", shape_tok(x), shape_tok(x)))
            mk(cases, "fast_matvec/kinds/ttm-second/" + tag, lambda A=A: A.fast_matvec(A), IncompatibleTypes, model=J("guard2", "fast_matvec", shape_tok(A), shape_tok(A)))
            mk(cases, "dot/ttm/" + tag, lambda A=A: torchtt.dot(A, A), NotImplementedError, model=J("guard2", "dot", shape_tok(A), shape_tok(A)))
            mk(cases, "dot/partial/ttm/" + tag, lambda A=A, x=x: torchtt.dot(x, A, [0]), NotImplementedError)
            mk(cases, "bilinear/kinds/" + tag, lambda A=A, x=x: torchtt.bilinear_form(x, x, x), IncompatibleTypes, model=J("guard2", "bilinear", shape_tok(x), shape_tok(x), shape_tok(x)))
            mk(cases, "mprod/ttm/" + tag, lambda A=A: A.mprod(tn.ones(2, 2), 0), IncompatibleTypes, model=J("guard2", "mprod", shape_tok(A), 0, 2))
            mk(cases, "cat/ttm/" + tag, lambda A=A: torchtt.cat((A, A), 0), InvalidArguments, model=J("guard2", "cat", shape_tok(A), shape_tok(A), 0))
            sq = rnd_tt(rng, N, N)
            mk(cases, "amen_solve/b-is-ttm/" + tag, lambda sq=sq: torchtt.solvers.amen_solve(sq, sq, use_cpp=False), IncompatibleTypes, model=J("guard2", "amen_solve", shape_tok(sq), shape_tok(sq), 1))
            mk(cases, "amen_solve/A-is-tensor/" + tag, lambda x=x: torchtt.solvers.amen_solve(x, x, use_cpp=False), IncompatibleTypes, model=J("guard2", "amen_solve", shape_tok(x), shape_tok(x), 1))
            mk(cases, "amen_solve/non-square/" + tag, lambda N=N: torchtt.solvers.amen_solve(rnd_tt(rng, N, [n + 1 for n in N]), rnd_tt(rng, [n + 1 for n in N]), use_cpp=False), ShapeMismatch)
            mk(cases, "amen_solve/rhs-shape/" + tag, lambda sq=sq, N=N: torchtt.solvers.amen_solve(sq, rnd_tt(rng, [n + 1 for n in N]), use_cpp=False), ShapeMismatch)
            mk(cases, "amen_mm/kinds/" + tag, lambda A=A, x=x: torchtt.amen_mm(A, x), None)
            mk(cases, "to_qtt/non-quadratic-ttm/" + tag, lambda: rnd_tt(rng, [2] * d, [4] * d).to_qtt(), ShapeMismatch)
            # --- wrong argument types
            for bad_name, bad in (("str", "abc"), ("list", [1, 2]), ("none", None), ("dict", {})):
                for nm, f in (("add", lambda x=x, bad=bad: x + bad), ("sub", lambda x=x, bad=bad: x - bad), ("mul", lambda x=x, bad=bad: x * bad),
                              ("truediv", lambda x=x, bad=bad: x / bad), ("matmul", lambda A=A, bad=bad: A @ bad)):
                    if nm == "add" and bad is None:
                        pass
                    doc = InvalidArguments
                    fnd = None
                    if nm == "add" or bad_name == "str":
                        doc = None       # not documented for + ; a string passes np.isscalar and fails inside torch (TypeError)
                    mk(cases, "%s/wrong-type/%s/%s" % (nm, bad_name, tag), f, doc, finding=fnd)
                if bad is not None:
                    mk(cases, "kron/wrong-type/%s/%s" % (bad_name, tag), lambda x=x, bad=bad: x ** bad, InvalidArguments)
                mk(cases, "dot/wrong-type/%s/%s" % (bad_name, tag), lambda x=x, bad=bad: torchtt.dot(x, bad), InvalidArguments)
                mk(cases, "bilinear/wrong-type/%s/%s" % (bad_name, tag), lambda x=x, A=A, bad=bad: torchtt.bilinear_form(bad, A, x), InvalidArguments)
                mk(cases, "fast_matvec/wrong-type/%s/%s" % (bad_name, tag), lambda A=A, bad=bad: A.fast_matvec(bad), InvalidArguments)
                mk(cases, "permute/wrong-type/%s/%s" % (bad_name, tag), lambda bad=bad, d=d: torchtt.permute(bad, list(range(d))), InvalidArguments)
                mk(cases, "diag/wrong-type/%s/%s" % (bad_name, tag), lambda bad=bad: torchtt.diag(bad), InvalidArguments)
                mk(cases, "save/wrong-type/%s/%s" % (bad_name, tag), lambda bad=bad: torchtt.save(bad, "/tmp/ttverif_never_written.TT"), InvalidArguments)
                if bad_name != "list":
                    mk(cases, "ctor/wrong-source/%s/%s" % (bad_name, tag), lambda bad=bad: torchtt.TT(bad) if bad is not None else torchtt.TT("x"), NotImplementedError)
                    mk(cases, "zeros/shape-not-list/%s/%s" % (bad_name, tag), lambda bad=bad: torchtt.zeros(bad if bad is not None else 3), InvalidArguments)
                    mk(cases, "ones/shape-not-list/%s/%s" % (bad_name, tag), lambda bad=bad: torchtt.ones(bad if bad is not None else 3), InvalidArguments)
                    mk(cases, "qtt_to_tens/shape-not-list/%s/%s" % (bad_name, tag), lambda x=x, bad=bad: x.qtt_to_tens(bad if bad is not None else 3), InvalidArguments)
                mk(cases, "sum/wrong-index-type/%s/%s" % (bad_name, tag), lambda x=x, bad=bad: x.sum(["a"] if isinstance(bad, list) else bad) if bad is not None else x.sum("0"), InvalidArguments)
                mk(cases, "getitem/wrong-index-type/%s/%s" % (bad_name, tag), lambda x=x, bad=bad, d=d: x[tuple([bad if not isinstance(bad, (list, dict)) else "q"] * d)] if bad is not None else x["q"], InvalidArguments)
            # --- out-of-range positions
            mk(cases, "sum/axis-out-of-range/" + tag, lambda x=x, d=d: x.sum([d + 2]), InvalidArguments)
            mk(cases, "sum/axis-equals-order/" + tag, lambda x=x, d=d: x.sum([d]), InvalidArguments)
            mk(cases, "sum/axis-equals-order-int/" + tag, lambda x=x, d=d: x.sum(d), InvalidArguments)
            mk(cases, "sum/axis-equals-order-mixed/" + tag, lambda x=x, d=d: x.sum([0, d]), InvalidArguments)
            mk(cases, "sum/negative-axis/" + tag, lambda x=x, d=d: x.sum([-(d + 1)]), InvalidArguments)
            mk(cases, "set_core/position/" + tag, lambda x=x, d=d: x.clone().set_core(d, x.cores[0]), InvalidArguments)
            mk(cases, "set_core/negative/" + tag, lambda x=x, d=d: x.clone().set_core(-1, x.cores[-1]), InvalidArguments)
            mk(cases, "set_core/rank/" + tag, lambda x=x: x.clone().set_core(0, tn.ones(2, N[0], x.R[1])), InvalidArguments)
            mk(cases, "set_core/dims/" + tag, lambda x=x: x.clone().set_core(0, tn.ones(1, N[0], 1, x.R[1])), InvalidArguments)
            mk(cases, "set_core/ttm-dims/" + tag, lambda A=A: A.clone().set_core(0, tn.ones(1, 2, A.R[1])), InvalidArguments)
            if d > 1:
                mk(cases, "getitem/too-few/" + tag, lambda x=x, d=d: x[tuple([0] * (d - 1))], InvalidArguments)
            mk(cases, "getitem/too-many/" + tag, lambda x=x, d=d: x[tuple([0] * (d + 1))], None)
            mk(cases, "getitem/index-out-of-range/" + tag, lambda x=x, d=d: x[tuple([N[0] + 3] + [0] * (d - 1))], None)
            mk(cases, "getitem/index-equals-size/" + tag, lambda x=x, d=d: x[tuple([0] * (d - 1) + [N[d - 1]])], None)
            mk(cases, "apply_mask/index-equals-size/" + tag, lambda x=x, d=d: x.apply_mask(tn.tensor([[0] * (d - 1) + [N[d - 1]]])), None)
            mk(cases, "mprod/mode-equals-order/" + tag, lambda x=x, d=d: x.mprod(tn.ones(2, 2), d), None)
            mk(cases, "cat/dim-equals-order/" + tag, lambda x=x, d=d: torchtt.cat((x, x), d), InvalidArguments, model=J("guard2", "cat", shape_tok(x), shape_tok(x), d))
            mk(cases, "getitem/two-ellipsis/" + tag, lambda x=x: x[..., 0, ...], NotImplementedError)
            mk(cases, "getitem/ttm-ellipsis/" + tag, lambda A=A: A[..., 0], NotImplementedError)
            if d > 1:
                mk(cases, "getitem/bare-int-on-order>1/" + tag, lambda x=x: x[0], InvalidArguments)
                mk(cases, "getitem/bare-slice-on-order>1/" + tag, lambda x=x: x[0:1], InvalidArguments)
            mk(cases, "getitem/ttm-mixed-pair/" + tag, lambda A=A, d=d: A[tuple([0] * d + [slice(None)] * d)], InvalidArguments)
            mk(cases, "apply_mask/index-out-of-range/" + tag, lambda x=x, d=d: x.apply_mask(tn.tensor([[N[0] + 5] + [0] * (d - 1)])), None)
            mk(cases, "mprod/mode-out-of-range/" + tag, lambda x=x, d=d: x.mprod(tn.ones(2, 2), d + 1), None)
            mk(cases, "mprod/list-vs-int/" + tag, lambda x=x: x.mprod([tn.ones(2, N[0])], 0), InvalidArguments)
            # positions / axes / modes given as 0-d tensors or numpy scalars of a NON-INTEGER dtype (also with integral values): never an index
            for fn_, fv in (("t-float1.5", tn.tensor(1.5)), ("t-float1.0", tn.tensor(1.0, dtype=tn.float64)), ("np-float", np.float64(1.0)), ("t-half", tn.tensor(0.5, dtype=tn.float16))):
                mk(cases, "getitem/index-%s/%s" % (fn_, tag), lambda x=x, fv=fv, d=d: x[tuple([fv] + [0] * (d - 1))] if d > 1 else x[(fv,)], None)
                mk(cases, "getitem/index-%s-with-slices/%s" % (fn_, tag), lambda x=x, fv=fv, d=d: x[tuple([slice(None)] * (d - 1) + [fv])], None)
                mk(cases, "sum/axis-%s/%s" % (fn_, tag), lambda x=x, fv=fv: x.sum(fv), None)
                mk(cases, "sum/axis-list-%s/%s" % (fn_, tag), lambda x=x, fv=fv: x.sum([0, fv]) if len(x.N) > 1 else x.sum([fv]), None)
                mk(cases, "cat/dim-%s/%s" % (fn_, tag), lambda x=x, fv=fv: torchtt.cat((x, x), fv), None)
                mk(cases, "mprod/mode-%s/%s" % (fn_, tag), lambda x=x, fv=fv: x.mprod(tn.ones(2, N[0], dtype=tn.float64), fv), None)
                mk(cases, "getitem/ttm-index-%s/%s" % (fn_, tag), lambda A=A, fv=fv, d=d: A[tuple([fv] + [0] * (2 * d - 1))], None)
            # list form: lists of different lengths (surplus matrix / surplus mode), a listed position outside the train, a repeated mode whose
            # second matrix fits only the ORIGINAL size; controls: equal lengths incl. a repeated mode
            F0 = tn.ones([5, N[0]], dtype=tn.float64); F0b = tn.ones([3, 5], dtype=tn.float64); Fl = tn.ones([2, N[d - 1]], dtype=tn.float64)
            mk(cases, "mprod/list-more-matrices/" + tag, lambda x=x, F0=F0, F0b=F0b: x.mprod([F0, F0b], [0]), InvalidArguments,
               model=J("guard2", "mprodlist", shape_tok(x), 1, 2, 0, 5, N[0], 0, 3, 5))
            mk(cases, "mprod/list-more-modes/" + tag, lambda x=x, F0=F0, d=d: x.mprod([F0], [0, d - 1]), InvalidArguments,
               model=J("guard2", "mprodlist", shape_tok(x), 2, 1, 0, 5, N[0]))
            mk(cases, "mprod/list-empty-matrices/" + tag, lambda x=x: x.mprod([], [0]), InvalidArguments, model=J("guard2", "mprodlist", shape_tok(x), 1, 0))
            mk(cases, "mprod/list-position-equals-order/" + tag, lambda x=x, F0=F0, d=d: x.mprod([F0], [d]), None,
               model=J("guard2", "mprodlist", shape_tok(x), 1, 1, d, 5, N[0]))
            mk(cases, "mprod/list-repeated-mode-stale-size/" + tag, lambda x=x, F0=F0: x.mprod([F0, tn.ones([2, N[0]], dtype=tn.float64)], [0, 0]), ShapeMismatch,
               model=J("guard2", "mprodlist", shape_tok(x), 2, 2, 0, 5, N[0], 0, 2, N[0]))
            mk(cases, "cat/dim-out-of-range/" + tag, lambda x=x, d=d: torchtt.cat((x, x), d + 1), InvalidArguments, model=J("guard2", "cat", shape_tok(x), shape_tok(x), d + 1))
            mk(cases, "pad/too-many/" + tag, lambda x=x, d=d: torchtt.pad(x, tuple((1, 1) for _ in range(d + 1))), InvalidArguments, model=J("guard2", "pad", d, d + 1))
            # --- permutations / shapes / ranks
            mk(cases, "permute/length/" + tag, lambda x=x, d=d: torchtt.permute(x, list(range(d + 1))), ShapeMismatch, model=J("guard2", "permute", d, d + 1, list(range(d + 1))))
            if d > 1:
                mk(cases, "permute/duplicate/" + tag, lambda x=x, d=d: torchtt.permute(x, [0] * d), InvalidArguments, model=J("guard2", "permute", d, d, [0] * d))
                mk(cases, "permute/range/" + tag, lambda x=x, d=d: torchtt.permute(x, list(range(1, d + 1))), InvalidArguments, model=J("guard2", "permute", d, d, list(range(1, d + 1))))
                mk(cases, "permute/negative/" + tag, lambda x=x, d=d: torchtt.permute(x, [-1] + list(range(1, d))), InvalidArguments)
            mk(cases, "reshape/element-count/" + tag, lambda x=x: torchtt.reshape(x, [int(np.prod(N)) + 1]), ShapeMismatch, model=J("guard2", "reshape", len(N), N, 1, int(np.prod(N)) + 1))
            mk(cases, "reshape/ttm-element-count/" + tag, lambda A=A: torchtt.reshape(A, [(int(np.prod(M)) + 1, int(np.prod(N)))]), ShapeMismatch)
            mk(cases, "reshape/same-count-not-factorable/" + tag, lambda: torchtt.reshape(rnd_tt(rng, [6] * 1 + [1] * (d - 1)), [4, 1, 1][:1] + [1] * 0) if False else torchtt.reshape(rnd_tt(rng, [2, 3]), [7]), ShapeMismatch)
            mk(cases, "random/rank-list/" + tag, lambda d=d: torchtt.random(N, [1] + [2] * d + [1]), InvalidArguments)
            mk(cases, "random/boundary-rank/" + tag, lambda d=d: torchtt.random(N, [2] + [2] * (d - 1) + [1]), InvalidArguments)
            mk(cases, "ctor/rank-chain/" + tag, lambda: torchtt.TT([tn.ones(1, 2, 2), tn.ones(3, 2, 1)]), RankMismatch, model=J("ctor", 2, 3, 1, 2, 2, 3, 3, 2, 1))
            mk(cases, "ctor/core-dims/" + tag, lambda: torchtt.TT([tn.ones(1, 2), tn.ones(2, 1)]), InvalidArguments, model=J("ctor", 2, 2, 1, 2, 2, 2, 1))
            mk(cases, "ctor/mixed-3d-4d/" + tag, lambda: torchtt.TT([tn.ones(1, 2, 2), tn.ones(2, 2, 2, 1)]), InvalidArguments, model=J("ctor", 2, 3, 1, 2, 2, 4, 2, 2, 2, 1))
            mk(cases, "ctor/boundary-rank/" + tag, lambda: torchtt.TT([tn.ones(2, 2, 2), tn.ones(2, 2, 1)]), InvalidArguments, model=J("ctor", 2, 3, 2, 2, 2, 3, 2, 2, 1))
            mk(cases, "ctor/dense-wrong-shape-count/" + tag, lambda: torchtt.TT(tn.ones(2, 3), [4, 2]), None)
            mk(cases, "ctor/ttm-shape-mismatch/" + tag, lambda: torchtt.TT(tn.ones(2, 3, 2, 3), [(2, 2), (2, 2)]), None)
            mk(cases, "to_qtt/not-a-power/" + tag, lambda: rnd_tt(rng, [6, 3][:max(1, min(d, 2))]).to_qtt(), ShapeMismatch, finding="C18/to_qtt-non-power-tensor")
            mk(cases, "qtt_to_tens/mismatch/" + tag, lambda: rnd_tt(rng, [2, 2, 2]).qtt_to_tens([3, 2]), ShapeMismatch)
            # target shapes that fold only a PROPER PREFIX of the modes (operands with rank 1 at the cut: the truncated core list would be
            # accepted by the constructor), shapes that are too long, a TT-matrix operand; control: the full folding
            q1 = torchtt.ones([2, 2, 2, 2])
            q2 = torchtt.kron(rnd_tt(rng, [2, 2]), rnd_tt(rng, [2, 2]))          # rank 1 in the middle
            for qn, q in (("ones", q1), ("kron", q2)):
                for shp in ([4], [2], [4, 2], [2, 2], [2, 2, 2], [8]):
                    mk(cases, "qtt_to_tens/prefix-%s/%s/%s" % (qn, "x".join(map(str, shp)), tag), lambda q=q, shp=shp: q.qtt_to_tens(list(shp)), None,
                       model=J("guard2", "qtt_to_tens", shape_tok(q), len(shp), shp))
                mk(cases, "qtt_to_tens/too-long-%s/%s" % (qn, tag), lambda q=q: q.qtt_to_tens([4, 4, 2]), ShapeMismatch, model=J("guard2", "qtt_to_tens", shape_tok(q), 3, [4, 4, 2]))
            mk(cases, "qtt_to_tens/ttm/" + tag, lambda: torchtt.eye([2, 2]).qtt_to_tens([4]), None, model=J("guard2", "qtt_to_tens", shape_tok(torchtt.eye([2, 2])), 1, [4]))
            mk(cases, "layer/initializer/" + tag, lambda: torchtt.nn.LinearLayerTT([2], [2], [1, 1], initializer="xx"), InvalidArguments)
            mk(cases, "amen_solve/preconditioner/" + tag, lambda: torchtt.solvers.amen_solve(spd_ttm(rng, [2, 2]), rnd_tt(rng, [2, 2]), preconditioner="zz", use_cpp=False, verbose=False), InvalidArguments)
            mk(cases, "rtruediv/wrong-type/" + tag, lambda x=x: "a" / x, InvalidArguments)
            mk(cases, "elementwise_divide/shape/" + tag, lambda x=x, N=N: torchtt.elementwise_divide(x, rnd_tt(rng, [n + 1 for n in N]) ), None)


def controls(rng, tier):
    """well-formed calls must NOT be rejected (guards the check against over-eager guards)"""
    cases = []
    for d in (1, 2, 3):
        N = [rng.randint(2, 3) for _ in range(d)]
        M = [rng.randint(2, 3) for _ in range(d)]
        x, y, A, B = rnd_tt(rng, N), rnd_tt(rng, N), rnd_tt(rng, N, M), rnd_tt(rng, N, M)
        for nm, f, mdl in (("add", lambda x=x, y=y: x + y, J("guard", "add", shape_tok(x), shape_tok(y))),
                           ("mul", lambda x=x, y=y: x * y, J("guard", "mul", shape_tok(x), shape_tok(y))),
                           ("add-ttm", lambda A=A, B=B: A + B, J("guard", "add", shape_tok(A), shape_tok(B))),
                           ("sub-ttm", lambda A=A, B=B: A - B, J("guard", "sub", shape_tok(A), shape_tok(B))),
                           ("mul-ttm", lambda A=A, B=B: A * B, J("guard", "mul", shape_tok(A), shape_tok(B))),
                           ("matmul", lambda A=A, x=x: A @ x, J("guard", "matmul", shape_tok(A), shape_tok(x))),
                           ("bcast", lambda x=x: x + rnd_tt(rng, x.N[-1:]), None),
                           ("dot", lambda x=x, y=y: torchtt.dot(x, y), J("guard2", "dot", shape_tok(x), shape_tok(y))),
                           ("bilinear", lambda x=x, A=A: torchtt.bilinear_form(rnd_tt(rng, A.M), A, x), J("guard2", "bilinear", ["T", len(A.M)] + list(A.M) + [0], shape_tok(A), shape_tok(x))),
                           ("cat", lambda x=x, y=y: torchtt.cat((x, y), 0), J("guard2", "cat", shape_tok(x), shape_tok(y), 0)),
                           ("kron", lambda x=x, y=y: x ** y, J("guard2", "kron", shape_tok(x), shape_tok(y))),
                           ("permute", lambda x=x, d=d: torchtt.permute(x, list(range(d))[::-1]) if d > 1 else x.clone(), J("guard2", "permute", d, d, list(range(d))[::-1]) if d > 1 else None),
                           ("sum", lambda x=x: x.sum([0]), None)):
            def impl(f=f):
                r = f()
                return "ok"
            cases.append(Case(mdl, impl, (lambda: None), "control/%s/d%d" % (nm, d), False, desc="control " + nm, gauge_ok=False))
    return cases


def run(res, rng, tier, known):
    from common import run_cases
    cases = build(rng, tier) + controls(rng, tier)
    # the model answers with an outcome class: `ok` or `err <Kind>`; map the implementation's outcome onto the same alphabet
    for c in cases:
        if c.line is not None and (c.line.startswith("guard ") or c.line.startswith("guard2 ")):
            impl0 = c.impl

            def wrapped(impl0=impl0):
                o = impl0()
                return "ok" if (o == "ok" or o.startswith("returned")) else o
            c.impl = wrapped
        elif c.line is not None and c.line.startswith("ctor"):
            impl0 = c.impl

            def wrapped2(impl0=impl0):
                return impl0()
            c.impl = wrapped2
    run_cases(res, cases, known)
    return {"level": LEVEL, "rule": RULE, "assumptions": ASSUMPTIONS,
            "not_by_theorem": ["entry points whose guards are not modelled in Guard.lean (solvers, interpolate, reshape/permute argument checks, indexing) are covered by the oracle only"]}
