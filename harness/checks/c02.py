"""C02 — rounding never exceeds eps, never raises a rank, and leaves its operand intact.

The rank decisions taken inside round() are recorded and replayed through M-trunc (exact rationals); the oracle checks the
error bound, the three rank bounds (old rank, rmax, exact unfolding rank), shape, and that the operand is bit-identical afterwards."""
import math
import numpy as np
import torch as tn
import torchtt
from common import Case
from gen import DTYPES, dense_of, rand_modes, rand_ranks, rand_tt, clone_tt
from checks.c01 import Recorder, replay_decisions, unfolding_ranks

LEVEL = "proof"
RULE = ("x.round(eps, rmax) on: exactly low-rank tensors stored with inflated ranks (x + 0*y, x + y - y), rank-deficient integer cores, "
        "cores with wildly different scales (powers of two up to 2^40), zero tensors, generic random cores; orders 1..7, tensors and operators, "
        "eps from 0 to 0.5, rmax int / list / binding, float64/float32/complex128. Non-trivial: a rank is actually reduced or a tie occurs.")
ASSUMPTIONS = ["QR and SVD primitives satisfy their contract (orthonormal factors; monitored for SVD on every call)",
               "the error bound is rankChop_tail + allowance_sum given orthonormal frames (the frames come from the QR sweep; not formalised in Lean)",
               "floating-point roundoff: slack 1e-7 relative + 200 machine-eps"]


def make(rng, tier):
    out = []
    orders = [1, 2, 3, 4, 5] if tier == "quick" else [1, 2, 3, 4, 5, 6, 7]
    reps = 10 if tier == "quick" else 24
    for d in orders:
        for rep in range(reps):
            dtname = ["f64", "c128", "f32"][(d + rep) % 3]
            dt = DTYPES[dtname]
            hi = 4 if d <= 4 else (3 if d <= 5 else 2)
            ttm = (rep % 5 == 4) and d <= 3
            N = rand_modes(rng, d, 1 if rep % 2 else 2, hi, distinct=False)
            M = rand_modes(rng, d, 1, 3, distinct=False) if ttm else None
            kind = ["inflated", "deficient", "scaled", "zero", "generic", "cancel"][rep % 6]
            x = rand_tt(rng, N, rand_ranks(rng, d, 2), dt, M=M)
            if kind == "inflated":
                y = rand_tt(rng, N, rand_ranks(rng, d, 3), dt, M=M)
                if (rep // 6 + d) % 2 == 0:
                    x = x + 0 * y if d > 0 else x
                    x = x + y * 0.0
                else:
                    # the unused (zero) rank slots come FIRST in every bond: exactly zero leading columns in the unfoldings
                    x = (y * 0.0) + x
                    x = (0 * y) + x
            elif kind == "cancel":
                y = rand_tt(rng, N, rand_ranks(rng, d, 2), dt, M=M)
                x = (x + y) - y
            elif kind == "deficient":
                x = x + x          # duplicated blocks: rank-deficient cores
            elif kind == "scaled":
                cs = [c.clone() for c in x.cores]
                for k in range(len(cs)):
                    e = rng.choice([-20, -8, 0, 8, 20]) if dtname != "f32" else rng.choice([-6, 0, 6])
                    cs[k] = cs[k] * (2.0 ** e)
                x = torchtt.TT(cs)
                y = rand_tt(rng, N, rand_ranks(rng, d, 2), dt, M=M)
                x = x + 1e-4 * y * (2.0 ** 0)
            elif kind == "zero":
                if (rep // 6 + d) % 3 == 0:
                    x = x * 0
                    x = x + x
                elif (rep // 6 + d) % 3 == 1 and d >= 2:
                    # exactly zero tensor stored with INFLATED ranks: one all-zero core inside a train of rank > 1
                    cs = [c.clone() for c in (x + x).cores]
                    k0 = rng.randrange(len(cs))
                    cs[k0] = cs[k0] * 0
                    x = torchtt.TT(cs)
                else:
                    x = (x + x) * (torchtt.TT([c * 0 for c in x.cores]))      # Hadamard product with a zero train: ranks multiply, value exactly zero
            else:
                g = tn.Generator().manual_seed(rng.randrange(1 << 30))
                cs = [tn.randn(c.shape, generator=g, dtype=tn.float64).to(dt) for c in (x + x).cores]
                x = torchtt.TT(cs)
            eps = rng.choice([0.0, 1e-12, 1e-8, 1e-4, 1e-2, 0.1, 0.5]) if dtname != "f32" else rng.choice([0.0, 1e-5, 1e-3, 1e-2, 0.1, 0.5])
            rmode = rng.choice(["none", "none", "int-big", "int-binding", "list"])
            rmax = None if rmode == "none" else 64 if rmode == "int-big" else rng.choice([1, 2]) if rmode == "int-binding" else [1] + [rng.randint(1, 5) for _ in range(d - 1)] + [1]
            out.append(("%s/d%d/%s/%s/rmax-%s" % (kind, d, "ttm" if ttm else "tt", dtname, rmode), x, eps, rmax))
    # heavily inflated family: an exactly low-rank tensor stored with ranks 10-40 times larger than a mode can carry (very tall unfoldings),
    # tight eps: the true ranks must come back
    for fi in range(3 if tier == "quick" else 12):
        d = [3, 2, 4][fi % 3]
        dtname = ["f64", "c128", "f64"][fi % 3]
        dt = DTYPES[dtname]
        N = [rng.randint(5, 7) for _ in range(d - 1)] + [4]          # large leading modes keep the inflated rank through the QR sweep; the last mode (4) exceeds the true rank (2): the tall last unfolding is rank deficient
        base = rand_tt(rng, N, [1] + [2] * (d - 1) + [1], dt)
        g = tn.Generator().manual_seed(rng.randrange(1 << 30))
        base = torchtt.TT([tn.randn(c.shape, generator=g, dtype=tn.float64).to(dt) for c in base.cores])
        x = base
        for _ in range(19):
            x = x + base * (1.0 + rng.random())
        eps = [1e-10, 1e-9, 1e-12][fi % 3]
        out.append(("inflated20/d%d/tt/%s/rmax-none" % (d, dtname), x, eps, None))
    # scale family: the statement is invariant under x -> c*x; tensors whose overall norm is far below / above 1 (down to below machine
    # epsilon, up to 2^80) with genuine rank > 1 must keep their ranks and relative accuracy
    for d in ([2, 3, 4] if tier == "quick" else [2, 3, 4, 5]):
        for dtname in ["f64", "c128", "f32"]:
            for sgn in (-1, 1):
                dt = DTYPES[dtname]
                ttm = (d == 3 and sgn == 1)
                N = rand_modes(rng, d, 2, 4, distinct=False)
                M = rand_modes(rng, d, 1, 3, distinct=False) if ttm else None
                g = tn.Generator().manual_seed(rng.randrange(1 << 30))
                base = rand_tt(rng, N, [1] + [2] * (d - 1) + [1], dt, M=M)
                cs = [tn.randn(c.shape, generator=g, dtype=tn.float64).to(dt) for c in (base + base).cores]
                e = (80 if dtname != "f32" else 40) * sgn
                per = e // d
                cs = [c * (2.0 ** per) for c in cs]
                cs[0] = cs[0] * (2.0 ** (e - per * d))
                x = torchtt.TT(cs)
                eps = rng.choice([1e-12, 1e-8, 1e-4]) if dtname != "f32" else rng.choice([1e-5, 1e-3])
                out.append(("%s/d%d/%s/%s/rmax-none" % ("tiny" if sgn < 0 else "huge", d, "ttm" if ttm else "tt", dtname), x, eps, None))
    return out


def round_case(rec, label, x, eps, rmax):
    d = len(x.N)
    box = {}
    before = [c.clone() for c in x.cores]
    Rb, Nb = list(x.R), list(x.N)
    Mb = list(x.M) if x.is_ttm else None

    def impl():
        rm_arg = rmax
        if isinstance(rmax, list):
            # a per-bond list is an argument object the caller keeps: the SAME list is first used for a rank-one tensor of the same shape
            # (the loop `x = (x - a*g).round(0, Rx)` of the library's own examples), then for the operand; it must come back unchanged
            rm_arg = list(rmax)
            small = torchtt.TT([c[:1, ..., :1].clone() for c in x.cores])
            small.round(eps, rm_arg)
            box["rm_after_first"] = list(rm_arg)
        c0 = len(rec.calls)
        rec.active = True
        try:
            y = x.round(eps) if rmax is None else x.round(eps, rm_arg)
        finally:
            rec.active = False
        if isinstance(rmax, list):
            box["rm_after"] = list(rm_arg)
        box["y"] = y
        box["calls"] = rec.calls[c0:]
        return "ok"

    def oracle():
        if "y" not in box:
            return "round raised"
        y = box["y"]
        if y is x:
            return "round returned its operand instead of a new object"
        if isinstance(rmax, list) and (box.get("rm_after") != list(rmax) or box.get("rm_after_first") != list(rmax)):
            return "round modified the caller's rmax list: %s -> %s" % (list(rmax), box.get("rm_after"))
        # operand intact
        if list(x.R) != Rb or list(x.N) != Nb or len(x.cores) != len(before):
            return "operand metadata changed by round: R %s -> %s" % (Rb, list(x.R))
        for k, (a, b) in enumerate(zip(before, x.cores)):
            if a.shape != b.shape or a.dtype != b.dtype or not tn.equal(a, b):
                return "operand core %d changed by round" % k
        if bool(y.is_ttm) != bool(x.is_ttm) or list(y.N) != Nb or (Mb is not None and list(y.M) != Mb):
            return "shape changed: %s" % (list(y.N),)
        R = [int(r) for r in y.R]
        if len(R) != d + 1 or R[0] != 1 or R[-1] != 1:
            return "boundary ranks %s" % R
        for k, c in enumerate(y.cores):
            want = [R[k], Nb[k], R[k + 1]] if Mb is None else [R[k], Mb[k], Nb[k], R[k + 1]]
            if list(c.shape) != want:
                return "core %d shape %s vs %s" % (k, list(c.shape), want)
        rm = None
        if rmax is not None:
            rm = rmax if isinstance(rmax, list) else [1] + [rmax] * (d - 1) + [1]
        for k in range(1, d):
            if R[k] > Rb[k]:
                return "rank raised at bond %d: %d -> %d" % (k, Rb[k], R[k])
            if rm is not None and R[k] > rm[k]:
                return "rank %d at bond %d exceeds rmax %d" % (R[k], k, rm[k])
        dx = dense_of(x)
        dx = dx.to(tn.complex128 if dx.is_complex() else tn.float64)
        sizes = Nb if Mb is None else [m * n for m, n in zip(Mb, Nb)]
        if Mb is not None:
            perm = [v for p in zip(range(d), range(d, 2 * d)) for v in p]
            du = dx.permute(perm).reshape(sizes)
        else:
            du = dx.reshape(sizes)
        nrm = float(tn.linalg.norm(du.reshape(-1)))
        if d >= 2 and eps >= 1e-10 and nrm > 0:
            ur = unfolding_ranks(du, d, sizes)
            for k in range(1, d):
                if R[k] > max(ur[k - 1], 1):
                    return "rank %d at bond %d exceeds the exact unfolding rank %d (eps=%g)" % (R[k], k, ur[k - 1], eps)
        if d >= 2 and eps >= 1e-10 and nrm == 0 and any(not bool(c.any()) for c in x.cores):
            # a STRUCTURALLY zero tensor (some core is exactly zero; a tensor that vanishes only through cancellation between blocks has
            # roundoff-sized singular values, for which no eps is "above roundoff level"): every unfolding has rank 0, the smallest
            # representable rank is 1
            for k in range(1, d):
                if R[k] > 1:
                    return "rank %d at bond %d of an exactly zero tensor (stored ranks %s) is not compressed to 1 (eps=%g)" % (R[k], k, Rb, eps)
        binding = False
        if rm is not None:
            # calls are recorded right-to-left: bond d-1 first
            for (s, e, r), k in zip(box["calls"], range(d - 1, 0, -1)):
                if r > rm[k]:
                    binding = True
        tot = 0.0
        for (s, e, r) in box["calls"]:
            ns = float(np.linalg.norm(s))
            if ns > 0:
                tot += (e / ns) ** 2
        if tot > eps * eps * (1 + 1e-5) + 1e-300:
            return "per-bond allowances sum to %.6g > eps^2 = %.6g" % (tot, eps * eps)
        if not binding:
            dy = dense_of(y).to(dx.dtype)
            err = float(tn.linalg.norm((dy - dx).reshape(-1)))
            meps = 1.2e-7 if x.cores[0].dtype in (tn.float32,) else 2.3e-16
            # roundoff scale: the cores' own magnitudes (operands built by cancellation, e.g. (x+y)-y, carry roundoff of that size)
            scale = 1.0
            for c in x.cores:
                scale *= max(float(tn.linalg.norm(c.reshape(-1))), 1e-300)
            if not (err <= eps * nrm * (1 + 1e-7) + 200 * meps * max(nrm, scale) * math.sqrt(max(d, 1)) + 1e-300):      # NaN-safe
                return "error %.6g exceeds eps*||x|| = %.6g (eps=%g, ranks %s -> %s)" % (err, eps * nrm, eps, Rb, R)
        box["reduced"] = R != Rb
        return None
    return Case(None, impl, oracle, "round/" + label, True, desc="round(%s) N=%s M=%s R=%s eps=%g rmax=%s" % (label, Nb, Mb, Rb, eps, rmax))


def run(res, rng, tier, known):
    from common import run_cases
    rec = Recorder()
    rec.install()
    cases = []
    try:
        for (label, x, eps, rmax) in make(rng, tier):
            cases.append(round_case(rec, label, x, eps, rmax))
        run_cases(res, cases, known)
    finally:
        rec.uninstall()
    replay_decisions(res, rec.calls, res.prop, "round_tt")
    from checks.sweeps import sweep_cases
    run_cases(res, sweep_cases(rng, tier, "lr_orthogonal") + sweep_cases(rng, tier, "round_tt")
              + sweep_cases(rng, tier, "lr_orthogonal_ttm") + sweep_cases(rng, tier, "round_ttm"), known)
    res.extra["svd_contract_calls_bad"] = len(rec.svd_bad)
    if rec.svd_bad:
        res.notes.append("SVD contract breaches (assumption): %s" % rec.svd_bad[:3])
    return {"level": LEVEL, "rule": RULE, "assumptions": ASSUMPTIONS,
            "not_by_theorem": ["the Frobenius error bound as a whole (rank selection and allowance split are theorems; orthonormality of the QR frames is assumed)",
                               "rank <= exact unfolding rank relies on the numerical rank revealed by the SVD"]}
