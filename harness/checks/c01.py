"""C01 — TT-SVD meets the requested accuracy and rank bounds for every dense input.

Three layers:
 (i)  `rank_chop` called directly on integer spectra (all tie patterns) and compared exactly with the Lean model M-trunc;
 (ii) `TT(dense, shape, eps, rmax)`: every rank decision taken inside the sweep is recorded (wrapper installed from outside)
      and replayed through M-trunc in exact rational arithmetic; decisions whose exact margin is below 1e-10 (relative) are
      counted as indeterminate;
 (iii) the property's own oracle on every constructed object: shape, boundary ranks, rank <= rmax, rank <= exact unfolding
      rank, ||full - A|| <= eps ||A|| when rmax is not binding."""
import math
from fractions import Fraction
import numpy as np
import torch as tn
import torchtt
import torchtt._decomposition as D
import torchtt._extras as E
import torchtt._tt_base as B
from common import Case, num_str, frac_of_float, run_driver
from gen import DTYPES, dense_of, int_tensor, rand_modes, rand_ranks, rand_tt
from util import J

LEVEL = "proof"
RULE = ("(i) rank_chop on integer spectra: every tie position, zeros, length 1, eps<=0, eps beyond the total energy; "
        "(ii)+(iii) TT(dense, shape, eps, rmax) on: exact low-rank tensors, decaying-spectrum tensors, diagonal/identity tensors engineered "
        "so that the discarded energy equals the threshold exactly, zero tensors; orders 1..6, singleton modes, tensor and operator shapes, "
        "torch and numpy sources, float64/float32/complex128, rmax int / per-bond list / binding. Non-trivial: truncation active or a tie.")
ASSUMPTIONS = ["the SVD primitive returns orthonormal factors and sorted non-negative singular values (tn.linalg.svd; contract monitored on every call of this run)",
               "floating-point roundoff (the error bound is checked with slack 1e-7 relative + 100 machine-eps)",
               "the error bound itself is a consequence of rankChop_tail + allowance_sum given the SVD contract (orthogonality of successive truncations is not formalised in Lean: see DESIGN)"]


class Recorder:
    def __init__(self):
        self.calls = []
        self.svd_bad = []
        self.active = False

    def install(self):
        self.orig_rc, self.orig_svd = D.rank_chop, D.SVD
        rec = self

        def rc(s, eps):
            r = rec.orig_rc(s, eps)
            if rec.active:
                rec.calls.append((np.array(s, copy=True), float(eps), int(r)))
            return r

        def svd(mat):
            u, s, v = rec.orig_svd(mat)
            if rec.active:
                m = mat.detach()
                tol = 1e3 * (1e-7 if m.dtype in (tn.float32, tn.complex64) else 2e-16) * max(m.shape)
                k = s.shape[0]
                I = tn.eye(k, dtype=u.dtype)
                e1 = float(tn.linalg.norm(u.conj().T @ u - I))
                e2 = float(tn.linalg.norm(v @ v.conj().T - I))
                nm = float(tn.linalg.norm(m))
                e3 = float(tn.linalg.norm(u @ tn.diag(s.to(u.dtype)) @ v - m))
                sr = s.real if s.is_complex() else s
                srt = bool((sr[:-1] >= sr[1:] - tol * max(nm, 1)).all()) if k > 1 else True
                if not (e1 <= tol * k and e2 <= tol * k and e3 <= tol * max(nm, 1) * k) or not srt or not (float(sr.min()) >= -tol):
                    rec.svd_bad.append((tuple(m.shape), e1, e2, e3, srt))
            return u, s, v
        D.rank_chop, D.SVD = rc, svd
        for mod in (E, B):
            if hasattr(mod, "rank_chop"):
                mod.rank_chop = rc
            if hasattr(mod, "SVD"):
                mod.SVD = svd

    def uninstall(self):
        D.rank_chop, D.SVD = self.orig_rc, self.orig_svd
        for mod in (E, B):
            if hasattr(mod, "rank_chop"):
                mod.rank_chop = self.orig_rc
            if hasattr(mod, "SVD"):
                mod.SVD = self.orig_svd


def replay_decisions(res, calls, prop, what):
    """replay recorded (s, eps) -> R decisions through the Lean model, exactly"""
    if not calls:
        return
    lines, metas = [], []
    for (s, eps, r) in calls:
        sv = [frac_of_float(abs(complex(v))) if np.iscomplexobj(s) else frac_of_float(float(v)) for v in s.reshape(-1)]
        e = frac_of_float(eps)
        lines.append(J("rankchop", len(sv), [num_str(v) for v in sv], num_str(e)))
        metas.append((sv, e, r))
    outs = run_driver(lines)
    agree = indet = 0
    for (sv, e, r), o, ln in zip(metas, outs, lines):
        rm = int(o.split()[1])
        if rm == r:
            agree += 1
            continue
        t0 = sum(v * v for v in sv)
        e2 = e * e
        lo, hi = min(r, rm), max(r, rm)
        marg = min(abs(sum(v * v for v in sv[k:]) - e2) for k in range(max(lo - 1, 0), min(hi + 1, len(sv) + 1)))
        scale = max(t0, e2, Fraction(1, 10 ** 300))
        if marg <= scale * Fraction(1, 10 ** 10) and t0 > 0:      # an all-zero spectrum is exact data: nothing is roundoff there
            indet += 1
            continue
        res.violation({"property": prop, "kind": "correspondence", "class": "rank-decision/" + what, "case": ln[:2000],
                       "impl_outcome": "rank %d" % r, "model_outcome": "rank %d" % rm,
                       "note": "a rank decision taken by the implementation differs from M-trunc by more than roundoff"}, no_input=True)
    res.extra["rank_decisions_replayed"] = res.extra.get("rank_decisions_replayed", 0) + len(calls)
    res.extra["rank_decisions_agree"] = res.extra.get("rank_decisions_agree", 0) + agree
    res.extra["rank_decisions_indeterminate"] = res.extra.get("rank_decisions_indeterminate", 0) + indet
    res.model_cases += len(calls)
    res.core_equal += agree


def direct_rank_chop_cases(rng, tier):
    cases = []
    n_cases = 120 if tier == "quick" else 800
    for c in range(n_cases):
        k = rng.choice([1, 2, 3, 4, 5, 6])
        s = sorted([rng.randint(0, 5) for _ in range(k)], reverse=True)
        if c % 11 == 0:
            s = [0] * k
        if c % 13 == 0:
            s = [rng.randint(1, 3)] * k          # all-equal spectrum
        tails = [sum(v * v for v in s[j:]) for j in range(k + 1)]
        mode = rng.choice(["tie", "tie", "between", "zero", "neg", "huge", "quarter"])
        if mode == "tie":
            sq = [t for t in tails if t > 0 and int(math.isqrt(t)) ** 2 == t]
            eps = float(math.isqrt(rng.choice(sq))) if sq else 0.5
        elif mode == "between":
            eps = rng.choice([0.5, 1.5, 2.5, 3.25, 0.75])
        elif mode == "zero":
            eps = 0.0
        elif mode == "neg":
            eps = -1.0
        elif mode == "huge":
            eps = 100.0
        else:
            eps = rng.randint(1, 24) / 4.0
        arr = np.array(s, dtype=np.float64)
        line = J("rankchop", k, s, num_str(eps))
        tie = any(t == Fraction(eps) ** 2 for t in tails[:k]) and eps > 0

        def impl(arr=arr, eps=eps):
            return "sc %d" % int(D.rank_chop(arr.copy(), eps))

        def oracle(arr=arr, eps=eps, s=s, tails=tails, k=k):
            r = int(D.rank_chop(arr.copy(), eps))
            if not (1 <= r <= k):
                return "rank %d outside [1, %d]" % (r, k)
            if tails[r] > eps * eps:
                return "discarded energy %s exceeds eps^2 = %s (rank %d of %s)" % (tails[r], eps * eps, r, s)
            return None
        cases.append(Case(line, impl, oracle, "rank_chop/%s%s/len%d" % (mode, "/exact-tie" if tie else "", k), True))
    return cases


def unfolding_ranks(A, d, shape_sizes):
    out = []
    a = A.detach().to(tn.complex128 if A.is_complex() else tn.float64).numpy().reshape(shape_sizes)
    for k in range(1, d):
        m = a.reshape(int(np.prod(shape_sizes[:k])), -1)
        out.append(int(np.linalg.matrix_rank(m)))
    return out


def make_inputs(rng, tier):
    """(label, dense tensor, shape argument, N list, M list or None, eps, rmax, source kind)"""
    out = []
    orders = [1, 2, 3, 4, 5] if tier == "quick" else [1, 2, 3, 4, 5, 6]
    reps = 6 if tier == "quick" else 16
    for d in orders:
        for rep in range(reps):
            dtname = ["f64", "c128", "f32"][(d + rep) % 3]
            dt = DTYPES[dtname]
            hi = 4 if d <= 4 else 3
            N = rand_modes(rng, d, 1 if rep % 2 else 2, hi, distinct=False)
            kind = ["lowrank", "decay", "lowrank-noise", "zero"][rep % 4] if rep < 8 else "decay"
            if kind == "lowrank":
                x = rand_tt(rng, N, rand_ranks(rng, d, 2), dt)
                A = dense_of(x)
            elif kind == "zero":
                A = tn.zeros(N, dtype=dt)
            else:
                x = rand_tt(rng, N, rand_ranks(rng, d, 2), dt)
                A = dense_of(x).to(dt)
                g = tn.Generator().manual_seed(rng.randrange(1 << 30))
                noise = tn.randn(N, generator=g, dtype=tn.float64).to(dt)
                A = A + (1e-3 if kind == "lowrank-noise" else 0.3) * noise
            eps = rng.choice([1e-10, 1e-6, 1e-3, 1e-2, 0.1, 0.5]) if dtname != "f32" else rng.choice([1e-4, 1e-3, 1e-2, 0.1, 0.5])
            rmode = rng.choice(["none", "none", "int-big", "int-binding", "list"])
            if rmode == "none":
                rmax = None
            elif rmode == "int-big":
                rmax = 50
            elif rmode == "int-binding":
                rmax = rng.choice([1, 2])
            else:
                rmax = [1] + [rng.randint(1, 4) for _ in range(d - 1)] + [1]
            src = rng.choice(["torch", "numpy"]) if dtname != "c128" else "torch"
            shp = rng.choice(["deduce", "list"])
            out.append(("%s/d%d/%s/%s/rmax-%s/%s" % (kind, d, dtname, src, rmode, shp), A, shp, N, None, eps, rmax))
        # operator shapes
        if d <= 3:
            for rep in range(6 if tier == "quick" else 16):
                dtname = ["f64", "c128"][rep % 2]
                dt = DTYPES[dtname]
                M = rand_modes(rng, d, 1, 3, distinct=False)
                N = rand_modes(rng, d, 1, 3, distinct=False)
                Aop = rand_tt(rng, N, rand_ranks(rng, d, 2), dt, M=M)
                A = dense_of(Aop)
                if rep % 2:
                    g = tn.Generator().manual_seed(rng.randrange(1 << 30))
                    A = A + 0.05 * tn.randn(A.shape, generator=g, dtype=tn.float64).to(dt)
                eps = rng.choice([1e-10, 1e-3, 0.1])
                src = rng.choice(["torch", "numpy"])
                rmode = rng.choice(["none", "int-binding", "list", "int-big"])
                rmax = None if rmode == "none" else 60 if rmode == "int-big" else rng.choice([1, 2]) if rmode == "int-binding" else [1] + [rng.randint(1, 3) for _ in range(d - 1)] + [1]
                out.append(("operator/d%d/%s/%s/rmax-%s" % (d, dtname, src, rmode), A, "tuples", N, M, eps, rmax))
    # systematic: every (source kind) x (binding rmax form) for operators and for tensors with a prescribed shape — each
    # constructor branch of TT.__init__ must honour rmax
    for d in (2, 3):
        for src in ("torch", "numpy"):
            for rform in ("int", "list"):
                M = [2] * d; N = [3] * d
                g = tn.Generator().manual_seed(rng.randrange(1 << 30))
                A = tn.randn(M + N, generator=g, dtype=tn.float64)
                rmax = 1 if rform == "int" else [1] + [1 + (k % 2) for k in range(d - 1)] + [1]
                out.append(("operator-rmax/d%d/f64/%s/rmax-%s-binding" % (d, src, rform), A, "tuples", N, M, 1e-10, rmax))
                B = tn.randn([3] * (d + 1), generator=g, dtype=tn.float64)
                rmax2 = 2 if rform == "int" else [1] + [1 + (k % 2) for k in range(d)] + [1]
                out.append(("tensor-rmax/d%d/f64/%s/rmax-%s-binding/list" % (d + 1, src, rform), B, "list", [3] * (d + 1), None, 1e-10, rmax2))
                out.append(("tensor-rmax/d%d/f64/%s/rmax-%s-binding/deduce" % (d + 1, src, rform), B, "deduce", [3] * (d + 1), None, 1e-10, rmax2))
    # scale family (the statement is invariant under A -> c*A): arrays of genuine rank > 1 whose norm is far below machine epsilon or huge
    for d in (2, 3, 4):
        for dtname, ex in (("f64", 80), ("c128", 80), ("f32", 40)):
            for sgn in (-1, 1):
                dt = DTYPES[dtname]
                g = tn.Generator().manual_seed(rng.randrange(1 << 30))
                N = [rng.randint(2, 4) for _ in range(d)]
                A = tn.randn(N, generator=g, dtype=tn.float64).to(dt) * (2.0 ** (sgn * ex))
                eps = 1e-8 if dtname != "f32" else 1e-4
                out.append(("%s/d%d/%s/torch/rmax-none/deduce" % ("tiny" if sgn < 0 else "huge", d, dtname), A, "deduce", N, None, eps, None))
    # singleton modes x per-bond rmax list whose cap DROPS right after the singleton (the cap of every bond must be honoured, also where
    # the unfolding is square and 'nothing is to be compressed'), tensors and operators, torch and numpy sources
    for d in (3, 4):
        for pos in range(1, d):
            for src in ("torch", "numpy"):
                g = tn.Generator().manual_seed(rng.randrange(1 << 30))
                N = [4] * d
                N[pos] = 1
                A = tn.randn(N, generator=g, dtype=tn.float64)
                rmax = [1] + [4] * (d - 1) + [1]
                for k in range(pos + 1, d):
                    rmax[k] = 2
                out.append(("singleton-rmax/d%d/pos%d/f64/%s/rmax-list-drop" % (d, pos, src), A, "deduce", N, None, 1e-12, rmax))
            Mm = [3] * d; Nn = [2] * d
            Mm[pos] = 1; Nn[pos] = 1
            g = tn.Generator().manual_seed(rng.randrange(1 << 30))
            B = tn.randn(Mm + Nn, generator=g, dtype=tn.float64)
            rmaxB = [1] + [6] * (d - 1) + [1]
            for k in range(pos + 1, d):
                rmaxB[k] = 3
            out.append(("singleton-rmax-operator/d%d/pos%d/f64/torch/rmax-list-drop" % (d, pos), B, "tuples", Nn, Mm, 1e-12, rmaxB))
    # engineered exact ties
    for n, eps in ((4, 0.5), (9, 1.0 / 3.0 * 0 + 0.5), (16, 0.5), (16, 0.25)):
        out.append(("tie/eye%d" % n, tn.eye(n, dtype=tn.float64), "deduce", [n, n], None, eps, None))
    for w, eps in (([4.0, 3.0], 0.6), ([12.0, 5.0], 5.0 / 13.0), ([2.0, 2.0, 1.0], 1.0 / 3.0), ([1.0, 1.0, 1.0, 1.0], 0.5)):
        k = len(w)
        A = tn.diag(tn.tensor(w, dtype=tn.float64))
        out.append(("tie/diag%s" % k, A, "deduce", [k, k], None, eps, None))
    # order 5: d-1 = 4 so eps/sqrt(d-1) = eps/2 exactly; superdiagonal tensor => every unfolding has the spectrum w
    for w, eps in (([1.0, 1.0, 1.0, 1.0], 1.0), ([4.0, 3.0], 1.2), ([2.0, 2.0, 1.0], 2.0 / 3.0)):
        k = len(w)
        A = tn.zeros([k] * 5, dtype=tn.float64)
        for i, v in enumerate(w):
            A[i, i, i, i, i] = v
        out.append(("tie/superdiag5/%d" % k, A, "deduce", [k] * 5, None, eps, None))
    return out


def tt_case(rec, res, label, A, shp, N, M, eps, rmax):
    d = len(N)
    src_numpy = "/numpy/" in label
    box = {}

    def impl():
        rec.calls_before = len(rec.calls)
        src = A.clone()
        if src_numpy:
            src = src.numpy().copy()
        kw = {"eps": eps}
        if rmax is not None:
            kw["rmax"] = rmax
        rec.active = True
        try:
            if shp == "deduce":
                x = torchtt.TT(src, **kw)
            elif shp == "list":
                flat = src.reshape(-1) if not src_numpy else src.reshape(-1)
                x = torchtt.TT(flat, list(N), **kw)
            else:
                x = torchtt.TT(src, [(m, n) for m, n in zip(M, N)], **kw)
        finally:
            rec.active = False
        box["x"] = x
        box["calls"] = rec.calls[rec.calls_before:]
        return "ok"

    def oracle():
        if "x" not in box:
            return "the constructor raised"
        x = box["x"]
        if bool(x.is_ttm) != (M is not None):
            return "kind: is_ttm=%s" % x.is_ttm
        if list(x.N) != list(N) or (M is not None and list(x.M) != list(M)):
            return "shape N=%s M=%s, requested N=%s M=%s" % (x.N, x.M if x.is_ttm else None, N, M)
        R = [int(r) for r in x.R]
        if len(R) != d + 1 or R[0] != 1 or R[-1] != 1:
            return "boundary ranks %s" % R
        for k, c in enumerate(x.cores):
            want = [R[k], N[k], R[k + 1]] if M is None else [R[k], M[k], N[k], R[k + 1]]
            if list(c.shape) != want:
                return "core %d has shape %s, ranks/modes say %s" % (k, list(c.shape), want)
        rm = None
        if rmax is not None:
            rm = rmax if isinstance(rmax, list) else [1] + [rmax] * (d - 1) + [1]
            for k in range(1, d):
                if R[k] > rm[k]:
                    return "rank %d at bond %d exceeds rmax %d" % (R[k], k, rm[k])
        sizes = list(N) if M is None else [m * n for m, n in zip(M, N)]
        Ad = A.to(tn.complex128 if A.is_complex() else tn.float64)
        if M is not None:
            perm = [v for p in zip(range(d), range(d, 2 * d)) for v in p]
            Au = Ad.reshape(list(M) + list(N)).permute(perm).reshape(sizes)
        else:
            Au = Ad.reshape(sizes)
        if d >= 2 and eps >= 1e-10:
            ur = unfolding_ranks(Au, d, sizes)
            for k in range(1, d):
                if R[k] > max(ur[k - 1], 1):
                    return "rank %d at bond %d exceeds the exact unfolding rank %d" % (R[k], k, ur[k - 1])
        binding = False
        if rm is not None:
            for (s, e, r), k in zip(box["calls"], range(1, d)):
                if r > rm[k]:
                    binding = True
        # hypothesis `hb` of ttsvd_sweep_bound on this very run: the per-bond allowances (relative to the current remainder norm)
        # must add up, in squares, to at most eps^2
        tot = 0.0
        for (s, e, r) in box["calls"]:
            ns = float(np.linalg.norm(s))
            if ns > 0:
                tot += (e / ns) ** 2
        if tot > eps * eps * (1 + 1e-5):
            return "per-bond allowances sum to %.6g > eps^2 = %.6g (the sweep may discard more than eps allows)" % (tot, eps * eps)
        if not binding:
            full = dense_of(x).to(Ad.dtype)
            err = float(tn.linalg.norm((full - Ad.reshape(full.shape)).reshape(-1)))
            nrm = float(tn.linalg.norm(Ad.reshape(-1)))
            meps = 1.2e-7 if A.dtype in (tn.float32,) else 2.3e-16
            if not (err <= eps * nrm * (1 + 1e-7) + 100 * meps * nrm * math.sqrt(max(d, 1)) + 1e-300):      # NaN-safe
                return "error %.6g exceeds eps*||A|| = %.6g (eps=%g, ranks %s)" % (err, eps * nrm, eps, R)
        return None
    trunc = True
    return Case(None, impl, oracle, "ttsvd/" + label, trunc, desc="TT(%s) N=%s M=%s eps=%g rmax=%s" % (label, N, M, eps, rmax)), box


def run(res, rng, tier, known):
    from common import run_cases
    cases = direct_rank_chop_cases(rng, tier)
    rec = Recorder()
    rec.install()
    try:
        boxes = []
        for (label, A, shp, N, M, eps, rmax) in make_inputs(rng, tier):
            c, box = tt_case(rec, res, label, A, shp, N, M, eps, rmax)
            cases.append(c)
            boxes.append(box)
        run_cases(res, cases, known)
    finally:
        rec.uninstall()
    replay_decisions(res, rec.calls, res.prop, "to_tt")
    # exact tie of the sweep's data flow (reshapes, factor placement) with exact integer oracles in place of SVD / rank_chop
    from checks.sweeps import sweep_cases
    run_cases(res, sweep_cases(rng, tier, "to_tt") + sweep_cases(rng, tier, "mat_to_tt") + sweep_cases(rng, tier, "to_tt_rmax") + sweep_cases(rng, tier, "mat_to_tt_rmax"), known)
    res.extra["svd_contract_calls_bad"] = len(rec.svd_bad)
    if rec.svd_bad:
        res.notes.append("SVD contract breaches (oracle assumption, not a property violation by itself): %s" % rec.svd_bad[:3])
    ties = sum(1 for (s, e, r) in rec.calls if any(abs(float(np.sum(np.abs(s[k:]) ** 2)) - e * e) == 0 for k in range(1, len(s))))
    res.extra["rank_decisions_at_exact_tie"] = ties
    return {"level": LEVEL, "rule": RULE, "assumptions": ASSUMPTIONS,
            "not_by_theorem": ["the Frobenius error bound as a whole (needs the SVD contract; the rank-selection and allowance clauses are theorems, the orthogonality of successive truncation errors is not formalised)",
                               "rank <= exact unfolding rank (follows from rankChop_least with tail 0, the numerical rank of the SVD is trusted)"]}
