"""C17 — the compiled backend obeys the same contracts as the Python implementation.

The extension is rebuilt from /repo/cpp (cached by the hash of the sources; -std=c++20) together with a 5-line verification-only pybind
shim exposing ortho.h::rank_chop.  (a) C++ rank_chop vs its Lean twin `rankChopCpp` on integer spectra: exact; (b) dispatch logic;
(c) contract monitor: amen_solve / fast_matvec with use_cpp=True and False on the C11/C12 input classes: both satisfy the contracts and agree
with each other within them, for every preconditioner, with and without guess.  If the toolchain cannot build the extension the check
exits 2 (infrastructure), never 0."""
import sys, os, math
HERE = os.path.dirname(os.path.dirname(os.path.abspath(__file__)))
import build_cpp
_dir = build_cpp.build()
if _dir not in sys.path:
    sys.path.insert(0, _dir)
import numpy as np
import torch as tn
import torchttcpp          # noqa: the real backend, built from /repo/cpp
import ttverif_shim
import torchtt
import torchtt.solvers as S
from common import Case, num_str
from checks.c12 import system
from checks.c11 import rnd_cores
from gen import dense_of
from util import J

LEVEL = "proof"
C_RES, C_ERR = 10.0, 10.0
RULE = ("(a) rank_chop of cpp/ortho.h on integer spectra: all tie patterns, zeros, length 1..6, eps>0; (b) amen_solve and fast_matvec with use_cpp in {True, False} on the "
        "same inputs: SPD / diagonally dominant / Laplacian-like systems (order 2..4, modes 2..8), preconditioner None/'c'/'r', max_full in {0 (iterative local solver), 500}, with and without initial guess, seeds; "
        "products of order 2..5, ranks 1..4, eps in [1e-12,1e-2]; invalid inputs (unknown preconditioner, wrong kinds, shape mismatch) must be rejected identically. "
        "Non-trivial: every case.")
ASSUMPTIONS = ["the accuracy contracts are MONITORED on both backends (kind K); constants C = 10",
               "the extension is compiled with -std=c++20 instead of the repository's -std=c++17 (which no longer compiles against the installed torch headers)",
               "the C++ solver internals other than rank_chop (gmres.h, matvecs.h, BLAS.h) are not modelled: covered by the monitor only"]


def rank_chop_cases(rng, tier):
    cases = []
    for c in range(100 if tier == "quick" else 800):
        k = rng.choice([1, 2, 3, 4, 5, 6])
        s = sorted([rng.randint(0, 5) for _ in range(k)], reverse=True)
        if c % 9 == 0:
            s = [0] * k
        if c % 13 == 0:
            s = [rng.randint(1, 3)] * k
        tails = [sum(v * v for v in s[j:]) for j in range(k + 1)]
        mode = rng.choice(["tie", "tie", "between", "huge", "quarter"])
        if mode == "tie":
            sq = [t for t in tails if t > 0 and int(math.isqrt(t)) ** 2 == t]
            eps = float(math.isqrt(rng.choice(sq))) if sq else 0.5
        elif mode == "between":
            eps = rng.choice([0.5, 1.5, 2.5, 3.25, 0.75])
        elif mode == "huge":
            eps = 100.0
        else:
            eps = rng.randint(1, 24) / 4.0
        t = tn.tensor(s, dtype=tn.float64)

        def impl(t=t, eps=eps):
            return "sc %d" % int(ttverif_shim.rank_chop(t.clone(), eps))

        def oracle(t=t, eps=eps, s=s, tails=tails, k=k):
            r = int(ttverif_shim.rank_chop(t.clone(), eps))
            if not (1 <= r <= k):
                return "C++ rank %d outside [1,%d]" % (r, k)
            if tails[r] > eps * eps:
                return "C++ rank_chop discards energy %s > eps^2 = %s" % (tails[r], eps * eps)
            return None
        cases.append(Case(J("rankchopcpp", k, s, num_str(eps)), impl, oracle, "cpp_rank_chop/%s/len%d" % (mode, k), True))
    return cases


def solve_cases(rng, tier, stats):
    cases = []
    for c in range(24 if tier == "quick" else 240):
        d = rng.choice([2, 2, 3, 3, 4])
        hi = 8 if d <= 3 else 4
        N = [rng.randint(2, hi) for _ in range(d)]
        kind = rng.choice(["laplace", "spd", "dd"])
        eps = 10.0 ** rng.uniform(-10, -3)
        prec = [None, "c", "r"][(c // 2) % 3]
        guess = rng.random() < 0.4
        max_full = 0 if c % 2 == 1 else 500      # 0: every local system goes to the iterative (GMRES) solver, in both backends
        seed = rng.randrange(1 << 30)
        extra = {}
        fam = ""
        if c % 8 == 3:
            # restart family: the local GMRES cannot reach its tolerance in one short cycle, so the restart logic of BOTH backends runs
            d, N, kind, eps, max_full = 3, [16, 16, 16], "laplace", 1e-6, 50
            prec = [None, "c", "r"][(c // 8) % 3]
            extra = {"local_iterations": 10, "resets": 8}
            fam = "/gmres-restart"
        if c % 8 == 7:
            # slow-local-solve family: very short GMRES cycles without restart and without preconditioner — local solves that end above their
            # tolerance with a modest reduction must still be accepted by both backends
            d, N, kind, eps, max_full, prec = 3, [16, 16, 16], "laplace0", 1e-6, 0, None
            extra = {"local_iterations": 3, "resets": 1}
            fam = "/gmres-short"
        label = "amen_solve/%s/d%d/prec-%s/maxfull%d%s%s" % (kind, d, prec, max_full, "/guess" if guess else "", fam)
        box = {}

        def impl(N=N, kind=kind, eps=eps, prec=prec, guess=guess, seed=seed, box=box, max_full=max_full, extra=extra):
            tn.manual_seed(seed); np.random.seed(seed % (2 ** 32))
            A, b = system(rng, kind, N)
            x0 = torchtt.randn(N, [1] + [2] * (len(N) - 1) + [1]) if guess else None
            out = {}
            for cpp in (True, False):
                tn.manual_seed(seed + 1)
                x = S.amen_solve(A, b, x0=(x0.clone() if x0 is not None else None), eps=eps, nswp=40, preconditioner=prec, use_cpp=cpp, verbose=False, max_full=max_full, **extra)
                if not isinstance(x, torchtt.TT) or x.is_ttm or list(x.N) != list(N):
                    box["shape"] = "use_cpp=%s returned shape %s" % (cpp, getattr(x, "N", None))
                    return "bad"
                out[cpp] = x
            nb = float(b.norm())
            box["res"] = {cpp: float((A @ out[cpp] - b).norm()) / nb for cpp in out}
            box["dist"] = float((out[True] - out[False]).norm() / max(float(out[False].norm()), 1e-300))
            # distance between the two solutions is bounded by cond(A) * (res1 + res2); use the residual of the difference instead
            box["dres"] = float((A @ (out[True] - out[False])).norm()) / nb
            stats.append(("solve", max(box["res"].values()) / eps))
            return "ok"

        def oracle(box=box, eps=eps, label=label):
            if "shape" in box:
                return box["shape"]
            if "res" not in box:
                return "a backend raised"
            for cpp, r in box["res"].items():
                if not (r <= C_RES * eps):      # NaN-safe
                    return "use_cpp=%s: relative residual %.3g*eps exceeds %g*eps (%s)" % (cpp, r / eps, C_RES, label)
            if box["dres"] > 2 * C_RES * eps:
                return "the two backends differ: ||A(x_cpp - x_py)||/||b|| = %.3g*eps" % (box["dres"] / eps)
            return None
        cases.append(Case(None, impl, oracle, label, True, desc="%s N=%s eps=%.2g seed=%d" % (label, N, eps, seed)))
    return cases


def matvec_cases(rng, tier, stats):
    cases = []
    for c in range(18 if tier == "quick" else 200):
        d = rng.choice([2, 2, 3, 3, 4, 5] if tier != "quick" else [2, 3, 3, 4])
        hi = 6 if d <= 3 else 3
        N = [rng.randint(1, hi) for _ in range(d)]
        M = [rng.randint(1, hi) for _ in range(d)]
        eps = 10.0 ** rng.uniform(-12, -2)
        RA = [1] + [rng.randint(1, 4) for _ in range(d - 1)] + [1]
        Rx = [1] + [rng.randint(1, 4) for _ in range(d - 1)] + [1]
        guess = rng.random() < 0.4
        seed = rng.randrange(1 << 30)
        # complex operands (the DMRG product conjugates its interface tensors: every contraction has to follow the same convention), order >= 3
        cplx = c % 3 == 2
        if cplx and d < 3:
            d = 3
            N = [rng.randint(2, 4) for _ in range(d)]; M = [rng.randint(2, 4) for _ in range(d)]
            RA = [1] + [rng.randint(2, 3) for _ in range(d - 1)] + [1]; Rx = [1] + [rng.randint(2, 3) for _ in range(d - 1)] + [1]
        dt = tn.complex128 if cplx else tn.float64
        label = "fast_matvec/d%d%s%s" % (d, "/guess" if guess else "", "/c128" if cplx else "")
        box = {}

        def impl(d=d, N=N, M=M, eps=eps, RA=RA, Rx=Rx, guess=guess, seed=seed, box=box, dt=dt):
            tn.manual_seed(seed); np.random.seed(seed % (2 ** 32))
            A = torchtt.TT(rnd_cores(rng, [[RA[k], M[k], N[k], RA[k + 1]] for k in range(d)], dt, False))
            x = torchtt.TT(rnd_cores(rng, [[Rx[k], N[k], Rx[k + 1]] for k in range(d)], dt, False))
            gr = [1] + [rng.randint(1, 4) for _ in range(d - 1)] + [1]
            g = torchtt.TT(rnd_cores(rng, [[gr[k], M[k], gr[k + 1]] for k in range(d)], dt, False)) if guess else None
            exact = dense_of(A).reshape(int(np.prod(M)), -1) @ dense_of(x).reshape(-1)
            nrm = float(tn.linalg.norm(exact))
            errs = {}
            for cpp in (True, False):
                tn.manual_seed(seed + 1)
                y = A.fast_matvec(x, eps=eps, initial=(g.clone() if g is not None else None), nswp=30, use_cpp=cpp)
                if not isinstance(y, torchtt.TT) or y.is_ttm or list(y.N) != M:
                    box["shape"] = "use_cpp=%s returned shape %s" % (cpp, getattr(y, "N", None))
                    return "bad"
                errs[cpp] = float(tn.linalg.norm(dense_of(y).reshape(-1) - exact)) / max(nrm, 1e-300)
            box["errs"] = errs
            stats.append(("matvec", max(errs.values()) / eps))
            return "ok"

        def oracle(box=box, eps=eps, label=label):
            if "shape" in box:
                return box["shape"]
            if "errs" not in box:
                return "a backend raised"
            for cpp, e in box["errs"].items():
                if not (e <= C_ERR * eps or e <= 1e-13):      # NaN-safe
                    return "use_cpp=%s: relative error %.3g*eps exceeds %g*eps (%s)" % (cpp, e / eps, C_ERR, label)
            return None
        cases.append(Case(None, impl, oracle, label, True, desc="%s N=%s M=%s eps=%.2g seed=%d" % (label, N, M, eps, seed)))
    return cases


def accept_cases(rng):
    """both backends must accept / reject the same inputs"""
    cases = []
    from walk import rnd_tt, spd_ttm

    def both(f):
        out = []
        for cpp in (True, False):
            try:
                r = f(cpp)
                out.append("ok")
            except Exception as e:
                out.append(type(e).__name__)
        return out
    N = [2, 3]
    A = spd_ttm(rng, N); b = rnd_tt(rng, N); T = rnd_tt(rng, N); Ab = rnd_tt(rng, [3, 3], [2, 2])
    specs = [("unknown-preconditioner", lambda cpp: S.amen_solve(A, b, preconditioner="zz", use_cpp=cpp, verbose=False)),
             ("b-is-operator", lambda cpp: S.amen_solve(A, A, use_cpp=cpp, verbose=False)),
             ("A-is-tensor", lambda cpp: S.amen_solve(T, b, use_cpp=cpp, verbose=False)),
             ("shape-mismatch", lambda cpp: S.amen_solve(A, rnd_tt(rng, [3, 3]), use_cpp=cpp, verbose=False)),
             ("non-tt", lambda cpp: S.amen_solve(A, 3.0, use_cpp=cpp, verbose=False)),
             ("matvec-kinds", lambda cpp: T.fast_matvec(T, use_cpp=cpp)),
             ("matvec-non-tt", lambda cpp: A.fast_matvec(2, use_cpp=cpp)),
             ("valid-solve", lambda cpp: S.amen_solve(A, b, eps=1e-6, use_cpp=cpp, verbose=False)),
             ("valid-matvec", lambda cpp: A.fast_matvec(b, use_cpp=cpp))]
    for name, f in specs:
        def oracle(f=f, name=name):
            o = both(f)
            if o[0] != o[1]:
                return "backends disagree on %s: use_cpp=True -> %s, use_cpp=False -> %s" % (name, o[0], o[1])
            if name.startswith("valid") and o[0] != "ok":
                return "a valid call raised %s" % o[0]
            if not name.startswith("valid") and o[0] == "ok":
                return "invalid input accepted by both backends (%s)" % name
            return None
        cases.append(Case(None, (lambda: "ok"), oracle, "accept/" + name, True, desc="same inputs accepted: " + name))
    return cases


def run(res, rng, tier, known):
    from common import run_cases
    stats = []
    if not torchtt.cpp_enabled():
        raise RuntimeError("torchtt did not pick up the freshly built C++ backend")
    cases = rank_chop_cases(rng, tier) + accept_cases(rng) + solve_cases(rng, tier, stats) + matvec_cases(rng, tier, stats)
    run_cases(res, cases, known)
    if stats:
        res.extra["contract_monitor_runs"] = len(stats)
        res.extra["contract_monitor_max_ratio"] = max(s[1] for s in stats)
    res.extra["cpp_backend_dir"] = os.path.basename(_dir)
    return {"level": LEVEL, "rule": RULE, "assumptions": ASSUMPTIONS,
            "not_by_theorem": ["accuracy contracts of both backends and their mutual agreement (kind K + 'two float programs agree': monitored)",
                               "C++ code other than rank_chop (amen_solve.h, dmrg_mv.h, gmres.h, matvecs.h): monitor only"]}
