"""C19 — copies and save/load round-trips reproduce the object exactly."""
import os, tempfile
import numpy as np
import torch as tn
import torchtt
from common import Case, run_driver
from gen import DTYPES, rand_tt, rand_modes, rand_ranks, dense_of, exact_equal, int_tensor
from checks.c05 import meta_str, wf_violation
from util import J

LEVEL = "proof"
RULE = ("TT tensors / TT matrices of order 1..6, all mode/rank profiles incl. unit modes, float32/float64/complex128; objects straight out of TT-SVD "
        "(rank list holds numpy integers), out of slicing (non-contiguous core views), out of transpose/conj (views); for each: save->load, clone, "
        "detach, to(dtype), cpu, numpy. Loaded metadata is also compared with the Lean constructor model on the core shapes. Non-trivial: every case.")
ASSUMPTIONS = ["torch.save / torch.load / pickle reproduce tensors bit for bit (trusted)", "storage identity via untyped_storage().data_ptr()"]


def storages(x):
    return {c.untyped_storage().data_ptr() for c in x.cores if c.numel() > 0}


def one(cases, model, rng, tier, d, rep, tmpdir):
    dtname = ["f64", "f32", "c128", "c64"][(d + rep) % 4]
    dt = DTYPES[dtname]
    kind = ["plain", "ttm", "svd", "sliced", "view", "ttm-unit", "zero-core", "svd-of-zero"][rep % 8]
    N = rand_modes(rng, d, 1, 4 if d <= 4 else 2, distinct=False)
    if kind == "ttm" or kind == "ttm-unit":
        M = rand_modes(rng, d, 1, 3 if d <= 4 else 2, distinct=False)
        if kind == "ttm-unit":
            M = [1] * d
        x = rand_tt(rng, N, rand_ranks(rng, d, 3), dt, M=M)
    elif kind == "svd":
        # TT-SVD with an active truncation: the rank list then holds numpy integers (np.argmax result)
        base = rand_tt(rng, N, rand_ranks(rng, d, 2), dt)
        g = tn.Generator().manual_seed(rng.randrange(1 << 30))
        A = dense_of(base) + 1e-3 * tn.randn(N, generator=g, dtype=tn.float64).to(dt)
        x = torchtt.TT(A, eps=rng.choice([1e-12, 0.05, 0.5]))
    elif kind == "sliced":
        big = rand_tt(rng, [n + 2 for n in N], rand_ranks(rng, d, 3), dt)
        x = big[tuple(slice(1, n + 1) for n in N)] if d > 1 else big[(slice(1, N[0] + 1),)]
    elif kind == "zero-core":
        base = rand_tt(rng, N, rand_ranks(rng, d, 3), dt)
        cs = [c.clone() for c in base.cores]
        cs[rng.randrange(d)] *= 0            # an exactly zero core next to non-zero ones (a masked product, an off-diagonal block)
        x = torchtt.TT(cs)
    elif kind == "svd-of-zero":
        x = torchtt.TT(tn.zeros(N, dtype=dt), eps=1e-10)
    elif kind == "view":
        Aop = rand_tt(rng, N, rand_ranks(rng, d, 2), dt, M=[min(n + 1, 3) for n in N])
        x = Aop.t().conj()
    else:
        x = rand_tt(rng, N, rand_ranks(rng, d, 3), dt)
    label = "%s/d%d/%s" % (kind, d, dtname)
    path = os.path.join(tmpdir, "obj_%d_%d.TT" % (d, rep))

    def impl():
        torchtt.save(x, path)
        y = torchtt.load(path)
        # the file is written again (another object of the same structure, as a checkpoint loop does) and then removed while `y` is alive:
        # the loaded object owns its data
        other = torchtt.TT([c * 0 + 7 for c in x.cores])
        torchtt.save(other, path)
        os.remove(path)
        impl.y = y
        return meta_str(y)

    def oracle():
        y = getattr(impl, "y", None)
        if y is None:
            return "save/load raised"
        if meta_str(y) != meta_str(x):
            return "metadata differs after load: %s vs %s" % (meta_str(y), meta_str(x))
        for k, (a, b) in enumerate(zip(x.cores, y.cores)):
            if a.dtype != b.dtype or a.shape != b.shape or not tn.equal(a, b):
                return "core %d not bit-identical after load" % k
        v = wf_violation(y)
        if v:
            return "loaded object malformed: " + v
        dx = dense_of(x)
        c = x.clone()
        if storages(c) & storages(x):
            return "clone shares storage with the original"
        import copy as _copy, pickle as _pickle
        dcp = _copy.deepcopy(x)
        if storages(dcp) & storages(x):
            return "deepcopy shares storage with the original"
        for nm, z in (("clone", c), ("detach", x.detach()), ("cpu", x.cpu()), ("copy.deepcopy", dcp), ("copy.copy", _copy.copy(x)), ("pickle", _pickle.loads(_pickle.dumps(x)))):
            if meta_str(z) != meta_str(x):
                return "%s changed metadata" % nm
            e = exact_equal(dense_of(z), dx)
            if e:
                return "%s changed the value: %s" % (nm, e)
            if any(a.dtype != b.dtype for a, b in zip(z.cores, x.cores)):
                return "%s changed dtype" % nm
        from gen import close
        src = x.cores[0].dtype
        # every value-preserving target: same dtype, the other precision of the same kind, real -> complex (both precisions)
        targets = [src] + ([tn.complex128, tn.complex64] if dx.is_complex() else [tn.float64, tn.float32, tn.complex128, tn.complex64])
        for tgt in targets:
            z = x.to(dtype=tgt)
            if any(cc.dtype != tgt for cc in z.cores):
                return "to(dtype=%s) of a %s object returned cores of dtype %s" % (tgt, src, sorted({str(cc.dtype) for cc in z.cores}))
            if meta_str(z).replace(str(tgt), "") != meta_str(x).replace(str(src), ""):
                pass
            if list(z.N) != list(x.N) or list(z.R) != list(x.R) or bool(z.is_ttm) != bool(x.is_ttm):
                return "to(dtype=%s) changed shape / ranks / kind" % tgt
            single = tgt in (tn.float32, tn.complex64) or src in (tn.float32, tn.complex64)
            e = close(dense_of(z), dx.to(tgt), 1e-5 if single else 1e-13)
            if e:
                return "to(dtype=%s) changed the value: %s" % (tgt, e)
        npv = x.numpy()
        if not isinstance(npv, np.ndarray):
            return "numpy() returned %s" % type(npv).__name__
        e = exact_equal(tn.as_tensor(npv), x.full())
        if e:
            return "numpy() differs from full(): " + e
        # integer-valued cores: exact; TT-SVD cores are floats and the two contraction orders differ by roundoff
        e = close(x.full(), dx, 1e-5 if src in (tn.float32, tn.complex64) else 1e-12) if kind == "svd" else exact_equal(x.full(), dx)
        if e:
            return "full() differs from the contraction of the cores: " + e
        return None
    cases.append(Case(None, impl, oracle, "roundtrip/" + label, True, desc="save/load %s N=%s R=%s" % (label, list(x.N), [int(r) for r in x.R])))
    shapes = [list(c.shape) for c in x.cores]
    model.append((J("ctor", len(shapes), [v for s in shapes for v in ([len(s)] + s)]), meta_str(x)))


def run(res, rng, tier, known):
    from common import run_cases
    cases, model = [], []
    orders = [1, 2, 3, 4, 5] if tier == "quick" else [1, 2, 3, 4, 5, 6]
    reps = 8 if tier == "quick" else 24
    with tempfile.TemporaryDirectory(prefix="ttverif_c19_") as tmpdir:
        for d in orders:
            for rep in range(reps):
                one(cases, model, rng, tier, d, rep, tmpdir)
        run_cases(res, cases, known)
    outs = run_driver([m[0] for m in model])
    for (line, io), mo in zip(model, outs):
        res.model_cases += 1
        if io.replace(" ", "") == mo.replace(" ", ""):
            res.core_equal += 1
        else:
            res.violation({"property": "C19", "kind": "correspondence", "class": "ctor-meta", "case": line, "impl_outcome": io, "model_outcome": mo}, no_input=True)
    return {"level": LEVEL, "rule": RULE, "assumptions": ASSUMPTIONS,
            "not_by_theorem": ["bit-identity of the tensors through torch.save/torch.load (pickle is trusted); absence of shared storage for clone (checked per case through storage pointers)"]}
